(* A structural pass over the timeout pass: every program it runs keeps any
   predicate on WORLDS that is stable under "one more call was logged" and
   under a change of the error trace -- for every oracle, as precondition,
   postcondition and crash condition.

   The instance that motivates the file: "some access(2) probe was made to
   fail" (AF) is such a predicate, so once it holds it holds for the rest of
   the pass, whatever the oracle does.

   Structure follows StoreLogic.v / StoreProgs.v: leaves, a stepping tactic,
   one small induction lemma per fixpoint of the model. *)
From K Require Import Str Dec Trace Fs World Progs Elf Linq Sieve Handler Hoare StoreLogic QueueProofs CrashQueue.

Definition stable (L : world -> Prop) : Prop :=
  (forall w c r f', L w -> L (after_call c r f' w)) /\
  (forall w t, L w -> L (Hoare.upd_tr t w)).

Definition lm {A} (L : world -> Prop) (m : M A) : Prop :=
  ht (fun _ => True) L m (fun _ => L) L.

(* what a triple of this form says about a run *)
Lemma lm_run {A} (L : world -> Prop) (m : M A) :
  lm L m -> forall o w, L w -> L (snd (m o w)).
Proof.
  intros Hm o w Hw. specialize (Hm o w I Hw).
  destruct (m o w) as [[a|] w']; exact Hm.
Qed.

(* the combinator used by the caller: a stable predicate may be added as an
   alternative to all three conditions of any triple *)
Lemma ht_or_stable {A} O (L P : world -> Prop) (m : M A) Q C :
  lm L m -> ht O P m Q C ->
  ht O (fun w => P w \/ L w) m (fun a w => Q a w \/ L w) (fun w => C w \/ L w).
Proof.
  intros Hl Hp o w Ho [HP|HLw].
  - specialize (Hp o w Ho HP). destruct (m o w) as [[a|] w']; left; exact Hp.
  - specialize (Hl o w I HLw). destruct (m o w) as [[a|] w']; right; exact Hl.
Qed.

(* ---------- leaves ---------- *)

Section Leaves.
Variable L : world -> Prop.
Hypothesis HL : stable L.

Lemma lm_ret {A} (a : A) : lm L (ret_ a).
Proof. apply ht_ret. auto. Qed.

Lemma lm_bind {A B} (m : M A) (k : A -> M B) :
  lm L m -> (forall a, lm L (k a)) -> lm L (bind m k).
Proof. intros Hm Hk. eapply ht_bind; [exact Hm | intros a; apply Hk]. Qed.

(* any call, any perform / on_fail *)
Lemma lm_sys {A} c (perform : fs -> ret * A * fs) (on_fail : errno -> A) :
  lm L (sys c perform on_fail).
Proof.
  apply ht_sys.
  - intros w Hw. exact Hw.
  - intros w e Hw. apply (proj1 HL). exact Hw.
  - intros w Hw. destruct (perform (w_fs w)) as [[r a] f']. apply (proj1 HL). exact Hw.
Qed.

Lemma lm_get_tr : lm L get_tr.
Proof. intros o w _ Hw. exact Hw. Qed.

Lemma lm_set_tr t : lm L (set_tr t).
Proof. intros o w _ Hw. exact (proj2 HL w t Hw). Qed.

Lemma lm_get_clock : lm L get_clock.
Proof. intros o w _ Hw. exact Hw. Qed.

Lemma lm_get_fs : lm L get_fs.
Proof. intros o w _ Hw. exact Hw. Qed.

Lemma lm_transfer_limit b n : lm L (transfer_limit b n).
Proof. intros o w _ Hw. exact Hw. Qed.

Lemma lm_mod_tr g : lm L (mod_tr g).
Proof. unfold mod_tr. apply lm_bind; [apply lm_get_tr | intros t; apply lm_set_tr]. Qed.

Lemma lm_is_ok : lm L is_ok.
Proof. unfold is_ok. apply lm_bind; [apply lm_get_tr | intros t; apply lm_ret]. Qed.

Lemma lm_throw fr : lm L (throw fr).
Proof. apply lm_mod_tr. Qed.
Lemma lm_throw_static m : lm L (throw_static m).
Proof. apply lm_mod_tr. Qed.
Lemma lm_throw_errno e : lm L (throw_errno e).
Proof. apply lm_mod_tr. Qed.
Lemma lm_throw_context s : lm L (throw_context s).
Proof. apply lm_mod_tr. Qed.
Lemma lm_try : lm L try_.
Proof. apply lm_mod_tr. Qed.
Lemma lm_finally : lm L finally_.
Proof. apply lm_mod_tr. Qed.
Lemma lm_finally_rethrow_static m : lm L (finally_rethrow_static m).
Proof. apply lm_mod_tr. Qed.
Lemma lm_rethrow_context s : lm L (rethrow_context s).
Proof. apply lm_mod_tr. Qed.

Lemma lm_catch_static m : lm L (catch_static m).
Proof.
  unfold catch_static. apply lm_bind; [apply lm_get_tr | intros t].
  destruct (tr_catch_static m t) as [b t'].
  apply lm_bind; [apply lm_set_tr | intros _; apply lm_ret].
Qed.

Lemma lm_sys_unit c op : lm L (sys_unit c op).
Proof. apply lm_sys. Qed.

Lemma lm_open_gen c op : lm L (k_open_gen c op).
Proof. apply lm_sys. Qed.

End Leaves.

(* ---------- stepping ----------
   Needs a hypothesis [stable L] in the context.  [leaf] is tried on whatever
   is not a bind / ret / trace primitive / match / wrapped system call. *)

Ltac lmk_with leaf :=
  repeat (lazymatch goal with
          | |- lm _ (ret_ _) => apply lm_ret
          | |- lm _ (bind _ _) => apply lm_bind; [|intros ?]
          | |- lm _ get_tr => apply lm_get_tr
          | |- lm _ (set_tr _) => apply lm_set_tr; assumption
          | |- lm _ get_clock => apply lm_get_clock
          | |- lm _ get_fs => apply lm_get_fs
          | |- lm _ (transfer_limit _ _) => apply lm_transfer_limit
          | |- lm _ (mod_tr _) => apply lm_mod_tr; assumption
          | |- lm _ is_ok => apply lm_is_ok
          | |- lm _ (throw _) => apply lm_throw; assumption
          | |- lm _ (throw_static _) => apply lm_throw_static; assumption
          | |- lm _ (throw_errno _) => apply lm_throw_errno; assumption
          | |- lm _ (throw_context _) => apply lm_throw_context; assumption
          | |- lm _ try_ => apply lm_try; assumption
          | |- lm _ finally_ => apply lm_finally; assumption
          | |- lm _ (finally_rethrow_static _) => apply lm_finally_rethrow_static; assumption
          | |- lm _ (rethrow_context _) => apply lm_rethrow_context; assumption
          | |- lm _ (catch_static _) => apply lm_catch_static; assumption
          | |- lm _ (when_ok _ _) => unfold when_ok
          | |- lm _ (sys _ _ _) => apply lm_sys; assumption
          | |- lm _ (sys_unit _ _) => apply lm_sys_unit; assumption
          | |- lm _ (k_open_gen _ _) => apply lm_open_gen; assumption
          | |- lm _ (k_mkdir _) => unfold k_mkdir
          | |- lm _ (k_mkdirat _ _) => unfold k_mkdirat
          | |- lm _ (k_rmdir _) => unfold k_rmdir
          | |- lm _ (k_unlink _) => unfold k_unlink
          | |- lm _ (k_unlinkat _ _) => unfold k_unlinkat
          | |- lm _ (k_link _ _) => unfold k_link
          | |- lm _ (k_linkat _ _ _) => unfold k_linkat
          | |- lm _ (k_symlinkat _ _ _) => unfold k_symlinkat
          | |- lm _ (k_open_read _) => unfold k_open_read
          | |- lm _ (k_open_excl _) => unfold k_open_excl
          | |- lm _ (k_open_w _) => unfold k_open_w
          | |- lm _ (k_open_a _) => unfold k_open_a
          | |- lm _ (k_open_dir _) => unfold k_open_dir
          | |- lm _ k_close => unfold k_close
          | |- lm _ (k_fstat _) => unfold k_fstat
          | |- lm _ (k_sendfile _ _ _ _) => unfold k_sendfile
          | |- lm _ (k_write _ _) => unfold k_write
          | |- lm _ (k_read1 _ _) => unfold k_read1
          | |- lm _ (k_read _ _ _) => unfold k_read
          | |- lm _ (k_ftruncate _) => unfold k_ftruncate
          | |- lm _ (k_readlinkat _ _ _) => unfold k_readlinkat
          | |- lm _ (k_fstatat_mtime _ _) => unfold k_fstatat_mtime
          | |- lm _ (k_access _) => unfold k_access
          | |- lm _ (k_scandir _) => unfold k_scandir
          | |- lm _ (k_fts _ _) => unfold k_fts
          | |- lm _ (let _ := _ in _) => cbv zeta
          | |- lm _ (match ?x with _ => _ end) => destruct x
          | |- lm _ (if ?b then _ else _) => destruct b
          | |- lm _ (let '(_, _) := ?x in _) => destruct x
          | |- lm _ _ => leaf
          end).

(* ---------- the programs of the timeout pass ---------- *)

(* [lf prog lem]: use [lem] if the program of the goal is an application of
   [prog].  (A bare [apply lem] is not safe as a leaf: [lm] unfolds to a
   product ending in a match, and [apply] can then "succeed" on a goal about
   a different program.)  A premise [stable L] is taken from the context. *)
Ltac head_of t := lazymatch t with ?f _ => head_of f | _ => t end.
Ltac lf prog lem :=
  idtac;     (* so that [lf p l] passed as an argument is a tactic, not evaluated at the call *)
  lazymatch goal with
  | |- lm _ ?m =>
      let h := head_of m in
      first [constr_eq h prog | fail 1 "other program"];
      apply lem; try assumption
  end.

Section Progs.
Variable L : world -> Prop.
Hypothesis HL : stable L.

Ltac lmk0 := lmk_with fail.

(* the wrapped system calls, as lemmas *)
Lemma lm_mkdir p : lm L (k_mkdir p).                       Proof. lmk0. Qed.
Lemma lm_mkdirat d r : lm L (k_mkdirat d r).               Proof. lmk0. Qed.
Lemma lm_rmdir p : lm L (k_rmdir p).                       Proof. lmk0. Qed.
Lemma lm_unlink p : lm L (k_unlink p).                     Proof. lmk0. Qed.
Lemma lm_unlinkat d n : lm L (k_unlinkat d n).             Proof. lmk0. Qed.
Lemma lm_link a b : lm L (k_link a b).                     Proof. lmk0. Qed.
Lemma lm_linkat a d r : lm L (k_linkat a d r).             Proof. lmk0. Qed.
Lemma lm_symlinkat t d n : lm L (k_symlinkat t d n).       Proof. lmk0. Qed.
Lemma lm_open_read p : lm L (k_open_read p).               Proof. lmk0. Qed.
Lemma lm_open_excl p : lm L (k_open_excl p).               Proof. lmk0. Qed.
Lemma lm_open_w p : lm L (k_open_w p).                     Proof. lmk0. Qed.
Lemma lm_open_a p : lm L (k_open_a p).                     Proof. lmk0. Qed.
Lemma lm_open_dir p : lm L (k_open_dir p).                 Proof. lmk0. Qed.
Lemma lm_close : lm L k_close.                             Proof. lmk0. Qed.
Lemma lm_fstat d : lm L (k_fstat d).                       Proof. lmk0. Qed.
Lemma lm_sendfile out inp off n : lm L (k_sendfile out inp off n).  Proof. lmk0. Qed.
Lemma lm_write i b : lm L (k_write i b).                   Proof. lmk0. Qed.
Lemma lm_read1 i pos : lm L (k_read1 i pos).               Proof. lmk0. Qed.
Lemma lm_read i pos n : lm L (k_read i pos n).             Proof. lmk0. Qed.
Lemma lm_ftruncate i : lm L (k_ftruncate i).               Proof. lmk0. Qed.
Lemma lm_readlinkat d n s : lm L (k_readlinkat d n s).     Proof. lmk0. Qed.
Lemma lm_fstatat d n : lm L (k_fstatat_mtime d n).         Proof. lmk0. Qed.
Lemma lm_access p : lm L (k_access p).                     Proof. lmk0. Qed.
Lemma lm_scandir p : lm L (k_scandir p).                   Proof. lmk0. Qed.
Lemma lm_fts r p : lm L (k_fts r p).                       Proof. lmk0. Qed.

(* ---------- parents.c, clean_up ---------- *)

Lemma lm_mkdir_all ds : lm L (mkdir_all ds).
Proof.
  induction ds as [|d ds IH]; cbn [mkdir_all]; [apply lm_ret|].
  lmk_with ltac:(lf mkdir_all IH).
Qed.

Lemma lm_create_parents p : lm L (create_parents p).
Proof. unfold create_parents. lmk_with ltac:(lf mkdir_all lm_mkdir_all). Qed.

Lemma lm_rmdir_up ds : lm L (rmdir_up ds).
Proof.
  induction ds as [|d ds IH]; cbn [rmdir_up]; [apply lm_ret|].
  lmk_with ltac:(lf rmdir_up IH).
Qed.

Lemma lm_remove_empty_parents p : lm L (remove_empty_parents p).
Proof. unfold remove_empty_parents. lmk_with ltac:(lf rmdir_up lm_rmdir_up). Qed.

Lemma lm_clean_up p : lm L (clean_up p).
Proof. unfold clean_up. lmk_with ltac:(lf remove_empty_parents lm_remove_empty_parents). Qed.

(* ---------- counter.c ---------- *)

Lemma lm_read_digits fuel : forall d pos acc, lm L (read_digits fuel d pos acc).
Proof.
  induction fuel as [|fuel IH]; intros d pos acc; cbn [read_digits]; [apply lm_ret|].
  lmk_with ltac:(lf read_digits IH).
Qed.

(* (does not need HL; kept in the uniform shape [stable L -> ...] of the other programs) *)
Lemma lm_file_len d : lm L (file_len d).
Proof using HL. unfold file_len. lmk0. Qed.

Lemma lm_read_counter p : lm L (read_counter p).
Proof.
  unfold read_counter.
  lmk_with ltac:(first [lf file_len lm_file_len | lf read_digits lm_read_digits]).
Qed.

Lemma lm_write_digits i ds : lm L (write_digits i ds).
Proof.
  induction ds as [|ch ds IH]; cbn [write_digits]; [apply lm_ret|].
  lmk_with ltac:(lf write_digits IH).
Qed.

Lemma lm_write_counter p n : lm L (write_counter p n).
Proof.
  unfold write_counter.
  lmk_with ltac:(first [ lf remove_empty_parents lm_remove_empty_parents
                       | lf create_parents lm_create_parents | lf write_digits lm_write_digits ]).
Qed.

(* ---------- sync.c ---------- *)

Lemma lm_sendfile_loop fuel : forall out inp off size, lm L (sendfile_loop fuel out inp off size).
Proof.
  induction fuel as [|fuel IH]; intros out inp off size; cbn [sendfile_loop]; [apply lm_ret|].
  lmk_with ltac:(lf sendfile_loop IH).
Qed.

Lemma lm_sync_file dst src off : lm L (sync_file dst src off).
Proof.
  unfold sync_file.
  lmk_with ltac:(first [ lf create_parents lm_create_parents | lf clean_up lm_clean_up
                       | lf sendfile_loop lm_sendfile_loop ]).
Qed.

(* ---------- timestamp.c, journal.c ---------- *)

Lemma lm_get_timestamp p : lm L (get_timestamp p).
Proof. unfold get_timestamp. lmk0. Qed.

Lemma lm_write_all fuel : forall i b, lm L (write_all fuel i b).
Proof.
  induction fuel as [|fuel IH]; intros i b; cbn [write_all]; [apply lm_ret|].
  lmk_with ltac:(lf write_all IH).
Qed.

Lemma lm_note ev pid path j : lm L (note ev pid path j).
Proof.
  unfold note.
  lmk_with ltac:(first [lf get_timestamp lm_get_timestamp | lf write_all lm_write_all]).
Qed.

Lemma lm_record_event ev pid path h : lm L (record_event ev pid path h).
Proof. unfold record_event. lmk_with ltac:(lf note lm_note). Qed.

(* ---------- the queue ---------- *)

Lemma lm_read_entry_loop fuel : forall dir name size, lm L (read_entry_loop fuel dir name size).
Proof.
  induction fuel as [|fuel IH]; intros dir name size; cbn [read_entry_loop]; [apply lm_ret|].
  lmk_with ltac:(lf read_entry_loop IH).
Qed.

Lemma lm_read_entry q name : lm L (read_entry q name).
Proof. unfold read_entry. lmk_with ltac:(lf read_entry_loop lm_read_entry_loop). Qed.

Lemma lm_q_pop_head q : lm L (q_pop_head q).
Proof. unfold q_pop_head. lmk_with ltac:(lf read_entry lm_read_entry). Qed.

(* q_get_head is a Fixpoint whose body starts with binds: unfold it by the
   equation of QueueProofs, then reduce the match on the fuel *)
Lemma lm_q_get_head fuel : forall q, lm L (q_get_head fuel q).
Proof.
  induction fuel as [|fuel IH]; intros q; rewrite q_get_head_unfold; cbv match;
    lmk_with ltac:(first [lf read_entry lm_read_entry | lf q_pop_head lm_q_pop_head | lf q_get_head IH]).
Qed.

(* ---------- sync_shallow_tree ---------- *)

Lemma lm_tree_loop ents : forall src_len dst filt, lm L (tree_loop ents src_len dst filt).
Proof.
  induction ents as [|[p k] ents IH]; intros src_len dst filt; cbn [tree_loop]; [apply lm_ret|].
  lmk_with ltac:(lf tree_loop IH).
Qed.

Lemma lm_sync_shallow_tree rev dst src filt : lm L (sync_shallow_tree rev dst src filt).
Proof.
  unfold sync_shallow_tree.
  lmk_with ltac:(first [ lf create_parents lm_create_parents | lf clean_up lm_clean_up
                       | lf tree_loop lm_tree_loop ]).
Qed.

(* ---------- the loops of handle_timeout ---------- *)

Lemma lm_project_store_loop fuel : forall rev sp unstable head cfg ev,
  lm L (project_store_loop fuel rev sp unstable head cfg ev).
Proof.
  induction fuel as [|fuel IH]; intros rev sp unstable head cfg ev; cbn [project_store_loop];
    [apply lm_ret|].
  lmk_with ltac:(first [lf sync_shallow_tree lm_sync_shallow_tree | lf project_store_loop IH]).
Qed.

Lemma lm_file_store_loop fuel : forall sp head offp off ish cfg,
  lm L (file_store_loop fuel sp head offp off ish cfg).
Proof.
  induction fuel as [|fuel IH]; intros sp head offp off ish cfg; cbn [file_store_loop];
    [apply lm_ret|].
  lmk_with ltac:(first [ lf sync_file lm_sync_file | lf write_counter lm_write_counter
                       | lf file_store_loop IH ]).
Qed.

Ltac leafP :=
  first [ lf create_parents lm_create_parents | lf record_event lm_record_event
        | lf q_pop_head lm_q_pop_head | lf q_get_head lm_q_get_head
        | lf get_timestamp lm_get_timestamp | lf read_counter lm_read_counter
        | lf project_store_loop lm_project_store_loop | lf file_store_loop lm_file_store_loop ].

(* the tail of one iteration over a file head, given the loop *)
Lemma lm_file_tail_from fuel rev h1 cfg path rel pre_off r2 :
  (forall rev' h', lm L (handle_timeout_loop fuel rev' h')) ->
  lm L (file_tail fuel rev h1 cfg path rel pre_off r2).
Proof.
  intros IH. unfold file_tail.
  lmk_with ltac:(first [leafP | lf handle_timeout_loop IH]).
Qed.

Lemma lm_handle_timeout_loop_s fuel : forall rev h, lm L (handle_timeout_loop fuel rev h).
Proof.
  induction fuel as [|fuel IH]; intros rev h; cbn [handle_timeout_loop]; [apply lm_ret|].
  lmk_with ltac:(first [leafP | lf handle_timeout_loop IH]).
Qed.

Lemma lm_file_tail_s fuel rev h1 cfg path rel pre_off r2 :
  lm L (file_tail fuel rev h1 cfg path rel pre_off r2).
Proof. apply lm_file_tail_from. intros rev' h'. apply lm_handle_timeout_loop_s. Qed.

Lemma lm_handle_timeout_s rev h : lm L (handle_timeout rev h).
Proof. unfold handle_timeout. lmk_with ltac:(lf handle_timeout_loop lm_handle_timeout_loop_s). Qed.

End Progs.

(* ---------- the exported stepping tactic ----------
   (the lemmas now carry the premise [stable L]; it is found in the context) *)

Ltac lm_leaf :=
  first [ lf mkdir_all lm_mkdir_all | lf create_parents lm_create_parents | lf rmdir_up lm_rmdir_up
        | lf remove_empty_parents lm_remove_empty_parents | lf clean_up lm_clean_up
        | lf read_digits lm_read_digits | lf file_len lm_file_len | lf read_counter lm_read_counter
        | lf write_digits lm_write_digits | lf write_counter lm_write_counter
        | lf sendfile_loop lm_sendfile_loop | lf sync_file lm_sync_file
        | lf get_timestamp lm_get_timestamp | lf write_all lm_write_all | lf note lm_note
        | lf record_event lm_record_event | lf read_entry_loop lm_read_entry_loop
        | lf read_entry lm_read_entry | lf q_pop_head lm_q_pop_head | lf q_get_head lm_q_get_head
        | lf tree_loop lm_tree_loop | lf sync_shallow_tree lm_sync_shallow_tree
        | lf project_store_loop lm_project_store_loop | lf file_store_loop lm_file_store_loop
        | lf file_tail lm_file_tail_s | lf handle_timeout_loop lm_handle_timeout_loop_s
        | lf handle_timeout lm_handle_timeout_s ].

Ltac lmk := lmk_with lm_leaf.

(* ---------- final theorems ---------- *)

Theorem lm_handle_timeout_loop L : stable L -> forall fuel rev h, lm L (handle_timeout_loop fuel rev h).
Proof. intros HL fuel rev h. apply lm_handle_timeout_loop_s. exact HL. Qed.

Theorem lm_handle_timeout L : stable L -> forall rev h, lm L (handle_timeout rev h).
Proof. intros HL rev h. apply lm_handle_timeout_s. exact HL. Qed.

Theorem lm_file_tail L : stable L -> forall fuel rev h1 cfg path rel pre_off r2,
  lm L (file_tail fuel rev h1 cfg path rel pre_off r2).
Proof. intros HL fuel rev h1 cfg path rel pre_off r2. apply lm_file_tail_s. exact HL. Qed.

(* a use of the exported tactic outside the section *)
Example lmk_example L (HL : stable L) p ev pid path h :
  lm L (create_parents p;; do b <- is_ok; if b then record_event ev pid path h else k_close;; ret_ tt).
Proof. lmk. Qed.

(* ---------- the instance: a failed access(2) probe stays in the log ---------- *)

Definition failed_access (cr : call * ret) : Prop :=
  match cr with (CAccess _, RFault _) => True | _ => False end.

(* some access(2) probe was made to fail *)
Definition AF (w : world) : Prop := Exists failed_access (w_log w).

Lemma AF_stable : stable AF.
Proof.
  split.
  - intros w c r f' Hw. unfold AF, after_call. cbn [w_log]. apply Exists_cons_tl. exact Hw.
  - intros w t Hw. exact Hw.
Qed.

Corollary AF_handle_timeout_loop fuel rev h o w :
  AF w -> AF (snd (handle_timeout_loop fuel rev h o w)).
Proof. apply lm_run. apply lm_handle_timeout_loop. exact AF_stable. Qed.

Corollary AF_handle_timeout rev h o w : AF w -> AF (snd (handle_timeout rev h o w)).
Proof. apply lm_run. apply lm_handle_timeout. exact AF_stable. Qed.

Print Assumptions lm_handle_timeout_loop.
Print Assumptions lm_handle_timeout.
Print Assumptions AF_handle_timeout.
Print Assumptions AF_handle_timeout_loop.
