(* C10 at the level of the WORLD: one iteration of the timeout pass over a FILE
   head, for EVERY oracle (any failing call with any errno, short transfers, a
   crash at any call).  FaultProofs.v.

   copy_step h1 path meta version k off = the copy loop of the head `path`
   (create_parents, sync_file with retries on "name taken", write_counter)
   followed by file_finish (pop, stop test, project link, journal, rest of the
   pass k); timeout_reaches_file_step shows that an iteration of
   handle_timeout_loop whose head read succeeded IS read_counter followed by
   this term.  `ht O P m Q C` is the triple of Hoare.v.
   bad offp (c, r) = call c was answered by a failure that must be reported:
   mkdir other than EEXIST, open of the source other than ENOENT/ENOTDIR/EACCES, the
   exclusive create other than EEXIST, fstat, sendfile, open/ftruncate/write of
   the position file, unlink of the position file other than ENOENT.
   stopped path wc = wc with "cannot copy <path>" pushed on the error trace.
   Not in the reported class, by the code's design (refuted as literal
   statements in FaultProofs: every_failure_is_reported_refuted,
   cleanup_failure_is_swallowed): a failing close of the SOURCE or of the
   position file, and a failing rmdir inside clean_up. *)
From K Require Import Str Dec Trace Fs World Progs Sieve Handler Hoare SyncProofs AbandonProofs FaultProofs.

(* (1) reported, never swallowed: if any call of the copy was failed in the
   reported class, the iteration ends with the error on the trace, result
   TError, and the handler it started with *)
Theorem C10_fault_is_reported :
  forall (h1 : handler) (path : str) (meta : N) (version : str) (k : handler -> M (tresult * handler))
         (o : oracle) (w : world) (off : N),
  names_ok h1 path version ->
  t_frames (w_tr w) = [] ->
  t_post (w_tr w) = 0 ->
  ht (fun o' : oracle => o' = o) (fun w0 : world => w0 = w) (copy_step h1 path meta version k off)
    (fun (r : tresult * handler) (w' : world) =>
     exists (res : option str * bool * store_path) (wc : world) (l : list (call * ret)),
       w_log wc = l ++ w_log w /\
       file_finish h1 path meta k res o wc = (Some r, w') /\
       (existsb (bad (st_offp h1 path)) l = true ->
        tr_ok (w_tr wc) = false /\
        snd (fst res) = false /\ r = (TError, h1) /\ w' = stopped path wc /\ tr_ok (w_tr w') = false))
    (fun _ : world => True).
Proof. exact fault_is_reported. Qed.
Print Assumptions C10_fault_is_reported.

(* (2) never loses work: when the copy ended with an error, no unlinkat was
   issued (only "plain" calls) and every file and link that existed - the queue
   link of the head included - is still there *)
Theorem C10_failed_copy_keeps_entry :
  forall (h1 : handler) (path : str) (meta : N) (version : str) (k : handler -> M (tresult * handler))
         (o : oracle) (w : world) (off : N),
  names_ok h1 path version ->
  t_frames (w_tr w) = [] ->
  t_post (w_tr w) = 0 ->
  ht (fun o' : oracle => o' = o) (fun w0 : world => w0 = w) (copy_step h1 path meta version k off)
    (fun (r : tresult * handler) (w' : world) =>
     exists (res : option str * bool * store_path) (wc : world),
       file_finish h1 path meta k res o wc = (Some r, w') /\
       (tr_ok (w_tr wc) = false ->
        r = (TError, h1) /\
        w' = stopped path wc /\
        (exists l : list (call * ret), w_log w' = l ++ w_log w /\ Forall plain l) /\
        (forall (p : str) (n : node),
         p <> st_offp h1 path ->
         nondir n = true -> lookup (w_fs w) p = Some n -> lookup (w_fs w') p = Some n)))
    (fun _ : world => True).
Proof. exact failed_copy_keeps_entry. Qed.
Print Assumptions C10_failed_copy_keeps_entry.

(* (3) no partial version: after a failed copy the non-directory entries of the
   file system (position file aside) are exactly those from before - or one more,
   the destination, in exactly two cases: the oracle failed the very unlink that
   removes it, or the copy was complete and the position update failed (K1) *)
Theorem C10_failed_copy_leaves_no_version :
  forall (h1 : handler) (path : str) (meta : N) (version : str) (k : handler -> M (tresult * handler))
         (o : oracle) (w : world) (off : N),
  names_ok h1 path version ->
  t_frames (w_tr w) = [] ->
  t_post (w_tr w) = 0 ->
  ht (fun o' : oracle => o' = o) (fun w0 : world => w0 = w) (copy_step h1 path meta version k off)
    (fun (r : tresult * handler) (w' : world) =>
     exists (res : option str * bool * store_path) (wc : world),
       file_finish h1 path meta k res o wc = (Some r, w') /\
       (tr_ok (w_tr wc) = false ->
        let dst := current_path (snd res) in
        vdents (st_offp h1 path) (w_fs w') = vdents (st_offp h1 path) (w_fs w) \/
        (exists (i : nat) (l : list (call * ret)),
           vdents (st_offp h1 path) (w_fs w') = vdents (st_offp h1 path) (w_fs w) ++ [(dst, NFile i)] /\
           w_log wc = l ++ w_log w /\
           ((exists e : errno, In (CUnlink dst, RFault e) l) \/
            versioned (st_offp h1 path) (N.to_nat off) (st_ish meta) o true dst (w_fs w) (w_fs wc)))))
    (fun _ : world => True).
Proof. exact failed_copy_leaves_no_version. Qed.
Print Assumptions C10_failed_copy_leaves_no_version.

(* (4) the remembered position of a history path is not rewound, except by a
   failing call inside the position update itself after a complete copy (K1):
   then the file holds a prefix of the new digits, which decodes to at most the
   new position *)
Theorem C10_position_not_rewound :
  forall (h1 : handler) (path : str) (meta : N) (version : str) (k : handler -> M (tresult * handler))
         (o : oracle) (w : world) (off : N),
  names_ok h1 path version ->
  t_frames (w_tr w) = [] ->
  t_post (w_tr w) = 0 ->
  noshort0 o ->
  st_ish meta = true ->
  offset_inode_allocated h1 path (w_fs w) ->
  (pos h1 path (w_fs w) <= off)%N ->
  ht (fun o' : oracle => o' = o) (fun w0 : world => w0 = w) (copy_step h1 path meta version k off)
    (fun (r : tresult * handler) (w' : world) =>
     exists (res : option str * bool * store_path) (wc : world),
       file_finish h1 path meta k res o wc = (Some r, w') /\
       ((pos h1 path (w_fs w) <= pos h1 path (w_fs wc))%N \/
        tr_ok (w_tr wc) = false /\
        (exists no k0 : nat,
           N.to_nat off <= no /\
           content (st_offp h1 path) (w_fs wc) = Some (firstn k0 (dec (N.of_nat no))) /\
           (pos h1 path (w_fs wc) <= N.of_nat no)%N /\
           versioned (st_offp h1 path) (N.to_nat off) (st_ish meta) o true (current_path (snd res))
             (w_fs w) (w_fs wc)))) (fun _ : world => True).
Proof. exact position_not_rewound. Qed.
Print Assumptions C10_position_not_rewound.

(* a crash during the copy: no unlinkat, every existing entry kept *)
Theorem C10_crash_during_copy_keeps_entries :
  forall (offp : str) (cfg : config) (head : str) (off : nat) (ish : bool) (o : oracle)
         (fuel : nat) (sp : store_path) (w : world),
  (forall n : N, current_path {| sp_base := sp_base sp; sp_ext := sp_ext sp; sp_dups := n |} <> offp) ->
  t_frames (w_tr w) = [] ->
  t_post (w_tr w) = 0 ->
  let (o0, w') := file_store_loop fuel sp head offp off ish cfg o w in
  match o0 with
  | Some _ => True
  | None =>
      (exists l : list (call * ret), w_log w' = l ++ w_log w /\ Forall plain l) /\
      (forall (p : str) (n : node),
       p <> offp -> nondir n = true -> lookup (w_fs w) p = Some n -> lookup (w_fs w') p = Some n)
  end.
Proof. exact crash_during_copy_keeps_entries. Qed.
Print Assumptions C10_crash_during_copy_keeps_entries.

(* the iteration of the handler loop is that term *)
Theorem C10_iteration_is_file_step :
  forall (fuel' : nat) (rev : bool) (h : handler) (o : oracle) (w : world) (q1 : qmem)
         (w2 : world) (path : str) (meta : N),
  tr_ok (w_tr w) = true ->
  q_get_head (S (N.to_nat (q_size (h_q h)))) (h_q h) o (upd_tr (tr_try (w_tr w)) w) =
  (Some (Some (QReady path meta), q1), w2) ->
  tr_ok (w_tr w2) = true ->
  let h1 := set_q q1 h in
  let w3 := upd_tr (tr_finally_rethrow_static M_linq_cannot_get_head (w_tr w2)) w2 in
  let version := expand_pattern (c_version_pattern (h_cfg h)) (dec (Z.to_N (w_clock w2))) in
  (name_max <? length version) = false ->
  existsb is_slash version = false ->
  file_head_valid h1 path meta = true ->
  handle_timeout_loop (S fuel') rev h o w =
  file_step h1 path meta version (handle_timeout_loop fuel' rev) o w3.
Proof. exact timeout_reaches_file_step. Qed.
Print Assumptions C10_iteration_is_file_step.

(* (5) expected conditions do not stop the daemon (benign oracle): a missing
   source is journalled as deleted, the head is popped, nothing is stored, the
   pass goes on with an unchanged trace; likewise unreadable (forbidden) and
   not a regular file (deleted) *)
Theorem C10_missing_source_does_not_stop :
  forall (h1 : handler) (path : str) (meta : N) (version : str) (k : handler -> M (tresult * handler)),
  (exists r : list ascii, current_path (st_sp h1 path version) = ch_slash :: r) ->
  forall (o : oracle) (w : world) (off : N) (p : str) (mt : N) (t : Z) (rest : list (str * N * Z)),
  benign o ->
  t_frames (w_tr w) = [] ->
  t_post (w_tr w) = 0 ->
  (forall d : str,
   In d (parents_of (current_path (st_sp h1 path version))) ->
   lookup (w_fs w) d = Some NDir \/ lookup (w_fs w) d = None) ->
  keys_nodup (w_fs w) ->
  parents_exist (w_fs w) ->
  lookup (w_fs w) path = None ->
  ~ In path (parents_of (current_path (st_sp h1 path version))) ->
  QueueProofs.QRel (h_q h1) (w_fs w) ((p, mt, t) :: rest) ->
  ~ In (q_dir (h_q h1)) (parents_of (current_path (st_sp h1 path version))) ->
  goes_on h1 path meta version k (c_ev_deleted (h_cfg h1)) o w off p rest.
Proof. exact missing_source_does_not_stop. Qed.
Print Assumptions C10_missing_source_does_not_stop.

(* witnesses kept beside the theorems: K1 (the position can be rewound by a
   fault in its own update) and the literal "every failure is reported" *)
Example C10_K1_witness := FaultExample.position_can_rewind_K1.
Example C10_close_of_source_not_reported := FaultExample.every_failure_is_reported_refuted.
(* non-vacuity: every call index of a concrete 27-call pass failed in turn *)
Example C10_every_call_failed_in_turn := FaultExample.every_call_failed_in_turn.
Example C10_world_hyps_hold := FaultExample.hyps_hold.
