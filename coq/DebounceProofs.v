(* Debounce facts (C01) and drain order (C14) over the reference queue, lifted
   to the queue model through the simulation of LinqProofs.v. *)
From K Require Import Str SetM SetProofs Linq LinqSpec LinqProofs.
From Coq Require Import Lia.
Local Open Scope Z_scope.

(* history of accepted enqueues: (path, time) *)
Notation hist := (list (str * Z)).

Definition hist_step (now : Z) (H : hist) (o : lop) : hist :=
  match o with
  | LPush p m => if (meta_limit <=? m)%N then H else H ++ [(p, now)]
  | _ => H
  end.

(* model run that also records the history *)
Definition lhstep (c : lstate * hist) (o : lop) : lstate * hist :=
  (fst (lstep (fst c) o), hist_step (ls_now (fst c)) (snd c) o).
Definition lhrun (c : lstate * hist) (ops : list lop) : lstate * hist := fold_left lhstep ops c.

Definition rhstep (c : rstate * hist) (o : lop) : rstate * hist :=
  (fst (rstep (fst c) o), hist_step (rs_now (fst c)) (snd c) o).
Definition rhrun (c : rstate * hist) (ops : list lop) : rstate * hist := fold_left rhstep ops c.

(* the clock only moves forward *)
Definition mono_op (o : lop) : Prop := match o with LTick n => 0 <= n | _ => True end.

Fixpoint last_time (p : str) (q : list qent) : option Z :=
  match q with
  | [] => None
  | e :: q' => match last_time p q' with
               | Some t => Some t
               | None => if str_eqb p (qpath e) then Some (snd e) else None
               end
  end.

Fixpoint times_sorted (q : list qent) : Prop :=
  match q with
  | [] => True
  | e :: q' => (forall e', In e' q' -> snd e <= snd e') /\ times_sorted q'
  end.

Record HInv (s : rstate) (H : hist) : Prop := {
  hi_past : forall p t, In (p, t) H -> t <= rs_now s;
  hi_qpast : forall e, In e (rs_q s) -> snd e <= rs_now s;
  hi_last : forall p t t', In (p, t) H -> last_time p (rs_q s) = Some t' -> t <= t';
  hi_sorted : times_sorted (rs_q s)
}.

Lemma last_time_app p q e :
  last_time p (q ++ [e]) = if str_eqb p (qpath e) then Some (snd e) else last_time p q.
Proof.
  induction q as [|x q IH]; simpl.
  - destruct (str_eqb p (qpath e)); reflexivity.
  - rewrite IH. destruct (str_eqb p (qpath e)); [reflexivity|].
    destruct (last_time p q); reflexivity.
Qed.

Lemma last_time_tail p e q t : last_time p q = Some t -> last_time p (e :: q) = Some t.
Proof. simpl. intros ->. reflexivity. Qed.

Lemma last_time_none p q : last_time p q = None <-> occurs p q = false.
Proof.
  induction q as [|e q IH]; simpl; [tauto|].
  destruct (last_time p q) eqn:E.
  - split; [discriminate|]. intros H. apply orb_false_iff in H. destruct H as [_ H].
    apply IH in H. discriminate.
  - destruct (str_eqb p (qpath e)); simpl; [split; discriminate|]. tauto.
Qed.

Lemma times_sorted_app q e :
  times_sorted q -> (forall x, In x q -> snd x <= snd e) -> times_sorted (q ++ [e]).
Proof.
  induction q as [|x q IH]; simpl; intros Hs Hle; [tauto|].
  destruct Hs as [H1 H2]. split.
  - intros e' Hin. apply in_app_or in Hin. destruct Hin as [Hin|[<-|[]]]; [auto|].
    apply Hle. left; reflexivity.
  - apply IH; auto.
Qed.

(* ref_head only drops heads: the result queue is a suffix *)
Lemma ref_head_suffix now deb q : exists pre, q = pre ++ snd (ref_head now deb q).
Proof.
  induction q as [|[[p m] t] q IH]; simpl.
  - exists []. reflexivity.
  - destruct (now - t <? deb); [exists []; reflexivity|].
    destruct (occurs p q); [|exists []; reflexivity].
    destruct IH as [pre Hpre]. exists ((p, m, t) :: pre). simpl. congruence.
Qed.

Lemma HInv_suffix s H pre q' :
  rs_q s = pre ++ q' -> HInv s H -> HInv (mkRS q' (rs_deb s) (rs_now s)) H.
Proof.
  intros Hq [H1 H2 H3 H4]. constructor; simpl.
  - assumption.
  - intros e Hin. apply H2. rewrite Hq. apply in_or_app. right; assumption.
  - intros p t t' Hin Hl. apply (H3 p t t' Hin). rewrite Hq.
    clear -Hl. induction pre as [|x pre IH]; simpl; [assumption|]. rewrite IH. reflexivity.
  - rewrite Hq in H4. clear -H4. induction pre as [|x pre IH]; simpl in *; [assumption|].
    apply IH. tauto.
Qed.

Lemma HInv_step s H o : mono_op o -> HInv s H -> HInv (fst (rstep s o)) (hist_step (rs_now s) H o).
Proof.
  intros Hm HI. destruct s as [q deb now]. destruct o as [p m| | |n|d|g]; simpl in *.
  - destruct (N.leb_spec meta_limit m); simpl; [assumption|].
    destruct HI as [H1 H2 H3 H4]; simpl in *. constructor; simpl.
    + intros p' t Hin. apply in_app_or in Hin. destruct Hin as [Hin|[E|[]]]; [eauto|]. inversion E; lia.
    + intros e Hin. apply in_app_or in Hin. destruct Hin as [Hin|[<-|[]]]; [eauto | simpl; lia].
    + intros p' t t' Hin Hl. rewrite last_time_app in Hl. unfold qpath in Hl; simpl in Hl.
      apply in_app_or in Hin. destruct (str_eqb_spec p' p) as [->|Hn].
      * inversion Hl; subst. destruct Hin as [Hin|[E|[]]]; [eauto | inversion E; lia].
      * destruct Hin as [Hin|[E|[]]]; [eauto | inversion E; congruence].
    + apply times_sorted_app; [assumption|]. intros x Hx. simpl. auto.
  - destruct (ref_head_suffix now deb q) as [pre Hpre].
    destruct (ref_head now deb q) as [r q'] eqn:E. simpl in *.
    apply (HInv_suffix (mkRS q deb now) H pre q' Hpre HI).
  - destruct q as [|e q]; simpl; [assumption|].
    apply (HInv_suffix (mkRS (e :: q) deb now) H [e] q eq_refl HI).
  - destruct HI as [H1 H2 H3 H4]; simpl in *. constructor; simpl; auto.
    + intros p t Hin. specialize (H1 p t Hin). lia.
    + intros e Hin. specialize (H2 e Hin). lia.
  - destruct HI as [H1 H2 H3 H4]; simpl in *. constructor; simpl; auto.
  - assumption.
Qed.

Lemma HInv_run ops : forall s H, Forall mono_op ops -> HInv s H ->
  HInv (fst (rhrun (s, H) ops)) (snd (rhrun (s, H) ops)).
Proof.
  induction ops as [|o ops IH]; intros s H Hm HI; simpl; [assumption|].
  inversion Hm; subst. unfold rhstep. simpl. apply IH; [assumption|].
  apply HInv_step; assumption.
Qed.

Lemma HInv_init deb now : HInv (mkRS [] deb now) [].
Proof. constructor; simpl; intros; try tauto; discriminate. Qed.

(* a path is yielded only when every accepted write of it is at least deb old *)
Lemma ref_ready_old s H p m q' :
  HInv s H -> ref_head (rs_now s) (rs_deb s) (rs_q s) = (HReady p m, q') ->
  forall t, In (p, t) H -> rs_now s - t >= rs_deb s.
Proof.
  destruct s as [q deb now]; simpl. revert H.
  induction q as [|[[p0 m0] t0] q IH]; intros H HI Hh t Hin; simpl in Hh; [discriminate|].
  destruct (now - t0 <? deb) eqn:Eage; [discriminate|].
  destruct (occurs p0 q) eqn:Eocc.
  - apply (IH H); [|assumption|assumption].
    apply (HInv_suffix (mkRS ((p0, m0, t0) :: q) deb now) H [(p0, m0, t0)] q eq_refl HI).
  - inversion Hh; subst. destruct HI as [H1 H2 H3 H4]; simpl in *.
    assert (Hl : last_time p ((p, m, t0) :: q) = Some t0).
    { simpl. apply last_time_none in Eocc. rewrite Eocc. unfold qpath; simpl.
      rewrite str_eqb_refl. reflexivity. }
    specialize (H3 p t t0 Hin Hl). apply Z.ltb_ge in Eage. lia.
Qed.

(* a finite wait is positive and not longer than the time after which the
   earliest pending item becomes due; an indefinite wait means nothing pending *)
Lemma ref_pause_sound s H w q' :
  HInv s H -> ref_head (rs_now s) (rs_deb s) (rs_q s) = (HPause w, q') ->
  (w = -1 /\ q' = []) \/
  (0 < w /\ q' <> [] /\ forall e, In e q' -> w <= snd e + rs_deb s - rs_now s).
Proof.
  destruct s as [q deb now]; simpl. revert H.
  induction q as [|[[p0 m0] t0] q IH]; intros H HI Hh; simpl in Hh.
  - inversion Hh; subst. left. auto.
  - destruct (now - t0 <? deb) eqn:Eage.
    + inversion Hh; subst. right. apply Z.ltb_lt in Eage. split; [lia|]. split; [discriminate|].
      destruct HI as [H1 H2 H3 [H4 H5]]; simpl in *.
      intros e [<-|Hin]; simpl; [lia|]. specialize (H4 e Hin). simpl in H4. lia.
    + destruct (occurs p0 q); [|discriminate].
      apply (IH H); [|assumption].
      apply (HInv_suffix (mkRS ((p0, m0, t0) :: q) deb now) H [(p0, m0, t0)] q eq_refl HI).
Qed.

(* ---------- lifting to the model ---------- *)

Lemma lh_rh_sim ops : forall s r H, RS s r -> Forall wf_op ops ->
  RS (fst (lhrun (s, H) ops)) (fst (rhrun (r, H) ops)) /\
  snd (lhrun (s, H) ops) = snd (rhrun (r, H) ops).
Proof.
  induction ops as [|o ops IH]; intros s r H HRS Hwf; simpl; [auto|].
  inversion Hwf; subst. unfold lhstep, rhstep. simpl.
  destruct (step_sim s r o HRS) as [_ HRS']; [assumption|].
  destruct HRS as [_ [_ Hnow]]. rewrite Hnow. apply IH; assumption.
Qed.

Lemma model_ready_old deb g now0 ops p m l' :
  Forall wf_op ops -> Forall mono_op ops ->
  let c := lhrun (linit deb g now0, []) ops in
  let l := ls_q (fst c) in
  get_head (N.to_nat (l_size l)) (ls_now (fst c)) l = (HReady p m, l') ->
  forall t, In (p, t) (snd c) -> ls_now (fst c) - t >= l_deb l.
Proof.
  intros Hwf Hm c l Hg t Hin.
  destruct (lh_rh_sim ops _ _ [] (RS_init deb g now0) Hwf) as [[HR [Hdeb Hnow]] HH].
  fold c in HR, Hdeb, Hnow, HH. fold l in HR, Hdeb.
  pose proof (HInv_run ops _ _ Hm (HInv_init deb now0)) as HI.
  set (rc := rhrun (mkRS [] deb now0, []) ops) in *.
  destruct (head_sim (ls_now (fst c)) (rs_q (fst rc)) l (N.to_nat (l_size l)) HR) as [l2 [Hg2 _]].
  { destruct HR as [_ Hs _ _ _ _]. rewrite Hs. lia. }
  rewrite Hg in Hg2. rewrite Hdeb, Hnow in *.
  destruct (ref_head (rs_now (fst rc)) (rs_deb (fst rc)) (rs_q (fst rc))) as [r q'] eqn:Er.
  simpl in Hg2. inversion Hg2; subst r l2.
  rewrite HH in Hin. apply (ref_ready_old (fst rc) (snd rc) p m q' HI Er t Hin).
Qed.

Lemma number_from_In h q : forall e, In e (number_from h q) ->
  exists p m, In (p, m, snd (snd e)) q.
Proof.
  revert h. induction q as [|[[p m] t] q IH]; intros h e; simpl; [tauto|].
  intros [<-|Hin]; simpl; [eauto|]. destruct (IH _ _ Hin) as [p' [m' H']]. eauto.
Qed.

Lemma model_pause_sound deb g now0 ops w l' :
  Forall wf_op ops -> Forall mono_op ops ->
  let c := lhrun (linit deb g now0, []) ops in
  let l := ls_q (fst c) in
  get_head (N.to_nat (l_size l)) (ls_now (fst c)) l = (HPause w, l') ->
  (w = -1 /\ l_dir l' = []) \/
  (0 < w /\ l_dir l' <> [] /\
   forall e, In e (l_dir l') -> w <= snd (snd e) + l_deb l - ls_now (fst c)).
Proof.
  intros Hwf Hm c l Hg.
  destruct (lh_rh_sim ops _ _ [] (RS_init deb g now0) Hwf) as [[HR [Hdeb Hnow]] HH].
  fold c in HR, Hdeb, Hnow, HH. fold l in HR, Hdeb.
  pose proof (HInv_run ops _ _ Hm (HInv_init deb now0)) as HI.
  set (rc := rhrun (mkRS [] deb now0, []) ops) in *.
  destruct (head_sim (ls_now (fst c)) (rs_q (fst rc)) l (N.to_nat (l_size l)) HR) as [l2 [Hg2 [HR2 _]]].
  { destruct HR as [_ Hs _ _ _ _]. rewrite Hs. lia. }
  rewrite Hg in Hg2. rewrite Hdeb, Hnow in *.
  destruct (ref_head (rs_now (fst rc)) (rs_deb (fst rc)) (rs_q (fst rc))) as [r q'] eqn:Er.
  simpl in Hg2, HR2. inversion Hg2; subst r l2.
  destruct (ref_pause_sound (fst rc) (snd rc) w q' HI Er) as [[Hw Hq]|[Hw [Hq Hall]]].
  - left. split; [assumption|]. destruct HR2 as [Hd _ _ _ _ _]. rewrite Hd, Hq. reflexivity.
  - right. split; [assumption|]. destruct HR2 as [Hd _ _ _ _ _]. rewrite Hd. split.
    + destruct q' as [|[[p m] t] q']; [congruence | discriminate].
    + intros e Hin. destruct (number_from_In _ _ _ Hin) as [p [m Hin']].
      specialize (Hall _ Hin'). simpl in Hall. assumption.
Qed.

(* ---------- drain order (C14) ---------- *)

Fixpoint keep_last (q : list qent) : list qent :=
  match q with
  | [] => []
  | e :: q' => if occurs (qpath e) q' then keep_last q' else e :: keep_last q'
  end.

(* repeatedly take the head and remove it, until the queue asks to wait *)
Fixpoint ref_drain (fuel : nat) (now deb : Z) (q : list qent) : list (str * N) :=
  match fuel with
  | O => []
  | S fuel' =>
      match ref_head now deb q with
      | (HReady p m, q') => (p, m) :: ref_drain fuel' now deb (tl q')
      | _ => []
      end
  end.

Lemma ref_drain_keep_last now deb q : forall fuel,
  (forall e, In e q -> now - snd e >= deb) -> (length q <= fuel)%nat ->
  ref_drain fuel now deb q = map (fun e => (qpath e, snd (fst e))) (keep_last q).
Proof.
  induction q as [|[[p m] t] q IH]; intros fuel Hold Hf.
  - destruct fuel; reflexivity.
  - destruct fuel as [|fuel]; [simpl in Hf; lia|].
    cbn [ref_drain keep_last]. change (qpath (p, m, t)) with p.
    assert (Hage : (now - t <? deb) = false).
    { apply Z.ltb_ge. specialize (Hold (p, m, t) (or_introl eq_refl)). simpl in Hold. lia. }
    destruct (occurs p q) eqn:Eocc.
    + (* the head is a stale duplicate: ref_head skips it *)
      specialize (IH (S fuel)). cbn [ref_drain] in IH.
      cbn [ref_head]. rewrite Hage, Eocc. apply IH.
      * intros e Hin. apply Hold. right; assumption.
      * simpl in Hf. lia.
    + cbn [ref_head]. rewrite Hage, Eocc. cbn [tl map]. change (qpath (p, m, t)) with p. cbn [fst snd].
      f_equal. apply IH.
      * intros e Hin. apply Hold. right; assumption.
      * simpl in Hf. lia.
Qed.
