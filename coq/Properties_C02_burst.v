(* C02 in its own shape: "If a qualifying file is written one or more times and
   then left alone, the first timeout pass at or after the end of its quiet
   period stores -- provided the file is still a readable regular file --
   exactly one new version holding its content at that moment, and removes the
   item from the pending queue.  Writes to other files, interleaved in any way,
   neither delay it past that pass, nor produce extra or missing versions, nor
   reorder the versions of any file."

   A HISTORY (BurstProofs.step) is any interleaving of accepted plain writes
   (handle_close_write, decision (true,false,None)) of any number of files, each
   any number of times, and of environment steps that leave the queue directory
   alone and do not move the clock backwards (files rewritten, time passing).
   hist_ok: the side conditions of each step hold along the run.  For every
   benign oracle. *)
From K Require Import Str Dec Trace Fs World Progs Sieve Handler Linq LinqSpec LinqProofs
     SyncProofs AbandonProofs QueueProofs JournalProofs DebounceProofs PassProofs AcceptProofs BurstProofs.

(* the pass over a queue WITH duplicates (generalises C02_world_pass, which asks
   that every due entry be the last write of its path): the due part stores
   exactly its winners (entries not queued again behind), in queue order; the
   superseded entries are removed and produce nothing *)
Theorem C02_dup_pass : forall o rev es due rest h w,
  benign o ->
  tr_ok (w_tr w) = true -> keys_nodup (w_fs w) ->
  QRel (h_q h) (w_fs w) (due ++ rest) ->
  Forall (due_at (w_clock w) (q_deb (h_q h))) due ->
  not_due (w_clock w) (q_deb (h_q h)) rest ->
  map qent_of es = winners due rest ->
  all_ok (h_cfg h) (h_cpl h) (h_journal h) (q_dir (h_q h)) (w_fs w) (w_clock w) es ->
  exists qf w',
    handle_timeout rev h o w =
      (Some (TPause (pause_of (w_clock w) (q_deb (h_q h)) rest), set_q qf h), w') /\
    q_dir qf = q_dir (h_q h) /\ q_deb qf = q_deb (h_q h) /\ q_len_guess qf = q_len_guess (h_q h) /\
    pass_facts (h_cfg h) (h_cpl h) (h_journal h) (q_dir (h_q h)) (w_clock w) (w_fs w) es (w_fs w') /\
    QRel qf (w_fs w') rest /\ keys_nodup (w_fs w') /\
    tr_ok (w_tr w') = true /\ (t_post (w_tr w) = 0 -> w_tr w' = w_tr w) /\
    w_clock w' = w_clock w.
Proof. exact handle_timeout_dup_pass. Qed.
Print Assumptions C02_dup_pass.

(* the queue after a history = the accepted writes, in order, with their times *)
Theorem C02_history_queue : forall o, benign o -> forall s h w ents0,
  tr_ok (w_tr w) = true -> QRel (h_q h) (w_fs w) ents0 -> hist_ok o s h w ->
  exists w',
    run o s h w = (Some (set_q (pushes s (h_q h)) h), w') /\
    QRel (pushes s (h_q h)) (w_fs w') (ents0 ++ accepted (w_clock w) s) /\
    tr_ok (w_tr w') = true /\ w_clock w' = clock_after (w_clock w) s /\
    clock_mono (w_clock w) s.
Proof. exact history_queue. Qed.
Print Assumptions C02_history_queue.

(* a due entry is never behind one that is not due; a path is stored in this
   pass iff its LAST accepted write is at least the debounce old *)
Theorem C02_due_prefix_closed : forall now deb a e b,
  times_sorted (a ++ e :: b) -> due_at now deb e -> Forall (due_at now deb) a.
Proof. exact due_prefix_closed. Qed.

Theorem C02_stored_iff_quiet : forall now deb q p,
  times_sorted q ->
  In p (map qpath (winners (due_part now deb q) (rest_part now deb q))) <->
  exists t, last_time p q = Some t /\ (deb <= now - t)%Z.
Proof. exact stored_iff_quiet. Qed.
Print Assumptions C02_due_prefix_closed.
Print Assumptions C02_stored_iff_quiet.

(* burst, then the pass *)
Theorem C02_burst_then_pass : forall o rev h0 w0 s,
  benign o -> tr_ok (w_tr w0) = true -> QRel (h_q h0) (w_fs w0) [] ->
  hist_ok o s h0 w0 ->
  let ents := accepted (w_clock w0) s in
  let hb := set_q (pushes s (h_q h0)) h0 in
  let deb := q_deb (h_q h0) in
  exists wb,
    run o s h0 w0 = (Some hb, wb) /\
    QRel (h_q hb) (w_fs wb) ents /\ tr_ok (w_tr wb) = true /\
    w_clock wb = clock_after (w_clock w0) s /\ times_sorted ents /\
    let now := w_clock wb in
    let due := due_part now deb ents in
    let rest := rest_part now deb ents in
    ents = due ++ rest /\ Forall (due_at now deb) due /\
    Forall (fun e => (now - snd e < deb)%Z) rest /\
    NoDup (map qpath (winners due rest)) /\
    (forall p, In p (map qpath (winners due rest)) <->
               exists t, last_time p ents = Some t /\ (deb <= now - t)%Z) /\
    forall es,
      keys_nodup (w_fs wb) ->
      map qent_of es = winners due rest ->
      all_ok (h_cfg h0) (h_cpl h0) (h_journal h0) (q_dir (h_q h0)) (w_fs wb) now es ->
      exists qf w',
        handle_timeout rev hb o wb = (Some (TPause (pause_of now deb rest), set_q qf h0), w') /\
        q_dir qf = q_dir (h_q h0) /\ q_deb qf = deb /\ q_len_guess qf = q_len_guess (h_q h0) /\
        pass_facts (h_cfg h0) (h_cpl h0) (h_journal h0) (q_dir (h_q h0)) now (w_fs wb) es (w_fs w') /\
        QRel qf (w_fs w') rest /\ keys_nodup (w_fs w') /\
        tr_ok (w_tr w') = true /\ (t_post (w_tr wb) = 0 -> w_tr w' = w_tr wb) /\
        w_clock w' = now /\
        (rest = [] -> qf = mkQ (q_dir (h_q h0)) 0 0 deb (q_len_guess (h_q h0)) []).
Proof. exact burst_then_pass. Qed.
Print Assumptions C02_burst_then_pass.

(* non-vacuity: two files, three writes, a rewrite in between; all hypotheses
   hold (hyps_hold); the pass at 110 s stores b then a (final content), the pass
   at 105 s stores b only and leaves a pending with a wait of 1 s *)
Example C02_burst_hyps := BurstPassExample.hyps_hold.
Example C02_burst_instance := BurstPassExample.burst_by_theorem.
Example C02_burst_early_instance := BurstPassExample.early_pass_by_theorem.
