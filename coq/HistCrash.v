(* C08 / C03 for HISTORY entries, part 1: what a timeout pass over ONE due
   history head leaves on disk under EVERY HONEST oracle (CrashCopy.honest:
   a crash before any call, any failing call with an errno other than
   ENOENT/ENOTDIR/EACCES/EEXIST, any non-zero short transfer).

   The pieces, each a Hoare triple (Hoare.v) with a crash condition:
     A. read_counter: the file system is not touched; if no error is raised
        the value is the remembered position;
     B. sync_file from a position: the destination is absent, or it is the
        new inode and holds a PREFIX of [skipn off b]; if no error is raised
        it holds all of it and the value returned is [length b];
     C. write_counter (counter.c: create, truncate, one write per digit): the
        position file is untouched, or it holds a PREFIX of the new digits;
        if no error is raised it holds all of them;
     D. the pass: [history_crash_frame]. *)
From K Require Import Str Dec Trace Fs World Progs Elf Linq LinqSpec LinqProofs Sieve Handler Hoare
     Confine Confine2 SyncProofs AbandonProofs StoreFs StoreLogic StoreProgs DecProofs
     QueueProofs CrashFrame CrashQueue CrashCopy CrashProofs PassProofs PassProofs2 RecoverFrame.
From Coq Require Import Lia.

(* ====================================================================== *)
(* A. read_counter under every honest oracle                               *)
(* ====================================================================== *)

Lemma ht_read_digits O f1 io : forall fuel pos acc,
  length (f_bytes (get_file f1 io)) - pos < fuel ->
  ht O (fun w => w_fs w = f1) (read_digits fuel (FdFile io) pos acc)
     (fun r w => w_fs w = f1 /\
                 (tr_ok (w_tr w) = true -> r = undec_aux (skipn pos (f_bytes (get_file f1 io))) acc))
     (fun w => w_fs w = f1).
Proof.
  set (bs := f_bytes (get_file f1 io)).
  induction fuel as [|fuel IH]; intros pos acc Hl; [lia|].
  cbn [read_digits].
  eapply ht_bind with
    (R := fun r w => w_fs w = f1 /\
            match r with
            | inl x => x = nth_error bs pos
            | inr _ => True
            end).
  { unfold k_read1. apply ht_sys.
    - auto.
    - intros w e H. cbn. auto.
    - intros w H. rewrite H. fold bs. destruct (nth_error bs pos); cbn; auto. }
  intros r. destruct r as [x|e].
  - apply ht_pure_pre with (phi := x = nth_error bs pos); [intros w [_ E]; exact E|]. intros ->.
    destruct (nth_error bs pos) as [c|] eqn:En.
    + rewrite (skipn_nth_cons bs pos c En). cbn [undec_aux].
      destruct (is_digit c).
      * assert (Hlt : pos < length bs) by (apply nth_error_Some; congruence).
        eapply ht_pre; [|apply (IH (S pos))]; [intros w [H _]; exact H | lia].
      * apply ht_ret. intros w [H _]. auto.
    + assert (Hs : skipn pos bs = []) by (apply skipn_all2, nth_error_None; exact En).
      rewrite Hs. cbn [undec_aux]. apply ht_ret. intros w [H _]. auto.
  - eapply ht_bind with (R := fun _ w => w_fs w = f1 /\ tr_ok (w_tr w) = false).
    + unfold throw_errno, throw. apply ht_mod_tr. intros w [H _]. split; [exact H | reflexivity].
    + intros ?. apply ht_ret. intros w [H1 H2]. split; [exact H1 | congruence].
Qed.

(* the remembered position [off]: the file is absent (0) or holds its decimal *)
Lemma ht_read_counter f1 offp off :
  pos_is f1 offp off ->
  ht honest (fun w => w_fs w = f1) (read_counter offp)
     (fun r w => w_fs w = f1 /\ (tr_ok (w_tr w) = true -> r = N.of_nat off))
     (fun w => w_fs w = f1).
Proof.
  intros Hpos. unfold read_counter, when_ok.
  eapply ht_bind with (R := fun b w => w_fs w = f1 /\ b = tr_ok (w_tr w)); [apply ht_is_ok; auto|].
  intros b0. destruct b0.
  2:{ apply ht_ret. intros w [H1 H2]. split; [exact H1 | congruence]. }
  eapply ht_bind with
    (R := fun r w => w_fs w = f1 /\
            match r with
            | inl d => exists io, d = FdFile io /\ lookup f1 offp = Some (NFile io)
            | inr e => e = ENOENT -> lookup f1 offp = None
            end).
  { unfold k_open_read, k_open_gen. apply ht_sys_honest.
    - intros w [H _]. exact H.
    - intros w e [H _] E1 _ _ _. cbn. split; [exact H | congruence].
    - intros w [H _]. rewrite H. unfold fs_open_read.
      destruct (lookup f1 offp) as [[| io|tg m]|] eqn:El; cbn.
      + destruct Hpos as [[_ A]|[_ (io & A & _)]]; congruence.
      + destruct (f_readable (get_file f1 io)); cbn; [split; [reflexivity | eauto]|].
        split; [reflexivity | discriminate].
      + destruct Hpos as [[_ A]|[_ (io & A & _)]]; congruence.
      + auto. }
  intros r. destruct r as [dd|e].
  - apply ht_pure_pre with (phi := exists io, dd = FdFile io /\ lookup f1 offp = Some (NFile io)).
    { intros w [_ H]. exact H. }
    intros (io & -> & Hl).
    assert (Hfile : get_file f1 io = mkFile (dec (N.of_nat off)) true).
    { destruct Hpos as [[_ A]|[_ (io' & A & B & _)]]; congruence. }
    eapply ht_bind with (R := fun n w => w_fs w = f1 /\ n = length (f_bytes (get_file f1 io))).
    { unfold file_len. eapply ht_bind; [apply ht_get_fs|]. intros f.
      apply ht_ret. intros w [[H _] E]. subst f. rewrite H. auto. }
    intros n. apply ht_pure_pre with (phi := n = length (f_bytes (get_file f1 io))); [intros w [_ E]; exact E|].
    intros ->.
    eapply ht_bind.
    { eapply ht_pre; [|apply (ht_read_digits honest f1 io (S (length (f_bytes (get_file f1 io)))) 0 0%N); lia].
      intros w [H _]. exact H. }
    intros c. cbn [skipn].
    eapply ht_bind with
      (R := fun _ w => w_fs w = f1 /\
              (tr_ok (w_tr w) = true -> c = undec_aux (f_bytes (get_file f1 io)) 0)).
    { unfold k_close, sys_unit. apply ht_sys.
      - intros w [H _]. exact H.
      - intros w e H. exact H.
      - intros w H. exact H. }
    intros ?. apply ht_ret. intros w [H1 H2]. split; [exact H1|]. intros Hok.
    rewrite (H2 Hok), Hfile. cbn [f_bytes]. fold (undec (dec (N.of_nat off))). apply undec_dec.
  - assert (Hthrow : forall e', e' <> ENOENT ->
              ht honest (fun w => w_fs w = f1 /\ (e = ENOENT -> lookup f1 offp = None))
                 (throw_errno e';; ret_ 0%N)
                 (fun r w => w_fs w = f1 /\ (tr_ok (w_tr w) = true -> r = N.of_nat off))
                 (fun w => w_fs w = f1)).
    { intros e' _.
      eapply ht_bind with (R := fun _ w => w_fs w = f1 /\ tr_ok (w_tr w) = false).
      - unfold throw_errno, throw. apply ht_mod_tr. intros w [H _]. split; [exact H | reflexivity].
      - intros ?. apply ht_ret. intros w [H1 H2]. split; [exact H1 | congruence]. }
    destruct e; try (apply Hthrow; discriminate).
    apply ht_ret. intros w [H1 H2]. split; [exact H1|]. intros _.
    destruct Hpos as [[-> _]|[_ (io & A & _)]]; [reflexivity|].
    rewrite (H2 eq_refl) in A. discriminate.
Qed.

(* ====================================================================== *)
(* B. sync_file from a position, honest oracles                            *)
(* ====================================================================== *)

Section SyncHist.
Variables (fm : fs) (dst src : str) (i : nat) (b : str) (off : nat).
Hypothesis Hsrc : Src src i b fm.
Hypothesis Hfree : lookup fm dst = None.
Hypothesis Hle : off <= length b.

Let out := fs_next fm.

Lemma Hds' : dst <> src.
Proof. intros E. destruct Hsrc as [H _]. rewrite <- E, Hfree in H. discriminate. Qed.

Lemma out_ne_i : out <> i.
Proof. destruct Hsrc as [_ [_ H]]. unfold out. lia. Qed.

(* before the exclusive create *)
Definition Nn (f : fs) : Prop := Src src i b f /\ lookup f dst = None /\ fs_next f = fs_next fm.
(* the destination is the new inode and holds the first m bytes of the slice *)
Definition Ww (m : nat) (f : fs) : Prop :=
  Src src i b f /\ lookup f dst = Some (NFile out) /\
  f_bytes (get_file f out) = firstn m (skipn off b).
(* at any time: absent, or a prefix *)
Definition Dd (f : fs) : Prop :=
  Src src i b f /\ (lookup f dst = None \/ exists m, Ww m f).

Lemma Nn_Dd f : Nn f -> Dd f.
Proof. intros [A [B _]]. split; [exact A | left; exact B]. Qed.
Lemma Ww_Dd m f : Ww m f -> Dd f.
Proof. intros H. split; [apply H | right; exists m; exact H]. Qed.

Lemma Nn_mkdir a f : a <> dst -> Nn f -> Nn (snd (fs_mkdir a f)).
Proof.
  intros Ha [A [B C]]. split; [apply Src_mkdir; exact A|].
  unfold fs_mkdir. destruct (lookup f a) eqn:El; [auto|].
  destruct (parent_is_dir f a); [auto|]. cbn [snd]. split; [|exact C].
  rewrite lookup_add_dent_other; [exact B | congruence].
Qed.

Lemma lookup_rmdir_other a f x : x <> a -> lookup (snd (fs_rmdir a f)) x = lookup f x.
Proof.
  intros Hx. unfold fs_rmdir. destruct (lookup f a) as [[| |]|]; try reflexivity.
  destruct (children f a); [|reflexivity]. cbn [snd]. apply lookup_del_dent_other. exact Hx.
Qed.

Lemma files_rmdir a f : fs_files (snd (fs_rmdir a f)) = fs_files f /\ fs_next (snd (fs_rmdir a f)) = fs_next f.
Proof.
  unfold fs_rmdir. destruct (lookup f a) as [[| |]|]; try (split; reflexivity).
  destruct (children f a); split; reflexivity.
Qed.

Lemma get_file_rmdir a f k : get_file (snd (fs_rmdir a f)) k = get_file f k.
Proof. unfold get_file. rewrite (proj1 (files_rmdir a f)). reflexivity. Qed.

Lemma lookup_rmdir_nondir a f x : lookup f x <> Some NDir -> lookup (snd (fs_rmdir a f)) x = lookup f x.
Proof.
  intros Hx. destruct (str_eqb_spec x a) as [->|Hn]; [|apply lookup_rmdir_other; exact Hn].
  unfold fs_rmdir. destruct (lookup f a) as [[| |]|] eqn:El; cbn [snd]; try exact El. congruence.
Qed.

Lemma Nn_rmdir a f : Nn f -> Nn (snd (fs_rmdir a f)).
Proof.
  intros [A [B C]]. split; [apply Src_rmdir; exact A|]. split.
  - rewrite lookup_rmdir_nondir; [exact B | congruence].
  - rewrite (proj2 (files_rmdir a f)). exact C.
Qed.

Lemma Dd_mkdir a f : a <> dst -> Dd f -> Dd (snd (fs_mkdir a f)).
Proof.
  intros Ha [A B]. split; [apply Src_mkdir; exact A|].
  unfold fs_mkdir. destruct (lookup f a) eqn:El; [exact B|].
  destruct (parent_is_dir f a); [exact B|]. cbn [snd].
  destruct B as [B|[m [_ [B1 B2]]]].
  - left. rewrite lookup_add_dent_other; [exact B | congruence].
  - right. exists m. split; [apply Src_add; assumption|].
    split; [rewrite lookup_add_dent_other; [exact B1 | congruence] | exact B2].
Qed.

Lemma Dd_rmdir a f : Dd f -> Dd (snd (fs_rmdir a f)).
Proof.
  intros [A B]. split; [apply Src_rmdir; exact A|].
  destruct B as [B|[m [_ [B1 B2]]]].
  - left. rewrite lookup_rmdir_nondir; [exact B | congruence].
  - right. exists m. split; [apply Src_rmdir; exact A|].
    split; [rewrite lookup_rmdir_nondir; [exact B1 | congruence]|].
    rewrite get_file_rmdir. exact B2.
Qed.

Lemma Dd_unlink f : keys_nodup f -> Dd f -> Dd (snd (fs_unlink dst f)).
Proof.
  intros Hnd [A B]. unfold fs_unlink.
  destruct B as [B|[m [_ [B1 B2]]]].
  - rewrite B. cbn [snd]. split; [exact A | left; exact B].
  - rewrite B1. cbn [snd]. split.
    + apply Src_del; [|exact A]. rewrite B1. intros E. injection E as E. exact (out_ne_i E).
    + left. apply lookup_del_dent_same; [exact Hnd|]. intros E. rewrite E in B1. discriminate.
Qed.

(* ---- the exits keep Dd and the error trace ---- *)

Lemma tok_Dd_clean_up (X : fs -> Prop) :
  (forall a f, X f -> X (snd (fs_rmdir a f))) -> tok X (clean_up dst).
Proof.
  intros HX. unfold clean_up. tk_with leaf1.
  apply (d_remove_empty_parents X HX).
Qed.

Definition DN (f : fs) : Prop := keys_nodup f /\ Dd f.

Lemma DN_rmdir a f : DN f -> DN (snd (fs_rmdir a f)).
Proof.
  intros [A B]. split; [|apply Dd_rmdir; exact B].
  unfold fs_rmdir. destruct (lookup f a) as [[| |]|]; try exact A.
  destruct (children f a); [|exact A]. cbn [snd]. apply keys_nodup_del. exact A.
Qed.

Lemma DN_unlink f : DN f -> DN (snd (fs_unlink dst f)).
Proof.
  intros [A B]. split; [|apply Dd_unlink; assumption].
  unfold fs_unlink. destruct (lookup f dst) as [[| |]|]; try exact A; cbn [snd]; apply keys_nodup_del; exact A.
Qed.

Lemma keeps_DN_clean : keeps DN DN (clean_up dst).
Proof. apply (keeps_clean_up DN DN_rmdir). Qed.

Lemma keeps_DN_unlink : keeps DN DN (k_unlink dst).
Proof. unfold k_unlink. apply keeps_sys_unit; [auto | intros f; apply DN_unlink]. Qed.

Lemma tok_DN_unlink : tok DN (k_unlink dst).
Proof. apply tok_sys_unit. intros f. apply DN_unlink. Qed.

Lemma tok_DN_clean : tok DN (clean_up dst).
Proof. apply tok_Dd_clean_up. intros a f. apply DN_rmdir. Qed.

(* the result "an error other than the four the copy loop catches" *)
Definition sh_err (w : world) : Prop :=
  DN (w_fs w) /\ exists fr rest, t_frames (w_tr w) = fr :: rest /\ other_frame fr.

Definition sh_post (r : nat) (w : world) : Prop :=
  (t_frames (w_tr w) = [] /\ r = length b /\ keys_nodup (w_fs w) /\ Ww (length b - off) (w_fs w)) \/ sh_err w.

(* leave through an exit with an error on the trace *)
Lemma ht_exit (m : M nat) :
  tok DN m -> keeps DN DN m ->
  ht honest sh_err m (fun _ => sh_err) (fun w => DN (w_fs w)).
Proof.
  intros Ht Hk.
  eapply ht_conseq3;
    [| | |apply ht_conj;
          [apply (tok_lift honest DN m Ht)
          |apply (keeps_use honest DN DN
                    (fun t => exists fr rest, t_frames t = fr :: rest /\ other_frame fr) m Hk)]].
  - intros w [H1 H2]. split; [exact H1|]. split; assumption.
  - intros r w [H1 [_ H2]]. split; assumption.
  - intros w [H _]. exact H.
Qed.

Lemma ht_throw_exit (X : fs -> Prop) fr (m : M nat) :
  (forall f, X f -> DN f) -> other_frame fr -> tok DN m -> keeps DN DN m ->
  ht honest (fun w => X (w_fs w) /\ t_frames (w_tr w) = []) (throw fr;; m)
     sh_post (fun w => DN (w_fs w)).
Proof.
  intros HX Hfr Ht Hk.
  eapply ht_bind with (R := fun _ => sh_err).
  - unfold throw. apply ht_mod_tr. intros w [H1 H2]. split; [apply HX; exact H1|].
    exists fr, []. cbn [QueueProofs.upd_tr w_tr tr_push t_frames]. rewrite H2. auto.
  - intros ?. eapply ht_post; [|apply ht_exit; assumption]. intros r w H. right. exact H.
Qed.

Ltac kp :=
  repeat (lazymatch goal with
          | |- keeps _ _ (bind _ _) => eapply keeps_bind; [|intros ?]
          | |- keeps _ _ k_close => apply keeps_close
          | |- keeps _ _ (k_unlink _) => apply keeps_DN_unlink
          | |- keeps _ _ (clean_up _) => apply keeps_DN_clean
          | |- keeps _ _ (ret_ _) => apply keeps_ret; auto
          end).
Ltac tkd := tk_with ltac:(first [leaf1 | apply tok_DN_unlink | apply tok_DN_clean]).

(* ---- the transfer loop ---- *)

Definition WN (m : nat) (f : fs) : Prop := keys_nodup f /\ Ww m f.

Lemma WN_DN m f : WN m f -> DN f.
Proof. intros [A B]. split; [exact A | apply (Ww_Dd m); exact B]. Qed.

Lemma ht_send_hist : forall fuel m size,
  m <= length b - off -> size + m = length b -> size < fuel ->
  ht honest (fun w => WN m (w_fs w) /\ t_frames (w_tr w) = [])
     (sendfile_loop fuel out i (off + m) size)
     (fun r w => match r with
                 | Some c => c = length b /\ WN (length b - off) (w_fs w) /\ t_frames (w_tr w) = []
                 | None => (exists m', WN m' (w_fs w)) /\ exists e, t_frames (w_tr w) = [FErrno e]
                 end)
     (fun w => exists m', WN m' (w_fs w)).
Proof.
  induction fuel as [|fuel IH]; intros m size Hm Hsz Hf; [lia|].
  cbn [sendfile_loop]. destruct size as [|s].
  { apply ht_ret. intros w [H1 H2]. assert (m = length b - off) by lia. subst m.
    split; [lia|]. auto. }
  apply ht_freeze. intros w0 [[Hnd [HS [Hl Hb]]] Ht].
  pose proof HS as [_ [Hg _]].
  set (chunk := fun lim => firstn lim (skipn (off + m) b)).
  assert (Hstep : forall lim,
            WN (m + length (chunk lim)) (fs_append out (chunk lim) (w_fs w0))).
  { intros lim. split; [exact Hnd|]. split; [apply Src_append; [exact out_ne_i | exact HS]|].
    split; [exact Hl|]. rewrite get_file_append_same. cbn [f_bytes]. rewrite Hb.
    unfold chunk. rewrite skipn_add.
    rewrite firstn_add_skipn, firstn_length_firstn. reflexivity. }
  eapply ht_bind with
    (R := fun r w => w_tr w = w_tr w0 /\
            match r with
            | inr _ => w_fs w = w_fs w0
            | inl n => exists lim, 0 < lim /\ n = length (chunk lim) /\
                                   w_fs w = fs_append out (chunk lim) (w_fs w0)
            end).
  { eapply ht_conseq3; [| | |apply (ht_sendfile_honest (w_fs w0) (w_tr w0) out i (off + m) (S s)); lia].
    - intros w ->. split; reflexivity.
    - intros r w [T H]. split; [exact T|]. destruct r as [n|e]; [|exact H].
      destruct H as [lim [L1 [_ [L3 L4]]]]. rewrite Hg in L3, L4. cbn [f_bytes] in L3, L4.
      exists lim. auto.
    - intros w [Hf' _]. exists m. rewrite Hf'. split; [exact Hnd|]. split; [exact HS | auto]. }
  intros r. destruct r as [n|e].
  - apply ht_pure_pre with (phi := exists lim, 0 < lim /\ n = length (chunk lim)).
    { intros w [_ [lim [L1 [L2 _]]]]. eauto. }
    intros [lim0 [L1 L2]].
    destruct n as [|n'].
    + (* end of file *)
      apply ht_ret. intros w [T [lim [_ [E2 Ef]]]].
      assert (Hc : chunk lim = []) by (destruct (chunk lim); [reflexivity | discriminate]).
      assert (Hsk : skipn (off + m) b = []).
      { unfold chunk in L2. destruct (skipn (off + m) b) as [|y l] eqn:Es; [reflexivity|].
        destruct lim0; [lia | discriminate]. }
      assert (Hlen : length b <= off + m) by (apply skipn_nil_iff; exact Hsk).
      assert (m = length b - off) by lia. subst m.
      split; [lia|]. rewrite Ef, T. split; [|exact Ht].
      pose proof (Hstep lim) as Hst. rewrite Hc in Hst. cbn [length] in Hst.
      rewrite Nat.add_0_r in Hst. rewrite Hc. exact Hst.
    + assert (Hle2 : S n' <= length b - (off + m)).
      { rewrite L2. unfold chunk. rewrite firstn_length, skipn_length. lia. }
      assert (Hle3 : S n' <= S s).
      { clear IH. rewrite L2. unfold chunk. rewrite firstn_length, skipn_length. lia. }
      replace (off + m + S n') with (off + (m + S n')) by lia.
      eapply ht_pre; [|apply (IH (m + S n') (S s - S n')); lia].
      intros w [T [lim [_ [E2 Ef]]]]. rewrite Ef, T. split; [|exact Ht].
      rewrite E2. apply Hstep.
  - eapply ht_bind with
      (R := fun _ w => WN m (w_fs w) /\ t_frames (w_tr w) = [FErrno e]).
    + unfold throw_errno, throw. apply ht_mod_tr. intros w [T Ef].
      cbn [QueueProofs.upd_tr w_fs w_tr tr_push t_frames]. rewrite Ef, T, Ht.
      split; [|reflexivity]. split; [exact Hnd|]. split; [exact HS | auto].
    + intros ?. apply ht_ret. intros w [H1 H2]. split; [exists m; exact H1 | exists e; exact H2].
Qed.

(* ---- sync_file ---- *)

Definition NN (f : fs) : Prop := keys_nodup f /\ Nn f.

Lemma NN_DN f : NN f -> DN f.
Proof. intros [A B]. split; [exact A | apply Nn_Dd; exact B]. Qed.

Lemma NN_mkdir a f : a <> dst -> NN f -> NN (snd (fs_mkdir a f)).
Proof.
  intros Ha [A B]. split; [|apply Nn_mkdir; assumption].
  unfold fs_mkdir. destruct (lookup f a) eqn:El; [exact A|].
  destruct (parent_is_dir f a); [exact A|]. cbn [snd]. apply keys_nodup_add; assumption.
Qed.

Lemma NN_rmdir a f : NN f -> NN (snd (fs_rmdir a f)).
Proof.
  intros [A B]. split; [|apply Nn_rmdir; exact B].
  unfold fs_rmdir. destruct (lookup f a) as [[| |]|]; try exact A.
  destruct (children f a); [|exact A]. cbn [snd]. apply keys_nodup_del. exact A.
Qed.

Theorem ht_sync_hist :
  ht honest (fun w => NN (w_fs w) /\ t_frames (w_tr w) = [])
     (sync_file dst src off) sh_post (fun w => DN (w_fs w)).
Proof.
  unfold sync_file, when_ok.
  eapply ht_bind with (R := fun b0 w => (NN (w_fs w) /\ t_frames (w_tr w) = []) /\ b0 = true).
  { apply ht_is_ok. intros w [H1 H2]. split; [auto|]. unfold tr_ok. rewrite H2. reflexivity. }
  intros b0. apply ht_pure_pre with (phi := b0 = true); [intros w [_ E]; exact E|]. intros ->.
  apply ht_pre with (P := fun w => NN (w_fs w) /\ t_frames (w_tr w) = []); [intros w [H _]; exact H|].
  (* create_parents *)
  eapply ht_bind with (R := fun _ w => NN (w_fs w) /\ cp_trace (w_tr w)).
  { eapply ht_conseq3;
      [| | |apply ht_conj;
            [apply (tok_lift honest NN _
                      (d_create_parents NN (fun a => a <> dst) NN_mkdir dst
                         (fun a Ha E => parents_of_not_self dst (eq_ind a (fun x => In x (parents_of dst)) Ha dst E))))
            |apply (tr_create_parents honest dst)]].
    - intros w [H1 H2]. auto.
    - intros ? w [H1 H2]. auto.
    - intros w [H _]. apply NN_DN. exact H. }
  intros ?.
  eapply ht_bind with (R := fun bb w => (NN (w_fs w) /\ cp_trace (w_tr w)) /\ bb = tr_ok (w_tr w)).
  { apply ht_is_ok. auto. }
  intros bb. destruct bb; cbn [negb].
  2:{ (* an ancestor could not be created *)
    eapply ht_pre with (P := sh_err).
    - intros w [[H1 H2] H3]. split; [apply NN_DN; exact H1|].
      destruct H2 as [H2|[rest H2]].
      + unfold tr_ok in H3. rewrite H2 in H3. discriminate.
      + exists (FStatic M_cannot_create_ancestor), rest. split; [exact H2 | exact I].
    - eapply ht_post; [|apply ht_exit; [tkd | kp]]. intros r w H. right. exact H. }
  apply ht_pre with (P := fun w => NN (w_fs w) /\ t_frames (w_tr w) = []).
  { intros w [[H1 H2] H3]. split; [exact H1|]. destruct H2 as [H2|[rest H2]]; [exact H2|].
    unfold tr_ok in H3. rewrite H2 in H3. discriminate. }
  (* open the source *)
  eapply ht_bind with
    (R := fun rin w => (NN (w_fs w) /\ t_frames (w_tr w) = []) /\
            match rin with
            | inl ind => ind = FdFile i
            | inr e => e <> ENOENT /\ e <> ENOTDIR /\ e <> EACCES
            end).
  { unfold k_open_read, k_open_gen. apply ht_sys_honest.
    - intros w [H _]. apply NN_DN. exact H.
    - intros w e H E1 E2 E3 _. cbn. auto.
    - intros w H. pose proof H as [[_ [[Hl [Hg _]] _]] _]. unfold fs_open_read. rewrite Hl, Hg.
      cbn. auto. }
  intros rin. destruct rin as [ind|e].
  2:{ apply ht_pure_pre with (phi := e <> ENOENT /\ e <> ENOTDIR /\ e <> EACCES).
      { intros w [_ H]. exact H. }
      intros (E1 & E2 & E3).
      apply ht_pre with (P := fun w => NN (w_fs w) /\ t_frames (w_tr w) = []); [intros w [H _]; exact H|].
      destruct e; try congruence;
        (eapply ht_conseq3; [| | |apply (ht_throw_exit NN (FErrno _) (clean_up dst;; ret_ 0) NN_DN I)];
         [auto | auto | auto | tkd | kp]). }
  apply ht_pure_pre with (phi := ind = FdFile i); [intros w [_ E]; exact E|]. intros ->.
  apply ht_pre with (P := fun w => NN (w_fs w) /\ t_frames (w_tr w) = []); [intros w [H _]; exact H|].
  (* the exclusive create *)
  eapply ht_bind with
    (R := fun rout w => t_frames (w_tr w) = [] /\
            match rout with
            | inl d => d = FdFile out /\ WN 0 (w_fs w)
            | inr e => e <> EEXIST /\ NN (w_fs w)
            end).
  { unfold k_open_excl, k_open_gen. apply ht_sys_honest.
    - intros w [H _]. apply NN_DN. exact H.
    - intros w e [H1 H2] _ _ _ E4. cbn. auto.
    - intros w [[Hnd [HS [Hl Hn]]] Ht]. unfold fs_create_excl. rewrite Hl.
      unfold parent_is_dir. destruct (lookup (w_fs w) (dirname dst)) as [[| |]|] eqn:Ed; cbn;
        try (split; [exact Ht|]; split; [discriminate|]; split; [exact Hnd|]; split; [exact HS | auto]).
      fold (created dst (w_fs w)). split; [exact Ht|]. rewrite Hn. split; [reflexivity|].
      split; [apply keys_nodup_created; assumption|].
      split; [apply Src_created; assumption|].
      split; [unfold out; rewrite <- Hn; apply lookup_created_same; exact Hl|].
      unfold out. rewrite <- Hn, get_file_created_new. reflexivity. }
  intros rout. destruct rout as [dd|e].
  2:{ apply ht_pure_pre with (phi := e <> EEXIST); [intros w [_ [E _]]; exact E|]. intros E1.
      apply ht_pre with (P := fun w => NN (w_fs w) /\ t_frames (w_tr w) = []); [intros w [H1 [_ H2]]; auto|].
      destruct e; try congruence;
        (eapply ht_conseq3; [| | |apply (ht_throw_exit NN (FErrno _) (k_close;; clean_up dst;; ret_ 0) NN_DN I)];
         [auto | auto | auto | tkd | kp]). }
  apply ht_pure_pre with (phi := dd = FdFile out); [intros w [_ [E _]]; exact E|]. intros ->.
  apply ht_pre with (P := fun w => WN 0 (w_fs w) /\ t_frames (w_tr w) = []); [intros w [H1 [_ H2]]; auto|].
  (* fstat *)
  eapply ht_bind with
    (R := fun st w => (WN 0 (w_fs w) /\ t_frames (w_tr w) = []) /\
            match st with inl x => x = (true, length b) | inr _ => True end).
  { unfold k_fstat. apply ht_sys.
    - intros w [H _]. apply (WN_DN 0). exact H.
    - intros w e H. cbn. auto.
    - intros w H. pose proof H as [[_ [[_ [Hg _]] _]] _]. cbn. rewrite Hg. cbn. auto. }
  intros st. destruct st as [x|e].
  2:{ apply ht_pre with (P := fun w => WN 0 (w_fs w) /\ t_frames (w_tr w) = []); [intros w [H _]; exact H|].
      eapply ht_conseq3;
        [| | |apply (ht_throw_exit (WN 0) (FErrno e)
                       (k_close;; k_close;; k_unlink dst;; clean_up dst;; ret_ 0) (WN_DN 0) I)];
        [auto | auto | auto | tkd | kp]. }
  apply ht_pure_pre with (phi := x = (true, length b)); [intros w [_ E]; exact E|]. intros ->.
  apply ht_pre with (P := fun w => WN 0 (w_fs w) /\ t_frames (w_tr w) = []); [intros w [H _]; exact H|].
  (* the transfer *)
  assert (Hsend := ht_send_hist (S (length b)) 0 (length b) (Nat.le_0_l _) (Nat.add_0_r _) (Nat.lt_succ_diag_r _)).
  rewrite Nat.add_0_r in Hsend. cbv zeta.
  eapply ht_bind.
  { eapply ht_conseq3; [| | |apply Hsend].
    - intros w H. exact H.
    - intros r w H. exact H.
    - intros w [m' H]. apply (WN_DN m'). exact H. }
  intros r. destruct r as [c|].
  2:{ eapply ht_pre with (P := sh_err).
      - intros w [[m' H1] [e H2]]. split; [apply (WN_DN m'); exact H1|].
        exists (FErrno e), []. split; [exact H2 | exact I].
      - eapply ht_post; [|apply ht_exit; [tkd | kp]]. intros r w H. right. exact H. }
  apply ht_pure_pre with (phi := c = length b); [intros w [E _]; exact E|]. intros ->.
  apply ht_pre with (P := fun w => WN (length b - off) (w_fs w) /\ t_frames (w_tr w) = []);
    [intros w [_ H]; exact H|].
  eapply ht_bind with
    (R := fun _ w => WN (length b - off) (w_fs w) /\ t_frames (w_tr w) = []).
  { unfold k_close, sys_unit. apply ht_sys.
    - intros w [H _]. apply (WN_DN (length b - off)). exact H.
    - intros w e H. exact H.
    - intros w H. exact H. }
  intros c0. destruct c0 as [e|].
  - eapply ht_conseq3;
      [| | |apply (ht_throw_exit (WN (length b - off)) (FErrno e)
                     (k_close;; k_unlink dst;; clean_up dst;; ret_ 0) (WN_DN (length b - off)) I)];
      [auto | auto | auto | tkd | kp].
  - eapply ht_bind with
      (R := fun _ w => WN (length b - off) (w_fs w) /\ t_frames (w_tr w) = []).
    { unfold k_close, sys_unit. apply ht_sys.
      - intros w [H _]. apply (WN_DN (length b - off)). exact H.
      - intros w e H. exact H.
      - intros w H. exact H. }
    intros ?. apply ht_ret. intros w [[H1 H2] H3]. left. auto.
Qed.

End SyncHist.

(* ====================================================================== *)
(* C. write_counter: the position file after any run                       *)
(* ====================================================================== *)

Lemma firstn_snoc_nth {T} (l : list T) : forall m x rest,
  skipn m l = x :: rest -> firstn m l ++ [x] = firstn (S m) l /\ skipn (S m) l = rest.
Proof.
  induction l as [|y l IH]; intros m x rest H.
  - destruct m; discriminate.
  - destruct m as [|m]; cbn [skipn firstn app] in *.
    + injection H as -> ->. auto.
    + destruct (IH m x rest H) as [A B]. rewrite A. auto.
Qed.

Section Counter.
Variables (f1 : fs) (offp : str) (c : N).
Hypothesis Hc : c <> 0%N.
Hypothesis H1nd : keys_nodup f1.
Hypothesis H1wft : wft f1.
Hypothesis H1par : forall d, In d (parents_of offp) -> lookup f1 d = Some NDir \/ lookup f1 d = None.
(* the position file is absent or a readable regular file *)
Hypothesis H1pos : lookup f1 offp = None \/
                   exists io, lookup f1 offp = Some (NFile io) /\ io < fs_next f1 /\
                              f_readable (get_file f1 io) = true.

(* the frame: nothing but the position file, its ancestors and its inode moves *)
Record Cb (f : fs) : Prop := {
  C_other : forall x, x <> offp -> ~ In x (parents_of offp) -> lookup f x = lookup f1 x;
  C_par : forall d, In d (parents_of offp) -> lookup f d = Some NDir \/ lookup f d = None;
  C_next : fs_next f1 <= fs_next f;
  C_files : forall j, j < fs_next f1 -> lookup f1 offp <> Some (NFile j) -> get_file f j = get_file f1 j;
  C_off : lookup f offp = lookup f1 offp \/
          (lookup f1 offp = None /\ exists j, lookup f offp = Some (NFile j) /\ fs_next f1 <= j /\ j < fs_next f);
  C_nodup : keys_nodup f;
  C_wft : wft f
}.

Lemma Cb_refl : Cb f1.
Proof. constructor; auto. Qed.

Lemma Cb_mkdir a f : In a (parents_of offp) -> Cb f -> Cb (snd (fs_mkdir a f)).
Proof.
  intros Ha H. unfold fs_mkdir. destruct (lookup f a) eqn:El; [exact H|].
  unfold parent_is_dir. destruct (lookup f (dirname a)) as [[| |]|] eqn:Ed; try exact H. cbn [snd].
  destruct H as [A1 A2 A3 A4 A5 A6 A7].
  assert (Hao : a <> offp) by (intros ->; exact (parents_of_not_self _ Ha)).
  constructor.
  - intros x X1 X2. rewrite lookup_add_dent_other; [apply A1; assumption|]. intros ->. exact (X2 Ha).
  - intros d Hd. destruct (str_eqb_spec d a) as [->|Hn].
    + left. apply lookup_add_dent_same. exact El.
    + rewrite lookup_add_dent_other by exact Hn. apply A2. exact Hd.
  - exact A3.
  - exact A4.
  - rewrite lookup_add_dent_other by (intros E; exact (Hao (eq_sym E))). exact A5.
  - apply keys_nodup_add; assumption.
  - apply (wft_ext_add f _ a NDir); auto.
    + apply lookup_add_dent_same. exact El.
    + intros q Hq. apply lookup_add_dent_other. exact Hq.
Qed.

(* the open of the position file (O_CREAT without O_EXCL) *)
Lemma Cb_open f : Cb f -> Cb (snd (fs_open_create offp f)).
Proof.
  intros H. unfold fs_open_create. destruct (lookup f offp) as [[| |]|] eqn:El; try exact H.
  unfold fs_create_excl. rewrite El. unfold parent_is_dir.
  destruct (lookup f (dirname offp)) as [[| |]|] eqn:Ed; try exact H. cbn [snd].
  fold (created offp f). destruct H as [A1 A2 A3 A4 A5 A6 A7].
  constructor.
  - intros x X1 X2. rewrite lookup_created_other by exact X1. apply A1; assumption.
  - intros d Hd. rewrite lookup_created_other; [apply A2; exact Hd|].
    intros ->. exact (parents_of_not_self _ Hd).
  - cbn [created fs_next]. lia.
  - intros j Hj Hn. rewrite get_file_created_other by lia. apply A4; assumption.
  - right. destruct A5 as [A5|[_ [j [A5 _]]]]; [|congruence].
    split; [congruence|]. exists (fs_next f). split; [apply lookup_created_same; exact El|].
    cbn [created fs_next]. lia.
  - apply keys_nodup_created; assumption.
  - apply (wft_ext_add f _ offp (NFile (fs_next f))); auto.
    + apply lookup_created_same. exact El.
    + intros q Hq. apply lookup_created_other. exact Hq.
Qed.

(* a write to (or a truncation of) the inode behind the position file *)
Lemma Cb_set j x f : lookup f offp = Some (NFile j) -> Cb f -> Cb (set_file j x f).
Proof.
  intros Hl [A1 A2 A3 A4 A5 A6 A7]. constructor; try assumption.
  intros k Hk Hn. unfold set_file, get_file at 1. cbn [fs_files].
  rewrite nlookup_nupdate_other; [apply A4; assumption|].
  intros ->. destruct A5 as [A5|[_ [j' [A5 [B5 _]]]]].
  - apply Hn. rewrite <- A5. exact Hl.
  - rewrite Hl in A5. injection A5 as <-. lia.
Qed.

(* the position: untouched ... *)
Definition PU (f : fs) : Prop :=
  lookup f offp = lookup f1 offp /\
  forall j, lookup f1 offp = Some (NFile j) -> get_file f j = get_file f1 j.
(* ... or the first m digits of the new value *)
Definition PT (j m : nat) (f : fs) : Prop :=
  lookup f offp = Some (NFile j) /\ get_file f j = mkFile (firstn m (dec c)) true.
Definition PS (f : fs) : Prop := PU f \/ exists j m, PT j m f.

Definition CU (f : fs) : Prop := Cb f /\ PU f.
Definition CT (j m : nat) (f : fs) : Prop := Cb f /\ PT j m f.
Definition CS (f : fs) : Prop := Cb f /\ PS f.

Lemma CU_CS f : CU f -> CS f.
Proof. intros [A B]. split; [exact A | left; exact B]. Qed.
Lemma CT_CS j m f : CT j m f -> CS f.
Proof. intros [A B]. split; [exact A | right; exists j, m; exact B]. Qed.

Lemma CU_mkdir a f : In a (parents_of offp) -> CU f -> CU (snd (fs_mkdir a f)).
Proof.
  intros Ha [A [B1 B2]]. split; [apply Cb_mkdir; assumption|].
  unfold fs_mkdir. destruct (lookup f a) eqn:El; [split; assumption|].
  destruct (parent_is_dir f a); [split; assumption|]. cbn [snd]. split; [|exact B2].
  rewrite lookup_add_dent_other; [exact B1|]. intros E. rewrite E in Ha. exact (parents_of_not_self _ Ha).
Qed.

Lemma tok_CU_create_parents : tok CU (create_parents offp).
Proof.
  apply (d_create_parents CU (fun a => In a (parents_of offp))); [|auto].
  intros a f. apply CU_mkdir.
Qed.

(* after the open: the descriptor is the position file, which is the old file
   (untouched) or a new empty one *)
Definition CO (j : nat) (f : fs) : Prop :=
  Cb f /\ lookup f offp = Some (NFile j) /\
  ((lookup f1 offp = Some (NFile j) /\ get_file f j = get_file f1 j) \/
   (lookup f1 offp = None /\ get_file f j = mkFile [] true)).

Lemma CO_CS j f : CO j f -> CS f.
Proof.
  intros [A [B [[C1 C2]|[C1 C2]]]]; split; try exact A.
  - left. split; [congruence|]. intros j' Hj'. rewrite C1 in Hj'. injection Hj' as <-. exact C2.
  - right. exists j, 0. split; [exact B | exact C2].
Qed.

Lemma CO_readable j f : CO j f -> f_readable (get_file f j) = true.
Proof.
  intros [_ [_ [[C1 C2]|[C1 C2]]]]; rewrite C2; [|reflexivity].
  destruct H1pos as [E|(io & E1 & _ & E3)]; [congruence|]. rewrite C1 in E1. injection E1 as <-. exact E3.
Qed.

Lemma ht_write_digits j : forall ds m,
  skipn m (dec c) = ds ->
  ht honest (fun w => CT j m (w_fs w)) (write_digits j ds)
     (fun _ w => (tr_ok (w_tr w) = true /\ CT j (length (dec c)) (w_fs w)) \/
                 (tr_ok (w_tr w) = false /\ exists m', CT j m' (w_fs w)))
     (fun w => exists m', CT j m' (w_fs w)).
Proof.
  induction ds as [|ch ds IH]; intros m Hsk; cbn [write_digits].
  - apply ht_freeze. intros w0 H0. apply ht_ret. intros w ->.
    assert (Hm : firstn m (dec c) = firstn (length (dec c)) (dec c)).
    { rewrite firstn_all. rewrite <- (firstn_skipn m (dec c)) at 2. rewrite Hsk, app_nil_r. reflexivity. }
    destruct (tr_ok (w_tr w0)) eqn:Eok.
    + left. split; [reflexivity|]. destruct H0 as [A [B1 B2]]. split; [exact A|]. split; [exact B1|].
      rewrite <- Hm. exact B2.
    + right. split; [reflexivity | exists m; exact H0].
  - eapply ht_bind with (R := fun b0 w => CT j m (w_fs w) /\ b0 = tr_ok (w_tr w)); [apply ht_is_ok; auto|].
    intros b0. destruct b0.
    2:{ apply ht_ret. intros w [H E]. right. split; [congruence | exists m; exact H]. }
    destruct (firstn_snoc_nth (dec c) m ch ds Hsk) as [Hfn Hsk'].
    eapply ht_bind with
      (R := fun r w => match r with
                       | inl _ => CT j (S m) (w_fs w)
                       | inr _ => CT j m (w_fs w)
                       end).
    { unfold k_write. eapply ht_bind with (R := fun lim w => (CT j m (w_fs w)) /\ lim = 1).
      { intros o w Ho [H _]. unfold transfer_limit. cbn [length]. split; [exact H|].
        specialize (Ho (w_n w)). destruct (o (w_n w)); try reflexivity; lia. }
      intros lim. apply ht_pure_pre with (phi := lim = 1); [intros w [_ E]; exact E|]. intros ->.
      apply ht_sys.
      - intros w [H _]. exists m. exact H.
      - intros w e [H _]. exact H.
      - intros w [[A [B1 B2]] _]. cbn [firstn after_call w_fs].
        split; [apply Cb_set; assumption|]. split; [exact B1|].
        rewrite get_file_append_same, B2. cbn [f_bytes f_readable]. rewrite Hfn. reflexivity. }
    intros r. destruct r as [n|e].
    + apply (IH (S m) Hsk').
    + unfold throw_errno, throw. apply ht_mod_tr. intros w H. right.
      split; [reflexivity | exists m; exact H].
Qed.

(* the whole of write_counter for a positive value *)
Theorem ht_write_counter_pos :
  ht honest (fun w => w_fs w = f1 /\ t_frames (w_tr w) = [])
     (write_counter offp c)
     (fun _ w => (tr_ok (w_tr w) = true /\ exists j, CT j (length (dec c)) (w_fs w)) \/
                 (tr_ok (w_tr w) = false /\ CS (w_fs w)))
     (fun w => CS (w_fs w)).
Proof.
  assert (HU1 : CU f1) by (split; [exact Cb_refl | split; auto]).
  unfold write_counter, when_ok.
  eapply ht_bind with (R := fun b0 w => (CU (w_fs w) /\ t_frames (w_tr w) = []) /\ b0 = true).
  { apply ht_is_ok. intros w [-> H2]. split; [auto|]. unfold tr_ok. rewrite H2. reflexivity. }
  intros b0. apply ht_pure_pre with (phi := b0 = true); [intros w [_ E]; exact E|]. intros ->.
  rewrite (proj2 (N.eqb_neq _ _) Hc).
  eapply ht_bind with (R := fun _ w => CU (w_fs w)).
  { eapply ht_conseq3; [| | |apply (tok_lift honest CU _ tok_CU_create_parents)].
    - intros w [[H _] _]. exact H.
    - intros ? w H. exact H.
    - intros w H. apply CU_CS. exact H. }
  intros ?.
  eapply ht_bind with (R := fun b w => CU (w_fs w) /\ b = tr_ok (w_tr w)); [apply ht_is_ok; auto|].
  intros bb. destruct bb.
  2:{ apply ht_ret. intros w [H E]. right. split; [congruence | apply CU_CS; exact H]. }
  (* the open *)
  eapply ht_bind with
    (R := fun r w => tr_ok (w_tr w) = true /\
            match r with
            | inl (FdFile j) => CO j (w_fs w)
            | inl (FdDir _) => False
            | inr _ => CU (w_fs w)
            end).
  { unfold k_open_w, k_open_gen. apply ht_sys.
    - intros w [H _]. apply CU_CS. exact H.
    - intros w e [H E]. cbn. auto.
    - intros w [[A [B1 B2]] E]. cbn [after_call w_tr w_fs].
      assert (HU : CU (w_fs w)) by (split; [exact A | split; assumption]).
      pose proof (Cb_open _ A) as A'. unfold fs_open_create in *.
      destruct (lookup (w_fs w) offp) as [[| j|tg mt]|] eqn:El.
      + exfalso. destruct H1pos as [X|(io & X & _)]; congruence.
      + cbn. split; [auto|]. split; [exact A|]. split; [exact El|]. left.
        split; [congruence|]. apply B2. congruence.
      + exfalso. destruct H1pos as [X|(io & X & _)]; congruence.
      + unfold fs_create_excl in *. rewrite El in *. unfold parent_is_dir in *.
        destruct (lookup (w_fs w) (dirname offp)) as [[| |]|] eqn:Ed; cbn;
          try (split; [auto | exact HU]).
        cbn [snd] in A'. fold (created offp (w_fs w)) in *.
        split; [auto|]. split; [exact A'|].
        split; [apply lookup_created_same; exact El|]. right.
        split; [congruence | apply get_file_created_new]. }
  intros r. destruct r as [[j|dd]|e].
  3:{ unfold throw_errno, throw. apply ht_mod_tr. intros w [_ H]. right.
      split; [reflexivity | apply CU_CS; exact H]. }
  2:{ intros o w _ [_ []]. }
  (* ftruncate *)
  eapply ht_bind with
    (R := fun t w => match t with
                     | Some _ => tr_ok (w_tr w) = true /\ CO j (w_fs w)
                     | None => tr_ok (w_tr w) = true /\ CT j 0 (w_fs w)
                     end).
  { unfold k_ftruncate, sys_unit. apply ht_sys.
    - intros w [_ H]. apply (CO_CS j). exact H.
    - intros w e H. exact H.
    - intros w [E H]. cbn [after_call w_tr w_fs]. split; [exact E|].
      pose proof (CO_readable j _ H) as Hr. destruct H as [A [B _]].
      split; [unfold fs_truncate; apply Cb_set; assumption|]. split; [exact B|].
      rewrite get_file_truncate_same, Hr. reflexivity. }
  intros t0.
  eapply ht_bind with
    (R := fun _ w => (tr_ok (w_tr w) = true /\ CT j 0 (w_fs w)) \/
                     (tr_ok (w_tr w) = false /\ CS (w_fs w))).
  { destruct t0 as [e|].
    - unfold throw_errno, throw. apply ht_mod_tr. intros w [_ H]. right.
      split; [reflexivity | apply (CO_CS j); exact H].
    - apply ht_ret. intros w H. left. exact H. }
  intros ?.
  apply ht_pre_or.
  - eapply ht_bind with
      (R := fun _ w => (tr_ok (w_tr w) = true /\ CT j (length (dec c)) (w_fs w)) \/
                       (tr_ok (w_tr w) = false /\ exists m', CT j m' (w_fs w))).
    { eapply ht_conseq3; [| | |apply (ht_write_digits j (dec c) 0 eq_refl)].
      - intros w [_ H]. exact H.
      - intros ? w H. exact H.
      - intros w [m' H]. apply (CT_CS j m'). exact H. }
    intros ?.
    eapply ht_bind with
      (R := fun _ w => (tr_ok (w_tr w) = true /\ CT j (length (dec c)) (w_fs w)) \/
                       (tr_ok (w_tr w) = false /\ exists m', CT j m' (w_fs w))).
    { unfold k_close, sys_unit. apply ht_sys.
      - intros w [[_ H]|[_ [m' H]]]; [apply (CT_CS j _ _ H) | apply (CT_CS j m' _ H)].
      - intros w e H. exact H.
      - intros w H. exact H. }
    intros ?. apply ht_ret. intros w [[E H]|[E [m' H]]].
    + left. split; [exact E | exists j; exact H].
    + right. split; [exact E | apply (CT_CS j m'); exact H].
  - (* the truncation failed: no digit is written *)
    assert (Hskip : forall ds, ht honest (fun w => tr_ok (w_tr w) = false /\ CS (w_fs w)) (write_digits j ds)
                                 (fun _ w => tr_ok (w_tr w) = false /\ CS (w_fs w)) (fun w => CS (w_fs w))).
    { intros ds. destruct ds as [|ch ds]; cbn [write_digits]; [apply ht_ret; auto|].
      eapply ht_bind with (R := fun b0 w => (tr_ok (w_tr w) = false /\ CS (w_fs w)) /\ b0 = false).
      { apply ht_is_ok. intros w [E H]. rewrite E. auto. }
      intros b0. apply ht_pure_pre with (phi := b0 = false); [intros w [_ E]; exact E|]. intros ->.
      apply ht_ret. intros w [H _]. exact H. }
    eapply ht_bind; [apply Hskip|]. intros ?.
    eapply ht_bind with (R := fun _ w => tr_ok (w_tr w) = false /\ CS (w_fs w)).
    { unfold k_close, sys_unit. apply ht_sys.
      - intros w [_ H]. exact H.
      - intros w e H. exact H.
      - intros w H. exact H. }
    intros ?. apply ht_ret. intros w H. right. exact H.
Qed.

End Counter.

(* ====================================================================== *)
(* D. the pass over one history head                                       *)
(* ====================================================================== *)

Lemma ck_read_digits fuel : forall dd pos acc, ck (read_digits fuel dd pos acc).
Proof.
  induction fuel as [|fuel IH]; intros dd pos acc; cbn [read_digits]; [apply ck_ret|].
  apply ck_bind; [destruct dd; [unfold k_read1|]; apply ck_sys|]. intros r.
  ck_with ltac:(apply IH).
Qed.

Lemma ck_read_counter pth : ck (read_counter pth).
Proof. unfold read_counter, file_len. ck_with ltac:(apply ck_read_digits). Qed.

(* an iteration over an empty queue touches nothing *)
Lemma tri_get_head_empty (X : fs -> Prop) fuel q : q_size q = 0%N ->
  tri X (fun r => forall path meta, fst r <> Some (QReady path meta)) (q_get_head fuel q).
Proof.
  intros Hs. rewrite q_get_head_unfold.
  eapply tri_bind; [apply tri_of_tok; tk_with leaf1|]. intros b0 _.
  destruct (negb b0); [apply tri_ret; intros ? ? E; discriminate|].
  rewrite Hs. change (0 =? 0)%N with true. cbv iota. apply tri_ret. intros ? ? E. discriminate.
Qed.

Lemma tok_loop_empty (X : fs -> Prop) fuel rev h : q_size (h_q h) = 0%N -> tok X (handle_timeout_loop fuel rev h).
Proof.
  intros Hs. destruct fuel as [|fuel]; cbn [handle_timeout_loop]; [apply tok_ret|].
  apply tok_bind; [tk_with leaf1|intros b0]. destruct (negb b0); [apply tok_ret|].
  apply tok_bind; [tk_with leaf1|intros ?].
  eapply tok_bindv; [apply tri_get_head_empty; exact Hs|]. intros [hd q1] Hr. cbn [fst] in Hr.
  apply tok_bind; [tk_with leaf1|intros ?]. cbv beta iota zeta.
  apply tok_bind; [tk_with leaf1|intros b1].
  destruct b1; [|apply tok_ret].
  destruct hd as [[z|path meta]|]; [apply tok_ret | exfalso; exact (Hr path meta eq_refl) | apply tok_ret].
Qed.

Section HistPass1.
Variables (cfg : config) (cpl : nat) (oj : option journal) (d : str) (f0 : fs) (now : Z)
          (p : str) (t : Z) (i : nat) (b : str) (p0 : nat) (q0 : qmem).

Notation dst := (store_name cfg cpl now p).
Notation offp := (offset_name cfg cpl p).
Notation qn := (head_name q0).
Notation ents := [(p, 2%N, t)].
Notation L := (length b).
Notation slice := (skipn p0 b).
Notation newpos := (dec (N.of_nat (length b))).

(* the side conditions of the crashed pass *)
Record h1_ok : Prop := {
  H1_dq : Str.under d dst = false;
  H1_oq : Str.under d offp = false;
  H1_od : offp <> dst;
  H1_op : ~ In offp (parents_of dst);
  H1_do : ~ In dst (parents_of offp);
  H1_free : lookup f0 dst = None;
  H1_par : forall x, In x (parents_of dst) -> lookup f0 x = Some NDir \/ lookup f0 x = None;
  H1_opar : forall x, In x (parents_of offp) -> lookup f0 x = Some NDir \/ lookup f0 x = None;
  (* the remembered position p0: absent for 0, otherwise its decimal; not beyond the end *)
  H1_pos : pos_is f0 offp p0;
  H1_le : p0 <= L;
  H1_bpos : 0 < L;
  H1_posi : forall io, lookup f0 offp = Some (NFile io) -> io <> i /\ nj oj io;
  (* the source: a readable regular file with bytes b *)
  H1_src : lookup f0 p = Some (NFile i) /\ get_file f0 i = mkFile b true /\ i < fs_next f0 /\ nj oj i;
  H1_j : forall jn, oj = Some jn -> j_ino jn < fs_next f0;
  H1_nodup : keys_nodup f0;
  H1_wft : wft f0;
  H1_qclean : qclean d f0;
  (* the queue holds the one history entry *)
  H1_q : QRel q0 f0 ents;
  H1_qd : q_dir q0 = d
}.

Hypothesis HK : h1_ok.

Let Hdnr : d <> root_path.
Proof. rewrite <- (H1_qd HK). exact (QR_nroot _ _ _ (H1_q HK)). Qed.

Lemma qn_eq : qn = join d (dec (q_head q0)).
Proof. unfold head_name. rewrite (H1_qd HK). reflexivity. Qed.

Lemma qn_dst : dst <> qn /\ ~ In qn (parents_of dst).
Proof. rewrite qn_eq. apply under_join_dec; [exact Hdnr | exact (H1_dq HK)]. Qed.
Lemma qn_off : offp <> qn /\ ~ In qn (parents_of offp).
Proof. rewrite qn_eq. apply under_join_dec; [exact Hdnr | exact (H1_oq HK)]. Qed.

Lemma qn_link : lookup f0 qn = Some (NLink (encode 2 p) t).
Proof. exact (QRel_head _ _ _ _ _ _ (H1_q HK)). Qed.

(* what is on disk: [ver] the bytes of the new file at the first candidate name
   (None: no such file), [pos] the bytes of the position file (None: it is
   untouched, the remembered position is still p0), [queued] whether the
   queue link of the entry is still there *)
Record HLeft (ver : option str) (pos : option str) (queued : bool) (f : fs) : Prop := {
  HL_other : forall x, x <> dst -> ~ In x (parents_of dst) -> x <> offp -> ~ In x (parents_of offp) ->
                       x <> qn -> lookup f x = lookup f0 x;
  HL_par : forall x, In x (parents_of dst) \/ In x (parents_of offp) ->
                     lookup f x = Some NDir \/ lookup f x = None;
  HL_next : fs_next f0 <= fs_next f;
  HL_files : forall j, j < fs_next f0 -> nj oj j -> lookup f0 offp <> Some (NFile j) ->
                       get_file f j = get_file f0 j;
  HL_nodup : keys_nodup f;
  HL_wft : wft f;
  HL_ver : match ver with
           | None => lookup f dst = None
           | Some x => lookup f dst = Some (NFile (fs_next f0)) /\ fs_next f0 < fs_next f /\
                       f_bytes (get_file f (fs_next f0)) = x
           end;
  HL_pos : match pos with
           | None => lookup f offp = lookup f0 offp /\
                     forall j, lookup f0 offp = Some (NFile j) -> get_file f j = get_file f0 j
           | Some ds => exists j, lookup f offp = Some (NFile j) /\ get_file f j = mkFile ds true /\
                                  j < fs_next f /\
                                  (lookup f0 offp = Some (NFile j) \/
                                   (lookup f0 offp = None /\ fs_next f0 < j))
           end;
  HL_q : if queued then lookup f qn = lookup f0 qn else lookup f qn = None
}.

(* where the run can have ended *)
Definition hcase (ver pos : option str) (queued : bool) : Prop :=
  (* (a) nothing has changed *)
  (ver = None /\ pos = None /\ queued = true) \/
  (* (b) a prefix of the slice at the first candidate name, position p0, entry queued *)
  (exists m, ver = Some (firstn m slice) /\ pos = None /\ queued = true) \/
  (* (c) the complete slice; the position is untouched or a PREFIX of the new digits
         (all of them: the crash came before the pop); entry queued *)
  (ver = Some slice /\ (pos = None \/ exists m, pos = Some (firstn m newpos)) /\ queued = true) \/
  (* (d) the complete slice, the new position, the entry popped *)
  (ver = Some slice /\ pos = Some newpos /\ queued = false).

Definition CL (f : fs) : Prop := exists ver pos queued, hcase ver pos queued /\ HLeft ver pos queued f.

Lemma Left_init : HLeft None None true f0.
Proof.
  constructor; auto.
  - intros x [Hx|Hx]; [exact (H1_par HK x Hx) | exact (H1_opar HK x Hx)].
  - exact (H1_nodup HK).
  - exact (H1_wft HK).
  - exact (H1_free HK).
Qed.

Lemma CL_init : CL f0.
Proof. exists None, None, true. split; [left; auto | exact Left_init]. Qed.

(* appends to the journal keep everything *)
Lemma Left_ja ver pos queued f jn y :
  oj = Some jn -> HLeft ver pos queued f -> HLeft ver pos queued (fs_append (j_ino jn) y f).
Proof.
  intros Hj [A1 A2 A3 A4 A5 A6 A7 A8 A9].
  assert (G : forall k, nj oj k -> get_file (fs_append (j_ino jn) y f) k = get_file f k).
  { intros k Hk. apply get_file_append_other. apply Hk. exact Hj. }
  assert (Hnew : forall k, fs_next f0 <= k -> nj oj k).
  { intros k Hk jn' Hj' E. pose proof (H1_j HK jn' Hj'). lia. }
  constructor; try assumption.
  - intros j J1 J2 J3. rewrite (G j J2). apply A4; assumption.
  - destruct ver as [x|]; [|exact A7]. destruct A7 as (B1 & B2 & B3).
    split; [exact B1|]. split; [exact B2|]. rewrite G; [exact B3 | apply Hnew; lia].
  - destruct pos as [ds|].
    + destruct A8 as (j & B1 & B2 & B3 & B4). exists j. split; [exact B1|]. split; [|split; [exact B3 | exact B4]].
      rewrite G; [exact B2|]. destruct B4 as [B4|[_ B4]]; [exact (proj2 (H1_posi HK j B4)) | apply Hnew; lia].
    + destruct A8 as [B1 B2]. split; [exact B1|]. intros j Hjo. rewrite G; [apply B2; exact Hjo|].
      exact (proj2 (H1_posi HK j Hjo)).
Qed.

(* the source stays what it was *)
Lemma p_untouched : p <> dst /\ ~ In p (parents_of dst) /\ p <> offp /\ ~ In p (parents_of offp) /\ p <> qn.
Proof.
  destruct (H1_src HK) as (S1 & S2 & S3 & S4).
  split; [intros E; rewrite E, (H1_free HK) in S1; discriminate|].
  split; [intros E; destruct (H1_par HK p E) as [X|X]; rewrite X in S1; discriminate|].
  split.
  { intros E. destruct (H1_pos HK) as [[_ A]|[_ (io & A & _)]].
    - rewrite <- E, S1 in A. discriminate.
    - rewrite <- E, S1 in A. injection A as <-. exact (proj1 (H1_posi HK i (eq_trans (f_equal _ (eq_sym E)) S1)) eq_refl). }
  split; [intros E; destruct (H1_opar HK p E) as [X|X]; rewrite X in S1; discriminate|].
  intros E. rewrite E, qn_link in S1. discriminate.
Qed.

Lemma Left_src ver pos queued f : HLeft ver pos queued f -> Src p i b f.
Proof.
  intros H. destruct (H1_src HK) as (S1 & S2 & S3 & S4).
  destruct p_untouched as (U1 & U2 & U3 & U4 & U5).
  split; [rewrite (HL_other _ _ _ _ H p U1 U2 U3 U4 U5); exact S1|].
  split; [|pose proof (HL_next _ _ _ _ H); lia].
  rewrite (HL_files _ _ _ _ H i S3 S4); [exact S2|].
  intros E. exact (proj1 (H1_posi HK i E) eq_refl).
Qed.

(* names inside the queue directory, other than the head link, are as at the start *)
Lemma d_dir : lookup f0 d = Some NDir.
Proof. rewrite <- (H1_qd HK). exact (QR_dir _ _ _ (H1_q HK)). Qed.

Lemma inside_untouched x : inside d x ->
  x <> dst /\ ~ In x (parents_of dst) /\ x <> offp /\ ~ In x (parents_of offp).
Proof.
  intros Hin.
  assert (Hgen : forall y, Str.under d y = false -> lookup f0 y <> Some NDir ->
                           x <> y /\ ~ In x (parents_of y)).
  { intros y Hy Hny. destruct (str_eqb_spec x d) as [->|Hxd].
    - split.
      + intros <-. exact (Hny d_dir).
      + intros Hp. exact (proj2 (under_parent_false d y d Hy Hp) eq_refl).
    - pose proof (inside_under d x Hin Hxd) as Hu. split.
      + intros <-. congruence.
      + intros Hp. pose proof (proj1 (under_parent_false d y x Hy Hp)). congruence. }
  destruct (Hgen dst (H1_dq HK)) as [A1 A2]; [rewrite (H1_free HK); discriminate|].
  destruct (Hgen offp (H1_oq HK)) as [B1 B2].
  { destruct (H1_pos HK) as [[_ A]|[_ (io & A & _)]]; rewrite A; discriminate. }
  auto.
Qed.

(* the queue: the entry is still there ... *)
Lemma Left_QRel ver pos f : HLeft ver pos true f -> QRel q0 f ents.
Proof.
  intros H. eapply QRel_ext; [|exact (H1_q HK)].
  intros x Hx. rewrite (H1_qd HK) in Hx.
  destruct (str_eqb_spec x qn) as [->|Hn]; [exact (HL_q _ _ _ _ H)|].
  destruct (inside_untouched x Hx) as (A1 & A2 & A3 & A4).
  exact (HL_other _ _ _ _ H x A1 A2 A3 A4 Hn).
Qed.

(* ... or it has been removed *)
Lemma Left_QRel_popped ver pos f : HLeft ver pos false f -> QRel (popped p q0) f [].
Proof.
  intros H.
  pose proof (QRel_pop q0 f0 p 2%N t [] (H1_nodup HK) (H1_q HK)) as HR.
  eapply QRel_ext; [|exact HR].
  intros x Hx. cbn [popped q_dir] in Hx. rewrite (H1_qd HK) in Hx.
  destruct (str_eqb_spec x qn) as [->|Hn].
  - rewrite (HL_q _ _ _ _ H). symmetry. apply lookup_del_dent_same; [exact (H1_nodup HK)|].
    rewrite qn_eq. apply join_dec_nonroot. exact Hdnr.
  - rewrite lookup_del_dent_other by exact Hn.
    destruct (inside_untouched x Hx) as (A1 & A2 & A3 & A4).
    exact (HL_other _ _ _ _ H x A1 A2 A3 A4 Hn).
Qed.

Lemma Left_qclean ver pos queued f : HLeft ver pos queued f -> qclean d f.
Proof.
  intros H. destruct (H1_qclean HK) as [Hne Hc]. split; [exact Hne|].
  intros x Hd Hr Hx.
  destruct (str_eqb_spec x qn) as [->|Hn]; [exists (q_head q0); exact qn_eq|].
  apply (Hc x Hd Hr).
  destruct (dirname_inside x d Hd Hdnr Hne) as [r Hxr].
  destruct (inside_untouched x (or_intror (ex_intro _ r Hxr))) as (A1 & A2 & A3 & A4).
  rewrite <- (HL_other _ _ _ _ H x A1 A2 A3 A4 Hn). exact Hx.
Qed.

(* ----- from the frames of the pieces to HLeft ----- *)

(* after (or during) the copy *)
Lemma Left_sync f ver :
  Step f0 dst f ->
  match ver with
  | None => lookup f dst = None
  | Some x => lookup f dst = Some (NFile (fs_next f0)) /\ f_bytes (get_file f (fs_next f0)) = x
  end ->
  HLeft ver None true f.
Proof.
  intros [S1 S2 S3 S4 S5 S6 S7] Hv.
  constructor; try assumption.
  - intros x X1 X2 _ _ _. apply S1; assumption.
  - intros x [Hx|Hx]; [exact (S2 x Hx)|].
    destruct (str_in_dec x (parents_of dst)) as [Hin|Hnin]; [exact (S2 x Hin)|].
    rewrite S1; [exact (H1_opar HK x Hx) | | exact Hnin]. intros ->. exact (H1_do HK Hx).
  - intros j J1 _ _. apply S4. exact J1.
  - destruct ver as [x|]; [|exact Hv]. destruct Hv as [V1 V2]. split; [exact V1|]. split; [|exact V2].
    destruct S5 as [S5|[j [A [B C]]]]; [congruence|]. rewrite V1 in A. injection A as <-. exact C.
  - split; [apply S1; [exact (H1_od HK) | exact (H1_op HK)]|].
    intros j Hj. apply S4. destruct (H1_pos HK) as [[_ A]|[_ (io & A & _ & B)]]; [congruence|].
    rewrite Hj in A. injection A as <-. exact B.
  - apply S1; [intros E; exact (proj1 qn_dst (eq_sym E)) | exact (proj2 qn_dst)].
Qed.

(* after (or during) the position update *)
Lemma Left_counter f1 f pos :
  Step f0 dst f1 ->
  lookup f1 dst = Some (NFile (fs_next f0)) -> f_bytes (get_file f1 (fs_next f0)) = slice ->
  Cb f1 offp f ->
  match pos with
  | None => PU f1 offp f
  | Some ds => exists j, lookup f offp = Some (NFile j) /\ get_file f j = mkFile ds true
  end ->
  HLeft (Some slice) pos true f.
Proof.
  intros HS V1 V2 [C1 C2 C3 C4 C5 C6 C7] Hp.
  pose proof (Left_sync f1 (Some slice) HS (conj V1 V2)) as H1.
  destruct H1 as [A1 A2 A3 A4 A5 A6 A7 A8 A9]. destruct A7 as (_ & A7 & _). destruct A8 as [A8 A8'].
  assert (Hposold : forall j, lookup f0 offp = Some (NFile j) -> j < fs_next f0).
  { intros j Hj. destruct (H1_pos HK) as [[_ A]|[_ (io & A & _ & B)]]; [congruence|].
    rewrite Hj in A. injection A as <-. exact B. }
  constructor.
  - intros x X1 X2 X3 X4 X5. rewrite (C1 x X3 X4). exact (A1 x X1 X2 X3 X4 X5).
  - intros x [Hx|Hx]; [|exact (C2 x (or_intror Hx) ) || exact (C2 x Hx)].
    destruct (str_in_dec x (parents_of offp)) as [Hin|Hnin]; [exact (C2 x Hin)|].
    rewrite C1; [exact (A2 x (or_introl Hx)) | | exact Hnin]. intros ->. exact (H1_op HK Hx).
  - lia.
  - intros j J1 J2 J3. rewrite C4; [apply A4; assumption | lia | rewrite A8; exact J3].
  - exact C6.
  - exact C7.
  - split; [rewrite C1; [exact V1 | intros E; exact (H1_od HK (eq_sym E)) | exact (H1_do HK)]|].
    split; [lia|]. rewrite C4; [exact V2 | exact A7|].
    rewrite A8. intros E. pose proof (Hposold _ E). lia.
  - destruct pos as [ds|].
    + destruct Hp as (j & P1 & P2). exists j. split; [exact P1|]. split; [exact P2|].
      destruct C5 as [C5|[C5 (j' & D1 & D2 & D3)]].
      * rewrite P1, A8 in C5. split; [pose proof (Hposold j (eq_sym C5)); lia | left; congruence].
      * rewrite P1 in D1. injection D1 as <-. split; [exact D3|]. right. split; [congruence | lia].
    + destruct Hp as [P1 P2]. split; [congruence|]. intros j Hj. rewrite P2 by congruence. apply A8'. exact Hj.
  - rewrite C1; [exact A9 | intros E; exact (proj1 qn_off (eq_sym E)) | exact (proj2 qn_off)].
Qed.

(* the pop *)
Lemma Left_pop ver pos f : HLeft ver pos true f -> HLeft ver pos false (del_dent qn f).
Proof.
  intros H. pose proof H as [A1 A2 A3 A4 A5 A6 A7 A8 A9].
  assert (Hqr : qn <> root_path) by (rewrite qn_eq; apply join_dec_nonroot; exact Hdnr).
  assert (Hlk : forall y, y <> qn -> lookup (del_dent qn f) y = lookup f y)
    by (intros y Hy; apply lookup_del_dent_other; exact Hy).
  constructor.
  - intros x X1 X2 X3 X4 X5. rewrite (Hlk x X5). apply A1; assumption.
  - intros x Hx. rewrite Hlk; [exact (A2 x Hx)|].
    intros ->. destruct Hx as [Hx|Hx]; [exact (proj2 qn_dst Hx) | exact (proj2 qn_off Hx)].
  - exact A3.
  - exact A4.
  - apply keys_nodup_del. exact A5.
  - apply (wft_ext_del f _ qn).
    + left. apply lookup_del_dent_same; assumption.
    + exact Hlk.
    + intros y Hy Hr _ Hd. pose proof (A6 y Hy Hr) as Hdy. rewrite Hd, A9, qn_link in Hdy. discriminate.
    + exact A6.
  - destruct ver as [x|].
    + rewrite Hlk by (exact (proj1 qn_dst)). exact A7.
    + rewrite Hlk by (exact (proj1 qn_dst)). exact A7.
  - destruct pos as [ds|].
    + destruct A8 as (j & B1 & B2). exists j. rewrite Hlk by (exact (proj1 qn_off)). auto.
    + rewrite Hlk by (exact (proj1 qn_off)). exact A8.
  - apply lookup_del_dent_same; assumption.
Qed.

(* ----- the triples ----- *)

Lemma ht_ro f {A} (m : M A) :
  CL f -> (forall P, tok P m) -> ck m ->
  ht honest (fun w => w_fs w = f /\ w_clock w = now) m
     (fun _ w => w_fs w = f /\ w_clock w = now) (fun w => CL (w_fs w)).
Proof.
  intros HC Hm Hc.
  eapply ht_conseq3; [| | |apply (ht_ck now honest _ m _ _ Hc (tok_lift honest (fun x => x = f) m (Hm _)))].
  - intros w H. exact H.
  - intros a w H. exact H.
  - intros w H. cbv beta in H. rewrite H. exact HC.
Qed.

Lemma ht_ret_CL f {A} (r : A) :
  CL f -> ht honest (fun w => w_fs w = f /\ w_clock w = now) (ret_ r)
             (fun _ w => CL (w_fs w)) (fun w => CL (w_fs w)).
Proof. intros HC. apply ht_ret. intros w [H _]. rewrite H. exact HC. Qed.

(* the states with the entry still queued *)
Definition CLq (f : fs) : Prop := exists ver pos, hcase ver pos true /\ HLeft ver pos true f.

Lemma CLq_CL f : CLq f -> CL f.
Proof. intros (ver & pos & A & B). exists ver, pos, true. auto. Qed.

Lemma DN_CLq f : Step f0 dst f -> DN f0 dst p i b p0 f -> CLq f.
Proof.
  intros HS [_ [_ [Hn|[m [_ [W1 W2]]]]]].
  - exists None, None. split; [left; auto|]. apply Left_sync; assumption.
  - exists (Some (firstn m slice)), None. split; [right; left; exists m; auto|].
    apply Left_sync; [exact HS | split; assumption].
Qed.

Lemma src0 : Src p i b f0.
Proof. destruct (H1_src HK) as (S1 & S2 & S3 & _). split; [exact S1 | split; assumption]. Qed.

Lemma Step0 : Step f0 dst f0.
Proof.
  constructor; auto.
  - exact (H1_par HK).
  - left. exact (H1_free HK).
  - exact (H1_nodup HK).
  - exact (H1_wft HK).
Qed.

(* the copy loop: copy from position p0, then the position update *)
Lemma ht_fsl_hist fuel sp cfg0 :
  current_path sp = dst ->
  ht honest (fun w => w_fs w = f0 /\ t_frames (w_tr w) = [])
     (file_store_loop (S fuel) sp p offp p0 true cfg0)
     (fun _ w => (tr_ok (w_tr w) = true /\ HLeft (Some slice) (Some newpos) true (w_fs w)) \/
                 (tr_ok (w_tr w) = false /\ CLq (w_fs w)))
     (fun w => CLq (w_fs w)).
Proof.
  intros Esp. cbn [file_store_loop]. rewrite Esp.
  eapply ht_bind with (R := fun _ w => w_fs w = f0 /\ t_frames (w_tr w) = []).
  { unfold try_. apply ht_mod_tr. intros w [H1 H2]. split; [exact H1|].
    cbn [QueueProofs.upd_tr w_tr]. rewrite tr_try_frames. exact H2. }
  intros ?.
  eapply ht_bind with
    (R := fun no w => Step f0 dst (w_fs w) /\ sh_post f0 dst p i b p0 no w).
  { eapply ht_conseq3;
      [| | |apply ht_conj;
            [apply (tok_lift honest _ _ (tk_sync_file f0 dst p p0))
            |apply (ht_sync_hist f0 dst p i b p0 src0 (H1_le HK))]].
    - intros w [H1 H2]. rewrite H1. split; [exact Step0|]. split; [|exact H2].
      split; [exact (H1_nodup HK)|]. split; [exact src0|]. split; [exact (H1_free HK) | reflexivity].
    - intros ? w H. exact H.
    - intros w [H1 H2]. apply DN_CLq; assumption. }
  intros no.
  eapply ht_conseq3 with
    (P := fun w => (Step f0 dst (w_fs w) /\ t_frames (w_tr w) = [] /\ no = L /\
                    Ww f0 dst p i b p0 (L - p0) (w_fs w)) \/
                   (Step f0 dst (w_fs w) /\ sh_err f0 dst p i b p0 w));
    [| intros r w H; exact H | intros w H; exact H |].
  { intros w [HS [(T & E & _ & W)|He]]; [left; auto | right; auto]. }
  apply ht_pre_or.
  - (* the slice is stored *)
    apply ht_pure_pre with (phi := no = L); [intros w (_ & _ & E & _); exact E|]. intros ->.
    apply ht_catch_false; [intros w (_ & H & _); apply catch_empty; exact H|]. cbv iota.
    apply ht_catch_false; [intros w (_ & H & _); apply catch_empty; exact H|]. cbv iota.
    apply ht_catch_false; [intros w (_ & H & _); apply catch_empty; exact H|]. cbv iota.
    apply ht_catch_false; [intros w (_ & H & _); apply catch_empty; exact H|]. cbv iota.
    apply ht_freeze. intros w1 (HS1 & Ht1 & _ & (Hsrc1 & Wl & Wb)).
    set (f1 := w_fs w1) in *.
    assert (Wb' : f_bytes (get_file f1 (fs_next f0)) = slice).
    { rewrite Wb. apply firstn_all2. rewrite skipn_length. lia. }
    assert (Hc : N.of_nat L <> 0%N) by (pose proof (H1_bpos HK); lia).
    assert (Hoff1 : lookup f1 offp = lookup f0 offp).
    { apply (S_other _ _ _ HS1); [exact (H1_od HK) | exact (H1_op HK)]. }
    assert (Hpar1 : forall x, In x (parents_of offp) -> lookup f1 x = Some NDir \/ lookup f1 x = None).
    { intros x Hx. destruct (str_in_dec x (parents_of dst)) as [Hin|Hnin]; [exact (S_par _ _ _ HS1 x Hin)|].
      rewrite (S_other _ _ _ HS1); [exact (H1_opar HK x Hx) | | exact Hnin]. intros ->. exact (H1_do HK Hx). }
    assert (Hpos1 : lookup f1 offp = None \/
                    exists io, lookup f1 offp = Some (NFile io) /\ io < fs_next f1 /\
                               f_readable (get_file f1 io) = true).
    { rewrite Hoff1. destruct (H1_pos HK) as [[_ A]|[_ (io & A & B & C)]]; [left; exact A|].
      right. exists io. split; [exact A|]. pose proof (S_next _ _ _ HS1).
      split; [lia|]. rewrite (S_files _ _ _ HS1 io C), B. reflexivity. }
    pose proof (ht_write_counter_pos f1 offp (N.of_nat L) Hc (S_nodup _ _ _ HS1) (S_wft _ _ _ HS1) Hpar1 Hpos1)
      as Hwc.
    assert (HCS : forall f, CS f1 offp (N.of_nat L) f -> CLq f).
    { intros f [HCb [HPU|(j & m & HPT)]].
      - exists (Some slice), None. split; [right; right; left; auto|].
        apply (Left_counter f1 f None HS1 Wl Wb' HCb HPU).
      - exists (Some slice), (Some (firstn m newpos)). split; [right; right; left; eauto|].
        apply (Left_counter f1 f (Some (firstn m newpos)) HS1 Wl Wb' HCb). exists j. exact HPT. }
    eapply ht_bind with
      (R := fun _ w => (tr_ok (w_tr w) = true /\ HLeft (Some slice) (Some newpos) true (w_fs w)) \/
                       (tr_ok (w_tr w) = false /\ CLq (w_fs w))).
    { eapply ht_conseq3; [| | |exact Hwc].
      - intros w ->. auto.
      - intros ? w [[E (j & HCb & HPT)]|[E H]].
        + left. split; [exact E|]. apply (Left_counter f1 _ (Some newpos) HS1 Wl Wb' HCb).
          exists j. destruct HPT as [P1 P2]. rewrite firstn_all in P2. auto.
        + right. split; [exact E | apply HCS; exact H].
      - intros w H. apply HCS. exact H. }
    intros ?.
    eapply ht_bind with
      (R := fun b0 w => (tr_ok (w_tr w) = true /\ HLeft (Some slice) (Some newpos) true (w_fs w)) \/
                        (tr_ok (w_tr w) = false /\ CLq (w_fs w))).
    { apply ht_is_ok. auto. }
    intros b0.
    eapply ht_bind with
      (R := fun _ w => (tr_ok (w_tr w) = true /\ HLeft (Some slice) (Some newpos) true (w_fs w)) \/
                       (tr_ok (w_tr w) = false /\ CLq (w_fs w))).
    { unfold finally_. apply ht_mod_tr. intros w H. cbn [QueueProofs.upd_tr w_tr w_fs].
      unfold tr_ok in *. rewrite tr_finally_frames. exact H. }
    intros ?. apply ht_ret. auto.
  - (* an error: no position update *)
    assert (Hcf : forall m w,
               (Step f0 dst (w_fs w) /\ sh_err f0 dst p i b p0 w) ->
               In m [M_src_missing; M_not_regular; M_src_denied; M_dst_exists] ->
               tr_catch_static m (w_tr w) = (false, w_tr w)).
    { intros m w [_ [_ [fr [rest [Hf Ho]]]]] Hin. apply (catch_other_frame m _ fr rest Hf).
      intros ->. cbn in Hin. destruct Hin as [<-|[<-|[<-|[<-|[]]]]]; exact Ho. }
    apply ht_catch_false; [intros w H; apply Hcf; [exact H | cbn; tauto]|]. cbv iota.
    apply ht_catch_false; [intros w H; apply Hcf; [exact H | cbn; tauto]|]. cbv iota.
    apply ht_catch_false; [intros w H; apply Hcf; [exact H | cbn; tauto]|]. cbv iota.
    apply ht_catch_false; [intros w H; apply Hcf; [exact H | cbn; tauto]|]. cbv iota.
    eapply ht_bind with (R := fun _ w => CLq (w_fs w) /\ tr_ok (w_tr w) = false).
    { unfold write_counter, when_ok.
      eapply ht_bind with (R := fun b0 w => (CLq (w_fs w) /\ tr_ok (w_tr w) = false) /\ b0 = false).
      { apply ht_is_ok. intros w [HS [HD [fr [rest [H2 _]]]]].
        assert (E : tr_ok (w_tr w) = false) by (unfold tr_ok; rewrite H2; reflexivity).
        rewrite E. split; [|reflexivity]. split; [apply DN_CLq; assumption | reflexivity]. }
      intros b0. apply ht_pure_pre with (phi := b0 = false); [intros w [_ E]; exact E|]. intros ->.
      apply ht_ret. intros w [H _]. exact H. }
    intros ?.
    eapply ht_bind with (R := fun _ w => CLq (w_fs w) /\ tr_ok (w_tr w) = false);
      [apply ht_is_ok; auto|intros b0].
    eapply ht_bind with (R := fun _ w => CLq (w_fs w) /\ tr_ok (w_tr w) = false).
    { unfold finally_. apply ht_mod_tr. intros w [H1 H2]. split; [exact H1|].
      cbn [QueueProofs.upd_tr w_tr]. unfold tr_ok in *. rewrite tr_finally_frames. exact H2. }
    intros ?. apply ht_ret. intros w [H1 H2]. right. auto.
Qed.

(* ----- the iteration over the head, then the (empty) rest ----- *)

Lemma count_one : count_paths p ents = 1.
Proof. cbn [count_paths]. unfold qpath. cbn [fst]. rewrite str_eqb_refl. reflexivity. Qed.

Lemma loopH fuel rev h : HIh cfg cpl oj h -> h_q h = q0 ->
  ht honest (fun w => w_fs w = f0 /\ w_clock w = now)
     (handle_timeout_loop (S fuel) rev h) (fun _ w => CL (w_fs w)) (fun w => CL (w_fs w)).
Proof.
  intros [Hcfg [Hcpl Hoj]] Hq. cbn [handle_timeout_loop]. rewrite Hq.
  pose proof CL_init as HCL.
  pose proof (fun A r => @ht_ret_CL f0 A r HCL) as Hret.
  eapply ht_bind; [apply (ht_ro f0); [exact HCL | intros P; tk_with leaf1 | ckt]|intros b0].
  destruct (negb b0); [apply Hret|].
  eapply ht_bind; [apply (ht_ro f0); [exact HCL | intros P; tk_with leaf1 | ckt]|intros ?].
  (* the head *)
  eapply ht_bind.
  { eapply ht_conseq3;
      [| | |apply (ht_ck now honest _ _ _ _ (ck_q_get_head _ q0)
                    (ht_get_head_first honest f0 q0 p 2%N t [] _ (H1_q HK) count_one))].
    - intros w H. exact H.
    - intros r w H. exact H.
    - intros w H. cbv beta in H. rewrite H. exact HCL. }
  intros r. destruct r as [hd q1]. cbn [fst snd].
  apply ht_pure_pre with
    (phi := q1 = q0 /\ forall path meta, hd = Some (QReady path meta) -> path = p /\ meta = 2%N).
  { intros w [[_ H] _]. exact H. }
  intros [-> Hhd].
  apply ht_pre with (P := fun w => w_fs w = f0 /\ w_clock w = now); [intros w [[H _] H']; auto|].
  set (h1 := set_q q0 h) in *.
  eapply ht_bind; [apply (ht_ro f0); [exact HCL | intros P; tk_with leaf1 | ckt]|intros ?].
  eapply ht_bind; [apply (ht_ro f0); [exact HCL | intros P; tk_with leaf1 | ckt]|intros b1].
  destruct b1; [|apply Hret].
  destruct hd as [[z|path meta]|]; [apply Hret| |apply Hret].
  destruct (Hhd path meta eq_refl) as [-> ->]. clear Hhd.
  cbn [h1 set_q h_cfg h_cpl h_q h_journal]. rewrite Hcfg, Hcpl.
  (* the version *)
  eapply ht_bind.
  { eapply ht_conseq3;
      [intros ? HH; exact HH | intros ? ? HH; exact HH | intros ? HH; exact HH
      |apply (ht_get_timestamp honest f0 now (c_version_pattern cfg) (fun w => CL (w_fs w)))]. }
  intros v.
  apply ht_pure_pre with (phi := forall ver, v = Some ver -> ver = version_of cfg now).
  { intros w [_ H]. exact H. }
  intros Hv.
  apply ht_pre with (P := fun w => w_fs w = f0 /\ w_clock w = now); [intros w [H _]; exact H|].
  eapply ht_bind; [apply (ht_ro f0); [exact HCL | intros P; tk_with leaf1 | ckt]|intros bv].
  eapply ht_bind.
  { apply (ht_ro f0);
      [exact HCL
      | intros P; (destruct v as [ver|]; [destruct bv; [destruct (existsb is_slash ver)|]|]); tk_with leaf1
      | (destruct v as [ver|]; [destruct bv; [destruct (existsb is_slash ver)|]|]); ckt]. }
  intros ?.
  eapply ht_bind; [apply (ht_ro f0); [exact HCL | intros P; tk_with leaf1 | ckt]|intros b2].
  destruct v as [version|]; [|apply Hret].
  destruct b2; [|apply Hret].
  rewrite (Hv version eq_refl). clear Hv version.
  match goal with |- ht _ _ (if ?x then _ else _) _ _ => destruct x end.
  { eapply ht_bind; [apply (ht_ro f0); [exact HCL | intros P; tk_with leaf1 | ckt]|intros ?].
    eapply ht_bind; [apply (ht_ro f0); [exact HCL | intros P; tk_with leaf1 | ckt]|intros ?]. apply Hret. }
  change (N.odd 2) with false. change (N.testbit 2 1) with true. change (shift_right2 2) with 0.
  cbv iota.
  fold (rel_of cpl p). fold (offset_name cfg cpl p).
  (* the remembered position *)
  eapply ht_bind.
  { eapply ht_conseq3;
      [| | |apply (ht_ck now honest _ _ _ _ (ck_read_counter offp)
                    (ht_read_counter f0 offp p0 (H1_pos HK)))].
    - intros w H. exact H.
    - intros r w H. exact H.
    - intros w H. cbv beta in H. rewrite H. exact HCL. }
  intros off.
  eapply ht_bind with
    (R := fun b3 w => (w_fs w = f0 /\ w_clock w = now) /\ (b3 = true -> off = N.of_nat p0 /\ tr_ok (w_tr w) = true)).
  { apply ht_is_ok. intros w [[H1 H2] H3]. split; [auto|]. intros E. auto. }
  intros b3. destruct b3; cbn [negb];
    [|eapply ht_pre; [|apply Hret]; intros w [H _]; exact H].
  apply ht_pure_pre with (phi := off = N.of_nat p0); [intros w [_ H]; exact (proj1 (H eq_refl))|]. intros ->.
  rewrite Nat2N.id.
  eapply ht_bind with
    (R := fun f w => ((w_fs w = f0 /\ t_frames (w_tr w) = []) /\ w_clock w = now) /\ f = f0).
  { intros o w _ [[H1 H1'] H2]. cbn. split; [split; [split; [exact H1|] | exact H1'] | exact H1].
    apply PassProofs.tr_ok_frames. exact (proj2 (H2 eq_refl)). }
  intros f. apply ht_pure_pre with (phi := f = f0); [intros w [_ E]; exact E|]. intros ->.
  (* the copy loop *)
  set (sp := create_store_path (c_store_root cfg) (rel_of cpl p) (version_of cfg now)).
  assert (Esp : current_path sp = dst) by apply current_path_create.
  eapply ht_bind.
  { eapply ht_conseq3;
      [| | |apply (ht_ck now honest _ _ _ _ (ck_file_store_loop _ sp p offp p0 true cfg)
                    (ht_fsl_hist _ sp cfg Esp))].
    - intros w [H _]. exact H.
    - intros r w H. exact H.
    - intros w H. apply CLq_CL. exact H. }
  intros r2. destruct r2 as [[ev is_stored] sp'].
  cbn [Nat.ltb Nat.leb andb].
  (* the tail *)
  apply ht_freeze. intros w1 [Hst1 Hclk1].
  set (f1 := w_fs w1) in *.
  assert (HCLq1 : CLq f1).
  { destruct Hst1 as [[_ H]|[_ H]]; [|exact H].
    exists (Some slice), (Some newpos). split; [|exact H].
    right. right. left. split; [reflexivity|]. split; [right; exists (length newpos); rewrite firstn_all; reflexivity | reflexivity]. }
  assert (HCL1 : CL f1) by (apply CLq_CL; exact HCLq1).
  assert (HR1 : QRel q0 f1 ents).
  { destruct HCLq1 as (ver & pos & _ & H). exact (Left_QRel _ _ _ H). }
  pose proof (QRel_fit _ _ _ HR1) as Hfit.
  assert (Hfail : forall (h2 : handler) (P : world -> Prop),
            (forall w, P w -> (w_fs w = f1 /\ w_clock w = now) /\ tr_ok (w_tr w) = false) ->
            ht honest P
               (do b4 <- is_ok;
                if negb b4 then throw_context p;; throw_static M_store_cannot_copy;; ret_ (TError, h2)
                else ret_ tt;; record_event ev 0 (rel_of cpl p) h2;; handle_timeout_loop fuel rev h2)
               (fun _ w => CL (w_fs w)) (fun w => CL (w_fs w))).
  { intros h2 P HP.
    eapply ht_bind with (R := fun b4 w => (w_fs w = f1 /\ w_clock w = now) /\ b4 = false).
    { apply ht_is_ok. intros w Hw. destruct (HP w Hw) as [A B]. rewrite B. auto. }
    intros b4. apply ht_pure_pre with (phi := b4 = false); [intros w [_ E]; exact E|]. intros ->.
    cbn [negb]. apply ht_pre with (P := fun w => w_fs w = f1 /\ w_clock w = now); [intros w [H _]; exact H|].
    eapply ht_bind; [apply (ht_ro f1); [exact HCL1 | intros P0; tk_with leaf1 | ckt]|intros ?].
    eapply ht_bind; [apply (ht_ro f1); [exact HCL1 | intros P0; tk_with leaf1 | ckt]|intros ?].
    apply ht_ret_CL. exact HCL1. }
  destruct (tr_ok (w_tr w1)) eqn:Eok.
  - (* copied and remembered: the pop *)
    assert (HL1 : HLeft (Some slice) (Some newpos) true f1).
    { destruct Hst1 as [[_ H]|[E _]]; [exact H | congruence]. }
    eapply ht_bind.
    { eapply ht_conseq3;
        [| | |apply (ht_ck now honest _ _ _ _ (ck_q_pop_head q0) (ht_pop_strong honest f1 q0 Hfit))].
      - intros w ->. auto.
      - intros q2 w H. exact H.
      - intros w H. cbv beta in H. rewrite H. exact HCL1. }
    intros q2.
    eapply ht_conseq3 with
      (P := fun w => ((q2 = q0 /\ w_fs w = f1 /\ tr_ok (w_tr w) = false) /\ w_clock w = now) \/
                     ((exists x t', lookup f1 (head_name q0) = Some (NLink x t') /\
                                   q2 = popped (strip x) q0 /\ w_fs w = del_dent (head_name q0) f1) /\
                      w_clock w = now));
      [| intros r w H; exact H | intros w H; exact H |].
    { intros w [[H|H] H']; [left | right]; auto. }
    apply ht_pre_or.
    + apply Hfail. intros w [[_ [H1 H2]] H3]. auto.
    + apply ht_pure_pre with
        (phi := exists x t', lookup f1 (head_name q0) = Some (NLink x t') /\ q2 = popped (strip x) q0).
      { intros w [[x [t' [H1 [H2 _]]]] _]. exists x, t'. auto. }
      intros [x [t' [Hl ->]]].
      set (q2 := popped (strip x) q0). set (f2 := del_dent (head_name q0) f1).
      pose proof (Left_pop _ _ _ HL1) as HL2. fold f2 in HL2.
      assert (HCL2 : CL f2).
      { exists (Some slice), (Some newpos), false. split; [right; right; right; auto | exact HL2]. }
      assert (Hsz : q_size q2 = 0%N).
      { unfold q2. cbn [popped q_size]. rewrite (QR_size _ _ _ HR1). reflexivity. }
      apply ht_pre with (P := fun w => w_fs w = f2 /\ w_clock w = now).
      { intros w [[x' [t'' [_ [_ H]]]] H']. auto. }
      eapply ht_bind; [apply (ht_ro f2); [exact HCL2 | intros P0; tk_with leaf1 | ckt]|intros b4].
      destruct (negb b4).
      { eapply ht_bind; [apply (ht_ro f2); [exact HCL2 | intros P0; tk_with leaf1 | ckt]|intros ?].
        eapply ht_bind; [apply (ht_ro f2); [exact HCL2 | intros P0; tk_with leaf1 | ckt]|intros ?].
        apply ht_ret_CL. exact HCL2. }
      eapply ht_bind; [apply (ht_ro f2); [exact HCL2 | intros P0; tk_with leaf1 | ckt]|intros ?].
      set (X := HLeft (Some slice) (Some newpos) false).
      assert (HXC : forall f, X f -> CL f).
      { intros f H. exists (Some slice), (Some newpos), false. split; [right; right; right; auto | exact H]. }
      assert (HXa : forall jn, h_journal (set_q q2 h1) = Some jn ->
                      forall f y, X f -> X (fs_append (j_ino jn) y f)).
      { intros jn Hj f y A. cbn [h1 set_q h_journal] in Hj. rewrite Hoj in Hj.
        apply Left_ja; assumption. }
      eapply ht_bind with (R := fun _ w => X (w_fs w)).
      { eapply ht_conseq3;
          [| | |apply (tok_lift honest X _ (tok_record_event_app X ev 0%N _ (set_q q2 h1) HXa))].
        - intros w [H _]. rewrite H. exact HL2.
        - intros ? w H. exact H.
        - intros w H. apply HXC. exact H. }
      intros ?.
      eapply ht_conseq3; [| | |apply (tok_lift honest X _ (tok_loop_empty X fuel rev (set_q q2 h1) Hsz))].
      * intros w H. exact H.
      * intros ? w H. apply HXC. exact H.
      * intros w H. apply HXC. exact H.
  - (* an error is pending: no pop *)
    apply ht_pre with (P := fun w => (w_fs w = f1 /\ w_clock w = now) /\ tr_ok (w_tr w) = false);
      [intros w ->; auto|].
    eapply ht_bind.
    { apply (ht_pop_skip honest (fun w => w_fs w = f1 /\ w_clock w = now) (fun w => CL (w_fs w)) q0). }
    intros q2. apply ht_pure_pre with (phi := q2 = q0); [intros w [E _]; exact E|]. intros ->.
    apply Hfail. intros w [_ H]. exact H.
Qed.

(* ----- the pass ----- *)

Theorem history_crash_frame o rev h w :
  honest o -> HIh cfg cpl oj h -> h_q h = q0 -> w_fs w = f0 -> w_clock w = now ->
  CL (w_fs (snd (handle_timeout rev h o w))).
Proof.
  intros Ho Hh Hq Hf Hc.
  pose proof (loopH (S (N.to_nat (q_size (h_q h)))) rev h Hh Hq o w Ho (conj Hf Hc)) as HLp.
  unfold handle_timeout, bind.
  destruct (handle_timeout_loop (S (S (N.to_nat (q_size (h_q h))))) rev h o w) as [[r|] w1].
  - rewrite is_ok_eq. unfold ret_. cbn [snd]. exact HLp.
  - cbn [snd]. exact HLp.
Qed.

End HistPass1.

Print Assumptions history_crash_frame.
Print Assumptions ht_read_counter.
Print Assumptions ht_sync_hist.
Print Assumptions ht_write_counter_pos.
