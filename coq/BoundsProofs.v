(* Index arithmetic of the parsers stays inside their objects (C13, the part a
   Gallina model can carry). *)
From K Require Import Str Progs Elf Handler Linq.
From Coq Require Import Lia.

(* the backward scan for the start of the project name: under the guard that
   handle_timeout checks (absolute path, stored offset within the path) it finds
   a '/' at an index below the offset and never looks before the string *)
Lemma name_start_spec path : forall fuel e,
  prefixb [ch_slash] path = true -> e <= length path -> e <= fuel ->
  name_start path e fuel <= e /\
  (e > 0 -> 1 <= name_start path e fuel /\
            exists c, nth_error path (name_start path e fuel - 1) = Some c /\ is_slash c = true).
Proof.
  induction fuel as [|fuel IH]; intros e Hp Hle Hf.
  - assert (e = 0) by lia. subst. simpl. split; [lia | intros; lia].
  - destruct e as [|e']; [simpl; split; [lia | intros; lia]|]. cbn [name_start].
    destruct (nth_error path e') as [c|] eqn:En.
    + destruct (is_slash c) eqn:Ec.
      * split; [lia|]. intros _. split; [lia|]. exists c. replace (S e' - 1) with e' by lia. auto.
      * destruct (IH e' Hp ltac:(lia) ltac:(lia)) as [H1 H2]. split; [lia|]. intros _.
        destruct e' as [|e''].
        -- (* index 0 holds '/': contradiction with Ec *)
           destruct path as [|c0 path']; [discriminate|]. simpl in En. inversion En; subst.
           cbn [prefixb] in Hp. apply andb_true_iff in Hp. destruct Hp as [Hp _].
           apply Ascii.eqb_eq in Hp. subst c. unfold is_slash in Ec. rewrite Ascii.eqb_refl in Ec. discriminate.
        -- apply H2. lia.
    + apply nth_error_None in En. lia.
Qed.

(* the relative path is a suffix of the queued path: computed with an offset
   that never exceeds its length *)
Lemma rel_in_bounds (path : str) (cpl : nat) :
  Nat.min (length path) cpl <= length path /\
  exists pre, path = pre ++ skipn (Nat.min (length path) cpl) path.
Proof. split; [lia|]. exists (firstn (Nat.min (length path) cpl) path). symmetry. apply firstn_skipn. Qed.

(* ELF: the interpreter string handed to realpath is a NUL-free proper prefix of
   the buffer that was read in full *)
Lemma c_string_prefix sg : exists rest, sg = c_string sg ++ rest.
Proof.
  induction sg as [|c r IH]; simpl; [exists []; reflexivity|].
  destruct (N_of_ascii c =? 0)%N; [exists (c :: r); reflexivity|].
  destruct IH as [rest Hr]. exists rest. simpl. congruence.
Qed.

Lemma c_string_no_nul sg : Forall (fun c => (N_of_ascii c =? 0)%N = false) (c_string sg).
Proof.
  induction sg as [|c r IH]; simpl; [constructor|].
  destruct (N_of_ascii c =? 0)%N eqn:E; [constructor | constructor; assumption].
Qed.

Lemma c_string_shorter sg : last_is_nul sg = true -> length (c_string sg) < length sg.
Proof.
  unfold last_is_nul. intros H.
  assert (Hex : exists c, In c sg /\ (N_of_ascii c =? 0)%N = true).
  { destruct (rev sg) as [|c r] eqn:E; [discriminate|]. exists c. split; [|assumption].
    apply in_rev. rewrite E. left; reflexivity. }
  clear H. induction sg as [|c r IH]; simpl.
  - destruct Hex as [c [[] _]].
  - destruct (N_of_ascii c =? 0)%N eqn:E; [simpl; lia|].
    destruct Hex as [c' [[->|Hin] Hc']]; [congruence|].
    simpl. assert (length (c_string r) < length r) by (apply IH; eauto). lia.
Qed.

(* the decode loop of the queue codec consumes its input: the remaining path is
   a suffix of the link target (it never reads past the terminator) *)
Lemma decode_aux_suffix_n n : forall t m, length t <= n -> exists pre, t = pre ++ snd (decode_aux t m).
Proof.
  induction n as [|n IH]; intros t m Hl.
  - destruct t; [exists []; reflexivity | simpl in Hl; lia].
  - destruct t as [|c0 t1]; [exists []; reflexivity|].
    cbn [decode_aux]. destruct t1 as [|c1 t2]; [exists []; reflexivity|].
    destruct (is_slash c1).
    + destruct (IH (c1 :: t2) (2 * m)%N) as [pre Hp]; [simpl in *; lia|].
      exists (c0 :: pre). cbn [app]. rewrite <- Hp. reflexivity.
    + destruct (is_dot c1); [|exists []; reflexivity].
      destruct t2 as [|c2 t3]; [exists []; reflexivity|].
      destruct (is_slash c2); [|exists []; reflexivity].
      destruct (IH (c2 :: t3) (2 * m + 1)%N) as [pre Hp]; [simpl in *; lia|].
      exists (c0 :: c1 :: pre). cbn [app]. rewrite <- Hp. reflexivity.
Qed.

Lemma decode_suffix t : exists pre, t = pre ++ snd (decode t).
Proof. apply (decode_aux_suffix_n (length t) t 0%N). lia. Qed.
