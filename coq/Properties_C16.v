(* C16 Configuration: documented defaults, strict types, all-or-nothing hot reload.
   The table (pre_config, decls) is REGENERATED from lua/config.lua.md by
   tools/gen_config.py on every run; these theorems are re-checked against it. *)
From K Require Import Config ConfigInst ConfigProofs.
From K.generated Require Import ConfigTable.

(* settings not assigned take the documented defaults, derived ones included *)
Theorem C16_documented_defaults : klunok_load [] = Some documented_defaults.
Proof. exact defaults_documented. Qed.
Print Assumptions C16_documented_defaults.

(* each default only mentions settings declared (hence type-checked) earlier *)
Theorem C16_table_well_scoped : well_scoped [] decls = true.
Proof. exact table_well_scoped. Qed.
Print Assumptions C16_table_well_scoped.

(* paths follow the prefix; queue-size guess follows the debounce interval *)
Theorem C16_derived_from_prefix : forall (p : str),
  klunok_load [SGlobal (s "prefix") (VStr p)] =
  Some (mkFC (fc_editors documented_defaults) [] [] [] [] [] []
             (Some (p ++ s "/store")) (Some (p ++ s "/projects")) (Some ((p ++ s "/var") ++ s "/projects"))
             (Some ((p ++ s "/var") ++ s "/queue")) (Some ((p ++ s "/var") ++ s "/journal")) (Some (s "%Y-%m-%d-%H-%M"))
             (Some (s "v%Y-%m-%d-%H-%M")) (Some ((p ++ s "/var") ++ s "/offsets"))
             60 1024 32768 1 120 [None; None; None; None; None; None; Some []]).
Proof. exact derived_prefix. Qed.
Print Assumptions C16_derived_from_prefix.

Theorem C16_derived_from_debounce : forall (z : Z), (0 <= z)%Z ->
  klunok_load [SGlobal (s "debounce_seconds") (VInt z)] =
  Some (mkFC (fc_editors documented_defaults) [] [] [] [] [] []
             (Some (s "klunok/store")) (Some (s "klunok/projects")) (Some (s "klunok/var/projects"))
             (Some (s "klunok/var/queue")) (Some (s "klunok/var/journal")) (Some (s "%Y-%m-%d-%H-%M"))
             (Some (s "v%Y-%m-%d-%H-%M")) (Some (s "klunok/var/offsets"))
             z 1024 32768 1 (z * 2) [None; None; None; None; None; None; Some []]).
Proof. exact derived_debounce. Qed.
Print Assumptions C16_derived_from_debounce.

(* assigned values are used verbatim: whatever the user's statements leave in a
   setting (non-nil) is what a successful load holds for it *)
Theorem C16_set_verbatim : forall (user : list stmt) (e e' : genv) (name : str),
  exec_stmts pre_config user = Some e -> klunok_globals user = Some e' ->
  glookup name e <> VNil -> glookup name e' = glookup name e.
Proof. exact set_verbatim. Qed.
Print Assumptions C16_set_verbatim.

(* a value of the wrong type makes loading fail *)
Theorem C16_ill_typed_error : forall (user : list stmt) (e : genv) (name : str) (v : value),
  exec_stmts pre_config user = Some e -> glookup name e = v -> v <> VNil ->
  In name (map d_name decls) ->
  (forall d, In d decls -> d_name d = name -> check (d_type d) v = false) ->
  klunok_load user = None.
Proof. exact ill_typed_fails. Qed.
Print Assumptions C16_ill_typed_error.

Example C16_example :
  klunok_load [SGlobal (s "debounce_seconds") (VStr (s "5"))] = None /\
  klunok_load [SKey (s "editors") (KStr (s "ed")) (VBool true); SGlobal (s "journal_path") VNil]
    = Some (mkFC (fc_editors documented_defaults ++ [s "ed"]) [] [] [] [] [] []
                 (fc_store_root documented_defaults) (fc_project_store_root documented_defaults) (fc_unstable_root documented_defaults)
                 (fc_queue_path documented_defaults) (fc_journal_path documented_defaults) (fc_journal_pattern documented_defaults)
                 (fc_version_pattern documented_defaults) (fc_offset_root documented_defaults) 60 1024 32768 1 120
                 (fc_ev documented_defaults)).
Proof. split; vm_compute; reflexivity. Qed.
