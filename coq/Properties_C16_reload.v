(* C16, second half: hot reload is all or nothing.  World level, for EVERY oracle
   (any failing call, any short transfer; a crash returns no handler, and the
   statements are about runs that return one).  Definitions used in the
   statements (ReloadProofs.v): okw w = the error trace of w is ok;
   reload_applied o w h n h' w' = h' carries exactly configuration n, the queue
   is the one loaded from n's queue path if that differs from the old one (else
   the old queue with the new debounce), the journal is the newly opened one. *)
From K Require Import Str Trace Fs World Progs Handler ReloadProofs.

(* a rewritten configuration either governs the handler completely or, when it
   cannot be put in force (does not load: nc = None; queue cannot be loaded;
   journal cannot be opened; ...), an error is on the trace and the handler is
   the old one, unchanged *)
Theorem C16_reload_all_or_nothing :
  forall (o : oracle) (w : world) (h : handler) (nc : option config)
         (h' : handler) (w' : world) (cp : str),
  h_cfg_path h = Some cp ->
  reload nc h o w = (Some h', w') ->
  (okw w' = true /\ okw w = true /\ exists n, nc = Some n /\ reload_applied o w h n h' w')
  \/ (okw w' = false /\ h' = h).
Proof. exact reload_all_or_nothing. Qed.
Print Assumptions C16_reload_all_or_nothing.

(* the same through the event handler, when the written file is the watched
   configuration file: the write itself is first queued/journalled under the old
   configuration (h1 differs from h only by a queue grown by at most 2 entries) *)
Theorem C16_close_write_all_or_nothing :
  forall (o : oracle) (w : world) (pid : N) (path : str) (nc : option config)
         (h h' : handler) (w' : world),
  h_cfg_path h = Some path ->
  handle_close_write pid path nc h o w = (Some h', w') ->
  exists (h1 : handler) (w1 : world),
    h1 = set_q (h_q h1) h /\ grown_q 2 (h_q h) (h_q h1) /\
    ((okw w' = true /\ okw w = true /\ okw w1 = true /\
      (exists pushed w0 ev,
         push_to_linq pid path h o w = (Some (pushed, h1), w0) /\
         record_event ev pid path h1 o w0 = (Some tt, w1)) /\
      exists n, nc = Some n /\ reload_applied o w1 h1 n h' w')
     \/ (okw w' = false /\ h' = h1)).
Proof. exact handle_close_write_all_or_nothing. Qed.
Print Assumptions C16_close_write_all_or_nothing.

(* whatever happens during a write event, reload included, no entry of the
   pending queue is lost, and only the entries pushed by this event appear *)
Theorem C16_close_write_error_keeps_queue :
  forall (o : oracle) (w : world) (pid : N) (path : str) (nc : option config) (h h' : handler) (w' : world),
  handle_close_write pid path nc h o w = (Some h', w') -> okw w' = false ->
  forall (name target : str) (mtime : Z),
    let p := join (q_dir (h_q h)) name in
    (lookup (w_fs w) p = Some (NLink target mtime) -> lookup (w_fs w') p = Some (NLink target mtime)) /\
    (lookup (w_fs w') p = Some (NLink target mtime) ->
     lookup (w_fs w) p = Some (NLink target mtime) \/ pushed_names (h_q h) p).
Proof. exact handle_close_write_error_queue_exact. Qed.
Print Assumptions C16_close_write_error_keeps_queue.

(* open finding K3, machine-checked: when the queue path changes, the entries of
   the old queue directory stay where they are and the new handler looks elsewhere *)
Theorem C16_reload_strands_old_queue :
  forall (o : oracle) (w : world) (h : handler) (n : config) (h' : handler) (w' : world) (cp : str),
  h_cfg_path h = Some cp ->
  q_dir (h_q h) = c_queue_path (h_cfg h) ->
  reload (Some n) h o w = (Some h', w') -> okw w' = true ->
  (c_queue_path (h_cfg h) = c_queue_path n -> h_q h' = set_deb (c_debounce n) (h_q h)) /\
  (c_queue_path (h_cfg h) <> c_queue_path n ->
     q_dir (h_q h') = c_queue_path n /\ q_dir (h_q h') <> q_dir (h_q h) /\
     forall name target mtime,
       lookup (w_fs w) (join (q_dir (h_q h)) name) = Some (NLink target mtime) ->
       lookup (w_fs w') (join (q_dir (h_q h)) name) = Some (NLink target mtime)).
Proof. exact reload_strands_exactly. Qed.
Print Assumptions C16_reload_strands_old_queue.

Theorem C16_reload_never_strands_refuted : ~ reload_never_strands.
Proof. exact reload_never_strands_refuted. Qed.
Print Assumptions C16_reload_never_strands_refuted.

(* non-vacuity: ReloadExample exhibits a successful and a failing reload of a
   concrete handler, both meeting the hypotheses above *)
Example C16_reload_example_success := ReloadExample.all_or_nothing_applies_success.
Example C16_reload_example_failure := ReloadExample.all_or_nothing_applies_failure.
