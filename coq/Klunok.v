(* The WHOLE program: main.c from the command line to the event loop, over the
   REAL handler programs.

   Main.v models main.c as a pure function [main env : list out] in which the
   loading of the handler is one scripted item (OLoad + the boolean e_load_ok)
   and the loop runs on scripted slots.  Daemon.v puts the LOOP on top of the
   real handler programs.  Here the START-UP is put in front of it:

     startup env     everything main.c does before load_handler, exactly as
                     Main.main computes it (command line, fanotify_init, mount
                     table, marks, stat, the three switches, the re-check of
                     uid / gid / groups).  None of that is a call of the World
                     model: it stays a list of [out] items.  When start-up
                     succeeds it also returns the arguments of OLoad: the
                     configuration path, the common parent length and the
                     credentials the process then has.
     klunok env cfg rev ns
                     start-up; Handler.load_handler cfg (p_cfg p) cpl -- the
                     real program: it creates the queue directory, opens the
                     journal; [cfg] is what the configuration file parses to
                     (Lua is outside the model, as everywhere); when it fails
                     (no handler, or an error on the trace: main.c 121-126) the
                     items end with OExit 1 (Some T_load); otherwise
                     Daemon.daemon_loop (e_self env) rev ns 0 h.

   Definitions only; the proofs are in KlunokProofs.v. *)
From K Require Import Str Trace Fs World Progs Handler Main Daemon.
Local Open Scope N_scope.

(* the arguments of OLoad: configuration path, common parent length, uid, gid,
   number of supplementary groups *)
Definition load_args : Type := (option str * nat * N * N * nat)%type.

(* main.c 32-119.  The items up to and including the exit item of a failed
   start-up (then None), or up to and including OStat / OSet* (then the
   arguments of OLoad).  Written as Main.main is. *)
Definition startup (env : env) : list out * option load_args :=
  match parse_params (e_args env) with
  | inl _ => ([OExit 1 (Some T_parse)], None)
  | inr p =>
      if p_version p then ([OExit 0 None], None)
      else if p_help p then ([OExit 0 None], None)
      else if negb (e_fan_init_ok env) then ([OFanInit; OExit 1 (Some T_fan_init)], None)
      else if negb (e_mountinfo_ok env) then ([OFanInit; OExit 1 (Some T_mount_list)], None)
      else
        let '(ev1, ok1, mounted1, n1, cpl) := mark_roots false env (p_w p) (e_mounted env) 0 None 0 in
        if negb ok1 then (OFanInit :: ev1 ++ [OExit 1 (Some T_watch)], None)
        else
          let '(ev2, ok2, _, _, _) := mark_roots true env (p_e p) mounted1 n1 None 0 in
          if negb ok2 then (OFanInit :: ev1 ++ ev2 ++ [OExit 1 (Some T_watch)], None)
          else
            let drop := match p_drop p with Some d => d | None => dot_str end in
            let '(ev3, ok3, uid, gid, groups) := drop_privileges env in
            let pre := ev1 ++ ev2 ++ OStat drop :: ev3 in
            if negb ok3 || (uid =? 0) || (gid =? 0) || negb (Nat.eqb groups 0)
            then (OFanInit :: pre ++ [OExit 1 (Some T_drop)], None)
            else (OFanInit :: pre, Some (p_cfg p, cpl, uid, gid, groups))
  end.

(* main.c 121-178 after a successful start-up.  [pre]: the items of start-up.
   main.c tests ok(trace) after load_handler; Handler.load_handler answers
   Some h only with an error-free trace, both are tested here. *)
Definition run_loaded (self : N) (cfg : config) (rev : bool) (ns : list notif)
           (pre : list out) (a : load_args) : M (list out) :=
  let '(c, cpl, u, g, n) := a in
  do r <- load_handler cfg c cpl;
  do b <- is_ok;
  match r, b with
  | Some h, true =>
      do t <- daemon_loop self rev ns 0%Z h;
      ret_ (pre ++ OLoad c cpl u g n :: fst t)
  | _, _ => ret_ (pre ++ [OLoad c cpl u g n; OExit 1 (Some T_load)])
  end.

(* the whole program *)
Definition klunok (env : env) (cfg : config) (rev : bool) (ns : list notif) : M (list out) :=
  match startup env with
  | (pre, None) => ret_ pre
  | (pre, Some a) => run_loaded (e_self env) cfg rev ns pre a
  end.
