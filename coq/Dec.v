(* Decimal printing (concat_size) and parsing (read_counter, strtol on names). *)
From K Require Export Str.
Local Open Scope N_scope.

Definition digit_char (d : N) : ascii := ascii_of_N (48 + d).

Fixpoint dec_aux (fuel : nat) (n : N) (acc : str) : str :=
  match fuel with
  | O => acc
  | S f => let acc' := digit_char (n mod 10) :: acc in
           if n <? 10 then acc' else dec_aux f (n / 10) acc'
  end.

(* fuel: a number has no more decimal digits than binary digits *)
Definition dec (n : N) : str := dec_aux (S (N.to_nat (N.size n))) n [].

Definition is_digit (c : ascii) : bool :=
  let v := N_of_ascii c in (48 <=? v) && (v <=? 57).
Definition digit_val (c : ascii) : N := N_of_ascii c - 48.

(* read_counter: digits until the first non-digit *)
Fixpoint undec_aux (s : str) (acc : N) : N :=
  match s with
  | [] => acc
  | c :: s' => if is_digit c then undec_aux s' (acc * 10 + digit_val c) else acc
  end.
Definition undec (s : str) : N := undec_aux s 0.
