(* A small inode-level file system: the part of kernel behaviour klunok
   depends on.  Paths are canonical absolute strings; "/" always exists. *)
From K Require Export Str Trace.

Inductive node :=
| NDir
| NFile (ino : nat)
| NLink (target : str) (mtime : Z).

Record file := mkFile { f_bytes : str; f_readable : bool }.

Record fs := mkFs {
  fs_dents : list (str * node);     (* path -> node, keys unique *)
  fs_files : list (nat * file);     (* inode -> content *)
  fs_next : nat                     (* next free inode number *)
}.

Definition fs_empty : fs := mkFs [] [] 1.

Fixpoint alookup {A} (k : str) (l : list (str * A)) : option A :=
  match l with
  | [] => None
  | (k', v) :: l' => if str_eqb k k' then Some v else alookup k l'
  end.

Fixpoint aremove {A} (k : str) (l : list (str * A)) : list (str * A) :=
  match l with
  | [] => []
  | (k', v) :: l' => if str_eqb k k' then l' else (k', v) :: aremove k l'
  end.

Fixpoint nlookup {A} (k : nat) (l : list (nat * A)) : option A :=
  match l with
  | [] => None
  | (k', v) :: l' => if Nat.eqb k k' then Some v else nlookup k l'
  end.

Fixpoint nupdate {A} (k : nat) (v : A) (l : list (nat * A)) : list (nat * A) :=
  match l with
  | [] => [(k, v)]
  | (k', v') :: l' => if Nat.eqb k k' then (k, v) :: l' else (k', v') :: nupdate k v l'
  end.

Definition root_path : str := [ch_slash].

Definition lookup (f : fs) (p : str) : option node :=
  if str_eqb p root_path then Some NDir else alookup p (fs_dents f).

(* directory part: everything before the last '/', "/" for top-level names *)
Definition dirname (p : str) : str :=
  match rindex is_slash p with
  | Some O => root_path
  | Some i => firstn i p
  | None => []
  end.

Definition basename (p : str) : str :=
  match rindex is_slash p with
  | Some i => skipn (S i) p
  | None => p
  end.

Definition join (d name : str) : str :=
  if str_eqb d root_path then ch_slash :: name else d ++ ch_slash :: name.

Definition parent_is_dir (f : fs) (p : str) : option errno :=
  match lookup f (dirname p) with
  | Some NDir => None
  | Some _ => Some ENOTDIR
  | None => Some ENOENT
  end.

Definition children (f : fs) (d : str) : list (str * node) :=
  filter (fun e => str_eqb (dirname (fst e)) d && negb (str_eqb (fst e) root_path)) (fs_dents f).

Definition add_dent (p : str) (n : node) (f : fs) : fs :=
  mkFs (fs_dents f ++ [(p, n)]) (fs_files f) (fs_next f).
Definition del_dent (p : str) (f : fs) : fs :=
  mkFs (aremove p (fs_dents f)) (fs_files f) (fs_next f).

Definition get_file (f : fs) (ino : nat) : file :=
  match nlookup ino (fs_files f) with Some x => x | None => mkFile [] true end.
Definition set_file (ino : nat) (x : file) (f : fs) : fs :=
  mkFs (fs_dents f) (nupdate ino x (fs_files f)) (fs_next f).

(* ---------- system calls (fault-free semantics) ---------- *)

Definition fs_mkdir (p : str) (f : fs) : option errno * fs :=
  match lookup f p with
  | Some _ => (Some EEXIST, f)
  | None => match parent_is_dir f p with
            | Some e => (Some e, f)
            | None => (None, add_dent p NDir f)
            end
  end.

(* errno of a path that does not resolve: ENOTDIR when some ancestor exists and is
   not a directory, ENOENT otherwise *)
Fixpoint anc_not_dir (fuel : nat) (f : fs) (p : str) : bool :=
  match fuel with
  | O => false
  | S k =>
      let d := dirname p in
      match lookup f d with
      | Some NDir => false
      | Some _ => true
      | None => if str_eqb d p then false else anc_not_dir k f d
      end
  end.

Definition missing_errno (p : str) (f : fs) : errno :=
  if anc_not_dir (length p) f p then ENOTDIR else ENOENT.

Definition fs_rmdir (p : str) (f : fs) : option errno * fs :=
  match lookup f p with
  | None => (Some (missing_errno p f), f)
  | Some NDir => match children f p with
                 | [] => (None, del_dent p f)
                 | _ => (Some ENOTEMPTY, f)
                 end
  | Some _ => (Some ENOTDIR, f)
  end.

Definition fs_unlink (p : str) (f : fs) : option errno * fs :=
  match lookup f p with
  | None => (Some (missing_errno p f), f)
  | Some NDir => (Some EISDIR, f)
  | Some _ => (None, del_dent p f)
  end.

(* descriptors *)
Inductive fd := FdFile (ino : nat) | FdDir (p : str).

Definition fs_open_read (p : str) (f : fs) : (fd + errno) :=
  match lookup f p with
  | None => inr (missing_errno p f)
  | Some NDir => inl (FdDir p)
  | Some (NFile i) => if f_readable (get_file f i) then inl (FdFile i) else inr EACCES
  | Some (NLink _ _) => inr ENOENT
  end.

(* O_CREAT | O_WRONLY | O_EXCL *)
Definition fs_create_excl (p : str) (f : fs) : (fd + errno) * fs :=
  match lookup f p with
  | Some _ => (inr EEXIST, f)
  | None => match parent_is_dir f p with
            | Some e => (inr e, f)
            | None =>
                let i := fs_next f in
                (inl (FdFile i),
                 mkFs (fs_dents f ++ [(p, NFile i)]) ((i, mkFile [] true) :: fs_files f) (S i))
            end
  end.

(* O_CREAT | O_WRONLY (| O_APPEND) without O_EXCL *)
Definition fs_open_create (p : str) (f : fs) : (fd + errno) * fs :=
  match lookup f p with
  | Some (NFile i) => (inl (FdFile i), f)
  | Some NDir => (inr EISDIR, f)
  | Some (NLink _ _) => (inr ENOENT, f)
  | None => fs_create_excl p f
  end.

Definition fs_append (i : nat) (bytes : str) (f : fs) : fs :=
  let x := get_file f i in set_file i (mkFile (f_bytes x ++ bytes) (f_readable x)) f.

Definition fs_truncate (i : nat) (f : fs) : fs :=
  let x := get_file f i in set_file i (mkFile [] (f_readable x)) f.

Definition fs_link (old new : str) (f : fs) : option errno * fs :=
  match lookup f old with
  | None => (Some ENOENT, f)
  | Some NDir => (Some EOTHER, f)   (* EPERM *)
  | Some n =>
      match lookup f new with
      | Some _ => (Some EEXIST, f)
      | None => match parent_is_dir f new with
                | Some e => (Some e, f)
                | None => (None, add_dent new n f)
                end
      end
  end.

Definition fs_symlink (p target : str) (mtime : Z) (f : fs) : option errno * fs :=
  match lookup f p with
  | Some _ => (Some EEXIST, f)
  | None => match parent_is_dir f p with
            | Some e => (Some e, f)
            | None => (None, add_dent p (NLink target mtime) f)
            end
  end.

Definition fs_readlink (p : str) (f : fs) : (str + errno) :=
  match lookup f p with
  | Some (NLink t _) => inl t
  | Some _ => inr EINVAL
  | None => inr ENOENT
  end.

Definition fs_lstat_mtime (p : str) (f : fs) : (Z + errno) :=
  match lookup f p with
  | Some (NLink _ m) => inl m
  | Some _ => inl 0%Z
  | None => inr ENOENT
  end.

Definition fs_exists (p : str) (f : fs) : bool :=
  match lookup f p with Some _ => true | None => false end.

(* scandir: names in the directory (order unspecified; the caller sorts) *)
Definition fs_scandir (p : str) (f : fs) : (list str + errno) :=
  match lookup f p with
  | Some NDir => inl (map (fun e => basename (fst e)) (children f p))
  | Some _ => inr ENOTDIR
  | None => inr ENOENT
  end.

(* ---------- tree walk (fts, FTS_PHYSICAL, siblings ordered by name) ---------- *)

Fixpoint str_leb (a b : str) : bool :=      (* strcmp(a, b) <= 0, bytes unsigned *)
  match a, b with
  | [], _ => true
  | _ :: _, [] => false
  | x :: a', y :: b' =>
      let vx := N_of_ascii x in let vy := N_of_ascii y in
      if (vx <? vy)%N then true else if (vy <? vx)%N then false else str_leb a' b'
  end.

Fixpoint insert_by {A} (le : A -> A -> bool) (x : A) (l : list A) : list A :=
  match l with
  | [] => [x]
  | y :: l' => if le x y then x :: l else y :: insert_by le x l'
  end.
Definition sort_by {A} (le : A -> A -> bool) (l : list A) : list A := fold_right (insert_by le) [] l.

Inductive wkind := WD | WDP | WF.

Fixpoint walk (fuel : nat) (reverse : bool) (f : fs) (d : str) : list (str * wkind) :=
  match fuel with
  | O => []
  | S fuel' =>
      let le := fun a b : str * node =>
                  if reverse then str_leb (basename (fst b)) (basename (fst a))
                  else str_leb (basename (fst a)) (basename (fst b)) in
      flat_map (fun e : str * node =>
                  match snd e with
                  | NDir => (fst e, WD) :: walk fuel' reverse f (fst e) ++ [(fst e, WDP)]
                  | _ => [(fst e, WF)]
                  end)
               (sort_by le (children f d))
  end.

Definition fs_walk (reverse : bool) (f : fs) (root : str) : list (str * wkind) :=
  match lookup f root with
  | Some NDir => walk (S (length (fs_dents f))) reverse f root
  | _ => []
  end.
