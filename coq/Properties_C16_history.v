(* C16 over whole histories of events ("a rewritten configuration is loaded as
   a whole or rejected as a whole ... otherwise every later event is governed
   by the new configuration"), and the debounce in force of C01/C02.
   Definitions (ReloadHistory.v):
     step            HWrite pid path nc | HExec pid path | HPass rev | HEnv w2
     run o s h w     the event loop; it stops at the first world with an error
                     on the trace (main.c exits), a crash returns None
     cfg_in_force cp c s   SPEC: fold of the history; a write of the configuration
                     path cp with a well-formed content installs that content
     coherent h      queue debounce / queue directory / journal handle of h
                     agree with h_cfg h;  load_handler_coherent: holds at start-up
     journal_of c j  j is held iff c names a journal, with c's stamp pattern *)
From K Require Import Str Trace Fs World Progs Sieve Handler Linq LinqSpec SyncProofs AbandonProofs
     QueueProofs PassProofs AcceptProofs ReloadProofs ReloadHistory.

(* (1) EVERY oracle: after an error-free history the handler carries exactly
   the configuration in force and agrees with it *)
Theorem C16_history_config (o : oracle) : forall s h0 w0 h w',
  coherent h0 ->
  run o s h0 w0 = (Some h, w') -> okw w' = true ->
  let c := cfg_in_force (h_cfg_path h0) (h_cfg h0) s in
  h_cfg h = c /\
  q_deb (h_q h) = c_debounce c /\
  q_dir (h_q h) = c_queue_path c /\
  journal_of c (h_journal h) /\
  h_cfg_path h = h_cfg_path h0 /\ h_cpl h = h_cpl h0.
Proof. exact (history_config o). Qed.
Print Assumptions C16_history_config.

(* EVERY oracle: a run stopped by an error: the erring step applied nothing of
   a configuration *)
Theorem C16_history_config_stopped (o : oracle) : forall s h0 w0 h w',
  coherent h0 -> okw w0 = true ->
  run o s h0 w0 = (Some h, w') -> okw w' = false ->
  exists s1 st s2 h1 w1,
    s = s1 ++ st :: s2 /\
    run o s1 h0 w0 = (Some h1, w1) /\ okw w1 = true /\
    step_run st h1 o w1 = (Some h, w') /\
    h_cfg h1 = cfg_in_force (h_cfg_path h0) (h_cfg h0) s1 /\
    same_cfg h1 h /\ coherent h.
Proof. exact (history_config_stopped o). Qed.
Print Assumptions C16_history_config_stopped.

(* (2) EVERY oracle: a malformed rewrite, or one whose journal cannot be opened *)
Theorem C16_rejected_reload_changes_nothing (o : oracle) w pid path nc h h' w' :
  h_cfg_path h = Some path ->
  (nc = None \/
   exists n jp, nc = Some n /\ c_journal_path n = Some jp /\ lookup (w_fs w) jp = Some NDir) ->
  handle_close_write pid path nc h o w = (Some h', w') ->
  okw w' = false /\ h' = set_q (h_q h') h /\ grown_q 2 (h_q h) (h_q h') /\
  h_cfg h' = h_cfg h /\ h_journal h' = h_journal h /\ q_dir (h_q h') = q_dir (h_q h) /\
  q_deb (h_q h') = q_deb (h_q h) /\ h_pids h' = h_pids h /\ h_interps h' = h_interps h.
Proof. exact (rejected_reload_changes_nothing o w pid path nc h h' w'). Qed.
Print Assumptions C16_rejected_reload_changes_nothing.

(* (3) benign oracles: see ReloadHistory.events_governed_by_config_in_force
   (next_write_governed, next_pass_young, next_pass_due) *)
Definition C16_events_governed := events_governed_by_config_in_force.

(* the queue across a reload: kept when queue_path is kept; caveat K3 otherwise *)
Definition C16_config_write_keeps_queue := config_write_keeps_queue.
Definition C16_config_write_moves_queue := config_write_moves_queue.
Definition C16_config_write_journal := config_write_journal.

(* non-vacuity *)
Example C16_history_example := ReloadHistoryExample.history_config_applies.
Example C16_history_example_rejected := ReloadHistoryExample.rejected_applies.
Example C16_history_example_pass := ReloadHistoryExample.pass_uses_new_debounce.
Example C16_history_example_write := ReloadHistoryExample.later_write_governed.
