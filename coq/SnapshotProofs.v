(* C11 "a quiet project gets one snapshot of hard links to its latest versions".

   sync_shallow_tree D U P (Handler.v) creates the directory D, walks the
   unstable project tree U (fts order, either direction) and, for every entry
   U/r: if P/r exists it recreates the entry below D (mkdirat for a directory,
   linkat -- the SAME inode -- for anything else); if P/r does not exist it
   removes U/r (unlink, or rmdir on the way back up).

   Sections 1-5, main theorem [sync_shallow_tree_snapshot]: under every benign
   oracle (SyncProofs.benign: no call fails or crashes; transfers may be
   chunked), for BOTH traversal orders (in fact for every order of the entries
   of a directory: [kids_ok]), from a well-formed file system in which D is
   fresh, the call returns without an error on the trace and the resulting
   file system is given in closed form, path by path:
     D/r  =  U/r (the same node, so the same inode) if P/r exists, else absent
     U/r  =  unchanged if P/r exists, else absent (pruned)
     D and its missing ancestors are directories
     every other path, every inode's content and the inode counter: unchanged.
   Section 6 restates this in words (hard links, intermediate directories,
   pruning, nothing else created, frame, earlier snapshots) and shows that the
   result is again well formed.
   Section 7 lifts it to handle_timeout: [project_head_snapshot] (one turn of
   the timeout loop on a due project head: exactly one new snapshot directory
   project_store_root/name/version -- or version-k after k collisions --, the
   journal line, then the head is popped and the loop goes on) and
   [handle_timeout_project_single] (the whole of handle_timeout when that
   entry is alone in the queue).
   Section 8, [SnapshotExample]: a concrete project with files at depth 1 and
   2, a file and a directory deleted from the project, an earlier snapshot;
   runs by vm_compute for both orders, the theorems instantiated for every
   benign oracle, and a collision. *)
From K Require Import Str Dec Trace Fs World Progs Elf Linq Sieve Handler Hoare
  Confine Confine2 SyncProofs AbandonProofs StoreFs.
From Coq Require Import Lia.

(* ================================================================== *)
(* 1. strings                                                          *)
(* ================================================================== *)

(* no '/' in a name *)
Definition nosl (b : str) : bool := forallb (fun c => negb (is_slash c)) b.

(* a path suffix: empty, or starting with '/' *)
Definition sfx (s : str) : Prop := s = [] \/ exists s', s = ch_slash :: s'.

Lemma is_slash_true c : is_slash c = true -> c = ch_slash.
Proof. unfold is_slash. apply Ascii.eqb_eq. Qed.

Lemma is_slash_ch : is_slash ch_slash = true.
Proof. reflexivity. Qed.

Lemma nosl_app a b : nosl (a ++ b) = nosl a && nosl b.
Proof. apply forallb_app. Qed.

Lemma dirname_app_nosl X b :
  X <> [] -> nosl b = true -> dirname (X ++ ch_slash :: b) = X.
Proof.
  intros HX. induction b as [|c b IH] using rev_ind; intros Hb.
  - apply dirname_snoc_slash; [reflexivity | exact HX].
  - rewrite nosl_app in Hb. apply andb_true_iff in Hb. destruct Hb as [Hb Hc].
    cbn [nosl forallb] in Hc. rewrite andb_true_r in Hc. apply negb_true_iff in Hc.
    change (X ++ ch_slash :: b ++ [c]) with (X ++ (ch_slash :: b) ++ [c]).
    rewrite app_assoc. rewrite (dirname_snoc_other _ _ Hc). apply IH. exact Hb.
Qed.

Lemma split_last_slash r :
  nosl r = true \/ exists r1 r2, r = r1 ++ ch_slash :: r2 /\ nosl r2 = true.
Proof.
  induction r as [|c r IH] using rev_ind; [left; reflexivity|].
  destruct (is_slash c) eqn:Hc.
  - right. exists r, []. apply is_slash_true in Hc. subst c. split; reflexivity.
  - destruct IH as [IH|[r1 [r2 [E IH]]]].
    + left. rewrite nosl_app, IH. cbn [nosl forallb]. rewrite Hc. reflexivity.
    + right. exists r1, (r2 ++ [c]). split.
      * rewrite E, <- app_assoc. reflexivity.
      * rewrite nosl_app, IH. cbn [nosl forallb]. rewrite Hc. reflexivity.
Qed.

Lemma dirname_nosl_inv X r :
  X <> [] -> dirname (X ++ ch_slash :: r) = X -> nosl r = true.
Proof.
  intros HX Hd. destruct (split_last_slash r) as [H|[r1 [r2 [E H]]]]; [exact H|].
  exfalso. subst r.
  replace (X ++ ch_slash :: r1 ++ ch_slash :: r2)
    with ((X ++ ch_slash :: r1) ++ ch_slash :: r2) in Hd
    by (rewrite <- app_assoc; reflexivity).
  rewrite dirname_app_nosl in Hd; [|destruct X; discriminate | exact H].
  apply (f_equal (@length _)) in Hd. rewrite app_length in Hd. simpl in Hd. lia.
Qed.

(* an entry of directory d is d/b with a slash-free b *)
Lemma child_shape d p :
  d <> root_path -> d <> [] -> dirname p = d ->
  exists b, p = d ++ ch_slash :: b /\ nosl b = true.
Proof.
  intros Hr Hne Hd. destruct (dirname_inside p d Hd Hr Hne) as [b E].
  exists b. split; [exact E|]. subst p. exact (dirname_nosl_inv d b Hne Hd).
Qed.

(* the first component of a relative path *)
Lemma split_first t : exists b t1, t = b ++ t1 /\ nosl b = true /\ sfx t1.
Proof.
  induction t as [|c t IH].
  - exists [], []. split; [reflexivity|]. split; [reflexivity | left; reflexivity].
  - destruct (is_slash c) eqn:Hc.
    + exists [], (c :: t). split; [reflexivity|]. split; [reflexivity|].
      right. exists t. apply is_slash_true in Hc. subst c. reflexivity.
    + destruct IH as [b [t1 [E [Hb Ht]]]]. exists (c :: b), t1.
      split; [rewrite E; reflexivity|]. split; [|exact Ht].
      cbn [nosl forallb]. rewrite Hc. exact Hb.
Qed.

Lemma nosl_sfx_inj b : forall b' t t',
  nosl b = true -> nosl b' = true -> sfx t -> sfx t' ->
  b ++ t = b' ++ t' -> b = b'.
Proof.
  induction b as [|c b IH]; intros [|c' b'] t t' Hb Hb' Ht Ht' E; cbn [app] in E.
  - reflexivity.
  - exfalso. cbn [nosl forallb] in Hb'. apply andb_true_iff in Hb'. destruct Hb' as [Hc _].
    destruct Ht as [->|[s ->]]; [discriminate|]. injection E as <- _. discriminate.
  - exfalso. cbn [nosl forallb] in Hb. apply andb_true_iff in Hb. destruct Hb as [Hc _].
    destruct Ht' as [->|[s ->]]; [discriminate|]. injection E as -> _. discriminate.
  - injection E as -> E. f_equal.
    cbn [nosl forallb] in Hb, Hb'. apply andb_true_iff in Hb, Hb'.
    apply (IH b' t t'); tauto.
Qed.

Lemma sfx_app s r : sfx s -> sfx (s ++ ch_slash :: r).
Proof. intros [->|[s' ->]]; right; eexists; reflexivity. Qed.

Lemma sfx_app2 s t : sfx s -> sfx t -> sfx (s ++ t).
Proof.
  intros [->|[s' ->]] Ht; [exact Ht|]. right. eexists. reflexivity.
Qed.

Lemma skipn_rel U s' : skipn (S (length U)) (U ++ ch_slash :: s') = s'.
Proof. induction U as [|c U IH]; [reflexivity | exact IH]. Qed.

(* two locations that do not nest have disjoint sub-trees *)
Definition apart (a b : str) : Prop :=
  forall x y, sfx x -> sfx y -> a ++ x <> b ++ y.

Lemma apart_of_nn a b : nn a b -> apart a b.
Proof.
  intros [H1 [H2 H3]] x y Hx Hy E.
  destruct (app_eq_app _ _ _ _ E) as [l [[Ea Ey]|[Eb Ex]]].
  - destruct l as [|c l]; [rewrite app_nil_r in Ea; auto|].
    destruct Hy as [->|[y' ->]]; [discriminate|]. injection Ey as <- _.
    apply H3. exists l. exact Ea.
  - destruct l as [|c l]; [rewrite app_nil_r in Eb; auto|].
    destruct Hx as [->|[x' ->]]; [discriminate|]. injection Ex as <- _.
    apply H2. exists l. exact Eb.
Qed.

Lemma apart_sym a b : apart a b -> apart b a.
Proof. intros H x y Hx Hy E. exact (H y x Hy Hx (eq_sym E)). Qed.

Lemma app_neq_longer {A} (X s : list A) c t : X ++ s <> X ++ s ++ c :: t.
Proof.
  intros E. apply (f_equal (@length _)) in E. rewrite !app_length in E. simpl in E. lia.
Qed.

Lemma app_neq_cons {A} (X : list A) c t : X <> X ++ c :: t.
Proof.
  intros E. apply (f_equal (@length _)) in E. rewrite app_length in E. simpl in E. lia.
Qed.

(* ================================================================== *)
(* 2. file-system facts                                                *)
(* ================================================================== *)

Lemma in_nodup_alookup {A} k (v : A) l :
  NoDup (map fst l) -> In (k, v) l -> alookup k l = Some v.
Proof.
  induction l as [|[k' v'] l IH]; intros Hnd Hin; [destruct Hin|].
  cbn [map fst] in Hnd. inversion Hnd as [|x xs Hnin Hnd']; subst.
  cbn [alookup]. destruct Hin as [E|Hin].
  - injection E as -> ->. rewrite str_eqb_refl. reflexivity.
  - destruct (str_eqb_spec k k') as [->|Hn]; [|apply IH; assumption].
    exfalso. apply Hnin. apply in_map_iff. exists (k', v). auto.
Qed.

Lemma children_lookup f d p n :
  keys_nodup f -> In (p, n) (children f d) ->
  p <> root_path /\ dirname p = d /\ lookup f p = Some n.
Proof.
  intros Hnd Hin. destruct (in_children f d (p, n) Hin) as [Hr [Hd _]]. cbn [fst] in *.
  split; [exact Hr|]. split; [exact Hd|].
  rewrite (lookup_nonroot _ _ Hr). apply in_nodup_alookup; [exact Hnd|].
  unfold children in Hin. apply filter_In in Hin. tauto.
Qed.

Lemma children_empty f d :
  (forall k, k <> root_path -> dirname k = d -> lookup f k = None) -> children f d = [].
Proof.
  intros H. destruct (children f d) as [|c l] eqn:E; [reflexivity|]. exfalso.
  assert (Hin : In c (children f d)) by (rewrite E; left; reflexivity).
  destruct (in_children f d c Hin) as [Hr [Hd Hl]]. apply Hl. apply H; assumption.
Qed.

Lemma children_nodup f d : keys_nodup f -> NoDup (map fst (children f d)).
Proof.
  unfold keys_nodup, children. generalize (fs_dents f). intros l.
  induction l as [|e l IH]; intros Hnd; [constructor|].
  cbn [map] in Hnd. inversion Hnd as [|x xs Hnin Hnd']; subst.
  cbn [filter]. destruct (_ && _); [|apply IH; exact Hnd'].
  cbn [map]. constructor; [|apply IH; exact Hnd'].
  intros Hin. apply Hnin. apply in_map_iff in Hin. destruct Hin as [e' [E Hin]].
  apply filter_In in Hin. apply in_map_iff. exists e'. tauto.
Qed.

(* below something that is not a directory there is nothing *)
Lemma below_nondir f X : parents_exist f -> X <> [] ->
  lookup f X <> Some NDir -> forall t, lookup f (X ++ ch_slash :: t) = None.
Proof.
  intros Hpe HX Hn t. remember (length t) as n eqn:Hlen. revert t Hlen.
  induction n as [n IH] using lt_wf_ind. intros t Hlen.
  destruct (lookup f (X ++ ch_slash :: t)) as [v|] eqn:E; [|reflexivity]. exfalso.
  assert (Hne : lookup f (X ++ ch_slash :: t) <> None) by congruence.
  apply Hpe in Hne.
  destruct (split_last_slash t) as [H|[r1 [r2 [Et H]]]].
  - rewrite (dirname_app_nosl X t HX H) in Hne. auto.
  - subst t.
    replace (X ++ ch_slash :: r1 ++ ch_slash :: r2)
      with ((X ++ ch_slash :: r1) ++ ch_slash :: r2) in Hne
      by (rewrite <- app_assoc; reflexivity).
    rewrite dirname_app_nosl in Hne; [|destruct X; discriminate | exact H].
    rewrite (IH (length r1)) in Hne; [discriminate | | reflexivity].
    subst n. rewrite app_length. simpl. lia.
Qed.

(* the walk has enough fuel: the entries strictly below a directory *)
Definition desc (f : fs) (d : str) : list (str * node) :=
  filter (fun e => Str.under d (fst e)) (fs_dents f).

Lemma filter_length_lt {A} (g h : A -> bool) (c : A) l :
  (forall x, g x = true -> h x = true) -> In c l -> h c = true -> g c = false ->
  length (filter g l) < length (filter h l).
Proof.
  intros Hgh. induction l as [|x l IH]; intros Hin Hh Hg; [destruct Hin|].
  assert (Hle : forall l', length (filter g l') <= length (filter h l')).
  { induction l' as [|y l' IH']; [apply le_n|]. cbn [filter].
    destruct (g y) eqn:Gy; [rewrite (Hgh y Gy); simpl; lia|].
    destruct (h y); simpl; lia. }
  cbn [filter]. destruct Hin as [->|Hin].
  - rewrite Hg, Hh. simpl. specialize (Hle l). lia.
  - specialize (IH Hin Hh Hg). destruct (g x) eqn:Gx; [rewrite (Hgh x Gx); simpl; lia|].
    destruct (h x); simpl; lia.
Qed.

Lemma desc_child f d p n :
  d <> [] -> d <> root_path -> In (p, n) (children f d) ->
  length (desc f p) < length (desc f d).
Proof.
  intros Hne Hr Hin.
  destruct (children_inside f d (p, n) Hin Hr Hne) as [r E]. cbn [fst] in E.
  unfold desc. apply (filter_length_lt _ _ (p, n)).
  - intros x Hx. cbn [fst] in *. apply underb_spec in Hx. apply underb_spec.
    apply (under_trans d p); [exists r; exact E | exact Hx].
  - unfold children in Hin. apply filter_In in Hin. tauto.
  - cbn [fst]. apply underb_spec. exists r. exact E.
  - cbn [fst]. destruct (Str.under p p) eqn:Hu; [|reflexivity]. exfalso.
    apply underb_spec in Hu. destruct Hu as [x Hx].
    apply (f_equal (@length _)) in Hx. rewrite app_length in Hx. simpl in Hx. lia.
Qed.

Lemma desc_bound f d : length (desc f d) <= length (fs_dents f).
Proof.
  unfold desc. generalize (fs_dents f). intros l.
  induction l as [|x l IH]; [apply le_n|]. cbn [filter].
  destruct (Str.under d (fst x)); simpl; lia.
Qed.

(* ================================================================== *)
(* 3. the loop as a pure function on file systems                      *)
(* ================================================================== *)

Definition opt (r : option errno * fs) : option fs :=
  match fst r with None => Some (snd r) | Some _ => None end.

Lemma mkdir_ok f p :
  lookup f p = None -> lookup f (dirname p) = Some NDir ->
  opt (fs_mkdir p f) = Some (add_dent p NDir f).
Proof. intros H1 H2. unfold fs_mkdir, parent_is_dir. rewrite H1, H2. reflexivity. Qed.

Lemma link_ok f a b n :
  lookup f a = Some n -> n <> NDir -> lookup f b = None ->
  lookup f (dirname b) = Some NDir ->
  opt (fs_link a b f) = Some (add_dent b n f).
Proof.
  intros H1 Hn H2 H3. unfold fs_link, parent_is_dir. rewrite H1, H2, H3.
  destruct n; [congruence | reflexivity | reflexivity].
Qed.

Lemma unlink_ok f p n :
  lookup f p = Some n -> n <> NDir -> opt (fs_unlink p f) = Some (del_dent p f).
Proof.
  intros H1 Hn. unfold fs_unlink. rewrite H1.
  destruct n; [congruence | reflexivity | reflexivity].
Qed.

Lemma rmdir_ok f p :
  lookup f p = Some NDir -> children f p = [] -> opt (fs_rmdir p f) = Some (del_dent p f).
Proof. intros H1 H2. unfold fs_rmdir. rewrite H1, H2. reflexivity. Qed.

Definition same_meta (fa fb : fs) : Prop :=
  fs_files fb = fs_files fa /\ fs_next fb = fs_next fa.

Lemma same_meta_refl f : same_meta f f.
Proof. split; reflexivity. Qed.

Lemma same_meta_trans a b c : same_meta a b -> same_meta b c -> same_meta a c.
Proof. intros [H1 H2] [H3 H4]. split; congruence. Qed.

Lemma add_state fa q n :
  keys_nodup fa -> lookup fa q = None ->
  keys_nodup (add_dent q n fa) /\ same_meta fa (add_dent q n fa) /\
  lookup (add_dent q n fa) q = Some n /\
  (forall p, p <> q -> lookup (add_dent q n fa) p = lookup fa p).
Proof.
  intros Hnd Hq. split; [apply keys_nodup_add; assumption|].
  split; [split; reflexivity|]. split; [apply lookup_add_dent_same; exact Hq|].
  intros p Hp. apply lookup_add_dent_other. exact Hp.
Qed.

Lemma del_state fa q :
  keys_nodup fa -> q <> root_path ->
  keys_nodup (del_dent q fa) /\ same_meta fa (del_dent q fa) /\
  lookup (del_dent q fa) q = None /\
  (forall p, p <> q -> lookup (del_dent q fa) p = lookup fa p).
Proof.
  intros Hnd Hq. split; [apply keys_nodup_del; assumption|].
  split; [split; reflexivity|]. split; [apply lookup_del_dent_same; assumption|].
  intros p Hp. apply lookup_del_dent_other. exact Hp.
Qed.

Section Tree.

Variables (U D P : str) (rv : bool).

Definition pstep (f : fs) (e : str * wkind) : option fs :=
  let rel := skipn (S (length U)) (fst e) in
  let filt := P ++ ch_slash :: rel in
  match snd e with
  | WD => if fs_exists filt f then opt (fs_mkdir (join D rel) f) else Some f
  | WDP => if fs_exists filt f then Some f else opt (fs_rmdir (fst e) f)
  | WF => if fs_exists filt f then opt (fs_link (fst e) (join D rel) f)
          else opt (fs_unlink (fst e) f)
  end.

Fixpoint psteps (ents : list (str * wkind)) (f : fs) : option fs :=
  match ents with
  | [] => Some f
  | e :: ents' => match pstep f e with Some f' => psteps ents' f' | None => None end
  end.

Lemma psteps_cons e l f :
  psteps (e :: l) f = match pstep f e with Some f' => psteps l f' | None => None end.
Proof. reflexivity. Qed.

Lemma psteps_one e f : psteps [e] f = pstep f e.
Proof. cbn [psteps]. destruct (pstep f e); reflexivity. Qed.

Lemma psteps_app a b f :
  psteps (a ++ b) f = match psteps a f with Some f' => psteps b f' | None => None end.
Proof.
  revert f. induction a as [|e a IH]; intros f; [reflexivity|].
  cbn [app psteps]. destruct (pstep f e); [apply IH | reflexivity].
Qed.

(* the body of one iteration of tree_loop *)
Definition entry_prog (p : str) (k : wkind) : M unit :=
  let rel := skipn (S (length U)) p in
  let filt := P ++ ch_slash :: rel in
  match k with
  | WD =>
      do ex <- k_access filt;
      (if ex then
         do r <- k_mkdirat D rel;
         match r with Some e => throw_errno e | None => ret_ tt end
       else ret_ tt)
  | WDP =>
      do ex <- k_access filt;
      (if ex then ret_ tt
       else do r <- k_rmdir p; match r with Some e => throw_errno e | None => ret_ tt end)
  | WF =>
      do ex <- k_access filt;
      (if ex then
         do r <- k_linkat p D rel;
         match r with Some e => throw_errno e | None => ret_ tt end
       else do r <- k_unlink p; match r with Some e => throw_errno e | None => ret_ tt end)
  end.

Lemma tree_loop_cons p k ents :
  tree_loop ((p, k) :: ents) (length U) D P =
  (do b <- is_ok;
   if negb b then ret_ tt
   else entry_prog p k;; tree_loop ents (length U) D P).
Proof. destruct k; reflexivity. Qed.

Lemma k_access_benign o w p :
  benign o ->
  exists w', k_access p o w = (Some (fs_exists p (w_fs w)), w') /\
             w_fs w' = w_fs w /\ w_tr w' = w_tr w.
Proof.
  intros H. unfold k_access. rewrite sys_benign by exact H.
  destruct (fs_exists p (w_fs w)); cbn; eexists; (split; [reflexivity|]); split; reflexivity.
Qed.

Lemma sys_unit_ok o w c op f' :
  benign o -> opt (op (w_fs w)) = Some f' ->
  exists w', sys_unit c op o w = (Some None, w') /\ w_fs w' = f' /\ w_tr w' = w_tr w.
Proof.
  intros H Hop. rewrite (sys_unit_benign o w c op H). unfold opt in Hop.
  destruct (fst (op (w_fs w))); [discriminate|]. injection Hop as <-.
  eexists. split; [reflexivity|]. split; reflexivity.
Qed.

Lemma entry_run o w p k f' :
  benign o -> pstep (w_fs w) (p, k) = Some f' ->
  exists w', entry_prog p k o w = (Some tt, w') /\ w_fs w' = f' /\ w_tr w' = w_tr w.
Proof.
  intros H Hst. unfold pstep in Hst. cbn [fst snd] in Hst. unfold entry_prog.
  set (rel := skipn (S (length U)) p) in *.
  set (filt := P ++ ch_slash :: rel) in *.
  destruct (k_access_benign o w filt H) as [w1 [E1 [F1 T1]]].
  destruct k; rewrite (bind_some _ _ _ _ _ _ E1); destruct (fs_exists filt (w_fs w)).
  - rewrite <- F1 in Hst.
    destruct (sys_unit_ok o w1 (CMkdirat D rel) _ f' H Hst) as [w2 [E2 [F2 T2]]].
    unfold k_mkdirat. rewrite (bind_some _ _ _ _ _ _ E2).
    exists w2. split; [reflexivity|]. split; [exact F2 | congruence].
  - injection Hst as <-. exists w1. split; [reflexivity|]. split; assumption.
  - injection Hst as <-. exists w1. split; [reflexivity|]. split; assumption.
  - rewrite <- F1 in Hst.
    destruct (sys_unit_ok o w1 (CRmdir p) _ f' H Hst) as [w2 [E2 [F2 T2]]].
    unfold k_rmdir. rewrite (bind_some _ _ _ _ _ _ E2).
    exists w2. split; [reflexivity|]. split; [exact F2 | congruence].
  - rewrite <- F1 in Hst.
    destruct (sys_unit_ok o w1 (CLinkat p D rel) _ f' H Hst) as [w2 [E2 [F2 T2]]].
    unfold k_linkat. rewrite (bind_some _ _ _ _ _ _ E2).
    exists w2. split; [reflexivity|]. split; [exact F2 | congruence].
  - rewrite <- F1 in Hst.
    destruct (sys_unit_ok o w1 (CUnlink p) _ f' H Hst) as [w2 [E2 [F2 T2]]].
    unfold k_unlink. rewrite (bind_some _ _ _ _ _ _ E2).
    exists w2. split; [reflexivity|]. split; [exact F2 | congruence].
Qed.

Lemma tree_loop_run o : benign o -> forall ents w f',
  tr_ok (w_tr w) = true -> psteps ents (w_fs w) = Some f' ->
  exists w', tree_loop ents (length U) D P o w = (Some tt, w') /\
             w_fs w' = f' /\ w_tr w' = w_tr w.
Proof.
  intros H. induction ents as [|[p k] ents IH]; intros w f' Htr Hst.
  - injection Hst as <-. exists w. split; [reflexivity|]. split; reflexivity.
  - rewrite tree_loop_cons. rewrite (bind_some _ _ _ _ _ _ (is_ok_eq o w)). rewrite Htr.
    cbn [negb]. cbn [psteps] in Hst.
    destruct (pstep (w_fs w) (p, k)) as [f1|] eqn:E; [|discriminate].
    destruct (entry_run o w p k f1 H E) as [w1 [E1 [F1 T1]]].
    rewrite (bind_some _ _ _ _ _ _ E1).
    destruct (IH w1 f') as [w2 [E2 [F2 T2]]]; [congruence | rewrite F1; exact Hst|].
    exists w2. split; [exact E2|]. split; [exact F2 | congruence].
Qed.

End Tree.

(* ================================================================== *)
(* 4. the walk, at file-system level                                   *)
(* ================================================================== *)

Section Walk.

Variables (U D P : str) (rv : bool).
(* the file system on which fts computed the traversal *)
Variable fW : fs.

Hypothesis HU : U <> [].
Hypothesis HUr : U <> root_path.
Hypothesis HD : D <> [].
Hypothesis HDr : D <> root_path.
Hypothesis HP : P <> [].
Hypothesis AUD : apart U D.
Hypothesis AUP : apart U P.
Hypothesis ADP : apart D P.
Hypothesis HndW : keys_nodup fW.
Hypothesis HpeW : parents_exist fW.

(* does the project still have the entry with suffix x; what the snapshot
   (and the pruned unstable tree) must hold there *)
Definition Ex (x : str) : bool := fs_exists (P ++ x) fW.
Definition tgt (x : str) : option node := if Ex x then lookup fW (U ++ x) else None.

Definition sub (s x : str) : Prop := exists t, x = s ++ ch_slash :: t.
Definition subeq (s x : str) : Prop := exists t, sfx t /\ x = s ++ t.

Lemma sub_subeq s x : sub s x -> subeq s x.
Proof. intros [t ->]. exists (ch_slash :: t). split; [right; eexists; reflexivity | reflexivity]. Qed.

Lemma subeq_self s : subeq s s.
Proof. exists []. split; [left; reflexivity | rewrite app_nil_r; reflexivity]. Qed.

Lemma subeq_child_sub s b x : subeq (s ++ ch_slash :: b) x -> sub s x.
Proof. intros [t [_ ->]]. exists (b ++ t). rewrite <- app_assoc. reflexivity. Qed.

Lemma sub_child_sub s b x : sub (s ++ ch_slash :: b) x -> sub s x.
Proof. intros H. apply (subeq_child_sub s b). apply sub_subeq. exact H. Qed.

Lemma subeq_sfx s x : sfx s -> subeq s x -> sfx x.
Proof. intros Hs [t [Ht ->]]. apply sfx_app2; assumption. Qed.

Lemma sub_sfx s x : sfx s -> sub s x -> sfx x.
Proof. intros Hs H. apply (subeq_sfx s); [exact Hs | apply sub_subeq; exact H]. Qed.

Lemma sub_neq X s x : sub s x -> X ++ s <> X ++ x.
Proof. intros [t ->]. apply app_neq_longer. Qed.

Lemma neqUD x y : sfx x -> sfx y -> U ++ x <> D ++ y.
Proof. apply AUD. Qed.
Lemma neqDU x y : sfx x -> sfx y -> D ++ x <> U ++ y.
Proof. intros Hx Hy E. exact (AUD y x Hy Hx (eq_sym E)). Qed.
Lemma neqPU x y : sfx x -> sfx y -> P ++ x <> U ++ y.
Proof. intros Hx Hy E. exact (AUP y x Hy Hx (eq_sym E)). Qed.
Lemma neqPD x y : sfx x -> sfx y -> P ++ x <> D ++ y.
Proof. intros Hx Hy E. exact (ADP y x Hy Hx (eq_sym E)). Qed.

Lemma sfx_nonroot X x : X <> [] -> sfx x -> X <> root_path -> X ++ x <> root_path.
Proof.
  intros HX [->|[x' ->]] Hr; [rewrite app_nil_r; exact Hr|].
  apply app_slash_ne_root. exact HX.
Qed.

(* ancestors in the project *)
Lemma Ex_child s b :
  nosl b = true -> Ex (s ++ ch_slash :: b) = true ->
  Ex s = true /\ lookup fW (P ++ s) = Some NDir.
Proof.
  intros Hb He. unfold Ex, fs_exists in *.
  destruct (lookup fW (P ++ s ++ ch_slash :: b)) as [v|] eqn:E; [|discriminate].
  assert (Hne : lookup fW (P ++ s ++ ch_slash :: b) <> None) by congruence.
  apply HpeW in Hne. rewrite app_assoc in Hne.
  rewrite dirname_app_nosl in Hne; [|destruct P; [congruence | discriminate] | exact Hb].
  rewrite Hne. split; reflexivity.
Qed.

Lemma Ex_below s : Ex s = false -> forall x, sub s x -> Ex x = false.
Proof.
  intros He x [t ->]. unfold Ex, fs_exists in *. rewrite app_assoc.
  rewrite (below_nondir fW (P ++ s) HpeW); [reflexivity | destruct P; [congruence | discriminate] |].
  destruct (lookup fW (P ++ s)); [discriminate | congruence].
Qed.

Lemma U_below s : lookup fW (U ++ s) <> Some NDir -> forall x, sub s x -> lookup fW (U ++ x) = None.
Proof.
  intros Hn x [t ->]. rewrite app_assoc.
  apply (below_nondir fW (U ++ s) HpeW); [destruct U; [congruence | discriminate] | exact Hn].
Qed.

(* the project is not touched *)
Definition Psame (fa : fs) : Prop := forall x, sfx x -> lookup fa (P ++ x) = lookup fW (P ++ x).

Lemma Psame_ex fa x : Psame fa -> sfx x -> fs_exists (P ++ x) fa = Ex x.
Proof. intros H Hx. unfold Ex, fs_exists. rewrite (H x Hx). reflexivity. Qed.

Definition unchanged_off (R : str -> Prop) (fa fb : fs) : Prop :=
  forall q, (forall x, R x -> q <> U ++ x /\ q <> D ++ x) -> lookup fb q = lookup fa q.

Lemma Psame_keep (R : str -> Prop) fa fb :
  (forall x, R x -> sfx x) -> Psame fa -> unchanged_off R fa fb -> Psame fb.
Proof.
  intros HR Hp Hu x Hx. rewrite Hu; [apply Hp; exact Hx|].
  intros y Hy. split; [apply neqPU | apply neqPD]; auto.
Qed.

(* state before / after the sub-tree below suffix s (s itself excluded) *)
Definition Pre (fa : fs) (s : str) : Prop :=
  keys_nodup fa /\
  (forall x, sub s x -> lookup fa (U ++ x) = lookup fW (U ++ x) /\ lookup fa (D ++ x) = None) /\
  (Ex s = true -> lookup fa (D ++ s) = Some NDir) /\
  Psame fa.

Definition Post (fa fb : fs) (s : str) : Prop :=
  keys_nodup fb /\ same_meta fa fb /\
  (forall x, sub s x -> lookup fb (U ++ x) = tgt x /\ lookup fb (D ++ x) = tgt x) /\
  unchanged_off (sub s) fa fb.

(* the same for one entry sc of directory s, sc included *)
Definition PreC (fa : fs) (s sc : str) : Prop :=
  keys_nodup fa /\
  (forall x, subeq sc x -> lookup fa (U ++ x) = lookup fW (U ++ x) /\ lookup fa (D ++ x) = None) /\
  (Ex s = true -> lookup fa (D ++ s) = Some NDir) /\
  Psame fa.

Definition PostC (fa fb : fs) (sc : str) : Prop :=
  keys_nodup fb /\ same_meta fa fb /\
  (forall x, subeq sc x -> lookup fb (U ++ x) = tgt x /\ lookup fb (D ++ x) = tgt x) /\
  unchanged_off (subeq sc) fa fb.

Definition walk_ok (fuel : nat) : Prop :=
  forall s fa, sfx s -> length (desc fW (U ++ s)) < fuel -> Pre fa s ->
  exists fb, psteps U D P (walk fuel rv fW (U ++ s)) fa = Some fb /\ Post fa fb s.

(* what the walk emits for one entry *)
Definition G (fuel : nat) (e : str * node) : list (str * wkind) :=
  match snd e with
  | NDir => (fst e, WD) :: walk fuel rv fW (fst e) ++ [(fst e, WDP)]
  | _ => [(fst e, WF)]
  end.

Lemma walk_S fuel d :
  walk (S fuel) rv fW d =
  flat_map (G fuel)
    (sort_by (fun a b : str * node =>
                if rv then str_leb (basename (fst b)) (basename (fst a))
                else str_leb (basename (fst a)) (basename (fst b)))
             (children fW d)).
Proof. reflexivity. Qed.

Lemma pstep_eq sc f k :
  sfx sc -> sc <> [] ->
  pstep U D P f (@pair str wkind (U ++ sc) k) =
  match k with
  | WD => if fs_exists (P ++ sc) f then opt (fs_mkdir (D ++ sc) f) else Some f
  | WDP => if fs_exists (P ++ sc) f then Some f else opt (fs_rmdir (U ++ sc) f)
  | WF => if fs_exists (P ++ sc) f then opt (fs_link (U ++ sc) (D ++ sc) f)
          else opt (fs_unlink (U ++ sc) f)
  end.
Proof.
  intros [->|[s' ->]] Hne; [congruence|].
  unfold pstep. cbn [fst snd]. rewrite skipn_rel. rewrite (join_ne D s' HDr). reflexivity.
Qed.

Lemma child_ok fuel (IHw : walk_ok fuel) s b n fa :
  sfx s -> nosl b = true ->
  In (U ++ s ++ ch_slash :: b, n) (children fW (U ++ s)) ->
  length (desc fW (U ++ s)) < S fuel ->
  PreC fa s (s ++ ch_slash :: b) ->
  exists fb, psteps U D P (G fuel (U ++ s ++ ch_slash :: b, n)) fa = Some fb /\
             PostC fa fb (s ++ ch_slash :: b).
Proof.
  intros Hs Hb Hin Hfuel [Hnd [Hsub [HDs HPs]]].
  assert (HUs : U ++ s <> []) by (destruct U; [congruence | discriminate]).
  assert (HUsr : U ++ s <> root_path) by (apply sfx_nonroot; assumption).
  assert (Hdesc : length (desc fW (U ++ s ++ ch_slash :: b)) < fuel).
  { pose proof (desc_child fW (U ++ s) _ n HUs HUsr Hin) as Hlt. lia. }
  assert (Hchild : forall x, sub (s ++ ch_slash :: b) x -> subeq (s ++ ch_slash :: b) x)
    by (intros x; apply sub_subeq).
  assert (HdD : dirname (D ++ s ++ ch_slash :: b) = D ++ s).
  { rewrite app_assoc. apply dirname_app_nosl; [destruct D; [congruence | discriminate] | exact Hb]. }
  destruct (children_lookup fW (U ++ s) _ _ HndW Hin) as [Hr [_ HlW]].
  set (sc := s ++ ch_slash :: b) in *.
  assert (Hsc : sfx sc) by (apply sfx_app; exact Hs).
  assert (Hscne : sc <> []) by (unfold sc; destruct s; discriminate).
  assert (Hsx : forall x, subeq sc x -> sfx x) by (intros x; apply subeq_sfx; exact Hsc).
  destruct (Hsub sc (subeq_self sc)) as [HUa HDa]. rewrite HlW in HUa.
  unfold G. cbn [fst snd].
  destruct (Ex sc) eqn:Esc.
  - (* the project still has this entry *)
    destruct (Ex_child s b Hb Esc) as [Es _]. specialize (HDs Es).
    destruct n as [|ino|tg mt].
    + (* a directory: mkdirat, the sub-tree, nothing on the way back *)
      destruct (add_state fa (D ++ sc) NDir Hnd HDa) as [Hnd1 [Hm1 [Hl1 Ho1]]].
      set (f1 := add_dent (D ++ sc) NDir fa) in *.
      assert (Hpre1 : Pre f1 sc).
      { split; [exact Hnd1|]. split.
        - intros x Hx. destruct (Hsub x (Hchild x Hx)) as [A B].
          rewrite !Ho1; [split; assumption | |].
          + apply not_eq_sym. apply sub_neq. exact Hx.
          + apply neqUD; [apply (sub_sfx sc); assumption | exact Hsc].
        - split; [intros _; exact Hl1|].
          intros x Hx. rewrite Ho1; [apply HPs; exact Hx | apply neqPD; assumption]. }
      destruct (IHw sc f1 Hsc Hdesc Hpre1) as [f2 [E2 [Hnd2 [Hm2 [Hin2 Hun2]]]]].
      assert (HPs2 : Psame f2).
      { apply (Psame_keep (sub sc) f1 f2); [intros x; apply sub_sfx; exact Hsc | | exact Hun2].
        destruct Hpre1 as [_ [_ [_ Hp]]]. exact Hp. }
      exists f2. split.
      { rewrite psteps_cons. rewrite (pstep_eq sc fa WD Hsc Hscne).
        rewrite (Psame_ex fa sc HPs Hsc), Esc.
        rewrite (mkdir_ok fa (D ++ sc) HDa); [|rewrite HdD; exact HDs].
        fold f1. rewrite psteps_app, E2. rewrite psteps_one.
        rewrite (pstep_eq sc f2 WDP Hsc Hscne), (Psame_ex f2 sc HPs2 Hsc), Esc. reflexivity. }
      split; [exact Hnd2|]. split; [exact (same_meta_trans _ _ _ Hm1 Hm2)|]. split.
      * intros x [t [Ht ->]]. destruct Ht as [->|[t' ->]].
        -- rewrite app_nil_r. unfold tgt. rewrite Esc, HlW.
           rewrite !Hun2.
           ++ rewrite Hl1, Ho1; [split; [exact HUa | reflexivity]|]. apply neqUD; assumption.
           ++ intros x Hx. split; [apply neqDU; [exact Hsc | apply (sub_sfx sc); assumption]|].
              apply sub_neq. exact Hx.
           ++ intros x Hx. split; [apply sub_neq; exact Hx|].
              apply neqUD; [exact Hsc | apply (sub_sfx sc); assumption].
        -- apply Hin2. exists t'. reflexivity.
      * intros q Hq. rewrite Hun2.
        -- apply Ho1. destruct (Hq sc (subeq_self sc)) as [_ Hq2]. exact Hq2.
        -- intros x Hx. apply Hq. apply Hchild. exact Hx.
    + (* a file: hard link to the same inode *)
      exists (add_dent (D ++ sc) (NFile ino) fa).
      destruct (add_state fa (D ++ sc) (NFile ino) Hnd HDa) as [Hnd1 [Hm1 [Hl1 Ho1]]].
      split.
      { rewrite psteps_one. rewrite (pstep_eq sc fa WF Hsc Hscne).
        rewrite (Psame_ex fa sc HPs Hsc), Esc.
        rewrite (link_ok fa (U ++ sc) (D ++ sc) (NFile ino) HUa);
          [reflexivity | discriminate | exact HDa | rewrite HdD; exact HDs]. }
      split; [exact Hnd1|]. split; [exact Hm1|]. split.
      * intros x [t [Ht ->]]. destruct Ht as [->|[t' ->]].
        -- rewrite app_nil_r. unfold tgt. rewrite Esc, HlW. rewrite Hl1.
           rewrite Ho1; [split; [exact HUa | reflexivity]|]. apply neqUD; assumption.
        -- assert (Hx : sub sc (sc ++ ch_slash :: t')) by (exists t'; reflexivity).
           destruct (Hsub _ (Hchild _ Hx)) as [A B].
           assert (HN : lookup fW (U ++ sc ++ ch_slash :: t') = None).
           { apply (U_below sc); [rewrite HlW; discriminate | exact Hx]. }
           unfold tgt. rewrite HN.
           rewrite !Ho1.
           ++ rewrite A, B, HN. destruct (Ex (sc ++ ch_slash :: t')); split; reflexivity.
           ++ apply not_eq_sym. apply sub_neq. exact Hx.
           ++ apply neqUD; [apply (sub_sfx sc); assumption | exact Hsc].
      * intros q Hq. apply Ho1. destruct (Hq sc (subeq_self sc)) as [_ Hq2]. exact Hq2.
    + (* a symbolic link: linkat gives a second name to the same node *)
      exists (add_dent (D ++ sc) (NLink tg mt) fa).
      destruct (add_state fa (D ++ sc) (NLink tg mt) Hnd HDa) as [Hnd1 [Hm1 [Hl1 Ho1]]].
      split.
      { rewrite psteps_one. rewrite (pstep_eq sc fa WF Hsc Hscne).
        rewrite (Psame_ex fa sc HPs Hsc), Esc.
        rewrite (link_ok fa (U ++ sc) (D ++ sc) (NLink tg mt) HUa);
          [reflexivity | discriminate | exact HDa | rewrite HdD; exact HDs]. }
      split; [exact Hnd1|]. split; [exact Hm1|]. split.
      * intros x [t [Ht ->]]. destruct Ht as [->|[t' ->]].
        -- rewrite app_nil_r. unfold tgt. rewrite Esc, HlW. rewrite Hl1.
           rewrite Ho1; [split; [exact HUa | reflexivity]|]. apply neqUD; assumption.
        -- assert (Hx : sub sc (sc ++ ch_slash :: t')) by (exists t'; reflexivity).
           destruct (Hsub _ (Hchild _ Hx)) as [A B].
           assert (HN : lookup fW (U ++ sc ++ ch_slash :: t') = None).
           { apply (U_below sc); [rewrite HlW; discriminate | exact Hx]. }
           unfold tgt. rewrite HN.
           rewrite !Ho1.
           ++ rewrite A, B, HN. destruct (Ex (sc ++ ch_slash :: t')); split; reflexivity.
           ++ apply not_eq_sym. apply sub_neq. exact Hx.
           ++ apply neqUD; [apply (sub_sfx sc); assumption | exact Hsc].
      * intros q Hq. apply Ho1. destruct (Hq sc (subeq_self sc)) as [_ Hq2]. exact Hq2.
  - (* the entry is gone from the project: prune *)
    pose proof (Ex_below sc Esc) as Hbelow.
    destruct n as [|ino|tg mt].
    + (* a directory: nothing on the way down, prune below, rmdir on the way back *)
      assert (Hpre1 : Pre fa sc).
      { split; [exact Hnd|]. split; [intros x Hx; apply Hsub; apply Hchild; exact Hx|].
        split; [intros C; congruence | exact HPs]. }
      destruct (IHw sc fa Hsc Hdesc Hpre1) as [f2 [E2 [Hnd2 [Hm2 [Hin2 Hun2]]]]].
      assert (HPs2 : Psame f2).
      { apply (Psame_keep (sub sc) fa f2); [intros x; apply sub_sfx; exact Hsc | exact HPs | exact Hun2]. }
      assert (HU2 : lookup f2 (U ++ sc) = Some NDir).
      { rewrite Hun2; [exact HUa|]. intros x Hx. split; [apply sub_neq; exact Hx|].
        apply neqUD; [exact Hsc | apply (sub_sfx sc); assumption]. }
      assert (HD2 : lookup f2 (D ++ sc) = None).
      { rewrite Hun2; [exact HDa|]. intros x Hx.
        split; [apply neqDU; [exact Hsc | apply (sub_sfx sc); assumption] | apply sub_neq; exact Hx]. }
      assert (Hempty : children f2 (U ++ sc) = []).
      { apply children_empty. intros k Hk Hdk.
        destruct (child_shape (U ++ sc) k) as [b' [Ek Hb']]; [| | exact Hdk |].
        - apply sfx_nonroot; assumption.
        - destruct U; [congruence | discriminate].
        - subst k. rewrite <- app_assoc.
          assert (Hx : sub sc (sc ++ ch_slash :: b')) by (exists b'; reflexivity).
          destruct (Hin2 _ Hx) as [A _]. rewrite A. unfold tgt. rewrite (Hbelow _ Hx). reflexivity. }
      destruct (del_state f2 (U ++ sc) Hnd2) as [Hnd3 [Hm3 [Hl3 Ho3]]].
      { apply sfx_nonroot; assumption. }
      exists (del_dent (U ++ sc) f2). split.
      { rewrite psteps_cons. rewrite (pstep_eq sc fa WD Hsc Hscne).
        rewrite (Psame_ex fa sc HPs Hsc), Esc.
        rewrite psteps_app, E2. rewrite psteps_one.
        rewrite (pstep_eq sc f2 WDP Hsc Hscne), (Psame_ex f2 sc HPs2 Hsc), Esc.
        rewrite (rmdir_ok f2 (U ++ sc) HU2 Hempty). reflexivity. }
      split; [exact Hnd3|]. split; [exact (same_meta_trans _ _ _ Hm2 Hm3)|]. split.
      * intros x [t [Ht ->]]. destruct Ht as [->|[t' ->]].
        -- rewrite app_nil_r. unfold tgt. rewrite Esc. rewrite Hl3.
           rewrite Ho3; [split; [reflexivity | exact HD2]|]. apply neqDU; assumption.
        -- assert (Hx : sub sc (sc ++ ch_slash :: t')) by (exists t'; reflexivity).
           rewrite !Ho3.
           ++ apply Hin2. exact Hx.
           ++ apply neqDU; [apply (sub_sfx sc); assumption | exact Hsc].
           ++ apply not_eq_sym. apply sub_neq. exact Hx.
      * intros q Hq. rewrite Ho3.
        -- apply Hun2. intros x Hx. apply Hq. apply Hchild. exact Hx.
        -- destruct (Hq sc (subeq_self sc)) as [Hq1 _]. exact Hq1.
    + (* a file: unlink *)
      destruct (del_state fa (U ++ sc) Hnd) as [Hnd3 [Hm3 [Hl3 Ho3]]].
      { apply sfx_nonroot; assumption. }
      exists (del_dent (U ++ sc) fa). split.
      { rewrite psteps_one. rewrite (pstep_eq sc fa WF Hsc Hscne).
        rewrite (Psame_ex fa sc HPs Hsc), Esc.
        rewrite (unlink_ok fa (U ++ sc) (NFile ino) HUa); [reflexivity | discriminate]. }
      split; [exact Hnd3|]. split; [exact Hm3|]. split.
      * intros x [t [Ht ->]]. destruct Ht as [->|[t' ->]].
        -- rewrite app_nil_r. unfold tgt. rewrite Esc. rewrite Hl3.
           rewrite Ho3; [split; [reflexivity | exact HDa]|]. apply neqDU; assumption.
        -- assert (Hx : sub sc (sc ++ ch_slash :: t')) by (exists t'; reflexivity).
           destruct (Hsub _ (Hchild _ Hx)) as [A B].
           unfold tgt. rewrite (Hbelow _ Hx).
           rewrite !Ho3.
           ++ rewrite A, B. split; [|reflexivity].
              apply (U_below sc); [rewrite HlW; discriminate | exact Hx].
           ++ apply neqDU; [apply (sub_sfx sc); assumption | exact Hsc].
           ++ apply not_eq_sym. apply sub_neq. exact Hx.
      * intros q Hq. apply Ho3. destruct (Hq sc (subeq_self sc)) as [Hq1 _]. exact Hq1.
    + (* a symbolic link: unlink *)
      destruct (del_state fa (U ++ sc) Hnd) as [Hnd3 [Hm3 [Hl3 Ho3]]].
      { apply sfx_nonroot; assumption. }
      exists (del_dent (U ++ sc) fa). split.
      { rewrite psteps_one. rewrite (pstep_eq sc fa WF Hsc Hscne).
        rewrite (Psame_ex fa sc HPs Hsc), Esc.
        rewrite (unlink_ok fa (U ++ sc) (NLink tg mt) HUa); [reflexivity | discriminate]. }
      split; [exact Hnd3|]. split; [exact Hm3|]. split.
      * intros x [t [Ht ->]]. destruct Ht as [->|[t' ->]].
        -- rewrite app_nil_r. unfold tgt. rewrite Esc. rewrite Hl3.
           rewrite Ho3; [split; [reflexivity | exact HDa]|]. apply neqDU; assumption.
        -- assert (Hx : sub sc (sc ++ ch_slash :: t')) by (exists t'; reflexivity).
           destruct (Hsub _ (Hchild _ Hx)) as [A B].
           unfold tgt. rewrite (Hbelow _ Hx).
           rewrite !Ho3.
           ++ rewrite A, B. split; [|reflexivity].
              apply (U_below sc); [rewrite HlW; discriminate | exact Hx].
           ++ apply neqDU; [apply (sub_sfx sc); assumption | exact Hsc].
           ++ apply not_eq_sym. apply sub_neq. exact Hx.
      * intros q Hq. apply Ho3. destruct (Hq sc (subeq_self sc)) as [Hq1 _]. exact Hq1.
Qed.


(* ----- the entries of one directory, in any order without repetition ----- *)

Lemma child_sc s p n :
  sfx s -> In (p, n) (children fW (U ++ s)) ->
  exists b, nosl b = true /\ p = U ++ s ++ ch_slash :: b.
Proof.
  intros Hs Hin. destruct (in_children fW (U ++ s) (p, n) Hin) as [_ [Hd _]]. cbn [fst] in Hd.
  destruct (child_shape (U ++ s) p) as [b [E Hb]]; [| | exact Hd |].
  - apply sfx_nonroot; assumption.
  - destruct U; [congruence | discriminate].
  - exists b. split; [exact Hb|]. rewrite E, <- app_assoc. reflexivity.
Qed.

Lemma sib_disj s b b' x y X :
  nosl b = true -> nosl b' = true -> b <> b' ->
  subeq (s ++ ch_slash :: b) x -> subeq (s ++ ch_slash :: b') y -> X ++ x <> X ++ y.
Proof.
  intros Hb Hb' Hne [t [Ht ->]] [t' [Ht' ->]] E. apply app_inv_head in E.
  rewrite <- !app_assoc in E. apply app_inv_head in E. cbn [app] in E. injection E as E.
  apply Hne. exact (nosl_sfx_inj b b' t t' Hb Hb' Ht Ht' E).
Qed.

Definition inL (L : list (str * node)) (x : str) : Prop :=
  exists n sc, In (U ++ sc, n) L /\ subeq sc x.

Definition PreL (fa : fs) (s : str) (L : list (str * node)) : Prop :=
  keys_nodup fa /\
  (forall x, inL L x -> lookup fa (U ++ x) = lookup fW (U ++ x) /\ lookup fa (D ++ x) = None) /\
  (Ex s = true -> lookup fa (D ++ s) = Some NDir) /\
  Psame fa.

Definition PostL (fa fb : fs) (L : list (str * node)) : Prop :=
  keys_nodup fb /\ same_meta fa fb /\
  (forall x, inL L x -> lookup fb (U ++ x) = tgt x /\ lookup fb (D ++ x) = tgt x) /\
  unchanged_off (inL L) fa fb.

Lemma inL_shape s L x :
  sfx s -> (forall e, In e L -> In e (children fW (U ++ s))) -> inL L x ->
  exists b n, nosl b = true /\ In (U ++ s ++ ch_slash :: b, n) L /\ subeq (s ++ ch_slash :: b) x.
Proof.
  intros Hs HL [n [sc [Hin Hx]]].
  destruct (child_sc s _ n Hs (HL _ Hin)) as [b [Hb E]]. apply app_inv_head in E. subst sc.
  exists b, n. auto.
Qed.

Lemma inL_sub s L x :
  sfx s -> (forall e, In e L -> In e (children fW (U ++ s))) -> inL L x -> sub s x.
Proof.
  intros Hs HL Hx. destruct (inL_shape s L x Hs HL Hx) as [b [n [_ [_ H]]]].
  exact (subeq_child_sub s b x H).
Qed.

Lemma kids_ok fuel (IHw : walk_ok fuel) s :
  sfx s -> length (desc fW (U ++ s)) < S fuel ->
  forall L fa,
    (forall e, In e L -> In e (children fW (U ++ s))) -> NoDup (map fst L) ->
    PreL fa s L ->
    exists fb, psteps U D P (flat_map (G fuel) L) fa = Some fb /\ PostL fa fb L.
Proof.
  intros Hs Hfuel. induction L as [|[p n] L IH]; intros fa HL Hnd [Hk [Hsub [HDs HPs]]].
  - exists fa. split; [reflexivity|]. split; [exact Hk|]. split; [apply same_meta_refl|].
    split; [intros x [n [sc [[] _]]] | intros q _; reflexivity].
  - cbn [map fst] in Hnd. inversion Hnd as [|p' l' Hnin Hnd']; subst.
    assert (HL' : forall e, In e L -> In e (children fW (U ++ s))) by (intros e He; apply HL; right; exact He).
    destruct (child_sc s p n Hs (HL _ (or_introl eq_refl))) as [b [Hb Ep]]. subst p.
    set (sc := s ++ ch_slash :: b) in *.
    assert (Hsc : sfx sc) by (apply sfx_app; exact Hs).
    (* every other entry of the list has another name *)
    assert (Hother : forall x y, subeq sc x -> inL L y -> forall X, X ++ x <> X ++ y).
    { intros x y Hx Hy X.
      destruct (inL_shape s L y Hs HL' Hy) as [b' [n' [Hb' [Hin' Hy']]]].
      apply (sib_disj s b b' x y X Hb Hb'); [|exact Hx | exact Hy'].
      intros ->. apply Hnin. apply in_map_iff. exists (U ++ s ++ ch_slash :: b', n'). auto. }
    assert (HinLs : forall y, inL L y -> sfx y).
    { intros y Hy. apply (sub_sfx s); [exact Hs | exact (inL_sub s L y Hs HL' Hy)]. }
    assert (Hsx : forall x, subeq sc x -> sfx x) by (intros x; apply subeq_sfx; exact Hsc).
    assert (Hpc : PreC fa s sc).
    { split; [exact Hk|]. split; [|split; assumption].
      intros x Hx. apply Hsub. exists n, sc. split; [left; reflexivity | exact Hx]. }
    destruct (child_ok fuel IHw s b n fa Hs Hb (HL _ (or_introl eq_refl)) Hfuel Hpc)
      as [fm [Em [Hkm [Hmm [Hinm Hunm]]]]].
    assert (HpL : PreL fm s L).
    { split; [exact Hkm|]. split.
      - intros y Hy.
        rewrite !Hunm.
        + apply Hsub. destruct Hy as [n' [sc' [Hin' Hy']]]. exists n', sc'. split; [right; exact Hin' | exact Hy'].
        + intros x Hx. split; [apply neqDU; auto|]. apply not_eq_sym. apply Hother; assumption.
        + intros x Hx. split; [apply not_eq_sym; apply Hother; assumption|]. apply neqUD; auto.
      - split.
        + intros He. rewrite Hunm; [exact (HDs He)|].
          intros x Hx. pose proof (subeq_child_sub s b x Hx) as Hsx'.
          split; [apply neqDU; auto | apply sub_neq; exact Hsx'].
        + apply (Psame_keep (subeq sc) fa fm); assumption. }
    destruct (IH fm HL' Hnd' HpL) as [fb [Eb [Hkb [Hmb [Hinb Hunb]]]]].
    exists fb. split.
    { cbn [flat_map]. rewrite psteps_app.
      match goal with
      | |- match ?X with _ => _ end = _ => replace X with (Some fm) by (symmetry; exact Em)
      end. exact Eb. }
    split; [exact Hkb|]. split; [exact (same_meta_trans _ _ _ Hmm Hmb)|]. split.
    + intros x [n' [sc' [[E|Hin'] Hx]]].
      * injection E as E _. apply app_inv_head in E. subst sc'.
        rewrite !Hunb; [apply Hinm; exact Hx | |].
        -- intros y Hy. split; [apply neqDU; auto | apply Hother; assumption].
        -- intros y Hy. split; [apply Hother; assumption | apply neqUD; auto].
      * apply Hinb. exists n', sc'. auto.
    + intros q Hq. rewrite Hunb.
      * apply Hunm. intros x Hx. apply Hq. exists n, sc. split; [left; reflexivity | exact Hx].
      * intros y [n' [sc' [Hin' Hy]]]. apply Hq. exists n', sc'. split; [right; exact Hin' | exact Hy].
Qed.

(* ----- sorting does not lose or repeat entries ----- *)

Lemma insert_by_keys {A B} (g : A -> B) (le : A -> A -> bool) x l :
  NoDup (map g l) -> ~ In (g x) (map g l) -> NoDup (map g (insert_by le x l)).
Proof.
  induction l as [|y l IH]; intros Hnd Hnin; cbn [insert_by].
  - cbn [map]. constructor; [intros [] | constructor].
  - destruct (le x y); [cbn [map]; constructor; assumption|].
    cbn [map] in *. inversion Hnd as [|y' l' Hy Hnd']; subst. constructor.
    + intros Hin. apply in_map_iff in Hin. destruct Hin as [z [Ez Hz]].
      apply insert_by_In in Hz. destruct Hz as [->|Hz].
      * apply Hnin. left. symmetry. exact Ez.
      * apply Hy. rewrite <- Ez. apply in_map. exact Hz.
    + apply IH; [exact Hnd'|]. intros Hin. apply Hnin. right. exact Hin.
Qed.

Lemma sort_by_keys {A B} (g : A -> B) (le : A -> A -> bool) l :
  NoDup (map g l) -> NoDup (map g (sort_by le l)).
Proof.
  unfold sort_by. induction l as [|x l IH]; intros Hnd; [constructor|].
  cbn [map fold_right] in *. inversion Hnd as [|x' l' Hx Hnd']; subst.
  apply insert_by_keys; [apply IH; exact Hnd'|].
  intros Hin. apply Hx. apply in_map_iff in Hin. destruct Hin as [z [Ez Hz]].
  apply sort_by_In in Hz. rewrite <- Ez. apply in_map. exact Hz.
Qed.

(* ----- the whole walk below U ++ s ----- *)

Lemma walk_all : forall fuel, walk_ok fuel.
Proof.
  induction fuel as [|fuel IHw]; intros s fa Hs Hfuel [Hk [Hsub [HDs HPs]]]; [lia|].
  rewrite walk_S.
  set (L := sort_by _ (children fW (U ++ s))).
  assert (HL : forall e, In e L -> In e (children fW (U ++ s))).
  { intros e He. unfold L in He. apply sort_by_In in He. exact He. }
  assert (HLr : forall e, In e (children fW (U ++ s)) -> In e L).
  { intros e He. unfold L. apply sort_by_In. exact He. }
  assert (Hnd : NoDup (map fst L)).
  { unfold L. apply sort_by_keys. apply children_nodup. exact HndW. }
  assert (HUs : U ++ s <> []) by (destruct U; [congruence | discriminate]).
  assert (HUsr : U ++ s <> root_path) by (apply sfx_nonroot; assumption).
  assert (HpL : PreL fa s L).
  { split; [exact Hk|]. split; [|split; assumption].
    intros x Hx. apply Hsub. exact (inL_sub s L x Hs HL Hx). }
  destruct (kids_ok fuel IHw s Hs Hfuel L fa HL Hnd HpL) as [fb [Eb [Hkb [Hmb [Hinb Hunb]]]]].
  exists fb. split; [exact Eb|]. split; [exact Hkb|]. split; [exact Hmb|]. split.
  - intros x [t ->].
    destruct (split_first t) as [b [t1 [-> [Hb Ht1]]]].
    set (sc := s ++ ch_slash :: b).
    assert (Hxsc : subeq sc (s ++ ch_slash :: b ++ t1)).
    { exists t1. split; [exact Ht1|]. unfold sc. rewrite <- app_assoc. reflexivity. }
    assert (Hsc : sfx sc) by (apply sfx_app; exact Hs).
    assert (Hxs : sfx (s ++ ch_slash :: b ++ t1)) by (apply (subeq_sfx sc); assumption).
    destruct (lookup fW (U ++ sc)) as [n|] eqn:El.
    + apply Hinb.
      destruct (children_intro fW (U ++ s) (U ++ sc)) as [v Hv].
      * apply sfx_nonroot; assumption.
      * unfold sc. rewrite app_assoc. apply dirname_app_nosl; assumption.
      * congruence.
      * exists v, sc. split; [apply HLr; exact Hv | exact Hxsc].
    + assert (HN : lookup fW (U ++ s ++ ch_slash :: b ++ t1) = None).
      { destruct Hxsc as [t' [[->|[t'' ->]] E]]; rewrite E.
        - rewrite app_nil_r. exact El.
        - apply (U_below sc); [rewrite El; discriminate | exists t''; reflexivity]. }
      unfold tgt. rewrite HN.
      assert (Hfresh : forall y, inL L y -> forall X, X ++ s ++ ch_slash :: b ++ t1 <> X ++ y).
      { intros y Hy X.
        destruct (inL_shape s L y Hs HL Hy) as [b' [n' [Hb' [Hin' Hy']]]].
        apply (sib_disj s b b' _ y X Hb Hb'); [|exact Hxsc | exact Hy'].
        intros ->. destruct (children_lookup fW _ _ _ HndW (HL _ Hin')) as [_ [_ C]].
        unfold sc in El. rewrite El in C. discriminate. }
      assert (HinLs : forall y, inL L y -> sfx y).
      { intros y Hy. apply (sub_sfx s); [exact Hs | exact (inL_sub s L y Hs HL Hy)]. }
      rewrite !Hunb.
      * destruct (Hsub (s ++ ch_slash :: b ++ t1)) as [A B]; [eexists; reflexivity|].
        rewrite A, B, HN. destruct (Ex (s ++ ch_slash :: b ++ t1)); split; reflexivity.
      * intros y Hy. split; [apply neqDU; auto | apply Hfresh; exact Hy].
      * intros y Hy. split; [apply Hfresh; exact Hy | apply neqUD; auto].
  - intros q Hq. apply Hunb. intros y Hy. apply Hq. exact (inL_sub s L y Hs HL Hy).
Qed.

End Walk.

(* ================================================================== *)
(* 5. sync_shallow_tree                                                *)
(* ================================================================== *)

Ltac clock_of E :=
  let Ec := fresh in
  pose proof (f_equal snd E) as Ec; cbn [snd] in Ec; rewrite <- Ec; reflexivity.

Lemma chain_dirname prev l p :
  chain prev l -> In p l -> dirname p = prev \/ In (dirname p) l.
Proof.
  revert prev. induction l as [|x l IH]; intros prev Hc Hin; [destruct Hin|].
  cbn [chain] in Hc. destruct Hc as [Hd Hc]. destruct Hin as [->|Hin].
  - left. exact Hd.
  - right. destruct (IH x Hc Hin) as [E|Hi]; [left; symmetry; exact E | right; exact Hi].
Qed.

Lemma k_fts_benign o w rv root :
  benign o ->
  exists w', k_fts rv root o w = (Some (inl (fs_walk rv (w_fs w) root)), w') /\
             w_fs w' = w_fs w /\ w_tr w' = w_tr w.
Proof.
  intros H. unfold k_fts. rewrite sys_benign by exact H. cbn.
  eexists. split; [reflexivity|]. split; reflexivity.
Qed.

(* what the snapshot D/r and the pruned unstable tree U/r hold afterwards *)
Definition snap (f : fs) (U P r : str) : option node :=
  if fs_exists (P ++ ch_slash :: r) f then lookup f (U ++ ch_slash :: r) else None.

Lemma parents_not_sub D X d x :
  apart D X -> sfx x -> In d (parents_of D) -> d <> X ++ x.
Proof.
  intros Ha Hx Hin ->. apply parents_of_prefix in Hin. destruct Hin as [r E].
  apply (Ha [] (x ++ ch_slash :: r)); [left; reflexivity | apply sfx_app; exact Hx|].
  rewrite app_nil_r, E, <- app_assoc. reflexivity.
Qed.

Theorem sync_shallow_tree_snapshot o w rv U D P restD :
  benign o ->
  tr_ok (w_tr w) = true ->
  keys_nodup (w_fs w) -> parents_exist (w_fs w) ->
  D = ch_slash :: restD -> U <> [] -> U <> root_path -> P <> [] ->
  nn U D -> nn U P -> nn D P ->
  lookup (w_fs w) D = None ->
  (forall d, In d (parents_of D) ->
             lookup (w_fs w) d = Some NDir \/ lookup (w_fs w) d = None) ->
  exists w',
    sync_shallow_tree rv D U P o w = (Some tt, w') /\
    w_tr w' = w_tr w /\
    w_clock w' = w_clock w /\
    fs_files (w_fs w') = fs_files (w_fs w) /\
    fs_next (w_fs w') = fs_next (w_fs w) /\
    keys_nodup (w_fs w') /\
    lookup (w_fs w') D = Some NDir /\
    (forall d, In d (parents_of D) -> lookup (w_fs w') d = Some NDir) /\
    (forall r, lookup (w_fs w') (D ++ ch_slash :: r) = snap (w_fs w) U P r) /\
    (forall r, lookup (w_fs w') (U ++ ch_slash :: r) = snap (w_fs w) U P r) /\
    (forall q, q <> D -> ~ In q (parents_of D) -> ~ under U q -> ~ under D q ->
               lookup (w_fs w') q = lookup (w_fs w) q).
Proof.
  intros H Htr Hnd Hpe HDabs HU HUr HP NUD NUP NDP HDnone Hpar.
  pose proof (apart_of_nn _ _ NUD) as AUD.
  pose proof (apart_of_nn _ _ NUP) as AUP.
  pose proof (apart_of_nn _ _ NDP) as ADP.
  assert (HD : D <> []) by (rewrite HDabs; discriminate).
  assert (HDr : D <> root_path) by (apply (lookup_none_neq_root (w_fs w)); exact HDnone).
  (* the ancestors of D *)
  destruct (create_parents_spec o w D restD H Htr HDabs Hpar Hnd)
    as [w1 [E1 [T1 [F1 [N1 [I1 [O1 [P1 [L1 Hnd1]]]]]]]]].
  assert (C1 : w_clock w1 = w_clock w).
  {     unfold create_parents, when_ok in E1.
    rewrite (bind_some _ _ _ _ _ _ (is_ok_eq o w)), Htr in E1.
    clear - E1 H. revert w w1 E1. generalize (parents_of D). intros ds.
    induction ds as [|d ds IH]; intros w w1 E1.
    - cbn in E1. injection E1 as <-. reflexivity.
    - cbn [mkdir_all] in E1. rewrite (bind_some _ _ _ _ _ _ (k_mkdir_benign o w d H)) in E1.
      destruct (fst (fs_mkdir d (w_fs w))) as [e|].
      + destruct e; try (cbn in E1; injection E1 as <-; reflexivity).
        apply IH in E1. exact E1.
      + apply IH in E1. exact E1. }
  assert (Hpe1 : parents_exist (w_fs w1)).
  { intros p Hp. destruct (str_in_dec p (parents_of D)) as [Hin|Hnin].
    - destruct (parents_of_chain restD) as [Hch _]. rewrite <- HDabs in Hch.
      destruct (chain_dirname _ _ _ Hch Hin) as [->|Hi]; [apply lookup_root | apply I1; exact Hi].
    - rewrite (O1 p Hnin) in Hp. pose proof (Hpe p Hp) as Hdp.
      rewrite P1; [exact Hdp | congruence]. }
  assert (HD1 : lookup (w_fs w1) D = None).
  { rewrite O1; [exact HDnone | apply parents_of_not_self]. }
  (* mkdir D *)
  set (fW := add_dent D NDir (w_fs w1)).
  destruct (add_state (w_fs w1) D NDir Hnd1 HD1) as [HndW [HmW [HlW HoW]]]. fold fW in HndW, HmW, HlW, HoW.
  destruct (sys_unit_ok o w1 (CMkdir D) (fs_mkdir D) fW H) as [w2 [E2 [F2 T2]]].
  { apply mkdir_ok; assumption. }
  assert (C2 : w_clock w2 = w_clock w1).
  { unfold sys_unit in E2. rewrite sys_benign in E2 by exact H. clock_of E2. }
  assert (HpeW : parents_exist fW).
  { intros p Hp. destruct (str_eqb_spec p D) as [->|Hn].
    - rewrite HoW; [exact L1|]. intros E. rewrite E in L1. rewrite L1 in HD1. discriminate.
    - rewrite (HoW p Hn) in Hp. pose proof (Hpe1 p Hp) as Hdp.
      destruct (str_eqb_spec (dirname p) D) as [->|Hn']; [exact HlW|].
      rewrite (HoW _ Hn'). exact Hdp. }
  (* nothing below D *)
  assert (HbelowD : forall t, lookup fW (D ++ ch_slash :: t) = None).
  { intros t. rewrite HoW; [|apply not_eq_sym; apply app_neq_cons].
    apply (below_nondir (w_fs w1) D Hpe1 HD). rewrite HD1. discriminate. }
  (* open D, fts *)
  destruct (k_open_read_any o w2 D H) as [w3 [E3 [F3 T3]]].
  assert (C3 : w_clock w3 = w_clock w2).
  { unfold k_open_read, k_open_gen in E3. rewrite sys_benign in E3 by exact H. clock_of E3. }
  assert (Hop : fs_open_read D (w_fs w2) = inl (FdDir D)).
  { unfold fs_open_read. rewrite F2, HlW. reflexivity. }
  rewrite Hop in E3.
  destruct (k_fts_benign o w3 rv U H) as [w4 [E4 [F4 T4]]].
  assert (C4 : w_clock w4 = w_clock w3).
  { unfold k_fts in E4. rewrite sys_benign in E4 by exact H. clock_of E4. }
  assert (Fw4 : w_fs w4 = fW) by congruence.
  assert (Tw4 : w_tr w4 = w_tr w) by congruence.
  (* the loop, at file-system level *)
  assert (Hloop : exists fb,
            psteps U D P (fs_walk rv fW U) fW = Some fb /\ Post U D P fW fW fb []).
  { assert (Hpre : Pre U D P fW fW []).
    { split; [exact HndW|]. split.
      - intros x [t ->]. split; [reflexivity | apply HbelowD].
      - split; [intros _; rewrite app_nil_r; exact HlW | intros x _; reflexivity]. }
    unfold fs_walk. destruct (lookup fW U) as [[| |]|] eqn:ElU.
    - pose proof (walk_all U D P rv fW HU HUr HD HDr HP AUD AUP ADP HndW HpeW
                    (S (length (fs_dents fW))) [] fW) as Hw.
      rewrite app_nil_r in Hw. apply Hw; [left; reflexivity | | exact Hpre].
      pose proof (desc_bound fW U). lia.
    - exists fW. split; [reflexivity|]. split; [exact HndW|]. split; [apply same_meta_refl|]. split.
      + intros x Hx. unfold tgt.
        rewrite (U_below U D P fW HU HUr AUD AUP HpeW []); [| rewrite app_nil_r, ElU; discriminate | exact Hx].
        destruct Hx as [t ->]. cbn [app]. rewrite HbelowD. destruct (Ex P fW _); split; reflexivity.
      + intros q _. reflexivity.
    - exists fW. split; [reflexivity|]. split; [exact HndW|]. split; [apply same_meta_refl|]. split.
      + intros x Hx. unfold tgt.
        rewrite (U_below U D P fW HU HUr AUD AUP HpeW []); [| rewrite app_nil_r, ElU; discriminate | exact Hx].
        destruct Hx as [t ->]. cbn [app]. rewrite HbelowD. destruct (Ex P fW _); split; reflexivity.
      + intros q _. reflexivity.
    - exists fW. split; [reflexivity|]. split; [exact HndW|]. split; [apply same_meta_refl|]. split.
      + intros x Hx. unfold tgt.
        rewrite (U_below U D P fW HU HUr AUD AUP HpeW []); [| rewrite app_nil_r, ElU; discriminate | exact Hx].
        destruct Hx as [t ->]. cbn [app]. rewrite HbelowD. destruct (Ex P fW _); split; reflexivity.
      + intros q _. reflexivity. }
  destruct Hloop as [fb [Eloop [Hndb [[Hfb Hnb] [Hinb Hunb]]]]].
  destruct (tree_loop_run U D P o H (fs_walk rv fW U) w4 fb) as [w5 [E5 [F5 T5]]].
  { rewrite Tw4. exact Htr. }
  { rewrite Fw4. exact Eloop. }
  assert (C5 : w_clock w5 = w_clock w4).
  { clear - E5 H. revert w4 w5 E5. generalize (fs_walk rv fW U). intros ents.
    induction ents as [|[p k] ents IH]; intros w4 w5 E5.
    - cbn in E5. injection E5 as <-. reflexivity.
    - rewrite tree_loop_cons in E5. rewrite (bind_some _ _ _ _ _ _ (is_ok_eq o w4)) in E5.
      destruct (tr_ok (w_tr w4)); cbn [negb] in E5; [|injection E5 as <-; reflexivity].
      unfold bind at 1 in E5.
      destruct (entry_prog U D P p k o w4) as [[u|] wx] eqn:Ee; [|discriminate].
      apply IH in E5. rewrite E5. clear - Ee H.
      unfold entry_prog in Ee.
      destruct (k_access_benign o w4 (P ++ ch_slash :: skipn (S (length U)) p) H) as [wa [Ea [Fa Ta]]].
      assert (Ca : w_clock wa = w_clock w4).
      { unfold k_access in Ea. rewrite sys_benign in Ea by exact H. clock_of Ea. }
      assert (Hsu : forall c op r wz, sys_unit c op o wa = (Some r, wz) -> w_clock wz = w_clock wa).
      { intros c op r wz Ez. rewrite sys_unit_benign in Ez by exact H. clock_of Ez. }
      destruct k; rewrite (bind_some _ _ _ _ _ _ Ea) in Ee;
        destruct (fs_exists _ (w_fs w4));
        try (injection Ee as _ <-; exact Ca).
      + unfold k_mkdirat, bind in Ee.
        destruct (sys_unit _ _ o wa) as [[r|] wz] eqn:Ez; [|discriminate].
        apply Hsu in Ez. destruct r; injection Ee as _ <-; cbn; congruence.
      + unfold k_rmdir, bind in Ee.
        destruct (sys_unit _ _ o wa) as [[r|] wz] eqn:Ez; [|discriminate].
        apply Hsu in Ez. destruct r; injection Ee as _ <-; cbn; congruence.
      + unfold k_linkat, bind in Ee.
        destruct (sys_unit _ _ o wa) as [[r|] wz] eqn:Ez; [|discriminate].
        apply Hsu in Ez. destruct r; injection Ee as _ <-; cbn; congruence.
      + unfold k_unlink, bind in Ee.
        destruct (sys_unit _ _ o wa) as [[r|] wz] eqn:Ez; [|discriminate].
        apply Hsu in Ez. destruct r; injection Ee as _ <-; cbn; congruence. }
  destruct (k_close_benign o w5 H) as [w6 [E6 [F6 T6]]].
  assert (C6 : w_clock w6 = w_clock w5).
  { unfold k_close in E6. rewrite sys_unit_benign in E6 by exact H. clock_of E6. }
  exists w6. split.
  { unfold sync_shallow_tree.
    rewrite (bind_some _ _ _ _ _ _ E1).
    rewrite (bind_some _ _ _ _ _ _ (is_ok_eq o w1)). rewrite T1, Htr.
    assert (Emk : (do r <- k_mkdir D;
                   match r with
                   | None => ret_ tt
                   | Some EEXIST => throw_static M_dst_exists
                   | Some e => throw_errno e
                   end) o w1 = (Some tt, w2)).
    { unfold k_mkdir. rewrite (bind_some _ _ _ _ _ _ E2). reflexivity. }
    rewrite (bind_some _ _ _ _ _ _ Emk).
    rewrite (bind_some _ _ _ _ _ _ (is_ok_eq o w2)). rewrite T2, T1, Htr.
    assert (Eop : (do d <- k_open_read D;
                   match d with inr e => throw_errno e;; ret_ false | inl _ => ret_ true end) o w2
                  = (Some true, w3)).
    { rewrite (bind_some _ _ _ _ _ _ E3). reflexivity. }
    rewrite (bind_some _ _ _ _ _ _ Eop).
    rewrite (bind_some _ _ _ _ _ _ (is_ok_eq o w3)). rewrite T3, T2, T1, Htr. cbn [negb].
    rewrite (bind_some _ _ _ _ _ _ E4). rewrite F3, F2.
    rewrite (bind_some _ _ _ _ _ _ E5).
    rewrite (bind_some _ _ _ _ _ _ E6).
    rewrite (bind_some _ _ _ _ _ _ (is_ok_eq o w6)).
    rewrite T6, T5, Tw4, Htr. reflexivity. }
  split; [congruence|]. split; [congruence|].
  rewrite F6, F5. destruct HmW as [HfW HnW].
  split; [congruence|]. split; [congruence|]. split; [exact Hndb|].
  (* from fW back to the initial file system *)
  assert (HtoW : forall X x, apart D X -> sfx x -> lookup fW (X ++ x) = lookup (w_fs w) (X ++ x)).
  { intros X x Ha Hx. rewrite HoW.
    - apply O1. intros Hin. exact (parents_not_sub D X _ x Ha Hx Hin eq_refl).
    - intros E. apply (Ha [] x); [left; reflexivity | exact Hx|]. rewrite app_nil_r. symmetry. exact E. }
  assert (Hsnap : forall r, tgt U P fW (ch_slash :: r) = snap (w_fs w) U P r).
  { intros r. unfold tgt, Ex, snap, fs_exists.
    assert (Hs : sfx (ch_slash :: r)) by (right; eexists; reflexivity).
    rewrite (HtoW P _ ADP Hs), (HtoW U _ (apart_sym _ _ AUD) Hs). reflexivity. }
  assert (Hsub0 : forall r, sub [] (ch_slash :: r)) by (intros r; exists r; reflexivity).
  split.
  { rewrite Hunb; [exact HlW|]. intros x [t ->]. cbn [app]. split.
    - intros E. apply (AUD (ch_slash :: t) []); [right; eexists; reflexivity | left; reflexivity|].
      rewrite app_nil_r. symmetry. exact E.
    - apply app_neq_cons. }
  split.
  { intros d Hd. rewrite Hunb.
    - rewrite HoW; [apply I1; exact Hd|]. intros ->. exact (parents_of_not_self D Hd).
    - intros x [t ->]. cbn [app]. split.
      + apply (parents_not_sub D U); [exact (apart_sym _ _ AUD) | right; eexists; reflexivity | exact Hd].
      + intros ->. apply parents_shorter in Hd. rewrite app_length in Hd. simpl in Hd. lia. }
  split.
  { intros r. destruct (Hinb _ (Hsub0 r)) as [_ B]. rewrite B. apply Hsnap. }
  split.
  { intros r. destruct (Hinb _ (Hsub0 r)) as [A _]. rewrite A. apply Hsnap. }
  intros q HqD Hqp HqU HqDu. rewrite Hunb.
  - rewrite (HoW q HqD). apply O1. exact Hqp.
  - intros x [t ->]. cbn [app]. split.
    + intros ->. apply HqU. exists t. reflexivity.
    + intros ->. apply HqDu. exists t. reflexivity.
Qed.
Print Assumptions sync_shallow_tree_snapshot.

(* ================================================================== *)
(* 6. the statement in words                                           *)
(* ================================================================== *)

(* the file-system part of the conclusion of the theorem *)
Definition snapshot_post (f f' : fs) (U D P : str) : Prop :=
  fs_files f' = fs_files f /\
  fs_next f' = fs_next f /\
  keys_nodup f' /\
  lookup f' D = Some NDir /\
  (forall d, In d (parents_of D) -> lookup f' d = Some NDir) /\
  (forall r, lookup f' (D ++ ch_slash :: r) = snap f U P r) /\
  (forall r, lookup f' (U ++ ch_slash :: r) = snap f U P r) /\
  (forall q, q <> D -> ~ In q (parents_of D) -> ~ under U q -> ~ under D q ->
             lookup f' q = lookup f q).

Section Words.

Variables (f f' : fs) (U D P : str).
Hypothesis HS : snapshot_post f f' U D P.
Hypothesis Hpe : parents_exist f.
Hypothesis HU : U <> [].
Hypothesis HP : P <> [].

(* (1a) an entry the project still has is in the snapshot under the same
   relative path and is THE SAME INODE as the unstable entry (a hard link),
   which stays where it was; the bytes of that inode are untouched *)
Corollary snapshot_hard_link r i :
  lookup f (U ++ ch_slash :: r) = Some (NFile i) ->
  fs_exists (P ++ ch_slash :: r) f = true ->
  lookup f' (D ++ ch_slash :: r) = Some (NFile i) /\
  lookup f' (U ++ ch_slash :: r) = Some (NFile i) /\
  get_file f' i = get_file f i.
Proof.
  intros Hl He. destruct HS as [Hf [_ [_ [_ [_ [HDr [HUr _]]]]]]].
  rewrite HDr, HUr. unfold snap. rewrite He, Hl.
  split; [reflexivity|]. split; [reflexivity|]. unfold get_file. rewrite Hf. reflexivity.
Qed.

(* (1b) the intermediate directories of every snapshot entry exist *)
Corollary snapshot_intermediate_dirs r1 r2 :
  lookup f' (D ++ ch_slash :: r1 ++ ch_slash :: r2) <> None ->
  lookup f' (D ++ ch_slash :: r1) = Some NDir.
Proof.
  destruct HS as [_ [_ [_ [_ [_ [HDr _]]]]]]. rewrite !HDr. unfold snap, fs_exists.
  intros Hn.
  destruct (lookup f (P ++ ch_slash :: r1 ++ ch_slash :: r2)) as [np|] eqn:Ep; [|congruence].
  assert (HPd : lookup f (P ++ ch_slash :: r1) = Some NDir).
  { destruct (lookup f (P ++ ch_slash :: r1)) as [[| |]|] eqn:E; try reflexivity; exfalso;
      change (P ++ ch_slash :: r1 ++ ch_slash :: r2) with (P ++ (ch_slash :: r1) ++ ch_slash :: r2) in Ep;
      rewrite app_assoc in Ep;
      rewrite (below_nondir f (P ++ ch_slash :: r1) Hpe) in Ep;
      try discriminate; try (destruct P; discriminate); rewrite E; discriminate. }
  rewrite HPd.
  destruct (lookup f (U ++ ch_slash :: r1)) as [[| |]|] eqn:E; try reflexivity; exfalso;
    change (U ++ ch_slash :: r1 ++ ch_slash :: r2) with (U ++ (ch_slash :: r1) ++ ch_slash :: r2) in Hn;
    rewrite app_assoc in Hn;
    rewrite (below_nondir f (U ++ ch_slash :: r1) Hpe) in Hn;
    try congruence; try (destruct U; discriminate); rewrite E; discriminate.
Qed.

(* (1c) an entry the project no longer has is not in the snapshot and has
   been pruned from the unstable tree *)
Corollary snapshot_pruned r :
  fs_exists (P ++ ch_slash :: r) f = false ->
  lookup f' (D ++ ch_slash :: r) = None /\ lookup f' (U ++ ch_slash :: r) = None.
Proof.
  intros He. destruct HS as [_ [_ [_ [_ [_ [HDr [HUr _]]]]]]].
  rewrite HDr, HUr. unfold snap. rewrite He. split; reflexivity.
Qed.

(* (2) nothing else is created in the snapshot: every entry of D is an entry
   of the unstable tree (same node) that the project still has *)
Corollary snapshot_only_links r n :
  lookup f' (D ++ ch_slash :: r) = Some n ->
  lookup f (U ++ ch_slash :: r) = Some n /\ fs_exists (P ++ ch_slash :: r) f = true /\
  lookup f' (U ++ ch_slash :: r) = Some n.
Proof.
  destruct HS as [_ [_ [_ [_ [_ [HDr [HUr _]]]]]]]. rewrite HDr, HUr. unfold snap.
  destruct (fs_exists (P ++ ch_slash :: r) f); [auto | discriminate].
Qed.

(* (3) frame: every inode keeps its bytes (the stored versions in particular),
   and a location S that does not nest with D or U (the store, an earlier
   snapshot, the project itself, the queue ...) keeps all its entries *)
Corollary snapshot_contents i : get_file f' i = get_file f i.
Proof. destruct HS as [Hf _]. unfold get_file. rewrite Hf. reflexivity. Qed.

Corollary snapshot_frame S q :
  nn S D -> nn S U -> (q = S \/ under S q) -> ~ In q (parents_of D) ->
  lookup f' q = lookup f q.
Proof.
  intros [N1 [N2 N3]] [M1 [M2 M3]] Hq Hnp.
  destruct HS as [_ [_ [_ [_ [_ [_ [_ Hfr]]]]]]]. apply Hfr; [| exact Hnp | |].
  - destruct Hq as [->|Hq]; [exact N1 | intros ->; auto].
  - destruct Hq as [->|Hq]; [exact M3|]. intros Hu.
    destruct (under_both _ _ _ Hq Hu) as [E|[E|E]]; auto.
  - destruct Hq as [->|Hq]; [exact N3|]. intros Hu.
    destruct (under_both _ _ _ Hq Hu) as [E|[E|E]]; auto.
Qed.

(* an earlier snapshot E (a sibling of D in the project store) is untouched:
   its entries are neither D, nor ancestors of D, nor below D or U *)
Corollary snapshot_earlier_untouched E r :
  nn E D -> nn E U ->
  lookup f' (E ++ ch_slash :: r) = lookup f (E ++ ch_slash :: r).
Proof.
  intros N M. apply (snapshot_frame E); [exact N | exact M | right; exists r; reflexivity|].
  intros Hin. apply parents_of_prefix in Hin. destruct Hin as [x Hx].
  destruct N as [_ [N2 _]]. apply N2. exists (r ++ ch_slash :: x).
  rewrite Hx, <- app_assoc. reflexivity.
Qed.

(* a project whose unstable tree does not exist (for instance because the only
   queued member vanished before it could be stored) still gets a snapshot
   directory: an EMPTY one, and no error *)
Corollary snapshot_of_missing_tree_is_empty :
  lookup f U <> Some NDir ->
  lookup f' D = Some NDir /\ forall r, lookup f' (D ++ ch_slash :: r) = None.
Proof.
  intros Hn. destruct HS as [_ [_ [_ [LD [_ [HDr _]]]]]]. split; [exact LD|].
  intros r. rewrite HDr. unfold snap. rewrite (below_nondir f U Hpe HU Hn).
  destruct (fs_exists (P ++ ch_slash :: r) f); reflexivity.
Qed.

End Words.
Print Assumptions snapshot_of_missing_tree_is_empty.
Print Assumptions snapshot_hard_link.
Print Assumptions snapshot_intermediate_dirs.
Print Assumptions snapshot_pruned.
Print Assumptions snapshot_only_links.
Print Assumptions snapshot_frame.
Print Assumptions snapshot_earlier_untouched.

(* the result is again a well-formed file system *)
Lemma dents_lookup_early f f' : fs_dents f' = fs_dents f -> forall x, lookup f' x = lookup f x.
Proof. intros E x. unfold lookup. rewrite E. reflexivity. Qed.

Lemma last_or_in prev l : last_or prev l = prev \/ In (last_or prev l) l.
Proof.
  revert prev. induction l as [|x l IH]; intros prev; [left; reflexivity|].
  cbn [last_or]. destruct (IH x) as [E|Hin]; [right; left; symmetry; exact E | right; right; exact Hin].
Qed.

Lemma under_dec a p : {under a p} + {~ under a p}.
Proof.
  destruct (Str.under a p) eqn:E; [left; apply underb_spec; exact E|].
  right. intros Hu. apply underb_spec in Hu. congruence.
Qed.

Lemma snapshot_post_parents_exist f f' U D P restD :
  snapshot_post f f' U D P -> parents_exist f ->
  D = ch_slash :: restD -> U <> [] -> P <> [] -> nn U D -> lookup f D = None ->
  parents_exist f'.
Proof.
  intros HS Hpe HDabs HU HP [NUD1 [NUD2 NUD3]] HDn.
  pose proof HS as [FF [FN [ND [LD [LP [SD [SU FR]]]]]]].
  assert (HD : D <> []) by (rewrite HDabs; discriminate).
  intros p Hp.
  destruct (list_eq_dec ascii_dec p D) as [->|HpD].
  { (* D itself *)
    destruct (parents_of_chain restD) as [_ Hlast]. rewrite <- HDabs in Hlast. rewrite Hlast.
    destruct (last_or_in root_path (parents_of D)) as [->|Hin]; [apply lookup_root | apply LP; exact Hin]. }
  destruct (str_in_dec p (parents_of D)) as [Hin|Hnin].
  { destruct (parents_of_chain restD) as [Hch _]. rewrite <- HDabs in Hch.
    destruct (chain_dirname _ _ _ Hch Hin) as [->|Hi]; [apply lookup_root | apply LP; exact Hi]. }
  destruct (under_dec D p) as [[r ->]|HnD].
  { destruct (split_last_slash r) as [Hr|[r1 [r2 [-> Hr2]]]].
    - rewrite (dirname_app_nosl D r HD Hr). exact LD.
    - replace (D ++ ch_slash :: r1 ++ ch_slash :: r2) with ((D ++ ch_slash :: r1) ++ ch_slash :: r2)
        by (rewrite <- app_assoc; reflexivity).
      rewrite dirname_app_nosl; [| destruct D; discriminate | exact Hr2].
      apply (snapshot_intermediate_dirs f f' U D P HS Hpe HU HP r1 r2). exact Hp. }
  destruct (under_dec U p) as [[r ->]|HnU].
  { rewrite SU in Hp. unfold snap in Hp.
    destruct (fs_exists (P ++ ch_slash :: r) f) eqn:Ex; [|congruence].
    assert (HPr : lookup f (P ++ ch_slash :: r) <> None).
    { unfold fs_exists in Ex. destruct (lookup f (P ++ ch_slash :: r)); [discriminate | discriminate]. }
    pose proof (Hpe _ Hp) as HdU. pose proof (Hpe _ HPr) as HdP.
    destruct (split_last_slash r) as [Hr|[r1 [r2 [-> Hr2]]]].
    - rewrite (dirname_app_nosl U r HU Hr) in *.
      rewrite FR; [exact HdU | auto | | | auto].
      + intros Hin. apply parents_of_prefix in Hin. destruct Hin as [x Hx]. apply NUD2. exists x. exact Hx.
      + intros [x Hx]. apply (f_equal (@List.length _)) in Hx. rewrite app_length in Hx. simpl in Hx. lia.
    - replace (U ++ ch_slash :: r1 ++ ch_slash :: r2) with ((U ++ ch_slash :: r1) ++ ch_slash :: r2) in *
        by (rewrite <- app_assoc; reflexivity).
      replace (P ++ ch_slash :: r1 ++ ch_slash :: r2) with ((P ++ ch_slash :: r1) ++ ch_slash :: r2) in *
        by (rewrite <- app_assoc; reflexivity).
      rewrite dirname_app_nosl in *; try exact Hr2; try (destruct U; discriminate); try (destruct P; discriminate).
      rewrite SU. unfold snap, fs_exists. rewrite HdP. exact HdU. }
  (* an untouched path *)
  rewrite (FR p HpD Hnin HnU HnD) in Hp. pose proof (Hpe _ Hp) as Hd.
  set (d := dirname p) in *.
  destruct (list_eq_dec ascii_dec d D) as [E|HdD]; [rewrite E, HDn in Hd; discriminate|].
  destruct (str_in_dec d (parents_of D)) as [Hin|Hnin']; [apply LP; exact Hin|].
  rewrite FR; [exact Hd | exact HdD | exact Hnin' | |].
  - intros [r Er]. apply HnU.
    destruct (dirname_inside p d eq_refl) as [b Eb].
    + rewrite Er. apply app_slash_ne_root. exact HU.
    + rewrite Er. destruct U; discriminate.
    + exists (r ++ ch_slash :: b). rewrite Eb, Er, <- app_assoc. reflexivity.
  - intros [r Er]. rewrite Er in Hd.
    rewrite (below_nondir f D Hpe HD) in Hd; [discriminate | rewrite HDn; discriminate].
Qed.

Print Assumptions snapshot_post_parents_exist.

Lemma parents_exist_del_leaf f p :
  parents_exist f -> keys_nodup f -> p <> root_path -> lookup f p <> Some NDir ->
  parents_exist (del_dent p f).
Proof.
  intros Hpe Hnd Hr Hn x Hx.
  destruct (list_eq_dec ascii_dec x p) as [->|Hxp].
  { rewrite lookup_del_dent_same in Hx by assumption. congruence. }
  rewrite lookup_del_dent_other in Hx by exact Hxp. pose proof (Hpe _ Hx) as Hd.
  rewrite lookup_del_dent_other; [exact Hd|]. intros E. rewrite E in Hd. auto.
Qed.

Lemma parents_exist_same_dents f f' : fs_dents f' = fs_dents f -> parents_exist f -> parents_exist f'.
Proof.
  intros E Hpe x Hx. rewrite !(dents_lookup_early _ _ E) in *. apply Hpe. exact Hx.
Qed.

(* ================================================================== *)
(* 7. the project branch of handle_timeout                             *)
(* ================================================================== *)

From K Require Import LinqSpec LinqProofs QueueProofs JournalProofs.

(* ----- the error trace around a balanced try ... finally ----- *)

Lemma tr_try_ok t : tr_ok t = true -> tr_ok (tr_try t) = true.
Proof. intros H. unfold tr_try. rewrite H. exact H. Qed.

Lemma tr_close_rethrow t tb m :
  tr_ok t = true -> tr_keep (tr_try t) tb -> tr_keep t (tr_finally_rethrow_static m tb).
Proof.
  intros Hok [Hb Heq]. destruct t as [fr pre post]. unfold tr_ok in Hok. cbn [t_frames] in Hok.
  destruct fr as [|x fr]; [|discriminate].
  unfold tr_try, tr_ok in Heq. cbn [t_frames t_pre t_post] in Heq.
  destruct tb as [frb preb postb]. unfold tr_ok in Hb. cbn [t_frames] in Hb.
  destruct frb as [|y frb]; [|discriminate].
  unfold tr_finally_rethrow_static, tr_decrement, tr_keep, tr_ok. cbn [t_frames t_pre t_post].
  destruct postb as [|pb]; cbn [t_frames t_pre t_post andb negb].
  - split; [reflexivity|]. intros H0. cbn [t_post] in H0. subst post.
    specialize (Heq eq_refl). injection Heq as ->. reflexivity.
  - split; [reflexivity|]. intros H0. cbn [t_post] in H0. subst post.
    specialize (Heq eq_refl). discriminate.
Qed.

Lemma tr_close_finally t tb :
  tr_ok t = true -> tr_keep (tr_try t) tb -> tr_keep t (tr_finally tb).
Proof.
  intros Hok [Hb Heq]. destruct t as [fr pre post]. unfold tr_ok in Hok. cbn [t_frames] in Hok.
  destruct fr as [|x fr]; [|discriminate].
  unfold tr_try, tr_ok in Heq. cbn [t_frames t_pre t_post] in Heq.
  destruct tb as [frb preb postb]. unfold tr_ok in Hb. cbn [t_frames] in Hb.
  destruct frb as [|y frb]; [|discriminate].
  unfold tr_finally, tr_decrement, tr_keep, tr_ok. cbn [t_frames t_pre t_post].
  destruct postb as [|pb]; cbn [snd t_frames t_pre t_post].
  - split; [reflexivity|]. intros H0. cbn [t_post] in H0. subst post.
    specialize (Heq eq_refl). injection Heq as ->. reflexivity.
  - split; [reflexivity|]. intros H0. cbn [t_post] in H0. subst post.
    specialize (Heq eq_refl). discriminate.
Qed.

Lemma catch_static_ok m o w :
  tr_ok (w_tr w) = true -> catch_static m o w = (Some false, w).
Proof.
  intros Hok. destruct w as [f n l c t]. cbn [w_tr] in Hok.
  destruct t as [fr pre post]. unfold tr_ok in Hok. cbn [t_frames] in Hok.
  destruct fr as [|x fr]; [|discriminate].
  unfold catch_static, bind, get_tr, set_tr, ret_, tr_catch_static. cbn [w_tr t_post t_frames].
  destruct (Nat.eqb post 0); reflexivity.
Qed.

Lemma rethrow_context_ok s o w :
  tr_ok (w_tr w) = true -> rethrow_context s o w = (Some tt, w).
Proof.
  intros Hok. destruct w as [f n l c t]. cbn [w_tr] in Hok.
  unfold rethrow_context, mod_tr, bind, get_tr, set_tr, tr_rethrow_context. cbn [w_tr].
  rewrite Hok. cbn [negb]. rewrite andb_false_r. reflexivity.
Qed.

Lemma get_timestamp_ok pat o w :
  tr_ok (w_tr w) = true ->
  length (expand_pattern pat (dec (Z.to_N (w_clock w)))) <= 255 ->
  get_timestamp pat o w = (Some (Some (expand_pattern pat (dec (Z.to_N (w_clock w))))), w).
Proof.
  intros Hok Hlen. unfold get_timestamp, is_ok, get_clock, get_tr, bind, ret_.
  cbv beta iota. rewrite Hok.
  assert (Hlt : Nat.ltb name_max (length (expand_pattern pat (dec (Z.to_N (w_clock w))))) = false).
  { apply Nat.ltb_ge. unfold name_max. exact Hlen. }
  rewrite Hlt. reflexivity.
Qed.

(* ----- the head of the queue is ready ----- *)

Lemma get_head_ready o q w p m t rest fuel :
  SyncProofs.benign o -> tr_ok (w_tr w) = true ->
  QRel q (w_fs w) ((p, m, t) :: rest) ->
  (w_clock w - t <? q_deb q)%Z = false ->
  occurs p rest = false ->
  exists w',
    q_get_head fuel q o w = (Some (Some (QReady p m), q), w') /\
    w_fs w' = w_fs w /\ w_clock w' = w_clock w /\ tr_keep (w_tr w) (w_tr w').
Proof.
  intros H Hok HR Eage Hocc.
  pose proof (QRel_head _ _ _ _ _ _ HR) as Hh.
  pose proof (QR_wf _ _ _ HR) as Hw. inversion Hw as [|? ? [Hp Hfit] Hw']; subst.
  unfold qpath in Hp. cbn [fst] in Hp. unfold fits, qpath in Hfit. cbn [fst snd] in Hfit.
  rewrite q_get_head_unfold. unfold bind at 1. rewrite is_ok_eq, Hok. cbn [negb].
  pose proof (QR_size _ _ _ HR) as Hs. cbn [length] in Hs.
  destruct (N.eqb_spec (q_size q) 0) as [E0|_]; [lia|].
  unfold bind at 1.
  rewrite (k_fstatat_link o w (q_dir q) (dec (q_head q)) (encode m p) t H Hh).
  set (w1 := mkW (w_fs w) (S (w_n w)) _ (w_clock w) (w_tr w)).
  unfold bind at 1. unfold get_clock at 1. change (w_clock w1) with (w_clock w).
  rewrite Eage.
  destruct (read_entry_ok q (dec (q_head q)) (encode m p) t o w1 H Hok Hh Hfit)
    as (w2 & E2 & Hf2 & Hc2 & Hok2 & Htr2).
  change (w_fs w1) with (w_fs w) in Hf2. change (w_clock w1) with (w_clock w) in Hc2.
  change (w_tr w1) with (w_tr w) in Htr2.
  unfold bind at 1. rewrite E2.
  unfold bind at 1. rewrite is_ok_eq, Hok2.
  rewrite decode_encode by exact Hp.
  rewrite (QR_bag _ _ _ HR). cbn [count_paths]. unfold qpath at 1. cbn [fst].
  rewrite str_eqb_refl. rewrite occurs_count in Hocc.
  destruct (count_paths p rest) as [|c] eqn:Ec; [|discriminate].
  cbn [Nat.add Nat.ltb Nat.leb]. unfold ret_. exists w2.
  split; [reflexivity|]. split; [exact Hf2|]. split; [exact Hc2|]. split; assumption.
Qed.

(* ----- the journal line of an event ----- *)

Definition journal_after (jo : option journal) (ev : option str) (pid : N) (path : str)
           (clock : Z) (f f' : fs) : Prop :=
  match jo, ev with
  | Some j, Some e =>
      appended (j_ino j)
        (journal_line (expand_pattern (j_pattern j) (dec (Z.to_N clock))) e pid path) f f'
  | _, _ => f' = f
  end.

Definition journal_ts_ok (jo : option journal) (clock : Z) : Prop :=
  match jo with
  | Some j => length (expand_pattern (j_pattern j) (dec (Z.to_N clock))) <= 255
  | None => True
  end.

Lemma journal_after_dents jo ev pid path clock f f' :
  journal_after jo ev pid path clock f f' ->
  fs_dents f' = fs_dents f /\ fs_next f' = fs_next f.
Proof.
  unfold journal_after. destruct jo as [j|]; [destruct ev as [e|]|]; try (intros ->; auto).
  intros [_ [_ [_ [A B]]]]. auto.
Qed.

Lemma dents_lookup f f' : fs_dents f' = fs_dents f -> forall x, lookup f' x = lookup f x.
Proof. intros E x. unfold lookup. rewrite E. reflexivity. Qed.

Lemma record_event_ok o w ev pid path h :
  SyncProofs.benign o -> tr_ok (w_tr w) = true ->
  journal_ts_ok (h_journal h) (w_clock w) ->
  exists w',
    record_event ev pid path h o w = (Some tt, w') /\
    journal_after (h_journal h) ev pid path (w_clock w) (w_fs w) (w_fs w') /\
    tr_keep (w_tr w) (w_tr w') /\ w_clock w' = w_clock w.
Proof.
  intros H Hok Hts. unfold record_event.
  unfold try_. rewrite (bind_some _ _ _ _ _ _ (mod_tr_eq tr_try o w)).
  set (w1 := QueueProofs.upd_tr tr_try w).
  assert (Hok1 : tr_ok (w_tr w1) = true) by (apply tr_try_ok; exact Hok).
  assert (Hnote : exists w2, note ev pid path (h_journal h) o w1 = (Some tt, w2) /\
            journal_after (h_journal h) ev pid path (w_clock w) (w_fs w) (w_fs w2) /\
            w_tr w2 = w_tr w1 /\ w_clock w2 = w_clock w).
  { unfold journal_after, journal_ts_ok in *. destruct (h_journal h) as [j|].
    - destruct ev as [e|].
      + destruct (note_appends_one_line o w1 e pid path j H Hok1 Hts) as (w2 & E & A & T & C).
        exists w2. auto.
      + exists w1. rewrite note_no_event. auto.
    - exists w1. rewrite note_no_journal. auto. }
  destruct Hnote as (w2 & E2 & J2 & T2 & C2).
  rewrite (bind_some _ _ _ _ _ _ E2).
  assert (Hok2 : tr_ok (w_tr w2) = true) by (rewrite T2; exact Hok1).
  assert (Ectx : (match c_journal_path (h_cfg h) with
                  | Some p => rethrow_context p
                  | None => ret_ tt
                  end) o w2 = (Some tt, w2)).
  { destruct (c_journal_path (h_cfg h)); [apply rethrow_context_ok; exact Hok2 | reflexivity]. }
  rewrite (bind_some _ _ _ _ _ _ Ectx).
  unfold finally_rethrow_static. rewrite mod_tr_eq.
  eexists. split; [reflexivity|]. cbn [QueueProofs.upd_tr w_fs w_tr w_clock].
  split; [exact J2|]. split; [|exact C2].
  apply tr_close_rethrow; [exact Hok|]. rewrite T2. apply tr_keep_refl. exact Hok1.
Qed.

(* the queue relation only looks at the queue directory and its numbered names *)
Lemma QRel_frame q f f' ents :
  (forall x, x = q_dir q \/ (exists k, x = join (q_dir q) (dec k)) -> lookup f' x = lookup f x) ->
  QRel q f ents -> QRel q f' ents.
Proof.
  intros Hfr [A B C D0 E F G I]. constructor; try assumption.
  - rewrite Hfr; [exact C | left; reflexivity].
  - intros i p m t Hn. rewrite Hfr; [exact (E i p m t Hn) | right; eexists; reflexivity].
  - intros k Hk. rewrite Hfr; [exact (F k Hk) | right; eexists; reflexivity].
Qed.

(* ----- a collision: the snapshot directory exists already ----- *)

Lemma create_parents_clock o D w r w1 :
  SyncProofs.benign o -> create_parents D o w = (r, w1) -> w_clock w1 = w_clock w.
Proof.
  intros H E. unfold create_parents, when_ok in E.
  rewrite (bind_some _ _ _ _ _ _ (is_ok_eq o w)) in E.
  destruct (tr_ok (w_tr w)); [|cbn in E; injection E as _ <-; reflexivity].
  revert w w1 E. generalize (parents_of D). intros ds.
  induction ds as [|d ds IH]; intros w w1 E.
  - cbn in E. injection E as _ <-. reflexivity.
  - cbn [mkdir_all] in E. rewrite (bind_some _ _ _ _ _ _ (k_mkdir_benign o w d H)) in E.
    destruct (fst (fs_mkdir d (w_fs w))) as [e|].
    + destruct e; try (cbn in E; injection E as _ <-; reflexivity).
      apply IH in E. exact E.
    + apply IH in E. exact E.
Qed.

Lemma last_or_snoc prev l p : last_or prev (l ++ [p]) = p.
Proof. revert prev. induction l as [|x l IH]; intros prev; [reflexivity | apply IH]. Qed.

(* sync_shallow_tree on an existing destination: "destination already exists"
   on the trace, nothing changes in the file system *)
Lemma sync_shallow_tree_collision o w rv U D P restD :
  SyncProofs.benign o -> tr_ok (w_tr w) = true ->
  D = ch_slash :: restD ->
  lookup (w_fs w) D <> None ->
  (forall d, In d (parents_of D) -> lookup (w_fs w) d = Some NDir) ->
  exists w',
    sync_shallow_tree rv D U P o w = (Some tt, w') /\
    w_fs w' = w_fs w /\ w_clock w' = w_clock w /\
    w_tr w' = tr_push (FStatic M_dst_exists) (w_tr w).
Proof.
  intros H Htr HDabs HDex Hall.
  destruct (create_parents_exist o w D H Htr Hall) as [w1 [E1 [F1 T1]]].
  pose proof (create_parents_clock o D w _ _ H E1) as C1.
  assert (Emk : k_mkdir D o w1 =
                (Some (Some EEXIST),
                 mkW (w_fs w1) (S (w_n w1)) ((CMkdir D, RErr EEXIST) :: w_log w1) (w_clock w1) (w_tr w1))).
  { rewrite (k_mkdir_benign o w1 D H). unfold fs_mkdir. rewrite F1.
    destruct (lookup (w_fs w) D); [reflexivity | congruence]. }
  set (w2 := mkW (w_fs w1) (S (w_n w1)) ((CMkdir D, RErr EEXIST) :: w_log w1) (w_clock w1)
                 (tr_push (FStatic M_dst_exists) (w_tr w1))).
  assert (Hbad : tr_ok (w_tr w2) = false) by reflexivity.
  (* the clean-up stops at the parent of D, which is not empty *)
  set (w3 := mkW (w_fs w2) (w_n w2) (w_log w2) (w_clock w2) (tr_try tr_empty)).
  assert (Erm : exists w4, rmdir_up (rev (parents_of D)) o w3 = (Some tt, w4) /\
                           w_fs w4 = w_fs w /\ w_clock w4 = w_clock w).
  { destruct (rev (parents_of D)) as [|p l] eqn:Erev.
    - exists w3. split; [reflexivity|]. split; [exact F1 | exact C1].
    - assert (Hpar : parents_of D = rev l ++ [p]).
      { rewrite <- (rev_involutive (parents_of D)), Erev. reflexivity. }
      assert (Hp : p = dirname D).
      { destruct (parents_of_chain restD) as [_ Hlast]. rewrite <- HDabs in Hlast.
        rewrite Hlast, Hpar. symmetry. apply last_or_snoc. }
      assert (Hpd : lookup (w_fs w) p = Some NDir).
      { apply Hall. rewrite Hpar. apply in_or_app. right. left. reflexivity. }
      assert (Hch : children (w_fs w) p <> []).
      { destruct (children_intro (w_fs w) p D) as [v Hv]; [| symmetry; exact Hp | exact HDex |].
        - rewrite HDabs. intros E. unfold root_path in E. injection E as E.
          rewrite HDabs in HDex. rewrite E in HDex. apply HDex. (* D = "/" impossible below *)
          exfalso. rewrite HDabs, E in Hpar. destruct (rev l); discriminate.
        - intros E. rewrite E in Hv. destruct Hv. }
      cbn [rmdir_up]. rewrite (bind_some _ _ _ _ _ _ (k_rmdir_benign o w3 p H)).
      change (w_fs w3) with (w_fs w1). rewrite F1.
      unfold fs_rmdir. rewrite Hpd. destruct (children (w_fs w) p) as [|c cs] eqn:Ec; [congruence|].
      cbn [fst snd]. eexists. split; [reflexivity|]. split; [reflexivity | exact C1]. }
  destruct Erm as [w4 [E4 [F4 C4]]].
  exists (mkW (w_fs w4) (w_n w4) (w_log w4) (w_clock w4) (w_tr w2)).
  split.
  { unfold sync_shallow_tree.
    rewrite (bind_some _ _ _ _ _ _ E1).
    rewrite (bind_some _ _ _ _ _ _ (is_ok_eq o w1)). rewrite T1, Htr.
    assert (Emk2 : (do r <- k_mkdir D;
                    match r with
                    | None => ret_ tt
                    | Some EEXIST => throw_static M_dst_exists
                    | Some e => throw_errno e
                    end) o w1 = (Some tt, w2)).
    { rewrite (bind_some _ _ _ _ _ _ Emk). reflexivity. }
    rewrite (bind_some _ _ _ _ _ _ Emk2).
    rewrite (bind_some _ _ _ _ _ _ (is_ok_eq o w2)). rewrite Hbad.
    rewrite (bind_some (ret_ false) _ o w2 false w2 eq_refl).
    rewrite (bind_some _ _ _ _ _ _ (is_ok_eq o w2)). rewrite Hbad. cbn [negb].
    rewrite (bind_some (ret_ tt) _ o w2 tt w2 eq_refl).
    unfold clean_up.
    rewrite (bind_some get_tr _ o w2 (w_tr w2) w2 eq_refl).
    rewrite (bind_some (set_tr (tr_try tr_empty)) _ o w2 tt w3 eq_refl).
    assert (Erp : remove_empty_parents D o w3 = (Some tt, w4)).
    { unfold remove_empty_parents, when_ok.
      rewrite (bind_some _ _ _ _ _ _ (is_ok_eq o w3)). exact E4. }
    rewrite (bind_some _ _ _ _ _ _ Erp). reflexivity. }
  cbn [w_fs w_clock w_tr]. split; [exact F4|]. split; [exact C4|].
  unfold w2. cbn [w_tr]. rewrite T1. reflexivity.
Qed.

Lemma catch_dst_exists o w pre :
  w_tr w = mkTr [FStatic M_dst_exists] pre 0 ->
  catch_static M_dst_exists o w =
  (Some true, mkW (w_fs w) (w_n w) (w_log w) (w_clock w) (mkTr [] pre 0)).
Proof.
  intros E. unfold catch_static, bind, get_tr, set_tr, ret_. rewrite E. reflexivity.
Qed.

(* ----- the loop that looks for a free snapshot name ----- *)

(* the i-th candidate: version, version-1, version-2, ... *)
Definition Dsp (sp : store_path) (i : nat) : str := current_path (Nat.iter i increment sp).

Lemma Dsp_succ sp i : Dsp (increment sp) i = Dsp sp (S i).
Proof.
  unfold Dsp. f_equal. induction i as [|i IH]; [reflexivity|].
  change (Nat.iter (S i) increment (increment sp))
    with (increment (Nat.iter i increment (increment sp))).
  rewrite IH. reflexivity.
Qed.

Definition collides (f : fs) (D : str) : Prop :=
  (exists restD, D = ch_slash :: restD) /\ lookup f D <> None /\
  (forall d, In d (parents_of D) -> lookup f d = Some NDir).

Definition fresh_dst (f : fs) (U D P : str) : Prop :=
  (exists restD, D = ch_slash :: restD) /\ nn U D /\ nn D P /\ lookup f D = None /\
  (forall d, In d (parents_of D) -> lookup f d = Some NDir \/ lookup f d = None).

Lemma project_store_loop_ok o rv U P cfg ev :
  SyncProofs.benign o -> U <> [] -> U <> root_path -> P <> [] -> nn U P ->
  forall k fuel sp w,
    k < fuel ->
    tr_ok (w_tr w) = true -> (0 < k -> t_post (w_tr w) = 0) ->
    keys_nodup (w_fs w) -> parents_exist (w_fs w) ->
    (forall i, i < k -> collides (w_fs w) (Dsp sp i)) ->
    fresh_dst (w_fs w) U (Dsp sp k) P ->
    exists w',
      project_store_loop fuel rv sp U P cfg ev o w = (Some ev, w') /\
      snapshot_post (w_fs w) (w_fs w') U (Dsp sp k) P /\
      tr_keep (w_tr w) (w_tr w') /\ w_clock w' = w_clock w.
Proof.
  intros H HU HUr HP NUP. induction k as [|k IH]; intros fuel sp w Hfuel Hok Hpost Hnd Hpe Hcoll Hfresh.
  - (* the name is free *)
    destruct fuel as [|fuel]; [lia|].
    destruct Hfresh as [[restD HD] [NUD [NDP [HDn Hpar]]]]. unfold Dsp in *. cbn [Nat.iter] in *.
    set (w1 := QueueProofs.upd_tr tr_try w).
    assert (Hok1 : tr_ok (w_tr w1) = true) by (apply tr_try_ok; exact Hok).
    destruct (sync_shallow_tree_snapshot o w1 rv U (current_path sp) P restD H Hok1)
      as (w2 & E2 & T2 & C2 & FF2 & FN2 & ND2 & LD2 & LP2 & SD2 & SU2 & FR2); try assumption.
    change (w_fs w1) with (w_fs w) in *.
    assert (Hok2 : tr_ok (w_tr w2) = true) by (rewrite T2; exact Hok1).
    exists (QueueProofs.upd_tr tr_finally w2). split.
    { cbn [project_store_loop].
      rewrite (bind_some _ _ _ _ _ _ (is_ok_eq o w)). rewrite Hok. cbn [negb].
      unfold try_ at 1. rewrite (bind_some _ _ _ _ _ _ (mod_tr_eq tr_try o w)). fold w1.
      rewrite (bind_some _ _ _ _ _ _ E2).
      rewrite (bind_some _ _ _ _ _ _ (catch_static_ok M_dst_exists o w2 Hok2)). cbv beta iota.
      rewrite (bind_some _ _ _ _ _ _ (catch_static_ok M_src_missing o w2 Hok2)). cbv beta iota.
      assert (Einner : (do c2 <- catch_static M_src_denied;
                        if c2 then ret_ (c_ev_forbidden cfg) else ret_ ev) o w2
                       = (Some ev, w2)).
      { rewrite (bind_some _ _ _ _ _ _ (catch_static_ok M_src_denied o w2 Hok2)). reflexivity. }
      rewrite (bind_some _ _ _ _ _ _ Einner).
      unfold finally_. rewrite (bind_some _ _ _ _ _ _ (mod_tr_eq tr_finally o w2)).
      reflexivity. }
    split; [unfold snapshot_post; cbn [QueueProofs.upd_tr w_fs]; auto 10|].
    split; [|exact C2].
    apply tr_close_finally; [exact Hok|]. cbn [QueueProofs.upd_tr w_tr].
    rewrite T2. apply tr_keep_refl. exact Hok1.
  - (* the name is taken: "destination already exists" is caught, next name *)
    destruct fuel as [|fuel]; [lia|].
    destruct (Hcoll 0 ltac:(lia)) as [[restD HD] [HDex HDpar]]. unfold Dsp in HD, HDex, HDpar.
    cbn [Nat.iter] in HD, HDex, HDpar.
    specialize (Hpost ltac:(lia)).
    destruct (w_tr w) as [fr pre post] eqn:Etr. unfold tr_ok in Hok. cbn [t_frames] in Hok.
    destruct fr as [|x fr]; [|discriminate]. cbn [t_post] in Hpost. subst post.
    set (w1 := QueueProofs.upd_tr tr_try w).
    assert (T1 : w_tr w1 = mkTr [] (S pre) 0).
    { unfold w1. cbn [QueueProofs.upd_tr w_tr]. rewrite Etr. reflexivity. }
    assert (Hok1 : tr_ok (w_tr w1) = true) by (rewrite T1; reflexivity).
    destruct (sync_shallow_tree_collision o w1 rv U (current_path sp) P restD H Hok1 HD HDex HDpar)
      as (w2 & E2 & F2 & C2 & T2).
    change (w_fs w1) with (w_fs w) in F2. change (w_clock w1) with (w_clock w) in C2.
    rewrite T1 in T2. unfold tr_push in T2. cbn [t_frames t_pre t_post] in T2.
    set (w3 := mkW (w_fs w2) (w_n w2) (w_log w2) (w_clock w2) (mkTr [] (S pre) 0)).
    set (w4 := QueueProofs.upd_tr tr_finally w3).
    assert (T4 : w_tr w4 = w_tr w) by (rewrite Etr; reflexivity).
    assert (F4 : w_fs w4 = w_fs w) by exact F2.
    destruct (IH fuel (increment sp) w4) as (w5 & E5 & HS5 & K5 & C5).
    { lia. }
    { rewrite T4, Etr. reflexivity. }
    { intros _. rewrite T4, Etr. reflexivity. }
    { rewrite F4. exact Hnd. }
    { rewrite F4. exact Hpe. }
    { intros i Hi. rewrite F4, Dsp_succ. apply Hcoll. lia. }
    { rewrite F4, Dsp_succ. exact Hfresh. }
    rewrite F4, Dsp_succ in HS5. rewrite T4 in K5. rewrite <- Etr.
    exists w5. split.
    { cbn [project_store_loop].
      rewrite (bind_some _ _ _ _ _ _ (is_ok_eq o w)). rewrite Etr. cbn [tr_ok t_frames negb].
      unfold try_ at 1. rewrite (bind_some _ _ _ _ _ _ (mod_tr_eq tr_try o w)). fold w1.
      rewrite (bind_some _ _ _ _ _ _ E2).
      rewrite (bind_some _ _ _ _ _ _ (catch_dst_exists o w2 (S pre) T2)). fold w3.
      unfold finally_ at 1. rewrite (bind_some _ _ _ _ _ _ (mod_tr_eq tr_finally o w3)). fold w4.
      exact E5. }
    split; [exact HS5|]. split; [exact K5|]. rewrite C5. exact C2.
Qed.

Print Assumptions sync_shallow_tree_collision.
Print Assumptions project_store_loop_ok.

(* ----- one turn of the timeout loop on a due project head ----- *)

Section ProjectHead.

Variables (o : oracle) (w : world) (rv : bool) (h : handler).
Variables (path : str) (meta : N) (t : Z) (rest : list qent).
(* the number of snapshot names that are taken already (0: no collision) *)
Variable k : nat.

Let cfg := h_cfg h.
Let q := h_q h.
Let pname := basename path.
Let version := expand_pattern (c_version_pattern cfg) (dec (Z.to_N (w_clock w))).
Let sp0 := create_store_path (c_project_store_root cfg) pname version.
(* the snapshot directory, the unstable tree of the project, the queue entry *)
Let D := Dsp sp0 k.
Let U := c_unstable_root cfg ++ ch_slash :: pname.
Let rel := skipn (Nat.min (length path) (h_cpl h)) path.

Hypothesis Hben : SyncProofs.benign o.
Hypothesis Hok : tr_ok (w_tr w) = true.
Hypothesis Hnd : keys_nodup (w_fs w).
Hypothesis Hpe : parents_exist (w_fs w).
(* the queue: a project entry at the head, old enough, not queued again *)
Hypothesis HR : QRel q (w_fs w) ((path, meta, t) :: rest).
Hypothesis Hdue : (w_clock w - t <? q_deb q)%Z = false.
Hypothesis Hocc : occurs path rest = false.
Hypothesis Hproj : N.odd meta = true.
Hypothesis Hoff : (N.of_nat (length path) <? N.shiftr meta 2)%N = false.
Hypothesis Hlast : is_slash (last path ch_dot) = false.
(* the version string *)
Hypothesis Hvlen : length version <= 255.
Hypothesis Hvsl : existsb is_slash version = false.
Hypothesis Hjts : journal_ts_ok (h_journal h) (w_clock w).
(* the locations: the snapshot is new (no collision) and nothing nests *)
Hypothesis HDabs : exists restD, D = ch_slash :: restD.
Hypothesis HUr : U <> root_path.
Hypothesis NUD : nn U D.
Hypothesis NUP : nn U path.
Hypothesis NDP : nn D path.
Hypothesis NQD : nn (q_dir q) D.
Hypothesis NQU : nn (q_dir q) U.
Hypothesis HDnone : lookup (w_fs w) D = None.
Hypothesis Hpar : forall d, In d (parents_of D) ->
  lookup (w_fs w) d = Some NDir \/ lookup (w_fs w) d = None.
(* the k names before it are taken; the loop has fuel for them; catching
   "destination already exists" needs a trace with no failed try pending *)
Hypothesis Hcoll : forall i, i < k -> collides (w_fs w) (Dsp sp0 i).
Hypothesis Hfuelk : k < S (S (dir_entry_count (w_fs w) (dirname (current_path sp0)))).
Hypothesis Hpost : 0 < k -> t_post (w_tr w) = 0.

Lemma project_head_snapshot_raw fuel :
  exists w' f1 f2,
    handle_timeout_loop (S fuel) rv h o w =
      handle_timeout_loop fuel rv (set_q (popped path q) h) o w' /\
    (* exactly one new snapshot directory, as in sync_shallow_tree_snapshot *)
    snapshot_post (w_fs w) f1 U D path /\
    (* then the event is written to the journal (if there is one) *)
    journal_after (h_journal h) (c_ev_stored cfg) 0%N rel (w_clock w) f1 f2 /\
    (* then the head is popped *)
    w_fs w' = del_dent (head_name q) f2 /\
    QRel (popped path q) (w_fs w') rest /\
    keys_nodup (w_fs w') /\ parents_exist (w_fs w') /\
    tr_keep (w_tr w) (w_tr w') /\ w_clock w' = w_clock w.
Proof.
  destruct HDabs as [restD HDeq].
  pose proof (QR_wf _ _ _ HR) as Hwf. inversion Hwf as [|? ? [Hnorm _] _]; subst.
  unfold qpath in Hnorm. cbn [fst] in Hnorm.
  assert (Hpre : prefixb [ch_slash] path = true).
  { destruct Hnorm as [r [-> _]]. reflexivity. }
  assert (HPne : path <> []) by (destruct Hnorm as [r [-> _]]; discriminate).
  assert (HUne : U <> []) by (unfold U; destruct (c_unstable_root cfg); discriminate).
  (* try; get the head *)
  set (w0 := QueueProofs.upd_tr tr_try w).
  assert (Hok0 : tr_ok (w_tr w0) = true) by (apply tr_try_ok; exact Hok).
  destruct (get_head_ready o q w0 path meta t rest (S (N.to_nat (q_size q))) Hben Hok0 HR Hdue Hocc)
    as (w1 & E1 & F1 & C1 & K1).
  change (w_fs w0) with (w_fs w) in F1. change (w_clock w0) with (w_clock w) in C1.
  change (w_tr w0) with (tr_try (w_tr w)) in K1.
  set (w2 := QueueProofs.upd_tr (tr_finally_rethrow_static M_linq_cannot_get_head) w1).
  assert (K2 : tr_keep (w_tr w) (w_tr w2)) by (apply tr_close_rethrow; assumption).
  pose proof (tr_keep_ok _ _ K2) as Hok2.
  assert (F2 : w_fs w2 = w_fs w) by exact F1.
  assert (C2 : w_clock w2 = w_clock w) by exact C1.
  (* the version *)
  assert (Ets : get_timestamp (c_version_pattern cfg) o w2 = (Some (Some version), w2)).
  { unfold version. rewrite <- C2. apply get_timestamp_ok; [exact Hok2|].
    rewrite C2. exact Hvlen. }
  (* the snapshot *)
  assert (Hpost2 : 0 < k -> t_post (w_tr w2) = 0).
  { intros Hk. destruct K2 as [_ K2e]. rewrite (K2e (Hpost Hk)). exact (Hpost Hk). }
  destruct (project_store_loop_ok o rv U path cfg (c_ev_stored cfg) Hben HUne HUr HPne NUP
              k (S (S (dir_entry_count (w_fs w2) (dirname (current_path sp0))))) sp0 w2)
    as (w5 & E5 & HS & K5 & C5).
  { rewrite F2. exact Hfuelk. }
  { exact Hok2. }
  { exact Hpost2. }
  { rewrite F2. exact Hnd. }
  { rewrite F2. exact Hpe. }
  { rewrite F2. exact Hcoll. }
  { rewrite F2. unfold fresh_dst. fold D. split; [exists restD; exact HDeq|]. auto. }
  rewrite F2 in HS. fold D in HS.
  pose proof (tr_keep_ok _ _ K5) as Hok5.
  assert (ND4 : keys_nodup (w_fs w5)) by (destruct HS as [_ [_ [X _]]]; exact X).
  (* the journal *)
  destruct (record_event_ok o w5 (c_ev_stored cfg) 0%N rel h Hben Hok5) as (w6 & E6 & J6 & K6 & C6).
  { rewrite C5, C2. exact Hjts. }
  rewrite C5, C2 in J6, C6.
  destruct (journal_after_dents _ _ _ _ _ _ _ J6) as [DE6 NX6].
  pose proof (dents_lookup _ _ DE6) as LK6.
  (* the pop *)
  assert (ND6 : keys_nodup (w_fs w6)) by (unfold keys_nodup; rewrite DE6; exact ND4).
  assert (HR6 : QRel q (w_fs w6) ((path, meta, t) :: rest)).
  { apply (QRel_frame q (w_fs w)); [|exact HR]. intros x Hx. rewrite LK6.
    apply (snapshot_frame (w_fs w) (w_fs w5) U D path HS (q_dir q)); [exact NQD | exact NQU | |].
    - destruct Hx as [->|[kk ->]]; [left; reflexivity|]. right.
      rewrite (join_nonroot _ _ (QR_nroot _ _ _ HR)). eexists. reflexivity.
    - intros Hin. apply parents_of_prefix in Hin. destruct Hin as [r Er].
      destruct NQD as [_ [N2 _]]. apply N2.
      destruct Hx as [->|[kk ->]]; [exists r; exact Er|].
      rewrite (join_nonroot _ _ (QR_nroot _ _ _ HR)) in Er.
      exists (dec kk ++ ch_slash :: r). rewrite Er, <- app_assoc. reflexivity. }
  pose proof (tr_keep_ok _ _ K6) as Hok6.
  destruct (pop_ok q path meta t rest o w6 Hben Hok6 ND6 HR6)
    as (w7 & E7 & HR7 & F7 & ND7 & K7 & C7 & _).
  exists w7, (w_fs w5), (w_fs w6).
  split.
  { cbn [handle_timeout_loop].
    rewrite (bind_some _ _ _ _ _ _ (is_ok_eq o w)). rewrite Hok. cbn [negb].
    unfold try_ at 1. rewrite (bind_some _ _ _ _ _ _ (mod_tr_eq tr_try o w)). fold w0.
    fold q. rewrite (bind_some _ _ _ _ _ _ E1).
    unfold finally_rethrow_static at 1.
    rewrite (bind_some _ _ _ _ _ _ (mod_tr_eq _ o w1)). fold w2.
    cbv beta iota.
    rewrite (bind_some _ _ _ _ _ _ (is_ok_eq o w2)). rewrite Hok2.
    cbn [set_q h_cfg h_q h_cpl h_journal]. fold cfg.
    rewrite (bind_some _ _ _ _ _ _ Ets).
    rewrite (bind_some _ _ _ _ _ _ (is_ok_eq o w2)). rewrite Hok2.
    rewrite Hvsl.
    rewrite (bind_some (ret_ tt) _ o w2 tt w2 eq_refl).
    rewrite (bind_some _ _ _ _ _ _ (is_ok_eq o w2)). rewrite Hok2.
    rewrite Hpre, Hlast, Hoff, Hproj. cbn [negb orb andb]. rewrite andb_false_r.
    rewrite (bind_some get_fs _ o w2 (w_fs w2) w2 eq_refl).
    fold pname. fold version. fold sp0. fold U.
    rewrite (bind_some _ _ _ _ _ _ E5).
    change (record_event (c_ev_stored cfg) 0 (skipn (Nat.min (length path) (h_cpl h)) path) (set_q q h))
      with (record_event (c_ev_stored cfg) 0 rel h).
    rewrite (bind_some _ _ _ _ _ _ E6).
    rewrite (bind_some _ _ _ _ _ _ E7). reflexivity. }
  split; [exact HS|]. split; [exact J6|]. split; [exact F7|]. split; [exact HR7|].
  split; [exact ND7|].
  split.
  { rewrite F7. apply parents_exist_del_leaf.
    - apply (parents_exist_same_dents (w_fs w5)); [exact DE6|].
      exact (snapshot_post_parents_exist _ _ _ _ _ restD HS Hpe HDeq HUne HPne NUD HDnone).
    - exact ND6.
    - apply join_dec_nonroot. exact (QR_nroot _ _ _ HR).
    - unfold head_name. rewrite (QRel_head _ _ _ _ _ _ HR6). discriminate. }
  split; [|congruence].
  apply (tr_keep_trans _ (w_tr w2)); [exact K2|].
  apply (tr_keep_trans _ (w_tr w5)); [exact K5|].
  apply (tr_keep_trans _ (w_tr w6)); [exact K6 | exact K7].
Qed.

(* when the project entry is the only one in the queue, handle_timeout as a
   whole takes exactly this one snapshot, pops the entry and asks to be woken
   when something is pushed (pause -1) *)
Lemma get_head_empty q0 w0 fuel :
  tr_ok (w_tr w0) = true -> QRel q0 (w_fs w0) [] ->
  q_get_head fuel q0 o w0 = (Some (Some (QPause (-1)), q0), w0).
Proof.
  intros Hok0 HR0. rewrite q_get_head_unfold. unfold bind at 1. rewrite is_ok_eq, Hok0. cbn [negb].
  rewrite (QR_size _ _ _ HR0). cbn [length]. change (N.of_nat 0) with 0%N. rewrite N.eqb_refl.
  reflexivity.
Qed.

Lemma handle_timeout_project_single_raw :
  rest = [] ->
  exists w' f1 f2,
    handle_timeout rv h o w = (Some (TPause (-1), set_q (popped path q) h), w') /\
    snapshot_post (w_fs w) f1 U D path /\
    journal_after (h_journal h) (c_ev_stored cfg) 0%N rel (w_clock w) f1 f2 /\
    w_fs w' = del_dent (head_name q) f2 /\
    QRel (popped path q) (w_fs w') [] /\
    keys_nodup (w_fs w') /\ parents_exist (w_fs w') /\
    tr_keep (w_tr w) (w_tr w') /\ w_clock w' = w_clock w.
Proof.
  intros Hrest.
  destruct (project_head_snapshot_raw (S (N.to_nat (q_size (h_q h)))))
    as (w1 & f1 & f2 & E1 & HS & HJ & HF & HRq & HN & HPE & HK & HC).
  rewrite Hrest in HRq.
  pose proof (tr_keep_ok _ _ HK) as Hok1.
  set (w2 := QueueProofs.upd_tr tr_try w1).
  assert (Hok2 : tr_ok (w_tr w2) = true) by (apply tr_try_ok; exact Hok1).
  set (w3 := QueueProofs.upd_tr (tr_finally_rethrow_static M_linq_cannot_get_head) w2).
  assert (K3 : tr_keep (w_tr w1) (w_tr w3)).
  { apply tr_close_rethrow; [exact Hok1|]. apply tr_keep_refl. exact Hok2. }
  pose proof (tr_keep_ok _ _ K3) as Hok3.
  exists w3, f1, f2. split.
  { assert (Eloop : handle_timeout_loop (S (S (N.to_nat (q_size (h_q h))))) rv h o w =
                    (Some (TPause (-1), set_q (popped path q) h), w3)).
    { rewrite E1. cbn [handle_timeout_loop].
      rewrite (bind_some _ _ _ _ _ _ (is_ok_eq o w1)). rewrite Hok1. cbn [negb].
      unfold try_ at 1. rewrite (bind_some _ _ _ _ _ _ (mod_tr_eq tr_try o w1)). fold w2.
      cbn [set_q h_q].
      rewrite (bind_some _ _ _ _ _ _ (get_head_empty (popped path q) w2 _ Hok2 HRq)).
      unfold finally_rethrow_static at 1.
      rewrite (bind_some _ _ _ _ _ _ (mod_tr_eq _ o w2)). fold w3.
      cbv beta iota.
      rewrite (bind_some _ _ _ _ _ _ (is_ok_eq o w3)). rewrite Hok3. reflexivity. }
    unfold handle_timeout. rewrite (bind_some _ _ _ _ _ _ Eloop).
    rewrite (bind_some _ _ _ _ _ _ (is_ok_eq o w3)). rewrite Hok3. reflexivity. }
  split; [exact HS|]. split; [exact HJ|]. split; [exact HF|]. split; [exact HRq|].
  split; [exact HN|]. split; [exact HPE|]. split; [exact (tr_keep_trans _ _ _ HK K3) | exact HC].
Qed.

End ProjectHead.

(* ----- the same two theorems with the names spelled out ----- *)

(* the version string of a snapshot taken at time [clock]; the k-th candidate
   for the snapshot directory: project_store_root/name/version(.ext) for k = 0,
   .../version-k(.ext) after k collisions; the unstable tree unstable_root/name
   of the project; the path written to the journal *)
Definition version_of (h : handler) (clock : Z) : str :=
  expand_pattern (c_version_pattern (h_cfg h)) (dec (Z.to_N clock)).
Definition snap_dir (h : handler) (path : str) (clock : Z) (k : nat) : str :=
  Dsp (create_store_path (c_project_store_root (h_cfg h)) (basename path) (version_of h clock)) k.
Definition unstable_of (h : handler) (path : str) : str :=
  c_unstable_root (h_cfg h) ++ ch_slash :: basename path.
Definition rel_of (h : handler) (path : str) : str :=
  skipn (Nat.min (length path) (h_cpl h)) path.

(* "the head of the queue is a due project entry; the first k names for its
   snapshot are taken, the next one is free"  (k = 0: no collision) *)
Record project_head_due (o : oracle) (w : world) (h : handler)
       (path : str) (meta : N) (t : Z) (rest : list qent) (k : nat) : Prop := {
  phd_benign : SyncProofs.benign o;
  phd_ok : tr_ok (w_tr w) = true;
  phd_nodup : keys_nodup (w_fs w);
  phd_parents : parents_exist (w_fs w);
  (* the queue: this entry first, old enough, not queued again behind *)
  phd_queue : QRel (h_q h) (w_fs w) ((path, meta, t) :: rest);
  phd_due : (w_clock w - t <? q_deb (h_q h))%Z = false;
  phd_once : occurs path rest = false;
  (* a project entry (bit 0), well formed *)
  phd_project : N.odd meta = true;
  phd_offset : (N.of_nat (length path) <? N.shiftr meta 2)%N = false;
  phd_last : is_slash (last path ch_dot) = false;
  (* the version and journal time stamps fit and the version is one name *)
  phd_vlen : length (version_of h (w_clock w)) <= 255;
  phd_vslash : existsb is_slash (version_of h (w_clock w)) = false;
  phd_jts : journal_ts_ok (h_journal h) (w_clock w);
  (* the locations do not nest; the k-th snapshot name is new *)
  phd_abs : exists restD, snap_dir h path (w_clock w) k = ch_slash :: restD;
  phd_unroot : unstable_of h path <> root_path;
  phd_UD : nn (unstable_of h path) (snap_dir h path (w_clock w) k);
  phd_UP : nn (unstable_of h path) path;
  phd_DP : nn (snap_dir h path (w_clock w) k) path;
  phd_QD : nn (q_dir (h_q h)) (snap_dir h path (w_clock w) k);
  phd_QU : nn (q_dir (h_q h)) (unstable_of h path);
  phd_fresh : lookup (w_fs w) (snap_dir h path (w_clock w) k) = None;
  phd_chain : forall d, In d (parents_of (snap_dir h path (w_clock w) k)) ->
      lookup (w_fs w) d = Some NDir \/ lookup (w_fs w) d = None;
  (* the earlier names are taken; the search loop has fuel for them; no failed
     try is pending on the trace (needed to catch "destination exists") *)
  phd_taken : forall i, i < k -> collides (w_fs w) (snap_dir h path (w_clock w) i);
  phd_fuel : k < S (S (dir_entry_count (w_fs w) (dirname (snap_dir h path (w_clock w) 0))));
  phd_post : 0 < k -> t_post (w_tr w) = 0
}.

(* one turn of the timeout loop: exactly one new snapshot directory, the
   journal line, then the head is popped; the loop goes on with the rest *)
Theorem project_head_snapshot o w rv h path meta t rest k fuel :
  project_head_due o w h path meta t rest k ->
  exists w' f1 f2,
    handle_timeout_loop (S fuel) rv h o w =
      handle_timeout_loop fuel rv (set_q (popped path (h_q h)) h) o w' /\
    snapshot_post (w_fs w) f1 (unstable_of h path) (snap_dir h path (w_clock w) k) path /\
    journal_after (h_journal h) (c_ev_stored (h_cfg h)) 0%N (rel_of h path) (w_clock w) f1 f2 /\
    w_fs w' = del_dent (head_name (h_q h)) f2 /\
    QRel (popped path (h_q h)) (w_fs w') rest /\
    keys_nodup (w_fs w') /\ parents_exist (w_fs w') /\
    tr_keep (w_tr w) (w_tr w') /\ w_clock w' = w_clock w.
Proof.
  intros [H1 H2 H3 H4 H5 H6 H7 H8 H9 H10 H11 H12 H13 H14 H15 H16 H17 H18 H19 H20 H21 H22 H23 H24 H25].
  exact (project_head_snapshot_raw o w rv h path meta t rest k H1 H2 H3 H4 H5 H6 H7 H8 H9 H10
           H11 H12 H13 H14 H15 H16 H17 H18 H19 H20 H21 H22 H23 H24 H25 fuel).
Qed.

(* the whole of handle_timeout when the project entry is alone in the queue *)
Theorem handle_timeout_project_single o w rv h path meta t k :
  project_head_due o w h path meta t [] k ->
  exists w' f1 f2,
    handle_timeout rv h o w = (Some (TPause (-1), set_q (popped path (h_q h)) h), w') /\
    snapshot_post (w_fs w) f1 (unstable_of h path) (snap_dir h path (w_clock w) k) path /\
    journal_after (h_journal h) (c_ev_stored (h_cfg h)) 0%N (rel_of h path) (w_clock w) f1 f2 /\
    w_fs w' = del_dent (head_name (h_q h)) f2 /\
    QRel (popped path (h_q h)) (w_fs w') [] /\
    keys_nodup (w_fs w') /\ parents_exist (w_fs w') /\
    tr_keep (w_tr w) (w_tr w') /\ w_clock w' = w_clock w.
Proof.
  intros [H1 H2 H3 H4 H5 H6 H7 H8 H9 H10 H11 H12 H13 H14 H15 H16 H17 H18 H19 H20 H21 H22 H23 H24 H25].
  exact (handle_timeout_project_single_raw o w rv h path meta t [] k H1 H2 H3 H4 H5 H6 H7 H8 H9 H10
           H11 H12 H13 H14 H15 H16 H17 H18 H19 H20 H21 H22 H23 H24 H25 eq_refl).
Qed.

Print Assumptions project_head_snapshot.
Print Assumptions handle_timeout_project_single.

(* ================================================================== *)
(* 8. the hypotheses are satisfiable: a concrete project               *)
(* ================================================================== *)

(* boolean checkers for the side conditions *)
Fixpoint nodupb (l : list str) : bool :=
  match l with
  | [] => true
  | x :: l' => negb (existsb (str_eqb x) l') && nodupb l'
  end.

Lemma nodupb_sound l : nodupb l = true -> NoDup l.
Proof.
  induction l as [|x l IH]; intros Hb; [constructor|].
  cbn [nodupb] in Hb. apply andb_true_iff in Hb. destruct Hb as [Hx Hl].
  constructor; [|apply IH; exact Hl].
  intros Hin. apply negb_true_iff in Hx.
  assert (Ht : existsb (str_eqb x) l = true).
  { apply existsb_exists. exists x. split; [exact Hin | apply str_eqb_refl]. }
  congruence.
Qed.

Lemma keys_nodup_check f : nodupb (map fst (fs_dents f)) = true -> keys_nodup f.
Proof. apply nodupb_sound. Qed.

Definition nnb (a b : str) : bool :=
  negb (str_eqb a b) && negb (Str.under a b) && negb (Str.under b a).

Lemma nnb_sound a b : nnb a b = true -> nn a b.
Proof.
  unfold nnb. intros Hb. apply andb_true_iff in Hb. destruct Hb as [Hb H3].
  apply andb_true_iff in Hb. destruct Hb as [H1 H2].
  apply negb_true_iff in H1, H2, H3. split; [apply str_eqb_neq; exact H1|].
  split; intros Hu; apply underb_spec in Hu; congruence.
Qed.

(* no entry of f lies below d *)
Lemma nothing_under d f :
  d <> root_path -> d <> [] ->
  forallb (fun e => negb (Str.under d (fst e))) (fs_dents f) = true ->
  forall n, lookup f (join d n) = None.
Proof.
  intros Hd Hne Hall n. destruct (lookup f (join d n)) as [v|] eqn:E; [|reflexivity]. exfalso.
  assert (Hr : join d n <> root_path).
  { rewrite (join_ne d n Hd). apply app_slash_ne_root. exact Hne. }
  rewrite (lookup_nonroot _ _ Hr) in E. apply alookup_in in E.
  rewrite forallb_forall in Hall. specialize (Hall _ E). cbn [fst] in Hall.
  apply negb_true_iff in Hall.
  assert (Hu : Str.under d (join d n) = true).
  { apply underb_spec. exists n. apply join_ne. exact Hd. }
  congruence.
Qed.

From Coq Require Import String.

Module SnapshotExample.

  Definition lit (x : string) : str := list_ascii_of_string x.

  (* The project /w/proj has a.txt and src/b.c.  Its unstable tree /u/proj has
     hard links to the stored versions of a.txt (inode 1), src/b.c (inode 2),
     src/gone.c (inode 3: deleted from the project since) and old/x.c (inode 6:
     the whole directory old/ was deleted from the project).  /ps/proj/90 is an
     earlier snapshot holding the older version of a.txt (inode 7); /j is the
     journal (inode 8); /q the (still empty) queue directory. *)
  Definition fsB : fs :=
    mkFs [ (lit "/w", NDir); (lit "/w/proj", NDir);
           (lit "/w/proj/a.txt", NFile 4);
           (lit "/w/proj/src", NDir); (lit "/w/proj/src/b.c", NFile 5);
           (lit "/s", NDir);
           (lit "/s/a.txt", NDir); (lit "/s/a.txt/90", NFile 7); (lit "/s/a.txt/95", NFile 1);
           (lit "/s/src", NDir);
           (lit "/s/src/b.c", NDir); (lit "/s/src/b.c/96", NFile 2);
           (lit "/s/src/gone.c", NDir); (lit "/s/src/gone.c/97", NFile 3);
           (lit "/s/old", NDir); (lit "/s/old/x.c", NDir); (lit "/s/old/x.c/80", NFile 6);
           (lit "/u", NDir); (lit "/u/proj", NDir);
           (lit "/u/proj/a.txt", NFile 1);
           (lit "/u/proj/src", NDir); (lit "/u/proj/src/b.c", NFile 2);
           (lit "/u/proj/src/gone.c", NFile 3);
           (lit "/u/proj/old", NDir); (lit "/u/proj/old/x.c", NFile 6);
           (lit "/ps", NDir); (lit "/ps/proj", NDir); (lit "/ps/proj/90", NDir);
           (lit "/ps/proj/90/a.txt", NFile 7);
           (lit "/j", NFile 8);
           (lit "/q", NDir) ]
         [ (1, mkFile (lit "a-95") true); (2, mkFile (lit "b-96") true);
           (3, mkFile (lit "gone-97") true); (4, mkFile (lit "a-95") true);
           (5, mkFile (lit "b-96") true); (6, mkFile (lit "x-80") true);
           (7, mkFile (lit "a-90") true); (8, mkFile (lit "") true) ]
         9.

  Definition wB : world := mkW fsB 0 [] 100%Z tr_empty.

  Definition Un : str := lit "/u/proj".
  Definition Pn : str := lit "/w/proj".
  (* a destination none of whose ancestors exists *)
  Definition Dn : str := lit "/new/deep/snap".

  Lemma no_faults_benign : SyncProofs.benign no_faults.
  Proof. intros i. left. reflexivity. Qed.

  Example wf_holds : keys_nodup fsB /\ parents_exist fsB.
  Proof.
    split; [apply keys_nodup_check; vm_compute; reflexivity|].
    apply parents_exist_b_sound. vm_compute. reflexivity.
  Qed.

  (* the hypotheses of sync_shallow_tree_snapshot hold *)
  Example tree_hyps :
    tr_ok (w_tr wB) = true /\
    Dn = ch_slash :: lit "new/deep/snap" /\ Un <> [] /\ Un <> root_path /\ Pn <> [] /\
    nn Un Dn /\ nn Un Pn /\ nn Dn Pn /\
    lookup (w_fs wB) Dn = None /\
    (forall d, In d (parents_of Dn) ->
               lookup (w_fs wB) d = Some NDir \/ lookup (w_fs wB) d = None).
  Proof.
    split; [reflexivity|]. split; [reflexivity|]. split; [discriminate|].
    split; [discriminate|]. split; [discriminate|].
    split; [apply nnb_sound; vm_compute; reflexivity|].
    split; [apply nnb_sound; vm_compute; reflexivity|].
    split; [apply nnb_sound; vm_compute; reflexivity|].
    split; [vm_compute; reflexivity|].
    intros d Hin. vm_compute in Hin. destruct Hin as [<-|[<-|[]]]; vm_compute; auto.
  Qed.

  (* what a run is checked for: no error; files at depth 1 and 2 are hard
     links (same inode) to the unstable entries, which stay; the directory in
     between is created; the file deleted from the project is neither in the
     snapshot nor in the unstable tree any more, nor is the deleted directory;
     the stored versions, the earlier snapshot and all bytes are as before *)
  Definition good_run (D : str) (r : option unit) (w' : world) : Prop :=
    r = Some tt /\ w_tr w' = tr_empty /\
    lookup (w_fs w') D = Some NDir /\
    lookup (w_fs w') (D ++ lit "/a.txt") = Some (NFile 1) /\
    lookup (w_fs w') (D ++ lit "/src") = Some NDir /\
    lookup (w_fs w') (D ++ lit "/src/b.c") = Some (NFile 2) /\
    lookup (w_fs w') (D ++ lit "/src/gone.c") = None /\
    lookup (w_fs w') (D ++ lit "/old") = None /\
    lookup (w_fs w') (D ++ lit "/old/x.c") = None /\
    lookup (w_fs w') (lit "/u/proj/a.txt") = Some (NFile 1) /\
    lookup (w_fs w') (lit "/u/proj/src/b.c") = Some (NFile 2) /\
    lookup (w_fs w') (lit "/u/proj/src/gone.c") = None /\
    lookup (w_fs w') (lit "/u/proj/old") = None /\
    lookup (w_fs w') (lit "/u/proj/old/x.c") = None /\
    lookup (w_fs w') (lit "/s/src/gone.c/97") = Some (NFile 3) /\
    lookup (w_fs w') (lit "/s/old/x.c/80") = Some (NFile 6) /\
    lookup (w_fs w') (lit "/ps/proj/90/a.txt") = Some (NFile 7) /\
    lookup (w_fs w') (lit "/w/proj/a.txt") = Some (NFile 4) /\
    fs_files (w_fs w') = fs_files fsB.

  Example run_forward :
    let '(r, w') := sync_shallow_tree false Dn Un Pn no_faults wB in
    good_run Dn r w' /\ List.length (fs_dents (w_fs w')) = 34.
  Proof. vm_compute. repeat split. Qed.

  Example run_reverse :
    let '(r, w') := sync_shallow_tree true Dn Un Pn no_faults wB in
    good_run Dn r w' /\ List.length (fs_dents (w_fs w')) = 34.
  Proof. vm_compute. repeat split. Qed.

  (* the two orders really are different traversals: the sequences of system
     calls differ (forward links a.txt first, reverse handles src/ first) *)
  Example orders_differ :
    calls (snd (sync_shallow_tree false Dn Un Pn no_faults wB)) <>
    calls (snd (sync_shallow_tree true Dn Un Pn no_faults wB)).
  Proof. vm_compute. discriminate. Qed.

  (* the same facts from the theorem, for EVERY benign oracle and both orders *)
  Example tree_by_theorem o rv :
    SyncProofs.benign o ->
    exists w',
      sync_shallow_tree rv Dn Un Pn o wB = (Some tt, w') /\
      w_tr w' = tr_empty /\
      lookup (w_fs w') Dn = Some NDir /\
      lookup (w_fs w') (lit "/new/deep") = Some NDir /\
      lookup (w_fs w') (Dn ++ lit "/a.txt") = Some (NFile 1) /\
      lookup (w_fs w') (Dn ++ lit "/src") = Some NDir /\
      lookup (w_fs w') (Dn ++ lit "/src/b.c") = Some (NFile 2) /\
      lookup (w_fs w') (Dn ++ lit "/src/gone.c") = None /\
      lookup (w_fs w') (lit "/u/proj/src/gone.c") = None /\
      lookup (w_fs w') (lit "/u/proj/old") = None /\
      lookup (w_fs w') (lit "/u/proj/src/b.c") = Some (NFile 2) /\
      lookup (w_fs w') (lit "/ps/proj/90/a.txt") = Some (NFile 7) /\
      (forall i, get_file (w_fs w') i = get_file fsB i).
  Proof.
    intros H. destruct wf_holds as [Hnd Hpe].
    destruct tree_hyps as [Htr [HD [HU [HUr [HP [N1 [N2 [N3 [HDn Hpar]]]]]]]]].
    destruct (sync_shallow_tree_snapshot o wB rv Un Dn Pn _ H Htr Hnd Hpe HD HU HUr HP N1 N2 N3 HDn Hpar)
      as (w' & E & T & C & FF & FN & ND & LD & LP & SD & SU & FR).
    assert (HS : snapshot_post fsB (w_fs w') Un Dn Pn) by (unfold snapshot_post; auto 10).
    exists w'. split; [exact E|]. split; [exact T|]. split; [exact LD|].
    split; [apply LP; vm_compute; auto|].
    split; [exact (SD (lit "a.txt"))|]. split; [exact (SD (lit "src"))|].
    split; [exact (SD (lit "src/b.c"))|]. split; [exact (SD (lit "src/gone.c"))|].
    split; [exact (SU (lit "src/gone.c"))|]. split; [exact (SU (lit "old"))|].
    split; [exact (SU (lit "src/b.c"))|].
    split.
    { apply (snapshot_earlier_untouched fsB (w_fs w') Un Dn Pn HS (lit "/ps/proj/90") (lit "a.txt"));
        apply nnb_sound; vm_compute; reflexivity. }
    intros i. exact (snapshot_contents fsB (w_fs w') Un Dn Pn HS i).
  Qed.

  (* ----- the same project through handle_timeout ----- *)

  Definition cfg0 : config :=
    mkCfg [] (mkRules [] [] [] [] [] []) (lit "/s") (lit "/ps") (lit "/u") (lit "/q")
          (Some (lit "/j")) (lit "/o") (lit "%s") (lit "%s") 0%Z 0 16
          None None None None None None (Some (lit "stored")).

  Definition qE : qmem := mkQ (lit "/q") 0 0 0%Z 16 [].
  (* the project entry /w/proj (flags 1) is queued at time 0 as /q/0 *)
  Definition fs0 : fs := add_dent (next_name qE) (NLink (encode 1 Pn) 0%Z) fsB.
  Definition h0 : handler :=
    mkH cfg0 None 3 (pushed Pn qE) (Some (mkJ 8 (lit "%s"))) [] [].
  Definition w0 : world := mkW fs0 0 [] 100%Z tr_empty.
  (* the snapshot is taken at time 100 *)
  Definition D0 : str := lit "/ps/proj/100".

  Example names : snap_dir h0 Pn 100 0 = D0 /\ unstable_of h0 Pn = Un /\ rel_of h0 Pn = lit "proj" /\
                  head_name (h_q h0) = lit "/q/0".
  Proof. vm_compute. repeat split. Qed.

  Lemma queue_rel : QRel (h_q h0) fs0 [(Pn, 1%N, 0%Z)].
  Proof.
    apply (QRel_push qE fsB [] Pn 1%N 0%Z).
    - apply QRel_empty; [discriminate | reflexivity|].
      intros k. apply nothing_under; [discriminate | discriminate | vm_compute; reflexivity].
    - apply normalb_spec. vm_compute. reflexivity.
    - unfold fits, qpath. cbn [fst snd q_len_guess qE].
      apply QueueExample.fits_small. vm_compute. repeat constructor.
  Qed.

  Example head_due o : SyncProofs.benign o -> project_head_due o w0 h0 Pn 1%N 0%Z [] 0.
  Proof.
    intros H. constructor.
    - exact H.
    - reflexivity.
    - apply keys_nodup_check. vm_compute. reflexivity.
    - apply parents_exist_b_sound. vm_compute. reflexivity.
    - exact queue_rel.
    - vm_compute. reflexivity.
    - reflexivity.
    - reflexivity.
    - vm_compute. reflexivity.
    - vm_compute. reflexivity.
    - vm_compute. repeat constructor.
    - vm_compute. reflexivity.
    - vm_compute. repeat constructor.
    - eexists. vm_compute. reflexivity.
    - vm_compute. discriminate.
    - apply nnb_sound. vm_compute. reflexivity.
    - apply nnb_sound. vm_compute. reflexivity.
    - apply nnb_sound. vm_compute. reflexivity.
    - apply nnb_sound. vm_compute. reflexivity.
    - apply nnb_sound. vm_compute. reflexivity.
    - vm_compute. reflexivity.
    - intros d Hin. vm_compute in Hin. destruct Hin as [<-|[<-|[]]]; vm_compute; auto.
    - intros i Hi. inversion Hi.
    - vm_compute. repeat constructor.
    - intros _. reflexivity.
  Qed.

  (* fault-free runs, both orders: one new snapshot /ps/proj/100, the queue
     entry is gone, one line in the journal, "wake me on the next push" *)
  Example timeout_forward :
    let '(r, w') := handle_timeout false h0 no_faults w0 in
    match r with
    | Some (TPause z, h') =>
        z = (-1)%Z /\ q_size (h_q h') = 0%N /\ q_bag (h_q h') = [] /\ w_tr w' = tr_empty /\
        lookup (w_fs w') D0 = Some NDir /\
        lookup (w_fs w') (D0 ++ lit "/a.txt") = Some (NFile 1) /\
        lookup (w_fs w') (D0 ++ lit "/src/b.c") = Some (NFile 2) /\
        lookup (w_fs w') (D0 ++ lit "/src/gone.c") = None /\
        lookup (w_fs w') (D0 ++ lit "/old") = None /\
        lookup (w_fs w') (lit "/u/proj/src/gone.c") = None /\
        lookup (w_fs w') (lit "/u/proj/old") = None /\
        lookup (w_fs w') (lit "/ps/proj/90/a.txt") = Some (NFile 7) /\
        lookup (w_fs w') (lit "/q/0") = None /\
        f_bytes (get_file (w_fs w') 8) =
          (lit "100" ++ [ch_tab] ++ lit "stored" ++ [ch_tab] ++ lit "proj" ++ [ch_nl])%list /\
        f_bytes (get_file (w_fs w') 1) = lit "a-95" /\
        List.length (fs_dents (w_fs w')) = 32
    | _ => False
    end.
  Proof. vm_compute. repeat split. Qed.

  Example timeout_reverse :
    let '(r, w') := handle_timeout true h0 no_faults w0 in
    match r with
    | Some (TPause z, h') =>
        z = (-1)%Z /\ q_size (h_q h') = 0%N /\ q_bag (h_q h') = [] /\ w_tr w' = tr_empty /\
        lookup (w_fs w') D0 = Some NDir /\
        lookup (w_fs w') (D0 ++ lit "/a.txt") = Some (NFile 1) /\
        lookup (w_fs w') (D0 ++ lit "/src/b.c") = Some (NFile 2) /\
        lookup (w_fs w') (D0 ++ lit "/src/gone.c") = None /\
        lookup (w_fs w') (D0 ++ lit "/old") = None /\
        lookup (w_fs w') (lit "/u/proj/src/gone.c") = None /\
        lookup (w_fs w') (lit "/u/proj/old") = None /\
        lookup (w_fs w') (lit "/ps/proj/90/a.txt") = Some (NFile 7) /\
        lookup (w_fs w') (lit "/q/0") = None /\
        f_bytes (get_file (w_fs w') 8) =
          (lit "100" ++ [ch_tab] ++ lit "stored" ++ [ch_tab] ++ lit "proj" ++ [ch_nl])%list /\
        f_bytes (get_file (w_fs w') 1) = lit "a-95" /\
        List.length (fs_dents (w_fs w')) = 32
    | _ => False
    end.
  Proof. vm_compute. repeat split. Qed.

  (* and from the theorem, for every benign oracle and both orders *)
  Example timeout_by_theorem o rv :
    SyncProofs.benign o ->
    exists w',
      handle_timeout rv h0 o w0 = (Some (TPause (-1), set_q (popped Pn (h_q h0)) h0), w') /\
      w_tr w' = tr_empty /\
      lookup (w_fs w') D0 = Some NDir /\
      lookup (w_fs w') (D0 ++ lit "/a.txt") = Some (NFile 1) /\
      lookup (w_fs w') (D0 ++ lit "/src/b.c") = Some (NFile 2) /\
      lookup (w_fs w') (D0 ++ lit "/src/gone.c") = None /\
      lookup (w_fs w') (lit "/u/proj/src/gone.c") = None /\
      lookup (w_fs w') (lit "/q/0") = None /\
      f_bytes (get_file (w_fs w') 1) = lit "a-95".
  Proof.
    intros H.
    destruct (handle_timeout_project_single o w0 rv h0 Pn 1%N 0%Z 0 (head_due o H))
      as (w' & f1 & f2 & E & HS & HJ & HF & HQ & HN & HPE & [HK1 HK2] & HC).
    change (w_clock w0) with 100%Z in HS, HJ.
    destruct names as [ED [EU [ER EH]]]. rewrite ED, EU in HS. rewrite EH in HF.
    destruct HS as [FF [FN [ND [LD [LP [SD [SU FR]]]]]]].
    destruct (journal_after_dents _ _ _ _ _ _ _ HJ) as [DE _].
    pose proof (dents_lookup _ _ DE) as LK.
    assert (Hq : forall x, x <> lit "/q/0" -> lookup (w_fs w') x = lookup f1 x).
    { intros x Hx. rewrite HF, lookup_del_dent_other by exact Hx. apply LK. }
    exists w'. split; [exact E|]. split; [apply HK2; reflexivity|].
    split; [rewrite Hq by discriminate; exact LD|].
    split; [rewrite Hq by discriminate; exact (SD (lit "a.txt"))|].
    split; [rewrite Hq by discriminate; exact (SD (lit "src/b.c"))|].
    split; [rewrite Hq by discriminate; exact (SD (lit "src/gone.c"))|].
    split; [rewrite Hq by discriminate; exact (SU (lit "src/gone.c"))|].
    split.
    { rewrite HF. apply lookup_del_dent_same; [|discriminate].
      unfold keys_nodup. rewrite DE. exact ND. }
    unfold journal_after in HJ. cbn [h_journal h0 c_ev_stored h_cfg cfg0] in HJ.
    destruct HJ as [_ [_ [HO _]]]. specialize (HO 1 ltac:(discriminate)). cbn [j_ino] in HO.
    rewrite HF.
    change (get_file (del_dent (lit "/q/0") f2) 1) with (get_file f2 1).
    rewrite HO. unfold get_file. rewrite FF. vm_compute. reflexivity.
  Qed.

  (* ----- a collision: /ps/proj/100 was taken within the same second ----- *)

  Definition fs1 : fs := add_dent D0 NDir fs0.
  Definition w1 : world := mkW fs1 0 [] 100%Z tr_empty.
  Definition D1 : str := lit "/ps/proj/100-1".

  Example names1 : snap_dir h0 Pn 100 1 = D1.
  Proof. vm_compute. reflexivity. Qed.

  Lemma queue_rel1 : QRel (h_q h0) fs1 [(Pn, 1%N, 0%Z)].
  Proof.
    apply (QRel_frame (h_q h0) fs0); [|exact queue_rel].
    intros x Hx. unfold fs1. apply lookup_add_dent_other.
    destruct Hx as [->|[kk ->]]; [discriminate|].
    intros E. apply (f_equal (firstn 3)) in E. vm_compute in E. discriminate.
  Qed.

  Example head_due_collision o : SyncProofs.benign o -> project_head_due o w1 h0 Pn 1%N 0%Z [] 1.
  Proof.
    intros H. constructor.
    - exact H.
    - reflexivity.
    - apply keys_nodup_check. vm_compute. reflexivity.
    - apply parents_exist_b_sound. vm_compute. reflexivity.
    - exact queue_rel1.
    - vm_compute. reflexivity.
    - reflexivity.
    - reflexivity.
    - vm_compute. reflexivity.
    - vm_compute. reflexivity.
    - vm_compute. repeat constructor.
    - vm_compute. reflexivity.
    - vm_compute. repeat constructor.
    - eexists. vm_compute. reflexivity.
    - vm_compute. discriminate.
    - apply nnb_sound. vm_compute. reflexivity.
    - apply nnb_sound. vm_compute. reflexivity.
    - apply nnb_sound. vm_compute. reflexivity.
    - apply nnb_sound. vm_compute. reflexivity.
    - apply nnb_sound. vm_compute. reflexivity.
    - vm_compute. reflexivity.
    - intros d Hin. vm_compute in Hin. destruct Hin as [<-|[<-|[]]]; vm_compute; auto.
    - intros i Hi. assert (i = 0) by lia. subst i.
      split; [eexists; vm_compute; reflexivity|].
      split; [vm_compute; discriminate|].
      intros d Hin. vm_compute in Hin. destruct Hin as [<-|[<-|[]]]; vm_compute; reflexivity.
    - vm_compute. repeat constructor.
    - intros _. reflexivity.
  Qed.

  Example timeout_collision_run :
    let '(r, w') := handle_timeout false h0 no_faults w1 in
    match r with
    | Some (TPause z, h') =>
        z = (-1)%Z /\ q_size (h_q h') = 0%N /\ w_tr w' = tr_empty /\
        lookup (w_fs w') D1 = Some NDir /\
        lookup (w_fs w') (D1 ++ lit "/a.txt") = Some (NFile 1) /\
        lookup (w_fs w') (D1 ++ lit "/src/b.c") = Some (NFile 2) /\
        lookup (w_fs w') (D1 ++ lit "/src/gone.c") = None /\
        lookup (w_fs w') (D0 ++ lit "/a.txt") = None /\
        lookup (w_fs w') (lit "/q/0") = None
    | _ => False
    end.
  Proof. vm_compute. repeat split. Qed.

  Example timeout_collision_by_theorem o rv :
    SyncProofs.benign o ->
    exists w',
      handle_timeout rv h0 o w1 = (Some (TPause (-1), set_q (popped Pn (h_q h0)) h0), w') /\
      w_tr w' = tr_empty /\
      lookup (w_fs w') D1 = Some NDir /\
      lookup (w_fs w') (D1 ++ lit "/src/b.c") = Some (NFile 2) /\
      lookup (w_fs w') (D1 ++ lit "/src/gone.c") = None /\
      lookup (w_fs w') (D0 ++ lit "/a.txt") = None.
  Proof.
    intros H.
    destruct (handle_timeout_project_single o w1 rv h0 Pn 1%N 0%Z 1 (head_due_collision o H))
      as (w' & f1 & f2 & E & HS & HJ & HF & HQ & HN & HPE & [HK1 HK2] & HC).
    change (w_clock w1) with 100%Z in HS, HJ.
    destruct names as [_ [EU [_ EH]]]. rewrite names1, EU in HS. rewrite EH in HF.
    destruct HS as [FF [FN [ND [LD [LP [SD [SU FR]]]]]]].
    destruct (journal_after_dents _ _ _ _ _ _ _ HJ) as [DE _].
    pose proof (dents_lookup _ _ DE) as LK.
    assert (Hq : forall x, x <> lit "/q/0" -> lookup (w_fs w') x = lookup f1 x).
    { intros x Hx. rewrite HF, lookup_del_dent_other by exact Hx. apply LK. }
    exists w'. split; [exact E|]. split; [apply HK2; reflexivity|].
    split; [rewrite Hq by discriminate; exact LD|].
    split; [rewrite Hq by discriminate; exact (SD (lit "src/b.c"))|].
    split; [rewrite Hq by discriminate; exact (SD (lit "src/gone.c"))|].
    rewrite Hq by discriminate. rewrite FR; [vm_compute; reflexivity | discriminate | | |].
    - vm_compute. intuition discriminate.
    - intros Hu. apply underb_spec in Hu. vm_compute in Hu. discriminate.
    - intros Hu. apply underb_spec in Hu. vm_compute in Hu. discriminate.
  Qed.

End SnapshotExample.

Print Assumptions SnapshotExample.tree_by_theorem.
Print Assumptions SnapshotExample.timeout_by_theorem.
Print Assumptions SnapshotExample.timeout_collision_by_theorem.
