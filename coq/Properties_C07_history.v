(* C07 over MIXED histories of execution and write events (and arbitrary changes
   of the world that leave the queue directory alone), for every benign oracle and
   every process id (no bound anywhere).
   The specification is on the event list alone (MixedHistory.v):
     is_editor_at editors hist pid  - the property's three clauses folded over the
       exec events of hist (equal to BitmapProofs.spec_run and, for every size
       guess, to the bit table of bitmap.c);
     class_of cfg cpl path          - the deciding class of C06 as a function;
     should_queue / expected        - the entries the queue must hold: one per write
       whose verdict (editor status BEFORE that write, deciding class) is "queue",
       in order, with the time of the write (and the project entry behind a member).
   Writes do not change who is an editor - for EVERY oracle. *)
From K Require Import Str Dec Trace Fs World Progs Sieve SieveSpec SieveProofs Elf Handler
     Bitmap BitmapProofs Linq LinqSpec LinqProofs QueueProofs PassProofs AttrProofs
     AcceptProofs MixedHistory.

Theorem C07_history_refines : forall o hist h w,
  benign o -> tr_ok (w_tr w) = true ->
  h_pids h = [] -> h_interps h = [] -> QRel (h_q h) (w_fs w) [] ->
  hist_ok o hist h w ->
  exists h' w',
    run o hist h w = (Some h', w') /\
    (forall pid : N, pid_mem pid (h_pids h') = is_editor_at (c_editors (h_cfg h)) hist pid) /\
    h_interps h' = s_ld (spec_state (c_editors (h_cfg h)) hist) /\
    QRel (h_q h') (w_fs w') (expected (h_cfg h) (h_cpl h) (w_clock w) hist) /\
    tr_ok (w_tr w') = true /\
    same_conf h h' /\ w_clock w' = clock_after (w_clock w) hist.
Proof. exact mixed_history_refines. Qed.
Print Assumptions C07_history_refines.

(* "Writes by non-editor processes to paths that are not force-included are never queued" *)
Theorem C07_non_editor_never_queued : forall o pre pid path post h w,
  benign o -> fresh_run o (pre ++ EWrite pid path :: post) h w ->
  is_editor_at (c_editors (h_cfg h)) pre pid = false ->
  class_of (h_cfg h) (h_cpl h) path <> Some (CRule KIncluded) ->
  class_of (h_cfg h) (h_cpl h) path <> Some (CRule KHistory) ->
  let before := expected (h_cfg h) (h_cpl h) (w_clock w) pre in
  expected (h_cfg h) (h_cpl h) (w_clock w) (pre ++ [EWrite pid path]) = before /\
  exists hp wp w1,
    run o pre h w = (Some hp, wp) /\
    handle_close_write pid path None hp o wp = (Some hp, w1) /\
    QRel (h_q hp) (w_fs wp) before /\ QRel (h_q hp) (w_fs w1) before /\
    fs_dents (w_fs w1) = fs_dents (w_fs wp) /\ tr_ok (w_tr w1) = true.
Proof. exact non_editor_never_queued. Qed.
Print Assumptions C07_non_editor_never_queued.

(* "and writes by editor processes to visible, non-excluded paths always are" *)
Theorem C07_editor_always_queued : forall o pre pid path post h w,
  benign o -> fresh_run o (pre ++ EWrite pid path :: post) h w ->
  is_editor_at (c_editors (h_cfg h)) pre pid = true ->
  class_of (h_cfg h) (h_cpl h) path <> Some CHidden ->
  class_of (h_cfg h) (h_cpl h) path <> Some (CRule KExcluded) ->
  let before := expected (h_cfg h) (h_cpl h) (w_clock w) pre in
  exists hp wp h1 w1 ih pr,
    run o pre h w = (Some hp, wp) /\
    handle_close_write pid path None hp o wp = (Some h1, w1) /\
    push_decision (c_rules (h_cfg h)) (h_cpl h) true path = (true, ih, pr) /\
    w_clock wp = clock_after (w_clock w) pre /\
    QRel (h_q hp) (w_fs wp) before /\
    QRel (h_q h1) (w_fs w1) (before ++ acc_ents path ih pr (w_clock wp)) /\
    expected (h_cfg h) (h_cpl h) (w_clock w) (pre ++ [EWrite pid path]) =
      before ++ acc_ents path ih pr (w_clock wp) /\
    tr_ok (w_tr w1) = true.
Proof. exact editor_always_queued. Qed.
Print Assumptions C07_editor_always_queued.

(* "process ids of any magnitude are tracked": no hypothesis bounds pid, and the bit
   table of bitmap.c answers the same for every initial size g *)
Theorem C07_pids_of_any_magnitude : forall o hist h w,
  benign o -> fresh_run o hist h w ->
  exists h' w',
    run o hist h w = (Some h', w') /\
    forall (pid : N) (g : nat),
      pid_mem pid (h_pids h') = is_editor_at (c_editors (h_cfg h)) hist pid /\
      pid_mem pid (h_pids h') =
        bm_get (N.to_nat pid) (a_pids (attr_run (c_editors (h_cfg h)) g (execs_of hist))).
Proof. exact pids_of_any_magnitude. Qed.
Print Assumptions C07_pids_of_any_magnitude.

(* a write event never changes who is an editor: EVERY oracle, any path, also a reload *)
Theorem C07_write_keeps_attribution : forall (o : oracle) w pid path nc h h' w',
  handle_close_write pid path nc h o w = (Some h', w') ->
  h_pids h' = h_pids h /\ h_interps h' = h_interps h.
Proof. exact close_write_keeps_attribution. Qed.
Print Assumptions C07_write_keeps_attribution.

(* non-vacuity: vim (script), ed (ELF with loader), cat; pids 7, 9, 4194303 and 2^64+5 *)
Example C07_history_instance := MixedExample.every_benign_oracle.
Example C07_huge_pid_instance := MixedExample.huge_pid_by_theorem.
