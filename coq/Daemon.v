(* The event loop of main.c (lines 132-178) over the REAL handler programs.

   Main.v models the loop as a pure function [loop self slots pause] over
   SCRIPTED answers of the handler; Handler.v models the handler operations as
   programs in the world monad.  Here the two are put together: [daemon_loop]
   is the loop of main.c in the monad of World.v, fed with a list of
   notifications, calling handle_open_exec / handle_close_write /
   handle_timeout themselves and emitting the [out] items of Main.loop.

   As in Main.v the event descriptor is not a descriptor of the World model
   (its close is only an [out] item), and poll/read on the fanotify descriptor
   are not calls of the World model: what they return IS the notification.
   As in ReloadHistory.run (and the driver extract/world.ml) the
   try/finally_rethrow_static pairs that main.c puts around the three handler
   calls are not replayed on the trace: "the trace is not ok after the call" is
   what main.c tests, and the top-level message is carried by the OExit item.

   Definitions only; the proofs are in DaemonProofs.v. *)
From K Require Import Str Trace Fs World Progs Handler Main.
Local Open Scope N_scope.

(* What one iteration of `for (;;)` sees.  [NEvent e path nc]: poll reported
   POLLIN and a whole event record was read; [e] carries the version check, the
   overflow bit, the exec and write bits, the pid and the number of the event
   descriptor (Main.event); [path] is the path behind that descriptor; [nc] is
   what the configuration file parses to at that moment (used only when [path]
   is the configuration file: exactly the argument of ReloadHistory.HWrite).
   [NEnv w2] is not an iteration: while the daemon is blocked in poll the
   environment (editors, other processes, the clock) replaces the world. *)
Inductive notif :=
| NWake                                                   (* poll timed out: status = 0 *)
| NEvent (e : event) (path : str) (nc : option config)
| NPollErr                                                (* poll failed *)
| NPollHup                                                (* revents other than POLLIN *)
| NReadShort                                              (* a short event record *)
| NReadFail                                               (* read failed *)
| NEnv (w2 : world).

(* the outcome of one iteration: main returns (the daemon exits), or the loop
   goes round with the pause handle_timeout asked for *)
Inductive verdict :=
| Stop (outs : list out) (h : handler)
| Next (outs : list out) (pause : Z) (h : handler).

Definition env_step (w2 : world) : M unit := fun _ _ => (Some tt, w2).

(* main.c 171-177: try; pause = handle_timeout(handler, trace); finally...;
   if (!ok(trace)) return fail(trace).  [pre]: what this iteration emitted so
   far.  Handler.handle_timeout answers TError exactly when main.c finds the
   trace not ok (or the model ran out of fuel), TPause z when it returns z
   (z = -1: wait indefinitely). *)
Definition service (rev : bool) (pre : list out) (h : handler) : M verdict :=
  do r <- handle_timeout rev h;
  ret_ (match fst r with
        | TPause z => Next (pre ++ [OTimeout]) z (snd r)
        | TError => Stop (pre ++ [OTimeout; OExit 1 (Some T_timeout)]) (snd r)
        end).

(* main.c 157-165: dispatch by kind.  Exec first; else write unless the writer
   is the daemon itself; else nothing.  Returns the [out] items, the handler,
   whether the trace must be looked at, and the top-level message of a failure *)
Definition dispatch_run (self : N) (e : event) (path : str) (nc : option config) (h : handler)
  : M (list out * handler * bool * topmsg) :=
  if ev_exec e then
    do h1 <- handle_open_exec (ev_pid e) path h;
    ret_ ([OExec (ev_pid e) (ev_fd e)], h1, true, T_exec)
  else if ev_write e && negb (ev_pid e =? self) then
    do h1 <- handle_close_write (ev_pid e) path nc h;
    ret_ ([OWrite (ev_pid e) (ev_fd e)], h1, true, T_write)
  else ret_ ([], h, false, T_exec).

(* the body of the loop after poll returned (main.c 143-177) *)
Definition iteration (self : N) (rev : bool) (n : notif) (h : handler) : M verdict :=
  match n with
  | NPollErr | NPollHup => ret_ (Stop [OExit 1 (Some T_poll)] h)
  | NWake => service rev [] h
  | NReadShort | NReadFail => ret_ (Stop [ORead; OExit 1 (Some T_read)] h)
  | NEvent e path nc =>
      if negb (ev_vers_ok e) then ret_ (Stop [ORead; OExit 1 (Some T_version)] h)
      else if ev_overflow e then ret_ (Stop [ORead; OExit 1 (Some T_overflow)] h)
      else
        do d <- dispatch_run self e path nc h;
        let '(disp, h1, checked, top) := d in
        do b <- is_ok;
        (* close(event.fd) comes before the trace is looked at *)
        if negb checked || b then service rev (ORead :: disp ++ [OClose (ev_fd e)]) h1
        else ret_ (Stop (ORead :: disp ++ [OClose (ev_fd e); OExit 1 (Some top)]) h1)
  | NEnv _ => ret_ (Stop [] h)           (* not an iteration: see daemon_loop *)
  end.

(* main.c 140-178.  Returns everything the daemon emitted and the handler it
   ends with; the world it ends in is the world of the monad; None: the process
   died inside a handler call. *)
Fixpoint daemon_loop (self : N) (rev : bool) (ns : list notif) (pause : Z) (h : handler)
  : M (list out * handler) :=
  match ns with
  | [] => ret_ ([OPoll (poll_ms pause); OEnd], h)
  | NEnv w2 :: rest => env_step w2;; daemon_loop self rev rest pause h
  | n :: rest =>
      do v <- iteration self rev n h;
      match v with
      | Stop outs h' => ret_ (OPoll (poll_ms pause) :: outs, h')
      | Next outs z h' =>
          do t <- daemon_loop self rev rest z h';
          ret_ (OPoll (poll_ms pause) :: outs ++ fst t, snd t)
      end
  end.

(* main.c 132-133: pid_t self = getpid(); time_t pause = 0 *)
Definition daemon (self : N) (rev : bool) (ns : list notif) (h : handler) : M (list out * handler) :=
  daemon_loop self rev ns 0%Z h.
