(* Strings as lists of characters; only eqb-based tests (no matching on
   character literals, which explodes proofs into 2^8 cases). *)
From Coq Require Export List Ascii NArith ZArith Bool Lia.
Export ListNotations.

Definition str := list ascii.

Definition ch_slash : ascii := "/"%char.
Definition ch_dot : ascii := "."%char.
Definition ch_dash : ascii := "-"%char.
Definition ch_tab : ascii := "009"%char.
Definition ch_nl : ascii := "010"%char.
Definition ch_zero : ascii := "0"%char.

Fixpoint str_eqb (a b : str) : bool :=
  match a, b with
  | [], [] => true
  | x :: a', y :: b' => Ascii.eqb x y && str_eqb a' b'
  | _, _ => false
  end.

Lemma str_eqb_spec a b : reflect (a = b) (str_eqb a b).
Proof.
  revert b; induction a as [|x a IH]; intros [|y b]; simpl; try (constructor; congruence).
  destruct (Ascii.eqb_spec x y) as [->|Hn]; simpl.
  - destruct (IH b) as [->|Hn]; constructor; congruence.
  - constructor; congruence.
Qed.

Lemma str_eqb_refl a : str_eqb a a = true.
Proof. destruct (str_eqb_spec a a); congruence. Qed.

Lemma str_eqb_eq a b : str_eqb a b = true <-> a = b.
Proof. destruct (str_eqb_spec a b); split; congruence. Qed.

Lemma str_eqb_neq a b : str_eqb a b = false <-> a <> b.
Proof. destruct (str_eqb_spec a b); split; congruence. Qed.

Lemma str_eqb_sym a b : str_eqb a b = str_eqb b a.
Proof.
  destruct (str_eqb_spec a b), (str_eqb_spec b a); congruence.
Qed.

Definition is_slash (c : ascii) : bool := Ascii.eqb c ch_slash.
Definition is_dot (c : ascii) : bool := Ascii.eqb c ch_dot.

(* is [p] a prefix of [s] *)
Fixpoint prefixb (p s : str) : bool :=
  match p, s with
  | [], _ => true
  | x :: p', y :: s' => Ascii.eqb x y && prefixb p' s'
  | _ :: _, [] => false
  end.

Lemma prefixb_spec p s : prefixb p s = true <-> exists t, s = p ++ t.
Proof.
  revert s; induction p as [|x p IH]; intros s; simpl.
  - split; [intros _; exists s; reflexivity | reflexivity].
  - destruct s as [|y s].
    + split; [discriminate | intros [t Ht]; discriminate].
    + rewrite andb_true_iff, IH. split.
      * intros [Hxy [t ->]]. apply Ascii.eqb_eq in Hxy. subst. exists t; reflexivity.
      * intros [t Ht]. injection Ht as -> ->. split; [apply Ascii.eqb_refl | eauto].
Qed.

(* a path [s] is under directory [d]: d ++ "/" ++ something *)
Definition under (d s : str) : bool := prefixb (d ++ [ch_slash]) s.

(* index of last occurrence of character satisfying f; None if absent *)
Fixpoint rindex_from (f : ascii -> bool) (s : str) (i : nat) (acc : option nat) : option nat :=
  match s with
  | [] => acc
  | c :: s' => rindex_from f s' (S i) (if f c then Some i else acc)
  end.
Definition rindex (f : ascii -> bool) (s : str) : option nat := rindex_from f s 0 None.

Fixpoint index_from (f : ascii -> bool) (s : str) (i : nat) : option nat :=
  match s with
  | [] => None
  | c :: s' => if f c then Some i else index_from f s' (S i)
  end.
Definition index (f : ascii -> bool) (s : str) : option nat := index_from f s 0.

(* split on '/' : "/a/b" -> ["", "a", "b"] *)
Fixpoint split_slash_aux (s : str) (cur : str) : list str :=
  match s with
  | [] => [rev cur]
  | c :: s' => if is_slash c then rev cur :: split_slash_aux s' [] else split_slash_aux s' (c :: cur)
  end.
Definition split_slash (s : str) : list str := split_slash_aux s [].

Fixpoint join_slash (l : list str) : str :=
  match l with
  | [] => []
  | [x] => x
  | x :: l' => x ++ ch_slash :: join_slash l'
  end.
