(* C02 / C08 / C11 together: one timeout pass over a due prefix whose entries
   are of DIFFERENT kinds.

   The pass theorems so far each cover a due prefix of one kind of entry:
   plain files (PassProofs.handle_timeout_plain_pass), a history head
   (PassProofs2.history_head_iteration), a project member followed by its
   project entry (MemberProofs / MemberBurst), a project head (SnapshotProofs).
   Here the prefix mixes them in ANY order.

   Method.  Instead of one stability lemma per ordered pair of kinds (16), every
   iteration is abstracted by its FOOTPRINT:

     fstep oj hname W Dr X f f'
        the head link [hname] goes; a name outside W that existed is unchanged;
        a name outside W and Dr is unchanged; a name in Dr outside W is a
        directory afterwards or unchanged; an old inode outside X, other than
        the journal, keeps its content; inode numbers only grow

   and each kind's side conditions ([plain_ok], [hist_ok], [member_ok], the
   conditions of [project_head_due]) are shown stable under ANY such step whose
   footprint avoids the finitely many names and inodes the conditions read.
   Four "post => fstep" lemmas and four "ok stable under fstep" lemmas replace
   the sixteen combinations, and the frames compose because fstep does.

     item, item_ok, item_post, undisturbed / keeps / items_indep
     item_iteration            one iteration, whatever the kind of the head
     mixed_pass_loop           the loop over the due prefix (induction)
     handle_timeout_mixed_pass the same for handle_timeout, with the cumulative
                               consequences: every item's version / slice /
                               snapshot is in the final file system, nothing
                               else that existed has changed
     story_member_project / mixed_pass_member_project
                               C11 inside a mixed pass: the snapshot of a
                               project holds the inode of the version of its
                               member stored earlier in the same pass
     istory_nth / istory_order / istory_journal
                               reading the story: every item has its result,
                               inode numbers and journal lines in queue order
     mixed_pass_plain_hist     stage (1): only plain and history entries
     item_okb / items_indepb   boolean checkers for the hypotheses
     Module MixedPassExample   /h/l (history), /h/a (plain), /h/p/m.c (member),
                               /h/p (project), /h/z (not due) in one pass; a
                               second order with a standalone project head

   Scope: benign oracles; every item is the last entry of its path (no
   duplicates: bursts m1 P m2 P are MemberBurst's); first candidate names free
   (no "-1" suffixes); the unstable link of a member is claimed at its own
   iteration (member_post) and through the snapshot, not in the final file
   system, because a later project entry legitimately rewrites the tree. *)
From K Require Import Str Dec Trace Fs World Progs Sieve Handler Linq LinqSpec LinqProofs
     DecProofs SyncProofs AbandonProofs JournalProofs QueueProofs Confine HistoryProofs StoreFs
     PassProofs PassProofs2 MemberProofs.
From K Require SnapshotProofs.
From Coq Require Import Lia.
Arguments N.add : simpl never.
Arguments N.sub : simpl never.
Arguments N.mul : simpl never.
Arguments N.of_nat : simpl never.
Arguments N.eqb : simpl never.
Arguments N.leb : simpl never.
Arguments Nat.pow : simpl never.
Arguments Nat.mul : simpl never.

(* ====================================================================== *)
(* 1. the footprint of an iteration                                        *)
(* ====================================================================== *)

Record fstep (oj : option journal) (hname : str) (W : str -> bool) (Dr : list str) (X : list nat)
       (f f' : fs) : Prop := {
  FS_head : lookup f' hname = None;
  FS_exist : forall x, x <> hname -> W x = false -> lookup f x <> None -> lookup f' x = lookup f x;
  FS_other : forall x, x <> hname -> W x = false -> ~ In x Dr -> lookup f' x = lookup f x;
  FS_dirs : forall x, x <> hname -> W x = false -> In x Dr ->
                      lookup f' x = Some NDir \/ lookup f' x = lookup f x;
  FS_files : forall k, k < fs_next f -> ~ In k X -> (forall jn, oj = Some jn -> k <> j_ino jn) ->
                       get_file f' k = get_file f k;
  FS_next : fs_next f <= fs_next f'
}.

Section Keep.
Variables (oj : option journal) (hname : str) (W : str -> bool) (Dr : list str) (X : list nat) (f f' : fs).
Variables (tg : str) (tm : Z).
Hypothesis HS : fstep oj hname W Dr X f f'.
Hypothesis Hh : lookup f hname = Some (NLink tg tm).

(* a name that is not a symbolic link and is outside the footprint keeps what it holds *)
Lemma keep_exact x :
  (forall a c, lookup f x <> Some (NLink a c)) -> W x = false -> ~ In x Dr -> lookup f' x = lookup f x.
Proof.
  intros Hl HW HD. apply (FS_other _ _ _ _ _ _ _ HS); [|exact HW|exact HD].
  intros ->. exact (Hl tg tm Hh).
Qed.

Lemma keep_file x j : lookup f x = Some (NFile j) -> W x = false -> lookup f' x = Some (NFile j).
Proof.
  intros Hx HW. rewrite (FS_exist _ _ _ _ _ _ _ HS); [exact Hx | | exact HW | rewrite Hx; discriminate].
  intros ->. congruence.
Qed.

Lemma keep_dir x : lookup f x = Some NDir -> W x = false -> lookup f' x = Some NDir.
Proof.
  intros Hx HW. rewrite (FS_exist _ _ _ _ _ _ _ HS); [exact Hx | | exact HW | rewrite Hx; discriminate].
  intros ->. congruence.
Qed.

Lemma keep_none x : lookup f x = None -> W x = false -> ~ In x Dr -> lookup f' x = None.
Proof.
  intros Hx HW HD. rewrite keep_exact; [exact Hx | | exact HW | exact HD].
  intros a c. rewrite Hx. discriminate.
Qed.

Lemma keep_dir_or_none x :
  lookup f x = Some NDir \/ lookup f x = None -> W x = false ->
  lookup f' x = Some NDir \/ lookup f' x = None.
Proof.
  intros Hx HW. destruct Hx as [Hx|Hx]; [left; exact (keep_dir x Hx HW)|].
  assert (Hne : x <> hname) by (intros ->; congruence).
  destruct (str_in_dec x Dr) as [HD|HD].
  - destruct (FS_dirs _ _ _ _ _ _ _ HS x Hne HW HD) as [A|A]; [left; exact A | right; congruence].
  - right. rewrite (FS_other _ _ _ _ _ _ _ HS x Hne HW HD). exact Hx.
Qed.

End Keep.

(* ====================================================================== *)
(* 2. the four kinds of iteration are such steps                           *)
(* ====================================================================== *)

Lemma eqb_false x y : str_eqb x y = false -> x <> y.
Proof. intros E ->. rewrite str_eqb_refl in E. discriminate. Qed.

Lemma eqb_false_intro x y : x <> y -> str_eqb x y = false.
Proof. intros H. destruct (str_eqb_spec x y); [contradiction | reflexivity]. Qed.

Lemma under_false d x : Str.under d x = false -> ~ under d x.
Proof. intros E H. apply underb_spec in H. congruence. Qed.

(* Some (NFile io) / None *)
Definition onode (pio : option nat) : option node :=
  match pio with Some io => Some (NFile io) | None => None end.
Definition olist (pio : option nat) : list nat :=
  match pio with Some io => [io] | None => [] end.

Section Foot.
Variables (cfg : config) (cpl : nat) (oj : option journal) (now : Z).

Notation dstn := (store_name cfg cpl now).
Notation offn := (offset_name cfg cpl).
Notation upn := (member_path cfg).

(* the unstable tree and the (first candidate) snapshot directory of a project *)
Definition pU (P : str) : str := c_unstable_root cfg ++ ch_slash :: basename P.
Definition pD (P : str) : str :=
  SnapshotProofs.Dsp (create_store_path (c_project_store_root cfg) (basename P) (version_of cfg now)) 0.

Lemma step_post_fstep hname f f' p b :
  step_post cfg cpl oj hname f f' now p b ->
  fstep oj hname (fun x => str_eqb x (dstn p)) (parents_of (dstn p)) [] f f'.
Proof.
  intros [Sdst Sbytes Spar Shead Sother Sexist Sfiles Sjournal Snext].
  constructor.
  - exact Shead.
  - intros x X1 X2 X3. apply Sexist; assumption.
  - intros x X1 X2 X3. apply Sother; [exact (eqb_false _ _ X2) | exact X3 | exact X1].
  - intros x X1 X2 X3. left. exact (Spar x X3).
  - intros k K1 _ K3. apply Sfiles; [lia | exact K3].
  - lia.
Qed.

Lemma hist_post_fstep hname f f' p b off pio :
  hist_post cfg cpl oj hname f f' now p b off ->
  lookup f (offn p) = onode pio ->
  fstep oj hname (fun x => str_eqb x (dstn p) || str_eqb x (offn p))
        (parents_of (dstn p) ++ parents_of (offn p)) (olist pio) f f'.
Proof.
  intros [Hdst Hbytes Hpar Hpos Hposino Hpospar Hhead Hother Hother0 Hexist Hfiles Hjournal Hnext] Hpio.
  constructor.
  - exact Hhead.
  - intros x X1 X2 X3. apply Hexist; assumption.
  - intros x X1 X2 X3. apply orb_false_elim in X2. destruct X2 as [A B].
    apply Hother; [exact (eqb_false _ _ A) | | exact (eqb_false _ _ B) | | exact X1];
      intros Hin; apply X3; apply in_or_app; [left | right]; exact Hin.
  - intros x X1 X2 X3. apply orb_false_elim in X2. destruct X2 as [A B].
    destruct (str_in_dec x (parents_of (dstn p))) as [Hin|Hnin]; [left; exact (Hpar x Hin)|].
    apply in_app_or in X3. destruct X3 as [X3|X3]; [contradiction|].
    destruct (Nat.eq_dec (length b) 0) as [E|E].
    + right. apply (Hother0 E); [exact (eqb_false _ _ A) | exact Hnin | exact X1].
    + left. apply Hpospar; [lia | exact X3].
  - intros k K1 K2 K3. apply Hfiles; [lia | | exact K3].
    intros io Hio. destruct (Hposino io Hio) as [A|[_ A]]; [|lia].
    rewrite Hpio in A. destruct pio as [io'|]; [|discriminate].
    injection A as ->. intros ->. apply K2. left. reflexivity.
  - lia.
Qed.

Lemma member_post_fstep hname f f' p k b :
  member_post cfg cpl oj hname f f' now p k b ->
  fstep oj hname (fun x => str_eqb x (dstn p) || str_eqb x (upn p k))
        (parents_of (dstn p) ++ parents_of (upn p k)) [] f f'.
Proof.
  intros [Mdst Mbytes Mpar Mlink Mlpar Mhead Mother Mexist Mfiles Mjournal Mnext].
  constructor.
  - exact Mhead.
  - intros x X1 X2 X3. apply orb_false_elim in X2. destruct X2 as [A B].
    apply Mexist; [exact X1 | exact (eqb_false _ _ B) | exact X3].
  - intros x X1 X2 X3. apply orb_false_elim in X2. destruct X2 as [A B].
    apply Mother; [exact (eqb_false _ _ A) | | exact (eqb_false _ _ B) | | exact X1];
      intros Hin; apply X3; apply in_or_app; [left | right]; exact Hin.
  - intros x X1 X2 X3. left. apply in_app_or in X3.
    destruct X3 as [X3|X3]; [exact (Mpar x X3) | exact (Mlpar x X3)].
  - intros j K1 _ K3. apply Mfiles; [lia | exact K3].
  - lia.
Qed.

(* the iteration on a project head: the snapshot, the journal line, the pop *)
Definition proj_post (hname : str) (f f' : fs) (P : str) : Prop :=
  exists f1 f2,
    SnapshotProofs.snapshot_post f f1 (pU P) (pD P) P /\
    SnapshotProofs.journal_after oj (c_ev_stored cfg) 0%N (rel_of cpl P) now f1 f2 /\
    f' = del_dent hname f2.

Definition W_proj (P : str) (x : str) : bool :=
  str_eqb x (pD P) || Str.under (pD P) x || Str.under (pU P) x.

Lemma W_proj_false P x : W_proj P x = false -> x <> pD P /\ ~ under (pD P) x /\ ~ under (pU P) x.
Proof.
  unfold W_proj. intros E. apply orb_false_elim in E. destruct E as [E C].
  apply orb_false_elim in E. destruct E as [A B].
  split; [exact (eqb_false _ _ A)|]. split; apply under_false; assumption.
Qed.

Lemma journal_after_files ev path f1 f2 k :
  SnapshotProofs.journal_after oj ev 0%N path now f1 f2 ->
  (forall jn, oj = Some jn -> k <> j_ino jn) -> get_file f2 k = get_file f1 k.
Proof.
  unfold SnapshotProofs.journal_after. intros HJ Hk.
  destruct oj as [jn|]; [|rewrite HJ; reflexivity].
  destruct ev as [e|]; [|rewrite HJ; reflexivity].
  destruct HJ as (_ & _ & G & _). apply G. apply Hk. reflexivity.
Qed.

Lemma proj_post_fstep hname f f' P :
  proj_post hname f f' P -> hname <> root_path ->
  (forall d, In d (parents_of (pD P)) -> lookup f d = Some NDir \/ lookup f d = None) ->
  fstep oj hname (W_proj P) (parents_of (pD P)) [] f f'.
Proof.
  intros (f1 & f2 & HS & HJ & ->) Hroot Hchain.
  destruct (SnapshotProofs.journal_after_dents _ _ _ _ _ _ _ HJ) as [DE NX].
  pose proof (SnapshotProofs.dents_lookup _ _ DE) as LK.
  pose proof HS as (FF & FN & ND & LD & LP & SD & SU & FR).
  assert (ND2 : keys_nodup f2) by (unfold keys_nodup; rewrite DE; exact ND).
  assert (L' : forall x, x <> hname -> lookup (del_dent hname f2) x = lookup f1 x).
  { intros x Hx. rewrite lookup_del_dent_other by exact Hx. apply LK. }
  constructor.
  - apply lookup_del_dent_same; assumption.
  - intros x X1 X2 X3. rewrite (L' x X1). apply W_proj_false in X2. destruct X2 as (A & B & C).
    destruct (str_in_dec x (parents_of (pD P))) as [Hin|Hnin].
    + rewrite (LP x Hin). destruct (Hchain x Hin) as [E|E]; [symmetry; exact E | contradiction].
    + apply FR; assumption.
  - intros x X1 X2 X3. rewrite (L' x X1). apply W_proj_false in X2. destruct X2 as (A & B & C).
    apply FR; assumption.
  - intros x X1 X2 X3. left. rewrite (L' x X1). exact (LP x X3).
  - intros k K1 _ K3. change (get_file (del_dent hname f2) k) with (get_file f2 k).
    rewrite (journal_after_files _ _ _ _ _ HJ K3). unfold get_file. rewrite FF. reflexivity.
  - change (fs_next (del_dent hname f2)) with (fs_next f2). rewrite NX, FN. lia.
Qed.

End Foot.

(* ====================================================================== *)
(* 3. the side conditions of each kind are stable under a step that keeps  *)
(*    clear of the names and inodes they read                              *)
(* ====================================================================== *)

(* the footprint (W, Dr, X) avoids: the names [ex] (which must keep exactly what
   they hold), the names [dr] (which may become directories), the inodes [ino] *)
Record clear (W : str -> bool) (Dr : list str) (X : list nat)
       (ex dr : list str) (ino : list nat) : Prop := {
  CL_ex : forall x, In x ex -> W x = false /\ ~ In x Dr;
  CL_dr : forall x, In x dr -> W x = false;
  CL_ino : forall k, In k ino -> ~ In k X
}.

Lemma anc_keep f f' : forall fuel p,
  (forall d, In d (dchain fuel p) -> lookup f d = Some NDir -> lookup f' d = Some NDir) ->
  (forall d, In d (dchain fuel p) -> lookup f d = None ->
             lookup f' d = None \/ lookup f' d = Some NDir) ->
  anc_not_dir fuel f p = false -> anc_not_dir fuel f' p = false.
Proof.
  induction fuel as [|n IH]; intros p H1 H2 Ha; [reflexivity|].
  cbn [anc_not_dir dchain] in *. cbv zeta in *.
  destruct (lookup f (dirname p)) as [nd|] eqn:E.
  - destruct nd; try discriminate Ha. rewrite (H1 _ (or_introl eq_refl) E). reflexivity.
  - destruct (H2 _ (or_introl eq_refl) E) as [E'|E']; rewrite E'; [|reflexivity].
    destruct (str_eqb (dirname p) p); [reflexivity|].
    apply IH; [| |exact Ha].
    + intros d Hd. apply H1. right. exact Hd.
    + intros d Hd. apply H2. right. exact Hd.
Qed.

(* the side conditions of a project head that are about the file system and
   the names (SnapshotProofs.project_head_due without the queue and the trace) *)
Record proj_ok (cfg : config) (oj : option journal) (qdir : str) (f : fs) (now : Z) (P : str) : Prop := {
  JO_last : is_slash (last P ch_dot) = false;
  JO_vlen : length (version_of cfg now) <= 255;
  JO_vslash : existsb is_slash (version_of cfg now) = false;
  JO_jts : SnapshotProofs.journal_ts_ok oj now;
  JO_abs : exists restD, pD cfg now P = ch_slash :: restD;
  JO_unroot : pU cfg P <> root_path;
  JO_UD : nn (pU cfg P) (pD cfg now P);
  JO_UP : nn (pU cfg P) P;
  JO_DP : nn (pD cfg now P) P;
  JO_QD : nn qdir (pD cfg now P);
  JO_QU : nn qdir (pU cfg P);
  JO_fresh : lookup f (pD cfg now P) = None;
  JO_chain : forall d, In d (parents_of (pD cfg now P)) -> lookup f d = Some NDir \/ lookup f d = None
}.

Section Stable.
Variables (cfg : config) (cpl : nat) (oj : option journal) (qdir : str) (now : Z).
Variables (hname : str) (W : str -> bool) (Dr : list str) (X : list nat) (f f' : fs).
Variables (tg : str) (tm : Z).
Hypothesis HS : fstep oj hname W Dr X f f'.
Hypothesis Hh : lookup f hname = Some (NLink tg tm).

Notation dstn := (store_name cfg cpl now).
Notation offn := (offset_name cfg cpl).
Notation upn := (member_path cfg).

Let kexact := keep_exact oj hname W Dr X f f' tg tm HS Hh.
Let kfile := keep_file oj hname W Dr X f f' tg tm HS Hh.
Let kdir := keep_dir oj hname W Dr X f f' tg tm HS Hh.
Let knone := keep_none oj hname W Dr X f f' tg tm HS Hh.
Let kdn := keep_dir_or_none oj hname W Dr X f f' tg tm HS Hh.

Lemma plain_ok_fstep p i b :
  plain_ok cfg cpl oj qdir f now p i b ->
  clear W Dr X [p; dstn p; offn p]
        (parents_of (dstn p) ++ dchain (length (offn p)) (offn p)) [i] ->
  plain_ok cfg cpl oj qdir f' now p i b.
Proof.
  intros [Pabs Plast Pcpl Pvlen Pvslash Psrc Pfile Pino Prabs Pfree Ppar Pq
          Pofree Popar Pone Ponin Podir Pjfits Pjino] [Cex Cdr Cino].
  destruct (Cex p ltac:(cbn; auto)) as [Wp _].
  destruct (Cex (dstn p) ltac:(cbn; auto)) as [Wd Dd].
  destruct (Cex (offn p) ltac:(cbn; auto)) as [Wo Do].
  pose proof (FS_next _ _ _ _ _ _ _ HS) as Hnx.
  constructor; try assumption.
  - exact (kfile p i Psrc Wp).
  - rewrite (FS_files _ _ _ _ _ _ _ HS); [exact Pfile | exact Pino | apply Cino; left; reflexivity|].
    intros jn Hj E. destruct (Pjino jn Hj) as [A _]. congruence.
  - lia.
  - exact (knone _ Pfree Wd Dd).
  - intros d Hd. apply kdn; [exact (Ppar d Hd)|]. apply Cdr. apply in_or_app. left. exact Hd.
  - exact (knone _ Pofree Wo Do).
  - apply missing_enoent. apply missing_enoent in Popar.
    apply (anc_keep f f'); [| |exact Popar].
    + intros d Hd E. apply kdir; [exact E|]. apply Cdr. apply in_or_app. right. exact Hd.
    + intros d Hd E. destruct (kdn d (or_intror E)) as [A|A]; [|right; exact A | left; exact A].
      apply Cdr. apply in_or_app. right. exact Hd.
  - intros jn Hj. destruct (Pjino jn Hj) as [A B]. split; [exact A | lia].
Qed.

Lemma hist_ok_fstep p i b off pio :
  hist_ok cfg cpl oj qdir f now p i b off -> lookup f (offn p) = onode pio ->
  clear W Dr X [p; dstn p; offn p]
        (parents_of (dstn p) ++ parents_of (offn p)) (i :: olist pio) ->
  hist_ok cfg cpl oj qdir f' now p i b off /\ lookup f' (offn p) = onode pio.
Proof.
  intros [Pabs Plast Pcpl Pvlen Pvslash Psrc Pfile Pino Prabs Pfree Ppar Pq
          Ple Ppos Pposrc Porabs Popar Poq Pone Ponin Pdnin Pjfits Pjino] Hpio [Cex Cdr Cino].
  destruct (Cex p ltac:(cbn; auto)) as [Wp _].
  destruct (Cex (dstn p) ltac:(cbn; auto)) as [Wd Dd].
  destruct (Cex (offn p) ltac:(cbn; auto)) as [Wo Do].
  pose proof (FS_next _ _ _ _ _ _ _ HS) as Hnx.
  assert (Eo : lookup f' (offn p) = lookup f (offn p)).
  { apply kexact; [|exact Wo|exact Do]. intros a c. rewrite Hpio. destruct pio; discriminate. }
  split; [|rewrite Eo; exact Hpio].
  constructor; try assumption.
  - exact (kfile p i Psrc Wp).
  - rewrite (FS_files _ _ _ _ _ _ _ HS); [exact Pfile | exact Pino | apply Cino; left; reflexivity|].
    intros jn Hj E. destruct (Pjino jn Hj) as [A _]. congruence.
  - lia.
  - exact (knone _ Pfree Wd Dd).
  - intros d Hd. apply kdn; [exact (Ppar d Hd)|]. apply Cdr. apply in_or_app. left. exact Hd.
  - unfold pos_is in *. rewrite Eo. destruct Ppos as [A|[A (io & B1 & B2 & B3)]]; [left; exact A|].
    right. split; [exact A|]. exists io. split; [exact B1|]. split; [|lia].
    rewrite (FS_files _ _ _ _ _ _ _ HS); [exact B2 | exact B3 | |].
    + apply Cino. right. rewrite Hpio in B1. destruct pio as [io'|]; [|discriminate].
      injection B1 as ->. left. reflexivity.
    + intros jn Hj E. destruct (Pjino jn Hj) as (_ & _ & C). exact (C io B1 (eq_sym E)).
  - intros io. rewrite Eo. apply Pposrc.
  - intros d Hd. apply kdn; [exact (Popar d Hd)|]. apply Cdr. apply in_or_app. right. exact Hd.
  - intros jn Hj. destruct (Pjino jn Hj) as (A & B & C). split; [exact A|]. split; [lia|].
    intros io. rewrite Eo. apply C.
Qed.

Lemma member_ok_fstep p k :
  member_ok cfg cpl qdir f now p k ->
  clear W Dr X [upn p k] (parents_of (upn p k)) [] ->
  member_ok cfg cpl qdir f' now p k.
Proof.
  intros [Mpos Mle Muabs Mup Muppar Mupq Mupne Mupnin Mdstnin] [Cex Cdr _].
  destruct (Cex (upn p k) ltac:(cbn; auto)) as [Wu Du].
  constructor; try assumption.
  - destruct Mup as [A|[io A]]; [left; exact (knone _ A Wu Du) | right; exists io; exact (kfile _ io A Wu)].
  - intros d Hd. apply kdn; [exact (Muppar d Hd) | exact (Cdr d Hd)].
Qed.

Lemma proj_ok_fstep P :
  proj_ok cfg oj qdir f now P ->
  clear W Dr X [pD cfg now P] (parents_of (pD cfg now P)) [] ->
  proj_ok cfg oj qdir f' now P.
Proof.
  intros [J1 J2 J3 J4 J5 J6 J7 J8 J9 J10 J11 J12 J13] [Cex Cdr _].
  destruct (Cex (pD cfg now P) ltac:(cbn; auto)) as [Wd Dd].
  constructor; try assumption.
  - exact (knone _ J12 Wd Dd).
  - intros d Hd. apply kdn; [exact (J13 d Hd) | exact (Cdr d Hd)].
Qed.

End Stable.

(* ====================================================================== *)
(* 4. "every entry lives in a directory" through a plain / history step    *)
(* ====================================================================== *)

Lemma chain_dirs f' y ry : y = ch_slash :: ry ->
  (forall d, In d (parents_of y) -> lookup f' d = Some NDir) ->
  lookup f' (dirname y) = Some NDir /\
  (forall d, In d (parents_of y) -> lookup f' (dirname d) = Some NDir).
Proof.
  intros Hy Hall. destruct (parents_of_chain ry) as [Hch Hlast]. rewrite <- Hy in Hch, Hlast.
  split.
  - rewrite Hlast. destruct (SnapshotProofs.last_or_in root_path (parents_of y)) as [->|Hin];
      [apply lookup_root | apply Hall; exact Hin].
  - intros d Hin. destruct (SnapshotProofs.chain_dirname _ _ _ Hch Hin) as [->|Hi];
      [apply lookup_root | apply Hall; exact Hi].
Qed.

Lemma step_post_parents_exist cfg cpl oj hname f f' now p b tg tm :
  step_post cfg cpl oj hname f f' now p b -> parents_exist f ->
  (exists r, store_name cfg cpl now p = ch_slash :: r) ->
  lookup f hname = Some (NLink tg tm) ->
  parents_exist f'.
Proof.
  intros [Sdst Sbytes Spar Shead Sother Sexist Sfiles Sjournal Snext] Hpe [rd Hd] Hh.
  set (dst := store_name cfg cpl now p) in *.
  destruct (chain_dirs f' dst rd Hd Spar) as [Dd Dp].
  intros x Hx.
  destruct (str_eqb_spec x dst) as [->|X1]; [exact Dd|].
  destruct (str_in_dec x (parents_of dst)) as [Hin|X2]; [exact (Dp x Hin)|].
  destruct (str_eqb_spec x hname) as [->|X3]; [congruence|].
  rewrite (Sother x X1 X2 X3) in Hx. pose proof (Hpe x Hx) as Hdx.
  rewrite Sexist; [exact Hdx | | rewrite Hdx; discriminate].
  intros E. rewrite E, Hh in Hdx. discriminate.
Qed.

Lemma hist_post_parents_exist cfg cpl oj hname f f' now p b off tg tm :
  hist_post cfg cpl oj hname f f' now p b off -> parents_exist f ->
  (exists r, store_name cfg cpl now p = ch_slash :: r) ->
  (exists r, offset_name cfg cpl p = ch_slash :: r) ->
  lookup f hname = Some (NLink tg tm) ->
  parents_exist f'.
Proof.
  intros [Hdst Hbytes Hpar Hpos Hposino Hpospar Hhead Hother Hother0 Hexist Hfiles Hjournal Hnext]
         Hpe [rd Hd] [ro Ho] Hh.
  set (dst := store_name cfg cpl now p) in *. set (offp := offset_name cfg cpl p) in *.
  destruct (chain_dirs f' dst rd Hd Hpar) as [Dd Dp].
  assert (Hold : forall x, lookup f' x = lookup f x -> lookup f' x <> None ->
                           lookup f' (dirname x) = Some NDir).
  { intros x E Hx. rewrite E in Hx. pose proof (Hpe x Hx) as Hdx.
    rewrite Hexist; [exact Hdx | | rewrite Hdx; discriminate].
    intros E'. rewrite E', Hh in Hdx. discriminate. }
  intros x Hx.
  destruct (str_eqb_spec x dst) as [->|X1]; [exact Dd|].
  destruct (str_in_dec x (parents_of dst)) as [Hin|X2]; [exact (Dp x Hin)|].
  destruct (str_eqb_spec x hname) as [->|X3]; [congruence|].
  destruct (Nat.eq_dec (length b) 0) as [E|E].
  - apply Hold; [exact (Hother0 E x X1 X2 X3) | exact Hx].
  - assert (Hb : 0 < length b) by lia.
    destruct (chain_dirs f' offp ro Ho (Hpospar Hb)) as [Od Op].
    destruct (str_eqb_spec x offp) as [->|X4]; [exact Od|].
    destruct (str_in_dec x (parents_of offp)) as [Hin|X5]; [exact (Op x Hin)|].
    apply Hold; [exact (Hother x X1 X2 X4 X5 X3) | exact Hx].
Qed.

(* ====================================================================== *)
(* 5. items: a due queue entry of any kind, with what its iteration needs  *)
(* ====================================================================== *)

Inductive item :=
| IPlain (e : entry)                                   (* flags 0; PassProofs.entry *)
| IHist (p : str) (t : Z) (i : nat) (b : str) (off : nat) (pio : option nat)
                                                       (* flags 2: a history path; source inode i with
                                                          content b, remembered position off, kept in
                                                          inode pio (None: no position file) *)
| IMember (p : str) (k : nat) (t : Z) (i : nat) (b : str)
                                                       (* a project member: offset k, no history flag *)
| IProject (P : str) (t : Z).                          (* flags 1: a project root *)

Definition qent_of_item (it : item) : qent :=
  match it with
  | IPlain e => (e_path e, 0%N, e_time e)
  | IHist p t _ _ _ _ => (p, 2%N, t)
  | IMember p k t _ _ => (p, mmeta k, t)
  | IProject P t => (P, 1%N, t)
  end.

Definition ipath (it : item) : str := qpath (qent_of_item it).
Definition itime (it : item) : Z := snd (qent_of_item it).

Section Items.
Variables (cfg : config) (cpl : nat) (oj : option journal) (qdir : str) (now : Z).

Notation dstn := (store_name cfg cpl now).
Notation offn := (offset_name cfg cpl).
Notation upn := (member_path cfg).
Notation D_ := (pD cfg now).
Notation U_ := (pU cfg).

(* the side conditions of its kind *)
Definition item_ok (f : fs) (it : item) : Prop :=
  match it with
  | IPlain e => plain_ok cfg cpl oj qdir f now (e_path e) (e_ino e) (e_bytes e)
  | IHist p _ i b off pio =>
      hist_ok cfg cpl oj qdir f now p i b off /\ lookup f (offn p) = onode pio
  | IMember p k _ i b =>
      plain_ok cfg cpl oj qdir f now p i b /\ member_ok cfg cpl qdir f now p k
  | IProject P _ => proj_ok cfg oj qdir f now P
  end.

(* what its iteration guarantees *)
Definition item_post (hname : str) (f f' : fs) (it : item) : Prop :=
  match it with
  | IPlain e => step_post cfg cpl oj hname f f' now (e_path e) (e_bytes e)
  | IHist p _ _ b off _ => hist_post cfg cpl oj hname f f' now p b off
  | IMember p k _ _ b => member_post cfg cpl oj hname f f' now p k b
  | IProject P _ => proj_post cfg cpl oj now hname f f' P
  end.

(* the footprint: names that change arbitrarily, directories that are made,
   old inodes that are rewritten *)
Definition wr (it : item) (x : str) : bool :=
  match it with
  | IPlain e => str_eqb x (dstn (e_path e))
  | IHist p _ _ _ _ _ => str_eqb x (dstn p) || str_eqb x (offn p)
  | IMember p k _ _ _ => str_eqb x (dstn p) || str_eqb x (upn p k)
  | IProject P _ => W_proj cfg now P x
  end.
Definition mk (it : item) : list str :=
  match it with
  | IPlain e => parents_of (dstn (e_path e))
  | IHist p _ _ _ _ _ => parents_of (dstn p) ++ parents_of (offn p)
  | IMember p k _ _ _ => parents_of (dstn p) ++ parents_of (upn p k)
  | IProject P _ => parents_of (D_ P)
  end.
Definition xi (it : item) : list nat :=
  match it with
  | IHist _ _ _ _ _ pio => olist pio
  | _ => []
  end.

(* what the side conditions read: names that must keep what they hold, names
   that must stay directories or absent, inodes that must keep their bytes *)
Definition rd_ex (it : item) : list str :=
  match it with
  | IPlain e => [e_path e; dstn (e_path e); offn (e_path e)]
  | IHist p _ _ _ _ _ => [p; dstn p; offn p]
  | IMember p k _ _ _ => [p; dstn p; offn p; upn p k]
  | IProject P _ => [D_ P]
  end.
Definition rd_dr (it : item) : list str :=
  match it with
  | IPlain e => parents_of (dstn (e_path e)) ++ dchain (length (offn (e_path e))) (offn (e_path e))
  | IHist p _ _ _ _ _ => parents_of (dstn p) ++ parents_of (offn p)
  | IMember p k _ _ _ =>
      (parents_of (dstn p) ++ dchain (length (offn p)) (offn p)) ++ parents_of (upn p k)
  | IProject P _ => parents_of (D_ P)
  end.
Definition rd_ino (it : item) : list nat :=
  match it with
  | IPlain e => [e_ino e]
  | IHist _ _ i _ _ pio => i :: olist pio
  | IMember _ _ _ i _ => [i]
  | IProject _ _ => []
  end.

Lemma clear_sub W Dr X ex dr ino ex' dr' ino' :
  clear W Dr X ex dr ino -> incl ex' ex -> incl dr' dr -> incl ino' ino ->
  clear W Dr X ex' dr' ino'.
Proof.
  intros [A B C] I1 I2 I3. constructor.
  - intros x Hx. apply A. apply I1. exact Hx.
  - intros x Hx. apply B. apply I2. exact Hx.
  - intros k Hk. apply C. apply I3. exact Hk.
Qed.

(* an iteration is a step with the footprint of its item *)
Lemma item_fstep hname f f' it :
  item_ok f it -> item_post hname f f' it -> hname <> root_path ->
  fstep oj hname (wr it) (mk it) (xi it) f f'.
Proof.
  destruct it as [e|p t i b off pio|p k t i b|P t]; cbn [item_ok item_post wr mk xi].
  - intros _ HP _. exact (step_post_fstep _ _ _ _ _ _ _ _ _ HP).
  - intros [_ Hpio] HP _. exact (hist_post_fstep _ _ _ _ _ _ _ _ _ _ _ HP Hpio).
  - intros _ HP _. exact (member_post_fstep _ _ _ _ _ _ _ _ _ _ HP).
  - intros HO HP Hr. exact (proj_post_fstep _ _ _ _ _ _ _ _ HP Hr (JO_chain _ _ _ _ _ _ HO)).
Qed.

(* the side conditions of an item are stable under a step that keeps clear of what they read *)
Lemma item_ok_fstep hname W Dr X f f' tg tm it :
  fstep oj hname W Dr X f f' -> lookup f hname = Some (NLink tg tm) ->
  item_ok f it -> clear W Dr X (rd_ex it) (rd_dr it) (rd_ino it) ->
  item_ok f' it.
Proof.
  intros HS Hh.
  destruct it as [e|p t i b off pio|p k t i b|P t]; cbn [item_ok rd_ex rd_dr rd_ino].
  - intros HO HC. exact (plain_ok_fstep _ _ _ _ _ _ _ _ _ _ _ _ _ HS Hh _ _ _ HO HC).
  - intros [HO Hpio] HC. exact (hist_ok_fstep _ _ _ _ _ _ _ _ _ _ _ _ _ HS Hh _ _ _ _ _ HO Hpio HC).
  - intros [HO HM] HC. split.
    + apply (plain_ok_fstep _ _ _ _ _ _ _ _ _ _ _ _ _ HS Hh _ _ _ HO).
      apply (clear_sub _ _ _ _ _ _ _ _ _ HC).
      * intros x Hx. cbn [In] in *. tauto.
      * intros x Hx. apply in_or_app. left. exact Hx.
      * intros x Hx. exact Hx.
    + apply (member_ok_fstep _ _ _ _ _ _ _ _ _ _ _ _ _ HS Hh _ _ HM).
      apply (clear_sub _ _ _ _ _ _ _ _ _ HC).
      * intros x Hx. cbn [In] in *. tauto.
      * intros x Hx. apply in_or_app. right. exact Hx.
      * intros x Hx. destruct Hx.
  - intros HO HC. exact (proj_ok_fstep _ _ _ _ _ _ _ _ _ _ _ _ HS Hh _ HO HC).
Qed.

End Items.

(* ====================================================================== *)
(* 6. one iteration of the loop, whatever the kind of the head             *)
(* ====================================================================== *)

Lemma item_iteration o w h rev fuel it rest :
  benign o -> tr_ok (w_tr w) = true -> keys_nodup (w_fs w) -> parents_exist (w_fs w) ->
  QRel (h_q h) (w_fs w) (qent_of_item it :: rest) ->
  (q_deb (h_q h) <= w_clock w - itime it)%Z ->              (* the head is due *)
  occurs (ipath it) rest = false ->                          (* and is the last entry of its path *)
  item_ok (h_cfg h) (h_cpl h) (h_journal h) (q_dir (h_q h)) (w_clock w) (w_fs w) it ->
  exists w',
    handle_timeout_loop (S fuel) rev h o w =
      handle_timeout_loop fuel rev (set_q (popped (ipath it) (h_q h)) h) o w' /\
    item_post (h_cfg h) (h_cpl h) (h_journal h) (w_clock w) (head_name (h_q h))
              (w_fs w) (w_fs w') it /\
    QRel (popped (ipath it) (h_q h)) (w_fs w') rest /\
    keys_nodup (w_fs w') /\ parents_exist (w_fs w') /\
    tr_keep (w_tr w) (w_tr w') /\ w_clock w' = w_clock w.
Proof.
  intros H Hok Hnd Hpe HR Hdue Hocc HO.
  pose proof (QRel_head _ _ _ _ _ _ (eq_ind _ (fun l => QRel (h_q h) (w_fs w) l) HR _
                (match it as it0 return qent_of_item it0 :: rest =
                   (ipath it0, snd (fst (qent_of_item it0)), itime it0) :: rest
                 with IPlain _ | IHist _ _ _ _ _ _ | IMember _ _ _ _ _ | IProject _ _ => eq_refl end)))
    as Hhead.
  destruct it as [e|p t i b off pio|p k t i b|P t];
    cbn [qent_of_item ipath itime qpath fst snd item_ok item_post] in *.
  - (* plain *)
    destruct (plain_head_iteration o w h rev fuel (e_path e) (e_time e) rest (e_ino e) (e_bytes e)
                H Hok Hnd HR Hdue Hocc HO) as (w' & E & S1 & HR' & Hnd' & K' & C').
    exists w'. split; [exact E|]. split; [exact S1|]. split; [exact HR'|]. split; [exact Hnd'|].
    split; [|split; [exact K' | exact C']].
    eapply step_post_parents_exist; [exact S1 | exact Hpe | | exact Hhead].
    apply store_name_abs. exact (PO_root_abs _ _ _ _ _ _ _ _ _ HO).
  - (* history *)
    destruct HO as [HO Hpio].
    destruct (history_head_iteration o w h rev fuel p t rest i b off H Hok Hnd HR Hdue Hocc HO)
      as (w' & E & S1 & HR' & Hnd' & K' & C').
    exists w'. split; [exact E|]. split; [exact S1|]. split; [exact HR'|]. split; [exact Hnd'|].
    split; [|split; [exact K' | exact C']].
    eapply hist_post_parents_exist; [exact S1 | exact Hpe | | | exact Hhead].
    + apply store_name_abs. exact (HO_root_abs _ _ _ _ _ _ _ _ _ _ HO).
    + apply offset_name_abs. exact (HO_oroot_abs _ _ _ _ _ _ _ _ _ _ HO).
  - (* member *)
    destruct HO as [HO HM].
    destruct (member_head_iteration o w h rev fuel p k t rest i b H Hok Hnd HR Hdue Hocc HO HM)
      as (w' & E & S1 & HR' & Hnd' & K' & C').
    exists w'. split; [exact E|]. split; [exact S1|]. split; [exact HR'|]. split; [exact Hnd'|].
    split; [|split; [exact K' | exact C']].
    eapply member_post_parents_exist; [exact S1 | exact Hpe | | | exact Hhead |].
    + apply store_name_abs. exact (PO_root_abs _ _ _ _ _ _ _ _ _ HO).
    + apply member_path_abs. exact (MO_uroot_abs _ _ _ _ _ _ _ HM).
    + exact (MO_up _ _ _ _ _ _ _ HM).
  - (* project *)
    destruct HO as [J1 J2 J3 J4 J5 J6 J7 J8 J9 J10 J11 J12 J13].
    destruct (SnapshotProofs.project_head_snapshot o w rev h P 1%N t rest 0 fuel)
      as (w' & f1 & f2 & E & HSn & HJ & HF & HR' & Hnd' & Hpe' & K' & C').
    { constructor; try assumption.
      - apply Z.ltb_ge. exact Hdue.
      - reflexivity.
      - change (N.shiftr 1 2) with 0%N. apply N.ltb_ge. lia.
      - intros j Hj. lia.
      - lia.
      - intros Hj. lia. }
    exists w'. split; [exact E|].
    split; [exists f1, f2; split; [exact HSn|]; split; [exact HJ | exact HF]|].
    split; [exact HR'|]. split; [exact Hnd'|]. split; [exact Hpe'|]. split; [exact K' | exact C'].
Qed.
Print Assumptions item_iteration.

(* ====================================================================== *)
(* 7. independence; the loop over a due prefix of items                    *)
(* ====================================================================== *)

(* the iteration of [a] leaves alone what the side conditions of [b] read *)
Definition undisturbed (cfg : config) (cpl : nat) (now : Z) (a b : item) : Prop :=
  clear (wr cfg cpl now a) (mk cfg cpl now a) (xi a)
        (rd_ex cfg cpl now b) (rd_dr cfg cpl now b) (rd_ino b).

(* every item leaves alone what the later ones read *)
Fixpoint items_ahead (cfg : config) (cpl : nat) (now : Z) (its : list item) : Prop :=
  match its with
  | [] => True
  | a :: l => Forall (undisturbed cfg cpl now a) l /\ items_ahead cfg cpl now l
  end.

(* every item is the last entry of its path *)
Fixpoint ilast (its : list item) (rest : list qent) : Prop :=
  match its with
  | [] => True
  | it :: l => occurs (ipath it) (map qent_of_item l ++ rest) = false /\ ilast l rest
  end.

(* the queue after the prefix has been popped *)
Fixpoint ipops (its : list item) (q : qmem) : qmem :=
  match its with
  | [] => q
  | it :: l => ipops l (popped (ipath it) q)
  end.

Lemma ipops_dir its : forall q, q_dir (ipops its q) = q_dir q.
Proof. induction its as [|e es IH]; intros q; cbn [ipops]; [reflexivity|]. rewrite IH. reflexivity. Qed.
Lemma ipops_deb its : forall q, q_deb (ipops its q) = q_deb q.
Proof. induction its as [|e es IH]; intros q; cbn [ipops]; [reflexivity|]. rewrite IH. reflexivity. Qed.

(* the file systems of the pass: before the iteration of each item its side
   conditions hold and the head link is its entry; its post relates the file
   system before and after ITS iteration *)
Fixpoint ichain (cfg : config) (cpl : nat) (oj : option journal) (qdir : str) (now : Z)
         (its : list item) (q : qmem) (f f' : fs) : Prop :=
  match its with
  | [] => f' = f
  | it :: l =>
      exists f1,
        item_ok cfg cpl oj qdir now f it /\
        lookup f (head_name q) =
          Some (NLink (encode (snd (fst (qent_of_item it))) (ipath it)) (itime it)) /\
        item_post cfg cpl oj now (head_name q) f f1 it /\
        ichain cfg cpl oj qdir now l (popped (ipath it) q) f1 f'
  end.

Lemma qent_eta it : qent_of_item it = (ipath it, snd (fst (qent_of_item it)), itime it).
Proof. destruct it; reflexivity. Qed.

Lemma all_ok_after cfg cpl oj qdir now hname f f1 tg tm it l :
  item_ok cfg cpl oj qdir now f it ->
  item_post cfg cpl oj now hname f f1 it -> hname <> root_path ->
  lookup f hname = Some (NLink tg tm) ->
  Forall (undisturbed cfg cpl now it) l ->
  Forall (item_ok cfg cpl oj qdir now f) l -> Forall (item_ok cfg cpl oj qdir now f1) l.
Proof.
  intros HO HP Hr Hh Hund Hall.
  pose proof (item_fstep _ _ _ _ _ _ _ _ _ HO HP Hr) as HS.
  induction l as [|b l IH]; [constructor|].
  inversion Hund as [|? ? Hu Hund']; subst. inversion Hall as [|? ? Hb Hall']; subst.
  constructor; [|exact (IH Hund' Hall')].
  exact (item_ok_fstep _ _ _ _ _ _ _ _ _ _ _ _ _ _ HS Hh Hb Hu).
Qed.

Theorem mixed_pass_loop o rev : benign o -> forall its rest fuel h w,
  tr_ok (w_tr w) = true -> keys_nodup (w_fs w) -> parents_exist (w_fs w) ->
  QRel (h_q h) (w_fs w) (map qent_of_item its ++ rest) ->
  Forall (fun it => (q_deb (h_q h) <= w_clock w - itime it)%Z) its ->   (* the prefix is due *)
  ilast its rest ->
  not_due (w_clock w) (q_deb (h_q h)) rest ->                          (* what follows is not *)
  Forall (item_ok (h_cfg h) (h_cpl h) (h_journal h) (q_dir (h_q h)) (w_clock w) (w_fs w)) its ->
  items_ahead (h_cfg h) (h_cpl h) (w_clock w) its ->
  length its < fuel ->
  exists w',
    handle_timeout_loop fuel rev h o w =
      (Some (TPause (pause_of (w_clock w) (q_deb (h_q h)) rest), set_q (ipops its (h_q h)) h), w') /\
    ichain (h_cfg h) (h_cpl h) (h_journal h) (q_dir (h_q h)) (w_clock w) its (h_q h)
           (w_fs w) (w_fs w') /\
    QRel (ipops its (h_q h)) (w_fs w') rest /\
    keys_nodup (w_fs w') /\ parents_exist (w_fs w') /\
    tr_keep (w_tr w) (w_tr w') /\ w_clock w' = w_clock w.
Proof.
  intros H. induction its as [|it its IH];
    intros rest fuel h w Hok Hnd Hpe HR Hdue Hlast Hstop Hall Hind Hfuel.
  - destruct fuel as [|fuel]; [cbn [length] in Hfuel; lia|].
    cbn [map app] in HR.
    destruct (pass_stops o w h rev fuel rest H Hok HR Hstop) as (w' & E & F & C & K).
    exists w'. cbn [ipops ichain]. rewrite set_q_self.
    split; [exact E|]. split; [exact F|]. split; [rewrite F; exact HR|].
    split; [rewrite F; exact Hnd|]. split; [rewrite F; exact Hpe|]. split; [exact K | exact C].
  - destruct fuel as [|fuel]; [cbn [length] in Hfuel; lia|].
    cbn [map app] in HR.
    inversion Hdue as [|? ? Hd Hdue']; subst.
    destruct Hlast as [Hocc Hlast]. inversion Hall as [|? ? Hp Hall']; subst.
    destruct Hind as [Hund Hind'].
    destruct (item_iteration o w h rev fuel it (map qent_of_item its ++ rest)
                H Hok Hnd Hpe HR Hd Hocc Hp) as (w1 & E1 & S1 & HR1 & Hnd1 & Hpe1 & K1 & C1).
    set (h1 := set_q (popped (ipath it) (h_q h)) h) in *.
    assert (Hhead : lookup (w_fs w) (head_name (h_q h)) =
                    Some (NLink (encode (snd (fst (qent_of_item it))) (ipath it)) (itime it))).
    { rewrite (qent_eta it) in HR. exact (QRel_head _ _ _ _ _ _ HR). }
    assert (Hroot : head_name (h_q h) <> root_path).
    { apply join_dec_nonroot. exact (QR_nroot _ _ _ HR). }
    assert (Hall1 : Forall (item_ok (h_cfg h1) (h_cpl h1) (h_journal h1) (q_dir (h_q h1))
                                    (w_clock w1) (w_fs w1)) its).
    { rewrite C1. exact (all_ok_after _ _ _ _ _ _ _ _ _ _ _ _ Hp S1 Hroot Hhead Hund Hall'). }
    assert (Hdue1 : Forall (fun e0 => (q_deb (h_q h1) <= w_clock w1 - itime e0)%Z) its)
      by (rewrite C1; exact Hdue').
    assert (Hstop1 : not_due (w_clock w1) (q_deb (h_q h1)) rest) by (rewrite C1; exact Hstop).
    assert (Hind1 : items_ahead (h_cfg h1) (h_cpl h1) (w_clock w1) its) by (rewrite C1; exact Hind').
    assert (Hfuel1 : length its < fuel) by (cbn [length] in Hfuel; lia).
    destruct (IH rest fuel h1 w1 (tr_keep_ok _ _ K1) Hnd1 Hpe1 HR1 Hdue1 Hlast Hstop1 Hall1 Hind1 Hfuel1)
      as (w' & E & CP & HR' & Hnd' & Hpe' & K' & C').
    rewrite C1 in E, CP.
    exists w'. split; [rewrite E1; exact E|].
    split; [cbn [ichain]; exists (w_fs w1); split; [exact Hp|]; split; [exact Hhead|];
            split; [exact S1 | exact CP]|].
    split; [exact HR'|]. split; [exact Hnd'|]. split; [exact Hpe'|].
    split; [exact (tr_keep_trans _ _ _ K1 K') | congruence].
Qed.
Print Assumptions mixed_pass_loop.

(* ====================================================================== *)
(* 8. the frames compose; what every item leaves in the FINAL file system  *)
(* ====================================================================== *)

Section Story.
Variables (cfg : config) (cpl : nat) (oj : option journal) (qdir : str) (now : Z).

Notation dstn := (store_name cfg cpl now).
Notation offn := (offset_name cfg cpl).
Notation upn := (member_path cfg).
Notation D_ := (pD cfg now).
Notation U_ := (pU cfg).
Notation wr_ := (wr cfg cpl now).
Notation mk_ := (mk cfg cpl now).
Notation ok_ := (item_ok cfg cpl oj qdir now).
Notation post_ := (item_post cfg cpl oj now).
Notation chain_ := (ichain cfg cpl oj qdir now).

Hypothesis Hqr : qdir <> root_path.

Lemma chain_frame : forall its q f f',
  q_dir q = qdir -> chain_ its q f f' ->
  (forall x, Str.under qdir x = false ->
             (forall b, In b its -> wr_ b x = false /\ ~ In x (mk_ b)) -> lookup f' x = lookup f x) /\
  (forall x, Str.under qdir x = false -> lookup f x <> None ->
             (forall b, In b its -> wr_ b x = false) -> lookup f' x = lookup f x) /\
  (forall k, k < fs_next f -> (forall b, In b its -> ~ In k (xi b)) ->
             (forall jn, oj = Some jn -> k <> j_ino jn) -> get_file f' k = get_file f k) /\
  fs_next f <= fs_next f'.
Proof.
  induction its as [|it l IH]; intros q f f' Hq HC.
  - cbn [ichain] in HC. subst f'. auto.
  - cbn [ichain] in HC. destruct HC as (f1 & HO & Hh & HP & HC).
    assert (Hroot : head_name q <> root_path).
    { unfold head_name. rewrite Hq. apply join_dec_nonroot. exact Hqr. }
    assert (Hhq : Str.under qdir (head_name q) = true).
    { unfold head_name. rewrite Hq. apply under_join. exact Hqr. }
    pose proof (item_fstep _ _ _ _ _ _ _ _ _ HO HP Hroot) as HS.
    destruct (IH (popped (ipath it) q) f1 f' Hq HC) as (A1 & A2 & A3 & A4).
    pose proof (FS_next _ _ _ _ _ _ _ HS) as Hnx.
    assert (Hne : forall x, Str.under qdir x = false -> x <> head_name q) by (intros x Hx ->; congruence).
    split; [|split; [|split]].
    + intros x Hx Hall. rewrite A1; [|exact Hx|intros b Hb; apply Hall; right; exact Hb].
      destruct (Hall it (or_introl eq_refl)) as [B1 B2].
      apply (FS_other _ _ _ _ _ _ _ HS); [exact (Hne x Hx) | exact B1 | exact B2].
    + intros x Hx Hex Hall.
      assert (E1 : lookup f1 x = lookup f x).
      { apply (FS_exist _ _ _ _ _ _ _ HS); [exact (Hne x Hx) | apply Hall; left; reflexivity | exact Hex]. }
      rewrite A2; [exact E1 | exact Hx | rewrite E1; exact Hex | intros b Hb; apply Hall; right; exact Hb].
    + intros k Hk Hall Hj. rewrite A3; [|lia|intros b Hb; apply Hall; right; exact Hb|exact Hj].
      apply (FS_files _ _ _ _ _ _ _ HS); [exact Hk | apply Hall; left; reflexivity | exact Hj].
    + lia.
Qed.

(* the names an item leaves behind for good *)
Definition outs (it : item) : list str :=
  match it with
  | IPlain e => [dstn (e_path e)]
  | IHist p _ _ _ _ _ => [dstn p; offn p]
  | IMember p _ _ _ _ => [dstn p]
  | IProject P _ => [D_ P]
  end.

(* the iteration of [b] keeps what [a] has left *)
Record keeps (b a : item) : Prop := {
  KP_names : forall x, In x (outs a) -> wr_ b x = false /\ ~ In x (mk_ b);
  KP_inos : forall k, In k (xi a) -> ~ In k (xi b);
  KP_tree : match a with
            | IProject P _ => forall x, under (D_ P) x -> wr_ b x = false /\ ~ In x (mk_ b)
            | _ => True
            end
}.

Fixpoint items_behind (its : list item) : Prop :=
  match its with
  | [] => True
  | a :: l => Forall (fun b => keeps b a) l /\ items_behind l
  end.

(* pairwise independence: earlier items leave alone what later ones read,
   later items keep what earlier ones have left *)
Definition items_indep (its : list item) : Prop :=
  items_ahead cfg cpl now its /\ items_behind its.

(* what an item leaves in the final file system [ff]; [fb] is the file system
   before ITS iteration (so fs_next fb is the inode of the version it makes) *)
Definition item_result (fb ff : fs) (it : item) : Prop :=
  match it with
  | IPlain e =>
      lookup ff (dstn (e_path e)) = Some (NFile (fs_next fb)) /\
      f_bytes (get_file ff (fs_next fb)) = e_bytes e
  | IHist p _ _ b off _ =>
      lookup ff (dstn p) = Some (NFile (fs_next fb)) /\
      f_bytes (get_file ff (fs_next fb)) = skipn off b /\
      pos_is ff (offn p) (length b)
  | IMember p k _ _ b =>
      lookup ff (dstn p) = Some (NFile (fs_next fb)) /\
      f_bytes (get_file ff (fs_next fb)) = b
  | IProject P _ =>
      lookup ff (D_ P) = Some NDir /\
      forall r, lookup ff (D_ P ++ ch_slash :: r) = SnapshotProofs.snap fb (U_ P) P r
  end.

(* the pass, item by item: side conditions and post of every iteration, and
   what it leaves in the final file system *)
Fixpoint istory (its : list item) (q : qmem) (f f' ff : fs) : Prop :=
  match its with
  | [] => f' = f
  | it :: l =>
      exists f1,
        ok_ f it /\
        lookup f (head_name q) =
          Some (NLink (encode (snd (fst (qent_of_item it))) (ipath it)) (itime it)) /\
        post_ (head_name q) f f1 it /\
        item_result f ff it /\
        istory l (popped (ipath it) q) f1 f' ff
  end.

(* the position inodes of the items are old inodes *)
Definition xi_bound (f : fs) (its : list item) : Prop :=
  forall b k, In b its -> In k (xi b) -> k < fs_next f.

Lemma xi_bound_ok f its : Forall (ok_ f) its -> xi_bound f its.
Proof.
  intros Hall b k Hb Hk. rewrite Forall_forall in Hall. specialize (Hall b Hb).
  destruct b as [e|p t i bb off pio|p kk t i bb|P t]; cbn [xi] in Hk; try (destruct Hk).
  cbn [item_ok] in Hall. destruct Hall as [HO Hpio].
  destruct pio as [io|]; cbn [olist In] in Hk; [|destruct Hk]. destruct Hk as [<-|[]].
  cbn [onode] in Hpio.
  destruct (HO_pos _ _ _ _ _ _ _ _ _ _ HO) as [[_ A]|[_ (io' & A & _ & B)]]; [congruence|].
  rewrite Hpio in A. injection A as ->. exact B.
Qed.

Lemma under_sub_false d x r : Str.under qdir d = false -> nn qdir d -> x = d ++ ch_slash :: r ->
  Str.under qdir x = false.
Proof.
  intros _ [N1 [N2 N3]] ->. destruct (Str.under qdir (d ++ ch_slash :: r)) eqn:E; [|reflexivity].
  exfalso. apply underb_spec in E.
  destruct (under_both _ _ _ E (ex_intro _ r eq_refl)) as [A|[A|A]]; auto.
Qed.

Lemma nn_under_false d : nn qdir d -> Str.under qdir d = false.
Proof.
  intros [_ [N2 _]]. destruct (Str.under qdir d) eqn:E; [|reflexivity].
  exfalso. apply N2. apply underb_spec. exact E.
Qed.

Lemma chain_story : forall its q f f' ff,
  q_dir q = qdir -> chain_ its q f f' -> ff = f' ->
  items_behind its -> xi_bound f its ->
  istory its q f f' ff.
Proof.
  induction its as [|it l IH]; intros q f f' ff Hq HC Hff Hbeh Hxb.
  - exact HC.
  - cbn [ichain] in HC. destruct HC as (f1 & HO & Hh & HP & HC).
    destruct Hbeh as [Hkeep Hbeh].
    assert (Hroot : head_name q <> root_path).
    { unfold head_name. rewrite Hq. apply join_dec_nonroot. exact Hqr. }
    assert (Hhq : Str.under qdir (head_name q) = true).
    { unfold head_name. rewrite Hq. apply under_join. exact Hqr. }
    pose proof (item_fstep _ _ _ _ _ _ _ _ _ HO HP Hroot) as HS.
    pose proof (FS_next _ _ _ _ _ _ _ HS) as Hnx.
    destruct (chain_frame l (popped (ipath it) q) f1 f' Hq HC) as (A1 & A2 & A3 & A4).
    assert (Hxb1 : xi_bound f1 l).
    { intros b k Hb Hk. specialize (Hxb b k (or_intror Hb) Hk). lia. }
    cbn [istory]. exists f1. split; [exact HO|]. split; [exact Hh|]. split; [exact HP|].
    split; [|exact (IH (popped (ipath it) q) f1 f' ff Hq HC Hff Hbeh Hxb1)].
    subst ff. rewrite Forall_forall in Hkeep.
    (* names the item has left are kept by the later iterations *)
    assert (Hout : forall x, In x (outs it) -> Str.under qdir x = false -> lookup f' x = lookup f1 x).
    { intros x Hx Hu. apply A1; [exact Hu|]. intros b Hb. exact (KP_names _ _ (Hkeep b Hb) x Hx). }
    (* so is a new inode *)
    assert (Hnew : forall n, fs_next f <= n -> n < fs_next f1 ->
                             (forall jn, oj = Some jn -> j_ino jn < fs_next f) ->
                             get_file f' n = get_file f1 n).
    { intros n N1 N2 Hj. apply A3; [exact N2 | |].
      - intros b Hb Hk. specialize (Hxb b n (or_intror Hb) Hk). lia.
      - intros jn Ej E. specialize (Hj jn Ej). lia. }
    destruct it as [e|p t i b off pio|p k t i b|P t]; cbn [item_ok item_post item_result outs] in *.
    + (* plain *)
      destruct HP as [Sdst Sbytes Spar Shead Sother Sexist Sfiles Sjournal Snext].
      split.
      * rewrite Hout; [exact Sdst | left; reflexivity | exact (PO_dst_q _ _ _ _ _ _ _ _ _ HO)].
      * rewrite Hnew; [exact Sbytes | lia | lia |].
        intros jn Ej. exact (proj2 (PO_jino _ _ _ _ _ _ _ _ _ HO jn Ej)).
    + (* history *)
      destruct HO as [HO Hpio].
      destruct HP as [Hdst Hbytes Hpar Hpos Hposino Hpospar Hhead Hother Hother0 Hexist Hfiles Hjournal Hnext].
      assert (Hj : forall jn, oj = Some jn -> j_ino jn < fs_next f).
      { intros jn Ej. exact (proj1 (proj2 (HO_jino _ _ _ _ _ _ _ _ _ _ HO jn Ej))). }
      assert (Eo : lookup f' (offn p) = lookup f1 (offn p)).
      { apply Hout; [right; left; reflexivity | exact (HO_off_q _ _ _ _ _ _ _ _ _ _ HO)]. }
      split; [|split].
      * rewrite Hout; [exact Hdst | left; reflexivity | exact (HO_dst_q _ _ _ _ _ _ _ _ _ _ HO)].
      * rewrite Hnew; [exact Hbytes | lia | lia | exact Hj].
      * unfold pos_is in *. rewrite Eo.
        destruct Hpos as [A|[A (io & B1 & B2 & B3)]]; [left; exact A|].
        right. split; [exact A|]. exists io. split; [exact B1|]. split; [|lia].
        destruct (Hposino io B1) as [C|[C1 C2]].
        -- (* the old position inode *)
           rewrite Hpio in C. destruct pio as [io'|]; [|discriminate]. injection C as ->.
           rewrite A3; [exact B2 | exact B3 | |].
           ++ intros b0 Hb0. apply (KP_inos _ _ (Hkeep b0 Hb0)). left. reflexivity.
           ++ intros jn Ej E. destruct (HO_jino _ _ _ _ _ _ _ _ _ _ HO jn Ej) as (_ & _ & J3).
              apply (J3 io); [rewrite Hpio; reflexivity | exact (eq_sym E)].
        -- (* a new one *)
           subst io. rewrite Hnew; [exact B2 | lia | exact B3 | exact Hj].
    + (* member *)
      destruct HO as [HO HM].
      destruct HP as [Mdst Mbytes Mpar Mlink Mlpar Mhead Mother Mexist Mfiles Mjournal Mnext].
      split.
      * rewrite Hout; [exact Mdst | left; reflexivity | exact (PO_dst_q _ _ _ _ _ _ _ _ _ HO)].
      * rewrite Hnew; [exact Mbytes | lia | lia |].
        intros jn Ej. exact (proj2 (PO_jino _ _ _ _ _ _ _ _ _ HO jn Ej)).
    + (* project *)
      destruct HP as (fa & fb & HSn & HJ & ->).
      destruct (SnapshotProofs.journal_after_dents _ _ _ _ _ _ _ HJ) as [DE NX].
      pose proof (SnapshotProofs.dents_lookup _ _ DE) as LK.
      pose proof HSn as (FF & FN & ND & LD & LP & SD & SU & FR).
      pose proof (JO_QD _ _ _ _ _ _ HO) as NQD.
      pose proof (nn_under_false _ NQD) as HuD.
      assert (L' : forall x, Str.under qdir x = false -> lookup (del_dent (head_name q) fb) x = lookup fa x).
      { intros x Hx. rewrite lookup_del_dent_other; [apply LK | intros ->; congruence]. }
      split.
      * rewrite Hout; [|left; reflexivity|exact HuD]. rewrite (L' _ HuD). exact LD.
      * intros r.
        assert (Hur : Str.under qdir (D_ P ++ ch_slash :: r) = false)
          by (apply (under_sub_false (D_ P) _ r HuD NQD); reflexivity).
        rewrite A1; [rewrite (L' _ Hur); apply SD | exact Hur |].
        intros b Hb. apply (KP_tree _ _ (Hkeep b Hb)). exists r. reflexivity.
Qed.

(* ---------- reading the story ---------- *)

Definition is_file_item (it : item) : bool :=
  match it with IProject _ _ => false | _ => true end.

Lemma post_next hname f f1 it : post_ hname f f1 it ->
  fs_next f <= fs_next f1 /\ (is_file_item it = true -> fs_next f < fs_next f1).
Proof.
  destruct it as [e|p t i b off pio|p k t i b|P t]; cbn [item_post is_file_item]; intros HP.
  - rewrite (SP_next _ _ _ _ _ _ _ _ _ HP). split; [|intros _]; lia.
  - rewrite (HP_next _ _ _ _ _ _ _ _ _ _ HP). split; [|intros _]; lia.
  - rewrite (MP_next _ _ _ _ _ _ _ _ _ _ HP). split; [|intros _]; lia.
  - destruct HP as (fa & fb & (_ & FN & _) & HJ & ->).
    destruct (SnapshotProofs.journal_after_dents _ _ _ _ _ _ _ HJ) as [_ NX].
    change (fs_next (del_dent hname fb)) with (fs_next fb). rewrite NX, FN.
    split; [lia | discriminate].
Qed.

Lemma istory_next : forall its q f f' ff, istory its q f f' ff -> fs_next f <= fs_next f'.
Proof.
  induction its as [|it l IH]; intros q f f' ff HS; cbn [istory] in HS; [subst; lia|].
  destruct HS as (f1 & _ & _ & HP & _ & HS). specialize (IH _ _ _ _ HS).
  destruct (post_next _ _ _ _ HP) as [A _]. lia.
Qed.

(* every item has its result in the final file system; the inode of its
   version is one the pass has allocated *)
Lemma istory_nth : forall its q f f' ff, istory its q f f' ff ->
  forall j it, nth_error its j = Some it ->
  exists fb, fs_next f <= fs_next fb /\ fs_next fb <= fs_next f' /\
             (is_file_item it = true -> fs_next fb < fs_next f') /\
             ok_ fb it /\ item_result fb ff it.
Proof.
  induction its as [|a l IH]; intros q f f' ff HS j it Hj; [destruct j; discriminate|].
  cbn [istory] in HS. destruct HS as (f1 & HO & _ & HP & HR & HS).
  destruct (post_next _ _ _ _ HP) as [A A']. pose proof (istory_next _ _ _ _ _ HS) as B.
  destruct j as [|j]; cbn [nth_error] in Hj.
  - injection Hj as <-. exists f. split; [lia|]. split; [lia|].
    split; [intros Hf; specialize (A' Hf); lia|]. split; assumption.
  - destruct (IH _ _ _ _ HS j it Hj) as (fb & C1 & C2 & C2' & C3 & C4).
    exists fb. split; [lia|]. split; [lia|]. split; [exact C2'|]. split; assumption.
Qed.

(* "nor reorder the versions": inode numbers are handed out in queue order *)
Lemma istory_order : forall its q f f' ff, istory its q f f' ff ->
  forall j j' a b, nth_error its j = Some a -> nth_error its j' = Some b -> j < j' ->
  is_file_item a = true ->
  exists fa fb, item_result fa ff a /\ item_result fb ff b /\ fs_next fa < fs_next fb.
Proof.
  induction its as [|c l IH]; intros q f f' ff HS j j' a b Hj Hj' Hlt Ha; [destruct j; discriminate|].
  cbn [istory] in HS. destruct HS as (f1 & HO & _ & HP & HR & HS).
  destruct j' as [|j']; [lia|]. cbn [nth_error] in Hj'.
  destruct j as [|j]; cbn [nth_error] in Hj.
  - injection Hj as <-. destruct (istory_nth _ _ _ _ _ HS j' b Hj') as (fb & C1 & _ & _ & _ & C4).
    destruct (post_next _ _ _ _ HP) as [_ A]. specialize (A Ha).
    exists f, fb. split; [exact HR|]. split; [exact C4 | lia].
  - exact (IH _ _ _ _ HS j j' a b Hj Hj' ltac:(lia) Ha).
Qed.

(* from the start of a stretch [l2] of the pass to the iteration of the item
   after it: regular files the stretch does not write are still there *)
Lemma istory_split : forall l2 c l3 q f f' ff,
  istory (l2 ++ c :: l3) q f f' ff ->
  exists fc, ok_ fc c /\ item_result fc ff c /\
    forall x j, lookup f x = Some (NFile j) -> (forall b, In b l2 -> wr_ b x = false) ->
                lookup fc x = Some (NFile j).
Proof.
  induction l2 as [|a l2 IH]; intros c l3 q f f' ff HS.
  - cbn [app istory] in HS. destruct HS as (f1 & HO & _ & _ & HR & _).
    exists f. split; [exact HO|]. split; [exact HR|]. intros x j Hx _. exact Hx.
  - cbn [app istory] in HS. destruct HS as (f1 & HO & Hh & HP & _ & HS).
    destruct (IH c l3 _ _ _ _ HS) as (fc & C1 & C2 & C3).
    exists fc. split; [exact C1|]. split; [exact C2|].
    intros x j Hx Hall. apply C3; [|intros b0 Hb0; apply Hall; right; exact Hb0].
    assert (Hroot : head_name q <> root_path).
    { intros E. rewrite E, lookup_root in Hh. discriminate. }
    pose proof (item_fstep _ _ _ _ _ _ _ _ _ HO HP Hroot) as HF.
    apply (keep_file _ _ _ _ _ _ _ _ _ HF Hh x j Hx). apply Hall. left. reflexivity.
Qed.

(* C11 inside a mixed pass: a member p = X/name/r of the project P = X/name is
   stored, later in the same pass the project entry is reached; if the entries
   between the two write neither the source nor the unstable link, the snapshot
   holds at r THE INODE of the version stored for the member *)
Theorem story_member_project : forall l1 p k t i b l2 P t2 l3 X name r q f f' ff,
  istory (l1 ++ IMember p k t i b :: l2 ++ IProject P t2 :: l3) q f f' ff ->
  member_split p k X name (ch_slash :: r) -> P = firstn k p ->
  Forall (fun c => wr_ c (upn p k) = false /\ wr_ c p = false) l2 ->
  exists n,
    lookup ff (dstn p) = Some (NFile n) /\ f_bytes (get_file ff n) = b /\
    lookup ff (D_ P) = Some NDir /\
    lookup ff (D_ P ++ ch_slash :: r) = Some (NFile n).
Proof.
  induction l1 as [|a l1 IH]; intros p k t i b l2 P t2 l3 X name r q f f' ff HS Hsplit HP Hl2.
  - cbn [app istory] in HS. destruct HS as (f1 & [HO HM] & Hh & HMP & [R1 R2] & HS).
    cbn [item_post] in HMP.
    destruct (istory_split _ _ _ _ _ _ _ HS) as (fc & HOc & [Rc1 Rc2] & Hkeep).
    cbn [item_ok] in HOc.
    exists (fs_next f). split; [exact R1|]. split; [exact R2|]. split; [exact Rc1|].
    rewrite Rc2. unfold SnapshotProofs.snap.
    destruct (member_path_eq cfg p k X name (ch_slash :: r) Hsplit) as (_ & _ & EUP).
    destruct (member_split_root _ _ _ _ _ Hsplit) as [EP Erest].
    rewrite Erest in EUP. rewrite <- HP in EUP. fold (U_ P) in EUP.
    assert (Epr : p = P ++ ch_slash :: r).
    { rewrite <- (firstn_skipn k p) at 1. rewrite <- HP, Erest. reflexivity. }
    rewrite Forall_forall in Hl2.
    (* the source is still there, the unstable link is the new version *)
    assert (Hup : upn p k <> p).
    { intros E. destruct (JO_UP _ _ _ _ _ _ HOc) as [N1 [N2 N3]].
      assert (A : under (U_ P) p) by (exists r; rewrite <- E; exact EUP).
      assert (B : under P p) by (exists r; exact Epr).
      destruct (under_both _ _ _ A B) as [C|[C|C]]; auto. }
    assert (Hsrc : lookup f1 p = Some (NFile i)).
    { rewrite (MP_exist _ _ _ _ _ _ _ _ _ _ HMP);
        [exact (PO_src _ _ _ _ _ _ _ _ _ HO) | | exact (fun E => Hup (eq_sym E))
         | rewrite (PO_src _ _ _ _ _ _ _ _ _ HO); discriminate].
      intros E. pose proof (PO_src _ _ _ _ _ _ _ _ _ HO) as A. rewrite E, Hh in A. discriminate. }
    assert (Hc1 : lookup fc p = Some (NFile i)).
    { apply Hkeep; [exact Hsrc|]. intros c Hc. exact (proj2 (Hl2 c Hc)). }
    assert (Hc2 : lookup fc (upn p k) = Some (NFile (fs_next f))).
    { apply Hkeep; [exact (MP_link _ _ _ _ _ _ _ _ _ _ HMP)|]. intros c Hc. exact (proj1 (Hl2 c Hc)). }
    rewrite <- Epr. unfold fs_exists. rewrite Hc1. rewrite <- EUP. exact Hc2.
  - cbn [app istory] in HS. destruct HS as (f1 & _ & _ & _ & _ & HS).
    exact (IH _ _ _ _ _ _ _ _ _ _ _ _ _ _ _ _ HS Hsplit HP Hl2).
Qed.

End Story.

Print Assumptions chain_story.
Print Assumptions story_member_project.

(* ====================================================================== *)
(* 9. handle_timeout over a mixed due prefix                               *)
(* ====================================================================== *)

(* "One pass over a queue whose due prefix consists of plain files, history
   files, project members and project roots IN ANY ORDER (each the last entry
   of its path, pairwise independent) pops exactly the prefix, returns the
   pause of the first entry that is not due, raises no error, and for every
   item: its own post holds between the file system before and after ITS
   iteration, and its version / slice and position / snapshot is in the FINAL
   file system.  Nothing else has changed: a name outside the queue directory
   and outside every footprint holds what it held, a name that existed outside
   the queue directory, the new versions, the position files, the unstable
   links and trees and the new snapshots holds what it held, an old inode other
   than the journal and the position files has its bytes." *)
Theorem handle_timeout_mixed_pass o rev its rest h w :
  benign o ->
  tr_ok (w_tr w) = true -> keys_nodup (w_fs w) -> parents_exist (w_fs w) ->
  let cfg := h_cfg h in let cpl := h_cpl h in let oj := h_journal h in
  let qdir := q_dir (h_q h) in let now := w_clock w in let f := w_fs w in
  QRel (h_q h) f (map qent_of_item its ++ rest) ->
  Forall (fun it => (q_deb (h_q h) <= now - itime it)%Z) its ->      (* the prefix is due *)
  ilast its rest ->                                                   (* no path is queued again behind *)
  not_due now (q_deb (h_q h)) rest ->                                 (* what follows is not due *)
  Forall (item_ok cfg cpl oj qdir now f) its ->                       (* on the INITIAL file system *)
  items_indep cfg cpl now its ->
  exists w',
    handle_timeout rev h o w =
      (Some (TPause (pause_of now (q_deb (h_q h)) rest), set_q (ipops its (h_q h)) h), w') /\
    let f' := w_fs w' in
    (* item by item *)
    istory cfg cpl oj qdir now its (h_q h) f f' f' /\
    (* nothing extra *)
    (forall x, Str.under qdir x = false ->
               (forall it, In it its -> wr cfg cpl now it x = false /\ ~ In x (mk cfg cpl now it)) ->
               lookup f' x = lookup f x) /\
    (* nothing lost *)
    (forall x, Str.under qdir x = false -> lookup f x <> None ->
               (forall it, In it its -> wr cfg cpl now it x = false) -> lookup f' x = lookup f x) /\
    (forall k, k < fs_next f -> (forall it, In it its -> ~ In k (xi it)) ->
               (forall jn, oj = Some jn -> k <> j_ino jn) -> get_file f' k = get_file f k) /\
    (* the prefix is gone from the queue directory, the invariants hold for the rest *)
    QRel (ipops its (h_q h)) f' rest /\ keys_nodup f' /\ parents_exist f' /\
    (* no error *)
    tr_ok (w_tr w') = true /\ (t_post (w_tr w) = 0 -> w_tr w' = w_tr w) /\
    w_clock w' = now.
Proof.
  intros H Hok Hnd Hpe cfg cpl oj qdir now f HR Hdue Hlast Hstop Hall [Hahead Hbehind].
  assert (Hfuel : length its < S (S (N.to_nat (q_size (h_q h))))).
  { rewrite (QR_size _ _ _ HR), Nat2N.id, app_length, map_length. lia. }
  destruct (mixed_pass_loop o rev H its rest _ h w Hok Hnd Hpe HR Hdue Hlast Hstop Hall Hahead Hfuel)
    as (w' & E & CP & HR' & Hnd' & Hpe' & [K1 K2] & C').
  unfold handle_timeout.
  rewrite (bind_some _ _ _ _ _ _ E).
  rewrite (bind_some _ _ _ _ _ _ (is_ok_eq o w')). rewrite K1. unfold ret_.
  exists w'. split; [reflexivity|]. cbv zeta.
  pose proof (QR_nroot _ _ _ HR) as Hqr.
  destruct (chain_frame cfg cpl oj qdir now Hqr its (h_q h) f (w_fs w') eq_refl CP) as (A1 & A2 & A3 & _).
  split.
  { apply (chain_story cfg cpl oj qdir now Hqr its (h_q h) f (w_fs w') (w_fs w') eq_refl CP eq_refl Hbehind).
    apply (xi_bound_ok cfg cpl oj qdir now). exact Hall. }
  split; [exact A1|]. split; [exact A2|]. split; [exact A3|].
  split; [exact HR'|]. split; [exact Hnd'|]. split; [exact Hpe'|].
  split; [exact K1|]. split; [exact K2 | exact C'].
Qed.
Print Assumptions handle_timeout_mixed_pass.

(* ---------- stage (1): only plain and history entries ---------- *)

Definition plain_or_hist (it : item) : bool :=
  match it with IPlain _ | IHist _ _ _ _ _ _ => true | _ => false end.

(* a due prefix mixing plain and history entries in any order: every plain
   entry has exactly its whole copy, every history entry exactly the slice from
   its remembered position and the new position; inode numbers in queue order *)
Theorem mixed_pass_plain_hist o rev its rest h w :
  benign o ->
  tr_ok (w_tr w) = true -> keys_nodup (w_fs w) -> parents_exist (w_fs w) ->
  let cfg := h_cfg h in let cpl := h_cpl h in let oj := h_journal h in
  let qdir := q_dir (h_q h) in let now := w_clock w in let f := w_fs w in
  forallb plain_or_hist its = true ->
  QRel (h_q h) f (map qent_of_item its ++ rest) ->
  Forall (fun it => (q_deb (h_q h) <= now - itime it)%Z) its ->
  ilast its rest -> not_due now (q_deb (h_q h)) rest ->
  Forall (item_ok cfg cpl oj qdir now f) its ->
  items_indep cfg cpl now its ->
  exists w',
    handle_timeout rev h o w =
      (Some (TPause (pause_of now (q_deb (h_q h)) rest), set_q (ipops its (h_q h)) h), w') /\
    let f' := w_fs w' in
    (* every entry: one new version, with the bytes its kind prescribes *)
    (forall j it, nth_error its j = Some it ->
       exists n, fs_next f <= n < fs_next f' /\
         match it with
         | IPlain e =>
             lookup f' (store_name cfg cpl now (e_path e)) = Some (NFile n) /\
             f_bytes (get_file f' n) = e_bytes e
         | IHist p _ _ b off _ =>
             lookup f' (store_name cfg cpl now p) = Some (NFile n) /\
             f_bytes (get_file f' n) = skipn off b /\
             pos_is f' (offset_name cfg cpl p) (length b)
         | _ => False
         end) /\
    (* in queue order *)
    (forall j j' a b na nb, nth_error its j = Some a -> nth_error its j' = Some b -> j < j' ->
       lookup f' (store_name cfg cpl now (ipath a)) = Some (NFile na) ->
       lookup f' (store_name cfg cpl now (ipath b)) = Some (NFile nb) -> na < nb) /\
    (* nothing extra, nothing lost *)
    (forall x, Str.under qdir x = false ->
               (forall it, In it its -> wr cfg cpl now it x = false /\ ~ In x (mk cfg cpl now it)) ->
               lookup f' x = lookup f x) /\
    (forall x, Str.under qdir x = false -> lookup f x <> None ->
               (forall it, In it its -> wr cfg cpl now it x = false) -> lookup f' x = lookup f x) /\
    (forall k, k < fs_next f -> (forall it, In it its -> ~ In k (xi it)) ->
               (forall jn, oj = Some jn -> k <> j_ino jn) -> get_file f' k = get_file f k) /\
    QRel (ipops its (h_q h)) f' rest /\ keys_nodup f' /\ parents_exist f' /\
    tr_ok (w_tr w') = true /\ (t_post (w_tr w) = 0 -> w_tr w' = w_tr w) /\
    w_clock w' = now.
Proof.
  intros H Hok Hnd Hpe cfg cpl oj qdir now f Hkind HR Hdue Hlast Hstop Hall Hind.
  destruct (handle_timeout_mixed_pass o rev its rest h w H Hok Hnd Hpe HR Hdue Hlast Hstop Hall Hind)
    as (w' & E & HS & A1 & A2 & A3 & HR' & Hnd' & Hpe' & K1 & K2 & C').
  fold cfg cpl oj qdir now f in HS, A1, A2, A3.
  exists w'. split; [exact E|]. cbv zeta.
  assert (Hk : forall j it, nth_error its j = Some it -> plain_or_hist it = true).
  { intros j it Hj. rewrite forallb_forall in Hkind. apply Hkind. exact (nth_error_In _ _ Hj). }
  split.
  { intros j it Hj. specialize (Hk j it Hj).
    destruct (istory_nth _ _ _ _ _ _ _ _ _ _ HS j it Hj) as (fb & B1 & B2 & B3 & _ & B4).
    exists (fs_next fb).
    destruct it as [e|p t i b off pio|p k t i b|P t]; cbn [plain_or_hist] in Hk; try discriminate;
      cbn [item_result] in B4; (split; [split; [exact B1 | exact (B3 eq_refl)] | exact B4]). }
  split.
  { intros j j' a b na nb Hj Hj' Hlt La Lb.
    pose proof (Hk j a Hj) as Ka. pose proof (Hk j' b Hj') as Kb.
    assert (Hfa : is_file_item a = true) by (destruct a; try reflexivity; discriminate).
    destruct (istory_order _ _ _ _ _ _ _ _ _ _ HS j j' a b Hj Hj' Hlt Hfa) as (fa & fb & Ra & Rb & Hn).
    assert (Ea : na = fs_next fa).
    { destruct a as [e|p t i b0 off pio|p k t i b0|P t]; cbn [plain_or_hist] in Ka; try discriminate;
        cbn [item_result ipath qent_of_item qpath fst] in Ra, La; destruct Ra as [Ra _]; congruence. }
    assert (Eb : nb = fs_next fb).
    { destruct b as [e|p t i b0 off pio|p k t i b0|P t]; cbn [plain_or_hist] in Kb; try discriminate;
        cbn [item_result ipath qent_of_item qpath fst] in Rb, Lb; destruct Rb as [Rb _]; congruence. }
    lia. }
  split; [exact A1|]. split; [exact A2|]. split; [exact A3|].
  split; [exact HR'|]. split; [exact Hnd'|]. split; [exact Hpe'|].
  split; [exact K1|]. split; [exact K2 | exact C'].
Qed.
Print Assumptions mixed_pass_plain_hist.

(* the C11 statement for handle_timeout: the snapshot taken in a mixed pass
   links the version of the member stored earlier in the same pass *)
Corollary mixed_pass_member_project o rev l1 p k t i b l2 P t2 l3 rest h w X name r :
  benign o ->
  tr_ok (w_tr w) = true -> keys_nodup (w_fs w) -> parents_exist (w_fs w) ->
  let cfg := h_cfg h in let cpl := h_cpl h in let oj := h_journal h in
  let qdir := q_dir (h_q h) in let now := w_clock w in let f := w_fs w in
  let its := l1 ++ IMember p k t i b :: l2 ++ IProject P t2 :: l3 in
  QRel (h_q h) f (map qent_of_item its ++ rest) ->
  Forall (fun it => (q_deb (h_q h) <= now - itime it)%Z) its ->
  ilast its rest -> not_due now (q_deb (h_q h)) rest ->
  Forall (item_ok cfg cpl oj qdir now f) its -> items_indep cfg cpl now its ->
  member_split p k X name (ch_slash :: r) -> P = firstn k p ->
  Forall (fun c => wr cfg cpl now c (member_path cfg p k) = false /\ wr cfg cpl now c p = false) l2 ->
  exists w' n,
    handle_timeout rev h o w =
      (Some (TPause (pause_of now (q_deb (h_q h)) rest), set_q (ipops its (h_q h)) h), w') /\
    lookup (w_fs w') (store_name cfg cpl now p) = Some (NFile n) /\
    f_bytes (get_file (w_fs w') n) = b /\
    lookup (w_fs w') (pD cfg now P) = Some NDir /\
    lookup (w_fs w') (pD cfg now P ++ ch_slash :: r) = Some (NFile n) /\
    tr_ok (w_tr w') = true.
Proof.
  intros H Hok Hnd Hpe cfg cpl oj qdir now f its HR Hdue Hlast Hstop Hall Hind Hsplit HP Hl2.
  destruct (handle_timeout_mixed_pass o rev its rest h w H Hok Hnd Hpe HR Hdue Hlast Hstop Hall Hind)
    as (w' & E & HS & _ & _ & _ & _ & _ & _ & K1 & _).
  destruct (story_member_project cfg cpl oj qdir now l1 p k t i b l2 P t2 l3 X name r _ _ _ _ HS Hsplit HP Hl2)
    as (n & A1 & A2 & A3 & A4).
  exists w', n. split; [exact E|]. split; [exact A1|]. split; [exact A2|]. split; [exact A3|].
  split; [exact A4 | exact K1].
Qed.
Print Assumptions mixed_pass_member_project.

(* ---------- the journal: one line per item, in queue order ---------- *)

Definition ijlines (cfg : config) (cpl : nat) (oj : option journal) (now : Z) (its : list item) : str :=
  concat (map (fun it => jline oj (c_ev_stored cfg) (rel_of cpl (ipath it)) now) its).

Lemma post_journal cfg cpl oj now hname f f1 it jn :
  item_post cfg cpl oj now hname f f1 it -> oj = Some jn ->
  f_bytes (get_file f1 (j_ino jn)) =
  f_bytes (get_file f (j_ino jn)) ++ jline oj (c_ev_stored cfg) (rel_of cpl (ipath it)) now.
Proof.
  intros HP Ej.
  destruct it as [e|p t i b off pio|p k t i b|P t];
    cbn [item_post ipath qent_of_item qpath fst] in *.
  - exact (proj1 (SP_journal _ _ _ _ _ _ _ _ _ HP jn Ej)).
  - exact (proj1 (HP_journal _ _ _ _ _ _ _ _ _ _ HP jn Ej)).
  - exact (proj1 (MP_journal _ _ _ _ _ _ _ _ _ _ HP jn Ej)).
  - destruct HP as (fa & fb & (FF & _) & HJ & ->).
    change (get_file (del_dent hname fb) (j_ino jn)) with (get_file fb (j_ino jn)).
    assert (Ea : get_file fa (j_ino jn) = get_file f (j_ino jn)) by (unfold get_file; rewrite FF; reflexivity).
    rewrite <- Ea. subst oj. unfold SnapshotProofs.journal_after in HJ. cbn [jline].
    destruct (c_ev_stored cfg) as [ev|].
    + destruct HJ as (A & _). exact A.
    + rewrite HJ, app_nil_r. reflexivity.
Qed.

Theorem istory_journal cfg cpl oj qdir now jn : oj = Some jn -> forall its q f f' ff,
  istory cfg cpl oj qdir now its q f f' ff ->
  f_bytes (get_file f' (j_ino jn)) = f_bytes (get_file f (j_ino jn)) ++ ijlines cfg cpl oj now its.
Proof.
  intros Ej. induction its as [|it l IH]; intros q f f' ff HS; cbn [istory] in HS.
  - subst f'. unfold ijlines. cbn [map concat]. rewrite app_nil_r. reflexivity.
  - destruct HS as (f1 & _ & _ & HP & _ & HS). rewrite (IH _ _ _ _ HS).
    rewrite (post_journal _ _ _ _ _ _ _ _ _ HP Ej). unfold ijlines. cbn [map concat].
    rewrite app_assoc. reflexivity.
Qed.
Print Assumptions istory_journal.

(* ====================================================================== *)
(* 10. the hypotheses are decidable: boolean checkers                      *)
(* ====================================================================== *)

Section Checkers.
Variables (cfg : config) (cpl : nat) (jn : journal) (qdir : str) (now : Z).

Notation dstn := (store_name cfg cpl now).
Notation offn := (offset_name cfg cpl).
Notation upn := (member_path cfg).
Notation D_ := (pD cfg now).
Notation U_ := (pU cfg).
Notation wr_ := (wr cfg cpl now).
Notation mk_ := (mk cfg cpl now).

Definition nnb := SnapshotProofs.nnb.

Definition proj_okb (f : fs) (P : str) : bool :=
  negb (is_slash (last P ch_dot)) &&
  Nat.leb (length (version_of cfg now)) 255 &&
  negb (existsb is_slash (version_of cfg now)) &&
  Nat.leb (length (expand_pattern (j_pattern jn) (dec (Z.to_N now)))) 255 &&
  prefixb [ch_slash] (D_ P) &&
  negb (str_eqb (U_ P) root_path) &&
  nnb (U_ P) (D_ P) && nnb (U_ P) P && nnb (D_ P) P && nnb qdir (D_ P) && nnb qdir (U_ P) &&
  match lookup f (D_ P) with None => true | _ => false end &&
  forallb (fun d => match lookup f d with Some NDir | None => true | _ => false end)
          (parents_of (D_ P)).

Lemma proj_okb_sound f P : proj_okb f P = true -> proj_ok cfg (Some jn) qdir f now P.
Proof.
  unfold proj_okb. intros Hc.
  repeat (apply andb_true_iff in Hc; let H1 := fresh "C" in destruct Hc as [Hc H1]).
  constructor.
  - apply negb_true_iff. exact Hc.
  - apply Nat.leb_le. assumption.
  - apply negb_true_iff. assumption.
  - cbn [SnapshotProofs.journal_ts_ok]. apply Nat.leb_le. assumption.
  - apply prefix_slash_abs. assumption.
  - apply str_eqb_neq. apply negb_true_iff. assumption.
  - apply SnapshotProofs.nnb_sound. assumption.
  - apply SnapshotProofs.nnb_sound. assumption.
  - apply SnapshotProofs.nnb_sound. assumption.
  - apply SnapshotProofs.nnb_sound. assumption.
  - apply SnapshotProofs.nnb_sound. assumption.
  - destruct (lookup f (D_ P)); [discriminate | reflexivity].
  - intros d Hd. rewrite forallb_forall in C. specialize (C d Hd).
    destruct (lookup f d) as [[| |]|]; try discriminate; auto.
Qed.

Definition onodeb (n : option node) (pio : option nat) : bool :=
  match n, pio with
  | None, None => true
  | Some (NFile io), Some io' => Nat.eqb io io'
  | _, _ => false
  end.

Definition item_okb (f : fs) (it : item) : bool :=
  match it with
  | IPlain e => plain_okb cfg cpl jn qdir f now (e_path e) (e_ino e) (e_bytes e)
  | IHist p _ i b off pio =>
      hist_okb cfg cpl (Some jn) qdir f now p i b off && onodeb (lookup f (offn p)) pio
  | IMember p k _ i b =>
      plain_okb cfg cpl jn qdir f now p i b && member_okb cfg cpl qdir f now p k
  | IProject P _ => proj_okb f P
  end.

Lemma item_okb_sound f it : item_okb f it = true -> item_ok cfg cpl (Some jn) qdir now f it.
Proof.
  destruct it as [e|p t i b off pio|p k t i b|P t]; cbn [item_okb item_ok]; intros Hc.
  - apply plain_okb_sound. exact Hc.
  - apply andb_true_iff in Hc. destruct Hc as [A B]. split; [apply hist_okb_sound; exact A|].
    unfold onodeb in B. destruct (lookup f (offn p)) as [[|io|]|]; destruct pio as [io'|]; try discriminate.
    + apply Nat.eqb_eq in B. subst. reflexivity.
    + reflexivity.
  - apply andb_true_iff in Hc. destruct Hc as [A B].
    split; [apply plain_okb_sound; exact A | apply member_okb_sound; exact B].
  - apply proj_okb_sound. exact Hc.
Qed.

Lemma all_okb_sound f its : forallb (item_okb f) its = true -> Forall (item_ok cfg cpl (Some jn) qdir now f) its.
Proof.
  intros Hc. apply Forall_forall. intros it Hin. rewrite forallb_forall in Hc.
  apply item_okb_sound. exact (Hc it Hin).
Qed.

(* ----- independence ----- *)

Definition clearb (W : str -> bool) (Dr : list str) (X : list nat)
           (ex dr : list str) (ino : list nat) : bool :=
  forallb (fun x => negb (W x) && negb (mem x Dr)) ex &&
  forallb (fun x => negb (W x)) dr &&
  forallb (fun k => negb (existsb (Nat.eqb k) X)) ino.

Lemma clearb_sound W Dr X ex dr ino : clearb W Dr X ex dr ino = true -> clear W Dr X ex dr ino.
Proof.
  unfold clearb. intros Hc. apply andb_true_iff in Hc. destruct Hc as [Hc C3].
  apply andb_true_iff in Hc. destruct Hc as [C1 C2].
  rewrite forallb_forall in C1, C2, C3. constructor.
  - intros x Hx. specialize (C1 x Hx). apply andb_true_iff in C1. destruct C1 as [A B].
    apply negb_true_iff in A, B. split; [exact A | exact (not_mem_not_in _ _ B)].
  - intros x Hx. specialize (C2 x Hx). apply negb_true_iff in C2. exact C2.
  - intros k Hk Hin. specialize (C3 k Hk). apply negb_true_iff in C3.
    assert (E : existsb (Nat.eqb k) X = true).
    { apply existsb_exists. exists k. split; [exact Hin | apply Nat.eqb_refl]. }
    congruence.
Qed.

Definition undisturbedb (a b : item) : bool :=
  clearb (wr_ a) (mk_ a) (xi a) (rd_ex cfg cpl now b) (rd_dr cfg cpl now b) (rd_ino b).

Fixpoint items_aheadb (its : list item) : bool :=
  match its with
  | [] => true
  | a :: l => forallb (undisturbedb a) l && items_aheadb l
  end.

Lemma items_aheadb_sound its : items_aheadb its = true -> items_ahead cfg cpl now its.
Proof.
  induction its as [|a l IH]; intros Hc; [exact I|].
  cbn [items_aheadb] in Hc. apply andb_true_iff in Hc. destruct Hc as [A B].
  split; [|exact (IH B)]. apply Forall_forall. intros b Hb. rewrite forallb_forall in A.
  apply clearb_sound. exact (A b Hb).
Qed.

(* the names a file item writes *)
Definition wrl (it : item) : list str :=
  match it with
  | IPlain e => [dstn (e_path e)]
  | IHist p _ _ _ _ _ => [dstn p; offn p]
  | IMember p k _ _ _ => [dstn p; upn p k]
  | IProject _ _ => []
  end.

Lemma wr_wrl it x : is_file_item it = true -> wr_ it x = true -> In x (wrl it).
Proof.
  destruct it as [e|p t i b off pio|p k t i b|P t]; cbn [is_file_item wr wrl]; intros Hf Hw;
    try discriminate.
  - left. symmetry. apply str_eqb_eq. exact Hw.
  - apply orb_true_iff in Hw. destruct Hw as [A|A]; apply str_eqb_eq in A; subst; cbn; auto.
  - apply orb_true_iff in Hw. destruct Hw as [A|A]; apply str_eqb_eq in A; subst; cbn; auto.
Qed.

(* nothing [b] writes or makes lies in the snapshot directory of the project [P] *)
Definition treeb (b : item) (P : str) : bool :=
  match b with
  | IProject P' _ => nnb (D_ P) (D_ P') && nnb (D_ P) (U_ P')
  | _ => forallb (fun y => negb (Str.under (D_ P) y)) (wrl b ++ mk_ b)
  end.

Lemma treeb_sound b P : treeb b P = true ->
  forall x, under (D_ P) x -> wr_ b x = false /\ ~ In x (mk_ b).
Proof.
  intros Hc x Hx.
  assert (Hfile : is_file_item b = true ->
                  forallb (fun y => negb (Str.under (D_ P) y)) (wrl b ++ mk_ b) = true ->
                  wr_ b x = false /\ ~ In x (mk_ b)).
  { intros Hf Hall. rewrite forallb_forall in Hall.
    assert (Hno : forall y, In y (wrl b ++ mk_ b) -> y <> x).
    { intros y Hy ->. specialize (Hall x Hy). apply negb_true_iff in Hall.
      apply underb_spec in Hx. congruence. }
    split.
    - destruct (wr_ b x) eqn:E; [|reflexivity]. exfalso.
      apply (Hno x); [apply in_or_app; left; exact (wr_wrl b x Hf E) | reflexivity].
    - intros Hin. apply (Hno x); [apply in_or_app; right; exact Hin | reflexivity]. }
  destruct b as [e|p t i bb off pio|p k t i bb|P' t]; cbn [treeb] in Hc;
    try (apply Hfile; [reflexivity | exact Hc]).
  apply andb_true_iff in Hc. destruct Hc as [A B].
  apply SnapshotProofs.nnb_sound in A, B. destruct A as [A1 [A2 A3]]. destruct B as [B1 [B2 B3]].
  cbn [wr mk]. split.
  - unfold W_proj. apply orb_false_intro; [apply orb_false_intro|].
    + apply eqb_false_intro. intros ->. exact (A2 Hx).
    + destruct (Str.under (D_ P') x) eqn:E; [|reflexivity]. exfalso. apply underb_spec in E.
      destruct (under_both _ _ _ Hx E) as [C|[C|C]]; auto.
    + destruct (Str.under (U_ P') x) eqn:E; [|reflexivity]. exfalso. apply underb_spec in E.
      destruct (under_both _ _ _ Hx E) as [C|[C|C]]; auto.
  - intros Hin. apply parents_of_prefix in Hin. apply A2. exact (under_trans _ _ _ Hx Hin).
Qed.

Definition keepsb (b a : item) : bool :=
  forallb (fun x => negb (wr_ b x) && negb (mem x (mk_ b))) (outs cfg cpl now a) &&
  forallb (fun k => negb (existsb (Nat.eqb k) (xi b))) (xi a) &&
  match a with IProject P _ => treeb b P | _ => true end.

Lemma keepsb_sound b a : keepsb b a = true -> keeps cfg cpl now b a.
Proof.
  unfold keepsb. intros Hc. apply andb_true_iff in Hc. destruct Hc as [Hc C3].
  apply andb_true_iff in Hc. destruct Hc as [C1 C2].
  rewrite forallb_forall in C1, C2. constructor.
  - intros x Hx. specialize (C1 x Hx). apply andb_true_iff in C1. destruct C1 as [A B].
    apply negb_true_iff in A, B. split; [exact A | exact (not_mem_not_in _ _ B)].
  - intros k Hk Hin. specialize (C2 k Hk). apply negb_true_iff in C2.
    assert (E : existsb (Nat.eqb k) (xi b) = true).
    { apply existsb_exists. exists k. split; [exact Hin | apply Nat.eqb_refl]. }
    congruence.
  - destruct a as [e|p t i bb off pio|p k t i bb|P t]; try exact I.
    apply treeb_sound. exact C3.
Qed.

Fixpoint items_behindb (its : list item) : bool :=
  match its with
  | [] => true
  | a :: l => forallb (fun b => keepsb b a) l && items_behindb l
  end.

Lemma items_behindb_sound its : items_behindb its = true -> items_behind cfg cpl now its.
Proof.
  induction its as [|a l IH]; intros Hc; [exact I|].
  cbn [items_behindb] in Hc. apply andb_true_iff in Hc. destruct Hc as [A B].
  split; [|exact (IH B)]. apply Forall_forall. intros b Hb. rewrite forallb_forall in A.
  apply keepsb_sound. exact (A b Hb).
Qed.

Definition items_indepb (its : list item) : bool := items_aheadb its && items_behindb its.

Lemma items_indepb_sound its : items_indepb its = true -> items_indep cfg cpl now its.
Proof.
  unfold items_indepb. intros Hc. apply andb_true_iff in Hc. destruct Hc as [A B].
  split; [apply items_aheadb_sound; exact A | apply items_behindb_sound; exact B].
Qed.

End Checkers.

(* ====================================================================== *)
(* 11. a concrete pass: /h/l (history), /h/a (plain), /h/p/m.c (member),   *)
(*     /h/p (project), and /h/z (not due) in one queue                     *)
(* ====================================================================== *)

From Coq Require Import String.

(* ----- building a queue by pushes ----- *)

Fixpoint push_all (es : list qent) (q : qmem) (f : fs) : qmem * fs :=
  match es with
  | [] => (q, f)
  | e :: es' =>
      push_all es' (pushed (qpath e) q)
               (add_dent (next_name q) (NLink (encode (snd (fst e)) (qpath e)) (snd e)) f)
  end.

Lemma QRel_push_all es : forall q f ents,
  QRel q f ents ->
  Forall (fun e => normal (qpath e) /\ fits (q_len_guess q) e) es ->
  QRel (fst (push_all es q f)) (snd (push_all es q f)) (ents ++ es).
Proof.
  induction es as [|[[p m] t] es IH]; intros q f ents HR Hwf.
  - cbn [push_all fst snd]. rewrite app_nil_r. exact HR.
  - inversion Hwf as [|? ? [Hn Hf] Hwf']; subst. cbn [push_all qpath fst snd].
    replace (ents ++ (p, m, t) :: es) with ((ents ++ [(p, m, t)]) ++ es)
      by (rewrite <- app_assoc; reflexivity).
    apply IH; [apply QRel_push; assumption | exact Hwf'].
Qed.

Definition wfb (g : nat) (e : qent) : bool :=
  normalb (qpath e) && Nat.leb (List.length (encode (snd (fst e)) (qpath e))) g.

Lemma wfb_sound g es : forallb (wfb g) es = true ->
  Forall (fun e => normal (qpath e) /\ fits g e) es.
Proof.
  intros Hc. apply Forall_forall. intros e He. rewrite forallb_forall in Hc. specialize (Hc e He).
  apply andb_true_iff in Hc. destruct Hc as [A B]. split; [apply normalb_spec; exact A|].
  unfold fits. apply QueueExample.fits_small. apply Nat.leb_le. exact B.
Qed.

Module MixedPassExample.
  Definition lit (x : string) : str := list_ascii_of_string x.

  (* store /s, snapshots /ps, unstable trees /u, queue /q, journal /j (inode 1),
     positions /o; versions and time stamps are "<seconds>"; debounce 5 s; the
     common parent of the watched tree is "/h/" *)
  Definition cfg0 : config :=
    mkCfg [] (mkRules [] [] [] [] [] []) (lit "/s") (lit "/ps") (lit "/u") (lit "/q")
          (Some (lit "/j")) (lit "/o") (lit "%s") (lit "%s") 5%Z 0 32
          None None None None None None (Some (lit "stored")).
  Definition jn0 : journal := mkJ 1 (lit "%s").

  Definition p_l : str := lit "/h/l".          (* a history file: "abcde", stored up to 2 *)
  Definition p_a : str := lit "/h/a".          (* a plain file *)
  Definition p_m : str := lit "/h/p/m.c".      (* a member of the project /h/p *)
  Definition Pn : str := lit "/h/p".
  Definition p_z : str := lit "/h/z".          (* written 2 s ago: not due *)

  Definition fs0 : fs :=
    mkFs [ (lit "/h", NDir); (p_l, NFile 2); (p_a, NFile 4); (Pn, NDir); (p_m, NFile 5);
           (p_z, NFile 6); (lit "/o", NDir); (lit "/o/l", NFile 3);
           (lit "/j", NFile 1); (lit "/q", NDir) ]
         [ (1, mkFile [] true); (2, mkFile (lit "abcde") true); (3, mkFile (lit "2") true);
           (4, mkFile (lit "hello") true); (5, mkFile (lit "int") true); (6, mkFile (lit "zz") true) ]
         7.

  Definition its : list item :=
    [ IHist p_l 10 2 (lit "abcde") 2 (Some 3);
      IPlain (mkE p_a 11 4 (lit "hello"));
      IMember p_m 4 12 5 (lit "int");
      IProject Pn 12 ].
  Definition rest : list qent := [(p_z, 0%N, 98%Z)].

  Definition q0 : qmem := mkQ (lit "/q") 0 0 5%Z 32 [].
  Definition qf := push_all (map qent_of_item its ++ rest) q0 fs0.
  Definition h0 : handler := mkH cfg0 None 3 (fst qf) (Some jn0) [] [].
  Definition w0 : world := mkW (snd qf) 0 [] 100%Z tr_empty.

  Lemma queue0 : QRel (h_q h0) (w_fs w0) (map qent_of_item its ++ rest).
  Proof.
    change (map qent_of_item its ++ rest) with ([] ++ (map qent_of_item its ++ rest)).
    apply QRel_push_all.
    - apply QRel_empty; [discriminate | reflexivity|].
      intros k. apply SnapshotProofs.nothing_under; [discriminate | discriminate | vm_compute; reflexivity].
    - apply wfb_sound. vm_compute. reflexivity.
  Qed.

  Definition o2 : oracle := fun _ => FShort 2.
  Lemma o2_benign : benign o2.
  Proof. intros i. right. exists 2. split; [lia | left; reflexivity]. Qed.

  Example split_m : member_split p_m 4 (lit "/h") (lit "p") (ch_slash :: lit "m.c").
  Proof. constructor; reflexivity. Qed.

  Definition v_l : str := lit "/s/l/100".
  Definition v_a : str := lit "/s/a/100".
  Definition v_m : str := lit "/s/p/m.c/100.c".
  Definition u_m : str := lit "/u/p/m.c".
  Definition D0 : str := lit "/ps/p/100".

  Example names :
    store_name (h_cfg h0) (h_cpl h0) (w_clock w0) p_l = v_l /\
    store_name (h_cfg h0) (h_cpl h0) (w_clock w0) p_a = v_a /\
    store_name (h_cfg h0) (h_cpl h0) (w_clock w0) p_m = v_m /\
    member_path (h_cfg h0) p_m 4 = u_m /\
    pD (h_cfg h0) (w_clock w0) Pn = D0 /\ pU (h_cfg h0) Pn = lit "/u/p" /\
    offset_name (h_cfg h0) (h_cpl h0) p_l = lit "/o/l" /\
    firstn 4 p_m = Pn /\ fs_next (w_fs w0) = 7.
  Proof. vm_compute. repeat split. Qed.

  (* direct evaluation, at most 2 bytes per transfer *)
  Example run_o2 :
    match handle_timeout false h0 o2 w0 with
    | (Some (TPause z, h'), w') =>
        z = 3%Z /\ q_size (h_q h') = 1%N /\ w_tr w' = tr_empty /\
        lookup (w_fs w') v_l = Some (NFile 7) /\ get_file (w_fs w') 7 = mkFile (lit "cde") true /\
        lookup (w_fs w') (lit "/o/l") = Some (NFile 3) /\ get_file (w_fs w') 3 = mkFile (lit "5") true /\
        lookup (w_fs w') v_a = Some (NFile 8) /\ get_file (w_fs w') 8 = mkFile (lit "hello") true /\
        lookup (w_fs w') v_m = Some (NFile 9) /\ get_file (w_fs w') 9 = mkFile (lit "int") true /\
        lookup (w_fs w') u_m = Some (NFile 9) /\
        lookup (w_fs w') D0 = Some NDir /\
        lookup (w_fs w') (D0 ++ lit "/m.c")%list = Some (NFile 9) /\
        lookup (w_fs w') (lit "/q/3") = None /\ lookup (w_fs w') (lit "/q/4") <> None /\
        fs_next (w_fs w') = 10
    | _ => False
    end.
  Proof. vm_compute. repeat split. discriminate. Qed.

  Example hyps :
    tr_ok (w_tr w0) = true /\ keys_nodup (w_fs w0) /\ parents_exist (w_fs w0) /\
    Forall (fun it => (q_deb (h_q h0) <= w_clock w0 - itime it)%Z) its /\
    ilast its rest /\ not_due (w_clock w0) (q_deb (h_q h0)) rest /\
    Forall (item_ok cfg0 3 (Some jn0) (lit "/q") 100 (w_fs w0)) its /\
    items_indep cfg0 3 100 its.
  Proof.
    split; [reflexivity|].
    split; [apply SnapshotProofs.keys_nodup_check; vm_compute; reflexivity|].
    split; [apply parents_exist_b_sound; vm_compute; reflexivity|].
    split; [repeat constructor; vm_compute; discriminate|].
    split; [vm_compute; repeat split|].
    split; [vm_compute; reflexivity|].
    split; [apply all_okb_sound; vm_compute; reflexivity|].
    apply items_indepb_sound. vm_compute. reflexivity.
  Qed.

  (* the same from the theorem, for every benign oracle and both orders of the walk *)
  Example pass_by_theorem o rv : benign o ->
    exists w',
      handle_timeout rv h0 o w0 = (Some (TPause 3, set_q (ipops its (h_q h0)) h0), w') /\
      (* the history file: the slice from the remembered position, the new position *)
      lookup (w_fs w') v_l = Some (NFile 7) /\ f_bytes (get_file (w_fs w') 7) = lit "cde" /\
      pos_is (w_fs w') (lit "/o/l") 5 /\
      (* the plain file: a whole copy *)
      lookup (w_fs w') v_a = Some (NFile 8) /\ f_bytes (get_file (w_fs w') 8) = lit "hello" /\
      (* the member: its version; the snapshot links THE SAME INODE *)
      lookup (w_fs w') v_m = Some (NFile 9) /\ f_bytes (get_file (w_fs w') 9) = lit "int" /\
      lookup (w_fs w') D0 = Some NDir /\
      lookup (w_fs w') (D0 ++ lit "/m.c")%list = Some (NFile 9) /\
      (* the sources and the file that is not due are untouched; its entry is still queued *)
      lookup (w_fs w') p_l = Some (NFile 2) /\ get_file (w_fs w') 2 = mkFile (lit "abcde") true /\
      lookup (w_fs w') p_z = Some (NFile 6) /\ get_file (w_fs w') 6 = mkFile (lit "zz") true /\
      QRel (ipops its (h_q h0)) (w_fs w') rest /\
      w_tr w' = tr_empty.
  Proof.
    intros H.
    destruct hyps as (Y1 & Y2 & Y3 & Y4 & Y5 & Y6 & Y7 & Y8).
    destruct (handle_timeout_mixed_pass o rv its rest h0 w0 H Y1 Y2 Y3 queue0 Y4 Y5 Y6 Y7 Y8)
      as (w' & E & HS & A1 & A2 & A3 & HR' & _ & _ & K1 & K2 & _).
    destruct (story_member_project _ _ _ _ _ [IHist p_l 10 2 (lit "abcde") 2 (Some 3); IPlain (mkE p_a 11 4 (lit "hello"))]
                p_m 4 12 5 (lit "int") [] Pn 12 [] (lit "/h") (lit "p") (lit "m.c") _ _ _ _ HS split_m eq_refl
                (Forall_nil _)) as (n & M1 & M2 & M3 & M4).
    unfold its in HS. cbn [istory] in HS.
    destruct HS as (f1 & O1 & _ & P1 & R1 & f2 & O2 & _ & P2 & R2 & f3 & O3 & _ & P3 & R3 & _).
    cbn [item_result item_post e_path e_bytes] in *.
    destruct names as (N1 & N2 & N3 & N4 & N5 & N6 & N7 & N8 & N9).
    pose proof (HP_next _ _ _ _ _ _ _ _ _ _ P1) as X1.
    pose proof (SP_next _ _ _ _ _ _ _ _ _ P2) as X2.
    rewrite N7, N9 in X1.
    assert (X1' : fs_next f1 = 8) by (rewrite X1; vm_compute; reflexivity).
    rewrite X1' in X2.
    rewrite N1, N7, N9 in R1. rewrite N2, X1' in R2. rewrite N3, X2 in R3. rewrite N3, N5 in *.
    destruct R1 as (R11 & R12 & R13). destruct R2 as (R21 & R22). destruct R3 as (R31 & R32).
    assert (En : n = 9) by congruence. subst n.
    assert (Hwr : forall x, (forall it, In it its -> wr (h_cfg h0) (h_cpl h0) (w_clock w0) it x = false) ->
                            Str.under (q_dir (h_q h0)) x = false -> lookup (w_fs w0) x <> None ->
                            lookup (w_fs w') x = lookup (w_fs w0) x).
    { intros x B1 B2 B3. apply A2; assumption. }
    exists w'. split; [exact E|].
    split; [exact R11|]. split; [exact R12|]. split; [exact R13|].
    split; [exact R21|]. split; [exact R22|]. split; [exact R31|]. split; [exact R32|].
    split; [exact M3|]. split; [exact M4|].
    split.
    { rewrite Hwr; [reflexivity | | reflexivity | discriminate].
      intros it [<-|[<-|[<-|[<-|[]]]]]; vm_compute; reflexivity. }
    split.
    { rewrite A3; [reflexivity | vm_compute; lia | |].
      - intros it [<-|[<-|[<-|[<-|[]]]]]; vm_compute; intuition discriminate.
      - intros jn Ej. injection Ej as <-. discriminate. }
    split.
    { rewrite Hwr; [reflexivity | | reflexivity | discriminate].
      intros it [<-|[<-|[<-|[<-|[]]]]]; vm_compute; reflexivity. }
    split.
    { rewrite A3; [reflexivity | vm_compute; lia | |].
      - intros it [<-|[<-|[<-|[<-|[]]]]]; vm_compute; intuition discriminate.
      - intros jn Ej. injection Ej as <-. discriminate. }
    split; [exact HR'|]. apply K2. reflexivity.
  Qed.

  (* the C11 corollary on the same world *)
  Example member_project_by_theorem o rv : benign o ->
    exists w' n,
      handle_timeout rv h0 o w0 = (Some (TPause 3, set_q (ipops its (h_q h0)) h0), w') /\
      lookup (w_fs w') v_m = Some (NFile n) /\ f_bytes (get_file (w_fs w') n) = lit "int" /\
      lookup (w_fs w') D0 = Some NDir /\ lookup (w_fs w') (D0 ++ lit "/m.c")%list = Some (NFile n).
  Proof.
    intros H.
    destruct hyps as (Y1 & Y2 & Y3 & Y4 & Y5 & Y6 & Y7 & Y8).
    destruct (mixed_pass_member_project o rv
                [IHist p_l 10 2 (lit "abcde") 2 (Some 3); IPlain (mkE p_a 11 4 (lit "hello"))]
                p_m 4 12 5 (lit "int") [] Pn 12 [] rest h0 w0 (lit "/h") (lit "p") (lit "m.c")
                H Y1 Y2 Y3 queue0 Y4 Y5 Y6 Y7 Y8 split_m eq_refl (Forall_nil _))
      as (w' & n & E & B1 & B2 & B3 & B4 & _).
    destruct names as (N1 & N2 & N3 & N4 & N5 & N6 & N7 & N8 & N9).
    rewrite N3 in B1. rewrite N5 in B3, B4.
    exists w', n. split; [exact E|]. split; [exact B1|]. split; [exact B2|]. split; [exact B3 | exact B4].
  Qed.

  (* ----- stage (1) alone: only the history file and the plain file are queued ----- *)

  Definition its1 : list item :=
    [ IHist p_l 10 2 (lit "abcde") 2 (Some 3); IPlain (mkE p_a 11 4 (lit "hello")) ].
  Definition qf1 := push_all (map qent_of_item its1 ++ rest) q0 fs0.
  Definition h1 : handler := mkH cfg0 None 3 (fst qf1) (Some jn0) [] [].
  Definition w1 : world := mkW (snd qf1) 0 [] 100%Z tr_empty.

  Lemma queue1 : QRel (h_q h1) (w_fs w1) (map qent_of_item its1 ++ rest).
  Proof.
    change (map qent_of_item its1 ++ rest) with ([] ++ (map qent_of_item its1 ++ rest)).
    apply QRel_push_all.
    - apply QRel_empty; [discriminate | reflexivity|].
      intros k. apply SnapshotProofs.nothing_under; [discriminate | discriminate | vm_compute; reflexivity].
    - apply wfb_sound. vm_compute. reflexivity.
  Qed.

  Example plain_hist_by_theorem o rv : benign o ->
    exists w',
      handle_timeout rv h1 o w1 = (Some (TPause 3, set_q (ipops its1 (h_q h1)) h1), w') /\
      (exists n, 7 <= n < fs_next (w_fs w') /\
         lookup (w_fs w') v_l = Some (NFile n) /\ f_bytes (get_file (w_fs w') n) = lit "cde" /\
         pos_is (w_fs w') (lit "/o/l") 5) /\
      (exists n, 7 <= n < fs_next (w_fs w') /\
         lookup (w_fs w') v_a = Some (NFile n) /\ f_bytes (get_file (w_fs w') n) = lit "hello") /\
      w_tr w' = tr_empty.
  Proof.
    intros H.
    assert (Y : tr_ok (w_tr w1) = true /\ keys_nodup (w_fs w1) /\ parents_exist (w_fs w1) /\
                Forall (fun it => (q_deb (h_q h1) <= w_clock w1 - itime it)%Z) its1 /\
                ilast its1 rest /\ not_due (w_clock w1) (q_deb (h_q h1)) rest /\
                Forall (item_ok cfg0 3 (Some jn0) (lit "/q") 100 (w_fs w1)) its1 /\
                items_indep cfg0 3 100 its1).
    { split; [reflexivity|].
      split; [apply SnapshotProofs.keys_nodup_check; vm_compute; reflexivity|].
      split; [apply parents_exist_b_sound; vm_compute; reflexivity|].
      split; [repeat constructor; vm_compute; discriminate|].
      split; [vm_compute; repeat split|].
      split; [vm_compute; reflexivity|].
      split; [apply all_okb_sound; vm_compute; reflexivity|].
      apply items_indepb_sound. vm_compute. reflexivity. }
    destruct Y as (Y1 & Y2 & Y3 & Y4 & Y5 & Y6 & Y7 & Y8).
    destruct (mixed_pass_plain_hist o rv its1 rest h1 w1 H Y1 Y2 Y3 eq_refl queue1 Y4 Y5 Y6 Y7 Y8)
      as (w' & E & V & _ & _ & _ & _ & _ & _ & _ & _ & K2 & _).
    exists w'. split; [exact E|].
    destruct (V 0 _ eq_refl) as (n0 & B0 & C0). destruct (V 1 _ eq_refl) as (n1 & B1 & C1).
    split; [exists n0; split; [exact B0 | exact C0]|].
    split; [exists n1; split; [exact B1 | exact C1]|].
    apply K2. reflexivity.
  Qed.

  (* ----- another order, with a STANDALONE project head (stage 3) -----
     the project entry comes first (its member was stored in an earlier pass:
     /u/p/m.c links the old version, inode 8), then the plain file, then the
     history file *)

  Definition fs2 : fs :=
    mkFs [ (lit "/h", NDir); (p_l, NFile 2); (p_a, NFile 4); (Pn, NDir); (p_m, NFile 5);
           (p_z, NFile 6); (lit "/o", NDir); (lit "/o/l", NFile 3);
           (lit "/j", NFile 1); (lit "/q", NDir);
           (lit "/s", NDir); (lit "/s/p", NDir); (lit "/s/p/m.c", NDir);
           (lit "/s/p/m.c/50.c", NFile 8);
           (lit "/u", NDir); (lit "/u/p", NDir); (lit "/u/p/m.c", NFile 8) ]
         [ (1, mkFile [] true); (2, mkFile (lit "abcde") true); (3, mkFile (lit "2") true);
           (4, mkFile (lit "hello") true); (5, mkFile (lit "int") true); (6, mkFile (lit "zz") true);
           (8, mkFile (lit "old") true) ]
         9.

  Definition its2 : list item :=
    [ IProject Pn 9; IPlain (mkE p_a 11 4 (lit "hello")); IHist p_l 12 2 (lit "abcde") 2 (Some 3) ].
  Definition qf2 := push_all (map qent_of_item its2 ++ rest) q0 fs2.
  Definition h2 : handler := mkH cfg0 None 3 (fst qf2) (Some jn0) [] [].
  Definition w2 : world := mkW (snd qf2) 0 [] 100%Z tr_empty.

  Lemma queue2 : QRel (h_q h2) (w_fs w2) (map qent_of_item its2 ++ rest).
  Proof.
    change (map qent_of_item its2 ++ rest) with ([] ++ (map qent_of_item its2 ++ rest)).
    apply QRel_push_all.
    - apply QRel_empty; [discriminate | reflexivity|].
      intros k. apply SnapshotProofs.nothing_under; [discriminate | discriminate | vm_compute; reflexivity].
    - apply wfb_sound. vm_compute. reflexivity.
  Qed.

  Example run2_o2 :
    match handle_timeout true h2 o2 w2 with
    | (Some (TPause z, h'), w') =>
        z = 3%Z /\ q_size (h_q h') = 1%N /\ w_tr w' = tr_empty /\
        lookup (w_fs w') D0 = Some NDir /\
        lookup (w_fs w') (D0 ++ lit "/m.c")%list = Some (NFile 8) /\
        lookup (w_fs w') v_a = Some (NFile 9) /\ get_file (w_fs w') 9 = mkFile (lit "hello") true /\
        lookup (w_fs w') v_l = Some (NFile 10) /\ get_file (w_fs w') 10 = mkFile (lit "cde") true /\
        get_file (w_fs w') 3 = mkFile (lit "5") true /\ fs_next (w_fs w') = 11
    | _ => False
    end.
  Proof. vm_compute. repeat split. Qed.

  Example standalone_project_by_theorem o rv : benign o ->
    exists w',
      handle_timeout rv h2 o w2 = (Some (TPause 3, set_q (ipops its2 (h_q h2)) h2), w') /\
      lookup (w_fs w') D0 = Some NDir /\
      lookup (w_fs w') (D0 ++ lit "/m.c")%list = Some (NFile 8) /\
      lookup (w_fs w') v_a = Some (NFile 9) /\ f_bytes (get_file (w_fs w') 9) = lit "hello" /\
      lookup (w_fs w') v_l = Some (NFile 10) /\ f_bytes (get_file (w_fs w') 10) = lit "cde" /\
      pos_is (w_fs w') (lit "/o/l") 5 /\
      w_tr w' = tr_empty.
  Proof.
    intros H.
    assert (Y : tr_ok (w_tr w2) = true /\ keys_nodup (w_fs w2) /\ parents_exist (w_fs w2) /\
                Forall (fun it => (q_deb (h_q h2) <= w_clock w2 - itime it)%Z) its2 /\
                ilast its2 rest /\ not_due (w_clock w2) (q_deb (h_q h2)) rest /\
                Forall (item_ok cfg0 3 (Some jn0) (lit "/q") 100 (w_fs w2)) its2 /\
                items_indep cfg0 3 100 its2).
    { split; [reflexivity|].
      split; [apply SnapshotProofs.keys_nodup_check; vm_compute; reflexivity|].
      split; [apply parents_exist_b_sound; vm_compute; reflexivity|].
      split; [repeat constructor; vm_compute; discriminate|].
      split; [vm_compute; repeat split|].
      split; [vm_compute; reflexivity|].
      split; [apply all_okb_sound; vm_compute; reflexivity|].
      apply items_indepb_sound. vm_compute. reflexivity. }
    destruct Y as (Y1 & Y2 & Y3 & Y4 & Y5 & Y6 & Y7 & Y8).
    destruct (handle_timeout_mixed_pass o rv its2 rest h2 w2 H Y1 Y2 Y3 queue2 Y4 Y5 Y6 Y7 Y8)
      as (w' & E & HS & _ & _ & _ & _ & _ & _ & _ & K2 & _).
    unfold its2 in HS. cbn [istory] in HS.
    destruct HS as (f1 & O1 & _ & P1 & R1 & f2 & O2 & _ & P2 & R2 & f3 & O3 & _ & P3 & R3 & _).
    cbn [item_result item_post e_path e_bytes] in *.
    destruct (post_next _ _ _ _ _ _ _ (IProject Pn 9) P1) as [X1a _].
    destruct P1 as (fa & fb & (_ & FN & _) & HJ & ->).
    destruct (SnapshotProofs.journal_after_dents _ _ _ _ _ _ _ HJ) as [_ NX].
    assert (X1 : fs_next (del_dent (head_name (h_q h2)) fb) = 9).
    { change (fs_next (del_dent (head_name (h_q h2)) fb)) with (fs_next fb). rewrite NX, FN. reflexivity. }
    pose proof (SP_next _ _ _ _ _ _ _ _ _ P2) as X2. rewrite X1 in X2.
    destruct R1 as (R11 & R12). specialize (R12 (lit "m.c")).
    destruct R2 as (R21 & R22). destruct R3 as (R31 & R32 & R33).
    rewrite X1 in R21, R22. rewrite X2 in R31, R32.
    exists w'. split; [exact E|]. split; [exact R11|]. split; [exact R12|].
    split; [exact R21|]. split; [exact R22|]. split; [exact R31|]. split; [exact R32|].
    split; [exact R33|]. apply K2. reflexivity.
  Qed.
End MixedPassExample.

Print Assumptions MixedPassExample.pass_by_theorem.
Print Assumptions MixedPassExample.member_project_by_theorem.
Print Assumptions MixedPassExample.plain_hist_by_theorem.
Print Assumptions MixedPassExample.standalone_project_by_theorem.
