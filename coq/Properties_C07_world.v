(* C07 at the level of the HANDLER: the program handle_open_exec (reading the
   executable's ELF image through the event descriptor, looking its base name up
   in the editor list, recording the loader, marking / unmarking the pid) refines
   the pure attribution state machine of Bitmap.v, so that C07_attribution is a
   statement about what the handler does.  AttrProofs.v.
   abs_attr h = (the set of pids marked in h, the loaders recorded in h);
   attr_eqv = equal as sets of pids and equal loader lists;
   ev_of f pid path = the exec event as the world determines it: the editor-ness
   of the base name and the interpreter found in the bytes of the file;
   exec_dangling = the file is an editor whose PT_INTERP names a file that does
   not exist: klunok then reports an error for the event (recorded in DESIGN 8);
   spec_run = the property's own wording, executed (BitmapProofs). *)
From K Require Import Str Dec Trace Fs World Progs Sieve Elf Handler Bitmap BitmapProofs
     SyncProofs JournalProofs QueueProofs PassProofs FdProofs Properties_C07 AttrProofs.

(* one execution event, every benign oracle: the handler's new state is the
   attribution step of the old one; nothing changes on disk but the journal line *)
Theorem C07_world_exec_step : forall o w pid path h,
  benign o -> tr_ok (w_tr w) = true ->
  exists h' w',
    handle_open_exec pid path h o w = (Some h', w') /\
    h' = h_step h pid path (interp_of (w_fs w) path) /\
    attr_eqv (abs_attr h')
             (attr_step (c_editors (h_cfg h)) (abs_attr h) (ev_of (w_fs w) pid path)) /\
    same_static h h' /\
    w_clock w' = w_clock w /\
    (exec_dangling h (w_fs w) path = false ->
     journal_fits (h_journal h) (exec_event_name h path) (w_clock w) ->
     tr_keep (w_tr w) (w_tr w') /\
     journal_step (h_journal h) (exec_line h (w_clock w) pid path) (w_fs w) (w_fs w')) /\
    (exec_dangling h (w_fs w) path = true ->
     tr_ok (w_tr w') = false /\ w_fs w' = w_fs w).
Proof. exact handle_open_exec_refines. Qed.
Print Assumptions C07_world_exec_step.

(* every oracle: a failing call never changes the marks relative to the
   fault-free step; at most a loader goes unrecorded *)
Theorem C07_world_exec_any_oracle : forall o w pid path h h' w',
  handle_open_exec pid path h o w = (Some h', w') ->
  (tr_ok (w_tr w) = false -> h' = h /\ w' = w) /\
  (tr_ok (w_tr w) = true ->
   exists oi, h' = h_step h pid path oi /\
              h_pids h' = h_pids (h_step h pid path None) /\
              attr_eqv (abs_attr h')
                (attr_step (c_editors (h_cfg h)) (abs_attr h) (mkEx (N.to_nat pid) path oi))).
Proof. exact handle_open_exec_any_oracle. Qed.
Print Assumptions C07_world_exec_any_oracle.

(* any sequence of execution events handled by the real handler program, from a
   fresh handler: a pid is marked exactly when the property's wording calls the
   process an editor, for pids of any magnitude; the recorded loaders are those
   of the editor binaries seen; one journal line per event *)
Theorem C07_world_attribution : forall o reqs h w,
  benign o -> tr_ok (w_tr w) = true ->
  h_pids h = [] -> h_interps h = [] ->
  Forall (exec_ok h (w_fs w) (w_clock w)) reqs ->
  exists h' w',
    handle_open_execs reqs h o w = (Some h', w') /\
    let s := spec_run (c_editors (h_cfg h)) (evs_of (w_fs w) reqs) (fun _ => false) [] in
    (forall p : N, pid_mem p (h_pids h') = fst s (N.to_nat p)) /\
    h_interps h' = snd s /\
    (forall g, attr_eqv (abs_attr h') (attr_run (c_editors (h_cfg h)) g (evs_of (w_fs w) reqs))) /\
    tr_ok (w_tr w') = true /\
    journal_step (h_journal h) (exec_lines h (w_clock w) reqs) (w_fs w) (w_fs w').
Proof. exact C07_handler_attribution. Qed.
Print Assumptions C07_world_attribution.

(* non-vacuity: two editors with different loaders, a non-editor, pid reuse *)
Example C07_world_hyps_hold := AttrExample.hyps_hold.
Example C07_world_by_theorem := AttrExample.by_theorem.
