(* C17 with the REAL handler: Daemon.daemon_loop is the loop of main.c in the
   world monad, calling the handler programs of Handler.v; it refines the
   scripted loop of Main.v (so every C17 theorem about `loop` holds of it) and a
   run of it IS a history of handler steps (so the history theorems of C02, C07,
   C16, C19 apply to whole daemon runs).  Statements only; proofs in
   DaemonProofs.v. *)
From K Require Import Str Dec Trace Fs World Progs Elf Sieve SieveSpec Handler Linq LinqSpec LinqProofs
     Hoare Confine Confine2 SyncProofs AbandonProofs JournalProofs QueueProofs StoreFs StoreLogic StoreProofs
     FdProofs PassProofs JournalHistoryProofs AcceptProofs ReloadProofs AttrProofs ReloadHistory MixedHistory
     Main MainProofs Daemon DaemonProofs.

(* every oracle, world, handler, notification list: what the daemon does is Main.loop on the slots whose answers are those of the real handler programs *)
Theorem C17_daemon_refines_loop :
  forall (self : N) (rev : bool) (o : oracle) (ns : list notif) (pause : Z) 
         (h : handler) (w : world) (outs : list out) (h' : handler) (w' : world),
       daemon_loop self rev ns pause h o w = (Some (outs, h'), w') ->
       outs = loop self (slots_of self rev o w h ns) pause.
Proof. exact daemon_refines_loop. Qed.
Print Assumptions C17_daemon_refines_loop.

(* after a wake-up the REAL timeout pass runs and its answer is the next wait *)
Theorem C17_daemon_wakeup_services_queue_real :
  forall (self : N) (rev : bool) (o : oracle) (rest : list notif) (pause : Z) 
         (h : handler) (w : world) (outs : list out) (h' : handler) (w' : world),
       daemon_loop self rev (NWake :: rest) pause h o w = (Some (outs, h'), w') ->
       (exists t : topmsg, outs = [OPoll (poll_ms pause); OTimeout; OExit 1 (Some t)]) \/
       (exists (z : Z) (h2 : handler) (w2 : world) (tl : list out),
          handle_timeout rev h o w = (Some (TPause z, h2), w2) /\
          daemon_loop self rev rest z h2 o w2 = (Some (OPoll (poll_ms z) :: tl, h'), w') /\
          outs = OPoll (poll_ms pause) :: OTimeout :: OPoll (poll_ms z) :: tl).
Proof. exact C17_daemon_wakeup_services_queue. Qed.
Print Assumptions C17_daemon_wakeup_services_queue_real.

(* the value slept after an iteration is poll_ms of what handle_timeout returned on the world as it then was *)
Theorem C17_daemon_sleep_is_real_pause :
  forall (self : N) (rev : bool) (o : oracle) (n : notif) (rest : list notif) 
         (pause : Z) (h : handler) (w : world) (outs : list out) (h' : handler) (w' : world) 
         (h1 : handler) (w1 : world) (z : Z) (h2 : handler) (w2 : world),
       is_env n = false ->
       fatal n = false ->
       daemon_loop self rev (n :: rest) pause h o w = (Some (outs, h'), w') ->
       dispatch_of self n h o w = (Some h1, w1) ->
       (dispatched_n self n = true -> okw w1 = true) ->
       handle_timeout rev h1 o w1 = (Some (TPause z, h2), w2) ->
       (exists tl : list out,
          outs = OPoll (poll_ms pause) :: event_outs self n ++ OTimeout :: OPoll (poll_ms z) :: tl) /\
       ((z <= 2147483)%Z -> poll_ms z = (1000 * z)%Z) /\
       ((z < 0)%Z -> (poll_ms z < 0)%Z) /\ ((0 <= z)%Z -> (0 <= poll_ms z <= 2147483647)%Z).
Proof. exact C17_daemon_sleep_is_pause. Qed.
Print Assumptions C17_daemon_sleep_is_real_pause.

(* a write notification of the daemon itself changes neither handler nor world before the pass: the iteration is that of a plain wake-up *)
Theorem C17_daemon_own_write_ignored :
  forall (self : N) (rev : bool) (e : event) (path : str) (nc : option config) 
         (h : handler) (o : oracle) (w : world),
       well_formed e = true ->
       ev_exec e = false ->
       ev_pid e = self ->
       dispatch_of self (NEvent e path nc) h o w = (Some h, w) /\
       event_outs self (NEvent e path nc) = [ORead; OClose (ev_fd e)] /\
       iteration self rev (NEvent e path nc) h o w = service rev [ORead; OClose (ev_fd e)] h o w /\
       iteration self rev NWake h o w = service rev [] h o w.
Proof. exact C17_daemon_self_ignored. Qed.
Print Assumptions C17_daemon_own_write_ignored.

(* a run that does not exit ends in the handler and world of the history exec / write / pass steps of its notifications *)
Theorem C17_daemon_run_is_history :
  forall (self : N) (rev : bool) (o : oracle) (ns : list notif) (pause : Z) 
         (h : handler) (w : world) (outs : list out) (h' : handler) (w' : world),
       okw w = true ->
       envs_ok ns ->
       daemon_loop self rev ns pause h o w = (Some (outs, h'), w') ->
       no_exit outs -> hrun o (steps_of self rev ns) h w = (Some h', w') /\ okw w' = true.
Proof. exact daemon_is_history. Qed.
Print Assumptions C17_daemon_run_is_history.

(* and a run that dies at a call dies where that history dies *)
Theorem C17_daemon_crash_is_history :
  forall (self : N) (rev : bool) (o : oracle) (ns : list notif) (pause : Z) (h : handler) (w w' : world),
       okw w = true ->
       envs_ok ns ->
       daemon_loop self rev ns pause h o w = (None, w') -> hrun o (steps_of self rev ns) h w = (None, w').
Proof. exact daemon_crash_is_history. Qed.
Print Assumptions C17_daemon_crash_is_history.

(* storing versions inside a watched directory never queues further work: replacing every own write by a wake-up changes nothing, for every oracle *)
Theorem C17_own_writes_are_wakeups :
  forall (self : N) (rev : bool) (o : oracle) (ns : list notif) (pause : Z) (h : handler) (w : world),
       final (daemon_loop self rev ns pause h o w) =
       final (daemon_loop self rev (map (as_wakeup self) ns) pause h o w).
Proof. exact daemon_self_writes_are_wakeups. Qed.
Print Assumptions C17_own_writes_are_wakeups.

(* a run in which every write notification is the daemon's own is the run of its passes alone *)
Theorem C17_own_writes_queue_nothing :
  forall (self : N) (rev : bool) (o : oracle) (ns : list notif) (pause : Z) 
         (h : handler) (w : world) (outs : list out) (h' : handler) (w' : world),
       okw w = true ->
       envs_ok ns ->
       only_own_writes self ns ->
       daemon_loop self rev ns pause h o w = (Some (outs, h'), w') ->
       no_exit outs ->
       hrun o (passes_of rev ns) h w = (Some h', w') /\ Forall pass_or_env (steps_of self rev ns).
Proof. exact daemon_own_writes_queue_nothing. Qed.
Print Assumptions C17_own_writes_queue_nothing.

Example C17_daemon_example := DaemonExample.run_daemon.
