(* Call discipline: under every oracle (faults, short transfers, crashes), every
   file-system mutating call issued by the handler operations names a path
   inside one of the configured locations (or, for mkdir/rmdir, an ancestor
   directory of one). *)
From K Require Import Str World Progs Elf Linq Sieve Handler Hoare.
From Coq Require Import Lia.

(* ---------- path relations (string level) ---------- *)

Definition inside (l p : str) : Prop := p = l \/ exists r, p = l ++ ch_slash :: r.
Definition ancestor (p l : str) : Prop := exists r, l = p ++ ch_slash :: r.
Definition related (l p : str) : Prop := inside l p \/ ancestor p l.

Lemma inside_refl l : inside l l.
Proof. left; reflexivity. Qed.

Lemma inside_app l r : inside l (l ++ ch_slash :: r).
Proof. right; eauto. Qed.

Lemma inside_trans a b c : inside a b -> inside b c -> inside a c.
Proof.
  intros [->|[r1 ->]] [->|[r2 ->]]; try (left; reflexivity); try (right; eauto; fail).
  right. exists (r1 ++ ch_slash :: r2). rewrite <- app_assoc. reflexivity.
Qed.

Lemma app_slash_split (d r l r0 : str) :
  d ++ ch_slash :: r = l ++ ch_slash :: r0 -> inside l d \/ ancestor d l.
Proof.
  revert l. induction d as [|x d IH]; intros l H.
  - destruct l as [|y l]; [left; left; reflexivity|].
    simpl in H. inversion H; subst. right. exists l. reflexivity.
  - destruct l as [|y l].
    + simpl in H. inversion H; subst. left. right. exists d. reflexivity.
    + simpl in H. inversion H; subst. destruct (IH l H2) as [[->|[r' ->]]|[r' ->]].
      * left; left; reflexivity.
      * left; right. exists r'. reflexivity.
      * right. exists r'. reflexivity.
Qed.

(* every element of parents_of p is a proper directory prefix of p *)
Lemma parents_of_aux_prefix pre_rev rest d :
  In d (parents_of_aux pre_rev rest) -> exists r, rev pre_rev ++ rest = d ++ ch_slash :: r.
Proof.
  revert pre_rev. induction rest as [|c rest IH]; intros pre_rev Hin; simpl in Hin; [tauto|].
  apply in_app_or in Hin. destruct Hin as [Hin|Hin].
  - destruct (is_slash c) eqn:Ec; simpl in Hin; [|tauto].
    destruct pre_rev as [|y pre_rev]; simpl in Hin; [tauto|].
    destruct Hin as [<-|[]]. apply Ascii.eqb_eq in Ec. subst c. exists rest. reflexivity.
  - destruct (IH (c :: pre_rev) Hin) as [r Hr]. exists r. rewrite <- Hr. simpl.
    rewrite <- app_assoc. reflexivity.
Qed.

Lemma parents_of_prefix p d : In d (parents_of p) -> ancestor d p.
Proof. intros H. destruct (parents_of_aux_prefix [] p d H) as [r Hr]. exists r. exact Hr. Qed.

Lemma parents_related l p d : inside l p -> In d (parents_of p) -> related l d.
Proof.
  intros Hin Hd. destruct (parents_of_prefix p d Hd) as [r Hr].
  destruct Hin as [->|[r0 ->]].
  - right. exists r. assumption.
  - apply (app_slash_split d r l r0). symmetry. assumption.
Qed.

(* ---------- the predicate on calls ---------- *)

Section Conf.
Variable L : list str.        (* the configured locations *)

Definition in_loc (p : str) : Prop := exists l, In l L /\ inside l p.
Definition near_loc (p : str) : Prop := exists l, In l L /\ related l p.

Definition conf (c : call) : Prop :=
  match c with
  | COpenExcl p | COpenW p | COpenA p | CUnlink p => in_loc p
  | CMkdir p | CRmdir p => near_loc p
  | CMkdirat d p | CUnlinkat d p => in_loc (join d p)
  | CLink _ b => in_loc b
  | CLinkat _ d b => in_loc (join d b)
  | CSymlinkat _ d n => in_loc (join d n)
  | _ => True       (* read-only calls and descriptor-based transfers *)
  end.

Lemma in_loc_near p : in_loc p -> near_loc p.
Proof. intros [l [H1 H2]]. exists l. split; [assumption | left; assumption]. Qed.

Lemma in_loc_parents p d : in_loc p -> In d (parents_of p) -> near_loc d.
Proof. intros [l [H1 H2]] Hd. exists l. split; [assumption | eapply parents_related; eauto]. Qed.

Lemma in_loc_inside p q : in_loc p -> inside p q -> in_loc q.
Proof. intros [l [H1 H2]] H. exists l. split; [assumption | eapply inside_trans; eauto]. Qed.

(* ---------- stepping tactic ---------- *)

(* syntactic stepping: never unfolds a program by conversion *)
Ltac lok2 :=
  repeat (lazymatch goal with
          | |- logs_ok _ (ret_ _) => apply logs_ok_ret
          | |- logs_ok _ (bind _ _) => apply logs_ok_bind; [|intros ?]
          | |- logs_ok _ get_tr => apply logs_ok_get_tr
          | |- logs_ok _ (set_tr _) => apply logs_ok_set_tr
          | |- logs_ok _ get_clock => apply logs_ok_get_clock
          | |- logs_ok _ get_fs => apply logs_ok_get_fs
          | |- logs_ok _ (transfer_limit _ _) => apply logs_ok_transfer_limit
          | |- logs_ok _ (mod_tr _) => unfold mod_tr
          | |- logs_ok _ is_ok => unfold is_ok
          | |- logs_ok _ (throw _) => unfold throw
          | |- logs_ok _ (throw_static _) => unfold throw_static
          | |- logs_ok _ (throw_errno _) => unfold throw_errno
          | |- logs_ok _ (throw_context _) => unfold throw_context
          | |- logs_ok _ try_ => unfold try_
          | |- logs_ok _ finally_ => unfold finally_
          | |- logs_ok _ (finally_rethrow_static _) => unfold finally_rethrow_static
          | |- logs_ok _ (rethrow_context _) => unfold rethrow_context
          | |- logs_ok _ (catch_static _) => unfold catch_static
          | |- logs_ok _ (when_ok _ _) => unfold when_ok
          | |- logs_ok _ (match ?x with _ => _ end) => destruct x
          | |- logs_ok _ (if ?b then _ else _) => destruct b
          | |- logs_ok _ (let '(_, _) := ?x in _) => destruct x
          end).

(* ---------- primitive calls ---------- *)

Lemma lok_sys_unit c op : conf c -> logs_ok conf (sys_unit c op).
Proof. intros H. unfold sys_unit. apply logs_ok_sys. assumption. Qed.

Lemma lok_open_gen c op : conf c -> logs_ok conf (k_open_gen c op).
Proof. intros H. unfold k_open_gen. apply logs_ok_sys. assumption. Qed.

Lemma lok_close : logs_ok conf k_close.
Proof. apply lok_sys_unit. exact I. Qed.
Lemma lok_open_read p : logs_ok conf (k_open_read p).
Proof. apply lok_open_gen. exact I. Qed.
Lemma lok_fstat d : logs_ok conf (k_fstat d).
Proof. apply logs_ok_sys. exact I. Qed.
Lemma lok_access p : logs_ok conf (k_access p).
Proof. apply logs_ok_sys. exact I. Qed.
Lemma lok_read1 i pos : logs_ok conf (k_read1 i pos).
Proof. apply logs_ok_sys. exact I. Qed.
Lemma lok_ftruncate i : logs_ok conf (k_ftruncate i).
Proof. apply lok_sys_unit. exact I. Qed.
Lemma lok_write i b : logs_ok conf (k_write i b).
Proof. unfold k_write. lok2. apply logs_ok_sys. exact I. Qed.
Lemma lok_sendfile a b c d : logs_ok conf (k_sendfile a b c d).
Proof. unfold k_sendfile. lok2. apply logs_ok_sys. exact I. Qed.
Lemma lok_scandir p : logs_ok conf (k_scandir p).
Proof. apply logs_ok_sys. exact I. Qed.
Lemma lok_fts r p : logs_ok conf (k_fts r p).
Proof. apply logs_ok_sys. exact I. Qed.
Lemma lok_open_dir p : logs_ok conf (k_open_dir p).
Proof. apply lok_open_gen. exact I. Qed.
Lemma lok_readlinkat d n s : logs_ok conf (k_readlinkat d n s).
Proof. apply logs_ok_sys. exact I. Qed.
Lemma lok_fstatat d n : logs_ok conf (k_fstatat_mtime d n).
Proof. apply logs_ok_sys. exact I. Qed.

Lemma lok_mkdir p : near_loc p -> logs_ok conf (k_mkdir p).
Proof. intros H. apply lok_sys_unit. exact H. Qed.
Lemma lok_rmdir p : near_loc p -> logs_ok conf (k_rmdir p).
Proof. intros H. apply lok_sys_unit. exact H. Qed.
Lemma lok_unlink p : in_loc p -> logs_ok conf (k_unlink p).
Proof. intros H. apply lok_sys_unit. exact H. Qed.
Lemma lok_open_excl p : in_loc p -> logs_ok conf (k_open_excl p).
Proof. intros H. apply lok_open_gen. exact H. Qed.
Lemma lok_open_w p : in_loc p -> logs_ok conf (k_open_w p).
Proof. intros H. apply lok_open_gen. exact H. Qed.
Lemma lok_open_a p : in_loc p -> logs_ok conf (k_open_a p).
Proof. intros H. apply lok_open_gen. exact H. Qed.
Lemma lok_link a b : in_loc b -> logs_ok conf (k_link a b).
Proof. intros H. apply lok_sys_unit. exact H. Qed.
Lemma lok_linkat a d b : in_loc (join d b) -> logs_ok conf (k_linkat a d b).
Proof. intros H. apply lok_sys_unit. exact H. Qed.
Lemma lok_mkdirat d b : in_loc (join d b) -> logs_ok conf (k_mkdirat d b).
Proof. intros H. apply lok_sys_unit. exact H. Qed.
Lemma lok_unlinkat d b : in_loc (join d b) -> logs_ok conf (k_unlinkat d b).
Proof. intros H. apply lok_sys_unit. exact H. Qed.
Lemma lok_symlinkat t d n : in_loc (join d n) -> logs_ok conf (k_symlinkat t d n).
Proof. intros H. unfold k_symlinkat. lok2. apply lok_sys_unit. exact H. Qed.

(* ---------- parents.c ---------- *)

Lemma lok_mkdir_all ds : (forall d, In d ds -> near_loc d) -> logs_ok conf (mkdir_all ds).
Proof.
  induction ds as [|d ds IH]; intros H; simpl; [apply logs_ok_ret|].
  apply logs_ok_bind; [apply lok_mkdir; apply H; left; reflexivity|].
  intros r. assert (IH' : logs_ok conf (mkdir_all ds)) by (apply IH; intros; apply H; right; assumption).
  destruct r as [e|]; [destruct e|]; try exact IH'; lok2.
Qed.

Lemma lok_create_parents p : in_loc p -> logs_ok conf (create_parents p).
Proof.
  intros H. unfold create_parents. lok2. apply lok_mkdir_all.
  intros d Hd. eapply in_loc_parents; eauto.
Qed.

Lemma lok_rmdir_up ds : (forall d, In d ds -> near_loc d) -> logs_ok conf (rmdir_up ds).
Proof.
  induction ds as [|d ds IH]; intros H; simpl; [apply logs_ok_ret|].
  apply logs_ok_bind; [apply lok_rmdir; apply H; left; reflexivity|].
  intros r. assert (IH' : logs_ok conf (rmdir_up ds)) by (apply IH; intros; apply H; right; assumption).
  destruct r as [e|]; [destruct e|]; try exact IH'; lok2.
Qed.

Lemma lok_remove_empty_parents p : in_loc p -> logs_ok conf (remove_empty_parents p).
Proof.
  intros H. unfold remove_empty_parents. lok2. apply lok_rmdir_up.
  intros d Hd. apply in_rev in Hd. eapply in_loc_parents; eauto.
Qed.

Lemma lok_clean_up p : in_loc p -> logs_ok conf (clean_up p).
Proof.
  intros H. unfold clean_up. lok2. apply lok_remove_empty_parents. assumption.
Qed.

(* ---------- counter.c ---------- *)

Lemma lok_read_digits fuel : forall d pos acc, logs_ok conf (read_digits fuel d pos acc).
Proof.
  induction fuel as [|fuel IH]; intros d pos acc; simpl; [apply logs_ok_ret|].
  apply logs_ok_bind.
  - destruct d; [apply lok_read1 | apply logs_ok_sys; exact I].
  - intros r. destruct r as [[c|]|e]; lok2. apply IH.
Qed.

Lemma lok_read_counter p : logs_ok conf (read_counter p).
Proof.
  unfold read_counter, file_len. lok2; try apply lok_open_read; try apply lok_close.
  all: try apply lok_read_digits.
Qed.

Lemma lok_write_digits i ds : logs_ok conf (write_digits i ds).
Proof.
  induction ds as [|c ds IH]; simpl; [apply logs_ok_ret|].
  lok2; try apply lok_write; assumption.
Qed.

Lemma lok_write_counter p n : in_loc p -> logs_ok conf (write_counter p n).
Proof.
  intros H. unfold write_counter. lok2.
  all: try (apply lok_unlink; assumption).
  all: try (apply lok_remove_empty_parents; assumption).
  all: try (apply lok_create_parents; assumption).
  all: try (apply lok_open_w; assumption).
  all: try apply lok_ftruncate.
  all: try apply lok_write_digits.
  all: try apply lok_close.
Qed.

(* ---------- sync.c ---------- *)

Lemma lok_sendfile_loop fuel : forall out inp off size, logs_ok conf (sendfile_loop fuel out inp off size).
Proof.
  induction fuel as [|fuel IH]; intros out inp off size; simpl; [apply logs_ok_ret|].
  destruct size; [apply logs_ok_ret|].
  apply logs_ok_bind; [apply lok_sendfile|]. intros r.
  destruct r as [[|w]|e]; lok2. apply IH.
Qed.

Lemma lok_sync_file dst src off : in_loc dst -> logs_ok conf (sync_file dst src off).
Proof.
  intros H. unfold sync_file. lok2.
  all: try (apply lok_create_parents; assumption).
  all: try (apply lok_clean_up; assumption).
  all: try apply lok_open_read.
  all: try (apply lok_open_excl; assumption).
  all: try apply lok_close.
  all: try apply lok_fstat.
  all: try (apply lok_unlink; assumption).
  all: try apply lok_sendfile_loop.
Qed.

(* ---------- journal.c ---------- *)

Lemma lok_open_journal p pat :
  (forall q, p = Some q -> in_loc q) -> logs_ok conf (open_journal p pat).
Proof.
  intros H. unfold open_journal. destruct p as [q|]; [|apply logs_ok_ret].
  specialize (H q eq_refl). lok2.
  all: try (apply lok_create_parents; assumption).
  all: try (apply lok_open_a; assumption).
Qed.

Lemma lok_write_all fuel : forall i b, logs_ok conf (write_all fuel i b).
Proof.
  induction fuel as [|fuel IH]; intros i b; simpl; [apply logs_ok_ret|].
  destruct b; [apply logs_ok_ret|].
  apply logs_ok_bind; [apply lok_write|]. intros r. destruct r; lok2. apply IH.
Qed.

Lemma lok_get_timestamp p : logs_ok conf (get_timestamp p).
Proof. unfold get_timestamp. lok2. Qed.

Lemma lok_note ev pid path j : logs_ok conf (note ev pid path j).
Proof.
  unfold note. destruct j; [|apply logs_ok_ret]. destruct ev; [|apply logs_ok_ret].
  lok2; try apply lok_get_timestamp; try apply lok_write_all.
Qed.

End Conf.
