(* C14 at the level of the WORLD, enqueue side, for EVERY oracle: a qualifying
   write that handle_close_write answers without an error IS in the queue - the
   queue directory and the in-memory queue refine the reference FIFO extended by
   the entry (and the project-root entry, if any); there is no silent loss,
   whatever calls fail on the way. *)
From K Require Import Str Dec Trace Fs World Progs Sieve Handler Linq LinqSpec
     LinqProofs QueueProofs PassProofs AcceptProofs.

Theorem C14_world_accepted_is_queued : forall (o : oracle) w h pid path nc ents ih pre h' w',
  tr_ok (w_tr w) = true ->
  QRel (h_q h) (w_fs w) ents ->
  push_decision (c_rules (h_cfg h)) (h_cpl h) (pid_mem pid (h_pids h)) path = (true, ih, pre) ->
  h_cfg_path h <> Some path ->
  normal path -> fits (q_len_guess (h_q h)) (path, linq_meta ih pre, w_clock w) ->
  handle_close_write pid path nc h o w = (Some h', w') ->
  tr_ok (w_tr w') = true ->
  h' = set_q (acc_q path pre (h_q h)) h /\
  QRel (h_q h') (w_fs w') (ents ++ acc_ents path ih pre (w_clock w)).
Proof. exact accepted_write_every_oracle. Qed.
Print Assumptions C14_world_accepted_is_queued.

Example C14_world_accepted_instance := AcceptExample.accepted_every_oracle.
