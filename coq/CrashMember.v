(* C11 / C03, world level: the hard link of a project MEMBER in the unstable
   project tree, when the timeout pass is interrupted at ANY point.

   handle_timeout's file branch, for a head whose metadata carries a project
   offset, after the copy and the pop:
        unlink(project_path); create_parents(project_path); link(new version, project_path).
   MemberProofs.MemberExample.crash_before_link_drops_member observes that a
   death between the unlink and the link leaves the member absent from the
   unstable tree.  This file proves that this is the ONLY kind of damage: for
   every honest oracle (CrashCopy.honest: any failure other than an injected
   ENOENT / ENOTDIR / EACCES / EEXIST at any call, any positive short transfer, a
   death before any call), whatever handle_timeout returned, the unstable path is

        (1) what it was before the pass, or
        (2) absent, or
        (3) the inode of a file in the store whose bytes are the whole source.

   Organisation
     AtPath       predicates on the node at one path are kept by programs that
                  write elsewhere (instance of CrashFrame.Frame)
     ht_pop_tr    q_pop_head under every oracle, with the trace: the queue is
                  unchanged only if an error is in the trace
     loop_empty   handle_timeout_loop on an empty queue issues no call
     TailPP       the link block and the tail of the iteration, with exact
                  tracking of the unstable path, under EVERY oracle
     Copy2        the copy loop says WHICH store path holds the complete copy
                  (CrashProofs.ht_file_store_loop with a stronger postcondition)
     First2       the pass started on the member entry
     crash_member_link_cases   the theorem
     CrashMemberExample        /w/proj/a queued with its project offset, the pass
                  crashed before every call index *)
From K Require Import Str Dec Trace Fs World Progs Elf Linq LinqSpec LinqProofs Sieve Handler Hoare
     Confine Confine2 SyncProofs AbandonProofs StoreFs StoreLogic StoreProgs StoreProofs DecProofs
     QueueProofs CrashFrame CrashLoad CrashQueue CrashCopy CrashProofs.
From K Require MemberProofs SnapshotProofs.
From Coq Require Import Lia.

(* ====================================================================== *)
(*  0. the handler's project_path IS MemberProofs.member_path              *)
(* ====================================================================== *)

(* the text of Handler.handle_timeout_loop (and of CrashQueue.file_tail), with
   pre_off = shift_right2 meta, is syntactically member_path: no reassociation *)
Lemma member_path_is_project_path cfg path pre_off :
  MemberProofs.member_path cfg path pre_off =
  (let ns := name_start path pre_off pre_off in
   c_unstable_root cfg ++ ch_slash :: (firstn (pre_off - ns) (skipn ns path)) ++ skipn pre_off path).
Proof. reflexivity. Qed.

Lemma member_path_under cfg path k :
  StoreFs.under (c_unstable_root cfg) (MemberProofs.member_path cfg path k).
Proof. unfold MemberProofs.member_path. eexists. reflexivity. Qed.

(* ====================================================================== *)
(*  1. predicates on the node at one path                                  *)
(* ====================================================================== *)

Section AtPath.
Variable pp : str.
Variable Phi : option node -> Prop.

Definition atp (f : fs) : Prop := Phi (lookup f pp).

Lemma away_self_neq p : away pp p -> pp <> p.
Proof. intros Ha E. apply Ha. left. symmetry. exact E. Qed.

Lemma atp_add f p n : away pp p -> lookup f p = None -> atp f -> atp (add_dent p n f).
Proof.
  intros Ha _ H. unfold atp. rewrite lookup_add_dent_other; [exact H|]. apply away_self_neq. exact Ha.
Qed.

Lemma atp_del f p : away pp p -> atp f -> atp (del_dent p f).
Proof.
  intros Ha H. unfold atp. rewrite lookup_del_dent_other; [exact H|]. apply away_self_neq. exact Ha.
Qed.

Lemma atp_files f fl nx : atp f -> atp (mkFs (fs_dents f) fl nx).
Proof. intros H. exact H. Qed.

End AtPath.

(* everything inside a location that does not nest with the unstable root is
   away from every path under the unstable root *)
Lemma away_under_unst U r pp x :
  StoreFs.under U pp -> nn U r -> inside r x -> away pp x.
Proof.
  intros [y Hy] Hn Hr Hin. apply (nn_away U r x Hn Hr). subst pp.
  destruct Hin as [->|[z ->]].
  - right. exists y. reflexivity.
  - right. exists (y ++ ch_slash :: z). rewrite <- app_assoc. reflexivity.
Qed.

(* ====================================================================== *)
(*  2. q_pop_head under every oracle, with the trace                       *)
(* ====================================================================== *)

(* CrashQueue.ht_pop_raw, refined: the queue comes back unchanged only with an
   error in the trace *)
Lemma ht_pop_tr O f1 q :
  (forall x t, lookup f1 (head_name q) = Some (NLink x t) -> length x < S (q_len_guess q) * 2 ^ 63) ->
  ht O (fun w => w_fs w = f1) (q_pop_head q)
     (fun q' w => (q' = q /\ w_fs w = f1 /\ tr_ok (w_tr w) = false) \/
                  (exists x t, lookup f1 (head_name q) = Some (NLink x t) /\
                               q' = popped (strip x) q /\ w_fs w = del_dent (head_name q) f1))
     (fun w => w_fs w = f1).
Proof.
  intros Hfit. unfold q_pop_head, when_ok.
  eapply ht_bind with (R := fun b w => w_fs w = f1 /\ b = tr_ok (w_tr w)); [apply ht_is_ok; auto|].
  intros b. destruct b; [|apply ht_ret; intros w [Hw Hb]; left; auto].
  eapply ht_bind.
  { eapply ht_conseq3; [| | |apply (ht_read_entry O f1 q (dec (q_head q)))].
    - intros w [Hw _]. exact Hw.
    - intros r w H. exact H.
    - auto. }
  intros r.
  eapply ht_bind with
    (R := fun b w => (w_fs w = f1 /\
            match r with
            | Some x => exists t, lookup f1 (head_name q) = Some (NLink x t)
            | None => tr_ok (w_tr w) = false
            end) /\ b = tr_ok (w_tr w)).
  { apply ht_is_ok. intros w [Hw Hr]. split; [|reflexivity]. split; [exact Hw|].
    destruct r as [x|]; [exact Hr|]. destruct Hr as [Hr|[x [t [Hl Hlen]]]]; [exact Hr|].
    specialize (Hfit x t Hl). lia. }
  intros b2. destruct b2; cbn [negb];
    [|apply ht_ret; intros w [[Hw _] Hb]; left; auto].
  destruct r as [x|].
  2:{ intros o w _ [[_ Hr] Hb]. congruence. }
  apply ht_pure_pre with (phi := exists t, lookup f1 (head_name q) = Some (NLink x t)).
  { intros w [[_ Hr] _]. exact Hr. }
  intros [t Hl].
  eapply ht_bind with
    (R := fun r w => match r with
                     | Some _ => w_fs w = f1
                     | None => w_fs w = del_dent (head_name q) f1
                     end).
  { unfold k_unlinkat, sys_unit. apply ht_sys.
    - intros w [[Hw _] _]. exact Hw.
    - intros w e [[Hw _] _]. cbn. exact Hw.
    - intros w [[Hw _] _]. rewrite Hw. fold (head_name q). unfold fs_unlink. rewrite Hl. cbn. reflexivity. }
  intros r. destruct r as [e|].
  - eapply ht_bind with (R := fun _ w => w_fs w = f1 /\ tr_ok (w_tr w) = false).
    + unfold throw_errno, throw. apply ht_mod_tr. intros w Hw. split; [exact Hw | reflexivity].
    + intros ?. apply ht_ret. intros w [Hw Ht]. left. auto.
  - apply ht_ret. intros w Hw. right. exists x, t. split; [exact Hl|]. split; [reflexivity | exact Hw].
Qed.

(* ====================================================================== *)
(*  3. the loop on an empty queue issues no call                           *)
(* ====================================================================== *)

Lemma loop_empty_tok (P : fs -> Prop) fuel rev h :
  q_size (h_q h) = 0%N -> tok P (handle_timeout_loop fuel rev h).
Proof.
  intros Hs. destruct fuel as [|fuel]; cbn [handle_timeout_loop]; [apply tok_ret|].
  apply tok_bind; [tk_with leaf1|intros b0]. destruct (negb b0); [apply tok_ret|].
  apply tok_bind; [tk_with leaf1|intros ?].
  eapply tok_bindv with (R1 := fun r => forall p m, fst r <> Some (QReady p m)).
  - rewrite q_get_head_unfold, Hs, N.eqb_refl.
    eapply tri_bind; [apply tri_of_tok; tk_with leaf1|intros b1 _].
    destruct (negb b1); apply tri_ret; intros p m E; cbn [fst] in E; discriminate E.
  - intros r Hr. destruct r as [hd q1]. cbn [fst] in Hr.
    apply tok_bind; [tk_with leaf1|intros ?].
    apply tok_bind; [tk_with leaf1|intros b1].
    destruct b1; [|apply tok_ret].
    destruct hd as [[z|path meta]|]; [apply tok_ret | exfalso; exact (Hr path meta eq_refl) | apply tok_ret].
Qed.

(* programs that keep a predicate on the file system, as world-level triples
   with a weaker crash condition *)
Lemma ht_fs_step {A} O (P C : fs -> Prop) (m : M A) :
  (forall f, P f -> C f) -> tok P m ->
  ht O (fun w => P (w_fs w)) m (fun _ w => P (w_fs w)) (fun w => C (w_fs w)).
Proof.
  intros HC H. eapply ht_conseq3; [| | |apply (tok_lift O P m H)]; cbn; auto.
Qed.

(* ====================================================================== *)
(*  4. the link block and the tail of the iteration: EVERY oracle           *)
(* ====================================================================== *)

Section TailPP.
Variables (c : config) (path : str) (pre_off : nat) (sp' : store_path) (j : nat) (old : option node).
Variable q : qmem.          (* the queue before the pop *)

Let pp : str :=
  c_unstable_root c ++ ch_slash ::
    (firstn (pre_off - name_start path pre_off pre_off) (skipn (name_start path pre_off pre_off) path))
    ++ skipn pre_off path.
Let cur : str := current_path sp'.

Hypothesis Hpp_nr : pp <> root_path.
Hypothesis Hcp : cur <> pp.
Hypothesis Hhp : head_name q <> pp.
Hypothesis Hhc : head_name q <> cur.

(* the three cases, for the inode j of the new version *)
Definition LL (f : fs) : Prop :=
  lookup f pp = old \/ lookup f pp = None \/ lookup f pp = Some (NFile j).

(* the new version is in place; the unstable path is as before or removed *)
Definition Z1 (f : fs) : Prop :=
  lookup f cur = Some (NFile j) /\ (lookup f pp = old \/ lookup f pp = None).

Lemma Z1_LL f : Z1 f -> LL f.
Proof. intros [_ [H|H]]; [left | right; left]; exact H. Qed.

Lemma LL_files f fl nx : LL f -> LL (mkFs (fs_dents f) fl nx).
Proof. intros H. exact H. Qed.

Lemma Z1_mkdir a f : a <> pp -> Z1 f -> Z1 (snd (fs_mkdir a f)).
Proof.
  intros Ha H. unfold fs_mkdir. destruct (lookup f a) eqn:E; [exact H|].
  destruct (parent_is_dir f a); [exact H|]. cbn [snd]. destruct H as [H1 H2]. unfold Z1.
  rewrite !lookup_add_dent_other; [split; assumption | auto |].
  intros E'. rewrite E' in H1. congruence.
Qed.

Definition link_block (cond : bool) : M unit :=
  if cond then
    do u <- k_unlink pp;
    match u with
    | None | Some ENOENT => ret_ tt
    | Some e => throw_errno e
    end;;
    create_parents pp;;
    do b5 <- is_ok;
    (if b5 then
       do l <- k_link (current_path sp') pp;
       match l with Some e => throw_errno e | None => ret_ tt end
     else ret_ tt)
  else ret_ tt.

Lemma block_pp O cond :
  ht O (fun w => keys_nodup (w_fs w) /\ lookup (w_fs w) cur = Some (NFile j) /\ lookup (w_fs w) pp = old)
     (link_block cond) (fun _ w => LL (w_fs w)) (fun w => LL (w_fs w)).
Proof.
  unfold link_block. destruct cond; [|apply ht_ret; intros w [_ [_ H]]; left; exact H].
  (* unlink *)
  eapply ht_bind with (R := fun _ w => Z1 (w_fs w)).
  { unfold k_unlink, sys_unit. apply ht_sys.
    - intros w [_ [_ H]]. left. exact H.
    - intros w e [_ [H1 H2]]. cbn [after_call w_fs]. split; [exact H1 | left; exact H2].
    - intros w [Hnd [H1 H2]]. unfold fs_unlink.
      destruct (lookup (w_fs w) pp) as [[| |]|] eqn:E; cbv beta iota zeta; cbn [after_call w_fs].
      + split; [exact H1 | left; rewrite E; exact H2].
      + split; [rewrite lookup_del_dent_other by exact Hcp; exact H1|].
        right. apply lookup_del_dent_same; assumption.
      + split; [rewrite lookup_del_dent_other by exact Hcp; exact H1|].
        right. apply lookup_del_dent_same; assumption.
      + split; [exact H1 | left; rewrite E; exact H2]. }
  intros u.
  eapply ht_bind with (R := fun _ w => Z1 (w_fs w)).
  { apply ht_fs_step; [exact Z1_LL|]. destruct u as [[]|]; tk_with leaf1. }
  intros ?.
  (* create_parents *)
  eapply ht_bind with (R := fun _ w => Z1 (w_fs w)).
  { apply ht_fs_step; [exact Z1_LL|].
    apply (d_create_parents Z1 (fun a => a <> pp) Z1_mkdir pp).
    intros anc Hin E. subst anc. exact (parents_of_not_self _ Hin). }
  intros ?.
  eapply ht_bind with (R := fun _ w => Z1 (w_fs w)).
  { apply ht_fs_step; [exact Z1_LL|]. tk_with leaf1. }
  intros b5. destruct b5; [|apply ht_ret; intros w H; apply Z1_LL; exact H].
  (* link *)
  eapply ht_bind with (R := fun _ w => LL (w_fs w)).
  { unfold k_link, sys_unit. apply ht_sys.
    - intros w H. apply Z1_LL. exact H.
    - intros w e H. cbn [after_call w_fs]. apply Z1_LL. exact H.
    - intros w [H1 H2]. unfold fs_link. fold cur. rewrite H1. cbv beta iota.
      destruct (lookup (w_fs w) pp) eqn:E.
      + cbv beta iota zeta; cbn [after_call w_fs]. apply Z1_LL. split; [exact H1 | rewrite E; exact H2].
      + destruct (parent_is_dir (w_fs w) pp); cbv beta iota zeta; cbn [after_call w_fs].
        * apply Z1_LL. split; [exact H1 | rewrite E; exact H2].
        * right. right. apply lookup_add_dent_same. exact E. }
  intros l. apply ht_fs_step; [auto|]. destruct l; tk_with leaf1.
Qed.

(* the tail of the iteration after a complete copy: the pop, then the block *)
Lemma tail_pp O fuel rev h1 rel r2 fm p1 m1 t1 :
  h_q h1 = q -> snd r2 = sp' ->
  QRel q fm [(p1, m1, t1)] -> keys_nodup fm ->
  lookup fm pp = old -> lookup fm cur = Some (NFile j) ->
  ht O (fun w => w_fs w = fm) (file_tail fuel rev h1 c path rel pre_off r2)
     (fun _ w => LL (w_fs w)) (fun w => LL (w_fs w)).
Proof.
  intros Eq Esp HR Hnd Hold Hcur. destruct r2 as [[ev is_stored] sp'']. cbn [snd] in Esp. subst sp''.
  unfold file_tail. rewrite Eq.
  assert (HLm : forall w, w_fs w = fm -> LL (w_fs w)) by (intros w E; left; rewrite E; exact Hold).
  assert (Hfit : forall x t, lookup fm (head_name q) = Some (NLink x t) ->
                             length x < S (q_len_guess q) * 2 ^ 63).
  { intros x t Hl. pose proof (QRel_head _ _ _ _ _ _ HR) as Hh. unfold head_name in Hl.
    rewrite Hh in Hl. inversion Hl; subst x t.
    pose proof (QR_wf _ _ _ HR) as Hw. apply Forall_inv in Hw. destruct Hw as [_ Hf]. exact Hf. }
  eapply ht_bind.
  { eapply ht_conseq3; [| | |apply (ht_pop_tr O fm q Hfit)]; [auto | intros q' w H; exact H | exact HLm]. }
  intros q2. cbv zeta.
  assert (Hexit : forall (P : world -> Prop) (r : handler), (forall w, P w -> LL (w_fs w)) ->
            (forall w t, P w -> P (mkW (w_fs w) (w_n w) (w_log w) (w_clock w) t)) ->
            ht O P (throw_context path;; throw_static M_store_cannot_copy;; ret_ (TError, r))
               (fun _ w => LL (w_fs w)) (fun w => LL (w_fs w))).
  { intros P r HP Ht. unfold throw_context, throw_static, throw.
    eapply ht_bind with (R := fun _ w => P w).
    { apply ht_mod_tr. intros w H. apply Ht. exact H. }
    intros ?. eapply ht_bind with (R := fun _ w => P w).
    { apply ht_mod_tr. intros w H. apply Ht. exact H. }
    intros ?. apply ht_ret. exact HP. }
  apply ht_pre_or.
  - (* the entry is still there: an error is in the trace *)
    eapply ht_bind with (R := fun b4 w => w_fs w = fm /\ b4 = false).
    { apply ht_is_ok. intros w [_ [H1 H2]]. auto. }
    intros b4. apply ht_pure_pre with (phi := b4 = false); [intros w [_ E]; exact E|]. intros ->.
    cbn [negb]. apply Hexit.
    + intros w [H _]. apply HLm. exact H.
    + intros w t H. exact H.
  - (* popped *)
    apply ht_pure_pre with
      (phi := exists x t, lookup fm (head_name q) = Some (NLink x t) /\ q2 = popped (strip x) q).
    { intros w [x [t [H1 [H2 _]]]]. exists x, t. auto. }
    intros [x [t [Hl ->]]].
    set (f2 := del_dent (head_name q) fm).
    assert (Hnd2 : keys_nodup f2) by (apply keys_nodup_del; exact Hnd).
    assert (Hcur2 : lookup f2 cur = Some (NFile j)).
    { unfold f2. rewrite lookup_del_dent_other; [exact Hcur | auto]. }
    assert (Hold2 : lookup f2 pp = old).
    { unfold f2. rewrite lookup_del_dent_other; [exact Hold | auto]. }
    assert (Hsz : q_size (popped (strip x) q) = 0%N).
    { unfold popped. cbn [q_size]. rewrite (QR_size _ _ _ HR). reflexivity. }
    eapply ht_conseq3 with (P := fun w => w_fs w = f2) (Q := fun _ w => LL (w_fs w))
                           (C := fun w => LL (w_fs w));
      [intros w [x' [t' [_ [_ H]]]]; exact H | auto | auto |].
    assert (HL2 : forall w, w_fs w = f2 -> LL (w_fs w)) by (intros w E; left; rewrite E; exact Hold2).
    eapply ht_bind with (R := fun _ w => w_fs w = f2).
    { apply ht_is_ok. auto. }
    intros b4. destruct (negb b4).
    { apply Hexit; [exact HL2 | intros w t0 H; exact H]. }
    eapply ht_bind with (R := fun _ w => LL (w_fs w)).
    { eapply ht_conseq3; [| | |apply (block_pp O (Nat.ltb 0 pre_off && is_stored))].
      - intros w E. cbv beta. rewrite E. auto.
      - auto.
      - auto. }
    intros ?.
    eapply ht_bind with (R := fun _ w => LL (w_fs w)).
    { apply ht_fs_step; [auto|]. apply fk_record_event. exact LL_files. }
    intros ?. apply ht_fs_step; [auto|]. apply loop_empty_tok. exact Hsz.
Qed.

End TailPP.

(* the tail of the iteration when the copy loop has left an error: nothing changes *)
Lemma tail_fs_not_ok O fuel rev h1 cfg path rel pre_off r2 fm :
  ht O (fun w => w_fs w = fm /\ tr_ok (w_tr w) = false)
     (file_tail fuel rev h1 cfg path rel pre_off r2)
     (fun _ w => w_fs w = fm) (fun w => w_fs w = fm).
Proof.
  destruct r2 as [[ev is_stored] sp']. unfold file_tail.
  eapply ht_bind.
  { apply (ht_pop_skip O (fun w => w_fs w = fm) (fun w => w_fs w = fm) (h_q h1)). }
  intros q2. apply ht_pure_pre with (phi := q2 = h_q h1); [intros w [E _]; exact E|]. intros ->.
  cbv zeta.
  eapply ht_bind with (R := fun b4 w => w_fs w = fm /\ b4 = false).
  { apply ht_is_ok. intros w [_ [H1 H2]]. auto. }
  intros b4. apply ht_pure_pre with (phi := b4 = false); [intros w [_ E]; exact E|]. intros ->.
  cbn [negb].
  eapply ht_bind with (R := fun _ w => w_fs w = fm).
  { unfold throw_context, throw. apply ht_mod_tr. intros w [H _]. exact H. }
  intros ?.
  eapply ht_bind with (R := fun _ w => w_fs w = fm).
  { unfold throw_static, throw. apply ht_mod_tr. intros w H. exact H. }
  intros ?. apply ht_ret. auto.
Qed.

(* ====================================================================== *)
(*  5. the copy loop says WHICH store path holds the complete copy         *)
(* ====================================================================== *)

(* CrashProofs.Section Copy with a stronger postcondition: when the loop returns
   with an ok trace, the RETURNED store path is a file with the bytes
   [skipn off b] (CrashProofs.fl_post only says that some store path is).  The
   proofs are those of cw_not_ok / cw_copied / ht_file_store_loop. *)
Section Copy2.
Variables (c : config) (oj : option journal) (f0 : fs) (d : str) (ents0 : list qent) (h0 : N).
Hypothesis D : disjoint_locs c.
Hypothesis Hd : qdir_ok2 c d.
Variables (path : str) (i : nat) (b : str) (off : nat) (offp : str) (ish : bool) (cfg : config).
Hypothesis Hoffp : StoreFs.under (c_offset_root c) offp.
Variables (rel version : str) (fs0 : fs).
Hypothesis Hver : ns version.

Let X : str := c_store_root c ++ ch_slash :: rel.
Let ext : str := get_file_extension rel.
Let sp0 : store_path := mkSP (X ++ ch_slash :: version) ext 0.
Let cnt : nat := length (children fs0 X).

Let HX : X <> [].
Proof. unfold X. intros E. apply app_eq_nil in E. destruct E as [_ E]. discriminate. Qed.

Let Hext : ns ext := extension_ns rel.

Notation Gk := (G c oj f0 f0 ents0 h0).

Definition fl_post2 (k : nat) (q : qmem) (r : option str * bool * store_path) (w : world) : Prop :=
  Gk k q (w_fs w) /\ spI (c_store_root c) (snd r) /\
  (tr_ok (w_tr w) = true -> Copied b (current_path (snd r)) off (w_fs w)).

Lemma cw_not_ok2 k q sp n ev :
  q_dir q = d -> spI (c_store_root c) sp ->
  ht honest (fun w => Gk k q (w_fs w) /\ tr_ok (w_tr w) = false)
     (write_counter offp n;; (do b0 <- is_ok; finally_;; ret_ (ev, b0, sp)))
     (fl_post2 k q) (fun w => Gk k q (w_fs w)).
Proof.
  intros Eq Hs.
  eapply ht_bind with (R := fun _ w => Gk k q (w_fs w) /\ tr_ok (w_tr w) = false).
  { eapply ht_conseq3;
      [| | |apply ht_conj;
            [apply (tok_lift honest _ _ (G_write_counter c oj f0 d ents0 h0 D Hd offp Hoffp k q n Eq))
            |apply (ht_write_counter_skip honest (fun _ => True) offp n); auto]].
    - intros w [H1 H2]. auto.
    - intros ? w [H1 [_ H2]]. auto.
    - intros w [H _]. exact H. }
  intros ?.
  eapply ht_bind with (R := fun _ w => Gk k q (w_fs w) /\ tr_ok (w_tr w) = false);
    [apply ht_is_ok; auto|intros b0].
  eapply ht_bind with (R := fun _ w => Gk k q (w_fs w) /\ tr_ok (w_tr w) = false).
  { unfold finally_. apply ht_mod_tr. intros w [H1 H2]. split; [exact H1|].
    cbn [QueueProofs.upd_tr w_tr]. unfold tr_ok in *. rewrite tr_finally_frames. exact H2. }
  intros ?. apply ht_ret. intros w [H1 H2]. split; [exact H1|]. split; [exact Hs|].
  intros E. congruence.
Qed.

Lemma cw_copied2 k q n m ev :
  q_dir q = d ->
  ht honest (fun w => Gk k q (w_fs w) /\ Copied b (current_path (sp_at sp0 n)) off (w_fs w))
     (write_counter offp m;; (do b0 <- is_ok; finally_;; ret_ (ev, b0, sp_at sp0 n)))
     (fl_post2 k q) (fun w => Gk k q (w_fs w)).
Proof.
  intros Eq. apply ht_freeze. intros w1 [HG1 [j [Hl Hb]]].
  set (f1 := w_fs w1) in *.
  assert (HI1 : Inv c oj f1 f1).
  { destruct HG1 as [[[[_ HS] _] _] _]. split; [apply preserved_refl | exact HS]. }
  set (P := fun w : world => Gk k q (w_fs w) /\ Inv c oj f1 (w_fs w)).
  assert (Hfin : forall w, P w -> Copied b (current_path (sp_at sp0 n)) off (w_fs w)).
  { intros w [_ [Hp _]]. destruct (Hp _ j (or_introl (dst_under c rel version n)) Hl) as [A B].
    exists j. split; [exact A|]. rewrite B. exact Hb. }
  eapply ht_bind with (R := fun _ w => P w).
  { eapply ht_conseq3;
      [| | |apply ht_conj;
            [apply (tok_lift honest _ _ (G_write_counter c oj f0 d ents0 h0 D Hd offp Hoffp k q m Eq))
            |apply (tok_lift honest _ _ (tok_write_counter c oj f1 D offp m Hoffp))]].
    - intros w ->. split; [exact HG1 | exact HI1].
    - intros ? w H. exact H.
    - intros w [H _]. exact H. }
  intros ?.
  eapply ht_bind with (R := fun _ w => P w); [apply ht_is_ok; auto|intros b0].
  eapply ht_bind with (R := fun _ w => P w).
  { unfold finally_. apply ht_mod_tr. intros w H. exact H. }
  intros ?. apply ht_ret. intros w H. split; [apply H|]. split; [apply (spI_at c rel version n)|].
  intros _. cbn [snd]. apply Hfin. exact H.
Qed.

Lemma ht_file_store_loop2 : forall fuel n k q,
  q_dir q = d -> fuel + n = S (S cnt) ->
  (forall m, m < n -> lookup fs0 (current_path (sp_at sp0 m)) <> None) ->
  ht honest (fl_pre c oj f0 ents0 h0 path i b rel fs0 k q)
     (file_store_loop fuel (sp_at sp0 n) path offp off ish cfg)
     (fl_post2 k q) (fun w => Gk k q (w_fs w)).
Proof.
  induction fuel as [|fuel IH]; intros n k q Eq Hfuel Htried.
  { exfalso. apply (no_room X version ext fs0 HX Hver Hext cnt eq_refl).
    intros m Hm. apply Htried. cbn in Hfuel. lia. }
  cbn [file_store_loop].
  set (dst := current_path (sp_at sp0 n)).
  eapply ht_bind with (R := fun _ w => fl_pre c oj f0 ents0 h0 path i b rel fs0 k q w).
  { unfold try_. apply ht_mod_tr. intros w [H1 [H2 [H3 H4]]].
    split; [exact H1|]. split; [exact H2|]. split; [exact H3|].
    cbn [QueueProofs.upd_tr w_tr]. rewrite tr_try_frames. exact H4. }
  intros ?.
  eapply ht_bind with (R := fun _ w => Gk k q (w_fs w) /\ sf_out path i b dst off fs0 w).
  { eapply ht_conseq3;
      [| | |apply ht_conj;
            [apply (tok_lift honest _ _ (G_sync_file c oj f0 d ents0 h0 D Hd rel version k q n path off Eq))
            |apply (ht_sync_file path i b dst off fs0)]].
    - intros w [H1 [H2 [H3 H4]]]. split; [exact H1|]. split; [exact H2|]. split; [|exact H4].
      apply (PH_PHd c rel version fs0 Hver n). exact H3.
    - intros ? w H. exact H.
    - intros w [H _]. exact H. }
  intros no.
  eapply ht_conseq3 with
    (P := fun w => (Gk k q (w_fs w) /\ t_frames (w_tr w) = [] /\ Copied b dst off (w_fs w)) \/
                   ((Gk k q (w_fs w) /\ Src path i b (w_fs w) /\ PHd c rel fs0 (w_fs w) /\
                     t_frames (w_tr w) = [FStatic M_dst_exists] /\ lookup fs0 dst <> None) \/
                    (Gk k q (w_fs w) /\
                     exists fr rest, t_frames (w_tr w) = fr :: rest /\ other_frame fr)));
    [| intros r w H; exact H | intros w H; exact H |].
  { intros w [HG [HS [[H1 H2]|[[H1 [H2 H3]]|H1]]]]; [left; auto | right; left | right; right; auto].
    split; [exact HG|]. split; [exact HS|].
    split; [apply (PH_PHd c rel version fs0 Hver n); exact H2 | auto]. }
  apply ht_pre_or; [|apply ht_pre_or].
  - apply ht_catch_false; [intros w [_ [H _]]; apply catch_empty; exact H|]. cbv iota.
    apply ht_catch_false; [intros w [_ [H _]]; apply catch_empty; exact H|]. cbv iota.
    apply ht_catch_false; [intros w [_ [H _]]; apply catch_empty; exact H|]. cbv iota.
    apply ht_catch_false; [intros w [_ [H _]]; apply catch_empty; exact H|]. cbv iota.
    eapply ht_conseq3; [| | |apply (cw_copied2 k q n _ _ Eq)].
    + intros w [H1 [_ H2]]. auto.
    + auto.
    + auto.
  - apply ht_pure_pre with (phi := lookup fs0 dst <> None).
    { intros w [_ [_ [_ [_ H]]]]. exact H. }
    intros Hex.
    assert (Hc : forall m w,
               (Gk k q (w_fs w) /\ Src path i b (w_fs w) /\ PHd c rel fs0 (w_fs w) /\
                t_frames (w_tr w) = [FStatic M_dst_exists] /\ lookup fs0 dst <> None) ->
               m <> M_dst_exists -> tr_catch_static m (w_tr w) = (false, w_tr w)).
    { intros m w [_ [_ [_ [Hf _]]]] Hm. apply (catch_other_frame m _ _ _ Hf). congruence. }
    apply ht_catch_false; [intros w H; apply Hc; [exact H | discriminate]|]. cbv iota.
    apply ht_catch_false; [intros w H; apply Hc; [exact H | discriminate]|]. cbv iota.
    apply ht_catch_false; [intros w H; apply Hc; [exact H | discriminate]|]. cbv iota.
    apply ht_catch_gen. intros bb. destruct bb.
    + rewrite sp_at_S.
      eapply ht_conseq3; [| | |apply (IH (S n) k q Eq)].
      * intros w' [w [[H1 [H2 [H3 _]]] [Hb ->]]]. cbn [w_fs w_tr].
        split; [exact H1|]. split; [exact H2|]. split; [exact H3|].
        apply catch_true_frames. exact Hb.
      * auto.
      * auto.
      * lia.
      * intros m Hm. destruct (Nat.eq_dec m n) as [->|Hne]; [exact Hex | apply Htried; lia].
    + eapply ht_conseq3; [| | |apply (cw_not_ok2 k q (sp_at sp0 n) _ _ Eq (spI_at c rel version n))].
      * intros w' [w [[H1 [_ [_ [H4 _]]]] [Hb ->]]]. cbn [w_fs w_tr]. split; [exact H1|].
        rewrite (catch_false_same _ _ Hb). unfold tr_ok. rewrite H4. reflexivity.
      * auto.
      * auto.
  - assert (Hc : forall m w,
               (Gk k q (w_fs w) /\ exists fr rest, t_frames (w_tr w) = fr :: rest /\ other_frame fr) ->
               In m [M_src_missing; M_not_regular; M_src_denied; M_dst_exists] ->
               tr_catch_static m (w_tr w) = (false, w_tr w)).
    { intros m w [_ [fr [rest [Hf Ho]]]] Hin. apply (catch_other_frame m _ fr rest Hf).
      intros ->. cbn in Hin. destruct Hin as [<-|[<-|[<-|[<-|[]]]]]; exact Ho. }
    apply ht_catch_false; [intros w H; apply Hc; [exact H | cbn; tauto]|]. cbv iota.
    apply ht_catch_false; [intros w H; apply Hc; [exact H | cbn; tauto]|]. cbv iota.
    apply ht_catch_false; [intros w H; apply Hc; [exact H | cbn; tauto]|]. cbv iota.
    apply ht_catch_false; [intros w H; apply Hc; [exact H | cbn; tauto]|]. cbv iota.
    eapply ht_conseq3; [| | |apply (cw_not_ok2 k q (sp_at sp0 n) _ _ Eq (spI_at c rel version n))].
    + intros w [H1 [fr [rest [H2 _]]]]. split; [exact H1|]. unfold tr_ok. rewrite H2. reflexivity.
    + auto.
    + auto.
Qed.

End Copy2.

(* ====================================================================== *)
(*  6. the pass started on the member entry                                *)
(* ====================================================================== *)

Section First2.
Variables (c : config) (oj : option journal) (f0 : fs) (d : str) (h0 : N).
Variables (p1 : str) (m1 : N) (t1 : Z).
Hypothesis D : disjoint_locs c.
Hypothesis Hd : qdir_ok2 c d.
Variables (i : nat) (b : str).
Hypothesis Hsrc : Src p1 i b f0.
Hypothesis Hfile : N.odd m1 = false.
Hypothesis Hbit : N.testbit m1 1 = false.

Let ents0 : list qent := [(p1, m1, t1)].
Notation G0 := (G c oj f0 f0 ents0 h0).
Let pp : str := MemberProofs.member_path c p1 (shift_right2 m1).
Let old : option node := lookup f0 pp.

(* the unstable path is the inode of a complete version in the store *)
Definition Linked (f : fs) : Prop :=
  exists s j, StoreFs.under (c_store_root c) s /\ lookup f s = Some (NFile j) /\
              lookup f pp = Some (NFile j) /\ f_bytes (get_file f j) = b.

Definition L3 (f : fs) : Prop := lookup f pp = old \/ lookup f pp = None \/ Linked f.

Let Hpp_under : StoreFs.under (c_unstable_root c) pp.
Proof. apply member_path_under. Qed.

Let Hpp_nr : pp <> root_path.
Proof. unfold pp, MemberProofs.member_path. apply app_slash_ne_root. apply dl_unst_ne. exact D. Qed.

Let Haw_store : forall x, inside (c_store_root c) x -> away pp x.
Proof.
  intros x. apply (away_under_unst (c_unstable_root c) (c_store_root c) pp x Hpp_under).
  apply nn_sym. apply dl_store_unst. exact D.
Qed.

Let Haw_off : forall x, inside (c_offset_root c) x -> away pp x.
Proof.
  intros x. apply (away_under_unst (c_unstable_root c) (c_offset_root c) pp x Hpp_under).
  apply dl_unst_off. exact D.
Qed.

Let Haw_q : forall x, inside d x -> away pp x.
Proof.
  intros x. apply (away_under_unst (c_unstable_root c) d pp x Hpp_under).
  apply nn_sym. pose proof Hd as [_ [H _]]. exact H.
Qed.

Let Hd_nr : d <> root_path.
Proof. pose proof Hd as [[H _] _]. exact H. Qed.

Lemma head_inside q : q_dir q = d -> inside d (head_name q).
Proof. intros E. unfold head_name. rewrite E, (join_ne _ _ Hd_nr). right. eexists. reflexivity. Qed.

Lemma L3_of_LL fm f sp' j :
  spI (c_store_root c) sp' -> Inv c oj fm f ->
  lookup fm (current_path sp') = Some (NFile j) -> f_bytes (get_file fm j) = b ->
  LL c p1 (shift_right2 m1) j old f -> L3 f.
Proof.
  intros Hs [Hp _] Hl Hb HLL.
  pose proof (current_path_under _ _ Hs) as Hu.
  destruct (Hp _ j (or_introl Hu) Hl) as [A B].
  destruct HLL as [H|[H|H]]; [left; exact H | right; left; exact H|].
  right. right. exists (current_path sp'), j. split; [exact Hu|]. split; [exact A|].
  split; [exact H|]. rewrite B. exact Hb.
Qed.

Lemma first_iter2 fuel rev h :
  HI c oj h -> q_dir (h_q h) = d -> G0 0 (h_q h) f0 ->
  ht honest (fun w => w_fs w = f0) (handle_timeout_loop fuel rev h)
     (fun _ w => L3 (w_fs w)) (fun w => L3 (w_fs w)).
Proof.
  intros Hh Eq HG0.
  assert (HL0 : forall w, w_fs w = f0 -> L3 (w_fs w)) by (intros w E; left; rewrite E; reflexivity).
  assert (HR : QRel (h_q h) f0 [(p1, m1, t1)]) by (destruct HG0 as [[_ [_ H]] _]; exact H).
  assert (Hcnt : count_paths p1 [(p1, m1, t1)] = 1).
  { cbn [count_paths qpath fst]. rewrite str_eqb_refl. reflexivity. }
  assert (Hro : forall {A} (m : M A), (forall P, tok P m) ->
            ht honest (fun w => w_fs w = f0) m (fun _ w => w_fs w = f0) (fun w => L3 (w_fs w))).
  { intros A m Hm. eapply ht_conseq3; [| | |apply (tok_lift honest (fun f => f = f0) m (Hm _))]; auto. }
  destruct fuel as [|fuel]; cbn [handle_timeout_loop].
  { apply ht_ret. exact HL0. }
  eapply ht_bind; [apply Hro; intros P; tk_with leaf1|intros b0].
  destruct (negb b0).
  { apply ht_ret. exact HL0. }
  eapply ht_bind; [apply Hro; intros P; tk_with leaf1|intros ?].
  eapply ht_bind.
  { eapply ht_conseq3; [| | |apply (ht_get_head_first honest f0 (h_q h) p1 m1 t1 [] _ HR Hcnt)];
      [auto | intros r w H; exact H | exact HL0]. }
  intros r. destruct r as [hd q1]. cbn [fst snd].
  apply ht_pure_pre with
    (phi := q1 = h_q h /\ forall path meta, hd = Some (QReady path meta) -> path = p1 /\ meta = m1).
  { intros w [_ H]. exact H. }
  intros [-> Hhd].
  assert (Hh1 : HI c oj (set_q (h_q h) h)) by (apply HI_set_q; [exact Hh | reflexivity]).
  set (h1 := set_q (h_q h) h) in *.
  assert (Eq1 : q_dir (h_q h1) = d) by exact Eq.
  assert (Hret : forall r : tresult, ht honest (fun w => w_fs w = f0) (ret_ (r, h1))
                   (fun _ w => L3 (w_fs w)) (fun w => L3 (w_fs w))).
  { intros r. apply ht_ret. exact HL0. }
  eapply ht_bind with (R := fun _ w => w_fs w = f0).
  { eapply ht_conseq3; [| | |apply (Hro _ (finally_rethrow_static M_linq_cannot_get_head))];
      [intros w [H _]; exact H | auto | auto |]. intros P. tk_with leaf1. }
  intros ?.
  eapply ht_bind; [apply Hro; intros P; tk_with leaf1|intros b1].
  destruct b1; [|apply Hret].
  destruct hd as [[z|path meta]|]; [apply Hret| |apply Hret].
  destruct (Hhd path meta eq_refl) as [-> ->].
  pose proof Hh1 as [Ecfg [Ej _]]. rewrite Ecfg.
  eapply ht_bind; [apply Hro; intros P; tk_with leaf1|intros v].
  eapply ht_bind with (R := fun bv w => w_fs w = f0 /\ bv = tr_ok (w_tr w)); [apply ht_is_ok; auto|intros bv].
  (* the check of the version string *)
  eapply ht_bind with
    (R := fun _ w => w_fs w = f0 /\
            (tr_ok (w_tr w) = true -> forall ver, v = Some ver -> existsb is_slash ver = false)).
  { destruct v as [ver|]; [destruct bv; [destruct (existsb is_slash ver) eqn:Es|]|].
    - eapply ht_bind with (R := fun _ w => w_fs w = f0 /\ tr_ok (w_tr w) = false).
      + unfold throw_context, throw. apply ht_mod_tr. intros w [H _]. split; [exact H | reflexivity].
      + intros ?. unfold throw_static, throw. apply ht_mod_tr. intros w [H _]. split; [exact H|].
        intros E. cbn in E. discriminate.
    - apply ht_ret. intros w [H _]. split; [exact H|]. intros _ ver' E. inversion E; subst. exact Es.
    - apply ht_ret. intros w [H Hb]. split; [exact H|]. intros E. congruence.
    - apply ht_ret. intros w [H _]. split; [exact H|]. intros _ ver' E. discriminate. }
  intros ?.
  eapply ht_bind with
    (R := fun b2 w => w_fs w = f0 /\ (b2 = true -> forall ver, v = Some ver -> existsb is_slash ver = false)).
  { apply ht_is_ok. intros w [H1 H2]. auto. }
  intros b2.
  destruct v as [version|];
    [|eapply ht_conseq3; [| | |apply (Hret TError)]; [intros w [H _]; exact H | auto | auto]].
  destruct b2;
    [|eapply ht_conseq3; [| | |apply (Hret TError)]; [intros w [H _]; exact H | auto | auto]].
  apply ht_pure_pre with (phi := ns version).
  { intros w [_ H]. apply existsb_false_ns. apply (H eq_refl version eq_refl). }
  intros Hver.
  eapply ht_conseq3 with (P := fun w => w_fs w = f0) (Q := fun _ w => L3 (w_fs w))
                         (C := fun w => L3 (w_fs w));
    [intros w [H _]; exact H | auto | auto |].
  cbv zeta.
  match goal with |- ht _ _ (if ?x then _ else _) _ _ => destruct x end.
  { eapply ht_bind; [apply Hro; intros P; tk_with leaf1|intros ?].
    eapply ht_bind; [apply Hro; intros P; tk_with leaf1|intros ?]. apply Hret. }
  rewrite Hfile.
  set (rel := skipn (Nat.min (length p1) (h_cpl h1)) p1).
  set (offp := c_offset_root c ++ ch_slash :: rel).
  assert (Hoffp : StoreFs.under (c_offset_root c) offp) by (exists rel; reflexivity).
  (* the stored offset *)
  eapply ht_bind with
    (R := fun off w => w_fs w = f0 /\ (N.testbit m1 1 = false -> off = 0%N)).
  { destruct (N.testbit m1 1).
    - eapply ht_conseq3; [| | |apply (Hro _ (read_counter offp))];
        [auto | intros ? w H; split; [exact H | discriminate] | auto |]. intros P. tk_with leaf1.
    - apply ht_ret. auto. }
  intros off. apply ht_pure_pre with (phi := off = 0%N); [intros w [_ H]; exact (H Hbit)|].
  intros ->. change (N.to_nat 0) with 0.
  eapply ht_bind with (R := fun b3 w => w_fs w = f0 /\ b3 = tr_ok (w_tr w)).
  { apply ht_is_ok. intros w [H _]. auto. }
  intros b3. destruct b3; cbn [negb];
    [|eapply ht_conseq3; [| | |apply (Hret TError)]; [intros w [H _]; exact H | auto | auto]].
  eapply ht_bind with (R := fun f w => (w_fs w = f0 /\ t_frames (w_tr w) = []) /\ f = f0).
  { intros o w _ [H1 H2]. cbn. split; [split; [exact H1|] | exact H1]. apply tr_ok_frames. auto. }
  intros f. apply ht_pure_pre with (phi := f = f0); [intros w [_ E]; exact E|]. intros ->.
  (* the copy loop: G and the copy (honest oracles), the unstable path (frame) *)
  rewrite (store_path_form c rel version).
  rewrite (dst_dirname c rel version Hver 0).
  set (Xold := atp pp (fun v => v = old)).
  match goal with |- ht _ _ (bind ?m _) _ _ =>
    assert (HA : ht honest (fl_pre c oj f0 ents0 h0 p1 i b rel f0 0 (h_q h1)) m
                    (fl_post2 c oj f0 ents0 h0 b 0 0 (h_q h1)) (fun w => G0 0 (h_q h1) (w_fs w)));
    [|assert (HB : ht honest (fun w => Xold (w_fs w)) m (fun _ w => Xold (w_fs w)) (fun w => Xold (w_fs w)))]
  end.
  { apply (ht_file_store_loop2 c oj f0 d ents0 h0 D Hd p1 i b 0 offp (N.testbit m1 1) c
             Hoffp rel version f0 Hver _ 0 0 (h_q h1) Eq1).
    - unfold dir_entry_count. lia.
    - intros m Hm. lia. }
  { apply (tok_lift honest Xold). eapply tok_of_tri.
    apply (fk_file_store_loop pp Xold (atp_add pp _) (atp_del pp _) (atp_files pp _)) with (root := c_store_root c).
    - apply (spI_at c rel version 0).
    - exact Haw_store.
    - apply Haw_off. right. exists rel. reflexivity. }
  eapply ht_bind.
  { eapply ht_conseq3; [| | |apply (ht_conj _ _ _ _ _ _ _ _ HA HB)].
    - intros w [[H1 H2] _]. split.
      + split; [rewrite H1; exact HG0|]. split; [rewrite H1; exact Hsrc|].
        split; [intros p _ H; rewrite H1 in H; exact H | exact H2].
      + unfold Xold, atp. rewrite H1. reflexivity.
    - intros r w H. exact H.
    - intros w [_ H]. left. exact H. }
  intros r2.
  apply ht_pure_pre with (phi := spI (c_store_root c) (snd r2)); [intros w [[_ [H _]] _]; exact H|].
  intros Hr2.
  assert (Hcur_aw : away pp (current_path (snd r2))).
  { apply Haw_store. destruct (current_path_under _ _ Hr2) as [x ->]. right. exists x. reflexivity. }
  apply ht_case with (cond := fun w => tr_ok (w_tr w)).
  - (* the copy is complete *)
    apply ht_freeze. intros w1 [[[HG1 [_ HC1]] HX1] Hok1].
    destruct (HC1 Hok1) as [j [Hlj Hbj]]. cbn [skipn] in Hbj.
    set (fm := w_fs w1) in *.
    assert (HRm : QRel (h_q h1) fm [(p1, m1, t1)]) by (destruct HG1 as [[_ [_ H]] _]; exact H).
    assert (Hndm : keys_nodup fm) by (destruct HG1 as [[_ [[H _] _]] _]; exact H).
    assert (HGm : G c oj f0 fm ents0 h0 0 (h_q h1) fm).
    { destruct HG1 as [[[H1 _] H2] HN]. split; [split; [split; [exact H1|] | exact H2] | exact HN].
      split; [apply preserved_refl | apply H1]. }
    pose proof (tailG c oj f0 fm d ents0 h0 D Hd fuel rev h1 p1 rel (shift_right2 m1) r2 0
                  (loopG c oj f0 fm d ents0 h0 D Hd fuel) Hh1 Eq1 (Nat.le_0_l _) Hr2) as HT.
    assert (HP : ht honest (fun w => w_fs w = fm)
                    (file_tail fuel rev h1 c p1 rel (shift_right2 m1) r2)
                    (fun _ w => LL c p1 (shift_right2 m1) j old (w_fs w))
                    (fun w => LL c p1 (shift_right2 m1) j old (w_fs w))).
    { apply (tail_pp c p1 (shift_right2 m1) (snd r2) j old (h_q h1)) with (p1 := p1) (m1 := m1) (t1 := t1).
      - exact Hpp_nr.
      - intros E. exact (away_self_neq pp _ Hcur_aw (eq_sym E)).
      - intros E. apply (away_self_neq pp _ (Haw_q _ (head_inside _ Eq1))). symmetry. exact E.
      - intros E. pose proof Hd as [[_ [Hn _]] _].
        apply (nn_away d (c_store_root c) (current_path (snd r2)) Hn).
        + destruct (current_path_under _ _ Hr2) as [x ->]. right. exists x. reflexivity.
        + rewrite <- E. apply head_inside. exact Eq1.
      - reflexivity.
      - reflexivity.
      - exact HRm.
      - exact Hndm.
      - exact HX1.
      - exact Hlj. }
    eapply ht_conseq3;
      [| | |apply ht_conj; [eapply ht_oracles with (O1 := fun _ => True); [auto | exact HT] | exact HP]].
    + intros w ->. split; [exact HGm | reflexivity].
    + intros r w [[k' [_ [HGk _]]] HLL]. destruct HGk as [[[_ HI2] _] _].
      apply (L3_of_LL fm _ (snd r2) j Hr2 HI2 Hlj Hbj HLL).
    + intros w [[k' [q' [_ [_ HGk]]]] HLL]. destruct HGk as [[[_ HI2] _] _].
      apply (L3_of_LL fm _ (snd r2) j Hr2 HI2 Hlj Hbj HLL).
  - (* the copy loop has left an error: nothing more happens *)
    apply ht_freeze. intros w1 [[_ HX1] Hnok].
    eapply ht_conseq3;
      [| | |apply (tail_fs_not_ok honest fuel rev h1 c p1 rel (shift_right2 m1) r2 (w_fs w1))].
    + intros w ->. auto.
    + intros ? w E. left. rewrite E. exact HX1.
    + intros w E. left. rewrite E. exact HX1.
Qed.

End First2.

(* ====================================================================== *)
(*                              THE THEOREM                               *)
(* ====================================================================== *)

(* Every HONEST oracle (CrashCopy.honest).  The queue holds one entry: a file
   entry (not a project entry, not a history path) whose metadata carries the
   project offset [shift_right2 m1]; its source is a readable regular file with
   bytes [b].  In the final world -- whether handle_timeout returned a result,
   an error, or the process died (fst res = None) --
     - if the link of the entry has left the queue directory, the store holds a
       file with the bytes b (timeout_crash_pop_after_copy with off = 0);
     - the unstable path [pp] of the member is the node it was before the pass,
       or absent, or the inode of a store file with the bytes b. *)
Theorem crash_member_link_cases :
  forall (o : oracle) (w : world) (rev : bool) (h : handler)
         (p1 : str) (m1 : N) (t1 : Z) (i : nat) (b : str),
  honest o ->
  disjoint_locs (h_cfg h) ->
  qdir_ok2 (h_cfg h) (q_dir (h_q h)) ->
  SI (h_cfg h) (h_journal h) (w_fs w) ->
  keys_nodup (w_fs w) ->
  qclean (q_dir (h_q h)) (w_fs w) ->
  QRel (h_q h) (w_fs w) [(p1, m1, t1)] ->
  N.odd m1 = false -> N.testbit m1 1 = false ->
  lookup (w_fs w) p1 = Some (NFile i) ->
  get_file (w_fs w) i = mkFile b true ->
  let res := handle_timeout rev h o w in
  let f' := w_fs (snd res) in
  let pp := MemberProofs.member_path (h_cfg h) p1 (shift_right2 m1) in
  (lookup f' (join (q_dir (h_q h)) (dec (q_head (h_q h)))) = None ->
     exists s j, StoreFs.under (c_store_root (h_cfg h)) s /\ lookup f' s = Some (NFile j) /\
                 f_bytes (get_file f' j) = b) /\
  (lookup f' pp = lookup (w_fs w) pp \/
   lookup f' pp = None \/
   exists s j, StoreFs.under (c_store_root (h_cfg h)) s /\ lookup f' s = Some (NFile j) /\
               lookup f' pp = Some (NFile j) /\ f_bytes (get_file f' j) = b).
Proof.
  intros o w rev h p1 m1 t1 i b Ho D Hd HS Hnd Hcl HR Hfile Hbit Hl Hg res f' pp.
  split.
  - intros Hgone.
    assert (Hcnt : count_paths p1 [(p1, m1, t1)] = 1).
    { cbn [count_paths qpath fst]. rewrite str_eqb_refl. reflexivity. }
    destruct (timeout_crash_pop_after_copy o w rev h p1 m1 t1 [] i b Ho D Hd HS Hnd Hcl HR Hcnt Hfile Hl Hg Hgone)
      as [off [s [j [H0 [H1 [H2 H3]]]]]].
    exists s, j. split; [exact H1|]. split; [exact H2|]. rewrite (H0 Hbit) in H3. exact H3.
  - set (c := h_cfg h) in *. set (oj := h_journal h) in *. set (d := q_dir (h_q h)) in *.
    set (f0 := w_fs w) in *. set (ents := [(p1, m1, t1)]) in *.
    assert (HI0 : HI c oj h) by (split; [reflexivity | split; [reflexivity | apply Hd]]).
    assert (HG : G c oj f0 f0 ents (q_head (h_q h)) 0 (h_q h) f0).
    { split; [split; [split; (split; [apply preserved_refl | exact HS]) | split; [split; [exact Hnd | exact Hcl] | exact HR]]|].
      intros _. lia. }
    assert (Hsrc : Src p1 i b f0).
    { split; [exact Hl|]. split; [exact Hg|]. apply (si_lt _ _ _ HS p1). apply lookup_dent. exact Hl. }
    pose proof (first_iter2 c oj f0 d (q_head (h_q h)) p1 m1 t1 D Hd i b Hsrc Hfile Hbit
                  (S (S (N.to_nat (q_size (h_q h))))) rev h HI0 eq_refl HG o w Ho eq_refl) as HL.
    change (L3 c f0 p1 m1 b f').
    subst res f'. unfold handle_timeout, bind in *.
    destruct (handle_timeout_loop (S (S (N.to_nat (q_size (h_q h))))) rev h o w) as [[r|] w1].
    + rewrite is_ok_eq. unfold ret_. cbn [fst snd]. exact HL.
    + cbn [fst snd]. exact HL.
Qed.

(* ====================================================================== *)
(*     a concrete member, the pass crashed before EVERY call index         *)
(* ====================================================================== *)

Module CrashMemberExample.
  Import MemberProofs.MemberExample.      (* cfg0: store /s, snapshots /ps, unstable /u, queue /q,
                                             journal /j (inode 1), offsets /o; lit; q0; jn0 *)
  Import String.StringSyntax.
  Local Open Scope string_scope.

  Definition p_a : str := lit "/w/proj/a".          (* the member of the project /w/proj *)
  Definition up_a : str := lit "/u/proj/a".         (* its hard link in the unstable tree *)
  Definition v_old : str := lit "/s/proj/a/50".     (* an older version *)
  Definition v_new : str := lit "/s/proj/a/100".    (* the version this pass makes *)

  (* /w/proj/a (inode 2, "two!") was stored once at 50 s (inode 3, "one"); the
     unstable tree links that version *)
  Definition fsBase : fs :=
    mkFs [ (lit "/w", NDir); (lit "/w/proj", NDir); (p_a, NFile 2);
           (lit "/j", NFile 1); (lit "/q", NDir);
           (lit "/s", NDir); (lit "/s/proj", NDir); (lit "/s/proj/a", NDir); (v_old, NFile 3);
           (lit "/u", NDir); (lit "/u/proj", NDir); (up_a, NFile 3) ]
         [ (1, mkFile [] true); (2, mkFile (lit "two!") true); (3, mkFile (lit "one") true) ]
         4.

  (* the write at 10 s: the member is queued with its project offset 7 = |/w/proj|
     (the theorem is about a queue that holds this entry only) *)
  Definition qM : qmem := pushed p_a q0.
  Definition fsM : fs := add_dent (next_name q0) (NLink (encode (MemberProofs.mmeta 7) p_a) 10%Z) fsBase.
  Definition hM : handler := mkH cfg0 None 3 qM (Some jn0) [] [].
  Definition wM : world := mkW fsM 0 [] 100%Z tr_empty.

  Example names :
    MemberProofs.member_path (h_cfg hM) p_a (shift_right2 (MemberProofs.mmeta 7)) = up_a /\
    join (q_dir (h_q hM)) (dec (q_head (h_q hM))) = lit "/q/0" /\
    lookup fsM up_a = Some (NFile 3) /\ lookup fsM v_old = Some (NFile 3).
  Proof. vm_compute. repeat split. Qed.

  (* ---------- the hypotheses of the theorem hold ---------- *)

  Lemma QRelM : QRel (h_q hM) (w_fs wM) [(p_a, MemberProofs.mmeta 7, 10%Z)].
  Proof.
    apply (QRel_push q0 fsBase [] p_a (MemberProofs.mmeta 7) 10%Z).
    - apply QRel_empty; [discriminate | reflexivity|].
      intros k. apply SnapshotProofs.nothing_under; [discriminate | discriminate | vm_compute; reflexivity].
    - apply normalb_spec. vm_compute. reflexivity.
    - apply fits32. vm_compute. reflexivity.
  Qed.

  Lemma fsM_clean : qclean (lit "/q") fsM.
  Proof.
    split; [discriminate|]. intros p Hd Hr Hl.
    assert (Hin : In p (map fst (fs_dents fsM))).
    { destruct (str_in_dec p (map fst (fs_dents fsM))) as [H|H]; [exact H|].
      exfalso. apply Hl. rewrite (lookup_nonroot _ _ Hr). apply notin_alookup_none. exact H. }
    vm_compute in Hin.
    repeat (destruct Hin as [Hin|Hin]; [subst p; try (vm_compute in Hd; discriminate Hd)|]);
      try contradiction.
    exists 0%N. vm_compute. reflexivity.
  Qed.

  Example hyps_hold :
    disjoint_locs (h_cfg hM) /\
    qdir_ok2 (h_cfg hM) (q_dir (h_q hM)) /\
    SI (h_cfg hM) (h_journal hM) (w_fs wM) /\
    keys_nodup (w_fs wM) /\
    qclean (q_dir (h_q hM)) (w_fs wM) /\
    QRel (h_q hM) (w_fs wM) [(p_a, MemberProofs.mmeta 7, 10%Z)] /\
    N.odd (MemberProofs.mmeta 7) = false /\ N.testbit (MemberProofs.mmeta 7) 1 = false /\
    lookup (w_fs wM) p_a = Some (NFile 2) /\
    get_file (w_fs wM) 2 = mkFile (lit "two!") true.
  Proof.
    assert (D : disjoint_locs cfg0) by (apply disjoint_locsb_ok; vm_compute; reflexivity).
    split; [exact D|]. split; [apply (qdir_ok2_queue cfg0 D)|].
    split; [apply SIb_ok; vm_compute; reflexivity|].
    split; [apply SnapshotProofs.keys_nodup_check; vm_compute; reflexivity|].
    split; [exact fsM_clean|]. split; [exact QRelM|].
    repeat split; vm_compute; reflexivity.
  Qed.

  (* ---------- the theorem, for every honest oracle ---------- *)

  Example every_honest_oracle (o : oracle) (rev : bool) : honest o ->
    let f' := w_fs (snd (handle_timeout rev hM o wM)) in
    (lookup f' (lit "/q/0") = None ->
       exists s j, StoreFs.under (lit "/s") s /\ lookup f' s = Some (NFile j) /\
                   f_bytes (get_file f' j) = lit "two!") /\
    (lookup f' up_a = Some (NFile 3) \/            (* still the old version *)
     lookup f' up_a = None \/                      (* absent: died between unlink and link *)
     exists s j, StoreFs.under (lit "/s") s /\ lookup f' s = Some (NFile j) /\
                 lookup f' up_a = Some (NFile j) /\ f_bytes (get_file f' j) = lit "two!").
  Proof.
    intros Ho f'. subst f'.
    destruct hyps_hold as [D [Hd [HS [Hnd [Hcl [HR [Hodd [Hbit [Hl Hg]]]]]]]]].
    destruct names as [N1 [N2 [N3 _]]].
    pose proof (crash_member_link_cases o wM rev hM p_a (MemberProofs.mmeta 7) 10%Z 2 (lit "two!")
                  Ho D Hd HS Hnd Hcl HR Hodd Hbit Hl Hg) as H.
    cbv zeta in H. rewrite N1, N2 in H. change (w_fs wM) with fsM in H. rewrite N3 in H. exact H.
  Qed.

  (* ---------- the pass crashed / failed before every call index ---------- *)

  Definition crash_at (k : nat) : oracle := fun i => if Nat.eqb i k then FCrash else FNone.
  Definition fail_at (k : nat) (e : errno) : oracle := fun i => if Nat.eqb i k then FFail e else FNone.
  Definition fail_then_crash (k j : nat) (e : errno) : oracle :=
    fun i => if Nat.eqb i k then FFail e else if Nat.eqb i j then FCrash else FNone.

  Definition final (o : oracle) : fs := w_fs (snd (handle_timeout false hM o wM)).
  Definition died (o : oracle) : bool :=
    match fst (handle_timeout false hM o wM) with None => true | Some _ => false end.

  Definition onode_eqb (a b : option node) : bool :=
    match a, b with
    | None, None => true
    | Some x, Some y => CrashExample.node_eqb x y
    | _, _ => false
    end.

  (* which case of the theorem a final file system is in:
       0 = the unstable path is what it was, 1 = absent,
       2 = the inode of an entry under /s whose bytes are "two!", 3 = none of these *)
  Definition case_of (f : fs) : nat :=
    if onode_eqb (lookup f up_a) (lookup fsM up_a) then 0
    else match lookup f up_a with
         | None => 1
         | Some (NFile j) =>
             if existsb (fun e => match snd e with
                                  | NFile j' => Nat.eqb j j' && Str.under (lit "/s") (fst e)
                                  | _ => false
                                  end) (fs_dents f)
                && str_eqb (f_bytes (get_file f j)) (lit "two!")
             then 2 else 3
         | _ => 3
         end.

  (* the first conjunct of the theorem, as a boolean *)
  Definition popped_implies_stored (f : fs) : bool :=
    match lookup f (lit "/q/0") with
    | Some _ => true
    | None => CrashExample.has_version f v_new (lit "two!")
    end.

  (* the fault-free pass issues 19 calls (14 = unlink of the unstable path,
     15 and 16 = mkdir of its parents, 17 = link), pops the entry, and links
     the new version (inode 4) *)
  Example fault_free_pass :
    w_n (snd (handle_timeout false hM no_faults wM)) = 19 /\
    died no_faults = false /\
    lookup (final no_faults) (lit "/q/0") = None /\
    lookup (final no_faults) v_new = Some (NFile 4) /\
    lookup (final no_faults) up_a = Some (NFile 4) /\
    lookup (final no_faults) v_old = Some (NFile 3) /\
    nth_error (rev (map fst (w_log (snd (handle_timeout false hM no_faults wM))))) 14 = Some (CUnlink up_a) /\
    nth_error (rev (map fst (w_log (snd (handle_timeout false hM no_faults wM))))) 17 = Some (CLink v_new up_a).
  Proof. vm_compute. repeat split. Qed.

  (* a crash before EVERY one of the 19 calls (and no crash: index 19): always one
     of the three cases, and all three occur -- the old link up to the unlink,
     ABSENT for a death before call 15, 16 or 17 (the window of
     MemberExample.crash_before_link_drops_member), the new version afterwards *)
  Example crash_at_every_call :
    map (fun k => case_of (final (crash_at k))) (seq 0 20)
      = [0; 0; 0; 0; 0; 0; 0; 0; 0; 0; 0; 0; 0; 0; 0;  1; 1; 1;  2; 2] /\
    forallb (fun k => died (crash_at k)) (seq 0 19) = true /\
    forallb (fun k => popped_implies_stored (final (crash_at k))) (seq 0 20) = true.
  Proof. vm_compute. repeat split. Qed.

  (* a failing call (EIO) at every index, and a failing call followed by a crash
     at every later index: never outside the three cases *)
  Example fail_at_every_call :
    forallb (fun k => Nat.ltb (case_of (final (fail_at k EIO))) 3 &&
                      popped_implies_stored (final (fail_at k EIO))) (seq 0 20) = true /\
    forallb (fun k => forallb (fun j => Nat.ltb (case_of (final (fail_then_crash k j EIO))) 3 &&
                                        popped_implies_stored (final (fail_then_crash k j EIO)))
                              (seq 0 22)) (seq 0 20) = true /\
    (* a failing link() leaves the path absent although the pass returns *)
    case_of (final (fail_at 17 EIO)) = 1 /\ died (fail_at 17 EIO) = false.
  Proof. vm_compute. repeat split. Qed.

  (* these oracles are honest, so the runs above are instances of the theorem *)
  Example honest_oracles k j :
    honest no_faults /\ honest (crash_at k) /\ honest (fail_at k EIO) /\ honest (fail_then_crash k j EIO).
  Proof.
    repeat split; intros i; unfold no_faults, crash_at, fail_at, fail_then_crash; cbn;
      repeat (destruct (Nat.eqb _ _)); cbn; auto; repeat split; try discriminate; lia.
  Qed.

End CrashMemberExample.

Print Assumptions CrashMemberExample.hyps_hold.
Print Assumptions CrashMemberExample.every_honest_oracle.
Print Assumptions CrashMemberExample.crash_at_every_call.
Print Assumptions CrashMemberExample.fail_at_every_call.
Print Assumptions crash_member_link_cases.
