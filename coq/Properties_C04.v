(* C04 Stored versions are immutable; a taken name is never reused. *)
From K Require Import Str World Progs Handler Hoare Confine Confine2 ExtProofs StoreFs StoreLogic StoreProgs StoreProofs.

(* [preserved c f f']: every file under the store root or the project store root
   of configuration c that exists in f exists in f' under the same name with the
   same inode and the same bytes.
   [disjoint_locs c]: the six configured locations are pairwise different and
   not nested in one another (string level), non-empty, the queue is not "/".
   [SInv c h f]: inode numbers are below the allocation counter; no offset file
   and not the journal shares an inode with a file of the store, project store
   or unstable project tree; the queue directory does not nest with the stores. *)

(* Under EVERY oracle -- any combination of failing calls, short transfers and a
   crash at any call -- a timeout pass changes or removes no file of the store
   or project store; the invariant holds again afterwards. *)
Theorem C04_timeout_store_immutable : forall (o : oracle) (w : world) (rev : bool) (h : handler),
  disjoint_locs (h_cfg h) ->
  SInv (h_cfg h) h (w_fs w) ->
  let res := handle_timeout rev h o w in
  preserved (h_cfg h) (w_fs w) (w_fs (snd res)) /\
  SI (h_cfg h) (h_journal h) (w_fs (snd res)) /\
  (forall r h', fst res = Some (r, h') ->
     h_cfg h' = h_cfg h /\ SInv (h_cfg h') h' (w_fs (snd res))).
Proof. exact handle_timeout_store_immutable. Qed.
Print Assumptions C04_timeout_store_immutable.

(* the same for whole histories of events (timeout passes, executions, writes),
   also when the run ends in a crash: across restarts the statement chains
   because load_handler re-establishes the invariant (next theorem) *)
Theorem C04_history_store_immutable : forall (evs : list event) (o : oracle) (w : world) (h : handler),
  disjoint_locs (h_cfg h) ->
  SInv (h_cfg h) h (w_fs w) ->
  preserved (h_cfg h) (w_fs w) (w_fs (snd (run_events evs h o w))).
Proof. exact history_store_immutable. Qed.
Print Assumptions C04_history_store_immutable.

Theorem C04_restart_store_immutable :
  forall (o : oracle) (w : world) (c : config) (cp : option str) (cpl : nat),
  disjoint_locs c -> SI c None (w_fs w) ->
  let res := load_handler c cp cpl o w in
  preserved c (w_fs w) (w_fs (snd res)) /\
  SI c None (w_fs (snd res)) /\
  (forall h, fst res = Some (Some h) -> h_cfg h = c /\ SInv c h (w_fs (snd res))).
Proof. exact load_handler_store_immutable. Qed.
Print Assumptions C04_restart_store_immutable.

(* a configuration reload keeps the files of both the old and the new stores *)
Theorem C04_reload_store_immutable :
  forall (o : oracle) (w : world) (pid : N) (path : str) (n : config) (h : handler),
  disjoint_locs (h_cfg h) -> SInv (h_cfg h) h (w_fs w) ->
  disjoint_locs n -> SI n (h_journal h) (w_fs w) -> qdir_ok n (q_dir (h_q h)) ->
  let res := handle_close_write pid path (Some n) h o w in
  preserved (h_cfg h) (w_fs w) (w_fs (snd res)) /\ preserved n (w_fs w) (w_fs (snd res)).
Proof.
  intros o w pid path n h D HS Dn HSn Hq res.
  destruct (handle_close_write_store_immutable o w pid path n h D HS Dn HSn Hq) as [H1 [H2 _]].
  split; assumption.
Qed.
Print Assumptions C04_reload_store_immutable.

(* the candidate names are tried in this order: base, then -1, -2, ... before
   the extension *)
Theorem C04_candidate_names : forall (root rel version : str) (k : nat),
  current_path (Nat.iter k increment (create_store_path root rel version)) =
  match k with
  | O => root ++ ch_slash :: rel ++ ch_slash :: version ++ get_file_extension rel
  | _ => root ++ ch_slash :: rel ++ ch_slash :: version ++ ch_dash :: dec (N.of_nat k) ++ get_file_extension rel
  end.
Proof.
  intros root rel version [|k]; [apply layout0 | apply layout_k; auto with arith].
Qed.
Print Assumptions C04_candidate_names.

(* non-vacuity: a concrete configuration and world satisfy the hypotheses, and
   for every oracle the stored version /s/a/v1 keeps its inode and bytes, while
   the fault-free run does store a new version *)
Example C04_example : forall (o : oracle) (rev : bool),
  let w' := snd (handle_timeout rev StoreExample.h0 o StoreExample.w0) in
  and (disjoint_locs (h_cfg StoreExample.h0))
   (and (SInv (h_cfg StoreExample.h0) StoreExample.h0 (w_fs StoreExample.w0))
    (and (lookup (w_fs w') (cons "/" (cons "s" (cons "/" (cons "a" (cons "/" (cons "v" (cons "1" nil)))))))%char = Some (NFile 1))
         (f_bytes (get_file (w_fs w') 1) = (cons "o" (cons "l" (cons "d" nil)))%char))).
Proof.
  intros o rev w'. destruct StoreExample.hyps_hold as [_ [D [HS _]]].
  split; [exact D|]. split; [exact HS|]. apply StoreExample.stored_version_survives.
Qed.
