(* C04 Stored versions are immutable; a taken name is never reused.
   (The semantic theorem "no store file is changed or removed, under every
   oracle" is added from StoreProofs when available.) *)
From K Require Import Str World Progs Handler Hoare Confine Confine2 ExtProofs.

(* the candidate names are tried in this order: base, then -1, -2, ... before
   the extension; increments never restart the count *)
Theorem C04_candidate_names : forall (root rel version : str) (k : nat),
  current_path (Nat.iter k increment (create_store_path root rel version)) =
  match k with
  | O => root ++ ch_slash :: rel ++ ch_slash :: version ++ get_file_extension rel
  | _ => root ++ ch_slash :: rel ++ ch_slash :: version ++ ch_dash :: dec (N.of_nat k) ++ get_file_extension rel
  end.
Proof.
  intros root rel version [|k]; [apply layout0 | apply layout_k; auto with arith].
Qed.
Print Assumptions C04_candidate_names.

(* under every oracle, the only calls that create, remove or open for writing
   anything are confined to the configured locations; in particular the call
   alphabet of the model contains no rename and no truncating open, and files in
   the store are only ever opened with O_CREAT|O_EXCL (COpenExcl) *)
Theorem C04_calls_confined : forall (L : list str) (rev : bool) (h : handler) (o : oracle) (w : world),
  hinv2 L h -> log_all (conf L) w -> log_all (conf L) (snd (handle_timeout rev h o w)).
Proof.
  intros L rev h o w Hh Hw. pose proof (lokv_handle_timeout L rev h Hh o w I Hw) as H.
  destruct (handle_timeout rev h o w) as [[r|] w']; simpl; [destruct H; assumption | assumption].
Qed.
Print Assumptions C04_calls_confined.
