(* C08 History paths store exactly the appended bytes. *)
From K Require Import Str Dec Trace Fs World Progs DecProofs SyncProofs HistoryProofs.
Local Open Scope N_scope.

(* the remembered position round-trips through its decimal file *)
Theorem C08_position_roundtrip : forall (n : N), undec (dec n) = n.
Proof. exact undec_dec. Qed.
Print Assumptions C08_position_roundtrip.

(* a torn position file (the position is rewritten digit by digit after a
   truncation) can only denote a position that is not further ahead: no byte is
   skipped, it can only be stored again *)
Theorem C08_torn_position_rewinds : forall (n : N) (k : nat), undec (firstn k (dec n)) <= n.
Proof. exact undec_firstn_dec. Qed.
Print Assumptions C08_torn_position_rewinds.

(* one pass: the new version is exactly the bytes from the remembered position
   on, and the new position is the end of the file (any chunking of the transfer) *)
Theorem C08_slice : forall (o : oracle) (w : world) (dst src : str) (off i : nat) (b : str),
  benign o -> tr_ok (w_tr w) = true ->
  lookup (w_fs w) src = Some (NFile i) -> get_file (w_fs w) i = mkFile b true ->
  (i < fs_next (w_fs w))%nat -> lookup (w_fs w) dst = None ->
  (exists rest, dst = ch_slash :: rest) ->
  (forall d, In d (parents_of dst) -> lookup (w_fs w) d = Some NDir \/ lookup (w_fs w) d = None) ->
  (off <= length b)%nat ->
  exists w' j,
    sync_file dst src off o w = (Some (length b), w') /\
    lookup (w_fs w') dst = Some (NFile j) /\
    f_bytes (get_file (w_fs w') j) = skipn off b.
Proof.
  intros o w dst src off i b Hb Hok Hs Hf Hi Hd Habs Hp Hle.
  destruct (sync_file_correct_mkparents o w dst src off i b Hb Hok Habs Hs Hf Hi Hd Hp) as [w' [j H]].
  exists w', j. rewrite Nat.max_r in H by assumption. intuition.
Qed.
Print Assumptions C08_slice.

(* over any sequence of appends (each content extends the previous one), the
   versions made pass after pass concatenate to the file: no byte missing, none
   duplicated *)
Theorem C08_concat : forall (bs : list str), grows [] bs -> concat (slices 0 bs) = last bs [].
Proof. exact slices_whole. Qed.
Print Assumptions C08_concat.

Theorem C08_concat_from : forall (b0 : str) (bs : list str), grows b0 bs ->
  concat (slices (length b0) bs) = skipn (length b0) (last bs b0).
Proof. exact slices_concat. Qed.
Print Assumptions C08_concat_from.

Local Open Scope char_scope.
Example C08_example :
  grows [] [["a"]; ["a";"b";"c"]; ["a";"b";"c"]; ["a";"b";"c";"d"]] /\
  slices 0 [["a"]; ["a";"b";"c"]; ["a";"b";"c"]; ["a";"b";"c";"d"]] = [["a"]; ["b";"c"]; []; ["d"]] /\
  undec (dec 1234567890123) = 1234567890123%N /\ undec (firstn 3 (dec 98765)) = 987%N.
Proof.
  split; [|vm_compute; auto].
  repeat (constructor; [eexists; simpl; reflexivity|]). constructor.
Qed.
