(* Model of src/elfinterp.c: reading the PT_INTERP segment of an executable.
   Offsets and sizes are N (they come from the file and can be huge); they are
   turned into list positions only after being bounded by the file length. *)
From K Require Export Progs.
Local Open Scope N_scope.

Fixpoint le_val (bytes : str) : N :=          (* little-endian *)
  match bytes with
  | [] => 0
  | c :: r => N_of_ascii c + 256 * le_val r
  end.
Definition field (b : str) (off len : nat) : N := le_val (firstn len (skipn off b)).

Definition off_max : N := 9223372036854775808.   (* lseek: offsets >= 2^63 are negative *)
Definition alloc_max : N := 4294967296.          (* model assumption: malloc(n) succeeds iff n <= 2^32 *)

(* read(fd, buf, want) at position pos *)
Definition k_read_at (i : nat) (pos want : N) : M (str + errno) :=
  sys (CReadN want)
      (fun f => let bytes := f_bytes (get_file f i) in
                let len := N.of_nat (length bytes) in
                let b := if len <=? pos then []
                         else firstn (N.to_nat (N.min want (len - pos))) (skipn (N.to_nat pos) bytes) in
                (RInt (Z.of_nat (length b)), inl b, f))
      (fun e => inr e).

(* `while (total < want) { r = read(fd, buf, want); if (!ok || !r) return NULL; total += r; }`
   On a regular file a read is short only at end of file: either the first read
   fills the buffer, or a later read returns 0 and the data is rejected. *)
Definition read_full (i : nat) (pos want : N) : M (option str) :=
  if want =? 0 then ret_ (Some [])
  else
    do r <- k_read_at i pos want;
    match r with
    | inr e => throw_errno e;; ret_ None
    | inl b =>
        let got := N.of_nat (length b) in
        if got =? 0 then ret_ None
        else if got <? want then
          do r2 <- k_read_at i (pos + got) want;
          match r2 with
          | inr e => throw_errno e;; ret_ None
          | inl _ => ret_ None
          end
        else ret_ (Some b)
    end.

Definition elf_magic : str := [ascii_of_N 127; "E"%char; "L"%char; "F"%char].

(* the C string in a buffer: up to the first NUL *)
Fixpoint c_string (s : str) : str :=
  match s with
  | [] => []
  | c :: r => if N_of_ascii c =? 0 then [] else c :: c_string r
  end.

Definition last_is_nul (s : str) : bool :=
  match rev s with c :: _ => N_of_ascii c =? 0 | [] => false end.

Fixpoint phdr_loop (count : nat) (i : nat) (pos : N) : M (option str) :=
  match count with
  | O => ret_ None
  | S count' =>
      do ph <- read_full i pos 56;
      match ph with
      | None => ret_ None
      | Some p =>
          if field p 0 4 =? 3 then          (* PT_INTERP *)
            let off := field p 8 8 in
            let filesz := field p 32 8 in
            if off_max <=? off then ret_ None            (* lseek fails *)
            else if alloc_max <? filesz then ret_ None   (* malloc fails *)
            else
              do seg <- read_full i off filesz;
              match seg with
              | None => ret_ None
              | Some s => if last_is_nul s then ret_ (Some (c_string s)) else ret_ None
              end
          else phdr_loop count' i (pos + 56)
      end
  end.

(* the interpreter string of the segment (before realpath) *)
Definition get_elf_interpreter_raw (i : nat) : M (option str) :=
  do h <- read_full i 0 64;
  match h with
  | None => ret_ None
  | Some hd =>
      let phoff := field hd 32 8 in
      if negb (str_eqb (firstn 4 hd) elf_magic) || (phoff =? 0) || (off_max <=? phoff) then ret_ None
      else phdr_loop (N.to_nat (field hd 56 2)) i phoff
  end.

(* realpath: identity on existing canonical paths, ENOENT otherwise *)
Definition get_elf_interpreter (i : nat) : M (option str) :=
  do r <- get_elf_interpreter_raw i;
  match r with
  | None => ret_ None
  | Some p =>
      do b <- is_ok;
      if negb b then ret_ None
      else
        do f <- get_fs;
        if fs_exists p f then ret_ (Some p) else throw_errno ENOENT;; ret_ None
  end.
