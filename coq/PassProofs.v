(* C02, handler level: one timeout pass over the WORLD.

   Composition of the queue refinement (QueueProofs.v), the exact copy of
   sync_file (SyncProofs.v), the journal (JournalProofs.v) and the loop of
   handle_timeout (Handler.v), for every benign oracle (no call fails, the
   process does not die, transfers may be cut into arbitrary pieces).

   Main results
     plain_head_iteration  one iteration of handle_timeout_loop on a due,
                           plain (flags 0), non-repeated head
     pass_idle / pass_stops / handle_timeout_idle / handle_timeout_not_due
                           nothing pending or nothing due: pause, nothing changes
     pass_plain_prefix     the loop over a due prefix of plain heads
     handle_timeout_plain_pass   the same for handle_timeout
     handle_timeout_one_plain_head   handle_timeout on a queue whose only due
                           entry is the head, spelled out *)
From K Require Import Str Dec Trace Fs World Progs Sieve Handler Linq LinqSpec LinqProofs
     DecProofs SyncProofs AbandonProofs JournalProofs QueueProofs Confine.
From Coq Require Import Lia.
Arguments N.add : simpl never.
Arguments N.sub : simpl never.
Arguments N.mul : simpl never.
Arguments N.of_nat : simpl never.
Arguments N.eqb : simpl never.
Arguments N.leb : simpl never.
Arguments Nat.pow : simpl never.
Arguments Nat.mul : simpl never.

Notation benign := SyncProofs.benign.

(* ---------- the error trace ---------- *)

Lemma tr_ok_frames t : tr_ok t = true -> t_frames t = [].
Proof. unfold tr_ok. destruct (t_frames t); [reflexivity | discriminate]. Qed.

Lemma tr_try_ok t : tr_ok t = true -> tr_ok (tr_try t) = true.
Proof.
  intros H. unfold tr_try. rewrite H. unfold tr_ok in *. cbn [t_frames]. exact H.
Qed.

(* try ... finally around something that keeps the trace *)
Lemma tr_keep_finally_rethrow m t t' :
  tr_ok t = true -> tr_keep (tr_try t) t' -> tr_keep t (tr_finally_rethrow_static m t').
Proof.
  destruct t as [fr pre post]. unfold tr_ok at 1. cbn [t_frames].
  destruct fr as [|x fr]; [intros _ | discriminate].
  unfold tr_try, tr_ok. cbn [t_frames t_pre t_post].
  intros [Hok Heq]. cbn [t_post] in Heq.
  destruct t' as [fr' pre' post']. unfold tr_ok in Hok. cbn [t_frames] in Hok.
  destruct fr' as [|y fr']; [|discriminate].
  unfold tr_finally_rethrow_static, tr_decrement. cbn [t_frames t_pre t_post].
  destruct post' as [|p'].
  - unfold tr_ok. cbn [t_frames t_post negb andb]. split; [reflexivity|].
    intros H0. cbn [t_post] in H0. specialize (Heq H0). subst post. injection Heq as ->. reflexivity.
  - cbn [andb t_post]. split; [reflexivity|].
    intros H0. cbn [t_post] in H0. specialize (Heq H0). subst post. discriminate Heq.
Qed.

Lemma tr_keep_finally t t' :
  tr_ok t = true -> tr_keep (tr_try t) t' -> tr_keep t (tr_finally t').
Proof.
  destruct t as [fr pre post]. unfold tr_ok at 1. cbn [t_frames].
  destruct fr as [|x fr]; [intros _ | discriminate].
  unfold tr_try, tr_ok. cbn [t_frames t_pre t_post].
  intros [Hok Heq]. cbn [t_post] in Heq.
  destruct t' as [fr' pre' post']. unfold tr_ok in Hok. cbn [t_frames] in Hok.
  destruct fr' as [|y fr']; [|discriminate].
  unfold tr_finally, tr_decrement. cbn [t_frames t_pre t_post].
  destruct post' as [|p']; cbn [snd].
  - cbn [t_post]. split; [reflexivity|].
    intros H0. cbn [t_post] in H0. specialize (Heq H0). subst post. injection Heq as ->. reflexivity.
  - cbn [t_post]. split; [reflexivity|].
    intros H0. cbn [t_post] in H0. specialize (Heq H0). subst post. discriminate Heq.
Qed.

Lemma tr_rethrow_context_ok s t : tr_ok t = true -> tr_rethrow_context s t = t.
Proof. intros H. unfold tr_rethrow_context. rewrite H. rewrite andb_false_r. reflexivity. Qed.

Lemma tr_catch_static_ok m t : tr_ok t = true -> tr_catch_static m t = (false, t).
Proof.
  intros H. unfold tr_catch_static. rewrite (tr_ok_frames t H).
  destruct (Nat.eqb (t_post t) 0); reflexivity.
Qed.

(* ---------- state-only steps ---------- *)

Lemma w_eta w : mkW (w_fs w) (w_n w) (w_log w) (w_clock w) (w_tr w) = w.
Proof. destruct w; reflexivity. Qed.

Lemma catch_static_ok m o w :
  tr_ok (w_tr w) = true -> catch_static m o w = (Some false, w).
Proof.
  intros H. unfold catch_static, bind, get_tr. rewrite (tr_catch_static_ok m _ H).
  unfold set_tr, ret_. rewrite w_eta. reflexivity.
Qed.

Lemma get_timestamp_ok pat o w :
  tr_ok (w_tr w) = true ->
  length (expand_pattern pat (dec (Z.to_N (w_clock w)))) <= name_max ->
  get_timestamp pat o w = (Some (Some (expand_pattern pat (dec (Z.to_N (w_clock w))))), w).
Proof.
  intros H Hl. unfold get_timestamp, bind, get_clock. rewrite is_ok_eq, H.
  apply Nat.ltb_ge in Hl. rewrite Hl. reflexivity.
Qed.

(* ---------- q_get_head: the three outcomes the pass distinguishes ---------- *)

Lemma get_head_empty o q w fuel :
  tr_ok (w_tr w) = true -> QRel q (w_fs w) [] ->
  q_get_head fuel q o w = (Some (Some (QPause (-1)), q), w).
Proof.
  intros Hok HR. rewrite q_get_head_unfold. unfold bind at 1. rewrite is_ok_eq, Hok. cbn [negb].
  rewrite (QR_size _ _ _ HR). cbn [length]. change (N.of_nat 0) with 0%N. rewrite N.eqb_refl.
  reflexivity.
Qed.

Lemma get_head_not_due o q w fuel p m t rest :
  benign o -> tr_ok (w_tr w) = true -> QRel q (w_fs w) ((p, m, t) :: rest) ->
  (w_clock w - t <? q_deb q)%Z = true ->
  q_get_head fuel q o w =
  (Some (Some (QPause (q_deb q - (w_clock w - t))), q),
   mkW (w_fs w) (S (w_n w)) ((CFstatat (q_dir q) (dec (q_head q)), RInt 0) :: w_log w)
       (w_clock w) (w_tr w)).
Proof.
  intros H Hok HR Hage.
  pose proof (QRel_head _ _ _ _ _ _ HR) as Hh.
  rewrite q_get_head_unfold. unfold bind at 1. rewrite is_ok_eq, Hok. cbn [negb].
  pose proof (QR_size _ _ _ HR) as Hs. cbn [length] in Hs.
  destruct (N.eqb_spec (q_size q) 0) as [E0|_]; [lia|].
  unfold bind at 1.
  rewrite (k_fstatat_link o w (q_dir q) (dec (q_head q)) (encode m p) t H Hh).
  unfold bind at 1. unfold get_clock at 1. cbn [w_clock]. rewrite Hage. reflexivity.
Qed.

Lemma get_head_ready o q w fuel p m t rest :
  benign o -> tr_ok (w_tr w) = true -> QRel q (w_fs w) ((p, m, t) :: rest) ->
  (w_clock w - t <? q_deb q)%Z = false -> occurs p rest = false ->
  exists w',
    q_get_head fuel q o w = (Some (Some (QReady p m), q), w') /\
    w_fs w' = w_fs w /\ w_clock w' = w_clock w /\ tr_keep (w_tr w) (w_tr w').
Proof.
  intros H Hok HR Hage Hocc.
  pose proof (QRel_head _ _ _ _ _ _ HR) as Hh.
  pose proof (QR_wf _ _ _ HR) as Hw. inversion Hw as [|? ? [Hp Hfit] Hw']; subst.
  unfold qpath in Hp. cbn [fst] in Hp. unfold fits, qpath in Hfit. cbn [fst snd] in Hfit.
  rewrite q_get_head_unfold. unfold bind at 1. rewrite is_ok_eq, Hok. cbn [negb].
  pose proof (QR_size _ _ _ HR) as Hs. cbn [length] in Hs.
  destruct (N.eqb_spec (q_size q) 0) as [E0|_]; [lia|].
  unfold bind at 1.
  rewrite (k_fstatat_link o w (q_dir q) (dec (q_head q)) (encode m p) t H Hh).
  set (w1 := mkW (w_fs w) (S (w_n w)) _ (w_clock w) (w_tr w)).
  unfold bind at 1. unfold get_clock at 1. change (w_clock w1) with (w_clock w).
  rewrite Hage.
  destruct (read_entry_ok q (dec (q_head q)) (encode m p) t o w1 H Hok Hh Hfit)
    as (w2 & E2 & Hf2 & Hc2 & Hok2 & Htr2).
  change (w_fs w1) with (w_fs w) in Hf2. change (w_clock w1) with (w_clock w) in Hc2.
  change (w_tr w1) with (w_tr w) in Htr2.
  unfold bind at 1. rewrite E2.
  unfold bind at 1. rewrite is_ok_eq, Hok2.
  rewrite decode_encode by exact Hp.
  rewrite (QR_bag _ _ _ HR). cbn [count_paths]. unfold qpath at 1. cbn [fst].
  rewrite str_eqb_refl. rewrite occurs_count in Hocc.
  destruct (count_paths p rest) as [|c] eqn:Ec; [|discriminate Hocc].
  cbn [Nat.add Nat.ltb Nat.leb]. unfold ret_. exists w2.
  split; [reflexivity|]. split; [exact Hf2|]. split; [exact Hc2|]. split; assumption.
Qed.

Lemma try_eq o w : try_ o w = (Some tt, upd_tr tr_try w).
Proof. reflexivity. Qed.
Lemma finally_eq o w : finally_ o w = (Some tt, upd_tr tr_finally w).
Proof. reflexivity. Qed.
Lemma finally_rethrow_eq m o w :
  finally_rethrow_static m o w = (Some tt, upd_tr (tr_finally_rethrow_static m) w).
Proof. reflexivity. Qed.
Lemma rethrow_context_eq s o w :
  rethrow_context s o w = (Some tt, upd_tr (tr_rethrow_context s) w).
Proof. reflexivity. Qed.
Lemma get_fs_eq o w : get_fs o w = (Some (w_fs w), w).
Proof. reflexivity. Qed.
Lemma ret_eq {A} (a : A) o w : ret_ a o w = (Some a, w).
Proof. reflexivity. Qed.

(* ---------- sync_file: the structure of the file system afterwards ---------- *)

Lemma sendfile_loop_dents o : benign o -> forall fuel out inp cur size w r w',
  sendfile_loop fuel out inp cur size o w = (r, w') -> fs_dents (w_fs w') = fs_dents (w_fs w).
Proof.
  intros H. induction fuel as [|fuel IH]; intros out inp cur size w r w' E.
  - cbn [sendfile_loop] in E. unfold ret_ in E. injection E as _ <-. reflexivity.
  - cbn [sendfile_loop] in E. destruct size as [|s].
    + unfold ret_ in E. injection E as _ <-. reflexivity.
    + destruct (k_sendfile_benign o w out inp cur (S s) H ltac:(lia))
        as [lim [w1 [L1 [L2 [E1 [F1 T1]]]]]].
      rewrite (bind_some _ _ _ _ _ _ E1) in E.
      assert (D1 : fs_dents (w_fs w1) = fs_dents (w_fs w)) by (rewrite F1; reflexivity).
      destruct (length (firstn lim (skipn cur (f_bytes (get_file (w_fs w) inp))))) as [|n].
      * unfold ret_ in E. injection E as _ <-. exact D1.
      * apply IH in E. rewrite E. exact D1.
Qed.

Lemma sendfile_loop_clock o : benign o -> forall fuel out inp cur size w r w',
  sendfile_loop fuel out inp cur size o w = (r, w') -> w_clock w' = w_clock w.
Proof.
  intros H. induction fuel as [|fuel IH]; intros out inp cur size w r w' E.
  - cbn [sendfile_loop] in E. unfold ret_ in E. injection E as _ <-. reflexivity.
  - cbn [sendfile_loop] in E. destruct size as [|s].
    + unfold ret_ in E. injection E as _ <-. reflexivity.
    + unfold bind at 1 in E. unfold k_sendfile in E. unfold bind at 1 in E.
      unfold transfer_limit at 1 in E. rewrite sys_benign in E by exact H.
      cbn [fst snd] in E.
      match type of E with
      | context [match ?n with O => _ | S _ => _ end _ _ = _] => destruct n
      end.
      * unfold ret_ in E. injection E as _ <-. reflexivity.
      * apply IH in E. rewrite E. reflexivity.
Qed.

(* same hypotheses as SyncProofs.sync_file_correct_mkparents *)
Lemma sync_file_struct o w dst src off i b :
  benign o ->
  tr_ok (w_tr w) = true ->
  (exists rest, dst = ch_slash :: rest) ->
  lookup (w_fs w) src = Some (NFile i) ->
  get_file (w_fs w) i = mkFile b true ->
  i < fs_next (w_fs w) ->
  lookup (w_fs w) dst = None ->
  (forall d, In d (parents_of dst) ->
             lookup (w_fs w) d = Some NDir \/ lookup (w_fs w) d = None) ->
  exists w',
    sync_file dst src off o w = (Some (Nat.max off (length b)), w') /\
    fs_next (w_fs w') = S (fs_next (w_fs w)) /\
    w_clock w' = w_clock w /\
    (keys_nodup (w_fs w) -> keys_nodup (w_fs w')).
Proof.
  intros H Htr [rest Habs] Hsrc Hfile Hino Hdst Hpar.
  destruct (parents_of_chain rest) as [Hch Hlast]. rewrite <- Habs in Hch, Hlast.
  destruct (mkdir_all_make o H (parents_of dst) root_path w eq_refl Hch Hpar)
    as [w1 [E1 [T1 [F1 [N1 [I1 [O1 [P1 L1]]]]]]]].
  assert (C1 : w_clock w1 = w_clock w /\ (keys_nodup (w_fs w) -> keys_nodup (w_fs w1))).
  { split; [|intros Hnd; exact (mkdir_all_nodup o H _ _ _ _ E1 Hnd)].
    clear -E1 H. revert w w1 E1. induction (parents_of dst) as [|d ds IH]; intros w w1 E1.
    - cbn [mkdir_all] in E1. unfold ret_ in E1. injection E1 as <-. reflexivity.
    - cbn [mkdir_all] in E1.
      rewrite (bind_some _ _ _ _ _ _ (k_mkdir_benign o w d H)) in E1.
      destruct (fst (fs_mkdir d (w_fs w))) as [e|].
      + destruct e; try (apply IH in E1; exact E1);
          unfold bind, throw_errno, throw_context, throw_static, throw, mod_tr, get_tr, set_tr in E1;
          cbn in E1; injection E1 as <-; reflexivity.
      + apply IH in E1. exact E1. }
  destruct C1 as [C1 ND1].
  assert (G1 : forall k, get_file (w_fs w1) k = get_file (w_fs w) k).
  { intros k. unfold get_file. rewrite F1. reflexivity. }
  assert (Hsrc1 : lookup (w_fs w1) src = Some (NFile i)) by (rewrite P1; [exact Hsrc | congruence]).
  assert (Hdst1 : lookup (w_fs w1) dst = None)
    by (rewrite O1; [exact Hdst | apply parents_of_not_self]).
  assert (Hdir1 : lookup (w_fs w1) (dirname dst) = Some NDir) by (rewrite Hlast; exact L1).
  unfold sync_file, when_ok.
  rewrite (bind_some _ _ _ _ _ _ (is_ok_eq o w)). rewrite Htr.
  assert (Ecp : create_parents dst o w = (Some tt, w1)).
  { unfold create_parents, when_ok.
    rewrite (bind_some _ _ _ _ _ _ (is_ok_eq o w)). rewrite Htr. exact E1. }
  rewrite (bind_some _ _ _ _ _ _ Ecp).
  rewrite (bind_some _ _ _ _ _ _ (is_ok_eq o w1)). rewrite T1, Htr. cbn [negb].
  destruct (k_open_read_file o w1 src i H) as [w2 [E2 [F2 T2]]].
  { exact Hsrc1. }
  { rewrite G1, Hfile. reflexivity. }
  rewrite (bind_some _ _ _ _ _ _ E2).
  assert (C2 : w_clock w2 = w_clock w1).
  { unfold k_open_read, k_open_gen in E2. rewrite sys_benign in E2 by exact H.
    apply (f_equal snd) in E2. cbn [snd] in E2. rewrite <- E2. reflexivity. }
  destruct (k_open_excl_new o w2 dst H) as [w3 [E3 [F3 T3]]].
  { rewrite F2. exact Hdst1. }
  { rewrite F2. exact Hdir1. }
  rewrite (bind_some _ _ _ _ _ _ E3).
  assert (C3 : w_clock w3 = w_clock w2).
  { unfold k_open_excl, k_open_gen in E3. rewrite sys_benign in E3 by exact H.
    apply (f_equal snd) in E3. cbn [snd] in E3. rewrite <- E3. reflexivity. }
  rewrite F2 in E3, F3. clear E3.
  destruct (k_fstat_file o w3 i H) as [w4 [E4 [F4 T4]]].
  rewrite (bind_some _ _ _ _ _ _ E4).
  assert (C4 : w_clock w4 = w_clock w3).
  { unfold k_fstat in E4. rewrite sys_benign in E4 by exact H.
    apply (f_equal snd) in E4. cbn [snd] in E4. rewrite <- E4. reflexivity. }
  clear E4.
  rewrite F2.
  assert (Hne : i <> fs_next (w_fs w1)) by lia.
  assert (Hb3 : get_file (w_fs w3) i = mkFile b true).
  { rewrite F3, get_file_created_other by exact Hne. rewrite G1. exact Hfile. }
  rewrite Hb3. cbn [f_bytes].
  destruct (sendfile_loop_ok o b off (fs_next (w_fs w1)) i H Hne
              (S (length b)) off (length b) w4) as [w5 [E5 [T5 [D5 [N5 [O5 B5]]]]]].
  { rewrite F4, Hb3. reflexivity. }
  { lia. }
  { lia. }
  { lia. }
  { lia. }
  { rewrite F4, F3, get_file_created_new. reflexivity. }
  rewrite (bind_some _ _ _ _ _ _ E5).
  pose proof (sendfile_loop_dents o H _ _ _ _ _ _ _ _ E5) as DD5.
  pose proof (sendfile_loop_clock o H _ _ _ _ _ _ _ _ E5) as C5.
  clear E5.
  destruct (k_close_benign o w5 H) as [w6 [E6 [F6 T6]]].
  rewrite (bind_some _ _ _ _ _ _ E6).
  assert (C6 : w_clock w6 = w_clock w5).
  { unfold k_close in E6. rewrite sys_unit_benign in E6 by exact H. apply (f_equal snd) in E6. cbn [snd] in E6. rewrite <- E6. reflexivity. }
  clear E6.
  destruct (k_close_benign o w6 H) as [w7 [E7 [F7 T7]]].
  rewrite (bind_some _ _ _ _ _ _ E7).
  assert (C7 : w_clock w7 = w_clock w6).
  { unfold k_close in E7. rewrite sys_unit_benign in E7 by exact H. apply (f_equal snd) in E7. cbn [snd] in E7. rewrite <- E7. reflexivity. }
  clear E7.
  unfold ret_. exists w7. split; [reflexivity|].
  split; [rewrite F7, F6, N5, F4, F3; cbn [created fs_next]; rewrite N1; reflexivity|].
  split; [congruence|].
  intros Hnd. unfold keys_nodup. rewrite F7, F6, DD5, F4, F3.
  apply keys_nodup_created; [exact (ND1 Hnd) | exact Hdst1].
Qed.

(* ---------- names ---------- *)

Definition version_of (cfg : config) (now : Z) : str :=
  expand_pattern (c_version_pattern cfg) (dec (Z.to_N now)).

(* the path relative to the common parent *)
Definition rel_of (cpl : nat) (p : str) : str := skipn (Nat.min (length p) cpl) p.

(* store_root/relative_path/version+extension *)
Definition store_name (cfg : config) (cpl : nat) (now : Z) (p : str) : str :=
  c_store_root cfg ++ ch_slash :: rel_of cpl p ++ ch_slash :: version_of cfg now
                   ++ get_file_extension (rel_of cpl p).

Definition offset_name (cfg : config) (cpl : nat) (p : str) : str :=
  c_offset_root cfg ++ ch_slash :: rel_of cpl p.

Lemma current_path_create root rel v :
  current_path (create_store_path root rel v) =
  root ++ ch_slash :: rel ++ ch_slash :: v ++ get_file_extension rel.
Proof.
  unfold current_path, create_store_path. cbn [sp_dups sp_base sp_ext].
  change (0 =? 0)%N with true. cbv iota.
  rewrite <- app_assoc. cbn [app]. rewrite <- app_assoc. reflexivity.
Qed.

(* ---------- write_counter 0 on a path that does not exist ---------- *)

(* the chain dirname p, dirname (dirname p), ... that Fs.anc_not_dir may look at *)
Fixpoint dchain (fuel : nat) (p : str) : list str :=
  match fuel with
  | O => []
  | S k => dirname p :: dchain k (dirname p)
  end.

Lemma missing_enoent p f : missing_errno p f = ENOENT <-> anc_not_dir (length p) f p = false.
Proof.
  unfold missing_errno. destruct (anc_not_dir (length p) f p); split; congruence.
Qed.

(* "no existing ancestor is a non-directory" survives a change of the file
   system that keeps directories, and turns absent names other than [dst] into
   nothing but directories -- provided [dst] is not on the chain *)
Lemma anc_not_dir_frame f f' dst :
  (forall x, lookup f x = Some NDir -> lookup f' x = Some NDir) ->
  (forall x, lookup f x = None -> x <> dst -> lookup f' x = None \/ lookup f' x = Some NDir) ->
  forall fuel p, anc_not_dir fuel f p = false -> ~ In dst (dchain fuel p) ->
                 anc_not_dir fuel f' p = false.
Proof.
  intros H1 H2. induction fuel as [|k IH]; intros p Ha Hn; [reflexivity|].
  cbn [anc_not_dir dchain] in *. cbv zeta in *.
  destruct (lookup f (dirname p)) as [nd|] eqn:E.
  - destruct nd; try discriminate Ha. rewrite (H1 _ E). reflexivity.
  - assert (Hd : dirname p <> dst) by (intros X; apply Hn; left; exact X).
    destruct (H2 _ E Hd) as [E'|E'].
    + rewrite E'. destruct (str_eqb (dirname p) p); [reflexivity|].
      apply IH; [exact Ha|]. intros X. apply Hn. right. exact X.
    + rewrite E'. reflexivity.
Qed.

Lemma write_counter_zero_absent o w p :
  benign o -> tr_ok (w_tr w) = true ->
  lookup (w_fs w) p = None ->
  missing_errno p (w_fs w) = ENOENT ->     (* no existing ancestor of p is a non-directory *)
  exists w',
    write_counter p 0%N o w = (Some tt, w') /\
    w_fs w' = w_fs w /\ w_tr w' = w_tr w /\ w_clock w' = w_clock w.
Proof.
  intros H Hok Hl Em. unfold write_counter. rewrite when_ok_true by exact Hok.
  change (0 =? 0)%N with true. cbv iota.
  unfold k_unlink. rewrite (bind_some _ _ _ _ _ _ (sys_unit_benign o w _ _ H)).
  unfold fs_unlink. rewrite Hl. cbn [fst snd].
  rewrite Em. unfold ret_. eexists. split; [reflexivity|].
  cbn [w_fs w_tr w_clock]. auto.
Qed.

(* ---------- the copy loop of a file head, first candidate free ---------- *)

Lemma file_store_plain o w cfg n sp src offp i b :
  benign o -> tr_ok (w_tr w) = true ->
  (exists rest, current_path sp = ch_slash :: rest) ->
  lookup (w_fs w) src = Some (NFile i) ->
  get_file (w_fs w) i = mkFile b true ->
  i < fs_next (w_fs w) ->
  lookup (w_fs w) (current_path sp) = None ->
  (forall d, In d (parents_of (current_path sp)) ->
             lookup (w_fs w) d = Some NDir \/ lookup (w_fs w) d = None) ->
  lookup (w_fs w) offp = None ->
  offp <> current_path sp -> ~ In offp (parents_of (current_path sp)) ->
  ~ In (current_path sp) (dchain (length offp) offp) ->
  missing_errno offp (w_fs w) = ENOENT ->
  exists w',
    file_store_loop (S n) sp src offp 0 false cfg o w = (Some (c_ev_stored cfg, true, sp), w') /\
    tr_keep (w_tr w) (w_tr w') /\ w_clock w' = w_clock w /\
    lookup (w_fs w') (current_path sp) = Some (NFile (fs_next (w_fs w))) /\
    f_bytes (get_file (w_fs w') (fs_next (w_fs w))) = b /\
    (forall d, In d (parents_of (current_path sp)) -> lookup (w_fs w') d = Some NDir) /\
    (forall x, x <> current_path sp -> ~ In x (parents_of (current_path sp)) ->
               lookup (w_fs w') x = lookup (w_fs w) x) /\
    (forall x, x <> current_path sp -> lookup (w_fs w) x <> None ->
               lookup (w_fs w') x = lookup (w_fs w) x) /\
    (forall k, k <> fs_next (w_fs w) -> get_file (w_fs w') k = get_file (w_fs w) k) /\
    fs_next (w_fs w') = S (fs_next (w_fs w)) /\
    (keys_nodup (w_fs w) -> keys_nodup (w_fs w')).
Proof.
  intros H Hok Habs Hsrc Hfile Hino Hdst Hpar Hoff Hod Hop Hdd Hdp.
  set (dst := current_path sp) in *.
  cbn [file_store_loop]. fold dst.
  rewrite (bind_some _ _ _ _ _ _ (try_eq o w)).
  set (w1 := upd_tr tr_try w).
  assert (Hok1 : tr_ok (w_tr w1) = true) by (apply tr_try_ok; exact Hok).
  destruct (sync_file_correct_mkparents o w1 dst src 0 i b H Hok1 Habs Hsrc Hfile Hino Hdst Hpar)
    as (w2 & j & E2 & Hok2 & T2 & J2 & L2 & B2 & I2 & O2 & P2 & G2i & G2).
  destruct (sync_file_struct o w1 dst src 0 i b H Hok1 Habs Hsrc Hfile Hino Hdst Hpar)
    as (w2' & E2' & N2 & C2 & ND2).
  rewrite E2 in E2'. injection E2' as <-.
  change (w_fs w1) with (w_fs w) in *. change (w_clock w1) with (w_clock w) in *.
  subst j. cbn [skipn] in B2.
  rewrite (bind_some _ _ _ _ _ _ E2).
  rewrite (bind_some _ _ _ _ _ _ (catch_static_ok M_src_missing o w2 Hok2)). cbv iota.
  rewrite (bind_some _ _ _ _ _ _ (catch_static_ok M_not_regular o w2 Hok2)). cbv iota.
  rewrite (bind_some _ _ _ _ _ _ (catch_static_ok M_src_denied o w2 Hok2)). cbv iota.
  rewrite (bind_some _ _ _ _ _ _ (catch_static_ok M_dst_exists o w2 Hok2)). cbv iota.
  change (N.of_nat 0) with 0%N.
  destruct (write_counter_zero_absent o w2 offp H Hok2) as (w3 & E3 & F3 & T3 & C3).
  { rewrite O2; assumption. }
  { apply missing_enoent. apply missing_enoent in Hdp.
    apply (anc_not_dir_frame (w_fs w) (w_fs w2) dst); [| |exact Hdp|exact Hdd].
    - intros x Hx. rewrite P2; [exact Hx | | congruence]. intros ->. congruence.
    - intros x Hx Hxd. destruct (str_in_dec x (parents_of dst)) as [Hin|Hnin].
      + right. apply I2. exact Hin.
      + left. rewrite O2; assumption. }
  rewrite (bind_some _ _ _ _ _ _ E3).
  rewrite (bind_some _ _ _ _ _ _ (is_ok_eq o w3)). rewrite T3, Hok2.
  rewrite (bind_some _ _ _ _ _ _ (finally_eq o w3)). unfold ret_.
  eexists. split; [reflexivity|]. cbn [upd_tr w_fs w_tr w_clock]. rewrite F3, T3, T2, C3, C2.
  split; [apply tr_keep_finally; [exact Hok | apply tr_keep_refl; exact Hok1]|].
  split; [reflexivity|].
  split; [exact L2|]. split; [exact B2|]. split; [exact I2|]. split; [exact O2|].
  split; [exact P2|]. split; [exact G2|]. split; [exact N2 | exact ND2].
Qed.

(* ---------- record_event: the journal is appended to, nothing else moves ---------- *)

Definition ts_of (jn : journal) (now : Z) : str :=
  expand_pattern (j_pattern jn) (dec (Z.to_N now)).

(* the line record_event writes *)
Definition jline (oj : option journal) (ev : option str) (path : str) (now : Z) : str :=
  match oj, ev with
  | Some jn, Some e => journal_line (ts_of jn now) e 0 path
  | _, _ => []
  end.

(* what happens to the file system: [line] is appended to the journal inode
   (JournalProofs.appended: no other inode, no name changes) *)
Definition journal_step (oj : option journal) (line : str) (f f' : fs) : Prop :=
  match oj with
  | Some jn => appended (j_ino jn) line f f'
  | None => f' = f
  end.

Definition journal_fits (oj : option journal) (ev : option str) (now : Z) : Prop :=
  forall jn e, oj = Some jn -> ev = Some e -> length (ts_of jn now) <= 255.

Lemma journal_step_dents oj line f f' : journal_step oj line f f' -> fs_dents f' = fs_dents f.
Proof.
  destruct oj as [jn|]; cbn [journal_step].
  - intros (_ & _ & _ & D & _). exact D.
  - intros ->. reflexivity.
Qed.

Lemma journal_step_next oj line f f' : journal_step oj line f f' -> fs_next f' = fs_next f.
Proof.
  destruct oj as [jn|]; cbn [journal_step].
  - intros (_ & _ & _ & _ & N). exact N.
  - intros ->. reflexivity.
Qed.

Lemma journal_step_lookup oj line f f' x : journal_step oj line f f' -> lookup f' x = lookup f x.
Proof. intros HJ. unfold lookup. rewrite (journal_step_dents _ _ _ _ HJ). reflexivity. Qed.

Lemma journal_step_file oj line f f' k :
  journal_step oj line f f' -> (forall jn, oj = Some jn -> k <> j_ino jn) ->
  get_file f' k = get_file f k.
Proof.
  destruct oj as [jn|]; cbn [journal_step].
  - intros (_ & _ & G & _) Hk. apply G. apply Hk. reflexivity.
  - intros -> _. reflexivity.
Qed.

Lemma journal_step_nodup oj line f f' : journal_step oj line f f' -> keys_nodup f -> keys_nodup f'.
Proof. intros HJ. unfold keys_nodup. rewrite (journal_step_dents _ _ _ _ HJ). auto. Qed.

Lemma QRel_same_dents q f f' ents : fs_dents f' = fs_dents f -> QRel q f ents -> QRel q f' ents.
Proof.
  intros D [Hs Hh0 Hd Hnr He Hf Hb Hw].
  assert (L : forall x, lookup f' x = lookup f x) by (intros x; unfold lookup; rewrite D; reflexivity).
  constructor; try assumption.
  - rewrite L. exact Hd.
  - intros i p m t Hi. rewrite L. exact (He i p m t Hi).
  - intros k Hk. rewrite L. exact (Hf k Hk).
Qed.

Lemma record_event_ok o w ev path h :
  benign o -> tr_ok (w_tr w) = true ->
  journal_fits (h_journal h) ev (w_clock w) ->
  exists w',
    record_event ev 0 path h o w = (Some tt, w') /\
    tr_keep (w_tr w) (w_tr w') /\ w_clock w' = w_clock w /\
    journal_step (h_journal h) (jline (h_journal h) ev path (w_clock w)) (w_fs w) (w_fs w').
Proof.
  intros H Hok Hfit. unfold record_event.
  rewrite (bind_some _ _ _ _ _ _ (try_eq o w)).
  set (w1 := upd_tr tr_try w).
  assert (Hok1 : tr_ok (w_tr w1) = true) by (apply tr_try_ok; exact Hok).
  assert (Hn : exists w2,
             note ev 0 path (h_journal h) o w1 = (Some tt, w2) /\
             w_tr w2 = w_tr w1 /\ w_clock w2 = w_clock w /\
             journal_step (h_journal h) (jline (h_journal h) ev path (w_clock w)) (w_fs w) (w_fs w2)).
  { destruct (h_journal h) as [jn|] eqn:Ej.
    - destruct ev as [e|].
      + destruct (note_appends_one_line o w1 e 0 path jn H Hok1) as (w2 & E2 & A2 & T2 & C2).
        { exact (Hfit jn e eq_refl eq_refl). }
        exists w2. split; [exact E2|]. split; [exact T2|]. split; [exact C2|]. exact A2.
      + exists w1. split; [apply note_no_event|]. split; [reflexivity|]. split; [reflexivity|].
        cbn [journal_step jline]. apply appended_nil.
    - exists w1. split; [apply note_no_journal|]. split; [reflexivity|]. split; [reflexivity|].
      reflexivity. }
  destruct Hn as (w2 & E2 & T2 & C2 & J2).
  rewrite (bind_some _ _ _ _ _ _ E2).
  assert (Hk : tr_keep (w_tr w) (tr_finally_rethrow_static M_journal_cannot_write (w_tr w2))).
  { rewrite T2. apply tr_keep_finally_rethrow; [exact Hok | apply tr_keep_refl; exact Hok1]. }
  destruct (c_journal_path (h_cfg h)) as [jp|].
  - rewrite (bind_some _ _ _ _ _ _ (rethrow_context_eq jp o w2)).
    rewrite finally_rethrow_eq. eexists. split; [reflexivity|].
    cbn [upd_tr w_fs w_tr w_clock].
    rewrite (tr_rethrow_context_ok jp (w_tr w2)) by (rewrite T2; exact Hok1).
    split; [exact Hk|]. split; [exact C2 | exact J2].
  - rewrite (bind_some _ _ _ _ _ _ (ret_eq tt o w2)).
    rewrite finally_rethrow_eq. eexists. split; [reflexivity|].
    cbn [upd_tr w_fs w_tr w_clock].
    split; [exact Hk|]. split; [exact C2 | exact J2].
Qed.

(* ---------- one iteration of the loop on a plain, due, non-repeated head ---------- *)

(* what the entry, the configuration and the file system must satisfy:
   [p] is the queued path, [i] the inode of the source, [b] its content *)
Record plain_ok (cfg : config) (cpl : nat) (oj : option journal) (qdir : str)
       (f : fs) (now : Z) (p : str) (i : nat) (b : str) : Prop := {
  (* the entry is one push_to_linq produces: absolute, no trailing slash, below the common parent *)
  PO_abs : prefixb [ch_slash] p = true;
  PO_last : is_slash (last p ch_dot) = false;
  PO_cpl : cpl <= length p;
  (* the version string is a file name *)
  PO_vlen : length (version_of cfg now) <= name_max;
  PO_vslash : existsb is_slash (version_of cfg now) = false;
  (* the source is a readable regular file with content b *)
  PO_src : lookup f p = Some (NFile i);
  PO_file : get_file f i = mkFile b true;
  PO_ino : i < fs_next f;
  (* the first candidate name is free and nothing but directories is in its way;
     the store is not inside the queue directory *)
  PO_root_abs : exists r, c_store_root cfg = ch_slash :: r;
  PO_dst_free : lookup f (store_name cfg cpl now p) = None;
  PO_dst_par : forall d, In d (parents_of (store_name cfg cpl now p)) ->
                         lookup f d = Some NDir \/ lookup f d = None;
  PO_dst_q : Str.under qdir (store_name cfg cpl now p) = false;
  (* no offset is recorded for the path (it is not a history path) *)
  PO_off_free : lookup f (offset_name cfg cpl p) = None;
  (* unlink(offset path) answers ENOENT: no existing ancestor of it is a non-directory *)
  PO_off_par : missing_errno (offset_name cfg cpl p) f = ENOENT;
  PO_off_ne : offset_name cfg cpl p <> store_name cfg cpl now p;
  PO_off_nin : ~ In (offset_name cfg cpl p) (parents_of (store_name cfg cpl now p));
  (* the new version is not an ancestor of the offset path *)
  PO_off_dir : ~ In (store_name cfg cpl now p)
                    (dchain (length (offset_name cfg cpl p)) (offset_name cfg cpl p));
  (* the journal, if any: its time stamp is a name, it is an existing inode other than the source *)
  PO_jfits : journal_fits oj (c_ev_stored cfg) now;
  PO_jino : forall jn, oj = Some jn -> j_ino jn <> i /\ j_ino jn < fs_next f
}.

(* the file system after the iteration, relative to the one before *)
Record step_post (cfg : config) (cpl : nat) (oj : option journal) (hname : str)
       (f f' : fs) (now : Z) (p : str) (b : str) : Prop := {
  (* (1) exactly the new version appears, with the content of the source *)
  SP_dst : lookup f' (store_name cfg cpl now p) = Some (NFile (fs_next f));
  SP_bytes : f_bytes (get_file f' (fs_next f)) = b;
  SP_par : forall d, In d (parents_of (store_name cfg cpl now p)) -> lookup f' d = Some NDir;
  (* (2) the head link is gone *)
  SP_head : lookup f' hname = None;
  (* every other name is as before *)
  SP_other : forall x, x <> store_name cfg cpl now p ->
                       ~ In x (parents_of (store_name cfg cpl now p)) -> x <> hname ->
                       lookup f' x = lookup f x;
  SP_exist : forall x, x <> hname -> lookup f x <> None -> lookup f' x = lookup f x;
  (* every other inode but the journal is as before; the journal is appended to *)
  SP_files : forall k, k <> fs_next f -> (forall jn, oj = Some jn -> k <> j_ino jn) ->
                       get_file f' k = get_file f k;
  SP_journal : forall jn, oj = Some jn ->
      f_bytes (get_file f' (j_ino jn)) =
        f_bytes (get_file f (j_ino jn)) ++ jline oj (c_ev_stored cfg) (rel_of cpl p) now /\
      f_readable (get_file f' (j_ino jn)) = f_readable (get_file f (j_ino jn));
  SP_next : fs_next f' = S (fs_next f)
}.

Lemma under_join_dec qdir k dst :
  qdir <> root_path -> Str.under qdir dst = false ->
  dst <> join qdir (dec k) /\ ~ In (join qdir (dec k)) (parents_of dst).
Proof.
  intros Hq Hu. rewrite (join_nonroot qdir _ Hq).
  assert (Hn : forall t, dst <> (qdir ++ [ch_slash]) ++ t).
  { intros t E. unfold Str.under in Hu.
    assert (Hp : prefixb (qdir ++ [ch_slash]) dst = true) by (apply prefixb_spec; eauto).
    congruence. }
  split.
  - intros E. apply (Hn (dec k)). rewrite <- app_assoc. exact E.
  - intros Hin. apply parents_of_prefix in Hin. destruct Hin as [r Hr].
    apply (Hn (dec k ++ ch_slash :: r)). rewrite Hr. rewrite <- !app_assoc. reflexivity.
Qed.

Lemma QRel_frame q f f' ents :
  QRel q f ents ->
  (forall x, lookup f x <> None -> lookup f' x = lookup f x) ->
  (forall k, lookup f (join (q_dir q) (dec k)) = None ->
             lookup f' (join (q_dir q) (dec k)) = None) ->
  QRel q f' ents.
Proof.
  intros [Hs Hh0 Hd Hnr He Hf Hb Hw] Hex Hfree.
  constructor; try assumption.
  - rewrite Hex; [exact Hd | congruence].
  - intros i p m t Hi. pose proof (He i p m t Hi) as E. rewrite Hex; [exact E | congruence].
  - intros k Hk. apply Hfree. exact (Hf k Hk).
Qed.

Theorem plain_head_iteration o w h rev fuel p t rest i b :
  benign o -> tr_ok (w_tr w) = true -> keys_nodup (w_fs w) ->
  QRel (h_q h) (w_fs w) ((p, 0%N, t) :: rest) ->
  (q_deb (h_q h) <= w_clock w - t)%Z ->            (* the head is due *)
  occurs p rest = false ->                          (* and is the last entry of its burst *)
  plain_ok (h_cfg h) (h_cpl h) (h_journal h) (q_dir (h_q h)) (w_fs w) (w_clock w) p i b ->
  exists w',
    handle_timeout_loop (S fuel) rev h o w =
      handle_timeout_loop fuel rev (set_q (popped p (h_q h)) h) o w' /\
    step_post (h_cfg h) (h_cpl h) (h_journal h) (head_name (h_q h))
              (w_fs w) (w_fs w') (w_clock w) p b /\
    QRel (popped p (h_q h)) (w_fs w') rest /\
    keys_nodup (w_fs w') /\
    tr_keep (w_tr w) (w_tr w') /\ w_clock w' = w_clock w.
Proof.
  intros H Hok Hnd HR Hdue Hocc HP.
  destruct HP as [Pabs Plast Pcpl Pvlen Pvslash Psrc Pfile Pino Prabs Pfree Ppar Pq
                  Pofree Popar Pone Ponin Podir Pjfits Pjino].
  set (q := h_q h) in *. set (cfg := h_cfg h) in *.
  set (dst := store_name cfg (h_cpl h) (w_clock w) p) in *.
  set (offp := offset_name cfg (h_cpl h) p) in *.
  cbn [handle_timeout_loop].
  rewrite (bind_some _ _ _ _ _ _ (is_ok_eq o w)). rewrite Hok. cbn [negb].
  rewrite (bind_some _ _ _ _ _ _ (try_eq o w)).
  set (wa := upd_tr tr_try w).
  assert (Hoka : tr_ok (w_tr wa) = true) by (apply tr_try_ok; exact Hok).
  fold q.
  destruct (get_head_ready o q wa (S (N.to_nat (q_size q))) p 0%N t rest H Hoka HR)
    as (wb & Eb & Fb & Cb & Kb).
  { apply Z.ltb_ge. exact Hdue. }
  { exact Hocc. }
  change (w_fs wa) with (w_fs w) in Fb. change (w_clock wa) with (w_clock w) in Cb.
  change (w_tr wa) with (tr_try (w_tr w)) in Kb.
  rewrite (bind_some _ _ _ _ _ _ Eb).
  rewrite (bind_some _ _ _ _ _ _ (finally_rethrow_eq _ o wb)).
  set (wc := upd_tr (tr_finally_rethrow_static M_linq_cannot_get_head) wb).
  assert (Kc : tr_keep (w_tr w) (w_tr wc)) by (apply tr_keep_finally_rethrow; assumption).
  assert (Fc : w_fs wc = w_fs w) by exact Fb.
  assert (Cc : w_clock wc = w_clock w) by exact Cb.
  pose proof (tr_keep_ok _ _ Kc) as Hokc.
  clearbody wc. clear Eb.
  cbv iota beta.
  rewrite (bind_some _ _ _ _ _ _ (is_ok_eq o wc)). rewrite Hokc. cbv iota.
  cbn [set_q h_cfg h_cpl h_q h_journal]. fold cfg.
  assert (Ets : get_timestamp (c_version_pattern cfg) o wc =
                (Some (Some (version_of cfg (w_clock w))), wc)).
  { unfold version_of. rewrite <- Cc. apply get_timestamp_ok; [exact Hokc|].
    rewrite Cc. exact Pvlen. }
  rewrite (bind_some _ _ _ _ _ _ Ets).
  rewrite (bind_some _ _ _ _ _ _ (is_ok_eq o wc)). rewrite Hokc. rewrite Pvslash.
  rewrite (bind_some _ _ _ _ _ _ (ret_eq tt o wc)).
  rewrite (bind_some _ _ _ _ _ _ (is_ok_eq o wc)). rewrite Hokc.
  change (N.shiftr 0 2) with 0%N. change (N.odd 0) with false.
  change (N.testbit 0 1) with false. change (shift_right2 0) with 0.
  rewrite Pabs, Plast.
  assert (Hn0 : (N.of_nat (length p) <? 0)%N = false) by (apply N.ltb_ge; lia).
  assert (Hcpl : Nat.ltb (length p) (h_cpl h) = false) by (apply Nat.ltb_ge; exact Pcpl).
  rewrite Hn0, Hcpl. cbn [negb orb andb].
  rewrite (bind_some _ _ _ _ _ _ (ret_eq 0%N o wc)).
  rewrite (bind_some _ _ _ _ _ _ (is_ok_eq o wc)). rewrite Hokc. cbn [negb].
  rewrite (bind_some _ _ _ _ _ _ (get_fs_eq o wc)).
  change (N.to_nat 0) with 0.
  fold (rel_of (h_cpl h) p). fold (offset_name cfg (h_cpl h) p). fold offp.
  set (sp := create_store_path (c_store_root cfg) (rel_of (h_cpl h) p) (version_of cfg (w_clock w))).
  assert (Edst : current_path sp = dst) by apply current_path_create.
  assert (Habs : exists r, current_path sp = ch_slash :: r).
  { rewrite Edst. destruct Prabs as [r Hr]. unfold dst, store_name. rewrite Hr.
    eexists. reflexivity. }
  set (n := dir_entry_count (w_fs wc) (dirname (current_path sp))). clearbody n.
  destruct (file_store_plain o wc cfg (S n) sp p offp i b H Hokc Habs)
    as (wd & Ed & Kd & Cd & Ld & Bd & Id & Od & Pd & Gd & Nd & NDd);
    try (rewrite Fc); try (rewrite Edst); try assumption.
  rewrite Fc in Ld, Bd, Od, Pd, Gd, Nd, NDd. rewrite Edst in Ld, Id, Od, Pd.
  rewrite (bind_some _ _ _ _ _ _ Ed). clear Ed. cbv iota beta.
  pose proof (tr_keep_ok _ _ Kd) as Hokd.
  assert (HRd : QRel q (w_fs wd) ((p, 0%N, t) :: rest)).
  { apply (QRel_frame q (w_fs w)); [exact HR | |].
    - intros x Hx. apply Pd; [|exact Hx]. intros ->. exact (Hx Pfree).
    - intros k Hk. destruct (under_join_dec (q_dir q) k dst (QR_nroot _ _ _ HR) Pq) as [A B].
      rewrite Od; [exact Hk | congruence | exact B]. }
  destruct (pop_ok q p 0%N t rest o wd H Hokd (NDd Hnd) HRd)
    as (we & Ee & HRe & Fe & NDe & Ke & Ce & Le & Oe & Ge).
  rewrite (bind_some _ _ _ _ _ _ Ee). clear Ee.
  pose proof (tr_keep_ok _ _ Ke) as Hoke.
  rewrite (bind_some _ _ _ _ _ _ (is_ok_eq o we)). rewrite Hoke. cbn [negb Nat.ltb Nat.leb andb].
  rewrite (bind_some _ _ _ _ _ _ (ret_eq tt o we)).
  destruct (record_event_ok o we (c_ev_stored cfg) (rel_of (h_cpl h) p)
              (set_q (popped p q) (set_q q h)) H Hoke)
    as (wf & Ef & Kf & Cf & Jf).
  { cbn [set_q h_journal]. rewrite Ce, Cd, Cc. exact Pjfits. }
  cbn [set_q h_journal] in Jf. rewrite Ce, Cd, Cc in Jf.
  rewrite (bind_some _ _ _ _ _ _ Ef). clear Ef.
  exists wf. split; [reflexivity|].
  assert (Lf : forall x, lookup (w_fs wf) x = lookup (w_fs we) x)
    by (intros x; exact (journal_step_lookup _ _ _ _ x Jf)).
  assert (Gde : forall k, get_file (w_fs we) k = get_file (w_fs wd) k)
    by (apply get_file_ext; exact Ge).
  destruct (under_join_dec (q_dir q) (q_head q) dst (QR_nroot _ _ _ HR) Pq) as [Hhd Hhp].
  fold (head_name q) in Hhd, Hhp.
  assert (Hjn : forall jn, h_journal h = Some jn -> fs_next (w_fs w) <> j_ino jn).
  { intros jn Hj. destruct (Pjino jn Hj) as [_ Hlt]. lia. }
  split; [|split; [|split; [|split]]].
  - constructor.
    + rewrite Lf, Oe by exact Hhd. exact Ld.
    + rewrite (journal_step_file _ _ _ _ _ Jf Hjn), Gde. exact Bd.
    + intros d Hd. rewrite Lf, Oe; [exact (Id d Hd)|]. intros ->. exact (Hhp Hd).
    + rewrite Lf. exact Le.
    + intros x X1 X2 X3. rewrite Lf, (Oe x X3). exact (Od x X1 X2).
    + intros x X1 X2. rewrite Lf, (Oe x X1). apply Pd; [|exact X2]. intros ->. exact (X2 Pfree).
    + intros k K1 K2. rewrite (journal_step_file _ _ _ _ _ Jf K2), Gde. exact (Gd k K1).
    + intros jn Hj. unfold journal_step in Jf. rewrite Hj in Jf. rewrite Hj.
      destruct Jf as (A1 & A2 & _).
      assert (Ej : get_file (w_fs we) (j_ino jn) = get_file (w_fs w) (j_ino jn)).
      { rewrite Gde. apply Gd. intros E. exact (Hjn jn Hj (eq_sym E)). }
      rewrite A1, A2, Ej. split; reflexivity.
    + rewrite (journal_step_next _ _ _ _ Jf), Fe. exact Nd.
  - exact (QRel_same_dents _ _ _ _ (journal_step_dents _ _ _ _ Jf) HRe).
  - exact (journal_step_nodup _ _ _ _ Jf NDe).
  - exact (tr_keep_trans _ _ _ Kc (tr_keep_trans _ _ _ Kd (tr_keep_trans _ _ _ Ke Kf))).
  - congruence.
Qed.

Print Assumptions plain_head_iteration.

(* ---------- nothing pending / nothing due ---------- *)

Lemma set_q_self h : set_q (h_q h) h = h.
Proof. destruct h; reflexivity. Qed.

(* what a pass that only looks at the queue leaves behind *)
Definition pause_of (now deb : Z) (rest : list qent) : Z :=
  match rest with
  | [] => (-1)%Z
  | (_, _, t) :: _ => (deb - (now - t))%Z
  end.

Definition not_due (now deb : Z) (rest : list qent) : Prop :=
  match rest with
  | [] => True
  | (_, _, t) :: _ => (now - t < deb)%Z
  end.

(* the queue is empty: no call is made, so no oracle assumption is needed *)
Lemma pass_idle (o : oracle) w h rev fuel :
  tr_ok (w_tr w) = true -> QRel (h_q h) (w_fs w) [] ->
  exists w',
    handle_timeout_loop (S fuel) rev h o w = (Some (TPause (-1), h), w') /\
    w_fs w' = w_fs w /\ w_n w' = w_n w /\ w_log w' = w_log w /\ w_clock w' = w_clock w /\
    tr_keep (w_tr w) (w_tr w').
Proof.
  intros Hok HR. cbn [handle_timeout_loop].
  rewrite (bind_some _ _ _ _ _ _ (is_ok_eq o w)). rewrite Hok. cbn [negb].
  rewrite (bind_some _ _ _ _ _ _ (try_eq o w)).
  set (wa := upd_tr tr_try w).
  assert (Hoka : tr_ok (w_tr wa) = true) by (apply tr_try_ok; exact Hok).
  rewrite (bind_some _ _ _ _ _ _ (get_head_empty o (h_q h) wa _ Hoka HR)).
  rewrite (bind_some _ _ _ _ _ _ (finally_rethrow_eq _ o wa)).
  set (wc := upd_tr (tr_finally_rethrow_static M_linq_cannot_get_head) wa).
  assert (Kc : tr_keep (w_tr w) (w_tr wc)).
  { apply tr_keep_finally_rethrow; [exact Hok | apply tr_keep_refl; exact Hoka]. }
  cbv iota beta.
  rewrite (bind_some _ _ _ _ _ _ (is_ok_eq o wc)). rewrite (tr_keep_ok _ _ Kc). cbv iota.
  unfold ret_. rewrite set_q_self. exists wc. split; [reflexivity|].
  split; [reflexivity|]. split; [reflexivity|]. split; [reflexivity|].
  split; [reflexivity | exact Kc].
Qed.

(* the last iteration of a pass: the queue is empty or its head is too young *)
Lemma pass_stops o w h rev fuel rest :
  benign o -> tr_ok (w_tr w) = true ->
  QRel (h_q h) (w_fs w) rest -> not_due (w_clock w) (q_deb (h_q h)) rest ->
  exists w',
    handle_timeout_loop (S fuel) rev h o w =
      (Some (TPause (pause_of (w_clock w) (q_deb (h_q h)) rest), h), w') /\
    w_fs w' = w_fs w /\ w_clock w' = w_clock w /\ tr_keep (w_tr w) (w_tr w').
Proof.
  intros H Hok HR Hnd.
  destruct rest as [|[[p m] t] rest].
  { destruct (pass_idle o w h rev fuel Hok HR) as (w' & E & F & _ & _ & C & K).
    exists w'. auto. }
  cbn [handle_timeout_loop].
  rewrite (bind_some _ _ _ _ _ _ (is_ok_eq o w)). rewrite Hok. cbn [negb].
  rewrite (bind_some _ _ _ _ _ _ (try_eq o w)).
  set (wa := upd_tr tr_try w).
  assert (Hoka : tr_ok (w_tr wa) = true) by (apply tr_try_ok; exact Hok).
  cbn [not_due] in Hnd. apply Z.ltb_lt in Hnd.
  rewrite (bind_some _ _ _ _ _ _ (get_head_not_due o (h_q h) wa _ p m t rest H Hoka HR Hnd)).
  match goal with |- context [bind (finally_rethrow_static _) _ _ ?x] => set (wb := x) end.
  rewrite (bind_some _ _ _ _ _ _ (finally_rethrow_eq _ o wb)).
  set (wc := upd_tr (tr_finally_rethrow_static M_linq_cannot_get_head) wb).
  assert (Kc : tr_keep (w_tr w) (w_tr wc)).
  { apply tr_keep_finally_rethrow; [exact Hok | apply tr_keep_refl; exact Hoka]. }
  cbv iota beta.
  rewrite (bind_some _ _ _ _ _ _ (is_ok_eq o wc)). rewrite (tr_keep_ok _ _ Kc). cbv iota.
  unfold ret_. rewrite set_q_self. exists wc. split; [reflexivity|].
  split; [reflexivity|]. split; [reflexivity | exact Kc].
Qed.

(* "if nothing is pending the pass returns -1 (indefinite wait) and changes
   nothing": for EVERY oracle -- no system call is made at all *)
Theorem handle_timeout_idle (o : oracle) w h rev :
  tr_ok (w_tr w) = true -> QRel (h_q h) (w_fs w) [] ->
  exists w',
    handle_timeout rev h o w = (Some (TPause (-1), h), w') /\
    w_fs w' = w_fs w /\ w_n w' = w_n w /\ w_log w' = w_log w /\ w_clock w' = w_clock w /\
    tr_keep (w_tr w) (w_tr w').
Proof.
  intros Hok HR. unfold handle_timeout.
  destruct (pass_idle o w h rev (S (N.to_nat (q_size (h_q h)))) Hok HR)
    as (w' & E & F & N & L & C & K).
  rewrite (bind_some _ _ _ _ _ _ E).
  rewrite (bind_some _ _ _ _ _ _ (is_ok_eq o w')). rewrite (tr_keep_ok _ _ K).
  unfold ret_. exists w'. auto 10.
Qed.
Print Assumptions handle_timeout_idle.

(* the head is too young: one fstatat, the remaining wait is returned, the
   file system and the queue are untouched *)
Theorem handle_timeout_not_due o w h rev p m t rest :
  benign o -> tr_ok (w_tr w) = true ->
  QRel (h_q h) (w_fs w) ((p, m, t) :: rest) ->
  (w_clock w - t < q_deb (h_q h))%Z ->
  exists w',
    handle_timeout rev h o w = (Some (TPause (q_deb (h_q h) - (w_clock w - t)), h), w') /\
    w_fs w' = w_fs w /\ w_clock w' = w_clock w /\ tr_keep (w_tr w) (w_tr w') /\
    QRel (h_q h) (w_fs w') ((p, m, t) :: rest).
Proof.
  intros H Hok HR Hnd. unfold handle_timeout.
  destruct (pass_stops o w h rev (S (N.to_nat (q_size (h_q h)))) ((p, m, t) :: rest) H Hok HR Hnd)
    as (w' & E & F & C & K).
  rewrite (bind_some _ _ _ _ _ _ E).
  rewrite (bind_some _ _ _ _ _ _ (is_ok_eq o w')). rewrite (tr_keep_ok _ _ K).
  unfold ret_. exists w'. split; [reflexivity|]. split; [exact F|]. split; [exact C|].
  split; [exact K|]. rewrite F. exact HR.
Qed.
Print Assumptions handle_timeout_not_due.

(* ---------- the loop over a due prefix of plain heads ---------- *)

(* a due entry together with what the file system holds for it *)
Record entry := mkE { e_path : str; e_time : Z; e_ino : nat; e_bytes : str }.
Definition qent_of (e : entry) : qent := (e_path e, 0%N, e_time e).

(* the version of an earlier entry [p0] does not get in the way of a later one [p] *)
Record indep (cfg : config) (cpl : nat) (now : Z) (p0 p : str) : Prop := {
  IN_dst_ne : store_name cfg cpl now p <> store_name cfg cpl now p0;
  IN_dst_nin : ~ In (store_name cfg cpl now p) (parents_of (store_name cfg cpl now p0));
  IN_dst_par : ~ In (store_name cfg cpl now p0) (parents_of (store_name cfg cpl now p));
  IN_off_ne : offset_name cfg cpl p <> store_name cfg cpl now p0;
  IN_off_nin : ~ In (offset_name cfg cpl p) (parents_of (store_name cfg cpl now p0));
  (* the version of the earlier entry is not an ancestor of the later offset path *)
  IN_off_dir : ~ In (store_name cfg cpl now p0)
                    (dchain (length (offset_name cfg cpl p)) (offset_name cfg cpl p))
}.

Fixpoint all_ok (cfg : config) (cpl : nat) (oj : option journal) (qdir : str)
         (f : fs) (now : Z) (es : list entry) : Prop :=
  match es with
  | [] => True
  | e :: es' =>
      plain_ok cfg cpl oj qdir f now (e_path e) (e_ino e) (e_bytes e) /\
      Forall (fun e' => indep cfg cpl now (e_path e) (e_path e')) es' /\
      all_ok cfg cpl oj qdir f now es'
  end.

(* a later entry is still fine after an earlier one has been stored *)
Lemma plain_ok_step cfg cpl oj qdir hname tg tm f f' now p0 b0 p i b :
  step_post cfg cpl oj hname f f' now p0 b0 ->
  lookup f hname = Some (NLink tg tm) ->
  indep cfg cpl now p0 p ->
  plain_ok cfg cpl oj qdir f now p i b ->
  plain_ok cfg cpl oj qdir f' now p i b.
Proof.
  intros [Sdst Sbytes Spar Shead Sother Sexist Sfiles Sjournal Snext] Hh
         [I1 I2 I3 I4 I5 I6]
         [Pabs Plast Pcpl Pvlen Pvslash Psrc Pfile Pino Prabs Pfree Ppar Pq
          Pofree Popar Pone Ponin Podir Pjfits Pjino].
  (* a name that was free and is not one of the new ones is still free *)
  assert (Hfree : forall x, lookup f x = None ->
                            x <> store_name cfg cpl now p0 ->
                            ~ In x (parents_of (store_name cfg cpl now p0)) ->
                            lookup f' x = None).
  { intros x Hx X1 X2. destruct (str_eqb_spec x hname) as [->|X3]; [exact Shead|].
    rewrite (Sother x X1 X2 X3). exact Hx. }
  (* a name that was free or a directory and is not the new file is still one of the two *)
  assert (Hdir : forall x, lookup f x = Some NDir \/ lookup f x = None ->
                           x <> store_name cfg cpl now p0 ->
                           lookup f' x = Some NDir \/ lookup f' x = None).
  { intros x Hx X1.
    destruct (str_in_dec x (parents_of (store_name cfg cpl now p0))) as [Hin|Hnin].
    - left. exact (Spar x Hin).
    - destruct Hx as [Hx|Hx].
      + left. rewrite Sexist; [exact Hx | | congruence]. intros ->. congruence.
      + right. exact (Hfree x Hx X1 Hnin). }
  constructor; try assumption.
  - rewrite Sexist; [exact Psrc | | congruence]. intros ->. congruence.
  - rewrite Sfiles; [exact Pfile | lia |]. intros jn Hj E. destruct (Pjino jn Hj) as [A _]. congruence.
  - lia.
  - exact (Hfree _ Pfree I1 I2).
  - intros d Hd. apply Hdir; [exact (Ppar d Hd)|]. intros ->. exact (I3 Hd).
  - exact (Hfree _ Pofree I4 I5).
  - apply missing_enoent. apply missing_enoent in Popar.
    apply (anc_not_dir_frame f f' (store_name cfg cpl now p0)); [| |exact Popar|exact I6].
    + intros x Hx. rewrite Sexist; [exact Hx | | congruence]. intros ->. congruence.
    + intros x Hx Hxd. destruct (Hdir x (or_intror Hx) Hxd) as [A|A]; auto.
  - intros jn Hj. destruct (Pjino jn Hj) as [A B]. split; [exact A | lia].
Qed.

Lemma all_ok_step cfg cpl oj qdir hname tg tm f f' now e es :
  step_post cfg cpl oj hname f f' now (e_path e) (e_bytes e) ->
  lookup f hname = Some (NLink tg tm) ->
  all_ok cfg cpl oj qdir f now (e :: es) ->
  all_ok cfg cpl oj qdir f' now es.
Proof.
  intros HS Hh [_ [Hind Hall]].
  induction es as [|e' es IH]; [exact I|].
  inversion Hind as [|? ? Hi Hind']; subst.
  destruct Hall as [Hp [Hf Hall]].
  split; [exact (plain_ok_step _ _ _ _ _ _ _ _ _ _ _ _ _ _ _ HS Hh Hi Hp)|].
  split; [exact Hf|]. exact (IH Hind' Hall).
Qed.

(* the queue after the prefix has been popped *)
Fixpoint pops (es : list entry) (q : qmem) : qmem :=
  match es with
  | [] => q
  | e :: es' => pops es' (popped (e_path e) q)
  end.

(* the file system after the pass: one step_post per entry, in queue order *)
Fixpoint chain_post (cfg : config) (cpl : nat) (oj : option journal) (now : Z)
         (es : list entry) (q : qmem) (f f' : fs) : Prop :=
  match es with
  | [] => f' = f
  | e :: es' =>
      exists f1, step_post cfg cpl oj (head_name q) f f1 now (e_path e) (e_bytes e) /\
                 chain_post cfg cpl oj now es' (popped (e_path e) q) f1 f'
  end.

(* every entry of the prefix is the last of its burst *)
Fixpoint last_writes (es : list entry) (rest : list qent) : Prop :=
  match es with
  | [] => True
  | e :: es' => occurs (e_path e) (map qent_of es' ++ rest) = false /\ last_writes es' rest
  end.

Lemma pops_dir es : forall q, q_dir (pops es q) = q_dir q.
Proof. induction es as [|e es IH]; intros q; cbn [pops]; [reflexivity|]. rewrite IH. reflexivity. Qed.
Lemma pops_deb es : forall q, q_deb (pops es q) = q_deb q.
Proof. induction es as [|e es IH]; intros q; cbn [pops]; [reflexivity|]. rewrite IH. reflexivity. Qed.

Theorem pass_plain_prefix o rev : benign o -> forall es rest fuel h w,
  tr_ok (w_tr w) = true -> keys_nodup (w_fs w) ->
  QRel (h_q h) (w_fs w) (map qent_of es ++ rest) ->
  Forall (fun e => (q_deb (h_q h) <= w_clock w - e_time e)%Z) es ->   (* the prefix is due *)
  last_writes es rest ->
  not_due (w_clock w) (q_deb (h_q h)) rest ->                        (* what follows is not *)
  all_ok (h_cfg h) (h_cpl h) (h_journal h) (q_dir (h_q h)) (w_fs w) (w_clock w) es ->
  length es < fuel ->
  exists w',
    handle_timeout_loop fuel rev h o w =
      (Some (TPause (pause_of (w_clock w) (q_deb (h_q h)) rest), set_q (pops es (h_q h)) h), w') /\
    chain_post (h_cfg h) (h_cpl h) (h_journal h) (w_clock w) es (h_q h) (w_fs w) (w_fs w') /\
    QRel (pops es (h_q h)) (w_fs w') rest /\
    keys_nodup (w_fs w') /\
    tr_keep (w_tr w) (w_tr w') /\ w_clock w' = w_clock w.
Proof.
  intros H. induction es as [|e es IH]; intros rest fuel h w Hok Hnd HR Hdue Hlast Hstop Hall Hfuel.
  - destruct fuel as [|fuel]; [cbn [length] in Hfuel; lia|].
    cbn [map app] in HR.
    destruct (pass_stops o w h rev fuel rest H Hok HR Hstop) as (w' & E & F & C & K).
    exists w'. cbn [pops chain_post]. rewrite set_q_self.
    split; [exact E|]. split; [exact F|]. split; [rewrite F; exact HR|].
    split; [rewrite F; exact Hnd|]. split; [exact K | exact C].
  - destruct fuel as [|fuel]; [cbn [length] in Hfuel; lia|].
    cbn [map app] in HR. unfold qent_of at 1 in HR.
    inversion Hdue as [|? ? Hd Hdue']; subst.
    destruct Hlast as [Hocc Hlast]. pose proof Hall as [Hp [Hind Hall']].
    destruct (plain_head_iteration o w h rev fuel (e_path e) (e_time e) (map qent_of es ++ rest)
                (e_ino e) (e_bytes e) H Hok Hnd HR Hd Hocc Hp)
      as (w1 & E1 & S1 & HR1 & Hnd1 & K1 & C1).
    set (h1 := set_q (popped (e_path e) (h_q h)) h) in *.
    pose proof (QRel_head _ _ _ _ _ _ HR) as Hhead.
    assert (Hall1 : all_ok (h_cfg h1) (h_cpl h1) (h_journal h1) (q_dir (h_q h1)) (w_fs w1) (w_clock w1) es).
    { rewrite C1. exact (all_ok_step _ _ _ _ _ _ _ _ _ _ _ _ S1 Hhead Hall). }
    assert (Hdue1 : Forall (fun e0 => (q_deb (h_q h1) <= w_clock w1 - e_time e0)%Z) es)
      by (rewrite C1; exact Hdue').
    assert (Hstop1 : not_due (w_clock w1) (q_deb (h_q h1)) rest) by (rewrite C1; exact Hstop).
    assert (Hfuel1 : length es < fuel) by (cbn [length] in Hfuel; lia).
    destruct (IH rest fuel h1 w1 (tr_keep_ok _ _ K1) Hnd1 HR1 Hdue1 Hlast Hstop1 Hall1 Hfuel1)
      as (w' & E & CP & HR' & Hnd' & K' & C').
    rewrite C1 in E, CP.
    exists w'. split; [rewrite E1; exact E|].
    split; [cbn [chain_post]; exists (w_fs w1); split; [exact S1 | exact CP]|].
    split; [exact HR'|]. split; [exact Hnd'|].
    split; [exact (tr_keep_trans _ _ _ K1 K') | congruence].
Qed.
Print Assumptions pass_plain_prefix.

(* ---------- what chain_post says, entry by entry ---------- *)

Lemma under_join qdir n : qdir <> root_path -> Str.under qdir (join qdir n) = true.
Proof.
  intros Hq. rewrite (join_nonroot qdir n Hq). unfold Str.under. apply prefixb_spec.
  exists n. rewrite <- app_assoc. reflexivity.
Qed.

Lemma under_ancestor qdir x y : Str.under qdir x = true -> ancestor x y -> Str.under qdir y = true.
Proof.
  unfold Str.under. intros Hx [r ->]. apply prefixb_spec in Hx. destruct Hx as [t ->].
  apply prefixb_spec. exists (t ++ ch_slash :: r). rewrite <- app_assoc. reflexivity.
Qed.

(* the journal lines of the pass, in order *)
Definition jlines (cfg : config) (cpl : nat) (oj : option journal) (now : Z) (es : list entry) : str :=
  concat (map (fun e => jline oj (c_ev_stored cfg) (rel_of cpl (e_path e)) now) es).

Lemma chain_facts cfg cpl oj now : forall es q f f',
  q_dir q <> root_path ->
  Forall (fun e => Str.under (q_dir q) (store_name cfg cpl now (e_path e)) = false) es ->
  (es <> [] -> forall jn, oj = Some jn -> j_ino jn < fs_next f) ->
  chain_post cfg cpl oj now es q f f' ->
  (* inode numbers are handed out in queue order *)
  fs_next f' = fs_next f + length es /\
  (* names outside the queue directory that existed are untouched *)
  (forall x, lookup f x <> None -> Str.under (q_dir q) x = false -> lookup f' x = lookup f x) /\
  (* so is every old inode but the journal *)
  (forall k, k < fs_next f -> (forall jn, oj = Some jn -> k <> j_ino jn) ->
             get_file f' k = get_file f k) /\
  (* the k-th entry of the prefix has its version, with its content *)
  (forall k e, nth_error es k = Some e ->
     lookup f' (store_name cfg cpl now (e_path e)) = Some (NFile (fs_next f + k)) /\
     f_bytes (get_file f' (fs_next f + k)) = e_bytes e) /\
  (* and these are the only new files *)
  (forall x i', lookup f' x = Some (NFile i') -> lookup f x = None ->
     exists e, In e es /\ x = store_name cfg cpl now (e_path e)) /\
  (* the journal is appended to: one line per entry, in order *)
  (forall jn, oj = Some jn ->
     f_bytes (get_file f' (j_ino jn)) = f_bytes (get_file f (j_ino jn)) ++ jlines cfg cpl oj now es).
Proof.
  induction es as [|e es IH]; intros q f f' Hq Hu Hj HC.
  - cbn [chain_post] in HC. subst f'. cbn [length]. rewrite Nat.add_0_r.
    split; [reflexivity|]. split; [reflexivity|]. split; [reflexivity|].
    split; [intros k e Hk; destruct k; discriminate|].
    split; [intros x i' A B; congruence|].
    intros jn _. unfold jlines. cbn [map concat]. rewrite app_nil_r. reflexivity.
  - cbn [chain_post] in HC. destruct HC as (f1 & HS & HC).
    specialize (Hj ltac:(discriminate)).
    inversion Hu as [|? ? Hue Hu']; subst.
    destruct HS as [Sdst Sbytes Spar Shead Sother Sexist Sfiles Sjournal Snext].
    set (dst := store_name cfg cpl now (e_path e)) in *.
    assert (Hj1 : forall jn, oj = Some jn -> j_ino jn < fs_next f1).
    { intros jn E. rewrite Snext. specialize (Hj jn E). lia. }
    destruct (IH (popped (e_path e) q) f1 f' Hq Hu' (fun _ => Hj1) HC) as (N & X & G & V & W & J).
    change (q_dir (popped (e_path e) q)) with (q_dir q) in X.
    assert (Hhn : Str.under (q_dir q) (head_name q) = true) by (apply under_join; exact Hq).
    assert (X0 : forall x, lookup f x <> None -> Str.under (q_dir q) x = false ->
                           lookup f1 x = lookup f x).
    { intros x A B. apply Sexist; [|exact A]. intros ->. congruence. }
    split; [rewrite N, Snext; cbn [length]; lia|].
    split; [intros x A B; rewrite X; [exact (X0 x A B) | rewrite (X0 x A B); exact A | exact B]|].
    assert (G0 : forall k, k < fs_next f -> (forall jn, oj = Some jn -> k <> j_ino jn) ->
                           get_file f1 k = get_file f k).
    { intros k A B. apply Sfiles; [lia | exact B]. }
    split; [intros k A B; rewrite G; [exact (G0 k A B) | rewrite Snext; lia | exact B]|].
    split; [|split].
    + intros k e0 Hk. destruct k as [|k].
      * cbn [nth_error] in Hk. injection Hk as <-. rewrite Nat.add_0_r. fold dst.
        split.
        -- rewrite X; [exact Sdst | congruence | exact Hue].
        -- rewrite G; [exact Sbytes | rewrite Snext; lia|].
           intros jn E. specialize (Hj jn E). lia.
      * cbn [nth_error] in Hk. destruct (V k e0 Hk) as [V1 V2].
        rewrite Snext in V1, V2. rewrite Nat.add_succ_r. split; assumption.
    + intros x i' A B.
      destruct (lookup f1 x) as [nd|] eqn:E1.
      * destruct (str_eqb_spec x dst) as [->|Hxd]; [exists e; split; [left; reflexivity | reflexivity]|].
        exfalso.
        destruct (str_in_dec x (parents_of dst)) as [Hin|Hnin].
        -- assert (Hux : Str.under (q_dir q) x = false).
           { destruct (Str.under (q_dir q) x) eqn:Eu; [|reflexivity].
             pose proof (under_ancestor _ _ _ Eu (parents_of_prefix _ _ Hin)) as Hd.
             fold dst in Hue. congruence. }
           pose proof (Spar x Hin) as E2.
           rewrite X in A; [congruence | congruence | exact Hux].
        -- destruct (str_eqb_spec x (head_name q)) as [->|Hxh]; [congruence|].
           rewrite (Sother x Hxd Hnin Hxh) in E1. congruence.
      * destruct (W x i' A E1) as (e0 & Hin & Hx). exists e0. split; [right; exact Hin | exact Hx].
    + intros jn E. rewrite (J jn E). destruct (Sjournal jn E) as [S1 _]. rewrite S1.
      unfold jlines. cbn [map concat]. rewrite app_assoc. reflexivity.
Qed.

Lemma all_ok_under cfg cpl oj qdir f now es :
  all_ok cfg cpl oj qdir f now es ->
  Forall (fun e => Str.under qdir (store_name cfg cpl now (e_path e)) = false) es.
Proof.
  induction es as [|e es IH]; intros Hall; [constructor|].
  destruct Hall as [Hp [_ Hall]]. constructor; [exact (PO_dst_q _ _ _ _ _ _ _ _ _ Hp) | exact (IH Hall)].
Qed.

Lemma all_ok_jino cfg cpl oj qdir f now es :
  all_ok cfg cpl oj qdir f now es -> es <> [] ->
  forall jn, oj = Some jn -> j_ino jn < fs_next f.
Proof.
  destruct es as [|e es]; [congruence|]. intros [Hp _] _ jn Hj.
  exact (proj2 (PO_jino _ _ _ _ _ _ _ _ _ Hp jn Hj)).
Qed.

(* ---------- handle_timeout ---------- *)

(* "a pass over a queue whose due prefix consists of such plain heads stores
   exactly one version of each, in order" *)
Theorem handle_timeout_plain_pass o rev es rest h w :
  benign o ->
  tr_ok (w_tr w) = true -> keys_nodup (w_fs w) ->
  QRel (h_q h) (w_fs w) (map qent_of es ++ rest) ->
  Forall (fun e => (q_deb (h_q h) <= w_clock w - e_time e)%Z) es ->
  last_writes es rest ->
  not_due (w_clock w) (q_deb (h_q h)) rest ->
  all_ok (h_cfg h) (h_cpl h) (h_journal h) (q_dir (h_q h)) (w_fs w) (w_clock w) es ->
  let cfg := h_cfg h in let cpl := h_cpl h in let now := w_clock w in
  let f := w_fs w in
  exists w',
    handle_timeout rev h o w =
      (Some (TPause (pause_of now (q_deb (h_q h)) rest), set_q (pops es (h_q h)) h), w') /\
    let f' := w_fs w' in
    (* (1) the k-th entry has exactly one new version, store_root/rel/version+ext,
       with the content of its source; inode numbers are handed out in queue order *)
    (forall k e, nth_error es k = Some e ->
       lookup f' (store_name cfg cpl now (e_path e)) = Some (NFile (fs_next f + k)) /\
       f_bytes (get_file f' (fs_next f + k)) = e_bytes e) /\
    (forall x i', lookup f' x = Some (NFile i') -> lookup f x = None ->
       exists e, In e es /\ x = store_name cfg cpl now (e_path e)) /\
    fs_next f' = fs_next f + length es /\
    (* every name outside the queue directory that existed, and every old inode
       but the journal, is unchanged *)
    (forall x, lookup f x <> None -> Str.under (q_dir (h_q h)) x = false ->
               lookup f' x = lookup f x) /\
    (forall k, k < fs_next f -> (forall jn, h_journal h = Some jn -> k <> j_ino jn) ->
               get_file f' k = get_file f k) /\
    (* the journal is appended to, one line per entry *)
    (forall jn, h_journal h = Some jn ->
       f_bytes (get_file f' (j_ino jn)) =
       f_bytes (get_file f (j_ino jn)) ++ jlines cfg cpl (h_journal h) now es) /\
    (* (2) the prefix is gone from the queue directory, the invariant holds for the rest *)
    QRel (pops es (h_q h)) f' rest /\ keys_nodup f' /\
    (* (3) no error *)
    tr_ok (w_tr w') = true /\ (t_post (w_tr w) = 0 -> w_tr w' = w_tr w) /\
    w_clock w' = now.
Proof.
  intros H Hok Hnd HR Hdue Hlast Hstop Hall. cbv zeta.
  assert (Hfuel : length es < S (S (N.to_nat (q_size (h_q h))))).
  { rewrite (QR_size _ _ _ HR), Nat2N.id, app_length, map_length. lia. }
  destruct (pass_plain_prefix o rev H es rest _ h w Hok Hnd HR Hdue Hlast Hstop Hall Hfuel)
    as (w' & E & CP & HR' & Hnd' & [K1 K2] & C').
  unfold handle_timeout.
  rewrite (bind_some _ _ _ _ _ _ E).
  rewrite (bind_some _ _ _ _ _ _ (is_ok_eq o w')). rewrite K1. unfold ret_.
  exists w'. split; [reflexivity|].
  destruct (chain_facts _ _ _ _ es (h_q h) (w_fs w) (w_fs w') (QR_nroot _ _ _ HR)
              (all_ok_under _ _ _ _ _ _ _ Hall) (all_ok_jino _ _ _ _ _ _ _ Hall) CP)
    as (N & X & G & V & W & J).
  auto 12.
Qed.
Print Assumptions handle_timeout_plain_pass.

(* The target statement: the head of the queue is a plain file entry, due, the
   last write of its burst; what follows it is not due (or nothing follows).
   One pass = this head and nothing else. *)
Theorem handle_timeout_one_plain_head o rev h w p t rest i b :
  benign o ->
  tr_ok (w_tr w) = true -> keys_nodup (w_fs w) ->
  QRel (h_q h) (w_fs w) ((p, 0%N, t) :: rest) ->
  (q_deb (h_q h) <= w_clock w - t)%Z ->
  occurs p rest = false ->
  not_due (w_clock w) (q_deb (h_q h)) rest ->
  plain_ok (h_cfg h) (h_cpl h) (h_journal h) (q_dir (h_q h)) (w_fs w) (w_clock w) p i b ->
  exists w',
    handle_timeout rev h o w =
      (Some (TPause (pause_of (w_clock w) (q_deb (h_q h)) rest), set_q (popped p (h_q h)) h), w') /\
    (* (1) *)
    step_post (h_cfg h) (h_cpl h) (h_journal h) (head_name (h_q h))
              (w_fs w) (w_fs w') (w_clock w) p b /\
    (* (2) *)
    QRel (popped p (h_q h)) (w_fs w') rest /\ keys_nodup (w_fs w') /\
    (* (3) *)
    tr_ok (w_tr w') = true /\ (t_post (w_tr w) = 0 -> w_tr w' = w_tr w) /\
    w_clock w' = w_clock w.
Proof.
  intros H Hok Hnd HR Hdue Hocc Hstop HP. unfold handle_timeout.
  destruct (plain_head_iteration o w h rev (S (N.to_nat (q_size (h_q h)))) p t rest i b
              H Hok Hnd HR Hdue Hocc HP) as (w1 & E1 & S1 & HR1 & Hnd1 & K1 & C1).
  set (h1 := set_q (popped p (h_q h)) h) in *.
  assert (Hstop1 : not_due (w_clock w1) (q_deb (h_q h1)) rest) by (rewrite C1; exact Hstop).
  destruct (pass_stops o w1 h1 rev (N.to_nat (q_size (h_q h))) rest H (tr_keep_ok _ _ K1) HR1 Hstop1)
    as (w' & E & F & C & K).
  rewrite <- E1 in E. rewrite (bind_some _ _ _ _ _ _ E).
  pose proof (tr_keep_trans _ _ _ K1 K) as [K2 K3].
  rewrite (bind_some _ _ _ _ _ _ (is_ok_eq o w')). rewrite K2. unfold ret_.
  exists w'. rewrite C1. split; [reflexivity|]. rewrite F.
  split; [exact S1|]. split; [exact HR1|]. split; [exact Hnd1|].
  split; [exact K2|]. split; [exact K3 | congruence].
Qed.
Print Assumptions handle_timeout_one_plain_head.

(* (1) spelled out for the store: exactly one new file, the others unchanged *)
Corollary step_post_store cfg cpl oj hname f f' now p b tg tm :
  step_post cfg cpl oj hname f f' now p b ->
  lookup f hname = Some (NLink tg tm) ->
  (forall x i', lookup f' x = Some (NFile i') -> lookup f x = None ->
                x = store_name cfg cpl now p) /\
  (forall x i', lookup f x = Some (NFile i') -> i' <> fs_next f ->
                (forall jn, oj = Some jn -> i' <> j_ino jn) ->
                lookup f' x = Some (NFile i') /\ get_file f' i' = get_file f i').
Proof.
  intros [Sdst Sbytes Spar Shead Sother Sexist Sfiles Sjournal Snext] Hh. split.
  - intros x i' A B.
    destruct (str_eqb_spec x (store_name cfg cpl now p)) as [E|Hxd]; [exact E|]. exfalso.
    destruct (str_in_dec x (parents_of (store_name cfg cpl now p))) as [Hin|Hnin].
    + rewrite (Spar x Hin) in A. discriminate.
    + destruct (str_eqb_spec x hname) as [->|Hxh]; [congruence|].
      rewrite (Sother x Hxd Hnin Hxh) in A. congruence.
  - intros x i' A B C. split.
    + rewrite Sexist; [exact A | | congruence]. intros ->. congruence.
    + apply Sfiles; assumption.
Qed.

(* ---------- a concrete pass ---------- *)

Module PassExample.
  Local Open Scope char_scope.

  Definition p_q : str := ["/"; "q"].
  Definition p_s : str := ["/"; "s"].
  Definition p_st : str := ["/"; "s"; "t"].
  Definition p_off : str := ["/"; "o"; "f"; "f"].
  Definition p_j : str := ["/"; "j"].
  Definition p_a : str := ["/"; "s"; "/"; "a"; "."; "t"; "x"; "t"].
  Definition p_b : str := ["/"; "s"; "/"; "b"].
  Definition p_c : str := ["/"; "s"; "/"; "c"].
  Definition hello : str := ["h"; "e"; "l"; "l"; "o"].
  Definition world_ : str := ["w"; "o"; "r"; "l"; "d"; "!"].
  Definition old : str := ["o"; "l"; "d"; "010"].
  Definition stored : str := ["s"; "t"; "o"; "r"; "e"; "d"].

  (* store /st and offsets /off do not exist yet; versions are "v<seconds>";
     debounce 5 s; the journal /j (inode 1) is open, time stamp "<seconds>" *)
  Definition cfg0 : config :=
    mkCfg [] (mkRules [] [] [] [] [] []) p_st ["/"; "p"] ["/"; "u"] p_q (Some p_j) p_off
          ["%"; "s"] ["v"; "%"; "s"] 5%Z 0 16 None None None None None None (Some stored).

  (* /q the (still empty) queue directory, /s the watched directory with three files *)
  Definition fbase : fs :=
    mkFs [ (p_q, NDir); (p_s, NDir); (p_j, NFile 1);
           (p_a, NFile 2); (p_b, NFile 3); (p_c, NFile 4) ]
         [ (1, mkFile old true); (2, mkFile hello true); (3, mkFile world_ true);
           (4, mkFile ["z"] true) ]
         5.

  Definition q0 : qmem := mkQ p_q 0 0 5%Z 16 [].

  (* three writes, at 10 s, 20 s and 98 s *)
  Definition q1 := pushed p_a q0.
  Definition f1 := add_dent (next_name q0) (NLink (encode 0 p_a) 10%Z) fbase.
  Definition q2 := pushed p_b q1.
  Definition f2 := add_dent (next_name q1) (NLink (encode 0 p_b) 20%Z) f1.
  Definition q3 := pushed p_c q2.
  Definition f3 := add_dent (next_name q2) (NLink (encode 0 p_c) 98%Z) f2.

  (* the common parent is "/s/" *)
  Definition h0 : handler := mkH cfg0 None 3 q3 (Some (mkJ 1 ["%"; "s"])) [] [].
  (* it is now 100 s: the first two entries are due, the third is 2 s old *)
  Definition w0 : world := mkW f3 0 [] 100%Z tr_empty.

  Definition e_a : entry := mkE p_a 10%Z 2 hello.
  Definition e_b : entry := mkE p_b 20%Z 3 world_.
  Definition rest0 : list qent := [(p_c, 0%N, 98%Z)].

  (* the kernel moves at most 2 bytes per transfer *)
  Definition o2 : oracle := fun _ => FShort 2.
  Lemma o2_benign : benign o2.
  Proof. intros i. right. exists 2. split; [lia | left; reflexivity]. Qed.

  Lemma base_free k : lookup fbase (join p_q (dec k)) = None.
  Proof.
    unfold lookup.
    destruct (str_eqb_spec (join p_q (dec k)) root_path) as [E|_].
    { exfalso. revert E. apply join_dec_nonroot. discriminate. }
    rewrite (join_nonroot p_q (dec k)) by discriminate.
    unfold fbase, p_q, p_s, p_j, p_a, p_b, p_c. cbn [fs_dents alookup app].
    repeat (destruct (str_eqb_spec _ _) as [E|_]; [discriminate E|]). reflexivity.
  Qed.

  Lemma fits16 p m t : Nat.leb (length (encode m p)) 16 = true -> fits 16 (p, m, t).
  Proof.
    intros Hl. unfold fits, qpath. cbn [fst snd]. apply Nat.leb_le in Hl.
    assert (Hb : 1 <= 2 ^ 63) by (apply Nat.neq_0_lt_0, Nat.pow_nonzero; discriminate).
    apply Nat.lt_le_trans with 17; [lia|].
    rewrite <- (Nat.mul_1_r 17) at 1. apply Nat.mul_le_mono_l. exact Hb.
  Qed.

  Lemma q3_rel : QRel (h_q h0) (w_fs w0) (map qent_of [e_a; e_b] ++ rest0).
  Proof.
    assert (R0 : QRel q0 fbase []).
    { apply QRel_empty; [discriminate | reflexivity | exact base_free]. }
    assert (R1 : QRel q1 f1 ([] ++ [(p_a, 0%N, 10%Z)])).
    { apply QRel_push; [exact R0 | apply normalb_spec; reflexivity | apply fits16; reflexivity]. }
    assert (R2 : QRel q2 f2 (([] ++ [(p_a, 0%N, 10%Z)]) ++ [(p_b, 0%N, 20%Z)])).
    { apply QRel_push; [exact R1 | apply normalb_spec; reflexivity | apply fits16; reflexivity]. }
    assert (R3 : QRel q3 f3 ((([] ++ [(p_a, 0%N, 10%Z)]) ++ [(p_b, 0%N, 20%Z)]) ++ [(p_c, 0%N, 98%Z)])).
    { apply QRel_push; [exact R2 | apply normalb_spec; reflexivity | apply fits16; reflexivity]. }
    exact R3.
  Qed.

  Lemma w0_nodup : keys_nodup (w_fs w0).
  Proof.
    unfold keys_nodup. vm_compute.
    repeat (constructor; [let Hin := fresh in intros Hin; cbn [In] in Hin;
                          repeat (destruct Hin as [Hin|Hin]; [discriminate Hin|]); exact Hin|]).
    constructor.
  Qed.

  Ltac neq := let E := fresh in intros E; vm_compute in E; discriminate E.
  Ltac not_in := let Hin := fresh in intros Hin; vm_compute in Hin;
                 repeat (destruct Hin as [Hin|Hin]; [discriminate Hin|]); exact Hin.

  Lemma ok_entry now p i b :
    (* everything that can be decided by evaluation *)
    (Nat.leb (length (version_of cfg0 now)) name_max &&
     negb (existsb is_slash (version_of cfg0 now)) &&
     Nat.leb (length (ts_of (mkJ 1 ["%"; "s"]) now)) 255 &&
     prefixb [ch_slash] p && negb (is_slash (last p ch_dot)) && Nat.leb 3 (length p) &&
     match lookup f3 p with Some (NFile k) => Nat.eqb k i | _ => false end &&
     str_eqb (f_bytes (get_file f3 i)) b && f_readable (get_file f3 i) && Nat.ltb i 5 &&
     negb (Nat.eqb i 1) &&
     match lookup f3 (store_name cfg0 3 now p) with None => true | _ => false end &&
     forallb (fun d => match lookup f3 d with Some NDir | None => true | _ => false end)
             (parents_of (store_name cfg0 3 now p)) &&
     negb (Str.under p_q (store_name cfg0 3 now p)) &&
     match lookup f3 (offset_name cfg0 3 p) with None => true | _ => false end &&
     match missing_errno (offset_name cfg0 3 p) f3 with ENOENT => true | _ => false end &&
     negb (mem (offset_name cfg0 3 p) (store_name cfg0 3 now p :: parents_of (store_name cfg0 3 now p))) &&
     negb (mem (store_name cfg0 3 now p)
               (dchain (length (offset_name cfg0 3 p)) (offset_name cfg0 3 p))))%bool = true ->
    plain_ok cfg0 3 (Some (mkJ 1 ["%"; "s"])) p_q f3 now p i b.
  Proof.
    intros Hc.
    repeat (apply andb_true_iff in Hc; let H1 := fresh "C" in destruct Hc as [Hc H1]).
    constructor.
    - assumption.
    - apply negb_true_iff. assumption.
    - apply Nat.leb_le. assumption.
    - apply Nat.leb_le. exact Hc.
    - apply negb_true_iff. assumption.
    - destruct (lookup f3 p) as [[|k|]|]; try discriminate. f_equal. f_equal.
      apply Nat.eqb_eq. assumption.
    - destruct (get_file f3 i) as [bs r]. cbn [f_bytes f_readable] in *.
      f_equal; [apply str_eqb_eq; assumption | assumption].
    - apply Nat.ltb_lt. assumption.
    - eexists. reflexivity.
    - destruct (lookup f3 (store_name cfg0 3 now p)); [discriminate | reflexivity].
    - intros d Hd. rewrite forallb_forall in C4. specialize (C4 d Hd).
      destruct (lookup f3 d) as [[| |]|]; try discriminate; auto.
    - apply negb_true_iff. assumption.
    - destruct (lookup f3 (offset_name cfg0 3 p)); [discriminate | reflexivity].
    - destruct (missing_errno (offset_name cfg0 3 p) f3); try discriminate; reflexivity.
    - intros E. apply negb_true_iff in C0. unfold mem in C0. cbn [existsb] in C0.
      apply orb_false_iff in C0. destruct C0 as [C0 _]. rewrite E, str_eqb_refl in C0. discriminate.
    - intros Hin. apply negb_true_iff in C0. unfold mem in C0. cbn [existsb] in C0.
      apply orb_false_iff in C0. destruct C0 as [_ C0].
      assert (Hex : existsb (str_eqb (offset_name cfg0 3 p)) (parents_of (store_name cfg0 3 now p)) = true).
      { apply existsb_exists. eexists. split; [exact Hin | apply str_eqb_refl]. }
      congruence.
    - intros Hin. apply negb_true_iff in C. unfold mem in C.
      assert (Hex : existsb (str_eqb (store_name cfg0 3 now p))
                            (dchain (length (offset_name cfg0 3 p)) (offset_name cfg0 3 p)) = true).
      { apply existsb_exists. eexists. split; [exact Hin | apply str_eqb_refl]. }
      congruence.
    - intros jn e Ej _. injection Ej as <-. apply Nat.leb_le. assumption.
    - intros jn Ej. injection Ej as <-. cbn [j_ino].
      apply negb_true_iff, Nat.eqb_neq in C6. split; [congruence | apply Nat.ltb_lt; reflexivity].
  Qed.

  Lemma indep_ab : indep cfg0 3 100 p_a p_b.
  Proof. constructor; first [neq | not_in]. Qed.

  (* all hypotheses of handle_timeout_plain_pass hold of this instance *)
  Example hyps_hold :
    tr_ok (w_tr w0) = true /\ keys_nodup (w_fs w0) /\
    QRel (h_q h0) (w_fs w0) (map qent_of [e_a; e_b] ++ rest0) /\
    Forall (fun e => (q_deb (h_q h0) <= w_clock w0 - e_time e)%Z) [e_a; e_b] /\
    last_writes [e_a; e_b] rest0 /\
    not_due (w_clock w0) (q_deb (h_q h0)) rest0 /\
    all_ok (h_cfg h0) (h_cpl h0) (h_journal h0) (q_dir (h_q h0)) (w_fs w0) (w_clock w0) [e_a; e_b].
  Proof.
    split; [reflexivity|]. split; [exact w0_nodup|]. split; [exact q3_rel|].
    split; [repeat constructor; vm_compute; discriminate|].
    split; [cbn [last_writes]; repeat split; vm_compute; reflexivity|].
    split; [vm_compute; reflexivity|].
    cbn [all_ok]. change (w_fs w0) with f3.
    split; [apply ok_entry; vm_compute; reflexivity|].
    split; [constructor; [exact indep_ab | constructor]|].
    split; [apply ok_entry; vm_compute; reflexivity|].
    split; [constructor | exact I].
  Qed.

  Definition v_a : str := p_st ++ ["/"; "a"; "."; "t"; "x"; "t"; "/"; "v"; "1"; "0"; "0"; "."; "t"; "x"; "t"].
  Definition v_b : str := p_st ++ ["/"; "b"; "/"; "v"; "1"; "0"; "0"].

  Example names : store_name cfg0 3 100 p_a = v_a /\ store_name cfg0 3 100 p_b = v_b.
  Proof. split; vm_compute; reflexivity. Qed.

  (* direct evaluation, transfers cut into 2-byte pieces *)
  Example run_o2 :
    match handle_timeout false h0 o2 w0 with
    | (Some (TPause z, h'), w') =>
        z = 3%Z /\
        q_head (h_q h') = 2%N /\ q_size (h_q h') = 1%N /\ q_bag (h_q h') = [p_c] /\
        lookup (w_fs w') v_a = Some (NFile 5) /\ get_file (w_fs w') 5 = mkFile hello true /\
        lookup (w_fs w') v_b = Some (NFile 6) /\ get_file (w_fs w') 6 = mkFile world_ true /\
        fs_next (w_fs w') = 7 /\
        lookup (w_fs w') (join p_q (dec 0)) = None /\
        lookup (w_fs w') (join p_q (dec 1)) = None /\
        lookup (w_fs w') (join p_q (dec 2)) = Some (NLink p_c 98%Z) /\
        lookup (w_fs w') p_off = None /\
        f_bytes (get_file (w_fs w') 1) =
          old ++ journal_line ["1"; "0"; "0"] stored 0 ["a"; "."; "t"; "x"; "t"]
              ++ journal_line ["1"; "0"; "0"] stored 0 ["b"] /\
        get_file (w_fs w') 2 = mkFile hello true /\
        w_tr w' = tr_empty
    | _ => False
    end.
  Proof. vm_compute. repeat split; reflexivity. Qed.

  (* the same by the theorem, for every benign oracle *)
  Example by_theorem o : benign o ->
    exists h' w',
      handle_timeout false h0 o w0 = (Some (TPause 3, h'), w') /\
      lookup (w_fs w') v_a = Some (NFile 5) /\ f_bytes (get_file (w_fs w') 5) = hello /\
      lookup (w_fs w') v_b = Some (NFile 6) /\ f_bytes (get_file (w_fs w') 6) = world_ /\
      (forall x i', lookup (w_fs w') x = Some (NFile i') -> lookup (w_fs w0) x = None ->
                    x = v_a \/ x = v_b) /\
      QRel (h_q h') (w_fs w') rest0 /\
      w_tr w' = tr_empty.
  Proof.
    intros H. destruct hyps_hold as (A1 & A2 & A3 & A4 & A5 & A6 & A7).
    destruct (handle_timeout_plain_pass o false [e_a; e_b] rest0 h0 w0 H A1 A2 A3 A4 A5 A6 A7)
      as (w' & E & V & W & _ & _ & _ & _ & HR & _ & _ & T & _).
    destruct names as [Na Nb].
    exists (set_q (pops [e_a; e_b] (h_q h0)) h0), w'.
    split; [exact E|].
    destruct (V 0 e_a eq_refl) as [Va1 Va2]. destruct (V 1 e_b eq_refl) as [Vb1 Vb2].
    cbv zeta in *. change (h_cfg h0) with cfg0 in *. change (h_cpl h0) with 3 in *.
    change (w_clock w0) with 100%Z in *. change (e_path e_a) with p_a in *.
    change (e_path e_b) with p_b in *. rewrite Na in Va1. rewrite Nb in Vb1.
    split; [exact Va1|]. split; [exact Va2|]. split; [exact Vb1|]. split; [exact Vb2|].
    split.
    { intros x i' X1 X2. destruct (W x i' X1 X2) as (e & [<-|[<-|[]]] & ->); [left | right]; assumption. }
    split; [exact HR|]. apply T. reflexivity.
  Qed.

  (* the one-head statement on the same world one pass later is covered by
     handle_timeout_one_plain_head; here: the first iteration alone *)
  Example first_iteration o : benign o ->
    exists w',
      handle_timeout_loop 5 false h0 o w0 =
        handle_timeout_loop 4 false (set_q (popped p_a q3) h0) o w' /\
      lookup (w_fs w') v_a = Some (NFile 5) /\ f_bytes (get_file (w_fs w') 5) = hello /\
      QRel (popped p_a q3) (w_fs w') [(p_b, 0%N, 20%Z); (p_c, 0%N, 98%Z)].
  Proof.
    intros H. destruct hyps_hold as (A1 & A2 & A3 & _ & _ & _ & A7 & _).
    destruct (plain_head_iteration o w0 h0 false 4 p_a 10%Z [(p_b, 0%N, 20%Z); (p_c, 0%N, 98%Z)]
                2 hello H A1 A2 A3) as (w' & E & S & HR & _).
    { vm_compute. discriminate. }
    { vm_compute. reflexivity. }
    { exact A7. }
    exists w'. split; [exact E|]. destruct names as [Na _].
    destruct S as [S1 S2 _ _ _ _ _ _ _].
    change (h_cfg h0) with cfg0 in *. change (h_cpl h0) with 3 in *.
    change (w_clock w0) with 100%Z in *. rewrite Na in S1.
    split; [exact S1|]. split; [exact S2 | exact HR].
  Qed.

  (* ----- the other theorems on the same data ----- *)

  (* nothing pending: every oracle, no call *)
  Definition h_empty : handler := mkH cfg0 None 3 q0 (Some (mkJ 1 ["%"; "s"])) [] [].
  Definition w_empty : world := mkW fbase 0 [] 100%Z tr_empty.

  Example idle_by_theorem (o : oracle) :
    exists w', handle_timeout false h_empty o w_empty = (Some (TPause (-1), h_empty), w') /\
               w_fs w' = fbase /\ w_n w' = 0 /\ w_log w' = [] /\ w_tr w' = tr_empty.
  Proof.
    destruct (handle_timeout_idle o w_empty h_empty false eq_refl) as (w' & E & F & N & L & _ & K).
    { apply QRel_empty; [discriminate | reflexivity | exact base_free]. }
    exists w'. split; [exact E|]. split; [exact F|]. split; [exact N|]. split; [exact L|].
    apply (proj2 K). reflexivity.
  Qed.

  (* at 12 s the head is 2 s old: the pass waits 3 s and touches nothing *)
  Definition w12 : world := mkW f3 0 [] 12%Z tr_empty.

  Example not_due_by_theorem o : benign o ->
    exists w', handle_timeout false h0 o w12 = (Some (TPause 3, h0), w') /\
               w_fs w' = f3 /\ w_tr w' = tr_empty.
  Proof.
    intros H.
    destruct (handle_timeout_not_due o w12 h0 false p_a 0%N 10%Z [(p_b, 0%N, 20%Z); (p_c, 0%N, 98%Z)]
                H eq_refl q3_rel) as (w' & E & F & _ & K & _).
    { vm_compute. reflexivity. }
    exists w'. split; [exact E|]. split; [exact F|]. apply (proj2 K). reflexivity.
  Qed.

  (* at 16 s only the head is due (the second entry will be written at 20 s):
     the target statement, handle_timeout_one_plain_head *)
  Definition w16 : world := mkW f3 0 [] 16%Z tr_empty.
  Definition v_a16 : str := p_st ++ ["/"; "a"; "."; "t"; "x"; "t"; "/"; "v"; "1"; "6"; "."; "t"; "x"; "t"].

  Example one_head_by_theorem o : benign o ->
    exists w',
      handle_timeout false h0 o w16 = (Some (TPause 9, set_q (popped p_a q3) h0), w') /\
      lookup (w_fs w') v_a16 = Some (NFile 5) /\ f_bytes (get_file (w_fs w') 5) = hello /\
      (forall x i', lookup (w_fs w') x = Some (NFile i') -> lookup f3 x = None -> x = v_a16) /\
      lookup (w_fs w') (join p_q (dec 0)) = None /\
      QRel (popped p_a q3) (w_fs w') [(p_b, 0%N, 20%Z); (p_c, 0%N, 98%Z)] /\
      w_tr w' = tr_empty.
  Proof.
    intros H.
    destruct (handle_timeout_one_plain_head o false h0 w16 p_a 10%Z
                [(p_b, 0%N, 20%Z); (p_c, 0%N, 98%Z)] 2 hello H eq_refl w0_nodup q3_rel)
      as (w' & E & S & HR & _ & _ & T & _).
    { vm_compute. discriminate. }
    { vm_compute. reflexivity. }
    { vm_compute. reflexivity. }
    { apply (ok_entry 16); vm_compute; reflexivity. }
    exists w'. split; [exact E|].
    assert (Na : store_name cfg0 3 16 p_a = v_a16) by (vm_compute; reflexivity).
    pose proof (QRel_head _ _ _ _ _ _ q3_rel) as Hh.
    destruct (step_post_store _ _ _ _ _ _ _ _ _ _ _ S Hh) as [Only _].
    destruct S as [S1 S2 _ S4 _ _ _ _ _].
    change (h_cfg h0) with cfg0 in *. change (h_cpl h0) with 3 in *.
    change (w_clock w16) with 16%Z in *. change (w_fs w16) with f3 in *. rewrite Na in *.
    split; [exact S1|]. split; [exact S2|]. split; [exact Only|]. split; [exact S4|].
    split; [exact HR|]. apply T. reflexivity.
  Qed.
End PassExample.

Print Assumptions PassExample.hyps_hold.
Print Assumptions PassExample.run_o2.
Print Assumptions PassExample.by_theorem.
Print Assumptions PassExample.first_iteration.
Print Assumptions PassExample.idle_by_theorem.
Print Assumptions PassExample.not_due_by_theorem.
Print Assumptions PassExample.one_head_by_theorem.
Print Assumptions chain_facts.
Print Assumptions step_post_store.

(* ---------- why PO_off_par is a hypothesis: without it the statement is FALSE ---------- *)

(* For a non-history path handle_timeout still calls write_counter(offset_path, 0),
   i.e. unlink(offset_path), and treats every errno but ENOENT as fatal.  If an
   ancestor of the offset path is a regular file -- e.g. the stale offset file
   /off/d of a former history file /s/d that has since become a directory; any
   existing non-directory ancestor will do, Fs.missing_errno walks them all --
   unlink reports ENOTDIR: the version HAS been copied, but the pass ends with
   "cannot copy", the head is NOT popped, and every further pass (after the
   restart main forces) stores one more duplicate of the same content. *)
Module OffsetParent.
  Local Open Scope char_scope.

  Definition p_q : str := ["/"; "q"].
  Definition p_e : str := ["/"; "s"; "/"; "d"; "/"; "e"].
  Definition cfg1 : config :=
    mkCfg [] (mkRules [] [] [] [] [] []) ["/"; "s"; "t"] ["/"; "p"] ["/"; "u"] p_q None ["/"; "o"; "f"; "f"]
          ["%"; "s"] ["v"; "%"; "s"] 5%Z 0 16 None None None None None None None.
  Definition fsx : fs :=
    mkFs [ (p_q, NDir); (["/"; "s"], NDir); (["/"; "s"; "/"; "d"], NDir); (p_e, NFile 2);
           (["/"; "o"; "f"; "f"], NDir); (["/"; "o"; "f"; "f"; "/"; "d"], NFile 3);
           (["/"; "q"; "/"; "0"], NLink p_e 10%Z) ]
         [ (2, mkFile ["h"; "i"] true); (3, mkFile ["5"] true) ] 4.
  Definition hx : handler := mkH cfg1 None 3 (mkQ p_q 0 1 5%Z 16 [p_e]) None [] [].
  Definition wx : world := mkW fsx 0 [] 100%Z tr_empty.
  Definition v1 : str := ["/"; "s"; "t"; "/"; "d"; "/"; "e"; "/"; "v"; "1"; "0"; "0"].
  Definition v2 : str := v1 ++ ["-"; "1"].
  (* the restart: the error trace is gone, the file system is what the failed pass left *)
  Definition restart (w : world) : world := mkW (w_fs w) (w_n w) (w_log w) (w_clock w) tr_empty.

  Example one_plain_head_without_off_par_refuted :
    (* the offset path is free, only its parent is not a directory *)
    lookup fsx (offset_name cfg1 3 p_e) = None /\
    lookup fsx (dirname (offset_name cfg1 3 p_e)) = Some (NFile 3) /\
    missing_errno (offset_name cfg1 3 p_e) fsx = ENOTDIR /\     (* PO_off_par fails *)
    store_name cfg1 3 100 p_e = v1 /\
    match handle_timeout false hx no_faults wx with
    | (Some (TError, h1), w1) =>
        lookup (w_fs w1) v1 = Some (NFile 4) /\ f_bytes (get_file (w_fs w1) 4) = ["h"; "i"] /\
        lookup (w_fs w1) ["/"; "q"; "/"; "0"] = Some (NLink p_e 10%Z) /\
        h_q h1 = h_q hx /\
        t_frames (w_tr w1) = [FStatic M_store_cannot_copy; FContext p_e; FErrno ENOTDIR] /\
        match handle_timeout false hx no_faults (restart w1) with
        | (Some (TError, _), w2) =>
            lookup (w_fs w2) v1 = Some (NFile 4) /\
            lookup (w_fs w2) v2 = Some (NFile 5) /\ f_bytes (get_file (w_fs w2) 5) = ["h"; "i"] /\
            lookup (w_fs w2) ["/"; "q"; "/"; "0"] = Some (NLink p_e 10%Z)
        | _ => False
        end
    | _ => False
    end.
  Proof. vm_compute. repeat split; reflexivity. Qed.

  (* one level up: the parent /off/d of the offset path is absent (the previous
     form of PO_off_par held), but /off itself is a regular file *)
  Definition fsy : fs :=
    mkFs [ (p_q, NDir); (["/"; "s"], NDir); (["/"; "s"; "/"; "d"], NDir); (p_e, NFile 2);
           (["/"; "o"; "f"; "f"], NFile 3);
           (["/"; "q"; "/"; "0"], NLink p_e 10%Z) ]
         [ (2, mkFile ["h"; "i"] true); (3, mkFile ["5"] true) ] 4.

  Example absent_parent_file_grandparent_refuted :
    lookup fsy (offset_name cfg1 3 p_e) = None /\
    lookup fsy (dirname (offset_name cfg1 3 p_e)) = None /\
    missing_errno (offset_name cfg1 3 p_e) fsy = ENOTDIR /\
    match handle_timeout false hx no_faults (mkW fsy 0 [] 100%Z tr_empty) with
    | (Some (TError, h1), w1) =>
        lookup (w_fs w1) v1 = Some (NFile 4) /\
        lookup (w_fs w1) ["/"; "q"; "/"; "0"] = Some (NLink p_e 10%Z) /\
        t_frames (w_tr w1) = [FStatic M_store_cannot_copy; FContext p_e; FErrno ENOTDIR]
    | _ => False
    end.
  Proof. vm_compute. repeat split; reflexivity. Qed.
End OffsetParent.
Print Assumptions OffsetParent.one_plain_head_without_off_par_refuted.
Print Assumptions OffsetParent.absent_parent_file_grandparent_refuted.
