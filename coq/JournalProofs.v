(* Proofs about the journal (Progs.v: write_all, journal_line, note) over the
   effect layer (World.v): however the operating system splits a write into
   pieces, exactly the line is appended, once. *)
From K Require Import Str Dec Trace Fs World Progs DecProofs.
From Coq Require Import Lia.

(* ---------- oracles that only shorten transfers ---------- *)

(* no call fails, the process does not die, and a shortened transfer still
   moves at least one byte *)
Definition benign (o : oracle) : Prop :=
  forall i, o i = FNone \/ (exists n, 0 < n /\ (o i = FShort n \/ o i = FChunk n)).

Lemma no_faults_benign : benign no_faults.
Proof. intros i. left. reflexivity. Qed.

(* ---------- file system facts ---------- *)

Lemma nlookup_nupdate_same {A} k (v : A) l : nlookup k (nupdate k v l) = Some v.
Proof.
  induction l as [|[k' v'] l IH]; cbn [nupdate nlookup].
  - rewrite Nat.eqb_refl. reflexivity.
  - destruct (Nat.eqb k k') eqn:E; cbn [nlookup].
    + rewrite Nat.eqb_refl. reflexivity.
    + rewrite E. exact IH.
Qed.

Lemma nlookup_nupdate_other {A} k j (v : A) l :
  j <> k -> nlookup j (nupdate k v l) = nlookup j l.
Proof.
  intros Hne. induction l as [|[k' v'] l IH]; cbn [nupdate nlookup].
  - destruct (Nat.eqb_spec j k); [contradiction | reflexivity].
  - destruct (Nat.eqb_spec k k') as [->|Hk]; cbn [nlookup].
    + destruct (Nat.eqb_spec j k'); [contradiction | reflexivity].
    + destruct (Nat.eqb j k'); [reflexivity | exact IH].
Qed.

Lemma get_set_same i x f : get_file (set_file i x f) i = x.
Proof. unfold get_file, set_file. cbn [fs_files]. rewrite nlookup_nupdate_same. reflexivity. Qed.

Lemma get_set_other i j x f : j <> i -> get_file (set_file i x f) j = get_file f j.
Proof.
  intros H. unfold get_file, set_file. cbn [fs_files].
  rewrite nlookup_nupdate_other by exact H. reflexivity.
Qed.

(* [f'] is [f] with [bytes] appended to inode [i] and nothing else changed *)
Definition appended (i : nat) (bytes : str) (f f' : fs) : Prop :=
  f_bytes (get_file f' i) = f_bytes (get_file f i) ++ bytes /\
  f_readable (get_file f' i) = f_readable (get_file f i) /\
  (forall j, j <> i -> get_file f' j = get_file f j) /\
  fs_dents f' = fs_dents f /\
  fs_next f' = fs_next f.

Lemma appended_nil i f : appended i [] f f.
Proof. unfold appended. rewrite app_nil_r. auto. Qed.

Lemma appended_fs_append i bytes f : appended i bytes f (fs_append i bytes f).
Proof.
  unfold appended, fs_append. rewrite get_set_same. cbn [f_bytes f_readable].
  split; [reflexivity|]. split; [reflexivity|].
  split; [intros j Hj; apply get_set_other, Hj|].
  split; reflexivity.
Qed.

Lemma appended_trans i a b f g h :
  appended i a f g -> appended i b g h -> appended i (a ++ b) f h.
Proof.
  intros (A1 & A2 & A3 & A4 & A5) (B1 & B2 & B3 & B4 & B5).
  unfold appended. rewrite B1, A1, app_assoc.
  split; [reflexivity|]. split; [congruence|].
  split; [intros j Hj; rewrite B3, A3 by exact Hj; reflexivity|].
  split; congruence.
Qed.

(* the model's own append is one of the worlds described by [appended], and
   [appended] determines the file system up to the representation of the
   inode table *)
Lemma appended_unique i bytes f g h :
  appended i bytes f g -> appended i bytes f h ->
  (forall j, get_file g j = get_file h j) /\ fs_dents g = fs_dents h /\ fs_next g = fs_next h.
Proof.
  intros (A1 & A2 & A3 & A4 & A5) (B1 & B2 & B3 & B4 & B5).
  split; [|split; congruence].
  intros j. destruct (Nat.eq_dec j i) as [->|Hj].
  - destruct (get_file g i) as [gb gr], (get_file h i) as [hb hr].
    cbn [f_bytes f_readable] in *. congruence.
  - rewrite A3, B3 by exact Hj. reflexivity.
Qed.

(* ---------- one write ---------- *)

Lemma k_write_benign o w i bytes :
  benign o -> bytes <> [] ->
  exists lim w',
    1 <= lim <= length bytes /\
    k_write i bytes o w = (Some (inl lim), w') /\
    w_fs w' = fs_append i (firstn lim bytes) (w_fs w) /\
    w_tr w' = w_tr w /\ w_clock w' = w_clock w /\ w_n w' = S (w_n w).
Proof.
  intros Hb Hne.
  assert (Hlen : 1 <= length bytes).
  { destruct bytes; [contradiction | cbn [length]; lia]. }
  unfold k_write, bind, transfer_limit, sys.
  destruct (Hb (w_n w)) as [E | (n & Hn & [E | E])]; rewrite E.
  - exists (length bytes). eexists. rewrite firstn_all.
    split; [lia|]. split; [reflexivity|]. cbn [w_fs w_tr w_clock w_n]. auto.
  - exists (Nat.min n (length bytes)). eexists.
    rewrite (firstn_length_le bytes (n := Nat.min n (length bytes))) by lia.
    split; [lia|]. split; [reflexivity|]. cbn [w_fs w_tr w_clock w_n]. auto.
  - exists (length bytes). eexists. rewrite firstn_all.
    split; [lia|]. split; [reflexivity|]. cbn [w_fs w_tr w_clock w_n]. auto.
Qed.

(* ---------- write_all ---------- *)

Theorem write_all_appends o : benign o ->
  forall fuel i bytes w,
    S (length bytes) <= fuel ->
    exists w',
      write_all fuel i bytes o w = (Some tt, w') /\
      appended i bytes (w_fs w) (w_fs w') /\
      w_tr w' = w_tr w /\ w_clock w' = w_clock w.
Proof.
  intros Hb. induction fuel as [|fuel IH]; intros i bytes w Hfuel; [lia|].
  destruct bytes as [|c bytes].
  - exists w. cbn [write_all]. unfold ret_.
    split; [reflexivity|]. split; [apply appended_nil | auto].
  - destruct (k_write_benign o w i (c :: bytes) Hb) as (lim & w1 & Hlim & Hk & Hfs & Htr & Hck & _);
      [discriminate|].
    set (bs := c :: bytes) in *.
    destruct (IH i (skipn lim bs) w1) as (w2 & Hw & Hap & Htr2 & Hck2).
    { rewrite skipn_length. cbn [length] in *. lia. }
    exists w2. split; [|split; [|split; congruence]].
    + change (write_all (S fuel) i bs o w)
        with (bind (k_write i bs)
                (fun r => match r with
                          | inr e => throw_errno e
                          | inl n => write_all fuel i (skipn n bs)
                          end) o w).
      unfold bind at 1. rewrite Hk. exact Hw.
    + assert (Hx : appended i (firstn lim bs ++ skipn lim bs) (w_fs w) (w_fs w2)).
      { eapply appended_trans; [|exact Hap]. rewrite Hfs. apply appended_fs_append. }
      rewrite firstn_skipn in Hx. exact Hx.
Qed.

(* the statement spelled out, without the auxiliary definition *)
Corollary write_all_appends_explicit o fuel i bytes w :
  benign o -> S (length bytes) <= fuel ->
  exists w',
    write_all fuel i bytes o w = (Some tt, w') /\
    f_bytes (get_file (w_fs w') i) = f_bytes (get_file (w_fs w) i) ++ bytes /\
    f_readable (get_file (w_fs w') i) = f_readable (get_file (w_fs w) i) /\
    (forall j, j <> i -> get_file (w_fs w') j = get_file (w_fs w) j) /\
    fs_dents (w_fs w') = fs_dents (w_fs w) /\
    fs_next (w_fs w') = fs_next (w_fs w) /\
    w_tr w' = w_tr w /\ w_clock w' = w_clock w.
Proof.
  intros Hb Hf.
  destruct (write_all_appends o Hb fuel i bytes w Hf) as (w' & Hw & (A1 & A2 & A3 & A4 & A5) & Htr & Hck).
  exists w'. repeat (split; [assumption|]). assumption.
Qed.

(* the result agrees with the model's one-piece append on every observation *)
Corollary write_all_like_fs_append o fuel i bytes w :
  benign o -> S (length bytes) <= fuel ->
  exists w',
    write_all fuel i bytes o w = (Some tt, w') /\
    (forall j, get_file (w_fs w') j = get_file (fs_append i bytes (w_fs w)) j) /\
    fs_dents (w_fs w') = fs_dents (fs_append i bytes (w_fs w)) /\
    fs_next (w_fs w') = fs_next (fs_append i bytes (w_fs w)).
Proof.
  intros Hb Hf.
  destruct (write_all_appends o Hb fuel i bytes w Hf) as (w' & Hw & Hap & _).
  exists w'. split; [exact Hw|].
  eapply appended_unique; [exact Hap | apply appended_fs_append].
Qed.

(* ---------- the shape of a journal line ---------- *)

Lemma journal_line_shape ts ev pid path :
  journal_line ts ev pid path =
  (match ts with [] => [] | _ => ts ++ [ch_tab] end) ++
  (match ev with [] => [] | _ => ev ++ [ch_tab] end) ++
  (if (pid =? 0)%N then [] else dec pid ++ [ch_tab]) ++
  path ++ [ch_nl].
Proof. reflexivity. Qed.

(* everything before the final newline *)
Definition journal_body (ts ev : str) (pid : N) (path : str) : str :=
  (match ts with [] => [] | _ => ts ++ [ch_tab] end) ++
  (match ev with [] => [] | _ => ev ++ [ch_tab] end) ++
  (if (pid =? 0)%N then [] else dec pid ++ [ch_tab]) ++
  path.

Lemma journal_line_body ts ev pid path :
  journal_line ts ev pid path = journal_body ts ev pid path ++ [ch_nl].
Proof.
  unfold journal_line, journal_body. rewrite <- !app_assoc. reflexivity.
Qed.

Lemma journal_line_ends_nl ts ev pid path :
  exists body, journal_line ts ev pid path = body ++ [ch_nl].
Proof. eexists. apply journal_line_body. Qed.

Lemma journal_line_last ts ev pid path d :
  last (journal_line ts ev pid path) d = ch_nl.
Proof. rewrite journal_line_body. apply last_last. Qed.

Lemma journal_line_nonempty ts ev pid path : journal_line ts ev pid path <> [].
Proof.
  rewrite journal_line_body. intros E. apply app_eq_nil in E. destruct E as [_ E]. discriminate.
Qed.

Lemma tab_not_nl : ch_tab <> ch_nl.
Proof. discriminate. Qed.

Lemma nl_not_digit : is_digit ch_nl = false.
Proof. reflexivity. Qed.

Lemma dec_no_nl n : ~ In ch_nl (dec n).
Proof.
  intros H. pose proof (dec_digits n) as Hd.
  rewrite forallb_forall in Hd. specialize (Hd _ H).
  rewrite nl_not_digit in Hd. discriminate.
Qed.

Lemma field_no_nl (s : str) :
  ~ In ch_nl s -> ~ In ch_nl (match s with [] => [] | _ => s ++ [ch_tab] end).
Proof.
  intros Hs. destruct s as [|c s]; [exact Hs|].
  intros H. apply in_app_or in H. destruct H as [H | [H | []]]; [exact (Hs H)|].
  exact (tab_not_nl H).
Qed.

Lemma journal_body_no_nl ts ev pid path :
  ~ In ch_nl ts -> ~ In ch_nl ev -> ~ In ch_nl path ->
  ~ In ch_nl (journal_body ts ev pid path).
Proof.
  intros Hts Hev Hp H. unfold journal_body in H.
  apply in_app_or in H. destruct H as [H|H]; [exact (field_no_nl ts Hts H)|].
  apply in_app_or in H. destruct H as [H|H]; [exact (field_no_nl ev Hev H)|].
  apply in_app_or in H. destruct H as [H|H]; [|exact (Hp H)].
  destruct (pid =? 0)%N; [exact H|].
  apply in_app_or in H. destruct H as [H | [H | []]]; [exact (dec_no_nl pid H)|].
  exact (tab_not_nl H).
Qed.

(* the only newline of the line is its last character *)
Theorem journal_line_one_nl ts ev pid path :
  ~ In ch_nl ts -> ~ In ch_nl ev -> ~ In ch_nl path ->
  exists body, journal_line ts ev pid path = body ++ [ch_nl] /\ ~ In ch_nl body.
Proof.
  intros Hts Hev Hp. exists (journal_body ts ev pid path).
  split; [apply journal_line_body | apply journal_body_no_nl; assumption].
Qed.

Theorem journal_line_count_nl ts ev pid path :
  ~ In ch_nl ts -> ~ In ch_nl ev -> ~ In ch_nl path ->
  count_occ ascii_dec (journal_line ts ev pid path) ch_nl = 1.
Proof.
  intros Hts Hev Hp. rewrite journal_line_body, count_occ_app.
  pose proof (journal_body_no_nl ts ev pid path Hts Hev Hp) as Hb.
  rewrite (count_occ_not_In ascii_dec) in Hb. rewrite Hb.
  cbn [count_occ]. destruct (ascii_dec ch_nl ch_nl); [reflexivity | contradiction].
Qed.

(* ---------- note ---------- *)

Theorem note_no_event pid path jo o w : note None pid path jo o w = (Some tt, w).
Proof. destruct jo; reflexivity. Qed.

Theorem note_no_journal ev pid path o w : note ev pid path None o w = (Some tt, w).
Proof. reflexivity. Qed.

Theorem note_appends_one_line o w ev pid path j :
  benign o ->
  tr_ok (w_tr w) = true ->
  let ts := expand_pattern (j_pattern j) (dec (Z.to_N (w_clock w))) in
  length ts <= 255 ->
  exists w',
    note (Some ev) pid path (Some j) o w = (Some tt, w') /\
    appended (j_ino j) (journal_line ts ev pid path) (w_fs w) (w_fs w') /\
    w_tr w' = w_tr w /\ w_clock w' = w_clock w.
Proof.
  intros Hb Hok ts Hlen.
  destruct (write_all_appends o Hb (S (length (journal_line ts ev pid path))) (j_ino j)
              (journal_line ts ev pid path) w (le_n _)) as (w' & Hw & Hap & Htr & Hck).
  exists w'. split; [|auto].
  unfold note, when_ok, get_timestamp, is_ok, get_clock, get_tr, bind, ret_.
  assert (Hlt : Nat.ltb name_max (length ts) = false).
  { apply Nat.ltb_ge. unfold name_max. exact Hlen. }
  rewrite Hok. cbv beta iota. rewrite Hok. fold ts. rewrite Hlt. cbv beta iota.
  exact Hw.
Qed.

(* the same statement spelled out *)
Corollary note_appends_one_line_explicit o w ev pid path j :
  benign o ->
  tr_ok (w_tr w) = true ->
  let ts := expand_pattern (j_pattern j) (dec (Z.to_N (w_clock w))) in
  length ts <= 255 ->
  exists w',
    note (Some ev) pid path (Some j) o w = (Some tt, w') /\
    f_bytes (get_file (w_fs w') (j_ino j)) =
      f_bytes (get_file (w_fs w) (j_ino j)) ++ journal_line ts ev pid path /\
    (forall k, k <> j_ino j -> get_file (w_fs w') k = get_file (w_fs w) k) /\
    fs_dents (w_fs w') = fs_dents (w_fs w) /\
    w_tr w' = w_tr w /\ w_clock w' = w_clock w.
Proof.
  intros Hb Hok ts Hlen.
  destruct (note_appends_one_line o w ev pid path j Hb Hok Hlen)
    as (w' & Hn & (A1 & A2 & A3 & A4 & A5) & Htr & Hck).
  exists w'. repeat (split; [assumption|]). assumption.
Qed.

Print Assumptions write_all_appends.
Print Assumptions write_all_appends_explicit.
Print Assumptions write_all_like_fs_append.
Print Assumptions journal_line_shape.
Print Assumptions journal_line_one_nl.
Print Assumptions journal_line_count_nl.
Print Assumptions note_no_event.
Print Assumptions note_no_journal.
Print Assumptions note_appends_one_line.
Print Assumptions note_appends_one_line_explicit.
