(* Two EVERY-ORACLE invariants of the handler operations lifted to the daemon
   loop (Daemon.daemon_loop) and to the WHOLE program (Klunok.klunok).

   Part 0  a generic lifting lemma: an invariant kept by handle_open_exec,
           handle_close_write, handle_timeout (for one oracle, whatever they
           return, with a crash condition for the runs that die) and by the
           admissible environment steps holds at every loop head of a daemon
           run and in its final world, whether the run went through all the
           notifications, exited, or died inside a handler call.
   Part 1  C04: store immutability (StoreProofs.v) for daemon_loop and klunok
             daemon_store_immutable, whole_store_immutable       (general)
             daemon_store_immutable_quiet, whole_store_immutable_quiet
                                          (hypotheses on the start only)
   Part 2  C09: confinement of the call log (Confine2.v) for daemon_loop and
           klunok
             daemon_confined, whole_confined                     (any L)
             daemon_confined_in_force, whole_confined_in_force
                        (L = the locations of the configuration in force)
   Part 2b C09: names outside the locations keep their directory entry
           (WatchedProofs.v) for daemon_loop and klunok
             daemon_watched_untouched, whole_watched_untouched   (general)
             daemon_watched_untouched_noenv, whole_watched_untouched_noenv
             daemon_step_untouched   (only environment steps change them)
   Part 3  concrete instances (Module WholeExample).

   No definition of the model is changed; only lemmas are added. *)
From K Require Import Str Dec Trace Fs World Progs Elf Sieve SieveSpec Handler Linq LinqSpec LinqProofs
     Hoare Confine Confine2 ExtProofs SyncProofs StoreFs StoreLogic StoreProgs StoreProofs WatchedProofs
     ReloadProofs ReloadHistory MixedHistory Main MainProofs Daemon DaemonProofs Klunok KlunokProofs.
From Coq Require Import Lia.
Arguments N.add : simpl never.
Arguments N.sub : simpl never.
Arguments N.mul : simpl never.
Arguments N.of_nat : simpl never.
Arguments N.to_nat : simpl never.
Arguments N.eqb : simpl never.
Arguments N.leb : simpl never.
Arguments N.ltb : simpl never.

Local Open Scope N_scope.

(* ====================================================================== *)
(* Part 0. Lifting an invariant of the operations to the daemon loop      *)
(* ====================================================================== *)

(* [cfg_write self cp n c]: notification [n] is a close-after-write of the
   configuration file [cp] by another process, without the exec bit, and the
   file then parses to [c]: the only notifications that can install a new
   configuration (DaemonProofs.next_cfg_notif) *)
Definition cfg_write (self : N) (cp : option str) (n : notif) (c : config) : Prop :=
  exists e path,
    n = NEvent e path (Some c) /\ ev_exec e = false /\
    (ev_write e && negb (ev_pid e =? self)) = true /\ cp = Some path.

Section Lift.
Variables (self : N) (rev : bool) (o : oracle).
(* the invariant at the loop head; what holds of the world when the process died *)
Variable Iv : handler -> world -> Prop.
Variable C : world -> Prop.
(* what is asked of a notification in the state in which it arrives *)
Variable okn : notif -> handler -> world -> Prop.

Definition post_h (x : option handler * world) : Prop :=
  match x with
  | (Some h', w') => Iv h' w'
  | (None, w') => C w'
  end.

Hypothesis I_C : forall h w, Iv h w -> C w.
Hypothesis H_exec : forall pid path h w, Iv h w -> post_h (handle_open_exec pid path h o w).
Hypothesis H_write : forall e path nc h w,
  Iv h w -> okn (NEvent e path nc) h w ->
  ev_exec e = false -> (ev_write e && negb (ev_pid e =? self)) = true ->
  post_h (handle_close_write (ev_pid e) path nc h o w).
Hypothesis H_timeout : forall h w, Iv h w ->
  match handle_timeout rev h o w with
  | (Some r, w') => Iv (snd r) w'
  | (None, w') => C w'
  end.
Hypothesis H_env : forall w2 h w, Iv h w -> okn (NEnv w2) h w -> Iv h w2.

(* [okn] holds of every notification in the state in which the run reaches it *)
Fixpoint run_ok (ns : list notif) (h : handler) (w : world) : Prop :=
  match ns with
  | [] => True
  | NEnv w2 :: rest => okn (NEnv w2) h w /\ run_ok rest h w2
  | n :: rest =>
      okn n h w /\
      match iteration self rev n h o w with
      | (Some (Next _ _ h'), w') => run_ok rest h' w'
      | _ => True
      end
  end.

Lemma run_ok_cons n rest h w :
  is_env n = false ->
  run_ok (n :: rest) h w =
  (okn n h w /\
   match iteration self rev n h o w with
   | (Some (Next _ _ h'), w') => run_ok rest h' w'
   | _ => True
   end).
Proof. intros Hn. destruct n; try discriminate Hn; reflexivity. Qed.

(* a condition that does not look at the state *)
Lemma run_ok_all ns :
  (forall n, In n ns -> forall h w, okn n h w) -> forall h w, run_ok ns h w.
Proof.
  induction ns as [|n rest IH]; intros Hall h w; [exact I|].
  assert (Hr : forall h w, run_ok rest h w).
  { apply IH. intros n' Hin. apply Hall. right. exact Hin. }
  destruct (is_env n) eqn:Hn.
  - destruct n; try discriminate Hn. cbn [run_ok]. split; [apply Hall; left; reflexivity | apply Hr].
  - rewrite (run_ok_cons _ _ _ _ Hn). split; [apply Hall; left; reflexivity|].
    destruct (iteration self rev n h o w) as [[[outs h1|outs z h1]|] w1]; try exact I. apply Hr.
Qed.

Lemma dispatch_lift n h w : Iv h w -> okn n h w -> post_h (dispatch_of self n h o w).
Proof.
  intros Hi Hk. destruct n as [|e path nc| | | | |w2]; try exact Hi.
  cbn [dispatch_of]. unfold after_dispatch.
  destruct (ev_exec e) eqn:Ex; [apply H_exec; exact Hi|].
  destruct (ev_write e && negb (ev_pid e =? self)) eqn:Ew; [|exact Hi].
  apply H_write; assumption.
Qed.

(* one iteration: exit, next round, or death *)
Lemma iteration_lift n h w :
  is_env n = false -> Iv h w -> okn n h w ->
  match iteration self rev n h o w with
  | (Some (Stop _ h'), w') => Iv h' w'
  | (Some (Next _ _ h'), w') => Iv h' w'
  | (None, w') => C w'
  end.
Proof.
  intros Hn Hi Hk. rewrite (iteration_run _ _ _ _ _ _ Hn).
  destruct (fatal n); [exact Hi|].
  pose proof (dispatch_lift n h w Hi Hk) as Hd.
  destruct (dispatch_of self n h o w) as [[h1|] w1]; cbn [post_h] in Hd; [|exact Hd].
  destruct (negb (dispatched_n self n) || okw w1); [|exact Hd].
  rewrite service_run. pose proof (H_timeout h1 w1 Hd) as Ht.
  destruct (handle_timeout rev h1 o w1) as [[[[z|] h2]|] w2]; cbn [snd] in Ht; exact Ht.
Qed.

(* THE LIFTING LEMMA: whatever the run does *)
Theorem lift_loop : forall ns pause h w,
  Iv h w -> run_ok ns h w ->
  match daemon_loop self rev ns pause h o w with
  | (Some t, w') => Iv (snd t) w'
  | (None, w') => C w'
  end.
Proof.
  induction ns as [|n rest IH]; intros pause h w Hi Hr.
  - rewrite daemon_loop_nil. exact Hi.
  - destruct (is_env n) eqn:Hn.
    + destruct n as [| | | | | |w2]; try discriminate Hn. rewrite daemon_loop_env.
      cbn [run_ok] in Hr. destruct Hr as [Hk Hr]. apply IH; [exact (H_env _ _ _ Hi Hk) | exact Hr].
    + rewrite (daemon_loop_cons _ _ _ _ _ _ _ _ Hn). rewrite (run_ok_cons _ _ _ _ Hn) in Hr.
      destruct Hr as [Hk Hr]. pose proof (iteration_lift n h w Hn Hi Hk) as Ht.
      destruct (iteration self rev n h o w) as [[[outs h1|outs z h1]|] w1]; [exact Ht| |exact Ht].
      specialize (IH z h1 w1 Ht Hr).
      destruct (daemon_loop self rev rest z h1 o w1) as [[t|] w2]; exact IH.
Qed.

Corollary lift_loop_final ns pause h w :
  Iv h w -> run_ok ns h w -> C (snd (daemon_loop self rev ns pause h o w)).
Proof.
  intros Hi Hr. pose proof (lift_loop ns pause h w Hi Hr) as H.
  destruct (daemon_loop self rev ns pause h o w) as [[t|] w']; cbn [snd]; [exact (I_C _ _ H) | exact H].
Qed.

(* and at every loop head the run reaches *)
Theorem lift_state : forall ns pause h w z hp wp,
  Iv h w -> run_ok ns h w ->
  daemon_state self rev o ns pause h w = Some (z, hp, wp) -> Iv hp wp.
Proof.
  induction ns as [|n rest IH]; intros pause h w z hp wp Hi Hr E.
  - cbn [daemon_state] in E. injection E as _ <- <-. exact Hi.
  - destruct (is_env n) eqn:Hn.
    + destruct n as [| | | | | |w2]; try discriminate Hn. cbn [daemon_state] in E.
      cbn [run_ok] in Hr. destruct Hr as [Hk Hr]. exact (IH _ _ _ _ _ _ (H_env _ _ _ Hi Hk) Hr E).
    + rewrite (daemon_state_cons _ _ _ _ _ _ _ _ Hn) in E. rewrite (run_ok_cons _ _ _ _ Hn) in Hr.
      destruct Hr as [Hk Hr]. pose proof (iteration_lift n h w Hn Hi Hk) as Ht.
      destruct (iteration self rev n h o w) as [[[outs h1|outs z1 h1]|] w1]; try discriminate E.
      exact (IH _ _ _ _ _ _ Ht Hr E).
Qed.

(* the condition on a longer list: on a prefix, and on the rest from the loop
   head the run reaches after the prefix (if it gets there) *)
Lemma run_ok_app pre : forall post pause h w,
  run_ok pre h w ->
  (forall z hp wp, daemon_state self rev o pre pause h w = Some (z, hp, wp) -> run_ok post hp wp) ->
  run_ok (pre ++ post) h w.
Proof.
  induction pre as [|n pre IH]; intros post pause h w Hp Hq.
  - cbn [app]. exact (Hq pause h w eq_refl).
  - destruct (is_env n) eqn:Hn.
    + destruct n as [| | | | | |w2]; try discriminate Hn. cbn [app run_ok] in *.
      destruct Hp as [Hk Hp]. split; [exact Hk|]. apply (IH post pause); [exact Hp|].
      intros z hp wp E. apply (Hq z hp wp). cbn [daemon_state]. exact E.
    + cbn [app]. rewrite (run_ok_cons n (pre ++ post) h w Hn). rewrite (run_ok_cons n pre h w Hn) in Hp.
      destruct Hp as [Hk Hp]. split; [exact Hk|].
      pose proof (fun z hp wp => Hq z hp wp) as Hq'.
      setoid_rewrite (daemon_state_cons _ _ _ _ _ _ _ _ Hn) in Hq'.
      destruct (iteration self rev n h o w) as [[[outs h1|outs z1 h1]|] w1]; try exact I.
      apply (IH post z1); [exact Hp | exact Hq'].
Qed.

End Lift.

(* ---------- what the operations do to the configuration record ---------- *)

Lemma bind_ext_run {A B} (m : M A) (k k' : A -> M B) o w :
  (forall a w1, m o w = (Some a, w1) -> k a o w1 = k' a o w1) -> bind m k o w = bind m k' o w.
Proof. intros H. unfold bind. destruct (m o w) as [[a|] w1]; [apply H; reflexivity | reflexivity]. Qed.

(* a write of another file than the configuration file never looks at [nc] *)
Lemma close_write_other_eq pid path nc h o w :
  h_cfg_path h <> Some path ->
  handle_close_write pid path nc h o w = handle_close_write pid path None h o w.
Proof.
  intros Hcp. unfold handle_close_write, when_ok.
  apply bind_ext_run. intros b w0 _. destruct b; [|reflexivity].
  apply bind_ext_run. intros [pushed h1] w1 E.
  pose proof (rv_push_to_linq pid path h o w0 _ _ E) as Hs. cbn [snd] in Hs.
  assert (Ep : h_cfg_path h1 = h_cfg_path h) by apply Hs.
  apply bind_ext_run. intros u w2 _.
  apply bind_ext_run. intros b w3 _. destruct b; [|reflexivity].
  rewrite Ep. destruct (h_cfg_path h) as [cp|]; [|reflexivity].
  destruct (str_eqb_spec path cp) as [->|_]; [congruence|reflexivity].
Qed.

Lemma rv_reload_cfg nc h :
  rv (fun h' => h_cfg_path h' = h_cfg_path h /\ (h_cfg h' = h_cfg h \/ nc = Some (h_cfg h'))) (reload nc h).
Proof.
  unfold reload. destruct (h_cfg_path h) as [cp|] eqn:Ecp.
  2:{ apply rv_ret. split; [exact Ecp | left; reflexivity]. }
  assert (Hsame : h_cfg_path h = Some cp /\ (h_cfg h = h_cfg h \/ nc = Some (h_cfg h)))
    by (split; [exact Ecp | left; reflexivity]).
  apply rv_skip. intros _. apply rv_skip. intros _. apply rv_skip. intros _. apply rv_skip. intros _.
  destruct nc as [c|]; [|apply rv_ret; exact Hsame].
  apply rv_skip. intros b. apply rv_skip. intros nq. apply rv_skip. intros b2. apply rv_skip. intros nj.
  apply rv_skip. intros b3. destruct b3; [|apply rv_ret; exact Hsame].
  apply rv_skip. intros _. apply rv_skip. intros _. apply rv_ret.
  cbn [h_cfg_path h_cfg]. split; [first [exact Ecp | reflexivity] | right; reflexivity].
Qed.

Lemma rv_close_write_cfg pid path nc h :
  rv (fun h' => h_cfg_path h' = h_cfg_path h /\ (h_cfg h' = h_cfg h \/ nc = Some (h_cfg h')))
     (handle_close_write pid path nc h).
Proof.
  assert (Hsame : forall h1, same_cfg h h1 ->
            h_cfg_path h1 = h_cfg_path h /\ (h_cfg h1 = h_cfg h \/ nc = Some (h_cfg h1))).
  { intros h1 (S1 & S2 & _). split; [exact S2 | left; exact S1]. }
  unfold handle_close_write. apply rv_when_ok; [apply Hsame; apply same_cfg_refl|].
  eapply rv_bind; [apply rv_push_to_linq|]. intros r Hr. destruct r as [pushed h1]. cbn [snd] in Hr.
  apply rv_skip. intros _. apply rv_skip. intros b.
  destruct b; [|apply rv_ret; apply Hsame; exact Hr].
  destruct (h_cfg_path h1) as [cp|] eqn:Ecp; [|apply rv_ret; apply Hsame; exact Hr].
  destruct (str_eqb path cp); [|apply rv_ret; apply Hsame; exact Hr].
  eapply rv_weaken; [apply rv_reload_cfg|]. intros h' [A B].
  destruct Hr as (S1 & S2 & _). split; [congruence|].
  destruct B as [B|B]; [left; congruence | right; exact B].
Qed.

(* ====================================================================== *)
(* Part 1. C04: stored versions are immutable, for the whole program      *)
(* ====================================================================== *)

(* [n] keeps the file store and the project store where [c] has them (every
   other setting may differ): the set of protected names is the same *)
Definition same_store (c n : config) : Prop :=
  c_store_root n = c_store_root c /\ c_project_store_root n = c_project_store_root c.

Lemma same_store_refl c : same_store c c.
Proof. split; reflexivity. Qed.
Lemma same_store_trans a b c : same_store a b -> same_store b c -> same_store a c.
Proof. intros [A1 A2] [B1 B2]. split; congruence. Qed.

Lemma kept_same_store c n p : same_store c n -> (kept c p <-> kept n p).
Proof. intros [E1 E2]. unfold kept. rewrite E1, E2. tauto. Qed.

Lemma preserved_same_store c n f f' : same_store c n -> preserved n f f' -> preserved c f f'.
Proof.
  intros Hs Hp p i Hk Hl. apply (Hp p i); [|exact Hl]. apply (kept_same_store c n p Hs). exact Hk.
Qed.

(* The hypotheses of StoreProofs.handle_close_write_store_immutable (C04_reload)
   on a new configuration, verbatim, in the state in which the notification
   arrives, and: the store roots do not move. *)
Definition reload_ok (n : config) (h : handler) (w : world) : Prop :=
  same_store (h_cfg h) n /\ disjoint_locs n /\ SI n (h_journal h) (w_fs w) /\ qdir_ok n (q_dir (h_q h)).

(* An environment step that itself keeps the store: every file of the file
   store / project store of the world it replaces is in the new world with the
   same name, inode and bytes, and the new world satisfies the inode invariant
   of StoreFs.v (no offset file and not the open journal shares an inode with
   a file of the store, project store or unstable tree). *)
Definition env_keeps (c : config) (oj : option journal) (w w2 : world) : Prop :=
  preserved c (w_fs w) (w_fs w2) /\ SI c oj (w_fs w2).

Lemma env_keeps_same_fs c oj w w2 : w_fs w2 = w_fs w -> SI c oj (w_fs w) -> env_keeps c oj w w2.
Proof. intros E H. unfold env_keeps. rewrite E. split; [apply preserved_refl | exact H]. Qed.

(* what is asked of a notification, in the state (h, w) in which it arrives *)
Definition store_okn (self : N) (cp : option str) (n : notif) (h : handler) (w : world) : Prop :=
  match n with
  | NEnv w2 => env_keeps (h_cfg h) (h_journal h) w w2
  | _ => forall c, cfg_write self cp n c -> reload_ok c h w
  end.

(* ... of a notification list, along the run under oracle [o] *)
Definition store_run_ok (self : N) (rev : bool) (o : oracle) (cp : option str) : list notif -> handler -> world -> Prop :=
  run_ok self rev o (store_okn self cp).

(* the invariant at the loop head: StoreProofs' hypotheses for the configuration
   in force, which has the store roots of [c0]; the files of [f0] are kept *)
Definition StoreI (c0 : config) (f0 : fs) (cp : option str) (h : handler) (w : world) : Prop :=
  h_cfg_path h = cp /\ same_store c0 (h_cfg h) /\ disjoint_locs (h_cfg h) /\
  SInv (h_cfg h) h (w_fs w) /\ preserved c0 f0 (w_fs w).

Section StoreLift.
Variables (self : N) (rev : bool) (o : oracle) (c0 : config) (f0 : fs) (cp : option str).

Let Iv := StoreI c0 f0 cp.
Let Cv := fun w : world => preserved c0 f0 (w_fs w).

Lemma StoreI_C h w : Iv h w -> Cv w.
Proof. intros (_ & _ & _ & _ & H). exact H. Qed.

Lemma StoreI_exec pid path h w : Iv h w -> post_h Iv Cv (handle_open_exec pid path h o w).
Proof.
  intros (Ep & Hs & D & HS & Hp).
  destruct (handle_open_exec_store_immutable o w pid path h D HS) as [H1 [_ H3]].
  assert (Hp' : preserved c0 f0 (w_fs (snd (handle_open_exec pid path h o w)))).
  { eapply preserved_trans; [exact Hp | eapply preserved_same_store; [exact Hs | exact H1]]. }
  destruct (handle_open_exec pid path h o w) as [[h'|] w'] eqn:E; cbn [post_h fst snd] in *; [|exact Hp'].
  destruct (H3 h' eq_refl) as [Ec HS'].
  pose proof (rv_handle_open_exec pid path h o w _ _ E) as [(_ & S2 & _) _].
  unfold Iv, StoreI. rewrite Ec. rewrite Ec in HS'.
  split; [congruence|]. split; [exact Hs|]. split; [exact D|]. split; [exact HS' | exact Hp'].
Qed.

Lemma StoreI_timeout h w : Iv h w ->
  match handle_timeout rev h o w with
  | (Some r, w') => Iv (snd r) w'
  | (None, w') => Cv w'
  end.
Proof.
  intros (Ep & Hs & D & HS & Hp).
  destruct (handle_timeout_store_immutable o w rev h D HS) as [H1 [_ H3]].
  assert (Hp' : preserved c0 f0 (w_fs (snd (handle_timeout rev h o w)))).
  { eapply preserved_trans; [exact Hp | eapply preserved_same_store; [exact Hs | exact H1]]. }
  destruct (handle_timeout rev h o w) as [[[r h']|] w'] eqn:E; cbn [fst snd] in *; [|exact Hp'].
  destruct (H3 r h' eq_refl) as [Ec HS'].
  pose proof (rv_handle_timeout rev h o w _ _ E) as (_ & S2 & _). cbn [snd] in S2.
  unfold Iv, StoreI. rewrite Ec. rewrite Ec in HS'.
  split; [congruence|]. split; [exact Hs|]. split; [exact D|]. split; [exact HS' | exact Hp'].
Qed.

Lemma StoreI_write_none pid path h w : Iv h w -> post_h Iv Cv (handle_close_write pid path None h o w).
Proof.
  intros (Ep & Hs & D & HS & Hp).
  destruct (handle_close_write_store_immutable_noreload o w pid path h D HS) as [H1 [_ H3]].
  assert (Hp' : preserved c0 f0 (w_fs (snd (handle_close_write pid path None h o w)))).
  { eapply preserved_trans; [exact Hp | eapply preserved_same_store; [exact Hs | exact H1]]. }
  destruct (handle_close_write pid path None h o w) as [[h'|] w'] eqn:E; cbn [post_h fst snd] in *; [|exact Hp'].
  destruct (H3 h' eq_refl) as [Ec HS'].
  pose proof (rv_close_write_cfg pid path None h o w _ _ E) as [S2 _].
  unfold Iv, StoreI. rewrite Ec. rewrite Ec in HS'.
  split; [congruence|]. split; [exact Hs|]. split; [exact D|]. split; [exact HS' | exact Hp'].
Qed.

Lemma StoreI_write e path nc h w :
  Iv h w -> store_okn self cp (NEvent e path nc) h w ->
  ev_exec e = false -> (ev_write e && negb (ev_pid e =? self)) = true ->
  post_h Iv Cv (handle_close_write (ev_pid e) path nc h o w).
Proof.
  intros Hi Hk Ex Ew. destruct nc as [n|]; [|apply StoreI_write_none; exact Hi].
  assert (Hdec : cp = Some path \/ cp <> Some path).
  { destruct cp as [p|]; [|right; discriminate].
    destruct (str_eqb_spec p path) as [->|Hne]; [left; reflexivity | right; congruence]. }
  destruct Hdec as [Ecp|Hne].
  2:{ destruct Hi as (Ep & Hrest). rewrite close_write_other_eq by (rewrite Ep; exact Hne).
      apply StoreI_write_none. split; [exact Ep | exact Hrest]. }
  cbn [store_okn] in Hk.
  destruct (Hk n) as (Hsn & Dn & HSn & Hqn).
  { exists e, path. repeat split; assumption. }
  destruct Hi as (Ep & Hs & D & HS & Hp).
  destruct (handle_close_write_store_immutable o w (ev_pid e) path n h D HS Dn HSn Hqn) as [H1 [_ [_ H4]]].
  assert (Hp' : preserved c0 f0 (w_fs (snd (handle_close_write (ev_pid e) path (Some n) h o w)))).
  { eapply preserved_trans; [exact Hp | eapply preserved_same_store; [exact Hs | exact H1]]. }
  destruct (handle_close_write (ev_pid e) path (Some n) h o w) as [[h'|] w'] eqn:E;
    cbn [post_h fst snd] in *; [|exact Hp'].
  destruct (H4 h' eq_refl) as [Ec HS'].
  pose proof (rv_close_write_cfg (ev_pid e) path (Some n) h o w _ _ E) as [S2 _].
  unfold Iv, StoreI. split; [congruence|].
  destruct Ec as [Ec|Ec]; rewrite Ec; rewrite Ec in HS'.
  - split; [exact Hs|]. split; [exact D|]. split; [exact HS' | exact Hp'].
  - split; [exact (same_store_trans _ _ _ Hs Hsn)|]. split; [exact Dn|]. split; [exact HS' | exact Hp'].
Qed.

Lemma StoreI_env w2 h w : Iv h w -> store_okn self cp (NEnv w2) h w -> Iv h w2.
Proof.
  intros (Ep & Hs & D & [_ Hq] & Hp) [Hk1 Hk2]. unfold Iv, StoreI.
  split; [exact Ep|]. split; [exact Hs|]. split; [exact D|]. split; [split; assumption|].
  eapply preserved_trans; [exact Hp | eapply preserved_same_store; [exact Hs | exact Hk1]].
Qed.

End StoreLift.

Lemma StoreI_init h w : disjoint_locs (h_cfg h) -> SInv (h_cfg h) h (w_fs w) ->
  StoreI (h_cfg h) (w_fs w) (h_cfg_path h) h w.
Proof.
  intros D HS. split; [reflexivity|]. split; [apply same_store_refl|]. split; [exact D|].
  split; [exact HS | apply preserved_refl].
Qed.

(* THE DAEMON KEEPS THE STORE.  EVERY oracle, handler, world, notification list:
   under the hypotheses of C04_history_store_immutable on the start (the six
   locations do not nest; the inode invariant), whatever daemon_loop returns --
   it went through all the notifications, exited on one of them, or died in a
   call of a handler program (None) -- every file that was in the file store or
   project store of w is in the final world under the same name with the same
   inode and the same bytes.  Environment steps must themselves keep the store
   (env_keeps), a rewritten configuration must satisfy the hypotheses of
   C04_reload_store_immutable when it arrives and leave the two store roots
   where they are (reload_ok): store_run_ok.  When the run returns, the
   hypotheses hold again of the handler and world it ends with. *)
Theorem daemon_store_immutable :
  forall (o : oracle) (self : N) (rev : bool) (ns : list notif) (pause : Z) (h : handler) (w : world),
  disjoint_locs (h_cfg h) ->
  SInv (h_cfg h) h (w_fs w) ->
  store_run_ok self rev o (h_cfg_path h) ns h w ->
  let res := daemon_loop self rev ns pause h o w in
  preserved (h_cfg h) (w_fs w) (w_fs (snd res)) /\
  (forall outs h', fst res = Some (outs, h') ->
     same_store (h_cfg h) (h_cfg h') /\ disjoint_locs (h_cfg h') /\ SInv (h_cfg h') h' (w_fs (snd res))).
Proof.
  intros o self rev ns pause h w D HS Hr res.
  pose proof (lift_loop self rev o _ _ _
                (StoreI_exec o (h_cfg h) (w_fs w) (h_cfg_path h))
                (StoreI_write self o (h_cfg h) (w_fs w) (h_cfg_path h))
                (StoreI_timeout rev o (h_cfg h) (w_fs w) (h_cfg_path h))
                (StoreI_env self (h_cfg h) (w_fs w) (h_cfg_path h))
                ns pause h w (StoreI_init h w D HS) Hr) as H.
  subst res. destruct (daemon_loop self rev ns pause h o w) as [[[outs h']|] w']; cbn [fst snd] in *.
  - destruct H as (_ & Hs & D' & HS' & Hp). split; [exact Hp|].
    intros outs0 h0 E. injection E as _ <-. split; [exact Hs|]. split; [exact D'|exact HS'].
  - split; [exact H | intros outs0 h0 E; discriminate E].
Qed.
Print Assumptions daemon_store_immutable.

(* the same at every loop head the run reaches *)
Theorem daemon_store_immutable_state :
  forall (o : oracle) (self : N) (rev : bool) (ns : list notif) (pause : Z) (h : handler) (w : world) z hp wp,
  disjoint_locs (h_cfg h) ->
  SInv (h_cfg h) h (w_fs w) ->
  store_run_ok self rev o (h_cfg_path h) ns h w ->
  daemon_state self rev o ns pause h w = Some (z, hp, wp) ->
  preserved (h_cfg h) (w_fs w) (w_fs wp) /\
  same_store (h_cfg h) (h_cfg hp) /\ disjoint_locs (h_cfg hp) /\ SInv (h_cfg hp) hp (w_fs wp).
Proof.
  intros o self rev ns pause h w z hp wp D HS Hr E.
  pose proof (lift_state self rev o _ _ _
                (StoreI_exec o (h_cfg h) (w_fs w) (h_cfg_path h))
                (StoreI_write self o (h_cfg h) (w_fs w) (h_cfg_path h))
                (StoreI_timeout rev o (h_cfg h) (w_fs w) (h_cfg_path h))
                (StoreI_env self (h_cfg h) (w_fs w) (h_cfg_path h))
                ns pause h w z hp wp (StoreI_init h w D HS) Hr E) as (_ & Hs & D' & HS' & Hp).
  split; [exact Hp|]. split; [exact Hs|]. split; [exact D'|exact HS'].
Qed.
Print Assumptions daemon_store_immutable_state.

(* ---------- hypotheses on the start only ---------- *)

(* no environment step, and no notification can install a new configuration:
   each carries no valid configuration (nc = None: the written file is not the
   configuration file, or it does not parse) or is not about the configuration
   file (DaemonProofs.no_cfg_event) *)
Definition quiet (cp : option str) (ns : list notif) : Prop :=
  (forall w2, ~ In (NEnv w2) ns) /\
  (forall e path nc, In (NEvent e path nc) ns -> nc = None \/ cp <> Some path).

Lemma no_cfg_event_quiet cp ns : (forall w2, ~ In (NEnv w2) ns) -> no_cfg_event cp ns -> quiet cp ns.
Proof. intros H1 H2. split; [exact H1|]. intros e path nc Hin. right. exact (H2 e path nc Hin). Qed.

Lemma quiet_no_cfg_write self cp ns n c : quiet cp ns -> In n ns -> ~ cfg_write self cp n c.
Proof.
  intros [_ Hq] Hin (e & path & -> & _ & _ & Ecp).
  destruct (Hq e path (Some c) Hin) as [H|H]; [discriminate H | exact (H Ecp)].
Qed.

Lemma quiet_store_run_ok self rev o cp ns : quiet cp ns -> forall h w, store_run_ok self rev o cp ns h w.
Proof.
  intros Hq. apply run_ok_all. intros n Hin h w.
  destruct n as [|e path nc| | | | |w2];
    try (cbn [store_okn]; intros c Hc; exfalso; exact (quiet_no_cfg_write self cp ns _ c Hq Hin Hc)).
  exfalso. destruct Hq as [Hq _]. exact (Hq w2 Hin).
Qed.

(* C04_history_store_immutable for the daemon itself: exactly its hypotheses *)
Theorem daemon_store_immutable_quiet :
  forall (o : oracle) (self : N) (rev : bool) (ns : list notif) (pause : Z) (h : handler) (w : world),
  disjoint_locs (h_cfg h) ->
  SInv (h_cfg h) h (w_fs w) ->
  quiet (h_cfg_path h) ns ->
  preserved (h_cfg h) (w_fs w) (w_fs (snd (daemon_loop self rev ns pause h o w))).
Proof.
  intros o self rev ns pause h w D HS Hq.
  exact (proj1 (daemon_store_immutable o self rev ns pause h w D HS
                  (quiet_store_run_ok self rev o _ ns Hq h w))).
Qed.
Print Assumptions daemon_store_immutable_quiet.

(* ---------- the whole program ---------- *)

(* THE WHOLE PROGRAM KEEPS THE STORE.  EVERY oracle, environment, configuration,
   notification list and world: under the hypotheses of
   C04_restart_store_immutable on the start (the six locations do not nest; in
   the initial file system no offset file and not the journal file shares an
   inode with a file of the store, project store or unstable tree), whatever
   `klunok` returns -- the items of a failed start-up, of a failed load, of a
   run that exited or went through all the notifications, or None (the process
   died in a call of load_handler or of a handler program) -- every file that
   was in the file store or project store of w is in the final world under the
   same name with the same inode and the same bytes.  The condition on the
   notifications is that of daemon_store_immutable, from the handler and the
   world load_handler leaves. *)
Theorem whole_store_immutable :
  forall (o : oracle) (env : Main.env) (cfg : config) (rev : bool) (ns : list notif) (w : world),
  disjoint_locs cfg ->
  SI cfg None (w_fs w) ->
  (forall h w1, loaded env cfg o w = Some (h, w1) ->
     store_run_ok (e_self env) rev o (h_cfg_path h) ns h w1) ->
  preserved cfg (w_fs w) (w_fs (snd (klunok env cfg rev ns o w))).
Proof.
  intros o env cfg rev ns w D HS Hr. unfold klunok. unfold loaded in Hr.
  destruct (startup env) as [pre [a|]]; cbn [snd] in Hr; [|apply preserved_refl].
  destruct a as [[[[c cpl] u] g] n]. rewrite run_loaded_run.
  destruct (load_handler_store_immutable o w cfg c cpl D HS) as [H1 [_ H3]].
  destruct (load_handler cfg c cpl o w) as [[[h|]|] w1]; cbn [fst snd] in *; try exact H1.
  destruct (H3 h eq_refl) as [Ec HS1]. specialize (Hr h w1 eq_refl).
  assert (D1 : disjoint_locs (h_cfg h)) by (rewrite Ec; exact D).
  assert (HS1' : SInv (h_cfg h) h (w_fs w1)) by (rewrite Ec; exact HS1).
  destruct (daemon_store_immutable o (e_self env) rev ns 0%Z h w1 D1 HS1' Hr) as [H2 _].
  rewrite Ec in H2.
  destruct (daemon_loop (e_self env) rev ns 0%Z h o w1) as [[t|] w2]; cbn [snd] in *;
    (eapply preserved_trans; [exact H1 | exact H2]).
Qed.
Print Assumptions whole_store_immutable.

(* hypotheses on the start only: C04_restart_store_immutable's, and a quiet
   notification list for the configuration path of the command line *)
Theorem whole_store_immutable_quiet :
  forall (o : oracle) (env : Main.env) (cfg : config) (rev : bool) (ns : list notif) (w : world),
  disjoint_locs cfg ->
  SI cfg None (w_fs w) ->
  (forall cp cpl u g n, snd (startup env) = Some (cp, cpl, u, g, n) -> quiet cp ns) ->
  preserved cfg (w_fs w) (w_fs (snd (klunok env cfg rev ns o w))).
Proof.
  intros o env cfg rev ns w D HS Hq. apply whole_store_immutable; [exact D | exact HS|].
  intros h w1 El. unfold loaded in El.
  destruct (snd (startup env)) as [[[[[c cpl] u] g] n]|] eqn:Es; [|discriminate El].
  destruct (load_handler cfg c cpl o w) as [[[h0|]|] w0] eqn:Eh; try discriminate El.
  injection El as <- <-.
  destruct (load_handler_coherent o w cfg c cpl h0 w0 Eh) as (_ & Ecp & _).
  rewrite Ecp. apply quiet_store_run_ok. exact (Hq c cpl u g n eq_refl).
Qed.
Print Assumptions whole_store_immutable_quiet.

(* ====================================================================== *)
(* Part 2. C09: the call log is confined, for the whole program           *)
(* ====================================================================== *)

(* configuration [c] is covered by the location list L: what C09_confined_start
   and C09_confined_write ask of a configuration, and hinv2's non-emptiness *)
Definition cfg_in (L : list str) (c : config) : Prop :=
  incl (cfg_locs c) L /\ c_queue_path c <> root_path /\ (forall l, In l (cfg_locs c) -> l <> []).

(* what is asked of a notification; it does not look at the state: an
   environment step leaves a confined log (it may not forge calls of the
   daemon), a configuration that a notification can install is covered by L *)
Definition conf_okn (L : list str) (self : N) (cp : option str) (n : notif) (h : handler) (w : world) : Prop :=
  match n with
  | NEnv w2 => log_all (conf L) w2
  | _ => forall c, cfg_write self cp n c -> cfg_in L c
  end.

(* the same on a notification list *)
Definition conf_ns (L : list str) (self : N) (cp : option str) (ns : list notif) : Prop :=
  (forall w2, In (NEnv w2) ns -> log_all (conf L) w2) /\
  (forall n c, In n ns -> cfg_write self cp n c -> cfg_in L c).

Definition ConfI (L : list str) (cp : option str) (h : handler) (w : world) : Prop :=
  h_cfg_path h = cp /\ hinv2 L h /\ log_all (conf L) w.

Section ConfLift.
Variables (self : N) (rev : bool) (o : oracle) (L : list str) (cp : option str).

Let Iv := ConfI L cp.
Let Cv := log_all (conf L).

Lemma ConfI_C h w : Iv h w -> Cv w.
Proof. intros (_ & _ & H). exact H. Qed.

Lemma ConfI_exec pid path h w : Iv h w -> post_h Iv Cv (handle_open_exec pid path h o w).
Proof.
  intros (Ep & [Hh Hne] & Hw).
  pose proof (lokv_handle_open_exec L pid path h Hh o w I Hw) as H.
  destruct (handle_open_exec pid path h o w) as [[h'|] w'] eqn:E; cbn [post_h]; [|exact H].
  destruct H as [Hw' Hh'].
  pose proof (rv_handle_open_exec pid path h o w _ _ E) as [(S1 & S2 & _) _].
  split; [congruence|]. split; [|exact Hw']. constructor; [exact Hh'|]. rewrite S1. exact Hne.
Qed.

Lemma ConfI_timeout h w : Iv h w ->
  match handle_timeout rev h o w with
  | (Some r, w') => Iv (snd r) w'
  | (None, w') => Cv w'
  end.
Proof.
  intros (Ep & Hh & Hw).
  pose proof (lokv_handle_timeout L rev h Hh o w I Hw) as H.
  destruct (handle_timeout rev h o w) as [[r|] w'] eqn:E; [|exact H].
  destruct H as [Hw' Hh'].
  pose proof (rv_handle_timeout rev h o w _ _ E) as (_ & S2 & _).
  split; [congruence|]. split; [exact Hh' | exact Hw'].
Qed.

Lemma ConfI_write_gen pid path nc h w :
  Iv h w -> (forall c, nc = Some c -> cfg_in L c) ->
  post_h Iv Cv (handle_close_write pid path nc h o w).
Proof.
  intros (Ep & [Hh Hne] & Hw) Hnc.
  assert (Hnc' : forall c, nc = Some c -> incl (cfg_locs c) L /\ c_queue_path c <> root_path).
  { intros c Ec. destruct (Hnc c Ec) as (A & B & _). split; assumption. }
  pose proof (lokv_handle_close_write L pid path nc h Hh Hnc' o w I Hw) as H.
  destruct (handle_close_write pid path nc h o w) as [[h'|] w'] eqn:E; cbn [post_h]; [|exact H].
  destruct H as [Hw' Hh'].
  pose proof (rv_close_write_cfg pid path nc h o w _ _ E) as [S2 S1].
  split; [congruence|]. split; [|exact Hw']. constructor; [exact Hh'|].
  destruct S1 as [S1|S1]; [rewrite S1; exact Hne|].
  destruct (Hnc _ S1) as (_ & _ & C3). exact C3.
Qed.

Lemma ConfI_write e path nc h w :
  Iv h w -> conf_okn L self cp (NEvent e path nc) h w ->
  ev_exec e = false -> (ev_write e && negb (ev_pid e =? self)) = true ->
  post_h Iv Cv (handle_close_write (ev_pid e) path nc h o w).
Proof.
  intros Hi Hk Ex Ew.
  assert (Hdec : cp = Some path \/ cp <> Some path).
  { destruct cp as [p|]; [|right; discriminate].
    destruct (str_eqb_spec p path) as [->|Hne]; [left; reflexivity | right; congruence]. }
  destruct Hdec as [Ecp|Hne].
  - apply ConfI_write_gen; [exact Hi|]. intros c ->. cbn [conf_okn] in Hk. apply Hk.
    exists e, path. repeat split; assumption.
  - assert (Ep : h_cfg_path h = cp) by apply Hi.
    rewrite close_write_other_eq by (rewrite Ep; exact Hne).
    apply ConfI_write_gen; [exact Hi | intros c Ec; discriminate Ec].
Qed.

Lemma ConfI_env w2 h w : Iv h w -> conf_okn L self cp (NEnv w2) h w -> Iv h w2.
Proof. intros (Ep & Hh & _) Hk. split; [exact Ep|]. split; [exact Hh | exact Hk]. Qed.

Lemma conf_ns_run_ok ns : conf_ns L self cp ns -> forall h w, run_ok self rev o (conf_okn L self cp) ns h w.
Proof.
  intros [H1 H2]. apply run_ok_all. intros n Hin h w.
  destruct n as [|e path nc| | | | |w2]; try (cbn [conf_okn]; intros c Hc; exact (H2 _ c Hin Hc)).
  cbn [conf_okn]. exact (H1 w2 Hin).
Qed.

End ConfLift.

(* THE DAEMON IS CONFINED.  L: any list of locations that contains the store,
   project store, unstable project store, queue, offset store and journal paths
   of the handler's configuration and of every configuration that a
   notification of [ns] can install.  EVERY oracle: whatever daemon_loop
   returns -- also None, the process died in a call -- every call in the log
   of the final world that creates, removes, links or opens for writing names a
   path inside one of these locations (mkdir/rmdir: or an ancestor directory
   of one); every other call is read-only (the source, the executed image, the
   queue) or a transfer on a descriptor so obtained: exactly Confine.conf, as
   C09_confined_timeout / write / exec state it per operation.  The log of the
   initial world and of the worlds of environment steps must satisfy the same
   (the empty log does).  When the run returns the hypotheses hold again. *)
Theorem daemon_confined :
  forall (L : list str) (o : oracle) (self : N) (rev : bool) (ns : list notif) (pause : Z)
         (h : handler) (w : world),
  hinv2 L h -> log_all (conf L) w ->
  conf_ns L self (h_cfg_path h) ns ->
  let res := daemon_loop self rev ns pause h o w in
  log_all (conf L) (snd res) /\
  (forall outs h', fst res = Some (outs, h') -> hinv2 L h').
Proof.
  intros L o self rev ns pause h w Hh Hw Hns res.
  pose proof (lift_loop self rev o _ _ _
                (ConfI_exec o L (h_cfg_path h))
                (ConfI_write self o L (h_cfg_path h))
                (ConfI_timeout rev o L (h_cfg_path h))
                (ConfI_env self L (h_cfg_path h))
                ns pause h w (conj eq_refl (conj Hh Hw))
                (conf_ns_run_ok self rev o L (h_cfg_path h) ns Hns h w)) as H.
  subst res. destruct (daemon_loop self rev ns pause h o w) as [[[outs h']|] w']; cbn [fst snd] in *.
  - destruct H as (_ & Hh' & Hw'). split; [exact Hw'|]. intros outs0 h0 E. injection E as _ <-. exact Hh'.
  - split; [exact H | intros outs0 h0 E; discriminate E].
Qed.
Print Assumptions daemon_confined.

(* at every loop head the run reaches *)
Theorem daemon_confined_state :
  forall (L : list str) (o : oracle) (self : N) (rev : bool) (ns : list notif) (pause : Z)
         (h : handler) (w : world) z hp wp,
  hinv2 L h -> log_all (conf L) w ->
  conf_ns L self (h_cfg_path h) ns ->
  daemon_state self rev o ns pause h w = Some (z, hp, wp) ->
  log_all (conf L) wp /\ hinv2 L hp /\ h_cfg_path hp = h_cfg_path h.
Proof.
  intros L o self rev ns pause h w z hp wp Hh Hw Hns E.
  pose proof (lift_state self rev o _ _ _
                (ConfI_exec o L (h_cfg_path h))
                (ConfI_write self o L (h_cfg_path h))
                (ConfI_timeout rev o L (h_cfg_path h))
                (ConfI_env self L (h_cfg_path h))
                ns pause h w z hp wp (conj eq_refl (conj Hh Hw))
                (conf_ns_run_ok self rev o L (h_cfg_path h) ns Hns h w) E) as (Ep & Hh' & Hw').
  split; [exact Hw'|]. split; [exact Hh' | exact Ep].
Qed.
Print Assumptions daemon_confined_state.

(* no notification can install a new configuration (environment steps are
   allowed): the configuration in force is the one of the start throughout *)
Definition no_cfg_write (self : N) (cp : option str) (ns : list notif) : Prop :=
  forall n c, In n ns -> ~ cfg_write self cp n c.

Lemma no_cfg_event_no_cfg_write self cp ns : no_cfg_event cp ns -> no_cfg_write self cp ns.
Proof. intros H n c Hin (e & path & -> & _ & _ & Ecp). exact (H e path (Some c) Hin Ecp). Qed.

Lemma cfg_locs_hinv2 h :
  q_dir (h_q h) = c_queue_path (h_cfg h) -> c_queue_path (h_cfg h) <> root_path ->
  (forall l, In l (cfg_locs (h_cfg h)) -> l <> []) ->
  hinv2 (cfg_locs (h_cfg h)) h.
Proof.
  intros Eq Hne Hl. constructor; [|exact Hl]. constructor; [apply incl_refl|].
  rewrite Eq. apply queue_dir_ok; [apply incl_refl | exact Hne].
Qed.

(* THE CONFIGURATION IN FORCE.  When no notification can install a new
   configuration, L is exactly the six locations of the handler's configuration *)
Theorem daemon_confined_in_force :
  forall (o : oracle) (self : N) (rev : bool) (ns : list notif) (pause : Z) (h : handler) (w : world),
  let L := cfg_locs (h_cfg h) in
  hinv2 L h -> log_all (conf L) w ->
  (forall w2, In (NEnv w2) ns -> log_all (conf L) w2) ->
  no_cfg_write self (h_cfg_path h) ns ->
  log_all (conf L) (snd (daemon_loop self rev ns pause h o w)).
Proof.
  intros o self rev ns pause h w L Hh Hw He Hn.
  apply (daemon_confined L o self rev ns pause h w Hh Hw).
  split; [exact He|]. intros n c Hin Hc. exfalso. exact (Hn n c Hin Hc).
Qed.
Print Assumptions daemon_confined_in_force.

(* ---------- the whole program ---------- *)

(* start-up makes no call of the World model; load_handler is confined
   (C09_confined_start); then the daemon *)
Theorem whole_confined :
  forall (L : list str) (o : oracle) (env : Main.env) (cfg : config) (rev : bool) (ns : list notif) (w : world),
  cfg_in L cfg -> log_all (conf L) w ->
  (forall cp cpl u g n, snd (startup env) = Some (cp, cpl, u, g, n) -> conf_ns L (e_self env) cp ns) ->
  log_all (conf L) (snd (klunok env cfg rev ns o w)).
Proof.
  intros L o env cfg rev ns w (Hi & Hq & Hl) Hw Hns. unfold klunok.
  destruct (startup env) as [pre [a|]]; cbn [snd] in Hns; [|exact Hw].
  destruct a as [[[[c cpl] u] g] n]. rewrite run_loaded_run.
  pose proof (lokv_load_handler L cfg c cpl Hi Hq o w I Hw) as H.
  destruct (load_handler cfg c cpl o w) as [[[h|]|] w1] eqn:El; cbn [snd]; [| destruct H as [H _]; exact H | exact H].
  destruct H as [Hw1 Hh]. specialize (Hh h eq_refl).
  destruct (load_handler_coherent o w cfg c cpl h w1 El) as (Ec & Ecp & _).
  assert (Hh2 : hinv2 L h) by (constructor; [exact Hh | rewrite Ec; exact Hl]).
  assert (Hns' : conf_ns L (e_self env) (h_cfg_path h) ns) by (rewrite Ecp; exact (Hns c cpl u g n eq_refl)).
  destruct (daemon_confined L o (e_self env) rev ns 0%Z h w1 Hh2 Hw1 Hns') as [H2 _].
  destruct (daemon_loop (e_self env) rev ns 0%Z h o w1) as [[t|] w2]; cbn [snd] in *; exact H2.
Qed.
Print Assumptions whole_confined.

(* the whole program from an EMPTY log (the process has made no call yet), when
   no notification can install a new configuration: every call the run logged
   is confined to the six locations of the configuration *)
Theorem whole_confined_in_force :
  forall (o : oracle) (env : Main.env) (cfg : config) (rev : bool) (ns : list notif) (w : world),
  let L := cfg_locs cfg in
  c_queue_path cfg <> root_path -> (forall l, In l (cfg_locs cfg) -> l <> []) ->
  w_log w = [] ->
  (forall w2, In (NEnv w2) ns -> log_all (conf L) w2) ->
  (forall cp cpl u g n, snd (startup env) = Some (cp, cpl, u, g, n) -> no_cfg_write (e_self env) cp ns) ->
  log_all (conf L) (snd (klunok env cfg rev ns o w)).
Proof.
  intros o env cfg rev ns w L Hq Hl Hlog He Hn.
  apply whole_confined.
  - split; [apply incl_refl|]. split; assumption.
  - unfold log_all, calls. rewrite Hlog. constructor.
  - intros cp cpl u g n Es. split; [exact He|].
    intros n0 c Hin Hc. exfalso. exact (Hn cp cpl u g n Es n0 c Hin Hc).
Qed.
Print Assumptions whole_confined_in_force.

(* ====================================================================== *)
(* Part 2b. C09: names outside the locations keep their directory entry   *)
(* ====================================================================== *)

(* WatchedProofs.v: [untouched L f f']: every name that is not inside a
   location of L and not an ancestor directory of one resolves in f' to what it
   resolves to in f (kind, inode number, link target; or nothing in both). *)

(* an environment step that leaves these names alone (the clock moves, files
   inside the locations change); a configuration that can be installed is
   covered by L *)
Definition watched_okn (L : list str) (self : N) (cp : option str) (n : notif) (h : handler) (w : world) : Prop :=
  match n with
  | NEnv w2 => untouched L (w_fs w) (w_fs w2)
  | _ => forall c, cfg_write self cp n c -> cfg_in L c
  end.

Definition watched_run_ok (L : list str) (self : N) (rev : bool) (o : oracle) (cp : option str)
  : list notif -> handler -> world -> Prop :=
  run_ok self rev o (watched_okn L self cp).

(* every configuration that a notification of ns can install is covered by L *)
Definition cfgs_in (L : list str) (self : N) (cp : option str) (ns : list notif) : Prop :=
  forall n c, In n ns -> cfg_write self cp n c -> cfg_in L c.

Definition WatchI (L : list str) (f0 : fs) (cp : option str) (h : handler) (w : world) : Prop :=
  h_cfg_path h = cp /\ hinv2 L h /\ untouched L f0 (w_fs w).

Section WatchLift.
Variables (self : N) (rev : bool) (o : oracle) (L : list str) (f0 : fs) (cp : option str).

Let Iv := WatchI L f0 cp.
Let Cv := fun w : world => untouched L f0 (w_fs w).

Lemma WatchI_exec pid path h w : Iv h w -> post_h Iv Cv (handle_open_exec pid path h o w).
Proof.
  intros (Ep & [Hh Hne] & Hw).
  pose proof (W_handle_open_exec L f0 pid path h Hh o w I Hw) as H.
  destruct (handle_open_exec pid path h o w) as [[h'|] w'] eqn:E; cbn [post_h]; [|exact H].
  destruct H as [Hw' Hh'].
  pose proof (rv_handle_open_exec pid path h o w _ _ E) as [(S1 & S2 & _) _].
  split; [congruence|]. split; [|exact Hw']. constructor; [exact Hh'|]. rewrite S1. exact Hne.
Qed.

Lemma WatchI_timeout h w : Iv h w ->
  match handle_timeout rev h o w with
  | (Some r, w') => Iv (snd r) w'
  | (None, w') => Cv w'
  end.
Proof.
  intros (Ep & Hh & Hw).
  pose proof (W_handle_timeout L f0 rev h Hh o w I Hw) as H.
  destruct (handle_timeout rev h o w) as [[r|] w'] eqn:E; [|exact H].
  destruct H as [Hw' Hh'].
  pose proof (rv_handle_timeout rev h o w _ _ E) as (_ & S2 & _).
  split; [congruence|]. split; [exact Hh' | exact Hw'].
Qed.

Lemma WatchI_write_gen pid path nc h w :
  Iv h w -> (forall c, nc = Some c -> cfg_in L c) ->
  post_h Iv Cv (handle_close_write pid path nc h o w).
Proof.
  intros (Ep & [Hh Hne] & Hw) Hnc.
  assert (Hnc' : forall c, nc = Some c -> incl (cfg_locs c) L /\ c_queue_path c <> root_path).
  { intros c Ec. destruct (Hnc c Ec) as (A & B & _). split; assumption. }
  pose proof (W_handle_close_write L f0 pid path nc h Hh Hnc' o w I Hw) as H.
  destruct (handle_close_write pid path nc h o w) as [[h'|] w'] eqn:E; cbn [post_h]; [|exact H].
  destruct H as [Hw' Hh'].
  pose proof (rv_close_write_cfg pid path nc h o w _ _ E) as [S2 S1].
  split; [congruence|]. split; [|exact Hw']. constructor; [exact Hh'|].
  destruct S1 as [S1|S1]; [rewrite S1; exact Hne|].
  destruct (Hnc _ S1) as (_ & _ & C3). exact C3.
Qed.

Lemma WatchI_write e path nc h w :
  Iv h w -> watched_okn L self cp (NEvent e path nc) h w ->
  ev_exec e = false -> (ev_write e && negb (ev_pid e =? self)) = true ->
  post_h Iv Cv (handle_close_write (ev_pid e) path nc h o w).
Proof.
  intros Hi Hk Ex Ew.
  assert (Hdec : cp = Some path \/ cp <> Some path).
  { destruct cp as [p|]; [|right; discriminate].
    destruct (str_eqb_spec p path) as [->|Hne]; [left; reflexivity | right; congruence]. }
  destruct Hdec as [Ecp|Hne].
  - apply WatchI_write_gen; [exact Hi|]. intros c ->. cbn [watched_okn] in Hk. apply Hk.
    exists e, path. repeat split; assumption.
  - assert (Ep : h_cfg_path h = cp) by apply Hi.
    rewrite close_write_other_eq by (rewrite Ep; exact Hne).
    apply WatchI_write_gen; [exact Hi | intros c Ec; discriminate Ec].
Qed.

Lemma WatchI_env w2 h w : Iv h w -> watched_okn L self cp (NEnv w2) h w -> Iv h w2.
Proof.
  intros (Ep & Hh & Hw) Hk. split; [exact Ep|]. split; [exact Hh|].
  eapply untouched_trans; [exact Hw | exact Hk].
Qed.

End WatchLift.

(* THE DAEMON LEAVES THE OTHER NAMES ALONE.  EVERY oracle: whatever daemon_loop
   returns, also None: every name outside the locations of L (and not an
   ancestor directory of one) -- every watched file -- resolves in the final
   world to what it resolved to at the start: the daemon has not removed,
   renamed, replaced or created it.  Environment steps of ns must leave these
   names alone too (otherwise see daemon_step_untouched). *)
Theorem daemon_watched_untouched :
  forall (L : list str) (o : oracle) (self : N) (rev : bool) (ns : list notif) (pause : Z)
         (h : handler) (w : world),
  hinv2 L h ->
  watched_run_ok L self rev o (h_cfg_path h) ns h w ->
  let res := daemon_loop self rev ns pause h o w in
  untouched L (w_fs w) (w_fs (snd res)) /\
  (forall outs h', fst res = Some (outs, h') -> hinv2 L h').
Proof.
  intros L o self rev ns pause h w Hh Hr res.
  pose proof (lift_loop self rev o _ _ _
                (WatchI_exec o L (w_fs w) (h_cfg_path h))
                (WatchI_write self o L (w_fs w) (h_cfg_path h))
                (WatchI_timeout rev o L (w_fs w) (h_cfg_path h))
                (WatchI_env self L (w_fs w) (h_cfg_path h))
                ns pause h w (conj eq_refl (conj Hh (untouched_refl L (w_fs w)))) Hr) as H.
  subst res. destruct (daemon_loop self rev ns pause h o w) as [[[outs h']|] w']; cbn [fst snd] in *.
  - destruct H as (_ & Hh' & Hw'). split; [exact Hw'|]. intros outs0 h0 E. injection E as _ <-. exact Hh'.
  - split; [exact H | intros outs0 h0 E; discriminate E].
Qed.
Print Assumptions daemon_watched_untouched.

Lemma cfgs_in_run_ok L self rev o cp ns :
  (forall w2, ~ In (NEnv w2) ns) -> cfgs_in L self cp ns ->
  forall h w, watched_run_ok L self rev o cp ns h w.
Proof.
  intros He Hc. apply run_ok_all. intros n Hin h w.
  destruct n as [|e path nc| | | | |w2]; try (cbn [watched_okn]; intros c Hcw; exact (Hc _ c Hin Hcw)).
  exfalso. exact (He w2 Hin).
Qed.

(* without environment steps: a condition on the notification list only *)
Theorem daemon_watched_untouched_noenv :
  forall (L : list str) (o : oracle) (self : N) (rev : bool) (ns : list notif) (pause : Z)
         (h : handler) (w : world),
  hinv2 L h ->
  (forall w2, ~ In (NEnv w2) ns) -> cfgs_in L self (h_cfg_path h) ns ->
  untouched L (w_fs w) (w_fs (snd (daemon_loop self rev ns pause h o w))).
Proof.
  intros L o self rev ns pause h w Hh He Hc.
  exact (proj1 (daemon_watched_untouched L o self rev ns pause h w Hh
                  (cfgs_in_run_ok L self rev o _ ns He Hc h w))).
Qed.
Print Assumptions daemon_watched_untouched_noenv.

(* ONLY THE ENVIRONMENT CHANGES THEM.  Whatever the environment steps of ns do
   to the world: at every loop head (hp, wp) the run reaches, the iteration for
   the next notification -- dispatch and timeout pass, under every oracle,
   whether it returns or the process dies in it -- leaves every name outside
   the locations as it finds it. *)
Theorem daemon_step_untouched :
  forall (L : list str) (o : oracle) (self : N) (rev : bool) (pre : list notif) (n : notif) (post : list notif)
         (pause : Z) (h : handler) (w : world) z hp wp,
  hinv2 L h -> cfgs_in L self (h_cfg_path h) (pre ++ n :: post) ->
  daemon_state self rev o pre pause h w = Some (z, hp, wp) -> is_env n = false ->
  untouched L (w_fs wp) (w_fs (snd (iteration self rev n hp o wp))).
Proof.
  intros L o self rev pre n post pause h w z hp wp Hh Hc Es Hn.
  (* the handler invariant at the loop head: the lifting lemma with a trivial
     condition on the world *)
  set (cp := h_cfg_path h) in *.
  set (Jv := fun (h : handler) (w : world) => h_cfg_path h = cp /\ hinv2 L h).
  set (okn := fun (n : notif) (h : handler) (w : world) =>
                match n with NEnv _ => True | _ => forall c, cfg_write self cp n c -> cfg_in L c end).
  assert (J_of : forall h w, Jv h w -> WatchI L (w_fs w) cp h w)
    by (intros h1 w1 [A B]; split; [exact A|]; split; [exact B | apply untouched_refl]).
  assert (Jexec : forall pid path h w, Jv h w -> post_h Jv (fun _ => True) (handle_open_exec pid path h o w)).
  { intros pid path h1 w1 Hj.
    pose proof (WatchI_exec o L (w_fs w1) cp pid path h1 w1 (J_of _ _ Hj)) as H.
    destruct (handle_open_exec pid path h1 o w1) as [[h'|] w']; cbn [post_h] in *; [|exact I].
    destruct H as (A & B & _). split; assumption. }
  assert (Jwrite : forall e path nc h w, Jv h w -> okn (NEvent e path nc) h w ->
            ev_exec e = false -> (ev_write e && negb (ev_pid e =? self)) = true ->
            post_h Jv (fun _ => True) (handle_close_write (ev_pid e) path nc h o w)).
  { intros e path nc h1 w1 Hj Hk Ex Ew.
    pose proof (WatchI_write self o L (w_fs w1) cp e path nc h1 w1 (J_of _ _ Hj) Hk Ex Ew) as H.
    destruct (handle_close_write (ev_pid e) path nc h1 o w1) as [[h'|] w']; cbn [post_h] in *; [|exact I].
    destruct H as (A & B & _). split; assumption. }
  assert (Jtimeout : forall h w, Jv h w ->
            match handle_timeout rev h o w with (Some r, w') => Jv (snd r) w' | (None, w') => True end).
  { intros h1 w1 Hj.
    pose proof (WatchI_timeout rev o L (w_fs w1) cp h1 w1 (J_of _ _ Hj)) as H.
    destruct (handle_timeout rev h1 o w1) as [[r|] w']; [|exact I].
    destruct H as (A & B & _). split; assumption. }
  assert (Jenv : forall w2 h w, Jv h w -> okn (NEnv w2) h w -> Jv h w2) by (intros w2 h1 w1 Hj _; exact Hj).
  assert (Hok : forall l, (forall n0, In n0 l -> In n0 (pre ++ n :: post)) -> forall h w, run_ok self rev o okn l h w).
  { intros l Hl. apply run_ok_all. intros n0 Hin h1 w1.
    destruct n0 as [|e path nc| | | | |w2]; try exact I;
      intros c Hcw; exact (Hc _ c (Hl _ Hin) Hcw). }
  assert (Hp : Jv hp wp).
  { apply (lift_state self rev o Jv (fun _ => True) okn Jexec Jwrite Jtimeout Jenv pre pause h w z hp wp);
      [split; [reflexivity | exact Hh] | | exact Es].
    apply Hok. intros n0 Hin. apply in_or_app. left. exact Hin. }
  (* the iteration from (hp, wp), relative to the file system of wp *)
  assert (Hkn : watched_okn L self cp n hp wp).
  { destruct n as [|e path nc| | | | |w2]; try discriminate Hn;
      intros c Hcw; refine (Hc _ c _ Hcw); apply in_or_app; right; left; reflexivity. }
  pose proof (iteration_lift self rev o (WatchI L (w_fs wp) cp) (fun w => untouched L (w_fs wp) (w_fs w))
                (watched_okn L self cp)
                (WatchI_exec o L (w_fs wp) cp) (WatchI_write self o L (w_fs wp) cp)
                (WatchI_timeout rev o L (w_fs wp) cp)
                n hp wp Hn (J_of _ _ Hp) Hkn) as H.
  destruct (iteration self rev n hp o wp) as [[[outs h1|outs z1 h1]|] w1]; cbn [snd].
  - destruct H as (_ & _ & H). exact H.
  - destruct H as (_ & _ & H). exact H.
  - exact H.
Qed.
Print Assumptions daemon_step_untouched.

(* ---------- the whole program ---------- *)

Theorem whole_watched_untouched :
  forall (L : list str) (o : oracle) (env : Main.env) (cfg : config) (rev : bool) (ns : list notif) (w : world),
  cfg_in L cfg ->
  (forall h w1, loaded env cfg o w = Some (h, w1) ->
     watched_run_ok L (e_self env) rev o (h_cfg_path h) ns h w1) ->
  untouched L (w_fs w) (w_fs (snd (klunok env cfg rev ns o w))).
Proof.
  intros L o env cfg rev ns w (Hi & Hq & Hl) Hr. unfold klunok. unfold loaded in Hr.
  destruct (startup env) as [pre [a|]]; cbn [snd] in Hr; [|apply untouched_refl].
  destruct a as [[[[c cpl] u] g] n]. rewrite run_loaded_run.
  destruct (load_handler_untouched L cfg c cpl o w Hi Hq) as [H1 H3].
  destruct (load_handler cfg c cpl o w) as [[[h|]|] w1] eqn:El; cbn [fst snd] in *; try exact H1.
  specialize (H3 h eq_refl). specialize (Hr h w1 eq_refl).
  destruct (load_handler_coherent o w cfg c cpl h w1 El) as (Ec & _).
  assert (Hh2 : hinv2 L h) by (constructor; [exact H3 | rewrite Ec; exact Hl]).
  destruct (daemon_watched_untouched L o (e_self env) rev ns 0%Z h w1 Hh2 Hr) as [H2 _].
  destruct (daemon_loop (e_self env) rev ns 0%Z h o w1) as [[t|] w2]; cbn [snd] in *;
    (eapply untouched_trans; [exact H1 | exact H2]).
Qed.
Print Assumptions whole_watched_untouched.

(* a condition on the start and the notification list only: no environment
   step; L covers the configuration and every configuration that can be
   installed.  With no notification that can install one: L = cfg_locs cfg. *)
Theorem whole_watched_untouched_noenv :
  forall (L : list str) (o : oracle) (env : Main.env) (cfg : config) (rev : bool) (ns : list notif) (w : world),
  cfg_in L cfg ->
  (forall w2, ~ In (NEnv w2) ns) ->
  (forall cp cpl u g n, snd (startup env) = Some (cp, cpl, u, g, n) -> cfgs_in L (e_self env) cp ns) ->
  untouched L (w_fs w) (w_fs (snd (klunok env cfg rev ns o w))).
Proof.
  intros L o env cfg rev ns w Hc He Hn. apply whole_watched_untouched; [exact Hc|].
  intros h w1 El. unfold loaded in El.
  destruct (snd (startup env)) as [[[[[c cpl] u] g] n]|] eqn:Es; [|discriminate El].
  destruct (load_handler cfg c cpl o w) as [[[h0|]|] w0] eqn:Eh; try discriminate El.
  injection El as <- <-.
  destruct (load_handler_coherent o w cfg c cpl h0 w0 Eh) as (_ & Ecp & _).
  rewrite Ecp. apply cfgs_in_run_ok; [exact He | exact (Hn c cpl u g n eq_refl)].
Qed.
Print Assumptions whole_watched_untouched_noenv.

(* ====================================================================== *)
(* Part 3. Concrete instances                                             *)
(* ====================================================================== *)

(* boolean checker for [preserved] *)
Definition preservedb (c : config) (f f' : fs) : bool :=
  forallb (fun e => match snd e with
                    | NFile i =>
                        negb (keptb c (fst e)) ||
                        match lookup f (fst e) with
                        | Some (NFile k) =>
                            match lookup f' (fst e) with
                            | Some (NFile k') => Nat.eqb k' k && str_eqb (f_bytes (get_file f' k)) (f_bytes (get_file f k))
                            | _ => false
                            end
                        | _ => true
                        end
                    | _ => true
                    end) (fs_dents f).

(* boolean checker for [near_loc] (complete: a name it rejects is not near) *)
Definition near_locb (L : list str) (p : str) : bool :=
  existsb (fun l => str_eqb p l || Str.under l p || Str.under p l) L.

Lemma near_locb_complete L p : near_loc L p -> near_locb L p = true.
Proof.
  intros (l & Hin & Hr). unfold near_locb. apply existsb_exists. exists l. split; [exact Hin|].
  destruct Hr as [[->|[r ->]]|[r ->]].
  - rewrite str_eqb_refl. reflexivity.
  - assert (H : Str.under l (l ++ ch_slash :: r) = true) by (apply underb_spec; exists r; reflexivity).
    rewrite H. rewrite orb_true_r. reflexivity.
  - assert (H : Str.under p (p ++ ch_slash :: r) = true) by (apply underb_spec; exists r; reflexivity).
    rewrite H. rewrite orb_true_r. reflexivity.
Qed.

Lemma not_near_loc L p : near_locb L p = false -> ~ near_loc L p.
Proof. intros H Hn. rewrite (near_locb_complete L p Hn) in H. discriminate H. Qed.

Module WholeExample.
  Import MixedExample KlunokExample.
  Local Open Scope char_scope.

  (* KlunokExample's start (klunok -c /h/c -w /h -e / -d /h as a user, editors
     vim and ed, store /st, project store /ps, queue /q, journal /j, offsets
     /off; pid 7 executes /b/vim, then closes /h/a after writing), in a world
     that ALREADY holds a stored version /st/a/v50 of /h/a (inode 9, "old") *)
  Definition p_sta : str := ["/"; "s"; "t"; "/"; "a"].
  Definition v50 : str := ["/"; "s"; "t"; "/"; "a"; "/"; "v"; "5"; "0"].
  Definition fsS : fs :=
    mkFs (fs_dents fs0 ++ [(p_st, NDir); (p_sta, NDir); (v50, NFile 9)])
         (fs_files fs0 ++ [(9%nat, mkFile old true)]) 10.
  Definition wS : world := mkW fsS 0 [] 100%Z tr_empty.

  (* the hypotheses of whole_store_immutable on the start *)
  Example start_hyps :
    disjoint_locs cfgM /\ SI cfgM None (w_fs wS) /\
    lookup (w_fs wS) v50 = Some (NFile 9) /\ kept cfgM v50 /\ w_log wS = [].
  Proof.
    split; [apply disjoint_locsb_ok; vm_compute; reflexivity|].
    split; [apply SIb_ok; vm_compute; reflexivity|].
    split; [vm_compute; reflexivity|].
    split; [|reflexivity]. left. exists ["a"; "/"; "v"; "5"; "0"]. reflexivity.
  Qed.

  Lemma startup_cp cp cpl u g n :
    snd (startup env_user) = Some (cp, cpl, u, g, n) -> cp = Some p_c.
  Proof. rewrite startup_user. cbn [snd]. intros E. injection E as <- _ _ _ _. reflexivity. Qed.

  (* ----- (1a) EVERY oracle: no environment step ----- *)
  Definition nsQ : list notif := ns1 ++ [NWake].

  Lemma nsQ_quiet cp : quiet cp nsQ.
  Proof.
    split.
    - intros w2 Hin. repeat (destruct Hin as [Hin|Hin]; [discriminate Hin|]). exact Hin.
    - intros e path nc Hin. left.
      repeat (destruct Hin as [Hin|Hin]; [try discriminate Hin; injection Hin as _ _ <-; reflexivity|]).
      destruct Hin.
  Qed.

  (* whatever fails, is cut short or kills the process at any call of the whole
     run: /st/a/v50 keeps its name, its inode and its bytes *)
  Example stored_version_survives_every_oracle : forall (o : oracle),
    let w' := snd (klunok env_user cfgM false nsQ o wS) in
    lookup (w_fs w') v50 = Some (NFile 9) /\ f_bytes (get_file (w_fs w') 9) = old.
  Proof.
    intros o w'. destruct start_hyps as (D & HS & Hl & Hk & _).
    assert (Hp : preserved cfgM (w_fs wS) (w_fs w')).
    { apply whole_store_immutable_quiet; [exact D | exact HS|]. intros; apply nsQ_quiet. }
    destruct (Hp v50 9%nat Hk Hl) as [A B]. split; [exact A|]. rewrite B. vm_compute. reflexivity.
  Qed.

  (* ----- (1b) oracle o2, with an environment step: the clock moves to 106 s ----- *)
  Definition wE' : world := clk 106 (snd (klunok env_user cfgM false ns1 o2 wS)).
  Definition nsE : list notif := ns1 ++ [NEnv wE'; NWake].
  Definition v106 : str := KlunokExample.v106.

  Definition hL : handler := match loaded env_user cfgM o2 wS with Some (h, _) => h | None => hM end.
  Definition wL : world := match loaded env_user cfgM o2 wS with Some (_, w) => w | None => wS end.
  Lemma loaded_eq : loaded env_user cfgM o2 wS = Some (hL, wL).
  Proof. vm_compute. reflexivity. Qed.

  Lemma ns1_quiet cp : quiet cp ns1.
  Proof.
    split.
    - intros w2 Hin. repeat (destruct Hin as [Hin|Hin]; [discriminate Hin|]). exact Hin.
    - intros e path nc Hin. left.
      repeat (destruct Hin as [Hin|Hin]; [try discriminate Hin; injection Hin as _ _ <-; reflexivity|]).
      destruct Hin.
  Qed.

  Lemma hL_hyps : disjoint_locs (h_cfg hL) /\ SInv (h_cfg hL) hL (w_fs wL).
  Proof.
    destruct start_hyps as (D & HS & _).
    destruct (load_handler_store_immutable o2 wS cfgM (Some p_c) 3 D HS) as [_ [_ H3]].
    assert (E : load_handler cfgM (Some p_c) 3 o2 wS = (Some (Some hL), wL)) by (vm_compute; reflexivity).
    rewrite E in H3. cbn [fst snd] in H3. destruct (H3 hL eq_refl) as [Ec HS1].
    rewrite Ec. split; assumption.
  Qed.

  (* the condition of whole_store_immutable holds of this run: the environment
     step leaves the file system as it is *)
  Lemma nsE_ok : forall h w1, loaded env_user cfgM o2 wS = Some (h, w1) ->
    store_run_ok (e_self env_user) false o2 (h_cfg_path h) nsE h w1.
  Proof.
    intros h w1 E. rewrite loaded_eq in E.
    assert (Eh : hL = h) by congruence. assert (Ew1 : wL = w1) by congruence. subst h w1. clear E.
    destruct hL_hyps as [D HS].
    unfold store_run_ok, nsE. apply (run_ok_app _ _ _ _ ns1 [NEnv wE'; NWake] 0%Z).
    - apply quiet_store_run_ok. apply ns1_quiet.
    - intros z hp wp Es.
      destruct (daemon_store_immutable_state o2 (e_self env_user) false ns1 0%Z hL wL z hp wp D HS
                  (quiet_store_run_ok _ _ _ _ _ (ns1_quiet _) hL wL) Es) as (_ & _ & _ & [HSp _]).
      assert (Ew : w_fs wE' = w_fs wp).
      { assert (Es' : daemon_state (e_self env_user) false o2 ns1 0%Z hL wL = Some (z, hp, wp)) by exact Es.
        vm_compute in Es'. injection Es' as _ _ <-. vm_compute. reflexivity. }
      cbn [run_ok]. split; [apply env_keeps_same_fs; assumption|]. split.
      + intros c (e & path & Hn & _). discriminate Hn.
      + destruct (iteration (e_self env_user) false NWake hp o2 wE') as [[[?|?]|] ?]; exact I.
  Qed.

  (* so v50 is kept; and the run is not one that does nothing: it stores the
     version v106 of /h/a *)
  Example stored_version_survives_o2 :
    let w' := snd (klunok env_user cfgM false nsE o2 wS) in
    lookup (w_fs w') v50 = Some (NFile 9) /\ f_bytes (get_file (w_fs w') 9) = old /\
    lookup (w_fs wS) v106 = None /\ lookup (w_fs w') v106 = Some (NFile 10) /\
    f_bytes (get_file (w_fs w') 10) = ["a"] /\ okw w' = true.
  Proof.
    intros w'. subst w'. destruct start_hyps as (D & HS & Hl & Hk & _).
    pose proof (whole_store_immutable o2 env_user cfgM false nsE wS D HS nsE_ok) as Hp.
    destruct (Hp v50 9%nat Hk Hl) as [A B]. split; [exact A|]. split; [rewrite B; vm_compute; reflexivity|].
    vm_compute. repeat split; reflexivity.
  Qed.

  (* the checker agrees *)
  Example preserved_checked :
    preservedb cfgM (w_fs wS) (w_fs (snd (klunok env_user cfgM false nsE o2 wS))) = true.
  Proof. vm_compute. reflexivity. Qed.

  (* ----- (2a) C09, EVERY oracle, KlunokExample's own world (empty log) ----- *)
  Lemma cfgM_locs : c_queue_path cfgM <> root_path /\ (forall l, In l (cfg_locs cfgM) -> l <> []).
  Proof.
    split; [discriminate|]. intros l Hin.
    repeat (destruct Hin as [Hin|Hin]; [subst l; discriminate|]). destruct Hin.
  Qed.

  Lemma no_write_of (l : list notif) cp :
    (forall e path nc, In (NEvent e path nc) l -> nc = None) -> no_cfg_write (e_self env_user) cp l.
  Proof. intros H n c Hin (e & path & -> & _). specialize (H e path (Some c) Hin). discriminate H. Qed.

  Lemma ns1_none : forall e path nc, In (NEvent e path nc) ns1 -> nc = None.
  Proof.
    intros e path nc Hin.
    repeat (destruct Hin as [Hin|Hin]; [try discriminate Hin; injection Hin as _ _ <-; reflexivity|]).
    destruct Hin.
  Qed.

  Example confined_every_oracle : forall (o : oracle),
    log_all (conf (cfg_locs cfgM)) (snd (klunok env_user cfgM false nsQ o w0)).
  Proof.
    intros o. destruct cfgM_locs as [Hq Hl].
    apply whole_confined_in_force; [exact Hq | exact Hl | reflexivity | |].
    - intros w2 Hin. repeat (destruct Hin as [Hin|Hin]; [discriminate Hin|]). destruct Hin.
    - intros cp cpl u g n _. apply no_write_of. intros e path nc Hin.
      unfold nsQ in Hin. apply in_app_or in Hin. destruct Hin as [Hin|Hin]; [exact (ns1_none _ _ _ Hin)|].
      destruct Hin as [Hin|[]]. discriminate Hin.
  Qed.

  (* ----- (2b) C09, KlunokExample's run itself (oracle o2, environment step wE) ----- *)
  (* the world of the environment step is the world of the run over ns1 with
     the clock moved: its log is confined BY THE THEOREM *)
  Lemma log_all_clk P t w : log_all P (clk t w) = log_all P w.
  Proof. reflexivity. Qed.

  Lemma wE_confined : log_all (conf (cfg_locs cfgM)) wE.
  Proof.
    destruct cfgM_locs as [Hq Hl].
    unfold wE. rewrite log_all_clk.
    apply whole_confined_in_force; [exact Hq | exact Hl | reflexivity | |].
    - intros w2 Hin. repeat (destruct Hin as [Hin|Hin]; [discriminate Hin|]). destruct Hin.
    - intros cp cpl u g n _. apply no_write_of. exact ns1_none.
  Qed.

  Example confined_run : log_all (conf (cfg_locs cfgM)) w_R.
  Proof.
    destruct cfgM_locs as [Hq Hl]. unfold w_R.
    apply whole_confined_in_force; [exact Hq | exact Hl | reflexivity | |].
    - intros w2 Hin. unfold ns in Hin. apply in_app_or in Hin. destruct Hin as [Hin|Hin].
      + repeat (destruct Hin as [Hin|Hin]; [discriminate Hin|]). destruct Hin.
      + destruct Hin as [Hin|[Hin|[]]]; [|discriminate Hin].
        injection Hin as <-. exact wE_confined.
    - intros cp cpl u g n _. apply no_write_of. intros e path nc Hin.
      unfold ns in Hin. apply in_app_or in Hin. destruct Hin as [Hin|Hin]; [exact (ns1_none _ _ _ Hin)|].
      destruct Hin as [Hin|[Hin|[]]]; discriminate Hin.
  Qed.

  (* and the log of that run, oldest call first: 37 calls; those that create,
     remove or open for writing name /q, /j, /st/..., /off/...; /h/a is only
     opened for reading *)
  Example run_log :
    map fst (rev (w_log w_R)) =
    [ CScandir p_q; CMkdir p_q; CScandir p_q; COpenDir p_q; COpenA p_j;
      CReadN 64; CReadN 64;
      CWrite 2; CWrite 2; CWrite 2; CWrite 2; CWrite 2; CWrite 2; CWrite 2; CWrite 1;
      CSymlinkat p_a p_q ["0"];
      CWrite 2; CWrite 2; CWrite 2; CWrite 2; CWrite 2; CWrite 2; CWrite 1;
      CFstatat p_q ["0"]; CFstatat p_q ["0"]; CReadlinkat p_q ["0"] 17;
      CMkdir p_st; CMkdir p_sta; COpenR p_a; COpenExcl KlunokExample.v106; CFstat;
      CSendfile 0 1; CClose; CClose;
      CUnlink ["/"; "o"; "f"; "f"; "/"; "a"];
      CReadlinkat p_q ["0"] 17; CUnlinkat p_q ["0"] ].
  Proof. vm_compute. reflexivity. Qed.

  (* ----- (2c) watched names, EVERY oracle ----- *)
  Lemma cfgM_in : cfg_in (cfg_locs cfgM) cfgM.
  Proof. destruct cfgM_locs as [Hq Hl]. split; [apply incl_refl|]. split; assumption. Qed.

  Lemma no_cfgs_in (l : list notif) cp :
    (forall e path nc, In (NEvent e path nc) l -> nc = None) -> cfgs_in (cfg_locs cfgM) (e_self env_user) cp l.
  Proof. intros H n c Hin Hc. exfalso. exact (no_write_of l cp H n c Hin Hc). Qed.

  Lemma nsQ_none : forall e path nc, In (NEvent e path nc) nsQ -> nc = None.
  Proof.
    intros e path nc Hin. unfold nsQ in Hin. apply in_app_or in Hin.
    destruct Hin as [Hin|Hin]; [exact (ns1_none _ _ _ Hin)|]. destruct Hin as [Hin|[]]. discriminate Hin.
  Qed.

  (* the edited file /h/a, the configuration file's directory /h and the
     editor's image /b/vim are outside the six locations: whatever fails or
     kills the process, after the whole run they are what they were *)
  Example watched_every_oracle : forall (o : oracle),
    let w' := snd (klunok env_user cfgM false nsQ o w0) in
    untouched (cfg_locs cfgM) (w_fs w0) (w_fs w') /\
    lookup (w_fs w') p_a = Some (NFile 4) /\ lookup (w_fs w') p_h = Some NDir /\
    lookup (w_fs w') p_vim = Some (NFile 5) /\ lookup (w_fs w') p_c = None.
  Proof.
    intros o w'.
    assert (Hu : untouched (cfg_locs cfgM) (w_fs w0) (w_fs w')).
    { apply whole_watched_untouched_noenv; [exact cfgM_in | |].
      - intros w2 Hin. repeat (destruct Hin as [Hin|Hin]; [discriminate Hin|]). destruct Hin.
      - intros cp cpl u g n _. apply no_cfgs_in. exact nsQ_none. }
    split; [exact Hu|].
    repeat split; (rewrite Hu; [vm_compute; reflexivity | apply not_near_loc; vm_compute; reflexivity]).
  Qed.

  (* ----- (2d) KlunokExample's own run: the environment step moves the clock ----- *)
  Definition hL0 : handler := match loaded env_user cfgM o2 w0 with Some (h, _) => h | None => hM end.
  Definition wL0 : world := match loaded env_user cfgM o2 w0 with Some (_, w) => w | None => w0 end.
  Lemma loaded0_eq : loaded env_user cfgM o2 w0 = Some (hL0, wL0).
  Proof. vm_compute. reflexivity. Qed.

  Lemma ns_watched_ok : forall h w1, loaded env_user cfgM o2 w0 = Some (h, w1) ->
    watched_run_ok (cfg_locs cfgM) (e_self env_user) false o2 (h_cfg_path h) ns h w1.
  Proof.
    intros h w1 E. rewrite loaded0_eq in E.
    assert (Eh : hL0 = h) by congruence. assert (Ew1 : wL0 = w1) by congruence. subst h w1. clear E.
    unfold watched_run_ok, ns. apply (run_ok_app _ _ _ _ ns1 [NEnv wE; NWake] 0%Z).
    - apply cfgs_in_run_ok.
      + intros w2 Hin. repeat (destruct Hin as [Hin|Hin]; [discriminate Hin|]). destruct Hin.
      + apply no_cfgs_in. exact ns1_none.
    - intros z hp wp Es.
      assert (Ew : w_fs wE = w_fs wp).
      { assert (Es' : daemon_state (e_self env_user) false o2 ns1 0%Z hL0 wL0 = Some (z, hp, wp)) by exact Es.
        vm_compute in Es'. injection Es' as _ _ <-. vm_compute. reflexivity. }
      cbn [run_ok]. split.
      + cbn [watched_okn]. rewrite Ew. apply untouched_refl.
      + split.
        * intros c (e & path & Hn & _). discriminate Hn.
        * destruct (iteration (e_self env_user) false NWake hp o2 wE) as [[[?|?]|] ?]; exact I.
  Qed.

  Example watched_run :
    untouched (cfg_locs cfgM) (w_fs w0) (w_fs w_R) /\
    lookup (w_fs w_R) p_a = Some (NFile 4) /\
    (* while inside the locations the run did create entries *)
    lookup (w_fs w0) KlunokExample.v106 = None /\ lookup (w_fs w_R) KlunokExample.v106 = Some (NFile 9).
  Proof.
    assert (Hu : untouched (cfg_locs cfgM) (w_fs w0) (w_fs w_R)).
    { unfold w_R. apply whole_watched_untouched; [exact cfgM_in | exact ns_watched_ok]. }
    split; [exact Hu|]. split.
    - rewrite Hu; [vm_compute; reflexivity | apply not_near_loc; vm_compute; reflexivity].
    - vm_compute. split; reflexivity.
  Qed.
End WholeExample.

Print Assumptions WholeExample.stored_version_survives_every_oracle.
Print Assumptions WholeExample.stored_version_survives_o2.
Print Assumptions WholeExample.confined_every_oracle.
Print Assumptions WholeExample.confined_run.
Print Assumptions WholeExample.watched_every_oracle.
Print Assumptions WholeExample.watched_run.
