(* corollaries of PassProofs used by the property files *)
From K Require Import Str Dec Trace Fs World Progs Sieve Handler Linq LinqSpec LinqProofs
  SyncProofs AbandonProofs QueueProofs JournalProofs PassProofs.

Lemma pass_stops_at_not_due : forall o rev es rest h w,
  benign o ->
  tr_ok (w_tr w) = true -> keys_nodup (w_fs w) ->
  QRel (h_q h) (w_fs w) (map qent_of es ++ rest) ->
  Forall (fun e => (q_deb (h_q h) <= w_clock w - e_time e)%Z) es ->
  last_writes es rest ->
  not_due (w_clock w) (q_deb (h_q h)) rest ->
  all_ok (h_cfg h) (h_cpl h) (h_journal h) (q_dir (h_q h)) (w_fs w) (w_clock w) es ->
  exists w',
    handle_timeout rev h o w =
      (Some (TPause (pause_of (w_clock w) (q_deb (h_q h)) rest), set_q (pops es (h_q h)) h), w') /\
    (forall x i', lookup (w_fs w') x = Some (NFile i') -> lookup (w_fs w) x = None ->
       exists e, In e es /\ x = store_name (h_cfg h) (h_cpl h) (w_clock w) (e_path e)) /\
    QRel (pops es (h_q h)) (w_fs w') rest.
Proof.
  intros o rev es rest h w Hb Hok Hnd HR Hdue Hlw Hnot Hall.
  destruct (handle_timeout_plain_pass o rev es rest h w Hb Hok Hnd HR Hdue Hlw Hnot Hall)
    as [w' [E [_ [Hnew [_ [_ [_ [_ [HQ _]]]]]]]]].
  exists w'. split; [exact E|]. split; [exact Hnew | exact HQ].
Qed.
