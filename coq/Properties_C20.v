(* C20 Steady-state resource use does not grow with the number of events.
   Descriptor part (theorems from FdProofs when available): operations are
   descriptor-neutral under every oracle.  Memory is not expressible in the
   model (objects are values); it is measured by the harness (wrapped
   allocator, soak x1/x10/x100). *)
From K Require Import Str World Progs Handler.

(* the in-memory multiset of queued paths has exactly one element per queue
   entry: what the handler keeps is bounded by what is pending, not by how many
   events were handled *)
Theorem C20_bag_tracks_queue_push : forall (path : str) (meta : N) (q : qmem) (o : oracle) (w : world) (q' : qmem) (w' : world),
  q_push path meta q o w = (Some q', w') ->
  (q_size q' = (q_size q + 1)%N /\ length (q_bag q') = S (length (q_bag q))) \/
  (q_size q' = q_size q /\ q_bag q' = q_bag q).
Proof.
  intros path meta q o w q' w' H. unfold q_push, when_ok, bind, is_ok, get_tr, ret_ in H.
  simpl in H. destruct (tr_ok (w_tr w)).
  - unfold k_symlinkat, bind, get_clock in H. simpl in H.
    unfold sys_unit, sys in H.
    destruct (o (w_n w)); simpl in H;
      try (destruct (fs_symlink _ _ _ _) as [[e|] f']; simpl in H);
      try (unfold throw_errno, throw, mod_tr, bind, get_tr, set_tr in H; simpl in H);
      inversion H; subst; simpl; auto.
  - inversion H; subst. auto.
Qed.
Print Assumptions C20_bag_tracks_queue_push.
