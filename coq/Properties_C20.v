(* C20 Steady-state resource use does not grow with the number of events.
   Descriptor part: theorems for every oracle.  [fd_count w] is the number of
   descriptors acquired minus released according to the call log (an open that
   returned a descriptor counts +1, every close -1); [held h] is what a loaded
   handler owns (queue directory + journal).  Memory is not expressible in the
   model (objects are values); it is measured on the implementation by the check
   (wrapped allocator, the same round x1 / x10 / x100). *)
From K Require Import Str World Progs Handler FdProofs.
Local Open Scope Z_scope.

(* a timeout pass, whatever fails inside it, releases every descriptor it acquired *)
Theorem C20_timeout_neutral : forall (rev : bool) (h : handler) (o : oracle) (w : world) r (w' : world),
  handle_timeout rev h o w = (Some r, w') ->
  fd_count w' = fd_count w /\ h_journal (snd r) = h_journal h.
Proof. intros. eapply handle_timeout_fd; eassumption. Qed.
Print Assumptions C20_timeout_neutral.

Theorem C20_exec_neutral : forall (pid : N) (path : str) (h : handler) (o : oracle) (w : world) (h' : handler) (w' : world),
  handle_open_exec pid path h o w = (Some h', w') ->
  fd_count w' = fd_count w /\ h_journal h' = h_journal h.
Proof. intros. eapply handle_open_exec_fd; eassumption. Qed.
Print Assumptions C20_exec_neutral.

(* any number of events: the count does not depend on how many were handled *)
Theorem C20_events_neutral : forall (es : list FdProofs.event) (h : handler) (o : oracle) (w : world) (h' : handler) (w' : world),
  h_cfg_path h = None ->
  handle_events es h o w = (Some h', w') ->
  fd_count w' = fd_count w /\ h_journal h' = h_journal h.
Proof. intros. eapply handle_events_no_cfg_fd; eassumption. Qed.
Print Assumptions C20_events_neutral.

(* with configuration reloads: what the handler holds moves with the count when
   the reload succeeded; a failed reload (the daemon then stops) can leave at most
   one descriptor per write event behind *)
Theorem C20_write_reload : forall (pid : N) (path : str) (nc : option config) (h : handler) (o : oracle) (w : world) (h' : handler) (w' : world),
  handle_close_write pid path nc h o w = (Some h', w') ->
  (tr_ok (w_tr w') = true -> fd_count w' - held h' = fd_count w - held h) /\
  0 <= (fd_count w' - held h') - (fd_count w - held h) <= 1.
Proof. intros. eapply handle_close_write_fd; eassumption. Qed.
Print Assumptions C20_write_reload.

(* loading acquires exactly what the handler then holds; releasing gives it back *)
Theorem C20_load_and_release : forall (cfg : config) (cp : option str) (cpl : nat) (o : oracle) (w : world) (h : handler) (w' : world),
  load_handler cfg cp cpl o w = (Some (Some h), w') ->
  fd_count w' = fd_count w + held h /\
  forall o2 r w2, free_handler h o2 w' = (Some r, w2) -> fd_count w2 = fd_count w.
Proof.
  intros cfg cp cpl o w h w' E. destruct (load_handler_fd cfg cp cpl o w h w' E) as [_ H2].
  split; [exact H2|]. intros o2 r w2 E2. pose proof (free_handler_fd h o2 w' r w2 E2) as H3.
  unfold held, jz in H2. destruct (h_journal h); lia.
Qed.
Print Assumptions C20_load_and_release.

(* a whole session: load, any events, release *)
Theorem C20_session : forall (cfg : config) (cpl : nat) (es : list FdProofs.event) (o : oracle) (w : world) (b : bool) (w' : world),
  session cfg cpl es o w = (Some b, w') ->
  if b then fd_count w' = fd_count w else fd_count w <= fd_count w' <= fd_count w + 1.
Proof. intros. eapply session_fd; eassumption. Qed.
Print Assumptions C20_session.
