(* Reference coalescing FIFO: the short specification the queue is proved to refine. *)
From K Require Export Linq.
Local Open Scope Z_scope.

Notation qent := (str * N * Z)%type.      (* path, flags, enqueue time *)

Definition qpath (e : qent) : str := fst (fst e).

Fixpoint occurs (p : str) (q : list qent) : bool :=
  match q with
  | [] => false
  | e :: q' => str_eqb p (qpath e) || occurs p q'
  end.

(* an entry is not looked at before it is old enough; a head whose path occurs
   again later is skipped in favour of the later one *)
Fixpoint ref_head (now deb : Z) (q : list qent) : head_res * list qent :=
  match q with
  | [] => (HPause (-1), [])
  | (p, m, t) :: q' =>
      if now - t <? deb then (HPause (deb - (now - t)), q)
      else if occurs p q' then ref_head now deb q'
      else (HReady p m, q)
  end.

Record rstate := mkRS { rs_q : list qent; rs_deb : Z; rs_now : Z }.

Definition rstep (s : rstate) (o : lop) : rstate * list lout :=
  let q := rs_q s in
  match o with
  | LPush p m =>
      if (meta_limit <=? m)%N then (s, [OPush PushUB])
      else (mkRS (q ++ [(p, m, rs_now s)]) (rs_deb s) (rs_now s), [OPush PushOk])
  | LHead => let '(r, q') := ref_head (rs_now s) (rs_deb s) q in
             (mkRS q' (rs_deb s) (rs_now s), [OHead r])
  | LPop => match q with
            | [] => (s, [OPop PopAbort])
            | _ :: q' => (mkRS q' (rs_deb s) (rs_now s), [OPop PopOk])
            end
  | LTick n => (mkRS q (rs_deb s) (rs_now s + n), [])
  | LRedeb d => (mkRS q d (rs_now s), [])
  | LReload _ => (s, [])                         (* a restart changes nothing *)
  end.

Fixpoint rrun (s : rstate) (ops : list lop) : rstate * list lout :=
  match ops with
  | [] => (s, [])
  | o :: r => let '(s', out) := rstep s o in
              let '(s'', outs) := rrun s' r in (s'', out ++ outs)
  end.

(* paths the kernel produces: absolute, first component neither empty nor "." *)
Definition normal (p : str) : Prop :=
  exists r, p = ch_slash :: r /\
    match r with
    | c1 :: r' => is_slash c1 = false /\
                  (is_dot c1 = true -> match r' with c2 :: _ => is_slash c2 = false | [] => True end)
    | [] => True
    end.

Definition normalb (p : str) : bool :=
  match p with
  | c0 :: r => is_slash c0 &&
      match r with
      | c1 :: r' => negb (is_slash c1) &&
                    (negb (is_dot c1) || match r' with c2 :: _ => negb (is_slash c2) | [] => true end)
      | [] => true
      end
  | [] => false
  end.

Definition wf_op (o : lop) : Prop :=
  match o with LPush p _ => normal p | _ => True end.

(* the on-disk form of a reference queue whose head has number h *)
Fixpoint number_from (h : N) (q : list qent) : list dirent :=
  match q with
  | [] => []
  | (p, m, t) :: q' => (h, (encode m p, t)) :: number_from (h + 1)%N q'
  end.
