(* A specification of "the interpreter string of an ELF64 image", written from
   the ELF64 layout and not from the program of Elf.v / elfinterp.c.

   Nothing here mentions read(), file positions or buffers: the image is a byte
   string, fields are little-endian numbers at fixed offsets, and the answer is
   a function of the bytes.

     Elf64_Ehdr (64 bytes)   e_ident[0..3] = 0x7f 'E' 'L' 'F'
                             e_phoff  : 8 bytes at 32
                             e_phnum  : 2 bytes at 56
     Elf64_Phdr (56 bytes)   p_type   : 4 bytes at 0    (PT_INTERP = 3)
                             p_offset : 8 bytes at 8
                             p_filesz : 8 bytes at 32

   ElfProofs.v proves that the reader of Elf.v computes exactly this function
   on every byte string. *)
From K Require Import Str.
Local Open Scope N_scope.

(* ---------- bytes and little-endian fields of an image ---------- *)

(* the byte at index k; 0 beyond the end (never used beyond the end by the
   specification below: every field is read under an "inside the file" guard) *)
Definition byte_at (b : str) (k : nat) : N :=
  match nth_error b k with
  | Some c => N_of_ascii c
  | None => 0
  end.

(* the little-endian number made of the len bytes at off *)
Fixpoint le_at (b : str) (off len : nat) : N :=
  match len with
  | O => 0
  | S len' => byte_at b off + 256 * le_at b (S off) len'
  end.

Definition flen (b : str) : N := N.of_nat (length b).

(* the len bytes at off *)
Definition slice (b : str) (off len : nat) : str := firstn len (skipn off b).

(* the C string that starts a byte string: everything before the first NUL *)
Fixpoint until_nul (s : str) : str :=
  match s with
  | [] => []
  | c :: r => if N_of_ascii c =? 0 then [] else c :: until_nul r
  end.

(* ---------- the layout ---------- *)

Definition ehdr_size : N := 64.
Definition phdr_size : N := 56.
Definition pt_interp : N := 3.
Definition two63 : N := 9223372036854775808.    (* off_t is signed: larger offsets cannot be sought *)
Definition two32 : N := 4294967296.             (* the largest segment the daemon is assumed to allocate *)

Definition has_magic (b : str) : bool :=
  (byte_at b 0 =? 127) && (byte_at b 1 =? 69) && (byte_at b 2 =? 76) && (byte_at b 3 =? 70).

Definition e_phoff (b : str) : N := le_at b 32 8.
Definition e_phnum (b : str) : N := le_at b 56 2.

(* program header k starts here *)
Definition phdr_pos (b : str) (k : nat) : N := e_phoff b + phdr_size * N.of_nat k.
Definition phdr_inside (b : str) (k : nat) : bool := phdr_pos b k + phdr_size <=? flen b.
Definition p_type (b : str) (k : nat) : N := le_at b (N.to_nat (phdr_pos b k)) 4.
Definition p_offset (b : str) (k : nat) : N := le_at b (N.to_nat (phdr_pos b k) + 8) 8.
Definition p_filesz (b : str) (k : nat) : N := le_at b (N.to_nat (phdr_pos b k) + 32) 8.

(* the string of a segment [off, off + sz): the segment is not empty, can be
   sought and allocated, lies inside the file and ends with a NUL; the string is
   then the C string at off *)
Definition segment_string (b : str) (off sz : N) : option str :=
  if (off <? two63) && (0 <? sz) && (sz <=? two32) && (off + sz <=? flen b) then
    (* (the positions are turned into list indices only here, where they are
       known to be smaller than the length of the list) *)
    if byte_at b (N.to_nat (off + sz - 1)) =? 0
    then Some (until_nul (skipn (N.to_nat off) b))
    else None
  else None.

(* scan the entries k, k+1, ... (at most n of them) in order: an entry that is
   not completely inside the file ends the scan without an answer; the first
   PT_INTERP entry decides *)
Fixpoint scan_phdrs (b : str) (k n : nat) : option str :=
  match n with
  | O => None
  | S n' =>
      if phdr_inside b k then
        if p_type b k =? pt_interp then segment_string b (p_offset b k) (p_filesz b k)
        else scan_phdrs b (S k) n'
      else None
  end.

Definition elf_interp_spec (b : str) : option str :=
  if (ehdr_size <=? flen b) && has_magic b && negb (e_phoff b =? 0) && (e_phoff b <? two63)
  then scan_phdrs b 0 (N.to_nat (e_phnum b))
  else None.

(* ---------- a relational reading of the same thing ---------- *)

(* entry j is the deciding one: all earlier entries are inside the file and are
   not PT_INTERP, entry j is inside the file and is PT_INTERP *)
Definition decides (b : str) (j : nat) : Prop :=
  N.of_nat j < e_phnum b /\
  (forall k, (k <= j)%nat -> phdr_inside b k = true) /\
  (forall k, (k < j)%nat -> p_type b k <> pt_interp) /\
  p_type b j = pt_interp.

Definition well_formed_header (b : str) : Prop :=
  ehdr_size <= flen b /\ has_magic b = true /\ e_phoff b <> 0 /\ e_phoff b < two63.

(* ---------- the images the test harness builds (tools/world_common.py,
   elf_image): header, phnum program headers of which the second is PT_INTERP,
   then the interpreter string and its NUL ---------- *)

Fixpoint le_bytes (k : nat) (n : N) : str :=
  match k with
  | O => []
  | S k' => ascii_of_N (n mod 256) :: le_bytes k' (n / 256)
  end.

Definition zeros (n : nat) : str := repeat (ascii_of_N 0) n.

Definition mk_ehdr (phnum : nat) : str :=
  (* e_ident: magic, ELFCLASS64, ELFDATA2LSB, EV_CURRENT, 0, 8 x 0 *)
  [ascii_of_N 127; ascii_of_N 69; ascii_of_N 76; ascii_of_N 70] ++ le_bytes 4 65794 ++ zeros 8
  (* e_type = 2, e_machine = 62, e_version = 1, e_entry = 0 *)
  ++ le_bytes 2 2 ++ le_bytes 2 62 ++ le_bytes 4 1 ++ le_bytes 8 0
  (* e_phoff = 64, e_shoff = 0, e_flags = 0, e_ehsize = 64, e_phentsize = 56 *)
  ++ le_bytes 8 64 ++ le_bytes 8 0 ++ le_bytes 4 0 ++ le_bytes 2 64 ++ le_bytes 2 56
  (* e_phnum, e_shentsize = 64, e_shnum = 0, e_shstrndx = 0 *)
  ++ le_bytes 2 (N.of_nat phnum) ++ le_bytes 2 64 ++ le_bytes 2 0 ++ le_bytes 2 0.

(* p_type, p_flags, p_offset, p_vaddr, p_paddr, p_filesz, p_memsz, p_align *)
Definition mk_phdr (type flags off filesz memsz align : N) : str :=
  le_bytes 4 type ++ le_bytes 4 flags ++ le_bytes 8 off ++ le_bytes 8 0 ++ le_bytes 8 0
  ++ le_bytes 8 filesz ++ le_bytes 8 memsz ++ le_bytes 8 align.

Definition mk_load : str := mk_phdr 1 5 0 100 100 4096.

Definition data_off (phnum : nat) : N := 64 + 56 * N.of_nat phnum.

Definition mk_interp_phdr (interp : str) (phnum : nat) : str :=
  mk_phdr 3 4 (data_off phnum) (N.of_nat (S (length interp))) (N.of_nat (S (length interp))) 1.

(* [ph0; ph1] ++ [ph0] * (phnum - 2), cut to phnum entries: phnum >= 2 is the
   case the harness uses; mk_elf is only specified for it *)
Definition mk_elf (interp : str) (phnum : nat) : str :=
  mk_ehdr phnum ++ mk_load ++ mk_interp_phdr interp phnum
  ++ concat (repeat mk_load (phnum - 2)) ++ interp ++ [ascii_of_N 0].
