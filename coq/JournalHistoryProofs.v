(* C19 "the journal gets one well-formed line per labelled event, append-only",
   handler level, for WHOLE HISTORIES of events.

   Part 1  a small program logic over a class of oracles (all oracles / benign
           oracles) whose invariant is a predicate on the file system together
           with the value of the clock;
   Part 2  the journal invariant JI and, program by program, the fact that
           every handler program keeps it (a generic traversal, parametric in
           the oracle class and in what [note] may do to the journal bytes);
   Part 3  journal_append_only   (EVERY oracle);
   Part 4  journal_whole_lines   (benign oracles: whole lines, the exact lines
           of exec and write events, time stamps at the clock of the event);
   Part 6  reload, separately: it changes the bytes of no existing inode;
   Part 7  Module JournalHistoryExample (a history with every kind of label, a
           one-byte-per-write oracle; a witness that the separation hypothesis
           is needed; an exec event that is not journalled).
   (Part 5, the link with PassProofs.jlines for a pass over plain heads, is in
   JournalHistoryPass.v.) *)
From K Require Import Str Dec Trace Fs World Progs Elf Linq Sieve Handler Hoare Confine Confine2 SyncProofs
     StoreFs StoreLogic DecProofs JournalProofs.
From Coq Require Import Lia.

(* the two definitions of benign oracles in the development are the same *)
Lemma benign_same o : JournalProofs.benign o <-> SyncProofs.benign o.
Proof. split; intros H; exact H. Qed.

(* ====================================================================== *)
(* Part 1: triples relative to a class of oracles                         *)
(* ====================================================================== *)

(* a class of oracles together with what is known when the process dies:
   [oc_cr] is a proposition that holds whenever an oracle of the class crashes
   a call (True for the class of all oracles, False for benign oracles) *)
Record oclass := mkOC {
  oc_in : oracle -> Prop;
  oc_cr : Prop;
  oc_ok : forall o n, oc_in o -> o n = FCrash -> oc_cr
}.

Definition oc_all : oclass := mkOC (fun _ => True) True (fun _ _ _ _ => I).

Lemma benign_no_crash o n : JournalProofs.benign o -> o n = FCrash -> False.
Proof.
  intros H E. destruct (H n) as [E1|[k [_ [E1|E1]]]]; rewrite E in E1; discriminate.
Qed.

Definition oc_benign : oclass := mkOC JournalProofs.benign False benign_no_crash.

Section Logic.
Variables (K : oclass) (t : Z).

(* the invariant of a triple: a predicate on the file system, and the clock shows t *)
Definition wI (P : fs -> Prop) (w : world) : Prop := P (w_fs w) /\ w_clock w = t.

Definition jt {A} (P : fs -> Prop) (R : A -> Prop) (m : M A) : Prop :=
  ht (oc_in K) (wI P) m (fun a w => wI P w /\ R a) (fun w => oc_cr K /\ wI P w).

Definition jok {A} (P : fs -> Prop) (m : M A) : Prop := jt P (fun _ => True) m.

Lemma jt_ret {A} P (R : A -> Prop) a : R a -> jt P R (ret_ a).
Proof. intros H. apply ht_ret. auto. Qed.

Lemma jt_bind {A B} P (R1 : A -> Prop) (R : B -> Prop) (m : M A) (k : A -> M B) :
  jt P R1 m -> (forall a, R1 a -> jt P R (k a)) -> jt P R (bind m k).
Proof.
  intros Hm Hk. eapply ht_bind; [exact Hm|]. intros a o w Ho [Hw Ha]. apply (Hk a Ha o w Ho Hw).
Qed.

Lemma jt_weaken {A} P (R R' : A -> Prop) (m : M A) :
  jt P R m -> (forall a, R a -> R' a) -> jt P R' m.
Proof. intros H Hw. eapply ht_post; [|exact H]. intros a w [H1 H2]. auto. Qed.

Lemma jt_ext {A} P (R : A -> Prop) (m m' : M A) :
  (forall o w, m o w = m' o w) -> jt P R m' -> jt P R m.
Proof. intros E H o w Ho Hw. rewrite E. exact (H o w Ho Hw). Qed.

Lemma jt_of_jok {A} P (m : M A) : jok P m -> jt P (fun _ => True) m.
Proof. intros H. exact H. Qed.

Lemma jok_of_jt {A} P (R : A -> Prop) (m : M A) : jt P R m -> jok P m.
Proof. intros H. eapply jt_weaken; [exact H | auto]. Qed.

Lemma jt_from {A} (P : fs -> Prop) (R : A -> Prop) (m : M A) :
  (forall f, P f -> jt P R m) -> jt P R m.
Proof. intros H o w Ho Hp. exact (H (w_fs w) (proj1 Hp) o w Ho Hp). Qed.

Lemma jok_ret {A} P (a : A) : jok P (ret_ a).
Proof. apply jt_ret. exact I. Qed.

Lemma jok_bind {A B} P (m : M A) (k : A -> M B) :
  jok P m -> (forall a, jok P (k a)) -> jok P (bind m k).
Proof. intros Hm Hk. eapply jt_bind; [exact Hm | intros a _; apply Hk]. Qed.

Lemma jok_bindv {A B} P (R1 : A -> Prop) (m : M A) (k : A -> M B) :
  jt P R1 m -> (forall a, R1 a -> jok P (k a)) -> jok P (bind m k).
Proof. intros Hm Hk. eapply jt_bind; [exact Hm | exact Hk]. Qed.

Lemma jok_from {A} (P : fs -> Prop) (m : M A) : (forall f, P f -> jok P m) -> jok P m.
Proof. apply jt_from. Qed.

(* state-only primitives *)
Lemma jok_get_tr P : jok P get_tr.
Proof. intros o w _ Hw. simpl. auto. Qed.
Lemma jok_set_tr P tr : jok P (set_tr tr).
Proof. intros o w _ Hw. simpl. auto. Qed.
Lemma jt_get_clock P : jt P (fun z => z = t) get_clock.
Proof. intros o w _ Hw. simpl. split; [exact Hw | exact (proj2 Hw)]. Qed.
Lemma jok_get_clock P : jok P get_clock.
Proof. intros o w _ Hw. simpl. auto. Qed.
Lemma jok_get_fs P : jok P get_fs.
Proof. intros o w _ Hw. simpl. auto. Qed.
Lemma jok_transfer_limit P b n : jok P (transfer_limit b n).
Proof. intros o w _ Hw. simpl. auto. Qed.

(* one system call *)
Lemma jt_sys {A} (P : fs -> Prop) (R : A -> Prop) c (perform : fs -> ret * A * fs) on_fail :
  (forall e, R (on_fail e)) ->
  (forall f, P f -> P (snd (perform f)) /\ R (snd (fst (perform f)))) ->
  jt P R (sys c perform on_fail).
Proof.
  intros Hf Hs o w Ho [Hp Hc]. unfold sys.
  specialize (Hs (w_fs w) Hp).
  destruct (o (w_n w)) eqn:E.
  - destruct (perform (w_fs w)) as [[r a] f']. simpl in *. unfold wI. simpl. tauto.
  - unfold wI. simpl. auto.
  - destruct (perform (w_fs w)) as [[r a] f']. simpl in *. unfold wI. simpl. tauto.
  - destruct (perform (w_fs w)) as [[r a] f']. simpl in *. unfold wI. simpl. tauto.
  - split; [exact (oc_ok K o (w_n w) Ho E) | split; assumption].
Qed.

Lemma jok_sys_ro {A} (P : fs -> Prop) c (perform : fs -> ret * A * fs) on_fail :
  (forall f, snd (perform f) = f) -> jok P (sys c perform on_fail).
Proof. intros H. apply jt_sys; [auto|]. intros f Hf. rewrite H. auto. Qed.

Lemma jok_sys_unit (P : fs -> Prop) c op :
  (forall f, P f -> P (snd (op f))) -> jok P (sys_unit c op).
Proof.
  intros H. unfold sys_unit. apply jt_sys; [auto|]. intros f Hf. specialize (H f Hf).
  destruct (op f) as [e f']. simpl in *. auto.
Qed.

Lemma jt_open_gen (P : fs -> Prop) (R : fd + errno -> Prop) c op :
  (forall e, R (inr e)) ->
  (forall f, P f -> P (snd (op f)) /\ R (fst (op f))) ->
  jt P R (k_open_gen c op).
Proof.
  intros Hf H. unfold k_open_gen. apply jt_sys; [exact Hf|]. intros f Hp. specialize (H f Hp).
  destruct (op f) as [r f']. simpl in *. exact H.
Qed.

End Logic.

(* ---------- stepping ---------- *)

Ltac jk_with leaf :=
  repeat (lazymatch goal with
          | |- jok _ _ _ (ret_ _) => apply jok_ret
          | |- jok _ _ _ (bind _ _) => apply jok_bind; [|intros ?]
          | |- jok _ _ _ get_tr => apply jok_get_tr
          | |- jok _ _ _ (set_tr _) => apply jok_set_tr
          | |- jok _ _ _ get_clock => apply jok_get_clock
          | |- jok _ _ _ get_fs => apply jok_get_fs
          | |- jok _ _ _ (transfer_limit _ _) => apply jok_transfer_limit
          | |- jok _ _ _ (mod_tr _) => unfold mod_tr
          | |- jok _ _ _ is_ok => unfold is_ok
          | |- jok _ _ _ (throw _) => unfold throw
          | |- jok _ _ _ (throw_static _) => unfold throw_static
          | |- jok _ _ _ (throw_errno _) => unfold throw_errno
          | |- jok _ _ _ (throw_context _) => unfold throw_context
          | |- jok _ _ _ try_ => unfold try_
          | |- jok _ _ _ finally_ => unfold finally_
          | |- jok _ _ _ (finally_rethrow_static _) => unfold finally_rethrow_static
          | |- jok _ _ _ (rethrow_context _) => unfold rethrow_context
          | |- jok _ _ _ (catch_static _) => unfold catch_static
          | |- jok _ _ _ (when_ok _ _) => unfold when_ok
          | |- jok _ _ _ (match ?x with _ => _ end) => destruct x
          | |- jok _ _ _ (if ?b then _ else _) => destruct b
          | |- jok _ _ _ (let '(_, _) := ?x in _) => destruct x
          | |- jok _ _ _ _ => leaf
          end).

Ltac jv :=
  repeat (lazymatch goal with
          | |- jt _ _ _ _ (ret_ _) => apply jt_ret
          | |- jt _ _ _ _ (bind _ _) => eapply jt_bind; [|intros ? ?]
          | |- jt _ _ _ _ (when_ok _ _) => unfold when_ok
          | |- jt _ _ _ _ (match ?x with _ => _ end) => destruct x
          | |- jt _ _ _ _ (if ?b then _ else _) => destruct b
          | |- jt _ _ _ _ (let '(_, _) := ?x in _) => destruct x
          end).

(* ---------- programs that only read: any predicate ---------- *)

Section Any.
Variables (K : oclass) (t : Z) (P : fs -> Prop).
Notation jok := (jok K t P).

Lemma jok_close : jok k_close.
Proof. apply jok_sys_unit. auto. Qed.
Lemma jok_open_read p : jok (k_open_read p).
Proof. apply jok_of_jt with (R := fun _ => True). apply jt_open_gen; auto. Qed.
Lemma jok_open_dir p : jok (k_open_dir p).
Proof. apply jok_of_jt with (R := fun _ => True). apply jt_open_gen; auto. Qed.
Lemma jok_fstat d : jok (k_fstat d).
Proof. apply jok_sys_ro. reflexivity. Qed.
Lemma jok_access p : jok (k_access p).
Proof. apply jok_sys_ro. intros f. destruct (fs_exists p f); reflexivity. Qed.
Lemma jok_read1 i pos : jok (k_read1 i pos).
Proof. apply jok_sys_ro. intros f. destruct (nth_error _ _); reflexivity. Qed.
Lemma jok_read_dir : jok (sys (CRead 1) (fun f => (RErr EISDIR, @inr (option ascii) _ EISDIR, f)) (fun e => inr e)).
Proof. apply jok_sys_ro. reflexivity. Qed.
Lemma jok_scandir p : jok (k_scandir p).
Proof. apply jok_sys_ro. intros f. destruct (fs_scandir p f); reflexivity. Qed.
Lemma jok_fts r p : jok (k_fts r p).
Proof. apply jok_sys_ro. reflexivity. Qed.
Lemma jok_readlinkat d n s : jok (k_readlinkat d n s).
Proof. apply jok_sys_ro. intros f. destruct (fs_readlink _ f); reflexivity. Qed.
Lemma jok_fstatat d n : jok (k_fstatat_mtime d n).
Proof. apply jok_sys_ro. intros f. destruct (fs_lstat_mtime _ f); reflexivity. Qed.
Lemma jok_read_at i pos want : jok (k_read_at i pos want).
Proof. apply jok_sys_ro. reflexivity. Qed.

Ltac jleaf0 :=
  first [ apply jok_close | apply jok_open_read | apply jok_open_dir | apply jok_fstat | apply jok_access
        | apply jok_read1 | apply jok_read_dir | apply jok_scandir | apply jok_fts | apply jok_readlinkat
        | apply jok_fstatat | apply jok_read_at ].
Ltac jk := jk_with jleaf0.

Lemma jok_read_digits fuel : forall d pos acc, jok (read_digits fuel d pos acc).
Proof.
  induction fuel as [|fuel IH]; intros d pos acc; simpl; [apply jok_ret|].
  apply jok_bind.
  - destruct d; [apply jok_read1 | apply jok_read_dir].
  - intros r. destruct r as [[ch|]|e]; jk. apply IH.
Qed.

Lemma jok_read_counter p : jok (read_counter p).
Proof. unfold read_counter, file_len. jk. all: apply jok_read_digits. Qed.

Lemma jok_get_timestamp p : jok (get_timestamp p).
Proof. unfold get_timestamp. jk. Qed.

Lemma jok_read_entry_loop fuel : forall dir name size, jok (read_entry_loop fuel dir name size).
Proof.
  induction fuel as [|fuel IH]; intros dir name size; simpl; [apply jok_ret|].
  jk. apply IH.
Qed.

Lemma jok_read_entry q name : jok (read_entry q name).
Proof. unfold read_entry. jk. apply jok_read_entry_loop. Qed.

Lemma jok_fill_bag q names : forall bag, jok (fill_bag q names bag).
Proof.
  induction names as [|n names IH]; intros bag; simpl; [apply jok_ret|].
  jk; try apply jok_read_entry. apply IH.
Qed.

Lemma jok_read_full i pos want : jok (read_full i pos want).
Proof. unfold read_full. jk. Qed.

Lemma jok_phdr_loop count : forall i pos, jok (phdr_loop count i pos).
Proof.
  induction count as [|count IH]; intros i pos; simpl; [apply jok_ret|].
  jk; try apply jok_read_full. apply IH.
Qed.

Lemma jok_get_elf_interpreter i : jok (get_elf_interpreter i).
Proof.
  unfold get_elf_interpreter, get_elf_interpreter_raw. jk; try apply jok_read_full.
  apply jok_phdr_loop.
Qed.

End Any.

Ltac jleaf1 :=
  first [ apply jok_close | apply jok_open_read | apply jok_open_dir | apply jok_fstat | apply jok_access
        | apply jok_read1 | apply jok_read_dir | apply jok_scandir | apply jok_fts | apply jok_readlinkat
        | apply jok_fstatat | apply jok_read_at
        | apply jok_read_digits | apply jok_read_counter | apply jok_get_timestamp
        | apply jok_read_entry_loop | apply jok_read_entry | apply jok_fill_bag
        | apply jok_read_full | apply jok_phdr_loop | apply jok_get_elf_interpreter ].

(* ---------- programs that only add directories and symlinks ---------- *)

(* what push_to_linq answers: queued or not *)
Definition push_answer (h : handler) (pid : N) (path : str) : bool :=
  fst (fst (push_decision (c_rules (h_cfg h)) (h_cpl h) (pid_mem pid (h_pids h)) path)).

Section Mk.
Variables (K : oclass) (t : Z) (P : fs -> Prop).
Hypothesis HP : cl_add P.
Notation jok := (jok K t P).
Notation jt := (jt K t P).

Ltac jk := jk_with jleaf1.
Ltac jvok := solve [apply jt_of_jok; jk].

Lemma jok_mkdir p : jok (k_mkdir p).
Proof. apply jok_sys_unit. intros f. apply P_mkdir. exact HP. Qed.
Lemma jok_mkdirat d r : jok (k_mkdirat d r).
Proof. apply jok_sys_unit. intros f. apply P_mkdir. exact HP. Qed.
Lemma jok_symlinkat tg d n : jok (k_symlinkat tg d n).
Proof. unfold k_symlinkat. jk. apply jok_sys_unit. intros f. apply P_symlink. exact HP. Qed.

Lemma jok_mkdir_all ds : jok (mkdir_all ds).
Proof.
  induction ds as [|d ds IH]; simpl; [apply jok_ret|].
  apply jok_bind; [apply jok_mkdir|]. intros r.
  destruct r as [e|]; [destruct e|]; try exact IH; jk.
Qed.

Lemma jok_create_parents p : jok (create_parents p).
Proof. unfold create_parents. jk. apply jok_mkdir_all. Qed.

Lemma jt_q_push path meta q : jt (fun q' => q_dir q' = q_dir q) (q_push path meta q).
Proof.
  unfold q_push. jv; try reflexivity; try jvok.
  apply jt_of_jok. apply jok_symlinkat.
Qed.

(* what push_to_linq leaves unchanged in the handler, and its answer *)
Definition same_hp (h h' : handler) : Prop :=
  same_h h h' /\ h_cpl h' = h_cpl h /\ h_pids h' = h_pids h /\ h_interps h' = h_interps h.

Lemma same_hp_refl h : same_hp h h.
Proof. repeat split. Qed.

(* the part of push_to_linq behind its `if (!ok(trace)) return` *)
Definition push_body (pid : N) (path : str) (h : handler) : M (bool * handler) :=
  let '(pushed, is_hist, pre) :=
    push_decision (c_rules (h_cfg h)) (h_cpl h) (pid_mem pid (h_pids h)) path in
  if negb pushed then ret_ (false, h)
  else
    try_;;
    do q1 <- q_push path (linq_meta is_hist pre) (h_q h);
    rethrow_context path;;
    finally_rethrow_static M_linq_cannot_push;;
    match pre with
    | None => ret_ (true, set_q q1 h)
    | Some k =>
        let root := firstn k path in
        try_;;
        do q2 <- q_push root 1%N q1;
        rethrow_context root;;
        finally_rethrow_static M_linq_cannot_push;;
        ret_ (true, set_q q2 h)
    end.

Lemma push_to_linq_body pid path h :
  push_to_linq pid path h = when_ok (false, h) (push_body pid path h).
Proof. reflexivity. Qed.

Lemma jt_push_body pid path h :
  jt (fun r => same_hp h (snd r) /\ fst r = push_answer h pid path) (push_body pid path h).
Proof.
  unfold push_body, push_answer.
  destruct (push_decision _ _ _ _) as [[pushed is_hist] pre]. cbn [fst].
  destruct pushed; cbn [negb]; [|apply jt_ret; split; [apply same_hp_refl | reflexivity]].
  eapply jt_bind; [jvok|intros ? _].
  eapply jt_bind; [apply jt_q_push|intros q1 Hq1].
  eapply jt_bind; [jvok|intros ? _].
  eapply jt_bind; [jvok|intros ? _].
  destruct pre as [k|].
  - eapply jt_bind; [jvok|intros ? _].
    eapply jt_bind; [apply jt_q_push|intros q2 Hq2].
    eapply jt_bind; [jvok|intros ? _].
    eapply jt_bind; [jvok|intros ? _].
    apply jt_ret. split; [|reflexivity]. repeat split; simpl. congruence.
  - apply jt_ret. split; [|reflexivity]. repeat split; simpl. assumption.
Qed.

Lemma jt_push_to_linq pid path h :
  jt (fun r => same_hp h (snd r)) (push_to_linq pid path h).
Proof.
  rewrite push_to_linq_body. unfold when_ok.
  eapply jt_bind; [jvok|intros b _].
  destruct b; [|apply jt_ret; apply same_hp_refl].
  eapply jt_weaken; [apply jt_push_body|]. intros r [H _]. exact H.
Qed.

Lemma jt_load_linq_aux fuel : forall tc path deb lg,
  jt (some_dir path) (load_linq_aux tc fuel path deb lg).
Proof.
  induction fuel as [|fuel IH]; intros tc path deb lg.
  - simpl. jv; try jvok; try (intros q Hq; discriminate).
    all: try (intros q Hq; inversion Hq; reflexivity).
    all: try exact I.
  - simpl. jv; try jvok; try (intros q Hq; discriminate).
    all: try (intros q Hq; inversion Hq; reflexivity).
    all: try exact I.
    all: try (apply jt_of_jok; apply jok_create_parents).
    all: try (apply jt_of_jok; apply jok_mkdir).
    all: try apply IH.
Qed.

Lemma jt_load_linq path deb lg : jt (some_dir path) (load_linq path deb lg).
Proof. apply jt_load_linq_aux. Qed.

(* open_journal and reload, for predicates that opening a file with O_CREAT keeps *)
Hypothesis HPo : forall p f, P f -> P (snd (fs_open_create p f)).

Lemma jok_open_a p : jok (k_open_a p).
Proof.
  apply jok_of_jt with (R := fun _ => True). apply jt_open_gen; [auto|].
  intros f Hf. split; [apply HPo; exact Hf | exact I].
Qed.

Lemma jok_open_journal path pat : jok (open_journal path pat).
Proof.
  unfold open_journal. destruct path as [p|]; [|apply jok_ret].
  apply jok_bind; [apply jok_create_parents|intros ?].
  apply jok_bind; [jk|intros b]. destruct (negb b); [apply jok_ret|].
  apply jok_bind; [apply jok_open_a|intros r]. jk.
Qed.

Lemma jt_reload nc h : jt (fun h' => h_cfg_path h' = h_cfg_path h) (reload nc h).
Proof.
  unfold reload. destruct (h_cfg_path h) as [cp|] eqn:Ecp; [|apply jt_ret; exact Ecp].
  eapply jt_bind; [jvok|intros ? _].
  eapply jt_bind; [apply jt_of_jok; destruct nc; jk|intros ? _].
  eapply jt_bind; [jvok|intros ? _].
  eapply jt_bind; [jvok|intros ? _].
  destruct nc as [n|]; [|apply jt_ret; exact Ecp].
  eapply jt_bind; [jvok|intros b _].
  eapply jt_bind with (R1 := fun _ => True).
  { destruct (b && negb (str_eqb (c_queue_path (h_cfg h)) (c_queue_path n))); [|apply jt_ret; exact I].
    eapply jt_bind; [jvok|intros ? _].
    eapply jt_bind; [apply jt_load_linq|intros q _].
    eapply jt_bind; [jvok|intros ? _].
    eapply jt_bind; [jvok|intros ? _].
    apply jt_ret. exact I. }
  intros nq _.
  eapply jt_bind; [jvok|intros b2 _].
  eapply jt_bind with (R1 := fun _ => True).
  { destruct b2; [|apply jt_ret; exact I].
    eapply jt_bind; [jvok|intros ? _].
    eapply jt_bind; [apply jt_of_jok; apply jok_open_journal|intros jj _].
    eapply jt_bind; [apply jt_of_jok; destruct (c_journal_path n); jk|intros ? _].
    eapply jt_bind; [jvok|intros ? _].
    apply jt_ret. exact I. }
  intros nj _.
  eapply jt_bind; [jvok|intros b3 _].
  destruct b3; [|apply jt_ret; exact Ecp].
  eapply jt_bind; [apply jt_of_jok; destruct (h_journal h); jk|intros ? _].
  eapply jt_bind; [apply jt_of_jok; destruct nq; jk|intros ? _].
  apply jt_ret. cbn [h_cfg_path]. reflexivity.
Qed.

End Mk.

(* ====================================================================== *)
(* Part 2: the journal invariant; every handler program keeps it          *)
(* ====================================================================== *)

(* What is assumed about the file system.  The journal inode j is an
   allocated inode, and no name below the offset root leads to it: offset
   files are the only files klunok opens for writing without O_EXCL / O_APPEND
   (write_counter truncates them). *)
Definition jsep (c : config) (j : nat) (f : fs) : Prop :=
  j < fs_next f /\ forall q, dent f q (NFile j) -> ~ under (c_offset_root c) q.

(* ... and its bytes satisfy G *)
Definition JI (c : config) (j : nat) (G : str -> Prop) (f : fs) : Prop :=
  jsep c j f /\ G (f_bytes (get_file f j)).

(* What is assumed about the configuration: hard links are made into the
   project store and into the unstable project tree; these do not nest with
   the offset root (so no hard link to the journal can appear below it). *)
Definition joff_ok (c : config) : Prop :=
  nn (c_project_store_root c) (c_offset_root c) /\ nn (c_unstable_root c) (c_offset_root c).

Lemma joff_ok_of_dl c : disjoint_locs c -> joff_ok c.
Proof. intros D. split; [apply dl_pstore_off | apply dl_unst_off]; exact D. Qed.

Section JFs.
Variables (c : config) (j : nat) (G : str -> Prop).
Notation JI := (JI c j G).

Lemma JI_frame f f' :
  JI f -> fs_next f <= fs_next f' ->
  (forall q, dent f' q (NFile j) -> dent f q (NFile j) \/ ~ under (c_offset_root c) q) ->
  get_file f' j = get_file f j -> JI f'.
Proof.
  intros [[H1 H2] H3] Hn Hd Hg. split; [split|].
  - lia.
  - intros q Hq. destruct (Hd q Hq) as [A|A]; [exact (H2 q A) | exact A].
  - rewrite Hg. exact H3.
Qed.

Lemma JI_add_other p n f : (forall i, n <> NFile i) -> JI f -> JI (add_dent p n f).
Proof.
  intros Hn H. apply (JI_frame f); [exact H | simpl; lia | | reflexivity].
  intros q Hq. destruct (dent_add _ _ _ _ _ Hq) as [A|[_ E]]; [left; exact A|].
  exfalso. apply (Hn j). symmetry. exact E.
Qed.

Lemma JI_cl_add : cl_add JI.
Proof. intros f p n. apply JI_add_other. Qed.

Lemma JI_del p f : JI f -> JI (del_dent p f).
Proof.
  intros H. apply (JI_frame f); [exact H | simpl; lia | | reflexivity].
  intros q Hq. left. eapply dent_del. exact Hq.
Qed.

Lemma JI_rmdir p f : JI f -> JI (snd (fs_rmdir p f)).
Proof.
  intros H. unfold fs_rmdir. destruct (lookup f p) as [[| |]|]; try exact H.
  destruct (children f p); [|exact H]. simpl. apply JI_del. exact H.
Qed.

Lemma JI_unlink p f : JI f -> JI (snd (fs_unlink p f)).
Proof.
  intros H. unfold fs_unlink. destruct (lookup f p) as [[| |]|]; try exact H; simpl; apply JI_del; exact H.
Qed.

Lemma JI_set_other i x f : i <> j -> JI f -> JI (set_file i x f).
Proof.
  intros Hi H. apply (JI_frame f); [exact H | simpl; lia | intros q Hq; left; exact Hq|].
  apply get_file_set_other. auto.
Qed.

Lemma JI_append_other i b f : i <> j -> JI f -> JI (fs_append i b f).
Proof. intros Hi H. unfold fs_append. apply JI_set_other; assumption. Qed.

Lemma JI_truncate_other i f : i <> j -> JI f -> JI (fs_truncate i f).
Proof. intros Hi H. unfold fs_truncate. apply JI_set_other; assumption. Qed.

Lemma JI_created p f : JI f -> JI (created p f).
Proof.
  intros H. pose proof H as [[Hlt _] _].
  apply (JI_frame f); [exact H | simpl; lia | |].
  - intros q Hq. destruct (dent_created _ _ _ _ Hq) as [A|[_ E]]; [left; exact A|].
    inversion E. lia.
  - apply get_file_created_other. lia.
Qed.

(* O_CREAT|O_EXCL: on success the inode is fresh, hence not the journal *)
Lemma JI_create_excl p f :
  JI f -> JI (snd (fs_create_excl p f)) /\ (forall i, fst (fs_create_excl p f) = inl (FdFile i) -> i <> j).
Proof.
  intros H. unfold fs_create_excl. destruct (lookup f p) eqn:E.
  - simpl. split; [exact H | intros i Hi; discriminate].
  - destruct (parent_is_dir f p).
    + simpl. split; [exact H | intros i Hi; discriminate].
    + simpl. split; [apply (JI_created p f H)|].
      intros i Hi. inversion Hi; subst. destruct H as [[Hlt _] _]. lia.
Qed.

(* O_CREAT without O_EXCL on a path below the offset root *)
Lemma JI_open_create_off p f :
  under (c_offset_root c) p -> JI f ->
  JI (snd (fs_open_create p f)) /\ (forall i, fst (fs_open_create p f) = inl (FdFile i) -> i <> j).
Proof.
  intros Hu H. unfold fs_open_create. destruct (lookup f p) as [[|k|]|] eqn:E.
  - simpl. split; [exact H | intros i Hi; discriminate].
  - simpl. split; [exact H|]. intros i Hi. inversion Hi; subst. intros ->.
    destruct H as [[_ Hs] _]. exact (Hs p (lookup_dent _ _ _ E) Hu).
  - simpl. split; [exact H | intros i Hi; discriminate].
  - apply JI_create_excl. exact H.
Qed.

(* O_CREAT without O_EXCL on any path (nothing is written yet) *)
Lemma JI_open_create_any p f : JI f -> JI (snd (fs_open_create p f)).
Proof.
  intros H. unfold fs_open_create. destruct (lookup f p) as [[|k|]|]; try exact H.
  apply (JI_create_excl p f H).
Qed.

(* link(2) to a name that is not below the offset root *)
Lemma JI_link a b f : ~ under (c_offset_root c) b -> JI f -> JI (snd (fs_link a b f)).
Proof.
  intros Hb H. unfold fs_link.
  destruct (lookup f a) as [[|k|tg m]|] eqn:E; try exact H.
  - destruct (lookup f b); [exact H|]. destruct (parent_is_dir f b); [exact H|]. simpl.
    apply (JI_frame f); [exact H | simpl; lia | | reflexivity].
    intros q Hq. destruct (dent_add _ _ _ _ _ Hq) as [A|[-> _]]; [left; exact A | right; exact Hb].
  - destruct (lookup f b); [exact H|]. destruct (parent_is_dir f b); [exact H|]. simpl.
    apply JI_add_other; [discriminate | exact H].
Qed.

(* the journal inode itself is written: G must allow it *)
Lemma JI_append_journal b f :
  (forall x, G x -> G (x ++ b)) -> JI f -> JI (fs_append j b f).
Proof.
  intros HG [[H1 H2] H3]. unfold fs_append. split; [split|].
  - simpl. exact H1.
  - exact H2.
  - rewrite get_set_same. simpl. apply HG. exact H3.
Qed.

End JFs.

Lemma JI_weaken c j (G G' : str -> Prop) f : (forall b, G b -> G' b) -> JI c j G f -> JI c j G' f.
Proof. intros H [H1 H2]. split; [exact H1 | apply H; exact H2]. Qed.

(* ---------- the traversal ---------- *)

Section Trav.
Variables (K : oclass) (t : Z) (c : config) (jn : journal) (G : str -> Prop).
(* which (label, pid) pairs [note] is prepared to write *)
Variable LB : option str -> N -> Prop.
Hypothesis HC : joff_ok c.

Notation j := (j_ino jn).
Notation P := (JI c (j_ino jn) G).
Notation jok := (jok K t P).
Notation jt := (jt K t P).

Hypothesis Hnote : forall ev pid path, LB ev pid -> jok (note ev pid path (Some jn)).

Lemma P_add : cl_add P.
Proof. apply JI_cl_add. Qed.

Lemma not_off_pstore x : under (c_project_store_root c) x -> ~ under (c_offset_root c) x.
Proof. intros H1 H2. destruct HC as [A _]. exact (nn_under _ _ _ A H1 H2). Qed.

Lemma not_off_unst x : under (c_unstable_root c) x -> ~ under (c_offset_root c) x.
Proof. intros H1 H2. destruct HC as [_ A]. exact (nn_under _ _ _ A H1 H2). Qed.

(* ---------- primitive calls ---------- *)

Lemma jok_rmdir p : jok (k_rmdir p).
Proof. apply jok_sys_unit. intros f. apply JI_rmdir. Qed.

Lemma jok_unlink p : jok (k_unlink p).
Proof. apply jok_sys_unit. intros f. apply JI_unlink. Qed.

Lemma jok_unlinkat d n : jok (k_unlinkat d n).
Proof. apply jok_sys_unit. intros f. apply JI_unlink. Qed.

Lemma jt_open_excl p : jt (fun r => forall i, r = inl (FdFile i) -> i <> j) (k_open_excl p).
Proof.
  apply jt_open_gen; [intros e i E; discriminate|].
  intros f Hf. apply JI_create_excl. exact Hf.
Qed.

Lemma jt_open_w p :
  under (c_offset_root c) p -> jt (fun r => forall i, r = inl (FdFile i) -> i <> j) (k_open_w p).
Proof.
  intros Hu. apply jt_open_gen; [intros e i E; discriminate|].
  intros f Hf. apply JI_open_create_off; assumption.
Qed.

Lemma jok_write i b : i <> j -> jok (k_write i b).
Proof.
  intros H. unfold k_write. apply jok_bind; [apply jok_transfer_limit|intros lim].
  apply jt_sys; [auto|]. intros f Hf. simpl. split; [apply JI_append_other; assumption | exact I].
Qed.

Lemma jok_sendfile out inp off n : out <> j -> jok (k_sendfile out inp off n).
Proof.
  intros H. unfold k_sendfile. apply jok_bind; [apply jok_transfer_limit|intros lim].
  apply jt_sys; [auto|]. intros f Hf. simpl. split; [apply JI_append_other; assumption | exact I].
Qed.

Lemma jok_ftruncate i : i <> j -> jok (k_ftruncate i).
Proof. intros H. apply jok_sys_unit. intros f Hf. simpl. apply JI_truncate_other; assumption. Qed.

Lemma jok_link a b : ~ under (c_offset_root c) b -> jok (k_link a b).
Proof. intros Hb. apply jok_sys_unit. intros f Hf. apply JI_link; assumption. Qed.

Lemma jok_linkat a d r : ~ under (c_offset_root c) (join d r) -> jok (k_linkat a d r).
Proof. intros Hb. apply jok_sys_unit. intros f Hf. apply JI_link; assumption. Qed.

Ltac jleaf2 :=
  first [ jleaf1 | apply jok_rmdir | apply jok_unlink | apply jok_unlinkat
        | apply jok_mkdir; exact P_add | apply jok_mkdirat; exact P_add
        | apply jok_symlinkat; exact P_add
        | apply jok_create_parents; exact P_add
        | apply jok_write; assumption | apply jok_sendfile; assumption
        | apply jok_ftruncate; assumption
        | apply jok_link; assumption | apply jok_linkat; assumption ].
Ltac jk := jk_with jleaf2.
Ltac jvok := solve [apply jt_of_jok; jk].

(* ---------- parents.c, clean_up ---------- *)

Lemma jok_rmdir_up ds : jok (rmdir_up ds).
Proof.
  induction ds as [|d ds IH]; simpl; [apply jok_ret|].
  apply jok_bind; [apply jok_rmdir|]. intros r.
  destruct r as [e|]; [destruct e|]; try exact IH; jk.
Qed.

Lemma jok_remove_empty_parents p : jok (remove_empty_parents p).
Proof. unfold remove_empty_parents. jk. apply jok_rmdir_up. Qed.

Lemma jok_clean_up p : jok (clean_up p).
Proof. unfold clean_up. jk. apply jok_remove_empty_parents. Qed.

(* ---------- counter.c ---------- *)

Lemma jok_write_digits i ds : i <> j -> jok (write_digits i ds).
Proof.
  intros Hi. induction ds as [|ch ds IH]; simpl; [apply jok_ret|].
  jk. exact IH.
Qed.

Lemma jok_write_counter p n : under (c_offset_root c) p -> jok (write_counter p n).
Proof.
  intros Hu. unfold write_counter, when_ok.
  apply jok_bind; [jk|intros b0]. destruct b0; [|apply jok_ret].
  destruct (n =? 0)%N.
  - jk. apply jok_remove_empty_parents.
  - apply jok_bind; [apply jok_create_parents; exact P_add|intros ?].
    apply jok_bind; [jk|intros b]. destruct b; [|apply jok_ret].
    eapply jok_bindv; [apply jt_open_w; exact Hu|intros r Hr].
    destruct r as [[i|d]|e]; [|jk|jk].
    pose proof (Hr i eq_refl) as Hi. jk. apply jok_write_digits. assumption.
Qed.

(* ---------- sync.c ---------- *)

Lemma jok_sendfile_loop fuel : forall out inp off size,
  out <> j -> jok (sendfile_loop fuel out inp off size).
Proof.
  induction fuel as [|fuel IH]; intros out inp off size Ho; simpl; [apply jok_ret|].
  destruct size; [apply jok_ret|].
  apply jok_bind; [apply jok_sendfile; assumption|]. intros r.
  destruct r as [[|w]|e]; jk. apply IH. assumption.
Qed.

Lemma jok_sync_file dst src off : jok (sync_file dst src off).
Proof.
  unfold sync_file, when_ok.
  apply jok_bind; [jk|intros b0]. destruct b0; [|apply jok_ret].
  apply jok_bind; [apply jok_create_parents; exact P_add|intros ?].
  apply jok_bind; [jk|intros b]. destruct (negb b); [jk; apply jok_clean_up|].
  apply jok_bind; [apply jok_open_read|intros rin].
  destruct rin as [ind|e]; [|destruct e; jk; apply jok_clean_up].
  eapply jok_bindv; [apply jt_open_excl|intros rout Hr].
  destruct rout as [[out|d]|e]; [|apply jok_ret|destruct e; jk; apply jok_clean_up].
  pose proof (Hr out eq_refl) as Hino.
  apply jok_bind; [apply jok_fstat|intros st].
  destruct st as [[[|] size]|e]; [| jk; apply jok_clean_up | jk; apply jok_clean_up].
  apply jok_bind; [apply jok_sendfile_loop; assumption|intros r].
  destruct r as [off'|]; jk; apply jok_clean_up.
Qed.

(* ---------- journal.c ---------- *)

Lemma jok_record_event ev pid path h :
  h_journal h = Some jn -> LB ev pid -> jok (record_event ev pid path h).
Proof. intros E HL. unfold record_event. rewrite E. jk. apply Hnote. exact HL. Qed.

(* ---------- the queue ---------- *)

Lemma jt_q_pop_head q : jt (fun q' => q_dir q' = q_dir q) (q_pop_head q).
Proof. unfold q_pop_head. jv; try reflexivity; try jvok. Qed.

Lemma jt_q_get_head fuel : forall q, jt (fun r => q_dir (snd r) = q_dir q) (q_get_head fuel q).
Proof.
  induction fuel as [|fuel IH]; intros q; simpl.
  - jv; try reflexivity; try jvok.
  - jv; try reflexivity; try jvok.
    + apply jt_q_pop_head.
    + match goal with H : (fun q' : qmem => _) _ |- _ => simpl in H; rename H into Hq end.
      eapply jt_weaken; [apply IH|].
      intros r Hr. simpl in Hr. congruence.
Qed.

(* ---------- sync_shallow_tree ---------- *)

Lemma jok_tree_loop ents : forall src_len dst filt,
  (forall rel, ~ under (c_offset_root c) (join dst rel)) ->
  jok (tree_loop ents src_len dst filt).
Proof.
  induction ents as [|[p k] ents IH]; intros src_len dst filt Hd; simpl; [apply jok_ret|].
  assert (Hj : ~ under (c_offset_root c) (join dst (skipn (S src_len) p))) by apply Hd.
  assert (IH' : jok (tree_loop ents src_len dst filt)) by (apply IH; assumption).
  jk; exact IH'.
Qed.

Lemma jok_sync_shallow_tree rev dst src filt :
  dst <> root_path -> under (c_project_store_root c) dst ->
  jok (sync_shallow_tree rev dst src filt).
Proof.
  intros Hd1 Hd2. unfold sync_shallow_tree.
  assert (Hd : forall rel, ~ under (c_offset_root c) (join dst rel)).
  { intros rel. rewrite (join_ne _ _ Hd1). apply not_off_pstore.
    eapply under_trans; [exact Hd2 | exists rel; reflexivity]. }
  apply jok_bind; [apply jok_create_parents; exact P_add|intros ?].
  apply jok_bind; [jk|intros b].
  apply jok_bind; [jk|intros ?].
  apply jok_bind; [jk|intros b1].
  apply jok_bind; [jk|intros opened].
  apply jok_bind; [jk|intros b2].
  destruct (negb b2).
  - jk; apply jok_clean_up.
  - apply jok_bind; [apply jok_fts|intros r].
    apply jok_bind.
    + destruct r as [ents|e]; [apply jok_tree_loop; exact Hd | destruct e; jk].
    + intros ?. jk. apply jok_clean_up.
Qed.

(* ---------- handle_timeout ---------- *)

Lemma current_path_under root sp : spI root sp -> under root (current_path sp).
Proof. intros H. destruct (current_path_inside root sp H) as [r Hr]. exists r. exact Hr. Qed.

(* the labels of a timeout pass *)
Definition lbl3 (ev : option str) : Prop :=
  ev = c_ev_stored c \/ ev = c_ev_deleted c \/ ev = c_ev_forbidden c.

Lemma jt_project_store_loop fuel : forall rev sp unstable head ev,
  spI (c_project_store_root c) sp -> lbl3 ev ->
  jt lbl3 (project_store_loop fuel rev sp unstable head c ev).
Proof.
  induction fuel as [|fuel IH]; intros rev sp unstable head ev Hs Hev; simpl; [apply jt_ret; exact Hev|].
  eapply jt_bind; [jvok|intros b _]. destruct (negb b); [apply jt_ret; exact Hev|].
  eapply jt_bind; [jvok|intros ? _].
  eapply jt_bind.
  { apply jt_of_jok. apply jok_sync_shallow_tree.
    - eapply current_path_ne_root; eauto.
    - apply current_path_under. assumption. }
  intros ? _.
  eapply jt_bind; [jvok|intros c1 _]. destruct c1.
  - eapply jt_bind; [jvok|intros ? _]. apply IH; auto using spI_increment.
  - eapply jt_bind; [jvok|intros c2 _].
    eapply jt_bind with (R1 := lbl3).
    + destruct c2; [apply jt_ret; right; left; reflexivity|].
      eapply jt_bind; [jvok|intros c3 _].
      destruct c3; [apply jt_ret; right; right; reflexivity | apply jt_ret; exact Hev].
    + intros ev' Hev'. eapply jt_bind; [jvok|intros ? _]. apply jt_ret. exact Hev'.
Qed.

Lemma jt_file_store_loop fuel : forall sp head offp off ish root,
  spI root sp -> under (c_offset_root c) offp ->
  jt (fun r => spI root (snd r) /\ lbl3 (fst (fst r))) (file_store_loop fuel sp head offp off ish c).
Proof.
  induction fuel as [|fuel IH]; intros sp head offp off ish root Hs Ho; simpl;
    [apply jt_ret; split; [exact Hs | left; reflexivity]|].
  eapply jt_bind; [jvok|intros ? _].
  eapply jt_bind; [apply jt_of_jok; apply jok_sync_file|intros no _].
  eapply jt_bind; [jvok|intros c1 _].
  eapply jt_bind; [apply jt_of_jok; destruct c1; jk|intros c2 _].
  destruct c2.
  { eapply jt_bind; [jvok|intros ? _]. apply jt_ret. split; [exact Hs | right; left; reflexivity]. }
  eapply jt_bind; [jvok|intros c3 _]. destruct c3.
  { eapply jt_bind; [jvok|intros ? _]. apply jt_ret. split; [exact Hs | right; right; reflexivity]. }
  eapply jt_bind; [jvok|intros c4 _]. destruct c4.
  - apply IH; auto using spI_increment.
  - eapply jt_bind; [apply jt_of_jok; apply jok_write_counter; assumption|intros ? _].
    eapply jt_bind; [jvok|intros ? _].
    eapply jt_bind; [jvok|intros ? _].
    apply jt_ret. split; [exact Hs | left; reflexivity].
Qed.

(* what stays fixed about the handler over a history without reload *)
Definition HJ (cp : option str) (h : handler) : Prop :=
  h_cfg h = c /\ h_journal h = Some jn /\ h_cfg_path h = cp.

Lemma HJ_set_q cp q h : HJ cp h -> HJ cp (set_q q h).
Proof. intros H. exact H. Qed.

Hypothesis HLB3 : forall ev, lbl3 ev -> LB ev 0%N.

Lemma jt_handle_timeout_loop cp fuel : forall rev h,
  HJ cp h -> jt (fun r => HJ cp (snd r)) (handle_timeout_loop fuel rev h).
Proof.
  induction fuel as [|fuel IH]; intros rev h Hh; cbn [handle_timeout_loop]; [apply jt_ret; assumption|].
  eapply jt_bind; [jvok|intros b _]. destruct (negb b); [apply jt_ret; assumption|].
  eapply jt_bind; [jvok|intros ? _].
  eapply jt_bind; [apply jt_q_get_head|intros r Hr].
  eapply jt_bind; [jvok|intros ? _].
  destruct r as [hd q1]. simpl in Hr.
  assert (Hh1 : HJ cp (set_q q1 h)) by (apply HJ_set_q; assumption).
  set (h1 := set_q q1 h) in *.
  eapply jt_bind; [jvok|intros b1 _].
  destruct b1; [|apply jt_ret; assumption].
  destruct hd as [[z|path meta]|]; [apply jt_ret; assumption| |apply jt_ret; assumption].
  pose proof Hh1 as [Ecfg [Ej Ecp]].
  rewrite Ecfg.
  eapply jt_bind; [jvok|intros v _].
  eapply jt_bind; [jvok|intros bv _].
  eapply jt_bind; [apply jt_of_jok; destruct v; [destruct bv; [destruct (existsb is_slash s)|]|]; jk|intros ? _].
  eapply jt_bind; [jvok|intros b2 _].
  destruct v as [version|]; [|apply jt_ret; assumption].
  destruct b2; [|apply jt_ret; assumption].
  match goal with |- JournalHistoryProofs.jt _ _ _ _ (if ?x then _ else _) => destruct x end.
  { eapply jt_bind; [jvok|intros ? _]. eapply jt_bind; [jvok|intros ? _]. apply jt_ret. assumption. }
  destruct (N.odd meta).
  - (* project head *)
    eapply jt_bind; [jvok|intros f _].
    eapply jt_bind.
    + apply jt_project_store_loop; [apply spI_create | left; reflexivity].
    + intros ev Hev.
      eapply jt_bind; [apply jt_of_jok; apply jok_record_event; [exact Ej | apply HLB3; exact Hev]|intros ? _].
      eapply jt_bind; [apply jt_q_pop_head|intros q2 Hq2].
      apply IH. apply HJ_set_q; assumption.
  - (* file head *)
    eapply jt_bind; [apply jt_of_jok; destruct (N.testbit meta 1); [apply jok_read_counter | apply jok_ret]|intros off _].
    eapply jt_bind; [jvok|intros b3 _].
    destruct (negb b3); [apply jt_ret; assumption|].
    eapply jt_bind; [jvok|intros f _].
    eapply jt_bind.
    + eapply (jt_file_store_loop _ _ path _ _ _ (c_store_root c)).
      * apply spI_create.
      * eexists. reflexivity.
    + intros r2 Hr2. destruct r2 as [[ev is_stored] sp']. simpl in Hr2. destruct Hr2 as [Hsp Hev].
      eapply jt_bind; [apply jt_q_pop_head|intros q2 Hq2].
      assert (Hh2 : HJ cp (set_q q2 h1)) by (apply HJ_set_q; assumption).
      eapply jt_bind; [jvok|intros b4 _].
      destruct (negb b4).
      { eapply jt_bind; [jvok|intros ? _]. eapply jt_bind; [jvok|intros ? _]. apply jt_ret. assumption. }
      eapply jt_bind.
      * apply jt_of_jok.
        match goal with |- JournalHistoryProofs.jok _ _ _ (if ?x then _ else _) => destruct x end; [|apply jok_ret].
        match goal with |- context [k_unlink ?pp] => set (project_path := pp) end.
        assert (Hpu : under (c_unstable_root c) project_path) by (eexists; reflexivity).
        assert (Hpn : ~ under (c_offset_root c) project_path) by (apply not_off_unst; exact Hpu).
        jk.
      * intros ? _.
        eapply jt_bind; [apply jt_of_jok; apply jok_record_event;
                         [destruct Hh2 as [_ [E _]]; exact E | apply HLB3; exact Hev]|intros ? _].
        apply IH. assumption.
Qed.

Lemma jt_handle_timeout cp rev h :
  HJ cp h -> jt (fun r => HJ cp (snd r)) (handle_timeout rev h).
Proof.
  intros Hh. unfold handle_timeout.
  eapply jt_bind; [apply (jt_handle_timeout_loop cp); assumption|intros r Hr].
  eapply jt_bind; [jvok|intros b _].
  apply jt_ret. destruct b; assumption.
Qed.


(* ---------- handle_open_exec ---------- *)

Definition exec_label (path : str) : option str :=
  if mem (basename path) (c_editors c) then c_ev_exec_editor c else c_ev_exec_not_editor c.

(* the part of handle_open_exec before record_event: marks, ELF inspection, label *)
Definition exec_prelude (pid : N) (file_path : str) (h : handler) (f : fs) : M (handler * option str) :=
  if mem (basename file_path) (c_editors (h_cfg h)) then
    let pids := if pid_mem pid (h_pids h) then h_pids h else pid :: h_pids h in
    do interp <- match lookup f file_path with
                 | Some (NFile i) => get_elf_interpreter i
                 | _ => ret_ None
                 end;
    do b <- is_ok;
    ret_ (mkH (h_cfg h) (h_cfg_path h) (h_cpl h) (h_q h) (h_journal h) pids
              (match interp, b with Some s, true => s :: h_interps h | _, _ => h_interps h end),
          c_ev_exec_editor (h_cfg h))
  else if pid_mem pid (h_pids h) then
    do b <- is_ok;
    if b && negb (mem file_path (h_interps h)) then
      ret_ (mkH (h_cfg h) (h_cfg_path h) (h_cpl h) (h_q h) (h_journal h)
                (pid_remove pid (h_pids h)) (h_interps h),
            c_ev_exec_not_editor (h_cfg h))
    else ret_ (h, c_ev_exec_not_editor (h_cfg h))
  else ret_ (h, c_ev_exec_not_editor (h_cfg h)).

Lemma handle_open_exec_prelude pid path h :
  handle_open_exec pid path h =
  when_ok h (do f <- get_fs;
             do h' <- exec_prelude pid path h f;
             record_event (snd h') pid path (fst h');; ret_ (fst h')).
Proof. reflexivity. Qed.

(* the prelude only reads: it keeps ANY predicate on the file system *)
Lemma jt_exec_prelude (Q : fs -> Prop) cp pid path h f :
  HJ cp h ->
  JournalHistoryProofs.jt K t Q (fun r => HJ cp (fst r) /\ snd r = exec_label path /\ h_q (fst r) = h_q h /\ h_cpl (fst r) = h_cpl h)
     (exec_prelude pid path h f).
Proof.
  intros Hh. pose proof Hh as [Ec [Ej Ecp]]. unfold exec_prelude, exec_label. rewrite Ec.
  assert (HH : forall pids its, HJ cp (mkH c (h_cfg_path h) (h_cpl h) (h_q h) (h_journal h) pids its))
    by (intros pids its; split; [reflexivity | split; assumption]).
  destruct (mem (basename path) (c_editors c)).
  - eapply jt_bind; [apply jt_of_jok|intros ? _].
    + destruct (lookup f path) as [[| |]|]; try apply jok_ret. apply jok_get_elf_interpreter.
    + eapply jt_bind; [apply jt_of_jok; jk_with jleaf1|intros ? _]. apply jt_ret.
      split; [apply HH|]. repeat split.
  - destruct (pid_mem pid (h_pids h)).
    + eapply jt_bind; [apply jt_of_jok; jk_with jleaf1|intros b _].
      destruct (b && negb (mem path (h_interps h))); apply jt_ret.
      * split; [apply HH | repeat split].
      * split; [exact Hh | repeat split].
    + apply jt_ret. split; [exact Hh | repeat split].
Qed.

Lemma jt_handle_open_exec cp pid path h :
  HJ cp h -> LB (exec_label path) pid -> jt (HJ cp) (handle_open_exec pid path h).
Proof.
  intros Hh HL. rewrite handle_open_exec_prelude. unfold when_ok.
  eapply jt_bind; [jvok|intros b _]. destruct b; [|apply jt_ret; assumption].
  eapply jt_bind; [jvok|intros f _].
  eapply jt_bind; [apply (jt_exec_prelude _ cp); exact Hh|intros r [Hr [El _]]].
  eapply jt_bind; [apply jt_of_jok; apply jok_record_event;
                   [destruct Hr as [_ [E _]]; exact E | rewrite El; exact HL]|intros ? _].
  apply jt_ret. assumption.
Qed.

(* ---------- handle_close_write without an effective reload ---------- *)

Definition write_label (h : handler) (pid : N) (path : str) : option str :=
  if push_answer h pid path then c_ev_write_by_editor c else c_ev_write_not_by_editor c.

Lemma HJ_same cp h h1 : HJ cp h -> same_hp h h1 -> HJ cp h1.
Proof.
  intros [H1 [H2 H3]] [[E1 [E2 [E3 _]]] _]. split; [congruence|]. split; congruence.
Qed.

(* reload without a (valid) new configuration touches nothing *)
Lemma jt_reload_none (Q : fs -> Prop) h : JournalHistoryProofs.jt K t Q (fun r => r = h) (reload None h).
Proof.
  unfold reload. destruct (h_cfg_path h); [|apply jt_ret; reflexivity].
  eapply jt_bind; [apply jt_of_jok; jk_with jleaf1|intros ? _].
  eapply jt_bind; [apply jt_of_jok; jk_with jleaf1|intros ? _].
  eapply jt_bind; [apply jt_of_jok; jk_with jleaf1|intros ? _].
  eapply jt_bind; [apply jt_of_jok; jk_with jleaf1|intros ? _].
  apply jt_ret. reflexivity.
Qed.

(* the end of handle_close_write, after record_event *)
Definition write_tail (file_path : str) (new_cfg : option config) (h1 : handler) : M handler :=
  do b <- is_ok;
  match b, h_cfg_path h1 with
  | true, Some cp => if str_eqb file_path cp then reload new_cfg h1 else ret_ h1
  | _, _ => ret_ h1
  end.

Definition close_write_parts (pid : N) (path : str) (nc : option config) (h : handler) : M handler :=
  when_ok h (do r <- push_to_linq pid path h;
             record_event (if fst r then c_ev_write_by_editor (h_cfg (snd r))
                           else c_ev_write_not_by_editor (h_cfg (snd r))) pid path (snd r);;
             write_tail path nc (snd r)).

Lemma handle_close_write_parts pid path nc h o w :
  handle_close_write pid path nc h o w = close_write_parts pid path nc h o w.
Proof.
  unfold handle_close_write, close_write_parts, write_tail, when_ok, bind.
  destruct (is_ok o w) as [[[|]|] w0]; try reflexivity.
  destruct (push_to_linq pid path h o w0) as [[[pushed h1]|] w1]; reflexivity.
Qed.

(* no effective reload: the new configuration is absent / invalid, or the
   written file is not the configuration file *)
Definition quiet_write (cp : option str) (path : str) (nc : option config) : Prop :=
  nc = None \/ cp <> Some path.

Lemma jt_write_tail (Q : fs -> Prop) cp path nc h1 :
  h_cfg_path h1 = cp -> quiet_write cp path nc ->
  JournalHistoryProofs.jt K t Q (fun r => r = h1) (write_tail path nc h1).
Proof.
  intros Ecp Hq. unfold write_tail.
  eapply jt_bind; [apply jt_of_jok; jk_with jleaf1|intros b _].
  destruct b; [|apply jt_ret; reflexivity].
  destruct (h_cfg_path h1) as [cp'|] eqn:E; [|apply jt_ret; reflexivity].
  destruct (str_eqb_spec path cp') as [->|Hne]; [|apply jt_ret; reflexivity].
  destruct Hq as [->|Hq]; [apply jt_reload_none|]. exfalso. apply Hq. symmetry. exact Ecp.
Qed.

Lemma jt_handle_close_write cp pid path nc h :
  HJ cp h -> quiet_write cp path nc ->
  LB (c_ev_write_by_editor c) pid -> LB (c_ev_write_not_by_editor c) pid ->
  jt (HJ cp) (handle_close_write pid path nc h).
Proof.
  intros Hh Hq HL1 HL2.
  apply (jt_ext K t _ _ _ _ (handle_close_write_parts pid path nc h)).
  unfold close_write_parts, when_ok.
  eapply jt_bind; [jvok|intros b _]. destruct b; [|apply jt_ret; assumption].
  eapply jt_bind; [apply jt_push_to_linq; exact P_add|intros r Hr].
  pose proof (HJ_same _ _ _ Hh Hr) as Hh1. pose proof Hh1 as [Ec [Ej Ecp]].
  eapply jt_bind; [apply jt_of_jok; apply jok_record_event; [exact Ej|]|intros ? _].
  { rewrite Ec. destruct (fst r); assumption. }
  eapply jt_weaken; [apply (jt_write_tail _ cp); assumption|]. intros r' ->. exact Hh1.
Qed.

End Trav.

(* ====================================================================== *)
(* Part 3: histories of events; the journal is append-only (every oracle) *)
(* ====================================================================== *)

(* The event alphabet.  The programs of the model never move the clock, so
   the passing of time is an event of its own. *)
Inductive jevent :=
| JExec (pid : N) (path : str)
| JWrite (pid : N) (path : str) (new_cfg : option config)
| JTimeout (reverse : bool)
| JClock (now : Z).

Definition set_clock (now : Z) : M unit :=
  fun _ w => (Some tt, mkW (w_fs w) (w_n w) (w_log w) now (w_tr w)).

Definition jstep (e : jevent) (h : handler) : M handler :=
  match e with
  | JExec pid path => handle_open_exec pid path h
  | JWrite pid path nc => handle_close_write pid path nc h
  | JTimeout rev => do r <- handle_timeout rev h; ret_ (snd r)
  | JClock now => set_clock now;; ret_ h
  end.

(* the event loop over a list of events; the oracle covers the whole run
   (calls are numbered consecutively); a crash ends the run *)
Fixpoint jrun (evs : list jevent) (h : handler) : M handler :=
  match evs with
  | [] => ret_ h
  | e :: evs' => do h' <- jstep e h; jrun evs' h'
  end.

(* histories without an effective reload: a write event either does not
   concern the configuration file of the handler, or brings no valid new
   configuration (then reload only reports an error) *)
Definition quiet (cp : option str) (e : jevent) : Prop :=
  match e with
  | JWrite _ p nc => quiet_write cp p nc
  | _ => True
  end.

Lemma jrun_app evs1 evs2 h o w :
  jrun (evs1 ++ evs2) h o w =
  match jrun evs1 h o w with
  | (Some h1, w1) => jrun evs2 h1 o w1
  | (None, w1) => (None, w1)
  end.
Proof.
  revert h w. induction evs1 as [|e evs1 IH]; intros h w; cbn [app jrun]; [reflexivity|].
  unfold bind. destruct (jstep e h o w) as [[h1|] w1]; [apply IH | reflexivity].
Qed.

(* ---------- [note] when the journal bytes may grow arbitrarily ---------- *)

Section NoteApp.
Variables (K : oclass) (t : Z) (c : config) (jn : journal) (G : str -> Prop).
Hypothesis HG : forall x b, G x -> G (x ++ b).
Notation P := (JI c (j_ino jn) G).

Lemma jok_write_journal b : jok K t P (k_write (j_ino jn) b).
Proof.
  unfold k_write. apply jok_bind; [apply jok_transfer_limit|intros lim].
  apply jt_sys; [auto|]. intros f Hf. simpl. split; [|exact I].
  apply JI_append_journal; [intros x; apply HG | exact Hf].
Qed.

Lemma jok_write_all_journal fuel : forall b, jok K t P (write_all fuel (j_ino jn) b).
Proof.
  induction fuel as [|fuel IH]; intros b; simpl; [apply jok_ret|].
  destruct b; [apply jok_ret|].
  apply jok_bind; [apply jok_write_journal|]. intros r. destruct r; [apply IH|].
  jk_with jleaf1.
Qed.

Lemma jok_note_app ev pid path : jok K t P (note ev pid path (Some jn)).
Proof.
  unfold note. destruct ev; [|apply jok_ret].
  unfold when_ok. apply jok_bind; [jk_with jleaf1|intros b]. destruct b; [|apply jok_ret].
  apply jok_bind; [apply jok_get_timestamp|intros ts].
  destruct ts; [apply jok_write_all_journal | apply jok_ret].
Qed.

End NoteApp.

(* ---------- one event, generically ---------- *)

Lemma jt_jstep K t c jn G (LB : option str -> N -> Prop) cp e h :
  joff_ok c ->
  (forall ev pid path, LB ev pid -> jok K t (JI c (j_ino jn) G) (note ev pid path (Some jn))) ->
  (forall ev pid, LB ev pid) ->
  HJ c jn cp h -> quiet cp e ->
  (forall now, e <> JClock now) ->
  jt K t (JI c (j_ino jn) G) (HJ c jn cp) (jstep e h).
Proof.
  intros HC Hnote HLB Hh Hq Hne. destruct e as [pid path|pid path nc|rev|now]; cbn [jstep].
  - apply (jt_handle_open_exec K t c jn G LB Hnote); [exact Hh | apply HLB].
  - apply (jt_handle_close_write K t c jn G LB Hnote); [exact Hh | exact Hq | apply HLB | apply HLB].
  - eapply jt_bind.
    + apply (jt_handle_timeout K t c jn G LB HC Hnote (fun ev _ => HLB ev 0%N) cp). exact Hh.
    + intros r Hr. apply jt_ret. exact Hr.
  - exfalso. exact (Hne now eq_refl).
Qed.

(* ---------- Theorem 1 ---------- *)

Definition is_prefix (b0 b : str) : Prop := exists s, b = b0 ++ s.

Lemma is_prefix_refl b : is_prefix b b.
Proof. exists []. rewrite app_nil_r. reflexivity. Qed.

Lemma is_prefix_app b0 x b : is_prefix b0 x -> is_prefix b0 (x ++ b).
Proof. intros [s ->]. exists (s ++ b). rewrite app_assoc. reflexivity. Qed.

Lemma jstep_prefix_inv (o : oracle) c jn cp b0 e h w :
  joff_ok c -> HJ c jn cp h -> quiet cp e ->
  JI c (j_ino jn) (is_prefix b0) (w_fs w) ->
  match jstep e h o w with
  | (Some h1, w1) => JI c (j_ino jn) (is_prefix b0) (w_fs w1) /\ HJ c jn cp h1
  | (None, w1) => JI c (j_ino jn) (is_prefix b0) (w_fs w1)
  end.
Proof.
  intros HC Hh Hq HI.
  assert (Hgen : (forall now, e <> JClock now) ->
                 match jstep e h o w with
                 | (Some h1, w1) => JI c (j_ino jn) (is_prefix b0) (w_fs w1) /\ HJ c jn cp h1
                 | (None, w1) => JI c (j_ino jn) (is_prefix b0) (w_fs w1)
                 end).
  { intros Hne.
    pose proof (jt_jstep oc_all (w_clock w) c jn (is_prefix b0) (fun _ _ => True) cp e h HC
                  (fun ev pid path _ => jok_note_app oc_all (w_clock w) c jn (is_prefix b0)
                                          (is_prefix_app b0) ev pid path)
                  (fun _ _ => I) Hh Hq Hne o w I (conj HI eq_refl)) as Hs.
    destruct (jstep e h o w) as [[h1|] w1].
    - destruct Hs as [[HI1 _] Hh1]. split; assumption.
    - destruct Hs as [_ [HI1 _]]. exact HI1. }
  destruct e as [pid path|pid path nc|rev|now]; try (apply Hgen; discriminate).
  cbn [jstep]. unfold bind, set_clock, ret_. split; assumption.
Qed.

Lemma jrun_prefix_inv (o : oracle) c jn cp b0 : joff_ok c ->
  forall evs h w,
    HJ c jn cp h -> Forall (quiet cp) evs ->
    JI c (j_ino jn) (is_prefix b0) (w_fs w) ->
    JI c (j_ino jn) (is_prefix b0) (w_fs (snd (jrun evs h o w))).
Proof.
  intros HC. induction evs as [|e evs IH]; intros h w Hh Hq HI; cbn [jrun]; [exact HI|].
  inversion Hq as [|? ? Hq1 Hq2]; subst.
  unfold bind.
  pose proof (jstep_prefix_inv o c jn cp b0 e h w HC Hh Hq1 HI) as Hs.
  destruct (jstep e h o w) as [[h1|] w1].
  - destruct Hs as [HI1 Hh1]. apply IH; assumption.
  - exact Hs.
Qed.

(* For EVERY oracle (failing calls, short transfers, a crash before any call)
   and every history of events without an effective reload: the bytes of the
   journal inode at the end have the bytes at the start as a prefix. *)
Theorem journal_append_only :
  forall (evs : list jevent) (o : oracle) (w : world) (h : handler) (jn : journal),
  h_journal h = Some jn ->
  joff_ok (h_cfg h) ->
  jsep (h_cfg h) (j_ino jn) (w_fs w) ->
  Forall (quiet (h_cfg_path h)) evs ->
  let w' := snd (jrun evs h o w) in
  exists s, f_bytes (get_file (w_fs w') (j_ino jn)) = f_bytes (get_file (w_fs w) (j_ino jn)) ++ s.
Proof.
  intros evs o w h jn Ej HC Hsep Hq w'.
  assert (Hh : HJ (h_cfg h) jn (h_cfg_path h) h) by (split; [reflexivity | split; [exact Ej | reflexivity]]).
  pose proof (jrun_prefix_inv o (h_cfg h) jn (h_cfg_path h) _ HC evs h w Hh Hq
                (conj Hsep (is_prefix_refl _))) as [_ H].
  exact H.
Qed.

(* the same with the hypothesis of StoreProofs on the configuration *)
Corollary journal_append_only_dl :
  forall (evs : list jevent) (o : oracle) (w : world) (h : handler) (jn : journal),
  h_journal h = Some jn ->
  disjoint_locs (h_cfg h) ->
  jsep (h_cfg h) (j_ino jn) (w_fs w) ->
  Forall (quiet (h_cfg_path h)) evs ->
  exists s, f_bytes (get_file (w_fs (snd (jrun evs h o w))) (j_ino jn)) =
            f_bytes (get_file (w_fs w) (j_ino jn)) ++ s.
Proof.
  intros evs o w h jn Ej D. apply journal_append_only; [exact Ej | apply joff_ok_of_dl; exact D].
Qed.

(* the separation hypothesis is re-established, so the theorem chains *)
Theorem journal_sep_kept :
  forall (evs : list jevent) (o : oracle) (w : world) (h : handler) (jn : journal),
  h_journal h = Some jn ->
  joff_ok (h_cfg h) ->
  jsep (h_cfg h) (j_ino jn) (w_fs w) ->
  Forall (quiet (h_cfg_path h)) evs ->
  jsep (h_cfg h) (j_ino jn) (w_fs (snd (jrun evs h o w))).
Proof.
  intros evs o w h jn Ej HC Hsep Hq.
  assert (Hh : HJ (h_cfg h) jn (h_cfg_path h) h) by (split; [reflexivity | split; [exact Ej | reflexivity]]).
  pose proof (jrun_prefix_inv o (h_cfg h) jn (h_cfg_path h) _ HC evs h w Hh Hq
                (conj Hsep (is_prefix_refl _))) as [H _].
  exact H.
Qed.

Print Assumptions journal_append_only.
Print Assumptions journal_append_only_dl.
Print Assumptions journal_sep_kept.

(* ====================================================================== *)
(* Part 4: benign oracles: whole lines, exact lines, time stamps          *)
(* ====================================================================== *)

(* the time stamp of a line written when the clock shows [now] *)
Definition stamp (jn : journal) (now : Z) : str :=
  expand_pattern (j_pattern jn) (dec (Z.to_N now)).

(* the lines of one labelled event: one line, or none when the label is not configured *)
Definition jl (jn : journal) (now : Z) (lbl : option str) (pid : N) (path : str) : list str :=
  match lbl with
  | Some l => [journal_line (stamp jn now) l pid path]
  | None => []
  end.

(* ---------- the error trace: once not ok, not ok until caught ---------- *)

Lemma nok_try t : tr_ok t = false -> tr_ok (tr_try t) = false.
Proof. intros H. unfold tr_try. rewrite H. exact H. Qed.

Lemma ok_try t : tr_ok t = true -> tr_ok (tr_try t) = true.
Proof. intros H. unfold tr_try. rewrite H. exact H. Qed.

Lemma nok_push fr t : tr_ok (tr_push fr t) = false.
Proof. reflexivity. Qed.

Lemma nok_rethrow_context s t : tr_ok t = false -> tr_ok (tr_rethrow_context s t) = false.
Proof. intros H. unfold tr_rethrow_context. destruct (_ && _); [reflexivity | exact H]. Qed.

Lemma nok_finally_rethrow m t : tr_ok t = false -> tr_ok (tr_finally_rethrow_static m t) = false.
Proof.
  destruct t as [fr pre post]. unfold tr_ok, tr_finally_rethrow_static, tr_decrement.
  cbn [t_frames t_pre t_post]. destruct fr as [|x fr]; [discriminate|]. intros _.
  destruct post; reflexivity.
Qed.

(* the trace after record_event, from the trace after note *)
Definition rec_tr (cjp : option str) (t : trace) : trace :=
  tr_finally_rethrow_static M_journal_cannot_write
    (match cjp with Some p => tr_rethrow_context p t | None => t end).

Lemma nok_rec_tr cjp t : tr_ok t = false -> tr_ok (rec_tr cjp t) = false.
Proof.
  intros H. unfold rec_tr. apply nok_finally_rethrow. destruct cjp; [apply nok_rethrow_context|]; exact H.
Qed.

Lemma record_event_eq ev pid path h o w :
  record_event ev pid path h o w =
  match note ev pid path (h_journal h) o (upd_tr (tr_try (w_tr w)) w) with
  | (Some _, w2) => (Some tt, upd_tr (rec_tr (c_journal_path (h_cfg h)) (w_tr w2)) w2)
  | (None, w2) => (None, w2)
  end.
Proof.
  unfold record_event, bind, try_, mod_tr, bind, get_tr, set_tr.
  change (mkW (w_fs w) (w_n w) (w_log w) (w_clock w) (tr_try (w_tr w))) with (upd_tr (tr_try (w_tr w)) w).
  destruct (note ev pid path (h_journal h) o (upd_tr (tr_try (w_tr w)) w)) as [[u|] w2]; [|reflexivity].
  unfold rec_tr. destruct (c_journal_path (h_cfg h)); reflexivity.
Qed.

(* ---------- note under a benign oracle: the whole line, or nothing and an error ---------- *)

Lemma get_timestamp_overflow pat o w :
  tr_ok (w_tr w) = true ->
  Nat.ltb name_max (length (expand_pattern pat (dec (Z.to_N (w_clock w))))) = true ->
  get_timestamp pat o w = (Some None, upd_tr (tr_push (FStatic M_ts_overflow) (w_tr w)) w).
Proof.
  intros H Hl. unfold get_timestamp, bind, get_clock. rewrite is_ok_eq, H, Hl. reflexivity.
Qed.

Lemma note_benign o w ev pid path jn :
  JournalProofs.benign o ->
  exists w',
    note ev pid path (Some jn) o w = (Some tt, w') /\ w_clock w' = w_clock w /\
    ((tr_ok (w_tr w) = true /\ tr_ok (w_tr w') = true /\
      appended (j_ino jn) (concat (jl jn (w_clock w) ev pid path)) (w_fs w) (w_fs w'))
     \/ (w_fs w' = w_fs w /\ tr_ok (w_tr w') = false)).
Proof.
  intros Hb. destruct ev as [e|].
  - destruct (tr_ok (w_tr w)) eqn:Hok.
    + destruct (Nat.ltb name_max (length (stamp jn (w_clock w)))) eqn:Hfit.
      * (* the stamp is too long: get_timestamp throws *)
        eexists. split; [|split].
        -- unfold note, when_ok. rewrite (bind_some _ _ _ _ _ _ (is_ok_eq o w)). rewrite Hok.
           rewrite (bind_some _ _ _ _ _ _ (get_timestamp_overflow _ o w Hok Hfit)). reflexivity.
        -- reflexivity.
        -- right. split; reflexivity.
      * apply Nat.ltb_ge in Hfit.
        destruct (note_appends_one_line o w e pid path jn Hb Hok Hfit) as (w' & E & A & T & C).
        exists w'. split; [exact E|]. split; [exact C|]. left.
        split; [reflexivity|]. split; [rewrite T; exact Hok|].
        cbn [jl concat]. rewrite app_nil_r. exact A.
    + exists w. split; [|split; [reflexivity|right; split; [reflexivity | exact Hok]]].
      unfold note, when_ok. rewrite (bind_some _ _ _ _ _ _ (is_ok_eq o w)). rewrite Hok. reflexivity.
  - exists w. split; [apply note_no_event|]. split; [reflexivity|].
    destruct (tr_ok (w_tr w)) eqn:Hok.
    + left. split; [reflexivity|]. split; [reflexivity | apply appended_nil].
    + right. split; reflexivity.
Qed.

Lemma record_event_benign o w ev pid path h jn :
  JournalProofs.benign o -> h_journal h = Some jn ->
  exists w',
    record_event ev pid path h o w = (Some tt, w') /\ w_clock w' = w_clock w /\
    ((tr_ok (w_tr w) = true /\
      appended (j_ino jn) (concat (jl jn (w_clock w) ev pid path)) (w_fs w) (w_fs w'))
     \/ (w_fs w' = w_fs w /\ tr_ok (w_tr w') = false)).
Proof.
  intros Hb Ej. rewrite record_event_eq, Ej.
  destruct (note_benign o (upd_tr (tr_try (w_tr w)) w) ev pid path jn Hb) as (w2 & E & C & Hc).
  rewrite E. eexists. split; [reflexivity|]. split; [exact C|].
  destruct Hc as [[Hok [_ A]]|[F Hn]].
  - destruct (tr_ok (w_tr w)) eqn:Hok0.
    + left. split; [reflexivity | exact A].
    + cbn [upd_tr w_tr] in Hok. rewrite (nok_try _ Hok0) in Hok. discriminate.
  - right. split; [exact F|]. cbn [upd_tr w_tr]. apply nok_rec_tr. exact Hn.
Qed.

(* [appended] keeps the separation hypothesis *)
Lemma appended_jsep c j i b f f' : appended i b f f' -> jsep c j f -> jsep c j f'.
Proof.
  intros (_ & _ & _ & D & N) [H1 H2]. split; [rewrite N; exact H1|].
  intros q Hq. apply H2. unfold dent in *. rewrite <- D. exact Hq.
Qed.

(* ---------- what one event does to the journal ---------- *)

(* the journal lines of a timeout pass: label stored / deleted / forbidden, no pid *)
Definition tline (c : config) (jn : journal) (now : Z) (l : str) : Prop :=
  exists lbl rel, lbl3 c (Some lbl) /\ l = journal_line (stamp jn now) lbl 0%N rel.

(* [ls] are the lines event [e] may append when it starts with handler h in world w
   and ends in world w' *)
Definition ev_spec (c : config) (jn : journal) (e : jevent) (h : handler) (w w' : world)
           (ls : list str) : Prop :=
  match e with
  | JExec pid path =>
      ls = jl jn (w_clock w) (exec_label c path) pid path \/ (ls = [] /\ tr_ok (w_tr w') = false)
  | JWrite pid path _ =>
      ls = jl jn (w_clock w) (write_label c h pid path) pid path \/ (ls = [] /\ tr_ok (w_tr w') = false)
  | JTimeout _ => Forall (tline c jn (w_clock w)) ls
  | JClock _ => ls = []
  end.

(* the common shape of the per-event results *)
Definition step_ok (o : oracle) (c : config) (jn : journal) (cp : option str)
           (e : jevent) (h : handler) (w : world) : Prop :=
  exists h' w' ls,
    jstep e h o w = (Some h', w') /\ HJ c jn cp h' /\
    jsep c (j_ino jn) (w_fs w') /\
    f_bytes (get_file (w_fs w') (j_ino jn)) = f_bytes (get_file (w_fs w) (j_ino jn)) ++ concat ls /\
    ev_spec c jn e h w w' ls.

Lemma jt_benign_run {A} t (P : fs -> Prop) (R : A -> Prop) (m : M A) o w :
  jt oc_benign t P R m -> JournalProofs.benign o -> P (w_fs w) -> w_clock w = t ->
  exists a w', m o w = (Some a, w') /\ P (w_fs w') /\ w_clock w' = t /\ R a.
Proof.
  intros H Hb Hp Hc. specialize (H o w Hb (conj Hp Hc)).
  destruct (m o w) as [[a|] w'].
  - destruct H as [[H1 H2] H3]. exists a, w'. auto.
  - destruct H as [[] _].
Qed.

Lemma exec_benign o w pid path h c jn cp :
  JournalProofs.benign o -> HJ c jn cp h -> jsep c (j_ino jn) (w_fs w) ->
  step_ok o c jn cp (JExec pid path) h w.
Proof.
  intros Hb Hh Hsep. unfold step_ok. cbn [jstep ev_spec].
  rewrite handle_open_exec_prelude. unfold when_ok.
  rewrite (bind_some _ _ _ _ _ _ (is_ok_eq o w)).
  destruct (tr_ok (w_tr w)) eqn:Hok.
  - rewrite (bind_some _ _ _ _ _ _ (eq_refl : get_fs o w = (Some (w_fs w), w))).
    destruct (jt_benign_run (w_clock w) (fun f => f = w_fs w) _ _ o w
                (jt_exec_prelude oc_benign (w_clock w) c jn (fun f => f = w_fs w) cp pid path h (w_fs w) Hh)
                Hb eq_refl eq_refl) as ([h1 lbl] & w1 & E1 & F1 & C1 & Hh1 & El & Eq & _).
    cbn [fst snd] in Hh1, El, Eq. subst lbl.
    rewrite (bind_some _ _ _ _ _ _ E1). cbn [fst snd].
    destruct (record_event_benign o w1 (exec_label c path) pid path h1 jn Hb (proj1 (proj2 Hh1)))
      as (w2 & E2 & C2 & Hc).
    rewrite (bind_some _ _ _ _ _ _ E2). unfold ret_.
    rewrite C1 in Hc. rewrite F1 in Hc.
    destruct Hc as [[_ A]|[F2 Hn]].
    + exists h1, w2, (jl jn (w_clock w) (exec_label c path) pid path).
      split; [reflexivity|]. split; [exact Hh1|].
      split; [eapply appended_jsep; eauto|]. split; [exact (proj1 A) | left; reflexivity].
    + exists h1, w2, []. split; [reflexivity|]. split; [exact Hh1|].
      rewrite F2. split; [exact Hsep|]. split; [cbn [concat]; rewrite app_nil_r; reflexivity|].
      right. split; [reflexivity | exact Hn].
  - exists h, w, []. unfold ret_. split; [reflexivity|]. split; [exact Hh|]. split; [exact Hsep|].
    split; [cbn [concat]; rewrite app_nil_r; reflexivity|]. right. split; [reflexivity | exact Hok].
Qed.

Lemma push_to_linq_ok pid path h o w :
  tr_ok (w_tr w) = true -> push_to_linq pid path h o w = push_body pid path h o w.
Proof.
  intros H. rewrite push_to_linq_body. unfold when_ok.
  rewrite (bind_some _ _ _ _ _ _ (is_ok_eq o w)). rewrite H. reflexivity.
Qed.

Lemma write_benign o w pid path nc h c jn cp :
  JournalProofs.benign o -> HJ c jn cp h -> quiet_write cp path nc -> jsep c (j_ino jn) (w_fs w) ->
  step_ok o c jn cp (JWrite pid path nc) h w.
Proof.
  intros Hb Hh Hq Hsep. unfold step_ok. cbn [jstep ev_spec].
  rewrite handle_close_write_parts. unfold close_write_parts, when_ok.
  rewrite (bind_some _ _ _ _ _ _ (is_ok_eq o w)).
  set (b0 := f_bytes (get_file (w_fs w) (j_ino jn))).
  destruct (tr_ok (w_tr w)) eqn:Hok.
  - destruct (jt_benign_run (w_clock w) (JI c (j_ino jn) (eq b0)) _ _ o w
                (jt_push_body oc_benign (w_clock w) _ (JI_cl_add c (j_ino jn) (eq b0)) pid path h)
                Hb (conj Hsep eq_refl) eq_refl) as ([pushed h1] & w1 & E1 & [S1 B1] & C1 & Hs1 & Ep).
    cbn [fst snd] in Hs1, Ep. subst pushed.
    rewrite (bind_some _ _ _ _ _ _ (eq_trans (push_to_linq_ok pid path h o w Hok) E1)). cbn [fst snd].
    pose proof (HJ_same c jn cp h h1 Hh Hs1) as Hh1. pose proof Hh1 as [Ec [Ej Ecp]].
    rewrite Ec. fold (write_label c h pid path).
    destruct (record_event_benign o w1 (write_label c h pid path) pid path h1 jn Hb Ej)
      as (w2 & E2 & C2 & Hc).
    rewrite (bind_some _ _ _ _ _ _ E2).
    rewrite C1 in Hc.
    destruct Hc as [[_ A]|[F2 Hn]].
    + destruct (jt_benign_run (w_clock w) (fun f => f = w_fs w2) _ _ o w2
                  (jt_write_tail oc_benign (w_clock w) (fun f => f = w_fs w2) cp path nc h1 Ecp Hq)
                  Hb eq_refl ltac:(congruence)) as (h2 & w3 & E3 & F3 & C3 & ->).
      rewrite E3.
      exists h1, w3, (jl jn (w_clock w) (write_label c h pid path) pid path).
      split; [reflexivity|]. split; [exact Hh1|]. rewrite F3.
      split; [eapply appended_jsep; eauto|]. split; [|left; reflexivity].
      rewrite (proj1 A), <- B1. reflexivity.
    + (* nothing was written; the error stays: the tail does nothing *)
      unfold write_tail. rewrite (bind_some _ _ _ _ _ _ (is_ok_eq o w2)). rewrite Hn. unfold ret_.
      exists h1, w2, []. split; [reflexivity|]. split; [exact Hh1|]. rewrite F2.
      split; [exact S1|]. split; [cbn [concat]; rewrite app_nil_r; symmetry; exact B1|].
      right. split; [reflexivity | exact Hn].
  - exists h, w, []. unfold ret_. split; [reflexivity|]. split; [exact Hh|]. split; [exact Hsep|].
    split; [cbn [concat]; rewrite app_nil_r; reflexivity|]. right. split; [reflexivity | exact Hok].
Qed.

(* ---------- a timeout pass under a benign oracle ---------- *)

(* the journal bytes during a pass that started with bytes b0 at time [now] *)
Definition pass_bytes (c : config) (jn : journal) (now : Z) (b0 b : str) : Prop :=
  exists ls, b = b0 ++ concat ls /\ Forall (tline c jn now) ls.

Lemma jok_note_lines c jn now b0 ev pid path :
  lbl3 c ev /\ pid = 0%N ->
  jok oc_benign now (JI c (j_ino jn) (pass_bytes c jn now b0)) (note ev pid path (Some jn)).
Proof.
  intros [Hl ->] o w Hb [[Hs HG] Hc]. cbn [oc_in oc_benign] in Hb.
  destruct (note_benign o w ev 0%N path jn Hb) as (w' & E & C & Hcase). rewrite E.
  split; [|exact I]. split; [|congruence].
  destruct Hcase as [[_ [_ A]]|[F _]].
  - split; [eapply appended_jsep; eauto|].
    destruct HG as (ls & Eb & Hf). rewrite (proj1 A), Eb.
    exists (ls ++ jl jn (w_clock w) ev 0%N path). rewrite concat_app, app_assoc.
    split; [reflexivity|]. apply Forall_app. split; [exact Hf|].
    destruct ev as [l|]; cbn [jl]; [|constructor]. constructor; [|constructor].
    exists l, path. rewrite Hc. split; [exact Hl | reflexivity].
  - rewrite F. split; assumption.
Qed.

Lemma timeout_benign o w rev h c jn cp :
  JournalProofs.benign o -> joff_ok c -> HJ c jn cp h -> jsep c (j_ino jn) (w_fs w) ->
  step_ok o c jn cp (JTimeout rev) h w.
Proof.
  intros Hb HC Hh Hsep. unfold step_ok. cbn [jstep ev_spec].
  set (b0 := f_bytes (get_file (w_fs w) (j_ino jn))).
  destruct (jt_benign_run (w_clock w) (JI c (j_ino jn) (pass_bytes c jn (w_clock w) b0)) _ _ o w
              (jt_handle_timeout oc_benign (w_clock w) c jn _ (fun ev pid => lbl3 c ev /\ pid = 0%N) HC
                 (jok_note_lines c jn (w_clock w) b0) (fun ev H => conj H eq_refl) cp rev h Hh)
              Hb) as ([r h1] & w1 & E1 & [S1 (ls & B1 & L1)] & C1 & Hh1).
  { split; [exact Hsep|]. exists []. cbn [concat]. rewrite app_nil_r. split; [reflexivity | constructor]. }
  { reflexivity. }
  rewrite (bind_some _ _ _ _ _ _ E1). unfold ret_. cbn [snd] in *.
  exists h1, w1, ls. split; [reflexivity|]. split; [exact Hh1|]. split; [exact S1|].
  split; [exact B1 | exact L1].
Qed.

Lemma clock_benign o w now h c jn cp :
  HJ c jn cp h -> jsep c (j_ino jn) (w_fs w) -> step_ok o c jn cp (JClock now) h w.
Proof.
  intros Hh Hsep. exists h, (mkW (w_fs w) (w_n w) (w_log w) now (w_tr w)), [].
  split; [reflexivity|]. split; [exact Hh|]. split; [exact Hsep|].
  split; [cbn [concat w_fs]; rewrite app_nil_r; reflexivity | reflexivity].
Qed.

Lemma jstep_benign o w e h c jn cp :
  JournalProofs.benign o -> joff_ok c -> HJ c jn cp h -> quiet cp e -> jsep c (j_ino jn) (w_fs w) ->
  step_ok o c jn cp e h w.
Proof.
  intros Hb HC Hh Hq Hsep. destruct e as [pid path|pid path nc|rev|now].
  - apply exec_benign; assumption.
  - apply write_benign; assumption.
  - apply timeout_benign; assumption.
  - apply clock_benign; assumption.
Qed.

(* ---------- whole histories ---------- *)

(* the run of a history, event by event, with the lines of each event *)
Inductive hist_spec (o : oracle) (c : config) (jn : journal) :
  list jevent -> handler -> world -> handler -> world -> list str -> Prop :=
| HS_nil h w : hist_spec o c jn [] h w h w []
| HS_cons e evs h w h1 w1 h2 w2 ls ls' :
    jstep e h o w = (Some h1, w1) ->
    ev_spec c jn e h w w1 ls ->
    hist_spec o c jn evs h1 w1 h2 w2 ls' ->
    hist_spec o c jn (e :: evs) h w h2 w2 (ls ++ ls').

Lemma hist_spec_run o c jn evs h w h' w' ls :
  hist_spec o c jn evs h w h' w' ls -> jrun evs h o w = (Some h', w').
Proof.
  induction 1 as [h w|e evs h w h1 w1 h2 w2 ls ls' E _ _ IH]; cbn [jrun]; [reflexivity|].
  rewrite (bind_some _ _ _ _ _ _ E). exact IH.
Qed.

Lemma jrun_benign o c jn cp : JournalProofs.benign o -> joff_ok c ->
  forall evs h w,
    HJ c jn cp h -> Forall (quiet cp) evs -> jsep c (j_ino jn) (w_fs w) ->
    exists h' w' lines,
      hist_spec o c jn evs h w h' w' lines /\
      HJ c jn cp h' /\ jsep c (j_ino jn) (w_fs w') /\
      f_bytes (get_file (w_fs w') (j_ino jn)) = f_bytes (get_file (w_fs w) (j_ino jn)) ++ List.concat lines.
Proof.
  intros Hb HC. induction evs as [|e evs IH]; intros h w Hh Hq Hsep.
  - exists h, w, []. split; [constructor|]. split; [exact Hh|]. split; [exact Hsep|].
    cbn [concat]. rewrite app_nil_r. reflexivity.
  - inversion Hq as [|? ? Hq1 Hq2]; subst.
    destruct (jstep_benign o w e h c jn cp Hb HC Hh Hq1 Hsep) as (h1 & w1 & ls & E1 & Hh1 & S1 & B1 & Sp1).
    destruct (IH h1 w1 Hh1 Hq2 S1) as (h2 & w2 & ls' & HS & Hh2 & S2 & B2).
    exists h2, w2, (ls ++ ls'). split; [econstructor; eassumption|].
    split; [exact Hh2|]. split; [exact S2|].
    rewrite B2, B1, concat_app, app_assoc. reflexivity.
Qed.

(* For every benign oracle (no call fails or crashes; every write and
   sendfile may be cut into arbitrary positive pieces) and every history of
   events without an effective reload:
     - the run does not stop;
     - what is appended to the journal is a concatenation of WHOLE lines;
     - [hist_spec] says, event by event, which lines: see [ev_spec]
         exec     one line  stamp <tab> label <tab> pid <tab> path  with the
                  exec label chosen by membership of the basename in the editor
                  set; no line if that label is not configured (None);
         write    the same with the write label chosen by push_to_linq's answer
                  for the pid's mark (push_answer);
                  -- in both cases the alternative "nothing was written" comes
                  with an error trace at the end of the event: klunok reports the
                  error and exits (Main.v), so in a run that continues every
                  labelled exec / write event has exactly its line;
         timeout  lines with the label stored / deleted / forbidden and no pid;
         clock    nothing;
     - every stamp is expand_pattern of the journal pattern at the clock value
       at the beginning of the event (the programs never move the clock). *)
Theorem journal_whole_lines :
  forall (evs : list jevent) (o : oracle) (w : world) (h : handler) (jn : journal),
  JournalProofs.benign o ->
  h_journal h = Some jn ->
  joff_ok (h_cfg h) ->
  jsep (h_cfg h) (j_ino jn) (w_fs w) ->
  Forall (quiet (h_cfg_path h)) evs ->
  exists h' w' lines,
    jrun evs h o w = (Some h', w') /\
    hist_spec o (h_cfg h) jn evs h w h' w' lines /\
    f_bytes (get_file (w_fs w') (j_ino jn)) =
      f_bytes (get_file (w_fs w) (j_ino jn)) ++ List.concat lines /\
    (* and the hypotheses hold again *)
    h_cfg h' = h_cfg h /\ h_journal h' = Some jn /\ h_cfg_path h' = h_cfg_path h /\
    jsep (h_cfg h) (j_ino jn) (w_fs w').
Proof.
  intros evs o w h jn Hb Ej HC Hsep Hq.
  assert (Hh : HJ (h_cfg h) jn (h_cfg_path h) h) by (split; [reflexivity | split; [exact Ej | reflexivity]]).
  destruct (jrun_benign o (h_cfg h) jn (h_cfg_path h) Hb HC evs h w Hh Hq Hsep)
    as (h' & w' & lines & HS & [E1 [E2 E3]] & S & B).
  exists h', w', lines. split; [eapply hist_spec_run; exact HS|]. split; [exact HS|].
  split; [exact B|]. auto.
Qed.

(* ---------- consequences of hist_spec ---------- *)

(* the labels a configuration can write *)
Definition cfg_labels (c : config) : list (option str) :=
  [c_ev_exec_not_editor c; c_ev_exec_editor c; c_ev_write_not_by_editor c; c_ev_write_by_editor c;
   c_ev_deleted c; c_ev_forbidden c; c_ev_stored c].

(* a well-formed line: a configured label, the stamp of some moment *)
Definition wf_line (c : config) (jn : journal) (l : str) : Prop :=
  exists now lbl pid path,
    In (Some lbl) (cfg_labels c) /\ l = journal_line (stamp jn now) lbl pid path.

Lemma jl_wf c jn now lbl pid path :
  In lbl (cfg_labels c) -> Forall (wf_line c jn) (jl jn now lbl pid path).
Proof.
  intros Hin. destruct lbl as [l|]; cbn [jl]; [|constructor]. constructor; [|constructor].
  exists now, l, pid, path. split; [exact Hin | reflexivity].
Qed.

Lemma ev_spec_wf c jn e h w w' ls : ev_spec c jn e h w w' ls -> Forall (wf_line c jn) ls.
Proof.
  destruct e as [pid path|pid path nc|rev|now]; cbn [ev_spec].
  - intros [->|[-> _]]; [|constructor]. apply jl_wf. unfold exec_label, cfg_labels.
    destruct (mem _ _); cbn [In]; tauto.
  - intros [->|[-> _]]; [|constructor]. apply jl_wf. unfold write_label, cfg_labels.
    destruct (push_answer _ _ _); cbn [In]; tauto.
  - intros H. eapply Forall_impl; [|exact H]. intros l (lbl & rel & Hl & ->).
    exists (w_clock w), lbl, 0%N, rel. split; [|reflexivity].
    unfold cfg_labels. destruct Hl as [<-|[<-|<-]]; cbn [In]; tauto.
  - intros ->. constructor.
Qed.

(* every line of a history is well formed *)
Theorem hist_lines_wf o c jn evs h w h' w' lines :
  hist_spec o c jn evs h w h' w' lines -> Forall (wf_line c jn) lines.
Proof.
  induction 1 as [|e evs h w h1 w1 h2 w2 ls ls' _ Hs _ IH]; [constructor|].
  apply Forall_app. split; [eapply ev_spec_wf; exact Hs | exact IH].
Qed.

(* in a history whose events all end without an error -- the only histories
   that continue, since klunok exits on the first error -- the lines of exec
   and write events are exactly the expected ones *)
Inductive all_ok_spec (o : oracle) (c : config) (jn : journal) :
  list jevent -> handler -> world -> list str -> Prop :=
| AO_nil h w : all_ok_spec o c jn [] h w []
| AO_cons e evs h w h1 w1 ls ls' :
    jstep e h o w = (Some h1, w1) -> tr_ok (w_tr w1) = true ->
    match e with
    | JExec pid path => ls = jl jn (w_clock w) (exec_label c path) pid path
    | JWrite pid path _ => ls = jl jn (w_clock w) (write_label c h pid path) pid path
    | JTimeout _ => Forall (tline c jn (w_clock w)) ls
    | JClock _ => ls = []
    end ->
    all_ok_spec o c jn evs h1 w1 ls' ->
    all_ok_spec o c jn (e :: evs) h w (ls ++ ls').

Lemma handle_timeout_loop_nok fuel rev h o w :
  tr_ok (w_tr w) = false -> handle_timeout_loop fuel rev h o w = (Some (TError, h), w).
Proof.
  intros H. destruct fuel; cbn [handle_timeout_loop]; [reflexivity|].
  rewrite (bind_some _ _ _ _ _ _ (is_ok_eq o w)). rewrite H. reflexivity.
Qed.

Lemma handle_timeout_nok rev h o w :
  tr_ok (w_tr w) = false -> handle_timeout rev h o w = (Some (TError, h), w).
Proof.
  intros H. unfold handle_timeout.
  rewrite (bind_some _ _ _ _ _ _ (handle_timeout_loop_nok _ rev h o w H)).
  rewrite (bind_some _ _ _ _ _ _ (is_ok_eq o w)). rewrite H. reflexivity.
Qed.

Lemma jstep_nok_stays o e h w h1 w1 :
  jstep e h o w = (Some h1, w1) -> tr_ok (w_tr w) = false -> tr_ok (w_tr w1) = false.
Proof.
  intros E Hn. destruct e as [pid path|pid path nc|rev|now]; cbn [jstep] in E.
  - unfold handle_open_exec, when_ok in E. rewrite (bind_some _ _ _ _ _ _ (is_ok_eq o w)) in E.
    rewrite Hn in E. inversion E; subst. exact Hn.
  - unfold handle_close_write, when_ok in E. rewrite (bind_some _ _ _ _ _ _ (is_ok_eq o w)) in E.
    rewrite Hn in E. inversion E; subst. exact Hn.
  - rewrite (bind_some _ _ _ _ _ _ (handle_timeout_nok rev h o w Hn)) in E.
    inversion E; subst. exact Hn.
  - unfold bind, set_clock, ret_ in E. inversion E; subst. exact Hn.
Qed.

Theorem hist_spec_all_ok o c jn evs h w h' w' lines :
  hist_spec o c jn evs h w h' w' lines -> tr_ok (w_tr w') = true ->
  all_ok_spec o c jn evs h w lines.
Proof.
  induction 1 as [|e evs h w h1 w1 h2 w2 ls ls' E Hs HS IH]; intros Hok; [constructor|].
  assert (Hok1 : tr_ok (w_tr w1) = true).
  { destruct (tr_ok (w_tr w1)) eqn:E1; [reflexivity|]. exfalso.
    clear IH Hs E. induction HS as [|e' evs' ha wa hb wb hc wc lsa lsb Ea _ _ IHa]; [congruence|].
    apply IHa; [exact Hok|]. eapply jstep_nok_stays; eauto. }
  econstructor; [exact E | exact Hok1 | | exact (IH Hok)].
  destruct e as [pid path|pid path nc|rev|now]; cbn [ev_spec] in Hs.
  - destruct Hs as [->|[_ Hn]]; [reflexivity | congruence].
  - destruct Hs as [->|[_ Hn]]; [reflexivity | congruence].
  - exact Hs.
  - exact Hs.
Qed.

Print Assumptions journal_whole_lines.
Print Assumptions hist_lines_wf.
Print Assumptions hist_spec_all_ok.

(* ====================================================================== *)
(* Part 6: reload, separately                                             *)
(* ====================================================================== *)

(* The history theorems exclude an effective reload (hypothesis [quiet]): a
   new configuration brings a new journal path, a new offset root, a new
   queue.  What can be said of a reload on its own, for EVERY oracle:
   reload changes the content of no existing inode (it creates directories,
   symlink-free queue state and possibly a fresh, empty journal file) -- in
   particular the old journal is not touched -- and a whole write event that
   triggers a reload only appends to the journal that was open. *)

Definition keeps_file (i : nat) (x : file) (f : fs) : Prop := i < fs_next f /\ get_file f i = x.

Lemma keeps_file_add i x : cl_add (keeps_file i x).
Proof. intros f p n _ H. exact H. Qed.

Lemma keeps_file_open_create i x p f :
  keeps_file i x f -> keeps_file i x (snd (fs_open_create p f)).
Proof.
  intros [H1 H2]. unfold fs_open_create. destruct (lookup f p) as [[|k|]|]; try (split; assumption).
  unfold fs_create_excl. destruct (lookup f p); [split; assumption|].
  destruct (parent_is_dir f p); [split; assumption|]. cbn [snd].
  fold (created p f). split; [cbn [created fs_next]; lia|].
  rewrite get_file_created_other by lia. exact H2.
Qed.

Theorem reload_keeps_files :
  forall (o : oracle) (w : world) (nc : option config) (h : handler) (i : nat),
  i < fs_next (w_fs w) ->
  get_file (w_fs (snd (reload nc h o w))) i = get_file (w_fs w) i.
Proof.
  intros o w nc h i Hlt.
  pose proof (jt_reload oc_all (w_clock w) (keeps_file i (get_file (w_fs w) i))
                (keeps_file_add _ _) (keeps_file_open_create _ _) nc h o w I
                (conj (conj Hlt eq_refl) eq_refl)) as H.
  destruct (reload nc h o w) as [[h'|] w']; cbn [snd].
  - destruct H as [[[_ H] _] _]. exact H.
  - destruct H as [_ [[_ H] _]]. exact H.
Qed.

(* one write event, with ANY new configuration: the journal that is open when
   the event arrives is only appended to *)
Theorem write_event_append_only :
  forall (o : oracle) (w : world) (pid : N) (path : str) (nc : option config) (h : handler) (jn : journal),
  h_journal h = Some jn ->
  jsep (h_cfg h) (j_ino jn) (w_fs w) ->
  let w' := snd (handle_close_write pid path nc h o w) in
  (exists s, f_bytes (get_file (w_fs w') (j_ino jn)) = f_bytes (get_file (w_fs w) (j_ino jn)) ++ s) /\
  jsep (h_cfg h) (j_ino jn) (w_fs w').
Proof.
  intros o w pid path nc h jn Ej Hsep w'.
  set (c := h_cfg h). set (b0 := f_bytes (get_file (w_fs w) (j_ino jn))).
  set (t := w_clock w).
  assert (Hnote : forall ev pid path, True -> jok oc_all t (JI c (j_ino jn) (is_prefix b0)) (note ev pid path (Some jn)))
    by (intros ev p q _; apply jok_note_app; apply is_prefix_app).
  assert (H : jok oc_all t (JI c (j_ino jn) (is_prefix b0)) (handle_close_write pid path nc h)).
  { apply (jt_ext oc_all t _ _ _ _ (handle_close_write_parts pid path nc h)).
    unfold close_write_parts, when_ok.
    apply jok_bind; [jk_with jleaf1|intros b]. destruct b; [|apply jok_ret].
    eapply jok_bindv; [apply jt_push_to_linq; apply JI_cl_add|intros r Hr].
    assert (Ej1 : h_journal (snd r) = Some jn) by (destruct Hr as [[_ [_ [E _]]] _]; congruence).
    apply jok_bind; [apply (jok_record_event oc_all t c jn (is_prefix b0) (fun _ _ => True) Hnote);
                     [exact Ej1 | exact I]|intros ?].
    unfold write_tail. apply jok_bind; [jk_with jleaf1|intros b].
    destruct b; [|apply jok_ret]. destruct (h_cfg_path (snd r)); [|apply jok_ret].
    destruct (str_eqb path s); [|apply jok_ret].
    eapply jok_of_jt. apply jt_reload; [apply JI_cl_add | intros p f; apply JI_open_create_any]. }
  specialize (H o w I (conj (conj Hsep (is_prefix_refl _)) eq_refl)).
  subst w'. destruct (handle_close_write pid path nc h o w) as [[h'|] w1]; cbn [snd].
  - destruct H as [[[S B] _] _]. split; assumption.
  - destruct H as [_ [[S B] _]]. split; assumption.
Qed.

Print Assumptions reload_keeps_files.
Print Assumptions write_event_append_only.

(* ====================================================================== *)
(* Part 7: a concrete history                                             *)
(* ====================================================================== *)

(* boolean checkers for the hypotheses *)
Lemma nn_check a b :
  negb (str_eqb a b) && negb (Str.under a b) && negb (Str.under b a) = true -> nn a b.
Proof.
  intros H. apply andb_true_iff in H. destruct H as [H H3].
  apply andb_true_iff in H. destruct H as [H1 H2].
  apply negb_true_iff in H1, H2, H3. split; [apply str_eqb_neq; exact H1|].
  split; intros Hu; apply underb_spec in Hu; congruence.
Qed.

Definition joff_okb (c : config) : bool :=
  let nnb a b := negb (str_eqb a b) && negb (Str.under a b) && negb (Str.under b a) in
  nnb (c_project_store_root c) (c_offset_root c) && nnb (c_unstable_root c) (c_offset_root c).

Lemma joff_okb_ok c : joff_okb c = true -> joff_ok c.
Proof.
  unfold joff_okb. intros H. apply andb_true_iff in H. destruct H as [H1 H2].
  split; apply nn_check; assumption.
Qed.

Definition jsepb (c : config) (j : nat) (f : fs) : bool :=
  Nat.ltb j (fs_next f) &&
  forallb (fun e => match snd e with
                    | NFile i => negb (Nat.eqb i j && Str.under (c_offset_root c) (fst e))
                    | _ => true
                    end) (fs_dents f).

Lemma jsepb_ok c j f : jsepb c j f = true -> jsep c j f.
Proof.
  unfold jsepb. intros H. apply andb_true_iff in H. destruct H as [H1 H2]. split.
  - apply Nat.ltb_lt. exact H1.
  - intros q Hq Hu. rewrite forallb_forall in H2. specialize (H2 _ Hq). cbn [fst snd] in H2.
    apply underb_spec in Hu. rewrite Nat.eqb_refl, Hu in H2. discriminate.
Qed.

Module JournalHistoryExample.
  Import String.
  Definition s (x : string) : str := list_ascii_of_string x.
  Local Open Scope string_scope.

  (* every kind of label; "exec, not an editor" is not configured (None) and
     "write, not by an editor" is the empty label *)
  Definition cfg0 : config :=
    mkCfg [s"vi"] (mkRules [] [] [] [] [] []) (s"/s") (s"/p") (s"/u") (s"/q") (Some (s"/j")) (s"/o")
          (s"%s") (s"v%s") 0%Z 0 16
          None (Some (s"exec")) (Some []) (Some (s"write"))
          (Some (s"del")) (Some (s"forb")) (Some (s"stored")).

  (* /j is the journal (inode 3, one old line); /w/a is readable, /w/b is not;
     /w/c does not exist; /bin/vi is the editor *)
  Definition fs0 : fs :=
    mkFs [ (s"/s", NDir); (s"/p", NDir); (s"/u", NDir); (s"/q", NDir); (s"/o", NDir);
           (s"/w", NDir); (s"/bin", NDir);
           (s"/j", NFile 3); (s"/w/a", NFile 4); (s"/w/b", NFile 5);
           (s"/bin/vi", NFile 6); (s"/bin/ls", NFile 7) ]
         [ (3, mkFile ((s"old" ++ [ch_nl])%list) true); (4, mkFile (s"hello") true);
           (5, mkFile (s"secret") false); (6, mkFile (s"x") true); (7, mkFile (s"y") true) ]
         8.

  Definition jn0 : journal := mkJ 3 (s"%s").
  Definition h0 : handler := mkH cfg0 None 1 (mkQ (s"/q") 0 0 0%Z 16 []) (Some jn0) [] [].
  Definition w0 : world := mkW fs0 0 [] 0%Z tr_empty.

  (* every write and every sendfile moves a single byte *)
  Definition o1 : oracle := fun _ => FShort 1.

  Lemma o1_benign : JournalProofs.benign o1.
  Proof. intros i. right. exists 1. split; [lia | left; reflexivity]. Qed.

  (* the editor starts (pid 7), something else starts (pid 8, no label
     configured), the editor writes three files, a stranger (pid 9) writes one
     (empty label); later a timeout pass stores /w/a, is denied /w/b and misses /w/c *)
  Definition evs0 : list jevent :=
    [ JClock 100; JExec 7 (s"/bin/vi"); JExec 8 (s"/bin/ls");
      JWrite 7 (s"/w/a") None; JWrite 7 (s"/w/b") None; JWrite 7 (s"/w/c") None;
      JWrite 9 (s"/w/a") None;
      JClock 200; JTimeout false ].

  Definition expected_lines : list str :=
    [ journal_line (s"100") (s"exec") 7 (s"/bin/vi");
      journal_line (s"100") (s"write") 7 (s"/w/a");
      journal_line (s"100") (s"write") 7 (s"/w/b");
      journal_line (s"100") (s"write") 7 (s"/w/c");
      journal_line (s"100") [] 9 (s"/w/a");
      journal_line (s"200") (s"stored") 0 (s"w/a");
      journal_line (s"200") (s"forb") 0 (s"w/b");
      journal_line (s"200") (s"del") 0 (s"w/c") ].

  (* the run, computed *)
  Example run_computed :
    let res := jrun evs0 h0 o1 w0 in
    (match fst res with Some _ => true | None => false end) = true /\
    tr_ok (w_tr (snd res)) = true /\
    f_bytes (get_file (w_fs (snd res)) 3) = (s"old" ++ [ch_nl] ++ List.concat expected_lines)%list.
  Proof. vm_compute. repeat split. Qed.

  Example run_readable :
    string_of_list_ascii (List.concat expected_lines) =
    String.concat ""
      [ "100"; String "009" "exec"; String "009" "7"; String "009" "/bin/vi"; String "010" "";
        "100"; String "009" "write"; String "009" "7"; String "009" "/w/a"; String "010" "";
        "100"; String "009" "write"; String "009" "7"; String "009" "/w/b"; String "010" "";
        "100"; String "009" "write"; String "009" "7"; String "009" "/w/c"; String "010" "";
        "100"; String "009" "9"; String "009" "/w/a"; String "010" "";
        "200"; String "009" "stored"; String "009" "w/a"; String "010" "";
        "200"; String "009" "forb"; String "009" "w/b"; String "010" "";
        "200"; String "009" "del"; String "009" "w/c"; String "010" "" ].
  Proof. vm_compute. reflexivity. Qed.

  (* the hypotheses of the theorems hold of this instance *)
  Example hyps_hold :
    h_journal h0 = Some jn0 /\ joff_ok (h_cfg h0) /\ jsep (h_cfg h0) (j_ino jn0) (w_fs w0) /\
    Forall (quiet (h_cfg_path h0)) evs0.
  Proof.
    split; [reflexivity|]. split; [apply joff_okb_ok; vm_compute; reflexivity|].
    split; [apply jsepb_ok; vm_compute; reflexivity|].
    repeat constructor.
  Qed.

  (* Theorem 1 instantiated: under EVERY oracle the old line stays in front *)
  Example append_only_instance : forall o : oracle,
    exists t, f_bytes (get_file (w_fs (snd (jrun evs0 h0 o w0))) 3) = (s"old" ++ [ch_nl] ++ t)%list.
  Proof.
    intros o. destruct hyps_hold as (Ej & HC & Hs & Hq).
    destruct (journal_append_only evs0 o w0 h0 jn0 Ej HC Hs Hq) as [t Ht].
    exists t. exact Ht.
  Qed.

  (* Theorem 2 instantiated with the one-byte oracle: the run is described by
     hist_spec, its lines are well formed, and since the run ends without an
     error every exec / write event has exactly its expected line *)
  Example whole_lines_instance :
    exists h' w' lines,
      jrun evs0 h0 o1 w0 = (Some h', w') /\
      hist_spec o1 cfg0 jn0 evs0 h0 w0 h' w' lines /\
      all_ok_spec o1 cfg0 jn0 evs0 h0 w0 lines /\
      Forall (wf_line cfg0 jn0) lines /\
      List.concat lines = List.concat expected_lines.
  Proof.
    destruct hyps_hold as (Ej & HC & Hs & Hq).
    destruct (journal_whole_lines evs0 o1 w0 h0 jn0 o1_benign Ej HC Hs Hq)
      as (h' & w' & lines & Er & HS & B & _).
    exists h', w', lines. split; [exact Er|]. split; [exact HS|].
    destruct run_computed as (_ & Hok & Hb). cbv zeta in Hok, Hb. rewrite Er in Hok, Hb. cbn [snd] in Hok, Hb.
    split; [eapply hist_spec_all_ok; eassumption|].
    split; [eapply hist_lines_wf; exact HS|].
    change (j_ino jn0) with 3 in B. rewrite Hb in B.
    change (f_bytes (get_file (w_fs w0) 3)) with (s"old" ++ [ch_nl])%list in B.
    rewrite <- app_assoc in B. apply app_inv_head in B. apply app_inv_head in B. symmetry. exact B.
  Qed.

  (* the lists themselves, for the exec / write part of the history: one line
     per labelled event, none for the exec of /bin/ls whose label is not
     configured, a line without label field for the empty label *)
  Definition evs_a : list jevent := firstn 7 evs0.

  Ltac inv1 :=
    match goal with
    | H : all_ok_spec _ _ _ (_ :: _) _ _ _ |- _ =>
        let E := fresh "E" in
        inversion H as [|? ? ? ? ? ? ? ? E _ ? ?]; subst; clear H;
        vm_compute in E; injection E as <- <-
    end.

  Example exact_lines_instance :
    exists h' w' lines,
      jrun evs_a h0 o1 w0 = (Some h', w') /\
      hist_spec o1 cfg0 jn0 evs_a h0 w0 h' w' lines /\
      lines = firstn 5 expected_lines.
  Proof.
    destruct hyps_hold as (Ej & HC & Hs & _).
    assert (Hq : Forall (quiet (h_cfg_path h0)) evs_a) by repeat constructor.
    destruct (journal_whole_lines evs_a o1 w0 h0 jn0 o1_benign Ej HC Hs Hq)
      as (h' & w' & lines & Er & HS & _).
    exists h', w', lines. split; [exact Er|]. split; [exact HS|].
    assert (Hok : tr_ok (w_tr (snd (jrun evs_a h0 o1 w0))) = true) by (vm_compute; reflexivity).
    rewrite Er in Hok. cbn [snd] in Hok.
    pose proof (hist_spec_all_ok _ _ _ _ _ _ _ _ _ HS Hok) as H. clear HS Er Hok.
    unfold evs_a in H. cbn [firstn evs0] in H.
    do 7 inv1.
    match goal with H : all_ok_spec _ _ _ [] _ _ _ |- _ => inversion H; subst end.
    vm_compute. reflexivity.
  Qed.

  (* ---------- the separation hypothesis is needed ---------- *)

  (* The same configuration, but the journal path lies below the offset root,
     at the very name where the position of the history path /w/a is kept.
     Without [jsep] the journal is NOT append-only: the timeout pass opens the
     "offset file", truncates it and writes the position -- the journal is
     gone, under the fault-free oracle. *)
  Definition cfg_bad : config :=
    mkCfg [s"vi"] (mkRules [] [] [] [s"/w/a"] [] []) (s"/s") (s"/p") (s"/u") (s"/q")
          (Some (s"/o/w/a")) (s"/o") (s"%s") (s"v%s") 0%Z 0 16
          None (Some (s"exec")) (Some []) (Some (s"write"))
          (Some (s"del")) (Some (s"forb")) (Some (s"stored")).
  Definition fs_bad : fs :=
    mkFs [ (s"/s", NDir); (s"/p", NDir); (s"/u", NDir); (s"/q", NDir); (s"/o", NDir); (s"/o/w", NDir);
           (s"/w", NDir); (s"/bin", NDir);
           (s"/o/w/a", NFile 3); (s"/w/a", NFile 4); (s"/bin/vi", NFile 6) ]
         [ (3, mkFile ((s"old" ++ [ch_nl])%list) true); (4, mkFile (s"hello") true);
           (6, mkFile (s"x") true) ]
         8.
  Definition h_bad : handler := mkH cfg_bad None 1 (mkQ (s"/q") 0 0 0%Z 16 []) (Some jn0) [] [].
  Definition w_bad : world := mkW fs_bad 0 [] 0%Z tr_empty.
  Definition evs_bad : list jevent :=
    [ JClock 100; JExec 7 (s"/bin/vi"); JWrite 7 (s"/w/a") None; JClock 200; JTimeout false ].

  Lemma journal_append_only_without_jsep_refuted :
    h_journal h_bad = Some jn0 /\ joff_ok (h_cfg h_bad) /\ Forall (quiet (h_cfg_path h_bad)) evs_bad /\
    JournalProofs.benign no_faults /\
    jsepb (h_cfg h_bad) (j_ino jn0) (w_fs w_bad) = false /\
    let w' := snd (jrun evs_bad h_bad no_faults w_bad) in
    tr_ok (w_tr w') = true /\
    f_bytes (get_file (w_fs w_bad) 3) = (s"old" ++ [ch_nl])%list /\
    f_bytes (get_file (w_fs w') 3) = (s"5" ++ journal_line (s"200") (s"stored") 0 (s"w/a"))%list /\
    ~ exists t, f_bytes (get_file (w_fs w') 3) = (f_bytes (get_file (w_fs w_bad) 3) ++ t)%list.
  Proof.
    split; [reflexivity|]. split; [apply joff_okb_ok; vm_compute; reflexivity|].
    split; [repeat constructor|]. split; [apply no_faults_benign|].
    split; [vm_compute; reflexivity|]. cbv zeta.
    split; [vm_compute; reflexivity|]. split; [vm_compute; reflexivity|].
    split; [vm_compute; reflexivity|].
    intros [t Ht]. vm_compute in Ht. discriminate Ht.
  Qed.

  (* ---------- an exec event that is not journalled ---------- *)

  (* An executable whose name is in the editor set and whose PT_INTERP segment
     names a path that does not exist ("/x"): realpath fails, the error trace
     is set before record_event, nothing is journalled and the event ends in
     an error (main.c then exits).  Fault-free oracle. *)
  Fixpoint le (k : nat) (n : N) : str :=
    match k with O => [] | S k' => ascii_of_N (N.modulo n 256) :: le k' (N.div n 256) end.
  Definition zeros (k : nat) : str := repeat (ascii_of_N 0) k.
  Definition elf_img : str :=
    (elf_magic ++ zeros 28 ++ le 8 64 ++ zeros 16 ++ le 2 1 ++ zeros 6 ++      (* ELF header: e_phoff 64, e_phnum 1 *)
     le 4 3 ++ zeros 4 ++ le 8 120 ++ zeros 16 ++ le 8 3 ++ zeros 16 ++       (* PT_INTERP at 120, 3 bytes *)
     s"/x" ++ zeros 1)%list.
  Definition fs_elf : fs :=
    mkFs (fs_dents fs0)
         [ (3, mkFile ((s"old" ++ [ch_nl])%list) true); (4, mkFile (s"hello") true);
           (5, mkFile (s"secret") false); (6, mkFile elf_img true); (7, mkFile (s"y") true) ] 8.
  Definition w_elf : world := mkW fs_elf 0 [] 100%Z tr_empty.

  Example exec_editor_missing_interpreter_not_journalled :
    let res := jstep (JExec 7 (s"/bin/vi")) h0 no_faults w_elf in
    exec_label cfg0 (s"/bin/vi") = Some (s"exec") /\
    (match fst res with Some h => h_pids h | None => [] end) = [7%N] /\
    t_frames (w_tr (snd res)) = [FErrno ENOENT] /\
    f_bytes (get_file (w_fs (snd res)) 3) = f_bytes (get_file (w_fs w_elf) 3).
  Proof. vm_compute. repeat split. Qed.

End JournalHistoryExample.

Print Assumptions JournalHistoryExample.run_computed.
Print Assumptions JournalHistoryExample.hyps_hold.
Print Assumptions JournalHistoryExample.append_only_instance.
Print Assumptions JournalHistoryExample.whole_lines_instance.
Print Assumptions JournalHistoryExample.exact_lines_instance.
Print Assumptions JournalHistoryExample.journal_append_only_without_jsep_refuted.
Print Assumptions JournalHistoryExample.exec_editor_missing_interpreter_not_journalled.
