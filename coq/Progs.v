(* Models of parents.c, counter.c, sync.c, journal.c, timestamp.c, storepath.c,
   extension.c as programs over the effect layer.  They mirror the C control
   flow call by call.  No proofs here. *)
From K Require Export World.

Definition when_ok {A} (dflt : A) (m : M A) : M A :=
  do b <- is_ok; if b then m else ret_ dflt.

(* ---------- parents.c ---------- *)

(* the prefixes ending just before each '/' whose index is > 0 *)
Fixpoint parents_of_aux (pre_rev rest : str) : list str :=
  match rest with
  | [] => []
  | c :: r =>
      (if is_slash c && negb (match pre_rev with [] => true | _ => false end)
       then [rev pre_rev] else [])
      ++ parents_of_aux (c :: pre_rev) r
  end.
Definition parents_of (p : str) : list str := parents_of_aux [] p.

Fixpoint mkdir_all (ds : list str) : M unit :=
  match ds with
  | [] => ret_ tt
  | d :: ds' =>
      do r <- k_mkdir d;
      match r with
      | None | Some EEXIST => mkdir_all ds'
      | Some e => throw_errno e;; throw_context d;; throw_static M_cannot_create_ancestor
      end
  end.

Definition create_parents (path : str) : M unit :=
  when_ok tt (mkdir_all (parents_of path)).

Fixpoint rmdir_up (ds : list str) : M unit :=
  match ds with
  | [] => ret_ tt
  | d :: ds' =>
      do r <- k_rmdir d;
      match r with
      | None => rmdir_up ds'
      | Some ENOTEMPTY => ret_ tt
      | Some e => throw_errno e;; throw_context d;; throw_static M_cannot_remove_ancestor
      end
  end.

Definition remove_empty_parents (path : str) : M unit :=
  when_ok tt (rmdir_up (rev (parents_of path))).

(* sync.c: clean_up -- errors of the clean-up go to a private trace and are dropped *)
Definition clean_up (dst : str) : M unit :=
  do t <- get_tr;
  set_tr (tr_try tr_empty);;
  remove_empty_parents dst;;
  set_tr t.

(* ---------- counter.c ---------- *)

Fixpoint read_digits (fuel : nat) (d : fd) (pos : nat) (acc : N) : M N :=
  match fuel with
  | O => ret_ acc
  | S fuel' =>
      do r <- match d with
              | FdFile i => k_read1 i pos
              | FdDir _ => sys (CRead 1) (fun f => (RErr EISDIR, inr EISDIR, f)) (fun e => inr e)
              end;
      match r with
      | inr e => throw_errno e;; ret_ acc
      | inl None => ret_ acc
      | inl (Some c) =>
          if is_digit c then read_digits fuel' d (S pos) (acc * 10 + digit_val c)%N
          else ret_ acc
      end
  end.

Definition file_len (d : fd) : M nat :=
  do f <- get_fs;
  ret_ (match d with FdFile i => length (f_bytes (get_file f i)) | FdDir _ => 0 end).

Definition read_counter (path : str) : M N :=
  when_ok 0%N
    (do r <- k_open_read path;
     match r with
     | inr ENOENT => ret_ 0%N
     | inr e => throw_errno e;; ret_ 0%N
     | inl d =>
         do n <- file_len d;
         do c <- read_digits (S n) d 0 0%N;
         k_close;; ret_ c
     end).

Fixpoint write_digits (i : nat) (ds : str) : M unit :=
  match ds with
  | [] => ret_ tt
  | c :: ds' =>
      do b <- is_ok;
      if b then
        do r <- k_write i [c];
        match r with
        | inl _ => write_digits i ds'
        | inr e => throw_errno e
        end
      else ret_ tt
  end.

Definition write_counter (path : str) (counter : N) : M unit :=
  when_ok tt
    (if (counter =? 0)%N then
       do r <- k_unlink path;
       match r with
       | None => remove_empty_parents path
       | Some ENOENT => ret_ tt
       | Some e => throw_errno e
       end
     else
       create_parents path;;
       do b <- is_ok;
       if b then
         do r <- k_open_w path;
         match r with
         | inr e => throw_errno e
         | inl (FdDir _) => ret_ tt
         | inl (FdFile i) =>
             do t <- k_ftruncate i;
             match t with Some e => throw_errno e | None => ret_ tt end;;
             write_digits i (dec counter);;
             k_close;; ret_ tt
         end
       else ret_ tt).

(* ---------- sync.c: sync_file ---------- *)

Fixpoint sendfile_loop (fuel : nat) (out inp : nat) (off size : nat) : M (option nat) :=
  match fuel with
  | O => ret_ (Some off)
  | S fuel' =>
      match size with
      | O => ret_ (Some off)
      | _ =>
          do r <- k_sendfile out inp off size;
          match r with
          | inr e => throw_errno e;; ret_ None
          | inl O => ret_ (Some off)
          | inl w => sendfile_loop fuel' out inp (off + w) (size - w)
          end
      end
  end.

(* returns the new source offset (0 on failure) *)
Definition sync_file (dst src : str) (off : nat) : M nat :=
  when_ok 0
    (create_parents dst;;
     do b <- is_ok;
     if negb b then clean_up dst;; ret_ 0
     else
       do rin <- k_open_read src;
       match rin with
       | inr e =>
           match e with
           | ENOENT | ENOTDIR => throw_static M_src_missing     (* the path no longer leads to a file *)
           | EACCES => throw_static M_src_denied
           | _ => throw_errno e
           end;;
           clean_up dst;; ret_ 0
       | inl ind =>
           do rout <- k_open_excl dst;
           match rout with
           | inr e =>
               match e with EEXIST => throw_static M_dst_exists | _ => throw_errno e end;;
               k_close;; clean_up dst;; ret_ 0
           | inl (FdDir _) => ret_ 0     (* impossible: O_CREAT|O_EXCL yields a file *)
           | inl (FdFile out) =>
               do st <- k_fstat ind;
               match st with
               | inr e =>
                   throw_errno e;; k_close;; k_close;; k_unlink dst;; clean_up dst;; ret_ 0
               | inl (false, _) =>
                   throw_static M_not_regular;; k_close;; k_close;; k_unlink dst;; clean_up dst;; ret_ 0
               | inl (true, size) =>
                   let inp := match ind with FdFile i => i | FdDir _ => 0 end in
                   do r <- sendfile_loop (S size) out inp off size;
                   match r with
                   | None => k_close;; k_close;; k_unlink dst;; clean_up dst;; ret_ 0
                   | Some off' =>
                       do c <- k_close;
                       match c with
                       | Some e => throw_errno e;; k_close;; k_unlink dst;; clean_up dst;; ret_ 0
                       | None => k_close;; ret_ off'
                       end
                   end
               end
           end
       end).

(* ---------- timestamp.c (strftime restricted to literals, %s and %%) ---------- *)

Fixpoint expand_pattern (p : str) (secs : str) : str :=
  match p with
  | [] => []
  | c :: r =>
      if Ascii.eqb c "%"%char then
        match r with
        | c2 :: r' =>
            if Ascii.eqb c2 "s"%char then secs ++ expand_pattern r' secs
            else if Ascii.eqb c2 "%"%char then c2 :: expand_pattern r' secs
            else c :: expand_pattern r secs
        | [] => [c]
        end
      else c :: expand_pattern r secs
  end.

Definition name_max : nat := 255.

Definition get_timestamp (pattern : str) : M (option str) :=
  do now <- get_clock;
  do b <- is_ok;
  if b then
    let s := expand_pattern pattern (dec (Z.to_N now)) in
    if Nat.ltb name_max (length s) then throw_static M_ts_overflow;; ret_ None
    else ret_ (Some s)
  else ret_ None.

(* ---------- extension.c, storepath.c ---------- *)

Definition get_file_extension (path : str) : str :=
  let base := basename path in
  match index is_dot base with
  | None => []
  | Some O =>
      match index is_dot (skipn 1 base) with
      | None => []
      | Some j => skipn (S j) base
      end
  | Some i => skipn i base
  end.

Record store_path := mkSP { sp_base : str; sp_ext : str; sp_dups : N }.

Definition create_store_path (root rel version : str) : store_path :=
  mkSP (root ++ ch_slash :: rel ++ ch_slash :: version) (get_file_extension rel) 0.

Definition current_path (sp : store_path) : str :=
  if (sp_dups sp =? 0)%N then sp_base sp ++ sp_ext sp
  else sp_base sp ++ ch_dash :: dec (sp_dups sp) ++ sp_ext sp.

Definition increment (sp : store_path) : store_path :=
  mkSP (sp_base sp) (sp_ext sp) (sp_dups sp + 1).

(* ---------- journal.c ---------- *)

Record journal := mkJ { j_ino : nat; j_pattern : str }.

Definition open_journal (path : option str) (pattern : str) : M (option journal) :=
  match path with
  | None => ret_ None
  | Some p =>
      create_parents p;;
      do b <- is_ok;
      if negb b then ret_ None
      else
        do r <- k_open_a p;
        match r with
        | inr e => throw_errno e;; ret_ None
        | inl (FdDir _) => ret_ None
        | inl (FdFile i) => ret_ (Some (mkJ i pattern))
        end
  end.

Fixpoint write_all (fuel : nat) (i : nat) (bytes : str) : M unit :=
  match fuel with
  | O => ret_ tt
  | S fuel' =>
      match bytes with
      | [] => ret_ tt
      | _ =>
          do r <- k_write i bytes;
          match r with
          | inr e => throw_errno e
          | inl n => write_all fuel' i (skipn n bytes)
          end
      end
  end.

Definition journal_line (ts : str) (event : str) (pid : N) (path : str) : str :=
  (match ts with [] => [] | _ => ts ++ [ch_tab] end) ++
  (match event with [] => [] | _ => event ++ [ch_tab] end) ++
  (if (pid =? 0)%N then [] else dec pid ++ [ch_tab]) ++
  path ++ [ch_nl].

Definition note (event : option str) (pid : N) (path : str) (j : option journal) : M unit :=
  match j, event with
  | Some jn, Some ev =>
      when_ok tt
        (do ts <- get_timestamp (j_pattern jn);
         match ts with
         | None => ret_ tt
         | Some t =>
             let line := journal_line t ev pid path in
             write_all (S (length line)) (j_ino jn) line
         end)
  | _, _ => ret_ tt
  end.
