(* C15 The string multiset counts exactly.
   Only statements, closed by [exact lemma], with Print Assumptions. *)
From K Require Import Str SetM SetProofs.

(* the reported multiplicity of every string equals insertions minus effective
   removals (reference: a function str -> nat, pop saturating at 0), for every
   size guess (0 included), every operation sequence and every string *)
Theorem C15_counts : forall (g : nat) (ops : list set_op) (v : str),
  get_count v (set_run g ops) = ref_count ops v.
Proof. exact counts_correct. Qed.
Print Assumptions C15_counts.

(* the set reports itself empty exactly when every multiplicity is zero *)
Theorem C15_empty_iff : forall (g : nat) (ops : list set_op),
  is_empty (set_run g ops) = true <-> forall v, get_count v (set_run g ops) = 0.
Proof. exact empty_iff. Qed.
Print Assumptions C15_empty_iff.

(* the structural invariant (positive counts, duplicate-free chains, entry in
   its hash's bucket, empty_head_count = number of empty buckets) holds in every
   reachable state; in particular the assert in is_empty never fires *)
Theorem C15_inv : forall (g : nat) (ops : list set_op), Inv (set_run g ops).
Proof. exact Inv_run. Qed.
Print Assumptions C15_inv.

Theorem C15_assert_holds : forall (g : nat) (ops : list set_op),
  s_ehc (set_run g ops) <= set_size (set_run g ops).
Proof. exact ehc_bounded. Qed.
Print Assumptions C15_assert_holds.

(* the lazily extended hash cache always yields the hash of the current contents *)
Theorem C15_hash_cache : forall (ops : list buf_op),
  fst (buf_run ops buf_empty) = buf_ref ops [].
Proof. intros ops. exact (proj1 (buf_run_correct ops buf_empty buf_ok_empty)). Qed.
Print Assumptions C15_hash_cache.

(* non-vacuity: a concrete run with a collision in a 2-bucket table *)
Example C15_example :
  let ops := [SAdd ["a"%char]; SAdd ["c"%char]; SAdd ["a"%char]; SPop ["c"%char]; SPop ["c"%char]] in
  bucket_of ["a"%char] (set_run 0 ops) = bucket_of ["c"%char] (set_run 0 ops) /\
  get_count ["a"%char] (set_run 0 ops) = 2 /\ get_count ["c"%char] (set_run 0 ops) = 0 /\
  is_empty (set_run 0 ops) = false.
Proof. vm_compute. auto. Qed.
