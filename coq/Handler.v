(* Models of linq.c over system calls, elfinterp.c, and handler.c.
   Mirrors the (repaired) C control flow call by call.  No proofs here. *)
From K Require Export Progs Sieve Elf.
From K Require Import Linq.   (* encode / decode / strip *)

(* ---------- configuration as the handler sees it ---------- *)

Record config := mkCfg {
  c_editors : list str;
  c_rules : rules;
  c_store_root : str;
  c_project_store_root : str;
  c_unstable_root : str;
  c_queue_path : str;
  c_journal_path : option str;
  c_offset_root : str;
  c_journal_pattern : str;
  c_version_pattern : str;
  c_debounce : Z;
  c_queue_size_guess : nat;
  c_path_length_guess : nat;
  c_ev_exec_not_editor : option str;
  c_ev_exec_editor : option str;
  c_ev_write_not_by_editor : option str;
  c_ev_write_by_editor : option str;
  c_ev_deleted : option str;
  c_ev_forbidden : option str;
  c_ev_stored : option str
}.

(* ---------- the queue over system calls ---------- *)

Record qmem := mkQ {
  q_dir : str;            (* the directory behind dirfd *)
  q_head : N;
  q_size : N;
  q_deb : Z;
  q_len_guess : nat;
  q_bag : list str        (* the multiset of queued paths (C15: counts are exact) *)
}.

Definition bag_count (v : str) (b : list str) : nat := length (filter (str_eqb v) b).
Fixpoint bag_remove (v : str) (b : list str) : list str :=
  match b with
  | [] => []
  | x :: b' => if str_eqb v x then b' else x :: bag_remove v b'
  end.

Fixpoint read_entry_loop (fuel : nat) (dir name : str) (size : nat) : M (option str) :=
  match fuel with
  | O => ret_ None
  | S fuel' =>
      try_;;
      do r <- k_readlinkat dir name size;
      match r with inr e => throw_errno e | inl _ => ret_ tt end;;
      rethrow_context name;;
      finally_rethrow_static M_invalid_entry;;
      do b <- is_ok;
      if negb b then ret_ None
      else
        match r with
        | inl t => if Nat.ltb (length t) size then ret_ (Some t)
                   else read_entry_loop fuel' dir name (size * 2)
        | inr _ => ret_ None
        end
  end.

Definition read_entry (q : qmem) (name : str) : M (option str) :=
  when_ok None (read_entry_loop 64 (q_dir q) name (S (q_len_guess q))).

Definition name_num (s : str) : N := undec s.     (* strtol(name, NULL, 10) *)

Fixpoint fill_bag (q : qmem) (names : list str) (bag : list str) : M (list str) :=
  match names with
  | [] => ret_ bag
  | n :: names' =>
      do b <- is_ok;
      if negb b then ret_ bag
      else
        do t <- read_entry q n;
        match t with
        | Some target => fill_bag q names' (strip target :: bag)
        | None => ret_ bag
        end
  end.

Fixpoint load_linq_aux (try_create : bool) (fuel : nat) (path : str) (deb : Z) (len_guess : nat) : M (option qmem) :=
  when_ok None
    (do r <- k_scandir path;
     match r with
     | inr e =>
         match e, try_create, fuel with
         | ENOENT, true, S fuel' =>
             create_parents path;;
             do b <- is_ok;
             (if b then
                do m <- k_mkdir path;
                match m with Some e' => throw_errno e' | None => ret_ tt end
              else ret_ tt);;
             load_linq_aux false fuel' path deb len_guess
         | _, _, _ => throw_errno e;; ret_ None
         end
     | inl names =>
         let sorted := sort_by (fun a b => (name_num a <=? name_num b)%N) names in
         do d <- k_open_dir path;
         match d with inr e => throw_errno e | inl _ => ret_ tt end;;
         do b <- is_ok;
         let q0 := mkQ path (match sorted with [] => 0%N | n :: _ => name_num n end)
                       (N.of_nat (length sorted)) deb len_guess [] in
         do bag <- fill_bag q0 sorted [];
         do b' <- is_ok;
         if b' then ret_ (Some (mkQ path (q_head q0) (q_size q0) deb len_guess bag))
         else ret_ None
     end).

Definition load_linq (path : str) (deb : Z) (len_guess : nat) : M (option qmem) :=
  load_linq_aux true 1 path deb len_guess.

Definition q_push (path : str) (meta : N) (q : qmem) : M qmem :=
  when_ok q
    (let name := dec (q_head q + q_size q) in
     do r <- k_symlinkat (encode meta path) (q_dir q) name;
     match r with
     | Some e => throw_errno e;; ret_ q
     | None => ret_ (mkQ (q_dir q) (q_head q) (q_size q + 1) (q_deb q) (q_len_guess q) (path :: q_bag q))
     end).

Definition q_pop_head (q : qmem) : M qmem :=
  when_ok q
    (let name := dec (q_head q) in
     do t <- read_entry q name;
     do b <- is_ok;
     if negb b then ret_ q
     else
       do r <- k_unlinkat (q_dir q) name;
       match r with
       | Some e => throw_errno e;; ret_ q
       | None =>
           let size' := (q_size q - 1)%N in
           ret_ (mkQ (q_dir q) (if (size' =? 0)%N then 0%N else (q_head q + 1)%N) size'
                     (q_deb q) (q_len_guess q)
                     (bag_remove (strip (match t with Some x => x | None => [] end)) (q_bag q)))
       end).

Inductive qhead := QPause (z : Z) | QReady (path : str) (meta : N).

Fixpoint q_get_head (fuel : nat) (q : qmem) : M (option qhead * qmem) :=
  do b <- is_ok;
  if negb b then ret_ (None, q)
  else if (q_size q =? 0)%N then ret_ (Some (QPause (-1)), q)
  else
    let name := dec (q_head q) in
    do st <- k_fstatat_mtime (q_dir q) name;
    match st with
    | inr e => throw_errno e;; ret_ (None, q)
    | inl mtime =>
        do now <- get_clock;
        let age := (now - mtime)%Z in
        if (age <? q_deb q)%Z then ret_ (Some (QPause (q_deb q - age)%Z), q)
        else
          do t <- read_entry q name;
          do b2 <- is_ok;
          match t, b2 with
          | Some target, true =>
              let '(meta, path) := decode target in
              if Nat.ltb 1 (bag_count path (q_bag q)) then
                match fuel with
                | O => ret_ (None, q)
                | S fuel' => do q' <- q_pop_head q; q_get_head fuel' q'
                end
              else ret_ (Some (QReady path meta), q)
          | _, _ => ret_ (None, q)
          end
    end.

(* ---------- handler.c ---------- *)

Record handler := mkH {
  h_cfg : config;
  h_cfg_path : option str;
  h_cpl : nat;
  h_q : qmem;
  h_journal : option journal;
  h_pids : list N;             (* the editor pid bit table as a set *)
  h_interps : list str         (* multiset of ELF interpreters *)
}.

Definition set_q (q : qmem) (h : handler) : handler :=
  mkH (h_cfg h) (h_cfg_path h) (h_cpl h) q (h_journal h) (h_pids h) (h_interps h).

Definition pid_mem (p : N) (l : list N) : bool := existsb (N.eqb p) l.
Definition pid_remove (p : N) (l : list N) : list N := filter (fun x => negb (N.eqb p x)) l.

Definition load_handler (cfg : config) (cfg_path : option str) (cpl : nat) : M (option handler) :=
  (* configuration loading itself is Lua; its result [cfg] comes from the script *)
  try_;;
  do q <- load_linq (c_queue_path cfg) (c_debounce cfg) (c_path_length_guess cfg);
  rethrow_context (c_queue_path cfg);;
  finally_rethrow_static M_linq_cannot_load;;
  try_;;
  do j <- open_journal (c_journal_path cfg) (c_journal_pattern cfg);
  match c_journal_path cfg with Some p => rethrow_context p | None => ret_ tt end;;
  finally_rethrow_static M_journal_cannot_open;;
  do b <- is_ok;
  match b, q with
  | true, Some qm => ret_ (Some (mkH cfg cfg_path cpl qm j [] []))
  | _, _ =>
      (* free_handler: free_journal, then free_linq *)
      match j with Some _ => k_close;; ret_ tt | None => ret_ tt end;;
      match q with Some _ => k_close;; ret_ tt | None => ret_ tt end;;
      ret_ None
  end.

Definition free_handler (h : handler) : M unit :=
  match h_journal h with Some _ => k_close;; ret_ tt | None => ret_ tt end;;
  k_close;; ret_ tt.

Definition record_event (event : option str) (pid : N) (path : str) (h : handler) : M unit :=
  try_;;
  note event pid path (h_journal h);;
  match c_journal_path (h_cfg h) with Some p => rethrow_context p | None => ret_ tt end;;
  finally_rethrow_static M_journal_cannot_write.

(* the executable is given by its path; its content is read through descriptor [ino] *)
Definition handle_open_exec (pid : N) (file_path : str) (h : handler) : M handler :=
  when_ok h
    (let exe := basename file_path in
     do f <- get_fs;
     do h' <-
       (if mem exe (c_editors (h_cfg h)) then
          let pids := if pid_mem pid (h_pids h) then h_pids h else pid :: h_pids h in
          do interp <- match lookup f file_path with
                       | Some (NFile i) => get_elf_interpreter i
                       | _ => ret_ None
                       end;
          do b <- is_ok;
          ret_ (mkH (h_cfg h) (h_cfg_path h) (h_cpl h) (h_q h) (h_journal h) pids
                    (match interp, b with Some s, true => s :: h_interps h | _, _ => h_interps h end),
                c_ev_exec_editor (h_cfg h))
        else if pid_mem pid (h_pids h) then
          do b <- is_ok;
          if b && negb (mem file_path (h_interps h)) then
            ret_ (mkH (h_cfg h) (h_cfg_path h) (h_cpl h) (h_q h) (h_journal h)
                      (pid_remove pid (h_pids h)) (h_interps h),
                  c_ev_exec_not_editor (h_cfg h))
          else ret_ (h, c_ev_exec_not_editor (h_cfg h))
        else ret_ (h, c_ev_exec_not_editor (h_cfg h)));
     record_event (snd h') pid file_path (fst h');;
     ret_ (fst h')).

Definition push_to_linq (pid : N) (path : str) (h : handler) : M (bool * handler) :=
  when_ok (false, h)
    (let '(pushed, is_hist, pre) :=
       push_decision (c_rules (h_cfg h)) (h_cpl h) (pid_mem pid (h_pids h)) path in
     if negb pushed then ret_ (false, h)
     else
       try_;;
       do q1 <- q_push path (linq_meta is_hist pre) (h_q h);
       rethrow_context path;;
       finally_rethrow_static M_linq_cannot_push;;
       match pre with
       | None => ret_ (true, set_q q1 h)
       | Some k =>
           let root := firstn k path in
           try_;;
           do q2 <- q_push root 1%N q1;
           rethrow_context root;;
           finally_rethrow_static M_linq_cannot_push;;
           ret_ (true, set_q q2 h)
       end).

(* [new_cfg]: what load_config yields for the rewritten file (None: the file is invalid) *)
Definition reload (new_cfg : option config) (h : handler) : M handler :=
  match h_cfg_path h with
  | None => ret_ h
  | Some cp =>
      try_;;
      match new_cfg with None => throw (FDyn []) | Some _ => ret_ tt end;;
      rethrow_context cp;;
      finally_rethrow_static M_cfg_cannot_reload;;
      match new_cfg with
      | None => ret_ h
      | Some nc =>
          do b <- is_ok;
          do nq <-
            (if b && negb (str_eqb (c_queue_path (h_cfg h)) (c_queue_path nc)) then
               try_;;
               do q <- load_linq (c_queue_path nc) (c_debounce nc) (c_path_length_guess nc);
               rethrow_context (c_queue_path nc);;
               finally_rethrow_static M_linq_cannot_reload;;
               ret_ q
             else ret_ None);
          do b2 <- is_ok;
          do nj <-
            (if b2 then
               try_;;
               do j <- open_journal (c_journal_path nc) (c_journal_pattern nc);
               match c_journal_path nc with Some p => rethrow_context p | None => ret_ tt end;;
               finally_rethrow_static M_journal_cannot_open;;
               ret_ j
             else ret_ None);
          do b3 <- is_ok;
          if b3 then
            (* close of the old journal / queue descriptors *)
            match h_journal h with Some _ => k_close;; ret_ tt | None => ret_ tt end;;
            match nq with Some _ => k_close;; ret_ tt | None => ret_ tt end;;
            let q := match nq with Some q' => q' | None => h_q h end in
            ret_ (mkH nc (h_cfg_path h) (h_cpl h)
                      (mkQ (q_dir q) (q_head q) (q_size q) (c_debounce nc) (q_len_guess q) (q_bag q))
                      nj (h_pids h) (h_interps h))
          else ret_ h
      end
  end.

Definition handle_close_write (pid : N) (file_path : str) (new_cfg : option config) (h : handler) : M handler :=
  when_ok h
    (do r <- push_to_linq pid file_path h;
     let '(pushed, h1) := r in
     let event := if pushed then c_ev_write_by_editor (h_cfg h1) else c_ev_write_not_by_editor (h_cfg h1) in
     record_event event pid file_path h1;;
     do b <- is_ok;
     match b, h_cfg_path h1 with
     | true, Some cp => if str_eqb file_path cp then reload new_cfg h1 else ret_ h1
     | _, _ => ret_ h1
     end).

(* ----- sync_shallow_tree ----- *)

Fixpoint tree_loop (ents : list (str * wkind)) (src_len : nat) (dst filter_root : str) : M unit :=
  match ents with
  | [] => ret_ tt
  | (p, k) :: ents' =>
      do b <- is_ok;
      if negb b then ret_ tt
      else
        let rel := skipn (S src_len) p in      (* entry path minus "<source>/" *)
        let filt := filter_root ++ ch_slash :: rel in
        match k with
        | WD =>
            do ex <- k_access filt;
            (if ex then
               do r <- k_mkdirat dst rel;
               match r with Some e => throw_errno e | None => ret_ tt end
             else ret_ tt)
        | WDP =>
            do ex <- k_access filt;
            (if ex then ret_ tt
             else do r <- k_rmdir p; match r with Some e => throw_errno e | None => ret_ tt end)
        | WF =>
            do ex <- k_access filt;
            (if ex then
               do r <- k_linkat p dst rel;
               match r with Some e => throw_errno e | None => ret_ tt end
             else do r <- k_unlink p; match r with Some e => throw_errno e | None => ret_ tt end)
        end;;
        tree_loop ents' src_len dst filter_root
  end.

Definition sync_shallow_tree (reverse : bool) (dst src filter_root : str) : M unit :=
  create_parents dst;;
  do b <- is_ok;
  (if b then
     do r <- k_mkdir dst;
     match r with
     | None => ret_ tt
     | Some EEXIST => throw_static M_dst_exists
     | Some e => throw_errno e
     end
   else ret_ tt);;
  do b1 <- is_ok;
  do opened <-
    (if b1 then
       do d <- k_open_read dst;
       match d with inr e => throw_errno e;; ret_ false | inl _ => ret_ true end
     else ret_ false);
  do b2 <- is_ok;
  if negb b2 then
    (if opened then k_close;; ret_ tt else ret_ tt);;
    clean_up dst
  else
    do w <- k_fts reverse src;
    match w with
    | inr e =>
        match e with
        | ENOENT => throw_static M_src_missing
        | EACCES => throw_static M_src_denied
        | _ => throw_errno e
        end
    | inl ents => tree_loop ents (length src) dst filter_root
    end;;
    k_close;;
    do b3 <- is_ok;
    if negb b3 then clean_up dst else ret_ tt.

(* ----- handle_timeout ----- *)

Definition shift_right2 (m : N) : nat := N.to_nat (N.shiftr m 2).

(* start of the project name: scan back from the end of the project root to the previous '/' *)
Fixpoint name_start (path : str) (e : nat) (fuel : nat) : nat :=
  match fuel with
  | O => e
  | S fuel' =>
      match e with
      | O => O
      | S e' => match nth_error path e' with
                | Some c => if is_slash c then e else name_start path e' fuel'
                | None => e
                end
      end
  end.

Fixpoint project_store_loop (fuel : nat) (reverse : bool) (sp : store_path) (unstable head_path : str)
         (cfg : config) (event : option str) : M (option str) :=
  match fuel with
  | O => ret_ event
  | S fuel' =>
      do b <- is_ok;
      if negb b then ret_ event
      else
        try_;;
        sync_shallow_tree reverse (current_path sp) unstable head_path;;
        do c <- catch_static M_dst_exists;
        if c then finally_;; project_store_loop fuel' reverse (increment sp) unstable head_path cfg event
        else
          do c1 <- catch_static M_src_missing;
          do ev <-
            (if c1 then ret_ (c_ev_deleted cfg)
             else do c2 <- catch_static M_src_denied;
                  if c2 then ret_ (c_ev_forbidden cfg) else ret_ event);
          finally_;; ret_ ev
  end.

(* the copy loop of a file head; returns (event, is_stored, store path) *)
Fixpoint file_store_loop (fuel : nat) (sp : store_path) (head_path offset_path : str)
         (offset : nat) (is_history : bool) (cfg : config) : M (option str * bool * store_path) :=
  match fuel with
  | O => ret_ (c_ev_stored cfg, false, sp)
  | S fuel' =>
      try_;;
      do no <- sync_file (current_path sp) head_path offset;
      let new_offset := if is_history then no else 0 in
      do c1 <- catch_static M_src_missing;
      do c2 <- (if c1 then ret_ true else catch_static M_not_regular);
      if c2 then finally_;; ret_ (c_ev_deleted cfg, false, sp)
      else
        do c3 <- catch_static M_src_denied;
        if c3 then finally_;; ret_ (c_ev_forbidden cfg, false, sp)
        else
          do c4 <- catch_static M_dst_exists;
          if c4 then file_store_loop fuel' (increment sp) head_path offset_path offset is_history cfg
          else
            write_counter offset_path (N.of_nat new_offset);;
            do b <- is_ok;
            finally_;; ret_ (c_ev_stored cfg, b, sp)
  end.

Definition dir_entry_count (f : fs) (d : str) : nat := length (children f d).

Inductive tresult := TPause (z : Z) | TError.

Fixpoint handle_timeout_loop (fuel : nat) (reverse : bool) (h : handler) : M (tresult * handler) :=
  match fuel with
  | O => ret_ (TError, h)
  | S fuel' =>
      do b <- is_ok;
      if negb b then ret_ (TError, h)
      else
        try_;;
        do r <- q_get_head (S (N.to_nat (q_size (h_q h)))) (h_q h);
        finally_rethrow_static M_linq_cannot_get_head;;
        let '(hd, q1) := r in
        let h1 := set_q q1 h in
        do b1 <- is_ok;
        match b1, hd with
        | true, Some (QPause z) => ret_ (TPause z, h1)
        | true, Some (QReady path meta) =>
            let cfg := h_cfg h1 in
            do v <- get_timestamp (c_version_pattern cfg);
            do bv <- is_ok;
            (match v, bv with
             | Some ver, true =>
                 if existsb is_slash ver then throw_context ver;; throw_static M_version_slashes else ret_ tt
             | _, _ => ret_ tt
             end);;
            do b2 <- is_ok;
            match v, b2 with
            | Some version, true =>
                let plen := length path in
                let is_project := N.odd meta in
                (* the stored offset is compared as a number: it can be huge in a hand-made entry *)
                if negb (prefixb [ch_slash] path) || is_slash (last path ch_dot) || (N.of_nat plen <? N.shiftr meta 2)%N
                   || (Nat.ltb plen (h_cpl h1) && negb is_project) then
                  throw_context path;; throw_static M_invalid_entry;; ret_ (TError, h1)
                else
                  let pre_off := shift_right2 meta in
                  let rel := skipn (Nat.min plen (h_cpl h1)) path in
                  if is_project then
                    let pname := basename path in
                    let sp := create_store_path (c_project_store_root cfg) pname version in
                    let unstable := c_unstable_root cfg ++ ch_slash :: pname in
                    do f <- get_fs;
                    do ev <- project_store_loop (S (S (dir_entry_count f (dirname (current_path sp)))))
                                                reverse sp unstable path cfg (c_ev_stored cfg);
                    record_event ev 0%N rel h1;;
                    do q2 <- q_pop_head (h_q h1);
                    handle_timeout_loop fuel' reverse (set_q q2 h1)
                  else
                    let sp := create_store_path (c_store_root cfg) rel version in
                    let offset_path := c_offset_root cfg ++ ch_slash :: rel in
                    let is_history := N.testbit meta 1 in
                    do off <- (if is_history then read_counter offset_path else ret_ 0%N);
                    do b3 <- is_ok;
                    if negb b3 then ret_ (TError, h1)
                    else
                      do f <- get_fs;
                      do r2 <- file_store_loop (S (S (dir_entry_count f (dirname (current_path sp)))))
                                               sp path offset_path (N.to_nat off) is_history cfg;
                      let '(ev, is_stored, sp') := r2 in
                      do q2 <- q_pop_head (h_q h1);
                      let h2 := set_q q2 h1 in
                      do b4 <- is_ok;
                      if negb b4 then
                        throw_context path;; throw_static M_store_cannot_copy;; ret_ (TError, h2)
                      else
                        (if Nat.ltb 0 pre_off && is_stored then
                           let ns := name_start path pre_off pre_off in
                           let project_path :=
                             c_unstable_root cfg ++ ch_slash :: (firstn (pre_off - ns) (skipn ns path))
                                                ++ skipn pre_off path in
                           do u <- k_unlink project_path;
                           match u with
                           | None | Some ENOENT => ret_ tt
                           | Some e => throw_errno e
                           end;;
                           create_parents project_path;;
                           do b5 <- is_ok;
                           (if b5 then
                              do l <- k_link (current_path sp') project_path;
                              match l with Some e => throw_errno e | None => ret_ tt end
                            else ret_ tt)
                         else ret_ tt);;
                        record_event ev 0%N rel h2;;
                        handle_timeout_loop fuel' reverse h2
            | _, _ => ret_ (TError, h1)
            end
        | _, _ => ret_ (TError, h1)
        end
  end.

Definition handle_timeout (reverse : bool) (h : handler) : M (tresult * handler) :=
  do r <- handle_timeout_loop (S (S (N.to_nat (q_size (h_q h))))) reverse h;
  do b <- is_ok;
  ret_ (if b then r else (TError, snd r)).
