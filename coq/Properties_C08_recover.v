(* C08 (and C03) for a HISTORY entry under crash: what a pass over one due history
   head leaves on disk under EVERY honest oracle (a crash at any call, failing
   calls), and what the restart then does.  HistCrash.v / HistPass.v /
   HistoryRecover.v.
   h1_ok = side conditions of the crashed pass (source a readable regular file
   with bytes b, 0 < length b, remembered position p0 <= length b in the position
   file, first candidate name free, ...); h2_ok = those of the restart pass.
   hcase ver pos queued = the four ways the crashed pass can end:
     (a) nothing changed; (b) a PREFIX of the slice under the first name, position
     untouched, entry queued; (c) the complete slice stored, the position file
     untouched or holding a decimal PREFIX of the new position (counter.c writes it
     digit by digit), entry queued; (d) slice stored, position = length b, popped.
   So the position read after a crash is never ahead of the bytes stored
   (C08_position_not_ahead): no byte can be skipped; it can be BEHIND - then the
   restart stores bytes again (at-least-once: the crash twin of finding K1). *)
From K Require Import Str Dec Trace Fs World Progs Handler Linq LinqSpec QueueProofs SyncProofs
     CrashCopy PassProofs PassProofs2 RecoverFrame HistPass HistCrash HistoryRecover.

Theorem C08_history_crash_leaves :
  forall (cfg : config) (cpl : nat) (oj : option journal) (d : str) (f0 : fs)
         (now : Z) (p : str) (t : Z) (i : nat) (b : str) (p0 : nat) (q0 : qmem),
  h1_ok cfg cpl oj d f0 now p t i b p0 q0 ->
  forall (o : oracle) (rev : bool) (h : handler) (w : world),
  honest o ->
  h_cfg h = cfg -> h_cpl h = cpl -> h_journal h = oj -> h_q h = q0 ->
  w_fs w = f0 -> w_clock w = now ->
  exists (ver pos : option str) (queued : bool),
    hcase b p0 ver pos queued /\
    HLeft cfg cpl oj f0 now p q0 ver pos queued (w_fs (snd (handle_timeout rev h o w))).
Proof. exact history_crash_leaves. Qed.
Print Assumptions C08_history_crash_leaves.

Theorem C08_position_not_ahead :
  forall (cfg : config) (cpl : nat) (oj : option journal) (d : str) (f0 : fs)
         (now : Z) (p : str) (t : Z) (i : nat) (b : str) (p0 : nat) (q0 : qmem),
  h1_ok cfg cpl oj d f0 now p t i b p0 q0 ->
  forall (ver pos : option str) (queued : bool),
  hcase b p0 ver pos queued ->
  pos_value p0 pos <= length b /\ pos_value p0 pos <= p0 + length (ver_bytes ver).
Proof. exact position_not_ahead. Qed.
Print Assumptions C08_position_not_ahead.

(* crash, restart, fault-free pass: the queue is empty, no error, the position is
   the length of the file, nothing old changed, and the new versions are exactly
   new_bytes of one of three outcomes *)
Theorem C08_history_recover :
  forall (cfg : config) (cpl : nat) (oj : option journal) (d : str) (f0 : fs)
         (now now2 : Z) (p : str) (t : Z) (i : nat) (b : str) (p0 : nat) (q0 : qmem),
  h1_ok cfg cpl oj d f0 now p t i b p0 q0 ->
  h2_ok cfg cpl oj d f0 now now2 p t q0 ->
  forall (o : oracle) (rev : bool) (h : handler) (w : world) (o2 : oracle) (w2 : world) (rev2 : bool),
  honest o -> benign o2 ->
  h_cfg h = cfg -> h_cpl h = cpl -> h_journal h = oj -> h_q h = q0 ->
  w_fs w = f0 -> w_clock w = now ->
  w_fs w2 = w_fs (snd (handle_timeout rev h o w)) -> w_clock w2 = now2 ->
  tr_ok (w_tr w2) = true -> t_post (w_tr w2) = 0 ->
  exists (ver pos : option str) (queued : bool) (q2 : qmem) (w2' : world) (h3 : handler)
         (w3 : world) (oc : outcome),
    hcase b p0 ver pos queued /\
    HLeft cfg cpl oj f0 now p q0 ver pos queued (w_fs w2) /\
    load_linq d (q_deb q0) (q_len_guess q0) o2 w2 = (Some (Some q2), w2') /\
    QRel q2 (w_fs w2') (if queued then [(p, 2%N, t)] else []) /\
    w_fs w2' = w_fs w2 /\
    handle_timeout rev2 (set_q q2 h) o2 w2' = (Some (TPause (-1), h3), w3) /\
    QRel (h_q h3) (w_fs w3) [] /\
    tr_ok (w_tr w3) = true /\
    (let f3 := w_fs w3 in
     pos_is f3 (offset_name cfg cpl p) (length b) /\
     (forall (x : str) (j : nat),
      lookup f0 x = Some (NFile j) -> under d x = false -> j < fs_next f0 -> nj oj j ->
      lookup f0 (offset_name cfg cpl p) <> Some (NFile j) ->
      lookup f3 x = Some (NFile j) /\ get_file f3 j = get_file f0 j) /\
     outcome_of cfg cpl now now2 p b p0 ver pos queued oc /\ stored cfg cpl f0 now p b p0 f3 oc).
Proof. exact history_recover. Qed.
Print Assumptions C08_history_recover.

(* NO BYTE IS LOST: whatever the outcome, the complete slice is among the new
   versions; and exactly what is stored twice, per outcome *)
Theorem C08_no_byte_lost :
  forall (cfg : config) (cpl : nat) (now now2 : Z) (p b : str) (p0 : nat) (ver pos : option str)
         (queued : bool) (oc : outcome),
  outcome_of cfg cpl now now2 p b p0 ver pos queued oc ->
  In (skipn p0 b) (new_bytes b p0 oc) /\ firstn p0 b ++ skipn p0 b = b.
Proof. exact no_byte_lost. Qed.
Print Assumptions C08_no_byte_lost.

Theorem C08_new_versions_concat :
  forall (cfg : config) (cpl : nat) (now now2 : Z) (p b : str) (p0 : nat) (ver pos : option str)
         (queued : bool) (oc : outcome),
  outcome_of cfg cpl now now2 p b p0 ver pos queued oc ->
  match oc with
  | OClean _ => firstn p0 b ++ concat (new_bytes b p0 oc) = b
  | OPartial m _ =>
      firstn p0 b ++ concat (new_bytes b p0 oc) = firstn p0 b ++ firstn m (skipn p0 b) ++ skipn p0 b
  | OAgain v _ => firstn p0 b ++ concat (new_bytes b p0 oc) = b ++ skipn v b
  end.
Proof. exact new_versions_concat. Qed.
Print Assumptions C08_new_versions_concat.

(* non-vacuity: /w/hist.log = "line1\n" ++ "second line\n", position 6; every crash
   index of the 24-call pass recovers; duplicates exactly for k in 12..19 *)
Example C08_recover_instance := HistoryRecoverExample.every_honest_oracle.
Example C08_crash_leaves_instance := HistoryRecoverExample.crash_leaves_every_honest_oracle.
