(* C19 Existing journal content is only ever appended to, across restarts --
   for the WHOLE PROGRAM (WholeResources.v), EVERY oracle (failing calls, short
   writes, a crash at any call).
     jbytes w i      the bytes of inode i in world w;
     jsep c i f      inode i is allocated and no name below the offset root of c
                     leads to it (JournalHistoryProofs: offset files are the
                     only files klunok truncates; without it the statement is
                     refuted there);
     joff_ok c       the project store and the unstable tree do not nest with
                     the offset root;
     no_cfg_event    no notification is a write of the configuration file (no
                     effective reload: a reload opens another journal,
                     Properties_C19_reload.v); quiet_notif: or its content does
                     not parse;
     envs_journal c i b0 ns   the NEnv steps leave the journal alone: in every
                     NEnv world inode i is still separated and its content
                     still starts with b0;  envs_journal_along: the same
                     relative to the world each NEnv replaces. *)
From K Require Import Str Dec Trace Fs World Progs Handler JournalProofs JournalHistoryProofs
     ReloadProofs ReloadHistory Main MainProofs Daemon DaemonProofs Klunok KlunokProofs WholeResources.
From Coq Require Import ZArith.

(* the event loop: whatever the run returns -- a result (it went through all
   the notifications, or stopped), or the process died at a call (r = None) --
   the bytes the journal had at the start are a prefix of its bytes at the end *)
Theorem C19_daemon_journal_append_only :
  forall (self : N) (rev : bool) (o : oracle) (ns : list notif) (pause : Z) (h : handler) (w : world)
         (jn : journal) (r : option (list out * handler)) (w' : world),
  h_journal h = Some jn -> joff_ok (h_cfg h) -> jsep (h_cfg h) (j_ino jn) (w_fs w) ->
  no_cfg_event (h_cfg_path h) ns ->
  envs_journal (h_cfg h) (j_ino jn) (jbytes w (j_ino jn)) ns ->
  daemon_loop self rev ns pause h o w = (r, w') ->
  exists s, jbytes w' (j_ino jn) = (jbytes w (j_ino jn) ++ s)%list.
Proof. exact daemon_journal_append_only. Qed.
Print Assumptions C19_daemon_journal_append_only.

(* the general form: malformed rewrites of the configuration file allowed, the
   environment condition relative to the world replaced; the separation is kept
   and a surviving handler holds the same journal, so the statement chains *)
Theorem C19_daemon_journal_append_only_gen :
  forall (self : N) (rev : bool) (o : oracle) (ns : list notif) (pause : Z) (h : handler) (w : world)
         (jn : journal) (r : option (list out * handler)) (w' : world),
  h_journal h = Some jn -> joff_ok (h_cfg h) -> jsep (h_cfg h) (j_ino jn) (w_fs w) ->
  Forall (quiet_notif (h_cfg_path h)) ns ->
  envs_journal_along self rev o (h_cfg h) (j_ino jn) (jbytes w (j_ino jn)) ns h w ->
  daemon_loop self rev ns pause h o w = (r, w') ->
  (exists s, jbytes w' (j_ino jn) = (jbytes w (j_ino jn) ++ s)%list) /\
  jsep (h_cfg h) (j_ino jn) (w_fs w') /\
  (forall outs h', r = Some (outs, h') ->
     h_journal h' = Some jn /\ h_cfg h' = h_cfg h /\ h_cfg_path h' = h_cfg_path h).
Proof. exact daemon_journal_append_only_gen. Qed.
Print Assumptions C19_daemon_journal_append_only_gen.

(* "across restarts": load_handler opens the journal with O_APPEND | O_CREAT;
   when the journal path names a file, that file (the same inode) is the journal
   of the new handler and load_handler does not change a byte of it, whether it
   succeeds, fails, or the process dies in it *)
Theorem C19_load_handler_keeps_journal :
  forall (o : oracle) (cfg : config) (cp : option str) (cpl : nat) (w : world)
         (r : option (option handler)) (w' : world) (jp : str) (i : nat),
  c_journal_path cfg = Some jp -> lookup (w_fs w) jp = Some (NFile i) -> jsep cfg i (w_fs w) ->
  load_handler cfg cp cpl o w = (r, w') ->
  jbytes w' i = jbytes w i /\ jsep cfg i (w_fs w') /\ lookup (w_fs w') jp = Some (NFile i) /\
  forall h, r = Some (Some h) -> exists jn, h_journal h = Some jn /\ j_ino jn = i.
Proof. exact load_handler_keeps_journal. Qed.
Print Assumptions C19_load_handler_keeps_journal.

(* the whole program, from the command line on: the journal file that exists
   when klunok starts keeps its bytes as a prefix whatever happens -- start-up
   fails, load_handler fails, the daemon runs, stops, or the process dies at
   any call in load_handler or in the loop *)
Theorem C19_klunok_journal_append_only :
  forall (env : Main.env) (cfg : config) (rev : bool) (ns : list notif) (o : oracle) (w : world)
         (jp : str) (i : nat) (r : option (list out)) (w' : world),
  c_journal_path cfg = Some jp -> lookup (w_fs w) jp = Some (NFile i) ->
  joff_ok cfg -> jsep cfg i (w_fs w) ->
  no_cfg_event (startup_cfg_path env) ns ->
  envs_journal cfg i (jbytes w i) ns ->
  klunok env cfg rev ns o w = (r, w') ->
  exists s, jbytes w' i = (jbytes w i ++ s)%list.
Proof. exact klunok_journal_append_only_no_cfg_event. Qed.
Print Assumptions C19_klunok_journal_append_only.

Theorem C19_klunok_journal_append_only_gen :
  forall (env : Main.env) (cfg : config) (rev : bool) (ns : list notif) (o : oracle) (w : world)
         (jp : str) (i : nat) (r : option (list out)) (w' : world),
  c_journal_path cfg = Some jp -> lookup (w_fs w) jp = Some (NFile i) ->
  joff_ok cfg -> jsep cfg i (w_fs w) ->
  Forall (quiet_notif (startup_cfg_path env)) ns ->
  envs_journal cfg i (jbytes w i) ns ->
  klunok env cfg rev ns o w = (r, w') ->
  (exists s, jbytes w' i = (jbytes w i ++ s)%list) /\ jsep cfg i (w_fs w').
Proof. exact klunok_journal_append_only. Qed.
Print Assumptions C19_klunok_journal_append_only_gen.

(* non-vacuity: DaemonExample's and KlunokExample's worlds (journal /j = inode 1
   holding "old\n"); the instances are for EVERY oracle *)
Example C19_daemon_hyps_hold := WholeExample.daemon_journal_hyps_hold.
Example C19_daemon_instance := WholeExample.daemon_journal_by_theorem.
Example C19_daemon_run := WholeExample.daemon_journal_computed.
Example C19_klunok_hyps_hold := WholeExample.klunok_journal_hyps_hold.
Example C19_klunok_instance := WholeExample.klunok_journal_by_theorem.
Example C19_klunok_load_instance := WholeExample.klunok_load_keeps_journal.
