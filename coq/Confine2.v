(* Call discipline of the queue and handler operations (continues Confine.v). *)
From K Require Import Str World Progs Elf Linq Sieve Handler Hoare Confine.
From Coq Require Import Lia.

Section ConfH.
Variable L : list str.
Notation conf := (conf L).
Notation in_loc := (in_loc L).

Lemma join_ne d n : d <> root_path -> join d n = d ++ ch_slash :: n.
Proof. intros H. unfold join. destruct (str_eqb_spec d root_path); [contradiction | reflexivity]. Qed.

Definition dir_ok (d : str) : Prop := d <> root_path /\ in_loc d.

Lemma dir_join d n : dir_ok d -> in_loc (join d n).
Proof.
  intros [H1 H2]. rewrite join_ne by assumption. eapply in_loc_inside; [eassumption | apply inside_app].
Qed.

(* leaves without side conditions *)
Ltac leaf0 :=
  first [ apply lok_close | apply lok_open_read | apply lok_fstat | apply lok_access | apply lok_read1
        | apply lok_ftruncate | apply lok_write | apply lok_sendfile | apply lok_scandir | apply lok_fts
        | apply lok_open_dir | apply lok_readlinkat | apply lok_fstatat | apply lok_read_digits
        | apply lok_read_counter | apply lok_write_digits | apply lok_sendfile_loop | apply lok_write_all
        | apply lok_get_timestamp | apply lok_note ].

Ltac lok3 :=
  repeat (lazymatch goal with
          | |- logs_ok _ (ret_ _) => apply logs_ok_ret
          | |- logs_ok _ (bind _ _) => apply logs_ok_bind; [|intros ?]
          | |- logs_ok _ get_tr => apply logs_ok_get_tr
          | |- logs_ok _ (set_tr _) => apply logs_ok_set_tr
          | |- logs_ok _ get_clock => apply logs_ok_get_clock
          | |- logs_ok _ get_fs => apply logs_ok_get_fs
          | |- logs_ok _ (transfer_limit _ _) => apply logs_ok_transfer_limit
          | |- logs_ok _ (mod_tr _) => unfold mod_tr
          | |- logs_ok _ is_ok => unfold is_ok
          | |- logs_ok _ (throw _) => unfold throw
          | |- logs_ok _ (throw_static _) => unfold throw_static
          | |- logs_ok _ (throw_errno _) => unfold throw_errno
          | |- logs_ok _ (throw_context _) => unfold throw_context
          | |- logs_ok _ try_ => unfold try_
          | |- logs_ok _ finally_ => unfold finally_
          | |- logs_ok _ (finally_rethrow_static _) => unfold finally_rethrow_static
          | |- logs_ok _ (rethrow_context _) => unfold rethrow_context
          | |- logs_ok _ (catch_static _) => unfold catch_static
          | |- logs_ok _ (when_ok _ _) => unfold when_ok
          | |- logs_ok _ (match ?x with _ => _ end) => destruct x
          | |- logs_ok _ (if ?b then _ else _) => destruct b
          | |- logs_ok _ (let '(_, _) := ?x in _) => destruct x
          | |- logs_ok _ _ => leaf0
          end).

(* ---------- the queue over system calls ---------- *)

Lemma lok_read_entry_loop fuel : forall dir name size, logs_ok conf (read_entry_loop fuel dir name size).
Proof.
  induction fuel as [|fuel IH]; intros dir name size; simpl; [apply logs_ok_ret|].
  lok3. apply IH.
Qed.

Lemma lok_read_entry q name : logs_ok conf (read_entry q name).
Proof. unfold read_entry. lok3. apply lok_read_entry_loop. Qed.

Lemma lok_fill_bag q names : forall bag, logs_ok conf (fill_bag q names bag).
Proof.
  induction names as [|n names IH]; intros bag; simpl; [apply logs_ok_ret|].
  lok3; try apply lok_read_entry. apply IH.
Qed.

Definition some_dir (path : str) (r : option qmem) : Prop := forall q, r = Some q -> q_dir q = path.

Ltac lv :=
  repeat (lazymatch goal with
          | |- lokv _ _ (ret_ _) => apply lokv_ret
          | |- lokv _ _ (bind _ _) => eapply lokv_bind; [|intros ? ?]
          | |- lokv _ _ (when_ok _ _) => unfold when_ok
          | |- lokv _ _ (match ?x with _ => _ end) => destruct x
          | |- lokv _ _ (if ?b then _ else _) => destruct b
          | |- lokv _ _ (let '(_, _) := ?x in _) => destruct x
          end).

(* a logs_ok fact used where a value fact with an open postcondition is expected *)
Ltac lvok := solve [apply lokv_of_logs_ok; lok3; try apply lok_read_entry].

Lemma lokv_load_linq_aux fuel : forall tc path deb lg,
  in_loc path -> lokv conf (some_dir path) (load_linq_aux tc fuel path deb lg).
Proof.
  induction fuel as [|fuel IH]; intros tc path deb lg Hp.
  - simpl. lv; try lvok; try (intros q Hq; discriminate).
    all: try (intros q Hq; inversion Hq; reflexivity).
    all: try exact I.
    all: try (apply lokv_of_logs_ok; apply lok_fill_bag).
  - simpl. lv; try lvok; try (intros q Hq; discriminate).
    all: try (intros q Hq; inversion Hq; reflexivity).
    all: try exact I.
    all: try (apply lok_create_parents; assumption).
    all: try (apply lok_mkdir; apply in_loc_near; assumption).
    all: try (apply lokv_of_logs_ok; apply lok_fill_bag).
    all: try (apply lokv_of_logs_ok; apply lok_create_parents; assumption).
    all: try (apply lokv_of_logs_ok; apply lok_mkdir; apply in_loc_near; assumption).
    all: try (apply IH; assumption).
Qed.

Lemma lokv_load_linq path deb lg : in_loc path -> lokv conf (some_dir path) (load_linq path deb lg).
Proof. intros H. apply lokv_load_linq_aux. assumption. Qed.

Lemma lokv_q_push path meta q :
  dir_ok (q_dir q) -> lokv conf (fun q' => q_dir q' = q_dir q) (q_push path meta q).
Proof.
  intros Hd. unfold q_push. lv; try reflexivity; try lvok.
  apply lokv_of_logs_ok. apply lok_symlinkat. apply dir_join. assumption.
Qed.

Lemma lokv_q_pop_head q :
  dir_ok (q_dir q) -> lokv conf (fun q' => q_dir q' = q_dir q) (q_pop_head q).
Proof.
  intros Hd. unfold q_pop_head. lv; try reflexivity; try lvok.
  apply lokv_of_logs_ok. apply lok_unlinkat. apply dir_join. assumption.
Qed.

Lemma lokv_q_get_head fuel : forall q,
  dir_ok (q_dir q) -> lokv conf (fun r => q_dir (snd r) = q_dir q) (q_get_head fuel q).
Proof.
  induction fuel as [|fuel IH]; intros q Hd; simpl.
  - lv; try reflexivity; try lvok.
  - lv; try reflexivity; try lvok.
    + apply lokv_q_pop_head. assumption.
    + match goal with H : (fun q' : qmem => _) _ |- _ => simpl in H; rename H into Hq end.
      eapply lokv_weaken; [apply IH; rewrite Hq; assumption|].
      intros r Hr. simpl in Hr. congruence.
Qed.

(* ---------- elfinterp.c ---------- *)

Lemma lok_read_at i pos want : logs_ok conf (k_read_at i pos want).
Proof. apply logs_ok_sys. exact I. Qed.

Lemma lok_read_full i pos want : logs_ok conf (read_full i pos want).
Proof. unfold read_full. lok3; apply lok_read_at. Qed.

Lemma lok_phdr_loop count : forall i pos, logs_ok conf (phdr_loop count i pos).
Proof.
  induction count as [|count IH]; intros i pos; simpl; [apply logs_ok_ret|].
  lok3; try apply lok_read_full. apply IH.
Qed.

Lemma lok_get_elf_interpreter i : logs_ok conf (get_elf_interpreter i).
Proof.
  unfold get_elf_interpreter, get_elf_interpreter_raw. lok3; try apply lok_read_full.
  apply lok_phdr_loop.
Qed.

(* ---------- handler.c ---------- *)

Definition cfg_locs (c : config) : list str :=
  [c_store_root c; c_project_store_root c; c_unstable_root c; c_queue_path c; c_offset_root c] ++
  match c_journal_path c with Some j => [j] | None => [] end.

Lemma in_cfg_locs c l : incl (cfg_locs c) L -> In l (cfg_locs c) -> in_loc l.
Proof. intros Hi Hl. exists l. split; [apply Hi; assumption | apply inside_refl]. Qed.

(* the handler's locations are among L and its queue directory is one of them *)
Record hinv (h : handler) : Prop := {
  hi_locs : incl (cfg_locs (h_cfg h)) L;
  hi_qdir : dir_ok (q_dir (h_q h))
}.

Lemma hinv_dir_ok h : hinv h -> dir_ok (q_dir (h_q h)).
Proof. intros [H1 H2]. assumption. Qed.

Lemma hinv_set_q q h : hinv h -> q_dir q = q_dir (h_q h) -> hinv (set_q q h).
Proof. intros [H1 H2] Hq. constructor; simpl; auto. rewrite Hq. assumption. Qed.

Lemma queue_dir_ok c : incl (cfg_locs c) L -> c_queue_path c <> root_path -> dir_ok (c_queue_path c).
Proof.
  intros Hi Hne. split; [assumption|]. apply (in_cfg_locs c _ Hi). unfold cfg_locs. simpl. tauto.
Qed.

Lemma journal_in_loc c : incl (cfg_locs c) L -> forall q, c_journal_path c = Some q -> in_loc q.
Proof.
  intros Hi q Hq. apply (in_cfg_locs c _ Hi). unfold cfg_locs. rewrite Hq.
  apply in_or_app. right. left. reflexivity.
Qed.

Lemma lok_record_event ev pid path h : logs_ok conf (record_event ev pid path h).
Proof. unfold record_event. lok3. Qed.

Lemma lokv_load_handler cfg cp cpl :
  incl (cfg_locs cfg) L -> c_queue_path cfg <> root_path ->
  lokv conf (fun r => forall h, r = Some h -> hinv h) (load_handler cfg cp cpl).
Proof.
  intros Hi Hne. unfold load_handler.
  eapply lokv_bind; [lvok|intros ? _].
  eapply lokv_bind; [apply lokv_load_linq; apply (in_cfg_locs cfg _ Hi); unfold cfg_locs; simpl; tauto|].
  intros q Hq.
  eapply lokv_bind; [lvok|intros ? _].
  eapply lokv_bind; [lvok|intros ? _].
  eapply lokv_bind; [lvok|intros ? _].
  eapply lokv_bind; [apply lokv_of_logs_ok; apply lok_open_journal; apply journal_in_loc; assumption|].
  intros j _.
  eapply lokv_bind; [lvok|intros ? _].
  eapply lokv_bind; [lvok|intros ? _].
  eapply lokv_bind; [lvok|intros b _].
  destruct b; [destruct q as [qm|]|].
  - apply lokv_ret. intros h Hh. inversion Hh; subst. constructor; simpl; auto.
    rewrite (Hq qm eq_refl). apply queue_dir_ok; assumption.
  - eapply lokv_bind; [lvok|intros ? _]. eapply lokv_bind; [lvok|intros ? _].
    apply lokv_ret. intros h Hh. discriminate.
  - eapply lokv_bind; [lvok|intros ? _]. eapply lokv_bind; [lvok|intros ? _].
    apply lokv_ret. intros h Hh. discriminate.
Qed.

Lemma lok_free_handler h : logs_ok conf (free_handler h).
Proof. unfold free_handler. lok3. Qed.

Lemma lokv_handle_open_exec pid path h :
  hinv h -> lokv conf hinv (handle_open_exec pid path h).
Proof.
  intros Hh. unfold handle_open_exec.
  unfold when_ok. eapply lokv_bind; [lvok|intros b _]. destruct b; [|apply lokv_ret; assumption].
  eapply lokv_bind; [lvok|intros f _].
  eapply lokv_bind with (R1 := fun r => hinv (fst r)).
  - destruct (mem (basename path) (c_editors (h_cfg h))).
    + eapply lokv_bind; [apply lokv_of_logs_ok|intros ? _].
      * destruct (lookup f path) as [[| |]|]; try apply logs_ok_ret. apply lok_get_elf_interpreter.
      * eapply lokv_bind; [lvok|intros ? _]. apply lokv_ret. simpl.
        destruct Hh as [H1 H2]. constructor; simpl; assumption.
    + destruct (pid_mem pid (h_pids h)).
      * eapply lokv_bind; [lvok|intros b _].
        destruct (b && negb (mem path (h_interps h))); apply lokv_ret; simpl; [|assumption].
        destruct Hh as [H1 H2]. constructor; simpl; assumption.
      * apply lokv_ret. assumption.
  - intros r Hr. eapply lokv_bind; [apply lokv_of_logs_ok; apply lok_record_event|intros ? _].
    apply lokv_ret. assumption.
Qed.

Lemma lokv_push_to_linq pid path h :
  hinv h -> lokv conf (fun r => hinv (snd r)) (push_to_linq pid path h).
Proof.
  intros Hh. unfold push_to_linq.
  unfold when_ok. eapply lokv_bind; [lvok|intros b _]. destruct b; [|apply lokv_ret; assumption].
  destruct (push_decision _ _ _ _) as [[pushed is_hist] pre].
  destruct (negb pushed); [apply lokv_ret; assumption|].
  eapply lokv_bind; [lvok|intros ? _].
  eapply lokv_bind; [apply lokv_q_push; apply hinv_dir_ok; assumption|intros q1 Hq1].
  eapply lokv_bind; [lvok|intros ? _].
  eapply lokv_bind; [lvok|intros ? _].
  destruct pre as [k|].
  - eapply lokv_bind; [lvok|intros ? _].
    eapply lokv_bind.
    + apply lokv_q_push. rewrite Hq1. apply hinv_dir_ok; assumption.
    + intros q2 Hq2.
      eapply lokv_bind; [lvok|intros ? _].
      eapply lokv_bind; [lvok|intros ? _].
      apply lokv_ret. simpl. apply hinv_set_q; [assumption | congruence].
  - apply lokv_ret. simpl. apply hinv_set_q; assumption.
Qed.

Lemma lokv_reload nc h :
  hinv h ->
  (forall c, nc = Some c -> incl (cfg_locs c) L /\ c_queue_path c <> root_path) ->
  lokv conf hinv (reload nc h).
Proof.
  intros Hh Hnc. unfold reload.
  destruct (h_cfg_path h) as [cp|]; [|apply lokv_ret; assumption].
  eapply lokv_bind; [lvok|intros ? _].
  eapply lokv_bind; [lvok|intros ? _].
  eapply lokv_bind; [lvok|intros ? _].
  eapply lokv_bind; [lvok|intros ? _].
  destruct nc as [c|]; [|apply lokv_ret; assumption].
  destruct (Hnc c eq_refl) as [Hi Hne].
  eapply lokv_bind; [lvok|intros b _].
  eapply lokv_bind with (R1 := some_dir (c_queue_path c)).
  - destruct (b && negb (str_eqb (c_queue_path (h_cfg h)) (c_queue_path c))).
    + eapply lokv_bind; [lvok|intros ? _].
      eapply lokv_bind; [apply lokv_load_linq; apply (in_cfg_locs c _ Hi); unfold cfg_locs; simpl; tauto|].
      intros q Hq.
      eapply lokv_bind; [lvok|intros ? _].
      eapply lokv_bind; [lvok|intros ? _].
      apply lokv_ret. assumption.
    + apply lokv_ret. intros q Hq. discriminate.
  - intros nq Hnq.
    eapply lokv_bind; [lvok|intros b2 _].
    eapply lokv_bind with (R1 := fun _ => True).
    + destruct b2; [|apply lokv_ret; exact I].
      eapply lokv_bind; [lvok|intros ? _].
      eapply lokv_bind; [apply lokv_of_logs_ok; apply lok_open_journal; apply journal_in_loc; assumption|intros ? _].
      eapply lokv_bind; [lvok|intros ? _].
      eapply lokv_bind; [lvok|intros ? _].
      apply lokv_ret. exact I.
    + intros nj _.
      eapply lokv_bind; [lvok|intros b3 _].
      destruct b3; [|apply lokv_ret; assumption].
      eapply lokv_bind; [lvok|intros ? _].
      eapply lokv_bind; [lvok|intros ? _].
      apply lokv_ret. constructor; simpl; auto.
      destruct nq as [q'|]; simpl.
      * rewrite (Hnq q' eq_refl). apply queue_dir_ok; assumption.
      * apply hinv_dir_ok. assumption.
Qed.


Lemma lokv_handle_close_write pid path nc h :
  hinv h ->
  (forall c, nc = Some c -> incl (cfg_locs c) L /\ c_queue_path c <> root_path) ->
  lokv conf hinv (handle_close_write pid path nc h).
Proof.
  intros Hh Hnc. unfold handle_close_write.
  unfold when_ok. eapply lokv_bind; [lvok|intros b _]. destruct b; [|apply lokv_ret; assumption].
  eapply lokv_bind; [apply lokv_push_to_linq; assumption|intros r Hr].
  destruct r as [pushed h1]. simpl in Hr.
  eapply lokv_bind; [apply lokv_of_logs_ok; apply lok_record_event|intros ? _].
  eapply lokv_bind; [lvok|intros b _].
  destruct b; [|apply lokv_ret; assumption].
  destruct (h_cfg_path h1) as [cp|]; [|apply lokv_ret; assumption].
  destruct (str_eqb path cp); [|apply lokv_ret; assumption].
  apply lokv_reload; assumption.
Qed.

(* ---------- the tree walk stays below its root ---------- *)

Lemma rindex_from_spec f : forall s i acc j,
  rindex_from f s i acc = Some j ->
  (acc = Some j) \/ (i <= j /\ exists c, nth_error s (j - i) = Some c /\ f c = true).
Proof.
  induction s as [|c s IH]; intros i acc j H; simpl in H; [left; assumption|].
  destruct (IH (S i) _ j H) as [Hacc|[Hle [c' [Hn Hf]]]].
  - destruct (f c) eqn:Ec.
    + inversion Hacc; subst. right. split; [lia|]. exists c. rewrite Nat.sub_diag. simpl. auto.
    + left. assumption.
  - right. split; [lia|]. exists c'. split; [|assumption].
    replace (j - i) with (S (j - S i)) by lia. simpl. assumption.
Qed.

Lemma rindex_spec f s j : rindex f s = Some j -> exists c, nth_error s j = Some c /\ f c = true.
Proof.
  intros H. destruct (rindex_from_spec f s 0 None j H) as [Hacc|[_ [c [Hn Hf]]]]; [discriminate|].
  rewrite Nat.sub_0_r in Hn. eauto.
Qed.

Lemma nth_error_split_at {A} (l : list A) i c :
  nth_error l i = Some c -> l = firstn i l ++ c :: skipn (S i) l.
Proof.
  revert i. induction l as [|x l IH]; intros [|i] H; simpl in *; try discriminate.
  - inversion H. reflexivity.
  - rewrite <- (IH i H). reflexivity.
Qed.

Lemma dirname_inside p d : dirname p = d -> d <> root_path -> d <> [] -> exists r, p = d ++ ch_slash :: r.
Proof.
  unfold dirname. intros H Hr He. destruct (rindex is_slash p) as [i|] eqn:E.
  - destruct (rindex_spec _ _ _ E) as [c [Hn Hc]]. apply Ascii.eqb_eq in Hc. subst c.
    destruct i as [|i]; [congruence|]. subst d.
    exists (skipn (S (S i)) p). apply nth_error_split_at. assumption.
  - congruence.
Qed.

Lemma insert_by_In {A} (le : A -> A -> bool) x y l : In y (insert_by le x l) <-> y = x \/ In y l.
Proof.
  induction l as [|z l IH]; simpl; [intuition congruence|].
  destruct (le x z); simpl; [intuition congruence|]. rewrite IH. intuition congruence.
Qed.

Lemma sort_by_In {A} (le : A -> A -> bool) y l : In y (sort_by le l) <-> In y l.
Proof.
  unfold sort_by. induction l as [|x l IH]; simpl; [tauto|].
  rewrite insert_by_In, IH. intuition congruence.
Qed.

Lemma children_inside f d e : In e (children f d) -> d <> root_path -> d <> [] ->
  exists r, fst e = d ++ ch_slash :: r.
Proof.
  unfold children. intros H Hr He. apply filter_In in H. destruct H as [_ H].
  apply andb_true_iff in H. destruct H as [H _]. apply str_eqb_eq in H.
  apply (dirname_inside _ _ H Hr He).
Qed.

Lemma app_slash_ne_root d r : d <> [] -> d ++ ch_slash :: r <> root_path.
Proof.
  intros Hd E. destruct d as [|x d]; [congruence|]. unfold root_path in E. simpl in E.
  inversion E. destruct d; discriminate.
Qed.

Lemma walk_inside fuel rev f : forall d p k, d <> root_path -> d <> [] ->
  In (p, k) (walk fuel rev f d) -> exists r, p = d ++ ch_slash :: r.
Proof.
  induction fuel as [|fuel IH]; intros d p k Hr He Hin; simpl in Hin; [tauto|].
  apply in_flat_map in Hin. destruct Hin as [e [He1 He2]].
  apply sort_by_In in He1. destruct (children_inside f d e He1 Hr He) as [r Hre].
  destruct (snd e).
  - destruct He2 as [E|He2]; [inversion E; subst; eauto|].
    apply in_app_or in He2. destruct He2 as [He2|[E|[]]]; [|inversion E; subst; eauto].
    destruct (IH (fst e) p k) as [r' Hr']; try assumption.
    + rewrite Hre. apply app_slash_ne_root. assumption.
    + rewrite Hre. destruct d; discriminate.
    + exists (r ++ ch_slash :: r'). rewrite Hr', Hre, <- app_assoc. reflexivity.
  - destruct He2 as [E|[]]. inversion E; subst. eauto.
  - destruct He2 as [E|[]]. inversion E; subst. eauto.
Qed.

Lemma fs_walk_inside rev f root p k : root <> root_path -> root <> [] ->
  In (p, k) (fs_walk rev f root) -> exists r, p = root ++ ch_slash :: r.
Proof.
  unfold fs_walk. intros Hr He Hin. destruct (lookup f root) as [[| |]|]; try (simpl in Hin; tauto).
  eapply walk_inside; eauto.
Qed.

(* ---------- sync_shallow_tree ---------- *)

Lemma lok_tree_loop ents : forall src_len dst filt,
  dir_ok dst -> (forall p k, In (p, k) ents -> in_loc p) ->
  logs_ok conf (tree_loop ents src_len dst filt).
Proof.
  induction ents as [|[p k] ents IH]; intros src_len dst filt Hd Hall; simpl; [apply logs_ok_ret|].
  assert (Hp : in_loc p) by (apply (Hall p k); left; reflexivity).
  assert (IH' : logs_ok conf (tree_loop ents src_len dst filt))
    by (apply IH; [assumption | intros p' k' Hin; apply (Hall p' k'); right; assumption]).
  lok3; try exact IH'.
  all: try (apply lok_mkdirat; apply dir_join; assumption).
  all: try (apply lok_rmdir; apply in_loc_near; assumption).
  all: try (apply lok_linkat; apply dir_join; assumption).
  all: try (apply lok_unlink; assumption).
Qed.

Lemma lok_sync_shallow_tree rev dst src filt :
  dir_ok dst -> in_loc src -> src <> root_path -> src <> [] ->
  logs_ok conf (sync_shallow_tree rev dst src filt).
Proof.
  intros Hd Hs Hsr Hse. destruct Hd as [Hd1 Hd2]. unfold sync_shallow_tree.
  apply logs_ok_bind; [apply lok_create_parents; assumption|intros ?].
  apply logs_ok_bind; [lok3|intros b].
  apply logs_ok_bind; [lok3; apply lok_mkdir; apply in_loc_near; assumption|intros ?].
  apply logs_ok_bind; [lok3|intros b1].
  apply logs_ok_bind; [lok3|intros opened].
  apply logs_ok_bind; [lok3|intros b2].
  destruct (negb b2).
  - lok3. apply lok_clean_up. assumption.
  - unfold logs_ok, k_fts.
    eapply ht_bind with (R := fun r w => log_all conf w /\
        forall ents, r = inl ents -> forall p k, In (p, k) ents -> in_loc p).
    + apply ht_sys.
      * auto.
      * intros w e Hw. split; [|intros ents E; discriminate].
        unfold log_all, calls, after_call. simpl. constructor; [exact I | assumption].
      * intros w Hw. split.
        -- unfold log_all, calls, after_call. simpl. constructor; [exact I | assumption].
        -- intros ents E p k Hin. inversion E; subst.
           destruct (fs_walk_inside _ _ _ _ _ Hsr Hse Hin) as [r ->].
           eapply in_loc_inside; [eassumption | apply inside_app].
    + intros r o w Ho [Hw Hr].
      assert (Hrest : logs_ok conf
        (match r with
         | inl ents => tree_loop ents (length src) dst filt
         | inr e => match e with
                    | ENOENT => throw_static M_src_missing
                    | EACCES => throw_static M_src_denied
                    | _ => throw_errno e
                    end
         end;; k_close;; (do b3 <- is_ok; if negb b3 then clean_up dst else ret_ tt))).
      { apply logs_ok_bind.
        - destruct r as [ents|e].
          + apply lok_tree_loop; [split; assumption | apply (Hr ents eq_refl)].
          + destruct e; lok3.
        - intros ?. lok3. apply lok_clean_up. assumption. }
      apply (Hrest o w Ho Hw).
Qed.


(* ---------- handle_timeout ---------- *)

Definition spI (root : str) (sp : store_path) : Prop :=
  exists b c, sp_base sp = root ++ ch_slash :: b ++ ch_slash :: c.

Lemma spI_increment root sp : spI root sp -> spI root (increment sp).
Proof. intros [b [c H]]. exists b, c. simpl. assumption. Qed.

Lemma spI_create root rel version : spI root (create_store_path root rel version).
Proof. exists rel, version. reflexivity. Qed.

Lemma current_path_inside root sp : spI root sp -> exists r, current_path sp = root ++ ch_slash :: r.
Proof.
  intros [b [c H]]. unfold current_path. rewrite H.
  destruct (sp_dups sp =? 0)%N; eexists; rewrite <- !app_assoc; simpl; rewrite <- ?app_assoc; simpl; reflexivity.
Qed.

Lemma current_path_ne_root root sp : spI root sp -> current_path sp <> root_path.
Proof.
  intros [b [c H]] E. assert (Hl : length (current_path sp) = 1) by (rewrite E; reflexivity).
  unfold current_path in Hl. rewrite H in Hl.
  destruct (sp_dups sp =? 0)%N; rewrite !app_length in Hl; simpl in Hl; rewrite !app_length in Hl; simpl in Hl; lia.
Qed.

Lemma current_path_dir_ok root sp : in_loc root -> spI root sp -> dir_ok (current_path sp).
Proof.
  intros Hr Hs. split; [eapply current_path_ne_root; eauto|].
  destruct (current_path_inside root sp Hs) as [r ->].
  eapply in_loc_inside; [eassumption | apply inside_app].
Qed.

Lemma lok_project_store_loop fuel : forall rev sp unstable head cfg ev root,
  in_loc root -> spI root sp -> in_loc unstable -> unstable <> root_path -> unstable <> [] ->
  logs_ok conf (project_store_loop fuel rev sp unstable head cfg ev).
Proof.
  induction fuel as [|fuel IH]; intros rev sp unstable head cfg ev root Hr Hs Hu Hu1 Hu2; simpl;
    [apply logs_ok_ret|].
  apply logs_ok_bind; [lok3|intros b]. destruct (negb b); [apply logs_ok_ret|].
  apply logs_ok_bind; [lok3|intros ?].
  apply logs_ok_bind;
    [apply lok_sync_shallow_tree; [apply (current_path_dir_ok root sp Hr Hs) | assumption | assumption | assumption]|intros ?].
  apply logs_ok_bind; [lok3|intros c]. destruct c.
  - apply logs_ok_bind; [lok3|intros ?].
    apply (IH rev (increment sp) unstable head cfg ev root); auto using spI_increment.
  - lok3.
Qed.

Lemma lok_file_store_loop fuel : forall sp head offp off ish cfg root,
  in_loc root -> spI root sp -> in_loc offp ->
  logs_ok conf (file_store_loop fuel sp head offp off ish cfg).
Proof.
  induction fuel as [|fuel IH]; intros sp head offp off ish cfg root Hr Hs Ho; simpl;
    [apply logs_ok_ret|].
  assert (Hd : in_loc (current_path sp)) by (destruct (current_path_dir_ok root sp Hr Hs); assumption).
  apply logs_ok_bind; [lok3|intros ?].
  apply logs_ok_bind; [apply lok_sync_file; assumption|intros no].
  apply logs_ok_bind; [lok3|intros c1].
  apply logs_ok_bind; [destruct c1; lok3|intros c2].
  destruct c2; [lok3|].
  apply logs_ok_bind; [lok3|intros c3]. destruct c3; [lok3|].
  apply logs_ok_bind; [lok3|intros c4]. destruct c4.
  - apply (IH (increment sp) head offp off ish cfg root); auto using spI_increment.
  - apply logs_ok_bind; [apply lok_write_counter; assumption|intros ?]. lok3.
Qed.

Record hinv2 (h : handler) : Prop := {
  h2_inv : hinv h;
  h2_ne : forall l, In l (cfg_locs (h_cfg h)) -> l <> []
}.

Lemma hinv2_set_q q h : hinv2 h -> q_dir q = q_dir (h_q h) -> hinv2 (set_q q h).
Proof. intros [H1 H2] Hq. constructor; [apply hinv_set_q; assumption | exact H2]. Qed.

Lemma in_loc_sub root r : in_loc root -> in_loc (root ++ ch_slash :: r).
Proof. intros H. eapply in_loc_inside; [eassumption | apply inside_app]. Qed.

Lemma lokv_handle_timeout_loop fuel : forall rev h,
  hinv2 h -> lokv conf (fun r => hinv2 (snd r)) (handle_timeout_loop fuel rev h).
Proof.
  induction fuel as [|fuel IH]; intros rev h Hh; cbn [handle_timeout_loop]; [apply lokv_ret; assumption|].
  eapply lokv_bind; [lvok|intros b _]. destruct (negb b); [apply lokv_ret; assumption|].
  eapply lokv_bind; [lvok|intros ? _].
  eapply lokv_bind; [apply lokv_q_get_head; apply hinv_dir_ok; apply Hh|intros r Hr].
  eapply lokv_bind; [lvok|intros ? _].
  destruct r as [hd q1]. simpl in Hr.
  assert (Hh1 : hinv2 (set_q q1 h)) by (apply hinv2_set_q; assumption).
  set (h1 := set_q q1 h) in *.
  eapply lokv_bind; [lvok|intros b1 _].
  destruct b1; [|apply lokv_ret; assumption].
  destruct hd as [[z|path meta]|]; [apply lokv_ret; assumption| |apply lokv_ret; assumption].
  pose proof Hh1 as [[Hlocs Hqd] Hne].
  assert (Hstore : in_loc (c_store_root (h_cfg h1)))
    by (apply (in_cfg_locs (h_cfg h1) _ Hlocs); unfold cfg_locs; simpl; tauto).
  assert (Hpstore : in_loc (c_project_store_root (h_cfg h1)))
    by (apply (in_cfg_locs (h_cfg h1) _ Hlocs); unfold cfg_locs; simpl; tauto).
  assert (Hunst : in_loc (c_unstable_root (h_cfg h1)))
    by (apply (in_cfg_locs (h_cfg h1) _ Hlocs); unfold cfg_locs; simpl; tauto).
  assert (Hoffs : in_loc (c_offset_root (h_cfg h1)))
    by (apply (in_cfg_locs (h_cfg h1) _ Hlocs); unfold cfg_locs; simpl; tauto).
  assert (Hunst_ne : c_unstable_root (h_cfg h1) <> [])
    by (apply Hne; unfold cfg_locs; simpl; tauto).
  eapply lokv_bind; [lvok|intros v _].
  eapply lokv_bind; [lvok|intros bv _].
  eapply lokv_bind; [apply lokv_of_logs_ok; destruct v; [destruct bv; [destruct (existsb is_slash s)|]|]; lok3|intros ? _].
  eapply lokv_bind; [lvok|intros b2 _].
  destruct v as [version|]; [|apply lokv_ret; assumption].
  destruct b2; [|apply lokv_ret; assumption].
  match goal with |- lokv _ _ (if ?c then _ else _) => destruct c end.
  { eapply lokv_bind; [lvok|intros ? _]. eapply lokv_bind; [lvok|intros ? _]. apply lokv_ret. assumption. }
  destruct (N.odd meta).
  - (* project head *)
    eapply lokv_bind; [lvok|intros f _].
    eapply lokv_bind.
    + apply lokv_of_logs_ok.
      eapply (lok_project_store_loop _ rev _ _ path (h_cfg h1) _ (c_project_store_root (h_cfg h1))).
      * assumption.
      * apply spI_create.
      * apply in_loc_sub. assumption.
      * apply app_slash_ne_root. assumption.
      * destruct (c_unstable_root (h_cfg h1)); [congruence | discriminate].
    + intros ev _.
      eapply lokv_bind; [apply lokv_of_logs_ok; apply lok_record_event|intros ? _].
      eapply lokv_bind; [apply lokv_q_pop_head; apply hinv_dir_ok; apply Hh1|intros q2 Hq2].
      apply IH. apply hinv2_set_q; assumption.
  - (* file head *)
    eapply lokv_bind; [apply lokv_of_logs_ok; destruct (N.testbit meta 1); [apply lok_read_counter | apply logs_ok_ret]|intros off _].
    eapply lokv_bind; [lvok|intros b3 _].
    destruct (negb b3); [apply lokv_ret; assumption|].
    eapply lokv_bind; [lvok|intros f _].
    eapply lokv_bind.
    + apply lokv_of_logs_ok.
      eapply (lok_file_store_loop _ _ path _ _ _ (h_cfg h1) (c_store_root (h_cfg h1))).
      * assumption.
      * apply spI_create.
      * apply in_loc_sub. assumption.
    + intros r2 _. destruct r2 as [[ev is_stored] sp'].
      eapply lokv_bind; [apply lokv_q_pop_head; apply hinv_dir_ok; apply Hh1|intros q2 Hq2].
      assert (Hh2 : hinv2 (set_q q2 h1)) by (apply hinv2_set_q; assumption).
      eapply lokv_bind; [lvok|intros b4 _].
      destruct (negb b4).
      { eapply lokv_bind; [lvok|intros ? _]. eapply lokv_bind; [lvok|intros ? _]. apply lokv_ret. assumption. }
      eapply lokv_bind.
      * apply lokv_of_logs_ok.
        match goal with |- logs_ok _ (if ?c then _ else _) => destruct c end; [|apply logs_ok_ret].
        lok3.
        all: try (apply lok_unlink; apply in_loc_sub; assumption).
        all: try (apply lok_create_parents; apply in_loc_sub; assumption).
        all: try (apply lok_link; apply in_loc_sub; assumption).
      * intros ? _.
        eapply lokv_bind; [apply lokv_of_logs_ok; apply lok_record_event|intros ? _].
        apply IH. assumption.
Qed.

Lemma lokv_handle_timeout rev h :
  hinv2 h -> lokv conf (fun r => hinv2 (snd r)) (handle_timeout rev h).
Proof.
  intros Hh. unfold handle_timeout.
  eapply lokv_bind; [apply lokv_handle_timeout_loop; assumption|intros r Hr].
  eapply lokv_bind; [lvok|intros b _].
  apply lokv_ret. destruct b; assumption.
Qed.

End ConfH.
