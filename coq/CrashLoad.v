(* C03, world level, part 4: a restart reads the queue directory back.

   load_linq (Handler.v: scandir, sort by numeric name, open the directory,
   read every link) on a file system whose queue directory is related by QRel
   to the entries [ents] and holds nothing but those links returns -- under
   every benign oracle -- an in-memory queue that is again related by QRel to
   [ents], and changes nothing on disk. *)
From K Require Import Str Dec Trace Fs World Progs Elf Linq LinqSpec LinqProofs Sieve Handler Hoare
     Confine Confine2 SyncProofs AbandonProofs StoreFs DecProofs QueueProofs CrashFrame.
From Coq Require Import Lia Permutation FinFun.

(* ---------- insertion sort: a permutation whose head is minimal ---------- *)

Section Sort.
Context {A : Type} (le : A -> A -> bool).
Hypothesis le_refl : forall a, le a a = true.
Hypothesis le_total : forall a b, le a b = false -> le b a = true.
Hypothesis le_trans : forall a b c, le a b = true -> le b c = true -> le a c = true.

Lemma insert_by_perm x l : Permutation (insert_by le x l) (x :: l).
Proof.
  induction l as [|y l IH]; cbn [insert_by]; [reflexivity|].
  destruct (le x y); [reflexivity|]. rewrite IH. apply perm_swap.
Qed.

Lemma sort_by_perm l : Permutation (sort_by le l) l.
Proof.
  unfold sort_by. induction l as [|x l IH]; cbn [fold_right]; [reflexivity|].
  rewrite insert_by_perm. constructor. exact IH.
Qed.

Definition hd_min (s : list A) : Prop :=
  forall x r, s = x :: r -> forall y, In y s -> le x y = true.

Lemma insert_by_hd_min x s : hd_min s -> hd_min (insert_by le x s).
Proof.
  intros Hs. destruct s as [|y s']; cbn [insert_by].
  - intros x0 r E z Hz. inversion E; subst. destruct Hz as [<-|[]]. apply le_refl.
  - destruct (le x y) eqn:Exy.
    + intros x0 r E z Hz. inversion E; subst x0 r.
      destruct Hz as [<-|Hz]; [apply le_refl|].
      apply (le_trans _ y); [exact Exy|]. apply (Hs y s' eq_refl). exact Hz.
    + intros x0 r E z Hz. inversion E; subst x0 r.
      destruct Hz as [<-|Hz]; [apply le_refl|].
      apply insert_by_In in Hz. destruct Hz as [->|Hz].
      * apply le_total. exact Exy.
      * apply (Hs y s' eq_refl). right. exact Hz.
Qed.

Lemma sort_by_hd_min l : hd_min (sort_by le l).
Proof.
  unfold sort_by. induction l as [|x l IH]; cbn [fold_right].
  - intros x r E. discriminate.
  - apply insert_by_hd_min. exact IH.
Qed.

End Sort.

(* ---------- counting is invariant under permutation ---------- *)

Lemma bag_count_perm v l l' : Permutation l l' -> bag_count v l = bag_count v l'.
Proof.
  intros H. induction H as [|x l l' H IH|x y l|l1 l2 l3 H1 IH1 H2 IH2].
  - reflexivity.
  - rewrite !bag_count_cons, IH. reflexivity.
  - rewrite !bag_count_cons. lia.
  - congruence.
Qed.

Lemma bag_count_app v l l' : bag_count v (l ++ l') = bag_count v l + bag_count v l'.
Proof. unfold bag_count. rewrite filter_app, app_length. reflexivity. Qed.

Lemma bag_count_qpaths v ents : bag_count v (map qpath ents) = count_paths v ents.
Proof.
  induction ents as [|e ents IH]; cbn [map count_paths]; [reflexivity|].
  rewrite bag_count_cons, IH. reflexivity.
Qed.

(* ---------- names in the queue directory ---------- *)

Lemma basename_join_dec d k : d <> root_path -> basename (join d (dec k)) = dec k.
Proof.
  intros Hd. rewrite (join_nonroot d _ Hd). unfold basename, rindex.
  rewrite rindex_from_app. cbn [rindex_from]. change (is_slash ch_slash) with true. cbv iota.
  rewrite rindex_from_none by (apply digits_no_slash; apply dec_digits).
  cbn [Nat.add].
  replace (S (length d)) with (length (d ++ [ch_slash])) by (rewrite app_length; cbn; lia).
  replace (d ++ ch_slash :: dec k) with ((d ++ [ch_slash]) ++ dec k) by (rewrite <- app_assoc; reflexivity).
  rewrite skipn_app, skipn_all, Nat.sub_diag. reflexivity.
Qed.

Lemma NoDup_map_filter {B C} (g : B -> C) (p : B -> bool) l : NoDup (map g l) -> NoDup (map g (filter p l)).
Proof.
  induction l as [|x l IH]; cbn [map filter]; intros H; [constructor|].
  inversion H as [|? ? Hn Hd]; subst. destruct (p x); cbn [map]; [|auto].
  constructor; [|auto]. intros Hin. apply Hn. apply in_map_iff in Hin. destruct Hin as [y [E Hy]].
  apply filter_In in Hy. apply in_map_iff. exists y. tauto.
Qed.

Lemma NoDup_map_inj_on {B C D} (g1 : B -> C) (g2 : B -> D) l :
  (forall a b, In a l -> In b l -> g2 a = g2 b -> g1 a = g1 b) -> NoDup (map g1 l) -> NoDup (map g2 l).
Proof.
  induction l as [|x l IH]; cbn [map]; intros Hinj H; [constructor|].
  inversion H as [|? ? Hn Hd]; subst. constructor.
  - intros Hin. apply Hn. apply in_map_iff in Hin. destruct Hin as [y [E Hy]].
    apply in_map_iff. exists y. split; [|exact Hy]. apply Hinj; [right; exact Hy | left; reflexivity | exact E].
  - apply IH; [|exact Hd]. intros a b Ha Hb. apply Hinj; right; assumption.
Qed.

Lemma match_nonempty (s : str) : s <> [] -> match s with [] => root_path | _ :: _ => s end = s.
Proof. destruct s; [congruence | reflexivity]. Qed.

Section Load.
Variables (q : qmem) (f : fs) (ents : list qent).
Hypothesis Hnd : keys_nodup f.
Hypothesis Hcl : qclean (q_dir q) f.
Hypothesis HR : QRel q f ents.

Let d := q_dir q.
Let h := q_head q.
Let n := length ents.

Let Hnr : d <> root_path := QR_nroot _ _ _ HR.
Let Hne : d <> [] := proj1 Hcl.

Definition names : list str := map (fun e => basename (fst e)) (children f d).
Definition winlist : list str := map (fun i => dec (h + N.of_nat i)) (seq 0 n).

Lemma window_entry i : i < n -> exists p m t,
  nth_error ents i = Some (p, m, t) /\
  lookup f (join d (dec (h + N.of_nat i))) = Some (NLink (encode m p) t).
Proof.
  intros Hi. destruct (nth_error ents i) as [[[p m] t]|] eqn:E.
  - exists p, m, t. split; [reflexivity|]. apply (QR_ent _ _ _ HR i p m t E).
  - apply nth_error_None in E. unfold n in Hi. lia.
Qed.

Lemma child_name e : In e (children f d) -> exists i, i < n /\ fst e = join d (dec (h + N.of_nat i)).
Proof.
  intros Hin. destruct (in_children _ _ _ Hin) as [Hr [Hd Hl]].
  destruct (proj2 Hcl (fst e) Hd Hr Hl) as [k Ek].
  destruct (N.lt_ge_cases k h) as [Hlt|Hge].
  { exfalso. apply Hl. rewrite Ek. apply (QR_free _ _ _ HR). left. exact Hlt. }
  destruct (N.lt_ge_cases k (h + N.of_nat n)) as [Hlt|Hge2].
  - exists (N.to_nat (k - h)). split; [lia|]. rewrite Ek. do 2 f_equal. lia.
  - exfalso. apply Hl. rewrite Ek. apply (QR_free _ _ _ HR). right. exact Hge2.
Qed.

Lemma names_window x : In x names <-> In x winlist.
Proof.
  unfold names, winlist. rewrite !in_map_iff. split.
  - intros [e [<- Hin]]. destruct (child_name e Hin) as [i [Hi Ee]].
    exists i. split; [|apply in_seq; lia]. rewrite Ee. symmetry. apply basename_join_dec. exact Hnr.
  - intros [i [<- Hin]]. apply in_seq in Hin.
    destruct (window_entry i) as [p [m [t [_ Hl]]]]; [lia|].
    destruct (children_intro f d (join d (dec (h + N.of_nat i)))) as [v Hv].
    + apply join_dec_nonroot. exact Hnr.
    + rewrite (dirname_join_digits d _ Hnr (dec_digits _)). apply match_nonempty. exact Hne.
    + congruence.
    + exists (join d (dec (h + N.of_nat i)), v). split; [|exact Hv].
      cbn [fst]. apply basename_join_dec. exact Hnr.
Qed.

Lemma winlist_nodup : NoDup winlist.
Proof.
  unfold winlist. apply Injective_map_NoDup; [|apply seq_NoDup].
  intros a b E. apply dec_inj in E. lia.
Qed.

Lemma names_nodup : NoDup names.
Proof.
  unfold names. apply (NoDup_map_inj_on fst).
  - intros a b Ha Hb E. destruct (child_name a Ha) as [i [_ Ea]]. destruct (child_name b Hb) as [j [_ Eb]].
    rewrite Ea, Eb in *. rewrite !(basename_join_dec d _ Hnr) in E. rewrite E. reflexivity.
  - unfold children. apply NoDup_map_filter. exact Hnd.
Qed.

Lemma names_perm : Permutation names winlist.
Proof. apply NoDup_Permutation; [apply names_nodup | apply winlist_nodup | apply names_window]. Qed.

(* the target behind a name *)
Definition tgt (x : str) : str :=
  match lookup f (join d x) with Some (NLink t _) => t | _ => [] end.

Lemma winlist_paths : map (fun x => strip (tgt x)) winlist = map qpath ents.
Proof.
  unfold winlist. rewrite map_map.
  assert (H : forall k (es : list qent),
             (forall i p m t, nth_error es i = Some (p, m, t) ->
                lookup f (join d (dec (h + N.of_nat (k + i)))) = Some (NLink (encode m p) t)) ->
             Forall (fun e => normal (qpath e)) es ->
             map (fun i => strip (tgt (dec (h + N.of_nat i)))) (seq k (length es)) = map qpath es).
  { intros k es. revert k. induction es as [|[[p m] t] es IH]; intros k He Hw; [reflexivity|].
    cbn [length seq map]. f_equal.
    - unfold tgt. pose proof (He 0 p m t eq_refl) as E. rewrite Nat.add_0_r in E. rewrite E.
      apply strip_encode. apply (Forall_inv Hw).
    - apply IH; [|inversion Hw; assumption].
      intros i p' m' t' Hi. replace (S k + i) with (k + S i) by lia. apply (He (S i)). exact Hi. }
  apply (H 0 ents).
  - intros i p m t Hi. apply (QR_ent _ _ _ HR). exact Hi.
  - eapply Forall_impl; [|apply (QR_wf _ _ _ HR)]. intros e [He _]. exact He.
Qed.

Lemma name_link g x : Forall (fits g) ents -> In x winlist -> exists t ti,
  lookup f (join d x) = Some (NLink t ti) /\ length t < S g * 2 ^ 63.
Proof.
  intros Hg. unfold winlist. rewrite in_map_iff. intros [i [<- Hin]]. apply in_seq in Hin.
  destruct (window_entry i) as [p [m [t [Hn Hl]]]]; [lia|].
  exists (encode m p), t. split; [exact Hl|].
  rewrite Forall_forall in Hg. exact (Hg (p, m, t) (nth_error_In _ _ Hn)).
Qed.

End Load.

(* ---------- fill_bag ---------- *)

Lemma fill_bag_ok o q0 f : benign o -> forall xs bag w,
  w_fs w = f -> tr_ok (w_tr w) = true ->
  (forall x, In x xs -> exists t ti,
     lookup f (join (q_dir q0) x) = Some (NLink t ti) /\ length t < S (q_len_guess q0) * 2 ^ 63) ->
  exists w',
    fill_bag q0 xs bag o w = (Some (rev (map (fun x => strip (tgt q0 f x)) xs) ++ bag), w') /\
    w_fs w' = f /\ tr_ok (w_tr w') = true.
Proof.
  intros Ho. induction xs as [|x xs IH]; intros bag w Hf Hok Hall.
  - exists w. cbn. auto.
  - cbn [fill_bag]. unfold bind at 1. rewrite is_ok_eq, Hok. cbn [negb].
    destruct (Hall x (or_introl eq_refl)) as [t [ti [Hl Hlen]]].
    rewrite <- Hf in Hl.
    destruct (read_entry_ok q0 x t ti o w Ho Hok Hl Hlen) as (w1 & E1 & Hf1 & _ & Hok1 & _).
    unfold bind at 1. rewrite E1.
    destruct (IH (strip t :: bag) w1) as [w' [E' [Hf' Hok']]].
    + congruence.
    + exact Hok1.
    + intros y Hy. apply Hall. right. exact Hy.
    + exists w'. split; [|auto]. rewrite E'. f_equal. f_equal.
      cbn [map rev]. rewrite <- app_assoc. cbn [app]. f_equal.
      unfold tgt. rewrite Hf in Hl. rewrite Hl. reflexivity.
Qed.

(* ---------- load_linq ---------- *)

Theorem load_linq_ok o q ents deb g w :
  benign o -> tr_ok (w_tr w) = true ->
  keys_nodup (w_fs w) -> qclean (q_dir q) (w_fs w) -> QRel q (w_fs w) ents ->
  Forall (fits g) ents ->
  exists q' w',
    load_linq (q_dir q) deb g o w = (Some (Some q'), w') /\
    QRel q' (w_fs w') ents /\ q_dir q' = q_dir q /\ q_deb q' = deb /\ q_len_guess q' = g /\
    w_fs w' = w_fs w /\ tr_ok (w_tr w') = true.
Proof.
  intros Ho Hok Hnd Hcl HR Hg.
  pose proof (QR_nroot _ _ _ HR) as Hnr.
  pose proof (QR_dir _ _ _ HR) as Hdir.
  unfold load_linq. cbn [load_linq_aux].
  rewrite when_ok_true by exact Hok.
  unfold bind at 1. unfold k_scandir. rewrite sys_benign by exact Ho.
  unfold fs_scandir. rewrite Hdir. cbn [fst snd].
  fold (names q (w_fs w)).
  set (le := fun a b : str => (name_num a <=? name_num b)%N).
  set (sorted := sort_by le (names q (w_fs w))).
  assert (Hperm : Permutation sorted (winlist q ents)).
  { unfold sorted. rewrite sort_by_perm. apply names_perm; assumption. }
  assert (Hmin : hd_min le sorted).
  { apply sort_by_hd_min.
    - intros a. apply N.leb_refl.
    - intros a b H. apply N.leb_le. apply N.leb_gt in H. lia.
    - intros a b c H1 H2. apply N.leb_le in H1, H2. apply N.leb_le. lia. }
  (* opening the directory *)
  unfold bind at 1. unfold k_open_dir, k_open_gen. rewrite sys_benign by exact Ho.
  cbn [w_fs fst snd]. rewrite Hdir. cbn [fst snd].
  unfold bind at 1. unfold ret_ at 1.
  unfold bind at 1. rewrite is_ok_eq. cbn [w_tr].
  set (q0 := mkQ (q_dir q) (match sorted with [] => 0%N | x :: _ => name_num x end)
                 (N.of_nat (length sorted)) deb g []).
  unfold bind at 1. match goal with |- context [fill_bag q0 sorted [] o ?ww] => set (w1 := ww) end.
  destruct (fill_bag_ok o q0 (w_fs w) Ho sorted [] w1 eq_refl Hok) as [w2 [E2 [Hf2 Hok2]]].
  { intros x Hx. cbn [q_dir q_len_guess q0]. apply (name_link q (w_fs w) ents HR g x Hg).
    apply (Permutation_in _ Hperm). exact Hx. }
  rewrite E2.
  unfold bind at 1. rewrite is_ok_eq, Hok2. unfold ret_.
  eexists. exists w2. split; [reflexivity|].
  cbn [q_dir q_deb q_head q_size q0].
  split; [|split; [reflexivity | split; [reflexivity | split; [reflexivity | split; [exact Hf2 | exact Hok2]]]]].
  rewrite Hf2.
  (* the loaded queue is related to the same entries *)
  assert (Hlen : length sorted = length ents).
  { rewrite (Permutation_length Hperm). unfold winlist. rewrite map_length, seq_length. reflexivity. }
  assert (Hhead : ents <> [] -> match sorted with [] => 0%N | x :: _ => name_num x end = q_head q).
  { intros Hne. destruct sorted as [|x r] eqn:Es.
    - destruct ents; [congruence | discriminate].
    - assert (Hx : In x (winlist q ents)) by (apply (Permutation_in _ Hperm); left; reflexivity).
      unfold winlist in Hx. apply in_map_iff in Hx. destruct Hx as [i [Ex Hi]].
      assert (H0 : In (dec (q_head q)) (x :: r)).
      { apply (Permutation_in _ (Permutation_sym Hperm)). unfold winlist. apply in_map_iff.
        exists 0. split; [f_equal; lia|]. apply in_seq. destruct ents; [congruence | cbn; lia]. }
      pose proof (Hmin x r eq_refl _ H0) as Hle. unfold le in Hle. apply N.leb_le in Hle.
      subst x. unfold name_num in *. rewrite !undec_dec in *. lia. }
  constructor; cbn [q_dir q_head q_size q_bag q_len_guess].
  - rewrite Hlen. reflexivity.
  - intros ->. destruct sorted; [reflexivity | discriminate].
  - exact Hdir.
  - exact Hnr.
  - intros i p m t Hi. rewrite Hhead by (intros ->; destruct i; discriminate).
    apply (QR_ent _ _ _ HR). exact Hi.
  - intros k Hk. destruct ents as [|e0 ents'] eqn:Ee.
    + apply (QR_free _ _ _ HR). cbn [length].
      destruct (N.lt_ge_cases k (q_head q)); [left; assumption | right; lia].
    + rewrite Hhead in Hk by discriminate. apply (QR_free _ _ _ HR). exact Hk.
  - intros v. rewrite app_nil_r. rewrite (bag_count_perm v _ _ (Permutation_sym (Permutation_rev _))).
    rewrite (bag_count_perm v _ _ (Permutation_map _ Hperm)).
    replace (map (fun x => strip (tgt q0 (w_fs w) x)) (winlist q ents))
      with (map (fun x => strip (tgt q (w_fs w) x)) (winlist q ents)) by reflexivity.
    rewrite (winlist_paths q (w_fs w) ents HR).
    apply bag_count_qpaths.
  - pose proof (QR_wf _ _ _ HR) as Hw. rewrite Forall_forall in *. intros e He.
    split; [apply (Hw e He) | apply (Hg e He)].
Qed.

Print Assumptions load_linq_ok.
