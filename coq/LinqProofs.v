(* The queue model (Linq.v) refines the reference FIFO (LinqSpec.v). *)
From K Require Import Str SetM SetProofs Linq LinqSpec.
From Coq Require Import Lia.
Arguments N.add : simpl never.
Arguments N.sub : simpl never.
Arguments N.mul : simpl never.
Arguments N.of_nat : simpl never.
Arguments N.eqb : simpl never.
Arguments N.leb : simpl never.

(* ---------- codec ---------- *)

Definition bit_step (a : N) (b : bool) : N := if b then (2 * a + 1)%N else (2 * a)%N.
Definition bits_val (l : list bool) (acc : N) : N := fold_left bit_step l acc.

Lemma pos_bits_val p : bits_val (pos_bits p) 0 = Npos p.
Proof.
  unfold bits_val. induction p as [p IH|p IH|]; simpl; rewrite ?fold_left_app, ?IH; simpl; lia.
Qed.

Lemma n_bits_val m : bits_val (n_bits m) 0 = m.
Proof. destruct m; [reflexivity | apply pos_bits_val]. Qed.

Lemma bits_str_app_slash l p : (exists r, p = ch_slash :: r) -> exists r', bits_str l ++ p = ch_slash :: r'.
Proof.
  intros [r ->]. destruct l as [|[|] l]; simpl; eauto.
Qed.

Lemma decode_aux_normal p acc : normal p -> decode_aux p acc = (acc, p).
Proof.
  intros [r [-> Hr]]. destruct r as [|c1 r']; simpl; [reflexivity|].
  destruct Hr as [H1 H2]. rewrite H1. destruct (is_dot c1) eqn:Ed; [|reflexivity].
  destruct r' as [|c2 r'']; [reflexivity|]. rewrite (H2 eq_refl). reflexivity.
Qed.

Lemma normal_slash p : normal p -> exists r, p = ch_slash :: r.
Proof. intros [r [-> _]]. eauto. Qed.

Lemma decode_aux_bits l : forall p acc, normal p ->
  decode_aux (bits_str l ++ p) acc = (bits_val l acc, p).
Proof.
  induction l as [|b l IH]; intros p acc Hp.
  - simpl. apply decode_aux_normal; assumption.
  - destruct (bits_str_app_slash l p (normal_slash p Hp)) as [r' Hr'].
    destruct b; cbn [bits_str app]; rewrite Hr'.
    + change (decode_aux (ch_slash :: ch_dot :: ch_slash :: r') acc)
        with (decode_aux (ch_slash :: r') (2 * acc + 1)).
      rewrite <- Hr'. rewrite IH by assumption. reflexivity.
    + change (decode_aux (ch_slash :: ch_slash :: r') acc)
        with (decode_aux (ch_slash :: r') (2 * acc)).
      rewrite <- Hr'. rewrite IH by assumption. reflexivity.
Qed.

Lemma decode_encode m p : normal p -> decode (encode m p) = (m, p).
Proof.
  intros Hp. unfold decode, encode. rewrite decode_aux_bits by assumption.
  rewrite n_bits_val. reflexivity.
Qed.

Lemma strip_encode m p : normal p -> strip (encode m p) = p.
Proof. intros Hp. unfold strip. rewrite decode_encode by assumption. reflexivity. Qed.

Lemma normalb_spec p : normalb p = true <-> normal p.
Proof.
  unfold normalb, normal. split.
  - destruct p as [|c0 r]; [discriminate|]. rewrite andb_true_iff. intros [H0 H].
    apply Ascii.eqb_eq in H0. subst c0. exists r. split; [reflexivity|].
    destruct r as [|c1 r']; [exact I|].
    rewrite andb_true_iff, negb_true_iff in H. destruct H as [H1 H2]. split; [assumption|].
    intros Hd. rewrite Hd in H2. simpl in H2. destruct r' as [|c2 r'']; [exact I|].
    rewrite negb_true_iff in H2. assumption.
  - intros [r [-> Hr]]. change (is_slash ch_slash) with true. simpl.
    destruct r as [|c1 r']; [reflexivity|]. destruct Hr as [H1 H2]. rewrite H1. simpl.
    destruct (is_dot c1); simpl; [|reflexivity].
    destruct r' as [|c2 r'']; [reflexivity|]. rewrite (H2 eq_refl). reflexivity.
Qed.

(* ---------- directory lemmas ---------- *)

Lemma lookup_fresh q : forall h k,
  (k < h \/ h + N.of_nat (length q) <= k)%N -> dir_lookup k (number_from h q) = None.
Proof.
  induction q as [|[[p m] t] q IH]; intros h k Hk; simpl; [reflexivity|].
  destruct (N.eqb_spec h k) as [->|Hn]; [simpl in Hk; lia|].
  apply IH. simpl in Hk. lia.
Qed.

Lemma number_from_app q : forall h p m t,
  number_from h (q ++ [(p, m, t)]) =
  number_from h q ++ [((h + N.of_nat (length q))%N, (encode m p, t))].
Proof.
  induction q as [|[[p' m'] t'] q IH]; intros h p m t; cbn [number_from app length].
  - simpl. rewrite N.add_0_r. reflexivity.
  - rewrite IH. replace (h + 1 + N.of_nat (length q))%N with (h + N.of_nat (S (length q)))%N by lia.
    reflexivity.
Qed.

Lemma dir_insert_front e d :
  (forall x, In x d -> (fst e <= fst x)%N) -> dir_insert e d = e :: d.
Proof.
  destruct d as [|x d]; simpl; intros H; [reflexivity|].
  destruct (N.leb_spec (fst e) (fst x)) as [_|Hlt]; [reflexivity|].
  specialize (H x (or_introl eq_refl)). lia.
Qed.

Lemma number_from_keys q : forall h x, In x (number_from h q) -> (h <= fst x)%N.
Proof.
  induction q as [|[[p m] t] q IH]; intros h x; simpl; [tauto|].
  intros [<-|Hin]; simpl; [lia|]. specialize (IH _ _ Hin). lia.
Qed.

Lemma dir_sort_number_from q : forall h, dir_sort (number_from h q) = number_from h q.
Proof.
  induction q as [|[[p m] t] q IH]; intros h; simpl; [reflexivity|].
  unfold dir_sort in *. simpl. rewrite IH. apply dir_insert_front.
  intros x Hx. apply number_from_keys in Hx. simpl. lia.
Qed.

Lemma number_from_length q : forall h, length (number_from h q) = length q.
Proof. induction q as [|[[p m] t] q IH]; intros h; simpl; auto. Qed.

(* ---------- counting ---------- *)

Fixpoint count_paths (v : str) (q : list qent) : nat :=
  match q with
  | [] => 0
  | e :: q' => (if str_eqb v (qpath e) then 1 else 0) + count_paths v q'
  end.

Lemma occurs_count p q : occurs p q = (0 <? count_paths p q)%nat.
Proof.
  induction q as [|e q IH]; simpl; [reflexivity|].
  destruct (str_eqb p (qpath e)); simpl; [reflexivity | assumption].
Qed.

Lemma count_paths_app v q e :
  count_paths v (q ++ [e]) = (count_paths v q + if str_eqb v (qpath e) then 1 else 0)%nat.
Proof. induction q as [|x q IH]; simpl; [lia | rewrite IH; lia]. Qed.

(* ---------- the simulation relation ---------- *)

Record R (l : linq) (q : list qent) : Prop := {
  R_dir : l_dir l = number_from (l_head l) q;
  R_size : l_size l = N.of_nat (length q);
  R_head0 : q = [] -> l_head l = 0%N;
  R_inv : Inv (l_set l);
  R_cnt : forall v, raw_count v (l_set l) = count_paths v q;
  R_wf : Forall (fun e => normal (qpath e)) q
}.

Lemma push_sim l q p m now :
  R l q -> normal p -> (m < meta_limit)%N ->
  exists l', push p m now l = (PushOk, l') /\ R l' (q ++ [(p, m, now)]) /\ l_deb l' = l_deb l.
Proof.
  intros [Hd Hs Hh Hi Hc Hw] Hp Hm. unfold push.
  destruct (N.leb_spec meta_limit m) as [Hle|_]; [lia|].
  rewrite Hd, Hs. rewrite lookup_fresh by (right; lia).
  eexists. split; [reflexivity|]. split; [|reflexivity].
  constructor; simpl.
  - rewrite number_from_app. reflexivity.
  - rewrite app_length. simpl. lia.
  - intros E. destruct q; discriminate.
  - apply Inv_add; assumption.
  - intros v. rewrite raw_count_add by assumption. rewrite Hc, count_paths_app. unfold qpath. simpl.
    destruct (str_eqb v p); lia.
  - apply Forall_app. split; [assumption|]. constructor; [assumption | constructor].
Qed.

Lemma pop_sim l p m t q :
  R l ((p, m, t) :: q) ->
  exists l', pop_head l = (PopOk, l') /\ R l' q /\ l_deb l' = l_deb l.
Proof.
  intros [Hd Hs Hh Hi Hc Hw]. unfold pop_head.
  assert (Hs' : (l_size l - 1 = N.of_nat (length q))%N) by (rewrite Hs; cbn [length]; lia).
  destruct (N.eqb_spec (l_size l) 0) as [E|_]; [rewrite Hs in E; cbn [length] in E; lia|].
  rewrite Hd. cbn [number_from dir_lookup dir_remove]. rewrite N.eqb_refl. rewrite Hs'.
  eexists. split; [reflexivity|]. split; [|reflexivity].
  inversion Hw as [|? ? Hp Hw']; subst. unfold qpath in Hp; simpl in Hp.
  constructor; cbn [l_dir l_head l_size l_deb l_set].
  - destruct q as [|e q]; [reflexivity|].
    destruct (N.eqb_spec (N.of_nat (length (e :: q))) 0) as [E|E]; [cbn [length] in E; lia | reflexivity].
  - reflexivity.
  - intros ->. reflexivity.
  - apply Inv_pop; assumption.
  - intros v. rewrite strip_encode by assumption. rewrite raw_count_pop by assumption.
    rewrite Hc. cbn [count_paths]. unfold qpath; cbn [fst]. destruct (str_eqb v p); lia.
  - assumption.
Qed.

Lemma pop_empty l : R l [] -> pop_head l = (PopAbort, l).
Proof. intros [Hd Hs Hh Hi Hc Hw]. unfold pop_head. rewrite Hs. reflexivity. Qed.

Lemma head_sim now q : forall l fuel,
  R l q -> length q <= fuel ->
  exists l', get_head fuel now l = (fst (ref_head now (l_deb l) q), l') /\
             R l' (snd (ref_head now (l_deb l) q)) /\ l_deb l' = l_deb l.
Proof.
  induction q as [|[[p m] t] q IH]; intros l fuel HR Hf.
  - pose proof HR as [Hd Hs Hh Hi Hc Hw].
    destruct fuel; simpl; rewrite Hs; simpl; eauto.
  - pose proof HR as [Hd Hs Hh Hi Hc Hw].
    inversion Hw as [|? ? Hp Hw']; subst. simpl in Hp.
    assert (Hget : get_head fuel now l =
      if (now - t <? l_deb l)%Z then (HPause (l_deb l - (now - t))%Z, l)
      else if occurs p q then
        match fuel with
        | O => (HErr, l)
        | S fuel' => match pop_head l with
                     | (PopOk, l') => get_head fuel' now l'
                     | (_, l') => (HErr, l')
                     end
        end
      else (HReady p m, l)).
    { destruct fuel; simpl; rewrite Hs; simpl length;
      destruct (N.eqb_spec (N.of_nat (S (length q))) 0) as [E|_]; try lia;
      rewrite Hd; simpl; rewrite N.eqb_refl;
      destruct (now - t <? l_deb l)%Z; try reflexivity;
      rewrite decode_encode by assumption;
      rewrite get_count_raw by assumption; rewrite Hc; simpl; unfold qpath; simpl;
      rewrite str_eqb_refl; rewrite occurs_count;
      destruct (count_paths p q); reflexivity. }
    rewrite Hget. simpl ref_head.
    destruct (now - t <? l_deb l)%Z eqn:Eage; simpl.
    + eauto.
    + destruct (occurs p q) eqn:Eocc; simpl.
      * destruct fuel as [|fuel']; [simpl in Hf; lia|].
        destruct (pop_sim l p m t q HR) as [l1 [Hpop [HR1 Hdeb1]]].
        rewrite Hpop. destruct (IH l1 fuel' HR1) as [l2 [Hg [HR2 Hdeb2]]]; [simpl in Hf; lia|].
        rewrite Hdeb1 in *. exists l2. split; [assumption|]. split; [assumption | congruence].
      * eauto.
Qed.

Lemma fold_add_counts q : forall h s,
  Inv s -> Forall (fun e => normal (qpath e)) q ->
  let s' := fold_left (fun s e => set_add (strip (fst (snd e))) s) (number_from h q) s in
  Inv s' /\ forall v, raw_count v s' = (raw_count v s + count_paths v q)%nat.
Proof.
  induction q as [|[[p m] t] q IH]; intros h s Hi Hw; simpl.
  - split; [assumption | intros; lia].
  - inversion Hw as [|? ? Hp Hw']; subst. simpl in Hp.
    rewrite strip_encode by assumption.
    destruct (IH (h + 1)%N (set_add p s) (Inv_add p s Hi) Hw') as [Hi' Hc'].
    split; [exact Hi'|]. intros v. rewrite Hc'. rewrite raw_count_add by assumption.
    unfold qpath; simpl. destruct (str_eqb v p); lia.
Qed.

Lemma load_sim l q g : R l q -> R (load (l_dir l) (l_deb l) g) q.
Proof.
  intros [Hd Hs Hh Hi Hc Hw]. unfold load. rewrite Hd, dir_sort_number_from, number_from_length.
  destruct (fold_add_counts q (l_head l) (create_set (Nat.max g (length q))) (Inv_create _) Hw) as [Hi' Hc'].
  constructor; simpl.
  - destruct q as [|[[p m] t] q]; simpl; [reflexivity|]. reflexivity.
  - reflexivity.
  - intros ->. reflexivity.
  - exact Hi'.
  - intros v. rewrite Hc'. rewrite raw_count_create. reflexivity.
  - assumption.
Qed.

Lemma R_init deb g : R (load [] deb g) [].
Proof.
  unfold load; simpl. constructor; simpl; auto.
  - apply Inv_create.
  - intros v. apply raw_count_create.
Qed.

(* ---------- whole runs ---------- *)

Definition RS (s : lstate) (r : rstate) : Prop :=
  R (ls_q s) (rs_q r) /\ l_deb (ls_q s) = rs_deb r /\ ls_now s = rs_now r.

Lemma step_sim s r o : RS s r -> wf_op o ->
  snd (lstep s o) = snd (rstep r o) /\ RS (fst (lstep s o)) (fst (rstep r o)).
Proof.
  intros [HR [Hdeb Hnow]] Hwf. destruct s as [l now]; destruct r as [q deb now']; simpl in *. subst.
  unfold RS.
  destruct o as [p m| | |n|d|g]; simpl.
  - destruct (N.leb_spec meta_limit m) as [Hle|Hlt].
    + unfold push. destruct (N.leb_spec meta_limit m); [|lia]. simpl. auto.
    + destruct (push_sim l q p m now' HR Hwf Hlt) as [l' [Hp [HR' Hd']]].
      rewrite Hp. simpl. auto.
  - destruct (head_sim now' q l (N.to_nat (l_size l)) HR) as [l' [Hg [HR' Hd']]].
    { destruct HR as [_ Hs _ _ _ _]. rewrite Hs. lia. }
    rewrite Hg. destruct (ref_head now' (l_deb l) q) as [rr q'] eqn:Er. simpl in *. auto.
  - destruct q as [|[[p m] t] q].
    + rewrite (pop_empty l HR). simpl. auto.
    + destruct (pop_sim l p m t q HR) as [l' [Hp [HR' Hd']]]. rewrite Hp. simpl. auto.
  - auto.
  - split; [reflexivity|]. split; [|split; reflexivity].
    destruct HR as [Hd Hs Hh Hi Hc Hw]. constructor; simpl; assumption.
  - split; [reflexivity|]. split; [|split; reflexivity].
    apply load_sim. assumption.
Qed.

Lemma run_sim ops : forall s r, RS s r -> Forall wf_op ops ->
  snd (lrun s ops) = snd (rrun r ops) /\ RS (fst (lrun s ops)) (fst (rrun r ops)).
Proof.
  induction ops as [|o ops IH]; intros s r HRS Hwf; simpl; [auto|].
  inversion Hwf as [|? ? Ho Hops]; subst.
  destruct (step_sim s r o HRS Ho) as [Hout HRS'].
  destruct (lstep s o) as [s' out]; destruct (rstep r o) as [r' out']; simpl in *.
  destruct (IH s' r' HRS' Hops) as [Houts HRS''].
  destruct (lrun s' ops) as [s'' outs]; destruct (rrun r' ops) as [r'' outs']; simpl in *.
  subst. auto.
Qed.

Lemma RS_init deb g now : RS (linit deb g now) (mkRS [] deb now).
Proof. unfold linit. split; [apply R_init | split; reflexivity]. Qed.

Lemma refines deb g now ops : Forall wf_op ops ->
  snd (lrun (linit deb g now) ops) = snd (rrun (mkRS [] deb now) ops).
Proof. intros H. apply (run_sim ops _ _ (RS_init deb g now) H). Qed.

Lemma reachable_R deb g now ops : Forall wf_op ops ->
  R (ls_q (fst (lrun (linit deb g now) ops))) (rs_q (fst (rrun (mkRS [] deb now) ops))).
Proof. intros H. apply (run_sim ops _ _ (RS_init deb g now) H). Qed.
