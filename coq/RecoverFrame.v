(* C03 "pending work and stored versions survive a crash at any point", the
   RECOVERY theorem, part 1: the crash frame.

   What a timeout pass over PLAIN entries (flags 0, pairwise distinct paths)
   leaves on disk under EVERY HONEST oracle (CrashCopy.honest: any crash, any
   failing call with an errno other than ENOENT/ENOTDIR/EACCES/EEXIST, any
   non-zero short transfer), precisely enough for a second pass to be run on
   it (RecoverPass.v, RecoverProofs.v):

     crash_frame : the final file system f' satisfies  L k q' f'  for some
       k <= length es:  the queue directory holds exactly the entries k, k+1,
       ... under their original names (QRel); every popped entry (index < k)
       has a COMPLETE version at its first candidate name, in a new inode; the
       entry k has nothing there, or a new file (complete, or PARTIAL when the
       process died during the transfer, or left behind by a failed unlink);
       the later entries have nothing there; every other name except the
       ancestors of these candidate names (directories or absent) and the
       popped queue links is as at the start; every old inode except the
       journal is unchanged.

   The proof is a Hoare-logic proof (Hoare.v) over handle_timeout_loop. *)
From K Require Import Str Dec Trace Fs World Progs Elf Linq LinqSpec LinqProofs Sieve Handler Hoare
     Confine Confine2 SyncProofs AbandonProofs StoreFs StoreLogic StoreProgs DecProofs
     QueueProofs CrashFrame CrashQueue CrashCopy CrashProofs PassProofs PassProofs2.
From Coq Require Import Lia.

(* ====================================================================== *)
(* A. the clock never moves                                                *)
(* ====================================================================== *)

Definition ck {A} (m : M A) : Prop := forall o w, w_clock (snd (m o w)) = w_clock w.

Lemma ck_ret {A} (a : A) : ck (ret_ a).
Proof. intros o w. reflexivity. Qed.

Lemma ck_bind {A B} (m : M A) (k : A -> M B) : ck m -> (forall a, ck (k a)) -> ck (bind m k).
Proof.
  intros Hm Hk o w. unfold bind. specialize (Hm o w).
  destruct (m o w) as [[a|] w'] eqn:E; cbn [snd] in *.
  - rewrite (Hk a o w'). exact Hm.
  - exact Hm.
Qed.

Lemma ck_sys {A} c (perform : fs -> ret * A * fs) on_fail : ck (sys c perform on_fail).
Proof.
  intros o w. unfold sys. destruct (o (w_n w)); try reflexivity;
    destruct (perform (w_fs w)) as [[r a] f']; reflexivity.
Qed.

Lemma ck_get_tr : ck get_tr. Proof. intros o w. reflexivity. Qed.
Lemma ck_set_tr t : ck (set_tr t). Proof. intros o w. reflexivity. Qed.
Lemma ck_get_clock : ck get_clock. Proof. intros o w. reflexivity. Qed.
Lemma ck_get_fs : ck get_fs. Proof. intros o w. reflexivity. Qed.
Lemma ck_transfer_limit b n : ck (transfer_limit b n). Proof. intros o w. reflexivity. Qed.

Ltac ck_with leaf :=
  repeat (lazymatch goal with
          | |- ck (ret_ _) => apply ck_ret
          | |- ck (bind _ _) => apply ck_bind; [|intros ?]
          | |- ck get_tr => apply ck_get_tr
          | |- ck (set_tr _) => apply ck_set_tr
          | |- ck get_clock => apply ck_get_clock
          | |- ck get_fs => apply ck_get_fs
          | |- ck (transfer_limit _ _) => apply ck_transfer_limit
          | |- ck (sys _ _ _) => apply ck_sys
          | |- ck (sys_unit _ _) => unfold sys_unit
          | |- ck (k_open_gen _ _) => unfold k_open_gen
          | |- ck (mod_tr _) => unfold mod_tr
          | |- ck is_ok => unfold is_ok
          | |- ck (throw _) => unfold throw
          | |- ck (throw_static _) => unfold throw_static
          | |- ck (throw_errno _) => unfold throw_errno
          | |- ck (throw_context _) => unfold throw_context
          | |- ck try_ => unfold try_
          | |- ck finally_ => unfold finally_
          | |- ck (finally_rethrow_static _) => unfold finally_rethrow_static
          | |- ck (rethrow_context _) => unfold rethrow_context
          | |- ck (catch_static _) => unfold catch_static
          | |- ck (when_ok _ _) => unfold when_ok
          | |- ck (k_mkdir _) => unfold k_mkdir
          | |- ck (k_rmdir _) => unfold k_rmdir
          | |- ck (k_unlink _) => unfold k_unlink
          | |- ck (k_unlinkat _ _) => unfold k_unlinkat
          | |- ck k_close => unfold k_close
          | |- ck (k_open_read _) => unfold k_open_read
          | |- ck (k_open_excl _) => unfold k_open_excl
          | |- ck (k_open_w _) => unfold k_open_w
          | |- ck (k_open_dir _) => unfold k_open_dir
          | |- ck (k_fstat _) => unfold k_fstat
          | |- ck (k_sendfile _ _ _ _) => unfold k_sendfile
          | |- ck (k_write _ _) => unfold k_write
          | |- ck (k_ftruncate _) => unfold k_ftruncate
          | |- ck (k_readlinkat _ _ _) => unfold k_readlinkat
          | |- ck (k_fstatat_mtime _ _) => unfold k_fstatat_mtime
          | |- ck (k_scandir _) => unfold k_scandir
          | |- ck (match ?x with _ => _ end) => destruct x
          | |- ck (if ?b then _ else _) => destruct b
          | |- ck (let '(_, _) := ?x in _) => destruct x
          | |- ck _ => leaf
          end).
Ltac ckt := ck_with fail.

Lemma ck_mkdir_all ds : ck (mkdir_all ds).
Proof. induction ds as [|d ds IH]; cbn [mkdir_all]; ck_with ltac:(exact IH). Qed.
Lemma ck_create_parents p : ck (create_parents p).
Proof. unfold create_parents. ck_with ltac:(apply ck_mkdir_all). Qed.
Lemma ck_rmdir_up ds : ck (rmdir_up ds).
Proof. induction ds as [|d ds IH]; cbn [rmdir_up]; ck_with ltac:(exact IH). Qed.
Lemma ck_remove_empty_parents p : ck (remove_empty_parents p).
Proof. unfold remove_empty_parents. ck_with ltac:(apply ck_rmdir_up). Qed.
Lemma ck_clean_up p : ck (clean_up p).
Proof. unfold clean_up. ck_with ltac:(apply ck_remove_empty_parents). Qed.
Lemma ck_write_digits i ds : ck (write_digits i ds).
Proof. induction ds as [|c ds IH]; cbn [write_digits]; ck_with ltac:(exact IH). Qed.
Lemma ck_write_counter p n : ck (write_counter p n).
Proof.
  unfold write_counter.
  ck_with ltac:(first [apply ck_remove_empty_parents | apply ck_create_parents | apply ck_write_digits]).
Qed.
Lemma ck_sendfile_loop fuel : forall out inp off size, ck (sendfile_loop fuel out inp off size).
Proof.
  induction fuel as [|fuel IH]; intros out inp off size; cbn [sendfile_loop]; [apply ck_ret|].
  destruct size; [apply ck_ret|]. ck_with ltac:(apply IH).
Qed.
Lemma ck_sync_file dst src off : ck (sync_file dst src off).
Proof.
  unfold sync_file.
  ck_with ltac:(first [apply ck_create_parents | apply ck_clean_up | apply ck_sendfile_loop]).
Qed.
Lemma ck_file_store_loop fuel : forall sp head offp off ish cfg,
  ck (file_store_loop fuel sp head offp off ish cfg).
Proof.
  induction fuel as [|fuel IH]; intros sp head offp off ish cfg; cbn [file_store_loop]; [apply ck_ret|].
  ck_with ltac:(first [apply ck_sync_file | apply ck_write_counter | apply IH]).
Qed.
Lemma ck_read_entry_loop fuel : forall dir name size, ck (read_entry_loop fuel dir name size).
Proof.
  induction fuel as [|fuel IH]; intros dir name size; cbn [read_entry_loop]; [apply ck_ret|].
  ck_with ltac:(apply IH).
Qed.
Lemma ck_read_entry q name : ck (read_entry q name).
Proof. unfold read_entry. ck_with ltac:(apply ck_read_entry_loop). Qed.
Lemma ck_q_pop_head q : ck (q_pop_head q).
Proof. unfold q_pop_head. ck_with ltac:(apply ck_read_entry). Qed.
Lemma ck_q_get_head fuel : forall q, ck (q_get_head fuel q).
Proof.
  induction fuel as [|fuel IH]; intros q; rewrite q_get_head_unfold;
    ck_with ltac:(first [apply ck_read_entry | apply ck_q_pop_head | apply IH]).
Qed.
Lemma ck_get_timestamp pat : ck (get_timestamp pat).
Proof. unfold get_timestamp. ckt. Qed.
Lemma ck_write_all fuel : forall i b, ck (write_all fuel i b).
Proof.
  induction fuel as [|fuel IH]; intros i b; cbn [write_all]; [apply ck_ret|].
  destruct b; [apply ck_ret|]. ck_with ltac:(apply IH).
Qed.
Lemma ck_note ev pid path j : ck (note ev pid path j).
Proof. unfold note. ck_with ltac:(first [apply ck_get_timestamp | apply ck_write_all]). Qed.
Lemma ck_record_event ev pid path h : ck (record_event ev pid path h).
Proof. unfold record_event. ck_with ltac:(apply ck_note). Qed.
Lemma ck_fill_bag q names : forall bag, ck (fill_bag q names bag).
Proof.
  induction names as [|n names IH]; intros bag; cbn [fill_bag]; [apply ck_ret|].
  ck_with ltac:(first [apply ck_read_entry | apply IH]).
Qed.
Lemma ck_load_linq_aux fuel : forall tc path deb g, ck (load_linq_aux tc fuel path deb g).
Proof.
  induction fuel as [|fuel IH]; intros tc path deb g; cbn [load_linq_aux];
    ck_with ltac:(first [apply ck_create_parents | apply ck_fill_bag | apply IH]).
Qed.
Lemma ck_load_linq path deb g : ck (load_linq path deb g).
Proof. apply ck_load_linq_aux. Qed.

(* the clock can be added to any triple of a program that keeps it *)
Lemma ht_ck {A} (c : Z) O (P : world -> Prop) (m : M A) Q C :
  ck m -> ht O P m Q C ->
  ht O (fun w => P w /\ w_clock w = c) m (fun a w => Q a w /\ w_clock w = c) C.
Proof.
  intros Hc H o w Ho [Hp Hcl]. specialize (H o w Ho Hp). specialize (Hc o w).
  destruct (m o w) as [[a|] w']; cbn [snd] in Hc; [|exact H].
  split; [exact H | congruence].
Qed.

(* ====================================================================== *)
(* B. the file system is a tree                                            *)
(* ====================================================================== *)

(* every entry sits in a directory *)
Definition wft (f : fs) : Prop :=
  forall x, lookup f x <> None -> x <> root_path -> lookup f (dirname x) = Some NDir.

Lemma wft_ext_add f f' p n :
  lookup f' p = Some n -> (forall q, q <> p -> lookup f' q = lookup f q) ->
  lookup f p = None -> lookup f (dirname p) = Some NDir -> wft f -> wft f'.
Proof.
  intros Hp Ho Hn Hd Hw x Hx Hr.
  assert (Hdp : dirname p <> p) by (intros E; rewrite E in Hd; congruence).
  destruct (str_eqb_spec x p) as [->|Hxp].
  - rewrite Ho by exact Hdp. exact Hd.
  - rewrite Ho in Hx by exact Hxp. pose proof (Hw x Hx Hr) as Hdx.
    rewrite Ho; [exact Hdx|]. intros E. rewrite E in Hdx. congruence.
Qed.

Lemma wft_ext_del f f' p :
  lookup f' p = None \/ p = root_path -> (forall q, q <> p -> lookup f' q = lookup f q) ->
  (forall x, lookup f x <> None -> x <> root_path -> x <> p -> dirname x <> p) -> wft f -> wft f'.
Proof.
  intros Hp Ho Hch Hw x Hx Hr.
  assert (Hxp : x <> p).
  { intros ->. destruct Hp as [Hp|Hp]; [congruence | contradiction]. }
  rewrite Ho in Hx by exact Hxp. rewrite Ho; [apply Hw; assumption|]. apply Hch; assumption.
Qed.

Lemma lookup_del_root f q : lookup (del_dent root_path f) q = lookup f q.
Proof.
  destruct (str_eqb_spec q root_path) as [->|Hn]; [reflexivity|]. apply lookup_del_dent_other. exact Hn.
Qed.

(* with a tree, an existing name sits below directories *)
Lemma chain_dirs f : wft f -> forall ds prev x,
  chain prev ds -> dirname x = last_or prev ds -> lookup f x <> None -> x <> root_path ->
  forall d, In d ds -> lookup f d = Some NDir.
Proof.
  intros Hw. induction ds as [|d ds IH]; intros prev x Hch Hl Hx Hr d0 Hin; [destruct Hin|].
  cbn [chain last_or] in *. destruct Hch as [Hd Hch].
  assert (Hall : forall d', In d' ds -> lookup f d' = Some NDir) by (apply (IH d x Hch Hl Hx Hr)).
  destruct Hin as [<-|Hin]; [|apply Hall; exact Hin].
  destruct ds as [|d' ds'].
  - cbn [last_or] in Hl. rewrite <- Hl. apply Hw; assumption.
  - cbn [chain] in Hch. destruct Hch as [Hd' _]. rewrite <- Hd'.
    destruct (str_eqb_spec d' root_path) as [->|Hn]; [reflexivity|].
    apply Hw; [|exact Hn]. rewrite (Hall d' (or_introl eq_refl)). discriminate.
Qed.

Lemma taken_of_wft f dst :
  wft f -> (exists r, dst = ch_slash :: r) -> lookup f dst <> None -> dst <> root_path -> taken f dst.
Proof.
  intros Hw [r ->] Hx Hr. split; [exact Hx|].
  destruct (parents_of_chain r) as [Hch Hlast].
  apply (chain_dirs f Hw _ root_path (ch_slash :: r) Hch Hlast Hx Hr).
Qed.

(* ====================================================================== *)
(* C. the copy phase of one iteration: the frame                           *)
(* ====================================================================== *)

Section StepKit.
Variables (fm : fs) (dst : str).

(* [f] differs from [fm] only at [dst] (absent, or a new file), at the
   ancestors of [dst] (directories, or absent), and in new inodes *)
Record Step (f : fs) : Prop := {
  S_other : forall x, x <> dst -> ~ In x (parents_of dst) -> lookup f x = lookup fm x;
  S_par : forall d, In d (parents_of dst) -> lookup f d = Some NDir \/ lookup f d = None;
  S_next : fs_next fm <= fs_next f;
  S_files : forall i, i < fs_next fm -> get_file f i = get_file fm i;
  S_dst : lookup f dst = None \/
          exists i, lookup f dst = Some (NFile i) /\ fs_next fm <= i /\ i < fs_next f;
  S_nodup : keys_nodup f;
  S_wft : wft f
}.

Lemma dst_not_parent : ~ In dst (parents_of dst).
Proof. apply parents_of_not_self. Qed.

Lemma St_mkdir a f : In a (parents_of dst) -> Step f -> Step (snd (fs_mkdir a f)).
Proof.
  intros Ha H. unfold fs_mkdir. destruct (lookup f a) eqn:El; [exact H|].
  unfold parent_is_dir. destruct (lookup f (dirname a)) as [[| |]|] eqn:Ed; try exact H. cbn [snd].
  destruct H as [H1 H2 H3 H4 H5 H6 H7].
  assert (Had : a <> dst) by (intros ->; exact (dst_not_parent Ha)).
  constructor.
  - intros x X1 X2. rewrite lookup_add_dent_other; [apply H1; assumption|]. intros ->. exact (X2 Ha).
  - intros d Hd. destruct (str_eqb_spec d a) as [->|Hn].
    + left. apply lookup_add_dent_same. exact El.
    + rewrite lookup_add_dent_other by exact Hn. apply H2. exact Hd.
  - exact H3.
  - exact H4.
  - rewrite lookup_add_dent_other by (intros E; exact (Had (eq_sym E))). exact H5.
  - apply keys_nodup_add; assumption.
  - apply (wft_ext_add f _ a NDir); auto.
    + apply lookup_add_dent_same. exact El.
    + intros q Hq. apply lookup_add_dent_other. exact Hq.
Qed.

Lemma St_del a f :
  a <> dst \/ lookup f dst <> None ->
  (a = dst \/ In a (parents_of dst)) ->
  (forall x, lookup f x <> None -> x <> root_path -> x <> a -> dirname x <> a) ->
  Step f -> Step (del_dent a f).
Proof.
  intros Hcase Ha Hch [H1 H2 H3 H4 H5 H6 H7].
  assert (Hlk : forall q, q <> a -> lookup (del_dent a f) q = lookup f q)
    by (intros q Hq; apply lookup_del_dent_other; exact Hq).
  assert (Hsame : a <> root_path -> lookup (del_dent a f) a = None)
    by (intros Hr; apply lookup_del_dent_same; assumption).
  constructor.
  - intros x X1 X2. rewrite Hlk; [apply H1; assumption|].
    intros ->. destruct Ha as [E|Hin]; [exact (X1 E) | exact (X2 Hin)].
  - intros d Hd. destruct (str_eqb_spec d a) as [->|Hn].
    + destruct (str_eqb_spec a root_path) as [->|Hr]; [left; reflexivity | right; apply Hsame; exact Hr].
    + rewrite Hlk by exact Hn. apply H2. exact Hd.
  - exact H3.
  - exact H4.
  - destruct (str_eqb_spec dst a) as [E|Hn].
    + subst a. left. apply Hsame. intros E.
      destruct H5 as [H5|[i [H5 _]]]; rewrite E in H5; cbn in H5; discriminate.
    + rewrite Hlk by exact Hn. exact H5.
  - apply keys_nodup_del. exact H6.
  - apply (wft_ext_del f _ a); auto.
    destruct (str_eqb_spec a root_path) as [->|Hr]; [right; reflexivity | left; apply Hsame; exact Hr].
Qed.

Lemma St_rmdir a f : In a (parents_of dst) -> Step f -> Step (snd (fs_rmdir a f)).
Proof.
  intros Ha H. unfold fs_rmdir. destruct (lookup f a) as [[| |]|] eqn:El; try exact H.
  destruct (children f a) eqn:Ec; [|exact H]. cbn [snd].
  apply St_del; try assumption.
  - left. intros ->. exact (dst_not_parent Ha).
  - right. exact Ha.
  - intros x Hx Hr _ Hd. rewrite (children_nil f a x Ec Hr Hd) in Hx. congruence.
Qed.

Lemma St_unlink f : Step f -> Step (snd (fs_unlink dst f)).
Proof.
  intros H. unfold fs_unlink. destruct (lookup f dst) as [n|] eqn:El; [|exact H].
  destruct n as [|i|t m]; [exact H| |]; cbn [snd].
  - apply St_del; auto.
    + right. congruence.
    + intros x Hx Hr _ Hd. pose proof (S_wft f H x Hx Hr) as Hdx. rewrite Hd in Hdx. congruence.
  - apply St_del; auto.
    + right. congruence.
    + intros x Hx Hr _ Hd. pose proof (S_wft f H x Hx Hr) as Hdx. rewrite Hd in Hdx. congruence.
Qed.

Lemma St_create f :
  Step f ->
  Step (snd (fs_create_excl dst f)) /\
  (forall out, fst (fs_create_excl dst f) = inl (FdFile out) -> fs_next fm <= out).
Proof.
  intros H. unfold fs_create_excl. destruct (lookup f dst) eqn:El; [split; [exact H | discriminate]|].
  unfold parent_is_dir. destruct (lookup f (dirname dst)) as [[| |]|] eqn:Ed;
    try (split; [exact H | discriminate]).
  cbn [fst snd]. fold (created dst f).
  destruct H as [H1 H2 H3 H4 H5 H6 H7]. split.
  - constructor.
    + intros x X1 X2. rewrite lookup_created_other by exact X1. apply H1; assumption.
    + intros d Hd. rewrite lookup_created_other; [apply H2; exact Hd|].
      intros ->. exact (dst_not_parent Hd).
    + cbn [created fs_next]. lia.
    + intros i Hi. rewrite get_file_created_other by lia. apply H4. exact Hi.
    + right. exists (fs_next f). split; [apply lookup_created_same; exact El|]. cbn [created fs_next]. lia.
    + apply keys_nodup_created; assumption.
    + apply (wft_ext_add f _ dst (NFile (fs_next f))); auto.
      * apply lookup_created_same. exact El.
      * intros q Hq. apply lookup_created_other. exact Hq.
  - intros out E. inversion E. lia.
Qed.

Lemma St_append out x f : fs_next fm <= out -> Step f -> Step (fs_append out x f).
Proof.
  intros Ho [H1 H2 H3 H4 H5 H6 H7]. constructor; try assumption.
  intros i Hi. rewrite get_file_append_other by lia. apply H4. exact Hi.
Qed.

(* ----- the programs ----- *)

Ltac tk := tk_with leaf1.

Lemma tk_mkdir_all ds : (forall a, In a ds -> In a (parents_of dst)) -> tok Step (mkdir_all ds).
Proof.
  induction ds as [|a ds IH]; intros Hall; cbn [mkdir_all]; [apply tok_ret|].
  assert (IH' : tok Step (mkdir_all ds)) by (apply IH; intros a' Hin; apply Hall; right; exact Hin).
  apply tok_bind.
  - apply tok_sys_unit. intros f. apply St_mkdir. apply Hall. left. reflexivity.
  - intros r. destruct r as [e|]; [destruct e|]; try exact IH'; tk.
Qed.

Lemma tk_create_parents : tok Step (create_parents dst).
Proof. unfold create_parents. tk. apply tk_mkdir_all. auto. Qed.

Lemma tk_rmdir_up ds : (forall a, In a ds -> In a (parents_of dst)) -> tok Step (rmdir_up ds).
Proof.
  induction ds as [|a ds IH]; intros Hall; cbn [rmdir_up]; [apply tok_ret|].
  assert (IH' : tok Step (rmdir_up ds)) by (apply IH; intros a' Hin; apply Hall; right; exact Hin).
  apply tok_bind.
  - apply tok_sys_unit. intros f. apply St_rmdir. apply Hall. left. reflexivity.
  - intros r. destruct r as [e|]; [destruct e|]; try exact IH'; tk.
Qed.

Lemma tk_clean_up : tok Step (clean_up dst).
Proof.
  unfold clean_up, remove_empty_parents. tk. apply tk_rmdir_up.
  intros y Hin. apply in_rev in Hin. exact Hin.
Qed.

Lemma tk_unlink_dst : tok Step (k_unlink dst).
Proof. apply tok_sys_unit. intros f. apply St_unlink. Qed.

Lemma tk_sendfile out inp off n : fs_next fm <= out -> tok Step (k_sendfile out inp off n).
Proof.
  intros Ho. unfold k_sendfile. apply tok_bind; [apply tok_transfer_limit|intros lim].
  apply tri_sys; [auto|]. intros f Hf. cbn [snd fst]. split; [|exact I]. apply St_append; assumption.
Qed.

Lemma tk_sendfile_loop fuel : forall out inp off size,
  fs_next fm <= out -> tok Step (sendfile_loop fuel out inp off size).
Proof.
  induction fuel as [|fuel IH]; intros out inp off size Ho; cbn [sendfile_loop]; [apply tok_ret|].
  destruct size; [apply tok_ret|].
  apply tok_bind; [apply tk_sendfile; exact Ho|]. intros r.
  destruct r as [[|w]|e]; tk. apply IH. exact Ho.
Qed.

Lemma tk_sync_file src off : tok Step (sync_file dst src off).
Proof.
  unfold sync_file, when_ok.
  apply tok_bind; [tk|intros b0]. destruct b0; [|apply tok_ret].
  apply tok_bind; [apply tk_create_parents|intros ?].
  apply tok_bind; [tk|intros b]. destruct (negb b); [tk; apply tk_clean_up|].
  apply tok_bind; [apply tok_open_read|intros rin].
  destruct rin as [ind|e]; [|destruct e; tk; apply tk_clean_up].
  eapply tok_bindv with (R1 := fun r => forall out, r = inl (FdFile out) -> fs_next fm <= out).
  { apply tri_open_gen; [intros e out E; discriminate|]. intros f Hf.
    destruct (St_create f Hf) as [A B]. split; [exact A | exact B]. }
  intros rout Hout.
  destruct rout as [[out|dd]|e]; [|apply tok_ret|destruct e; tk; apply tk_clean_up].
  specialize (Hout out eq_refl).
  apply tok_bind; [apply tok_fstat|intros st].
  destruct st as [[[|] size]|e];
    [| tk; first [apply tk_unlink_dst | apply tk_clean_up]
     | tk; first [apply tk_unlink_dst | apply tk_clean_up]].
  apply tok_bind; [apply tk_sendfile_loop; exact Hout|intros r].
  destruct r as [off'|]; tk; first [apply tk_unlink_dst | apply tk_clean_up].
Qed.

End StepKit.

(* ====================================================================== *)
(* C'. the bytes of the destination are a prefix of the source             *)
(* ====================================================================== *)

Lemma firstn_add_skipn {A} (l : list A) : forall c m, firstn (c + m) l = firstn c l ++ firstn m (skipn c l).
Proof.
  induction l as [|x l IH]; intros c m.
  - rewrite !firstn_nil, skipn_nil, firstn_nil. reflexivity.
  - destruct c as [|c]; [reflexivity|]. cbn [Nat.add firstn skipn app]. rewrite IH. reflexivity.
Qed.

Section PfxKit.
Variables (dst src : str) (i : nat) (b : str).

(* whatever file sits at [dst] holds a prefix of the source bytes [b] *)
Definition Pfx (f : fs) : Prop :=
  forall j, lookup f dst = Some (NFile j) -> exists m, f_bytes (get_file f j) = firstn m b.

Definition PX (f : fs) : Prop :=
  keys_nodup f /\ Src src i b f /\ (forall j, lookup f dst = Some (NFile j) -> j <> i) /\ Pfx f.

(* during the transfer: [dst] is the inode [out], which holds the first c bytes *)
Definition QQ (out c : nat) (f : fs) : Prop :=
  PX f /\ lookup f dst = Some (NFile out) /\ f_bytes (get_file f out) = firstn c b.

Lemma PX_same_dents f f' :
  keys_nodup f' -> Src src i b f' -> lookup f' dst = lookup f dst ->
  (forall j, lookup f dst = Some (NFile j) -> get_file f' j = get_file f j) -> PX f -> PX f'.
Proof.
  intros Hnd Hs Hl Hg [_ [_ [H3 H4]]]. split; [exact Hnd|]. split; [exact Hs|]. rewrite Hl. split; [exact H3|].
  intros j Hj. rewrite Hl in Hj. rewrite (Hg j Hj). apply H4. exact Hj.
Qed.

Lemma PX_mkdir a f : a <> dst -> PX f -> PX (snd (fs_mkdir a f)).
Proof.
  intros Ha H. unfold fs_mkdir. destruct (lookup f a) eqn:El; [exact H|].
  destruct (parent_is_dir f a); [exact H|]. cbn [snd].
  apply (PX_same_dents f); [| | | |exact H].
  - apply keys_nodup_add; [apply H | exact El].
  - apply Src_add; [exact El | apply H].
  - apply lookup_add_dent_other. auto.
  - reflexivity.
Qed.

Lemma PX_rmdir a f : a <> dst -> PX f -> PX (snd (fs_rmdir a f)).
Proof.
  intros Ha H. unfold fs_rmdir. destruct (lookup f a) as [[| |]|] eqn:El; try exact H.
  destruct (children f a); [|exact H]. cbn [snd].
  apply (PX_same_dents f); [| | | |exact H].
  - apply keys_nodup_del. apply H.
  - apply Src_del; [congruence | apply H].
  - apply lookup_del_dent_other. auto.
  - reflexivity.
Qed.

Lemma PX_unlink f : dst <> src -> PX f -> PX (snd (fs_unlink dst f)).
Proof.
  intros Hds H. unfold fs_unlink.
  assert (Hd : lookup f dst <> None -> lookup f dst <> Some NDir -> PX (del_dent dst f)).
  { intros Hex Hnd. destruct H as [H1 [H2 [H3 H4]]].
    assert (Hr : dst <> root_path).
    { intros E. apply Hnd. rewrite E. reflexivity. }
    assert (Hn : lookup (del_dent dst f) dst = None) by (apply lookup_del_dent_same; assumption).
    split; [apply keys_nodup_del; exact H1|]. split.
    - destruct H2 as [A [B C]]. split; [|split; assumption]. rewrite lookup_del_dent_other; auto.
    - split; intros j Hj; congruence. }
  destruct (lookup f dst) as [[| |]|] eqn:El; try exact H; cbn [snd]; apply Hd; congruence.
Qed.

Lemma PX_append out x f c' :
  lookup f dst = Some (NFile out) -> out <> i ->
  f_bytes (get_file f out) ++ x = firstn c' b -> PX f -> PX (fs_append out x f).
Proof.
  intros Hl Ho Hb [H1 [H2 [H3 H4]]]. split; [exact H1|]. split; [apply Src_append; assumption|].
  split; [exact H3|]. intros j Hj. change (lookup (fs_append out x f) dst) with (lookup f dst) in Hj.
  rewrite Hl in Hj. inversion Hj; subst j. exists c'. rewrite get_file_append_same. cbn [f_bytes]. exact Hb.
Qed.

Ltac tk := tk_with leaf1.

Lemma tp_mkdir_all ds : (forall a, In a ds -> a <> dst) -> tok PX (mkdir_all ds).
Proof.
  induction ds as [|a ds IH]; intros Hall; cbn [mkdir_all]; [apply tok_ret|].
  assert (IH' : tok PX (mkdir_all ds)) by (apply IH; intros a' Hin; apply Hall; right; exact Hin).
  apply tok_bind.
  - apply tok_sys_unit. intros f. apply PX_mkdir. apply Hall. left. reflexivity.
  - intros r. destruct r as [e|]; [destruct e|]; try exact IH'; tk.
Qed.

Lemma parent_ne_dst a : In a (parents_of dst) -> a <> dst.
Proof. intros Hin ->. exact (parents_of_not_self _ Hin). Qed.

Lemma tp_create_parents : tok PX (create_parents dst).
Proof. unfold create_parents. tk. apply tp_mkdir_all. intros y Hy. apply parent_ne_dst. exact Hy. Qed.

Lemma tp_rmdir_up ds : (forall a, In a ds -> a <> dst) -> tok PX (rmdir_up ds).
Proof.
  induction ds as [|a ds IH]; intros Hall; cbn [rmdir_up]; [apply tok_ret|].
  assert (IH' : tok PX (rmdir_up ds)) by (apply IH; intros a' Hin; apply Hall; right; exact Hin).
  apply tok_bind.
  - apply tok_sys_unit. intros f. apply PX_rmdir. apply Hall. left. reflexivity.
  - intros r. destruct r as [e|]; [destruct e|]; try exact IH'; tk.
Qed.

Lemma tp_clean_up : tok PX (clean_up dst).
Proof.
  unfold clean_up, remove_empty_parents. tk. apply tp_rmdir_up.
  intros y Hin. apply in_rev in Hin. apply parent_ne_dst. exact Hin.
Qed.

Lemma tp_unlink_dst : dst <> src -> tok PX (k_unlink dst).
Proof. intros Hds. apply tok_sys_unit. intros f. apply PX_unlink. exact Hds. Qed.

Lemma QQ_PX out c f : QQ out c f -> PX f.
Proof. intros [H _]. exact H. Qed.

(* the transfer loop: every state it goes through, and the one it dies in *)
Lemma ht_sendfile_pfx O out : out <> i -> forall fuel c size,
  ht O (fun w => QQ out c (w_fs w)) (sendfile_loop fuel out i c size)
     (fun _ w => exists c', QQ out c' (w_fs w)) (fun w => exists c', QQ out c' (w_fs w)).
Proof.
  intros Ho. induction fuel as [|fuel IH]; intros c size; cbn [sendfile_loop].
  { apply ht_ret. intros w H. exists c. exact H. }
  destruct size as [|s]; [apply ht_ret; intros w H; exists c; exact H|].
  eapply ht_bind with
    (R := fun r w => match r with
                     | inl n => QQ out (c + n) (w_fs w)
                     | inr _ => QQ out c (w_fs w)
                     end).
  { unfold k_sendfile. eapply ht_bind with (R := fun _ w => QQ out c (w_fs w)).
    { intros o w _ H. cbn. exact H. }
    intros lim. apply ht_sys.
    - intros w H. exists c. exact H.
    - intros w e H. cbn. exact H.
    - intros w [HP [Hl Hb]]. cbn [after_call w_fs].
      pose proof HP as [_ [[_ [Hg _]] _]]. rewrite Hg. cbn [f_bytes].
      set (chunk := firstn lim (skipn c b)).
      assert (Hnew : f_bytes (get_file (w_fs w) out) ++ chunk = firstn (c + length chunk) b).
      { rewrite Hb. unfold chunk. rewrite firstn_add_skipn, firstn_length_firstn. reflexivity. }
      split; [|split].
      + apply (PX_append out chunk (w_fs w) (c + length chunk)); assumption.
      + exact Hl.
      + rewrite get_file_append_same. cbn [f_bytes]. exact Hnew. }
  intros r. destruct r as [[|n]|e].
  - apply ht_ret. intros w H. exists (c + 0). exact H.
  - eapply ht_conseq3; [| | |apply (IH (c + S n) (S s - S n))]; auto.
  - eapply ht_bind with (R := fun _ w => QQ out c (w_fs w)).
    + unfold throw_errno, throw. apply ht_mod_tr. intros w H. exact H.
    + intros ?. apply ht_ret. intros w H. exists c. exact H.
Qed.

Lemma tok_of_ht {A} (P : fs -> Prop) (m : M A) :
  ht (fun _ => True) (fun w => P (w_fs w)) m (fun _ w => P (w_fs w)) (fun w => P (w_fs w)) -> tok P m.
Proof. intros H. eapply ht_conseq3; [| | |exact H]; cbn; auto. Qed.

Lemma tp_sync_file : dst <> src -> tok PX (sync_file dst src 0).
Proof.
  intros Hds. unfold sync_file, when_ok.
  apply tok_bind; [tk|intros b0]. destruct b0; [|apply tok_ret].
  apply tok_bind; [apply tp_create_parents|intros ?].
  apply tok_bind; [tk|intros bb]. destruct (negb bb); [tk; apply tp_clean_up|].
  eapply tok_bindv with (R1 := fun r => forall ind, r = inl ind -> ind = FdFile i).
  { apply tri_open_gen; [intros e ind E; discriminate|]. intros f Hf. cbn [fst snd]. split; [exact Hf|].
    intros ind E. destruct Hf as [_ [[Hl [Hg _]] _]]. unfold fs_open_read in E. rewrite Hl, Hg in E.
    cbn in E. inversion E. reflexivity. }
  intros rin Hrin. destruct rin as [ind|e]; [|destruct e; tk; apply tp_clean_up].
  rewrite (Hrin ind eq_refl). clear Hrin ind.
  assert (Hexit : tok PX (k_close;; k_close;; k_unlink dst;; clean_up dst;; ret_ 0)).
  { tk; first [apply tp_unlink_dst; exact Hds | apply tp_clean_up]. }
  assert (Hexit4 : tok PX (k_close;; k_unlink dst;; clean_up dst;; ret_ 0)).
  { tk; first [apply tp_unlink_dst; exact Hds | apply tp_clean_up]. }
  apply tok_of_ht.
  eapply ht_bind with
    (R := fun rout w => match rout with
                        | inl (FdFile out) => QQ out 0 (w_fs w) /\ out <> i
                        | _ => PX (w_fs w)
                        end).
  { unfold k_open_excl, k_open_gen. apply ht_sys.
    - auto.
    - intros w e H. cbn. exact H.
    - intros w H. unfold fs_create_excl. destruct (lookup (w_fs w) dst) eqn:El; [cbn; exact H|].
      destruct (parent_is_dir (w_fs w) dst); [cbn; exact H|]. cbn [after_call w_fs].
      fold (created dst (w_fs w)). destruct H as [H1 [H2 [H3 H4]]]. pose proof H2 as [_ [_ Hlt]].
      assert (Hlk : lookup (created dst (w_fs w)) dst = Some (NFile (fs_next (w_fs w))))
        by (apply lookup_created_same; exact El).
      split; [|lia]. split; [|split; [exact Hlk | rewrite get_file_created_new; reflexivity]].
      split; [apply keys_nodup_created; assumption|]. split; [apply Src_created; assumption|].
      split; intros j Hj; rewrite Hlk in Hj; inversion Hj; subst j; [lia|].
      exists 0. rewrite get_file_created_new. reflexivity. }
  intros rout. destruct rout as [[out|dd]|e].
  - apply ht_pure_pre with (phi := out <> i); [intros w [_ H]; exact H|]. intros Ho.
    eapply ht_bind with (R := fun _ w => QQ out 0 (w_fs w)).
    { eapply ht_conseq3; [| | |apply (tok_lift (fun _ => True) (QQ out 0) _ (tok_fstat _ (FdFile i)))].
      - intros w [H _]. exact H.
      - intros ? w H. exact H.
      - intros w [H _]. exact H. }
    intros st.
    assert (Hgo : forall (m : M nat), tok PX m ->
              ht (fun _ => True) (fun w => QQ out 0 (w_fs w)) m (fun _ w => PX (w_fs w)) (fun w => PX (w_fs w))).
    { intros m Hm. eapply ht_conseq3; [| | |apply (tok_lift (fun _ => True) PX m Hm)]; auto.
      intros w H. apply (QQ_PX _ _ _ H). }
    destruct st as [[[|] size]|e].
    + cbv zeta.
      eapply ht_bind.
      { eapply ht_conseq3; [| | |apply (ht_sendfile_pfx (fun _ => True) out Ho (S size) 0 size)].
        - intros w H. exact H.
        - intros r w H. exact H.
        - intros w [c' H]. apply (QQ_PX _ _ _ H). }
      intros r.
      eapply ht_conseq3 with (P := fun w => PX (w_fs w)) (Q := fun _ w => PX (w_fs w)) (C := fun w => PX (w_fs w));
        [intros w [c' H]; apply (QQ_PX _ _ _ H) | auto | auto |].
      apply (tok_lift (fun _ => True) PX). destruct r as [off'|]; [|exact Hexit].
      apply tok_bind; [tk|intros c0]. destruct c0 as [e|]; [|tk].
      apply tok_bind; [tk|intros ?]. exact Hexit4.
    + apply Hgo. apply tok_bind; [tk|intros ?]. exact Hexit.
    + apply Hgo. apply tok_bind; [tk|intros ?]. exact Hexit.
  - apply ht_ret. auto.
  - apply (tok_lift (fun _ => True) PX). destruct e; tk; apply tp_clean_up.
Qed.

End PfxKit.

(* ====================================================================== *)
(* D. the invariant of the pass                                            *)
(* ====================================================================== *)

Lemma inside_under d p : inside d p -> p <> d -> Str.under d p = true.
Proof.
  intros [->|[r ->]] Hn; [congruence|]. unfold Str.under. apply prefixb_spec.
  exists r. rewrite <- app_assoc. reflexivity.
Qed.

Lemma under_parent_false d dst x :
  Str.under d dst = false -> In x (parents_of dst) -> Str.under d x = false /\ x <> d.
Proof.
  intros Hu Hin. pose proof (parents_of_prefix _ _ Hin) as Hanc. split.
  - destruct (Str.under d x) eqn:E; [|reflexivity].
    rewrite (under_ancestor d x dst E Hanc) in Hu. discriminate.
  - intros ->. destruct Hanc as [r Hr]. unfold Str.under in Hu.
    assert (Hp : prefixb (d ++ [ch_slash]) dst = true).
    { apply prefixb_spec. exists r. rewrite Hr, <- app_assoc. reflexivity. }
    congruence.
Qed.

Section Pass1.
Variables (cfg : config) (cpl : nat) (oj : option journal) (d : str) (f0 : fs) (now : Z)
          (es : list entry) (h0 : N) (q0 : qmem).

Notation n := (length es).
Notation ents := (map qent_of es).

Definition dstE (e : entry) : str := store_name cfg cpl now (e_path e).
Definition offE (e : entry) : str := offset_name cfg cpl (e_path e).
Definition qname (j : nat) : str := join d (dec (h0 + N.of_nat j)).
Definition nj (i : nat) : Prop := forall jn, oj = Some jn -> i <> j_ino jn.

(* conditions on the names alone *)
Record names_ok : Prop := {
  NK_nodup : NoDup (map e_path es);
  NK_inj : forall e e', In e es -> In e' es -> dstE e = dstE e' -> e_path e = e_path e';
  NK_npar : forall e e', In e es -> In e' es -> ~ In (dstE e) (parents_of (dstE e'));
  NK_dq : forall e, In e es -> Str.under d (dstE e) = false;
  NK_off_dq : forall e, In e es -> Str.under d (offE e) = false;
  NK_off : forall e e', In e es -> In e' es ->
                        offE e <> dstE e' /\ ~ In (offE e) (parents_of (dstE e'))
}.

(* conditions on the initial file system *)
Record init_ok : Prop := {
  IK_free : forall e, In e es -> lookup f0 (dstE e) = None;
  IK_par : forall e x, In e es -> In x (parents_of (dstE e)) ->
                       lookup f0 x = Some NDir \/ lookup f0 x = None;
  IK_off : forall e, In e es -> lookup f0 (offE e) = None;
  IK_src : forall e, In e es ->
             lookup f0 (e_path e) = Some (NFile (e_ino e)) /\
             get_file f0 (e_ino e) = mkFile (e_bytes e) true /\
             e_ino e < fs_next f0 /\ nj (e_ino e);
  IK_j : forall jn, oj = Some jn -> j_ino jn < fs_next f0;
  IK_nodup : keys_nodup f0;
  IK_wft : wft f0;
  IK_q : QRel q0 f0 ents;
  IK_qd : q_dir q0 = d;
  IK_qh : q_head q0 = h0
}.

Hypothesis NK : names_ok.
Hypothesis IK : init_ok.

Let Hdnr : d <> root_path.
Proof. rewrite <- (IK_qd IK). exact (QR_nroot _ _ _ (IK_q IK)). Qed.

(* a name no program of the pass touches *)
Definition untouched (x : str) : Prop :=
  (forall j, j < n -> x <> qname j) /\
  (forall e, In e es -> x <> dstE e /\ ~ In x (parents_of (dstE e))).

Record L (k : nat) (q : qmem) (f : fs) : Prop := {
  L_other : forall x, untouched x -> lookup f x = lookup f0 x;
  L_par : forall e x, In e es -> In x (parents_of (dstE e)) ->
                      lookup f x = Some NDir \/ lookup f x = None;
  L_next : fs_next f0 <= fs_next f;
  L_files : forall i, i < fs_next f0 -> nj i -> get_file f i = get_file f0 i;
  L_nodup : keys_nodup f;
  L_wft : wft f;
  (* the popped entries have their complete version, in a new inode *)
  L_done : forall j e, nth_error es j = Some e -> j < k ->
             exists i, lookup f (dstE e) = Some (NFile i) /\ fs_next f0 <= i /\ i < fs_next f /\
                       f_bytes (get_file f i) = e_bytes e;
  (* the entry being copied: nothing, or a new file holding a PREFIX of the
     source (complete; or partial, when the process died during the transfer
     or a failed unlink left it behind) *)
  L_cur : forall e, nth_error es k = Some e ->
            lookup f (dstE e) = None \/
            exists i, lookup f (dstE e) = Some (NFile i) /\ fs_next f0 <= i /\ i < fs_next f /\
                      exists m, f_bytes (get_file f i) = firstn m (e_bytes e);
  L_todo : forall j e, nth_error es j = Some e -> k < j -> lookup f (dstE e) = None;
  L_q : QRel q f (skipn k ents);
  L_head : k < n -> q_head q = (h0 + N.of_nat k)%N;
  L_dir : q_dir q = d
}.

Definition start (k : nat) (f : fs) : Prop :=
  forall e, nth_error es k = Some e -> lookup f (dstE e) = None.

Definition CL (f : fs) : Prop := exists k q, k <= n /\ L k q f.

(* ----- names ----- *)

Lemma nth_In_es j e : nth_error es j = Some e -> In e es.
Proof. apply nth_error_In. Qed.

Lemma nth_path_inj j j' e e' :
  nth_error es j = Some e -> nth_error es j' = Some e' -> e_path e = e_path e' -> j = j'.
Proof.
  intros H1 H2 E. pose proof (NK_nodup NK) as Hnd. rewrite NoDup_nth_error in Hnd.
  apply Hnd.
  - rewrite map_length. apply nth_error_Some. congruence.
  - rewrite (map_nth_error e_path _ _ H1), (map_nth_error e_path _ _ H2). congruence.
Qed.

Lemma dst_inj j j' e e' :
  nth_error es j = Some e -> nth_error es j' = Some e' -> dstE e = dstE e' -> j = j'.
Proof.
  intros H1 H2 E. apply (nth_path_inj j j' e e' H1 H2).
  apply (NK_inj NK); eauto using nth_In_es.
Qed.

Lemma qname_under j : Str.under d (qname j) = true.
Proof. apply under_join. exact Hdnr. Qed.

Lemma dst_not_qname e j : In e es -> dstE e <> qname j /\ ~ In (qname j) (parents_of (dstE e)).
Proof. intros He. apply under_join_dec; [exact Hdnr | apply (NK_dq NK); exact He]. Qed.

Lemma parent_not_qname e x j : In e es -> In x (parents_of (dstE e)) -> x <> qname j.
Proof. intros He Hx ->. exact (proj2 (dst_not_qname e j He) Hx). Qed.

Lemma qname_inj j j' : qname j = qname j' -> j = j'.
Proof. intros E. apply join_dec_inj in E. lia. Qed.

(* names inside the queue directory are not touched by the copy of [e] *)
Lemma inside_not_dst e p : In e es -> inside d p -> lookup f0 d = Some NDir ->
  p <> dstE e /\ ~ In p (parents_of (dstE e)).
Proof.
  intros He Hin Hd.
  pose proof (NK_dq NK e He) as Hu.
  destruct (str_eqb_spec p d) as [->|Hpd].
  - split.
    + intros E. rewrite E in Hd. rewrite (IK_free IK e He) in Hd. discriminate.
    + intros Hp. exact (proj2 (under_parent_false d _ _ Hu Hp) eq_refl).
  - pose proof (inside_under d p Hin Hpd) as Hup. split.
    + intros E. congruence.
    + intros Hp. rewrite (proj1 (under_parent_false d _ _ Hu Hp)) in Hup. discriminate.
Qed.

Lemma offE_untouched e : In e es -> untouched (offE e).
Proof.
  intros He. split.
  - intros j _ E. pose proof (qname_under j) as Hu. rewrite <- E, (NK_off_dq NK e He) in Hu. discriminate.
  - intros e' He'. apply (NK_off NK); assumption.
Qed.

Lemma src_untouched e : In e es -> untouched (e_path e).
Proof.
  intros He. destruct (IK_src IK e He) as [Hs _]. split.
  - intros j Hj E.
    destruct (nth_error ents j) as [[[p m] t]|] eqn:En.
    + pose proof (QR_ent _ _ _ (IK_q IK) j p m t En) as Hl.
      rewrite (IK_qd IK), (IK_qh IK) in Hl. fold (qname j) in Hl. rewrite <- E, Hs in Hl. discriminate.
    + apply nth_error_None in En. rewrite map_length in En. lia.
  - intros e' He'. split.
    + intros E. rewrite E, (IK_free IK e' He') in Hs. discriminate.
    + intros Hp. destruct (IK_par IK e' _ He' Hp) as [A|A]; rewrite A in Hs; discriminate.
Qed.

(* ----- the initial world ----- *)

Lemma L_init : L 0 q0 f0 /\ start 0 f0.
Proof.
  split.
  - constructor.
    + reflexivity.
    + apply (IK_par IK).
    + lia.
    + reflexivity.
    + exact (IK_nodup IK).
    + exact (IK_wft IK).
    + intros j e _ Hj. lia.
    + intros e He. left. apply (IK_free IK). eapply nth_In_es; eauto.
    + intros j e He _. apply (IK_free IK). eapply nth_In_es; eauto.
    + exact (IK_q IK).
    + intros _. rewrite (IK_qh IK). lia.
    + exact (IK_qd IK).
  - intros e He. apply (IK_free IK). eapply nth_In_es; eauto.
Qed.

(* ----- the source of an entry is intact ----- *)

Lemma L_src k q f e : L k q f -> In e es -> Src (e_path e) (e_ino e) (e_bytes e) f.
Proof.
  intros HL He. destruct (IK_src IK e He) as [H1 [H2 [H3 H4]]].
  split; [|split].
  - rewrite (L_other _ _ _ HL _ (src_untouched e He)). exact H1.
  - rewrite (L_files _ _ _ HL _ H3 H4). exact H2.
  - pose proof (L_next _ _ _ HL). lia.
Qed.

Lemma L_off k q f e : L k q f -> In e es -> lookup f (offE e) = None.
Proof.
  intros HL He. rewrite (L_other _ _ _ HL _ (offE_untouched e He)). apply (IK_off IK). exact He.
Qed.

(* ----- (P1) the copy phase keeps the invariant ----- *)

Lemma Step_refl k q fm e :
  L k q fm -> nth_error es k = Some e -> start k fm -> Step fm (dstE e) fm.
Proof.
  intros HL He Hst. constructor.
  - reflexivity.
  - intros x Hx. apply (L_par _ _ _ HL e x); [eapply nth_In_es; eauto | exact Hx].
  - lia.
  - reflexivity.
  - left. apply Hst. exact He.
  - exact (L_nodup _ _ _ HL).
  - exact (L_wft _ _ _ HL).
Qed.

Lemma L_step k q fm e f :
  L k q fm -> nth_error es k = Some e -> start k fm -> Step fm (dstE e) f ->
  Pfx (dstE e) (e_bytes e) f -> L k q f.
Proof.
  intros HL He Hst HS HPf.
  pose proof (nth_In_es _ _ He) as Hin.
  destruct HS as [S1 S2 S3 S4 S5 S6 S7].
  (* the other candidate names are not touched by this copy *)
  assert (Hoth : forall j e', nth_error es j = Some e' -> j <> k ->
                   lookup f (dstE e') = lookup fm (dstE e')).
  { intros j e' He' Hjk. apply S1.
    - intros E. apply Hjk. exact (dst_inj j k e' e He' He E).
    - apply (NK_npar NK); eauto using nth_In_es. }
  constructor.
  - intros x Hx. rewrite S1; [apply (L_other _ _ _ HL); exact Hx | |]; apply (proj2 Hx e Hin).
  - intros e' x He' Hx.
    destruct (str_in_dec x (parents_of (dstE e))) as [Hp|Hp]; [apply S2; exact Hp|].
    rewrite S1; [apply (L_par _ _ _ HL e' x He' Hx) | | exact Hp].
    intros ->. exact (NK_npar NK e e' Hin He' Hx).
  - pose proof (L_next _ _ _ HL). lia.
  - intros i Hi Hn. rewrite S4 by (pose proof (L_next _ _ _ HL); lia). apply (L_files _ _ _ HL); assumption.
  - exact S6.
  - exact S7.
  - intros j e' He' Hj. destruct (L_done _ _ _ HL j e' He' Hj) as [i [A [B [C D]]]].
    exists i. rewrite (Hoth j e' He') by lia. split; [exact A|]. split; [exact B|]. split; [lia|].
    rewrite S4 by exact C. exact D.
  - intros e' He'. rewrite He in He'. injection He' as <-.
    pose proof (L_next _ _ _ HL).
    destruct S5 as [A|[i [A [B C]]]]; [left; exact A|]. right. exists i.
    split; [exact A|]. split; [lia|]. split; [exact C|]. apply HPf. exact A.
  - intros j e' He' Hj. rewrite (Hoth j e' He') by lia. apply (L_todo _ _ _ HL j e' He' Hj).
  - eapply QRel_ext; [|exact (L_q _ _ _ HL)]. intros p Hp. rewrite (L_dir _ _ _ HL) in Hp.
    assert (Hd0 : lookup f0 d = Some NDir).
    { pose proof (QR_dir _ _ _ (IK_q IK)) as X. rewrite (IK_qd IK) in X. exact X. }
    destruct (inside_not_dst e p Hin Hp Hd0) as [A B]. apply S1; assumption.
  - exact (L_head _ _ _ HL).
  - exact (L_dir _ _ _ HL).
Qed.

(* ----- (P3) the journal is appended to ----- *)

Definition JA (f f' : fs) : Prop :=
  fs_dents f' = fs_dents f /\ fs_next f' = fs_next f /\ forall i, nj i -> get_file f' i = get_file f i.

Lemma L_ja k q f f' : L k q f -> JA f f' -> L k q f' /\ (start k f -> start k f').
Proof.
  intros HL [D [N G]].
  assert (Lk : forall x, lookup f' x = lookup f x) by (intros x; unfold lookup; rewrite D; reflexivity).
  assert (Hnew : forall i, fs_next f0 <= i -> nj i).
  { intros i Hi jn Hj E. pose proof (IK_j IK jn Hj). lia. }
  split.
  - constructor.
    + intros x Hx. rewrite Lk. apply (L_other _ _ _ HL). exact Hx.
    + intros e x He Hx. rewrite Lk. apply (L_par _ _ _ HL e x He Hx).
    + rewrite N. exact (L_next _ _ _ HL).
    + intros i Hi Hn. rewrite (G i Hn). apply (L_files _ _ _ HL); assumption.
    + unfold keys_nodup. rewrite D. exact (L_nodup _ _ _ HL).
    + intros x. rewrite !Lk. apply (L_wft _ _ _ HL).
    + intros j e He Hj. destruct (L_done _ _ _ HL j e He Hj) as [i [A [B [C E]]]].
      exists i. rewrite Lk, N, (G i (Hnew i B)). auto.
    + intros e He. rewrite Lk, N. destruct (L_cur _ _ _ HL e He) as [A|[i [A [B [C [m Dm]]]]]]; [left; exact A|].
      right. exists i. rewrite (G i (Hnew i B)). eauto 6.
    + intros j e He Hj. rewrite Lk. exact (L_todo _ _ _ HL j e He Hj).
    + eapply QRel_same_dents; [exact D | exact (L_q _ _ _ HL)].
    + exact (L_head _ _ _ HL).
    + exact (L_dir _ _ _ HL).
  - intros Hs e He. rewrite Lk. apply Hs. exact He.
Qed.

(* ----- (P2) the head is popped after a complete copy ----- *)

Lemma skipn_map_nth k e :
  nth_error es k = Some e -> skipn k ents = qent_of e :: skipn (S k) ents.
Proof. intros He. apply skipn_nth_cons. apply map_nth_error. exact He. Qed.

Lemma L_pop k q f e x t :
  L k q f -> nth_error es k = Some e ->
  (exists i, lookup f (dstE e) = Some (NFile i) /\ f_bytes (get_file f i) = e_bytes e) ->
  lookup f (head_name q) = Some (NLink x t) ->
  L (S k) (popped (strip x) q) (del_dent (head_name q) f) /\
  start (S k) (del_dent (head_name q) f).
Proof.
  intros HL He [i [Hi Hb]] Hl.
  pose proof (nth_In_es _ _ He) as Hin.
  assert (Hkn : k < n) by (apply nth_error_Some; congruence).
  pose proof (L_q _ _ _ HL) as HR. rewrite (skipn_map_nth k e He) in HR. unfold qent_of at 1 in HR.
  pose proof (QRel_head _ _ _ _ _ _ HR) as Hh. fold (head_name q) in Hh.
  rewrite Hh in Hl. injection Hl as <- <-.
  pose proof (QR_wf _ _ _ HR) as Hw. apply Forall_inv in Hw. destruct Hw as [Hnorm _].
  unfold qpath in Hnorm. cbn [fst] in Hnorm. rewrite (strip_encode 0%N (e_path e) Hnorm).
  assert (Ehn : head_name q = qname k).
  { unfold head_name, qname. rewrite (L_dir _ _ _ HL), (L_head _ _ _ HL Hkn). reflexivity. }
  assert (Hlk : forall y, y <> qname k -> lookup (del_dent (head_name q) f) y = lookup f y).
  { intros y Hy. rewrite Ehn. apply lookup_del_dent_other. exact Hy. }
  assert (Hdq : forall e', In e' es -> dstE e' <> qname k) by (intros e' He'; apply dst_not_qname; exact He').
  split.
  - constructor.
    + intros y Hy. rewrite Hlk by (apply (proj1 Hy); exact Hkn). apply (L_other _ _ _ HL). exact Hy.
    + intros e' y He' Hy. rewrite Hlk by (eapply parent_not_qname; eauto). apply (L_par _ _ _ HL e' y He' Hy).
    + exact (L_next _ _ _ HL).
    + exact (L_files _ _ _ HL).
    + apply keys_nodup_del. exact (L_nodup _ _ _ HL).
    + apply (wft_ext_del f _ (head_name q)).
      * left. apply lookup_del_dent_same; [exact (L_nodup _ _ _ HL)|].
        rewrite Ehn. unfold qname. apply join_dec_nonroot. exact Hdnr.
      * intros y Hy. apply lookup_del_dent_other. exact Hy.
      * intros y Hy Hr _ Hd. pose proof (L_wft _ _ _ HL y Hy Hr) as Hdy. rewrite Hd, Hh in Hdy. discriminate.
      * exact (L_wft _ _ _ HL).
    + intros j e' He' Hj. rewrite Hlk by (apply Hdq; eapply nth_In_es; eauto). cbn [fs_next del_dent get_file].
      destruct (Nat.eq_dec j k) as [->|Hne].
      * rewrite He in He'. injection He' as <-.
        destruct (L_cur _ _ _ HL e He) as [A|[i' [A [B [C _]]]]]; [congruence|].
        exists i'. rewrite A in Hi. injection Hi as <-. auto.
      * apply (L_done _ _ _ HL j e' He'). lia.
    + intros e' He'. left. rewrite Hlk by (apply Hdq; eapply nth_In_es; eauto).
      apply (L_todo _ _ _ HL (S k) e' He'). lia.
    + intros j e' He' Hj. rewrite Hlk by (apply Hdq; eapply nth_In_es; eauto).
      apply (L_todo _ _ _ HL j e' He'). lia.
    + apply (QRel_pop q f (e_path e) 0%N (e_time e)); [exact (L_nodup _ _ _ HL) | exact HR].
    + intros Hlt. destruct (skipn (S k) ents) as [|e2 rest2] eqn:E2.
      * exfalso. pose proof (skipn_length (S k) ents) as Hlen. rewrite E2, map_length in Hlen.
        cbn [length] in Hlen. lia.
      * rewrite (popped_head q f _ _ _ (e_path e) HR). rewrite (L_head _ _ _ HL Hkn). lia.
    + exact (L_dir _ _ _ HL).
  - intros e' He'. rewrite Hlk by (apply Hdq; eapply nth_In_es; eauto).
    apply (L_todo _ _ _ HL (S k) e' He'). lia.
Qed.

(* ====================================================================== *)
(* E. Hoare triples of the pieces                                          *)
(* ====================================================================== *)

Lemma ht_get_timestamp O f c pat (C : world -> Prop) :
  ht O (fun w => w_fs w = f /\ w_clock w = c) (get_timestamp pat)
     (fun v w => (w_fs w = f /\ w_clock w = c) /\
                 forall ver, v = Some ver -> ver = expand_pattern pat (dec (Z.to_N c))) C.
Proof.
  unfold get_timestamp.
  eapply ht_bind; [apply ht_get_clock|]. intros now0.
  apply ht_pure_pre with (phi := now0 = c). { intros w [[_ H] E]. congruence. }
  intros ->.
  eapply ht_bind with (R := fun _ w => w_fs w = f /\ w_clock w = c).
  { apply ht_is_ok. intros w [H _]. exact H. }
  intros b0. destruct b0.
  - destruct (Nat.ltb name_max (length (expand_pattern pat (dec (Z.to_N c))))).
    + eapply ht_bind with (R := fun _ w => w_fs w = f /\ w_clock w = c).
      { unfold throw_static, throw. apply ht_mod_tr. intros w H. exact H. }
      intros ?. apply ht_ret. intros w H. split; [exact H|]. intros ver E. discriminate.
    + apply ht_ret. intros w H. split; [exact H|]. intros ver E. inversion E. reflexivity.
  - apply ht_ret. intros w H. split; [exact H|]. intros ver E. discriminate.
Qed.

(* q_pop_head: the queue is returned unchanged only with an error in the trace *)
Lemma ht_pop_strong O f1 q :
  (forall x t, lookup f1 (head_name q) = Some (NLink x t) -> length x < S (q_len_guess q) * 2 ^ 63) ->
  ht O (fun w => w_fs w = f1) (q_pop_head q)
     (fun q' w => (q' = q /\ w_fs w = f1 /\ tr_ok (w_tr w) = false) \/
                  (exists x t, lookup f1 (head_name q) = Some (NLink x t) /\
                               q' = popped (strip x) q /\ w_fs w = del_dent (head_name q) f1))
     (fun w => w_fs w = f1).
Proof.
  intros Hfit. unfold q_pop_head, when_ok.
  eapply ht_bind with (R := fun b w => w_fs w = f1 /\ b = tr_ok (w_tr w)); [apply ht_is_ok; auto|].
  intros b. destruct b; [|apply ht_ret; intros w [H1 H2]; left; auto].
  eapply ht_bind.
  { eapply ht_conseq3; [| | |apply (ht_read_entry O f1 q (dec (q_head q)))];
      [intros w [H _]; exact H | intros r w H; exact H | auto]. }
  intros r.
  eapply ht_bind with
    (R := fun b w => (w_fs w = f1 /\
            match r with
            | Some x => exists t, lookup f1 (head_name q) = Some (NLink x t)
            | None => tr_ok (w_tr w) = false
            end) /\ b = tr_ok (w_tr w)).
  { apply ht_is_ok. intros w [Hw Hr]. split; [|reflexivity]. split; [exact Hw|].
    destruct r as [x|]; [exact Hr|]. destruct Hr as [Hr|[x [t [Hl Hlen]]]]; [exact Hr|].
    specialize (Hfit x t Hl). lia. }
  intros b2. destruct b2; cbn [negb]; [|apply ht_ret; intros w [[Hw _] Hb]; left; auto].
  destruct r as [x|].
  2:{ intros o w _ [[_ Hr] Hb]. congruence. }
  apply ht_pure_pre with (phi := exists t, lookup f1 (head_name q) = Some (NLink x t)).
  { intros w [[_ Hr] _]. exact Hr. }
  intros [t Hl].
  eapply ht_bind with
    (R := fun r w => match r with
                     | Some _ => w_fs w = f1
                     | None => w_fs w = del_dent (head_name q) f1
                     end).
  { unfold k_unlinkat, sys_unit. apply ht_sys.
    - intros w [[Hw _] _]. exact Hw.
    - intros w e [[Hw _] _]. cbn. exact Hw.
    - intros w [[Hw _] _]. rewrite Hw. fold (head_name q). unfold fs_unlink. rewrite Hl. cbn. reflexivity. }
  intros r. destruct r as [e|].
  - eapply ht_bind with (R := fun _ w => w_fs w = f1 /\ tr_ok (w_tr w) = false).
    + unfold throw_errno, throw. apply ht_mod_tr. intros w Hw. split; [exact Hw | reflexivity].
    + intros ?. apply ht_ret. intros w [H1 H2]. left. auto.
  - apply ht_ret. intros w Hw. right. exists x, t. split; [exact Hl|]. split; [reflexivity | exact Hw].
Qed.

(* q_get_head on a queue without repeated paths: nothing is removed; a ready
   head is the first entry *)
Lemma ht_get_head_plain O f1 q ents' fuel :
  QRel q f1 ents' ->
  (forall p m t rest, ents' = (p, m, t) :: rest -> count_paths p ents' = 1) ->
  ht O (fun w => w_fs w = f1) (q_get_head fuel q)
     (fun r w => w_fs w = f1 /\ snd r = q /\
                 forall path meta, fst r = Some (QReady path meta) ->
                                   exists t rest, ents' = (path, meta, t) :: rest)
     (fun w => w_fs w = f1).
Proof.
  intros HR Hc. destruct ents' as [|[[p m] t] rest].
  - rewrite q_get_head_unfold.
    eapply ht_bind with (R := fun _ w => w_fs w = f1); [apply ht_is_ok; auto|intros b0].
    destruct (negb b0).
    { apply ht_ret. intros w Hw. cbn [fst snd]. split; [exact Hw|]. split; [reflexivity|]. intros ? ? E. discriminate. }
    rewrite (QR_size _ _ _ HR). cbn [length]. change (N.of_nat 0 =? 0)%N with true. cbv iota.
    apply ht_ret. intros w Hw. cbn [fst snd]. split; [exact Hw|]. split; [reflexivity|]. intros ? ? E. discriminate.
  - eapply ht_conseq3; [| | |apply (ht_get_head_first O f1 q p m t rest fuel HR (Hc p m t rest eq_refl))].
    + auto.
    + intros r w [H1 [H2 H3]]. split; [exact H1|]. split; [exact H2|].
      intros path meta E. destruct (H3 path meta E) as [-> ->]. exists t, rest. reflexivity.
    + auto.
Qed.

Lemma count_paths_none p l : (forall x, In x l -> qpath x <> p) -> count_paths p l = 0.
Proof.
  induction l as [|x l IH]; intros H; [reflexivity|]. cbn [count_paths].
  destruct (str_eqb_spec p (qpath x)) as [E|_].
  - exfalso. apply (H x (or_introl eq_refl)). symmetry. exact E.
  - rewrite IH; [reflexivity|]. intros y Hy. apply H. right. exact Hy.
Qed.

Lemma count_paths_nodup k e :
  nth_error es k = Some e -> count_paths (e_path e) (skipn k ents) = 1.
Proof.
  intros He. destruct (nth_error_split es k He) as [l1 [l2 [Ees Hlen]]].
  pose proof (NK_nodup NK) as Hnd. rewrite Ees, map_app in Hnd. cbn [map] in Hnd.
  apply NoDup_remove_2 in Hnd.
  assert (Hsk : skipn k ents = qent_of e :: map qent_of l2).
  { rewrite Ees, map_app. cbn [map]. rewrite <- Hlen, <- (map_length qent_of l1).
    rewrite skipn_app, Nat.sub_diag, skipn_all. reflexivity. }
  rewrite Hsk. cbn [count_paths]. unfold qpath at 1, qent_of at 1. cbn [fst]. rewrite str_eqb_refl.
  rewrite count_paths_none; [reflexivity|].
  intros x Hx E. apply in_map_iff in Hx. destruct Hx as [e' [<- He']].
  apply Hnd. apply in_or_app. right. apply in_map_iff. exists e'. split; [exact E | exact He'].
Qed.

(* record_event only appends to the journal inode *)
Lemma tok_write_all_app (X : fs -> Prop) i :
  (forall f x, X f -> X (fs_append i x f)) -> forall fuel b, tok X (write_all fuel i b).
Proof.
  intros HX. induction fuel as [|fuel IH]; intros b; cbn [write_all]; [apply tok_ret|].
  destruct b as [|c0 b]; [apply tok_ret|].
  apply tok_bind.
  - unfold k_write. apply tok_bind; [apply tok_transfer_limit|intros lim].
    apply tri_sys; [auto|]. intros f Hf. cbn [snd fst]. split; [apply HX; exact Hf | exact I].
  - intros r. destruct r; tk_with leaf1. apply IH.
Qed.

Lemma tok_record_event_app (X : fs -> Prop) ev pid path h :
  (forall jn, h_journal h = Some jn -> forall f x, X f -> X (fs_append (j_ino jn) x f)) ->
  tok X (record_event ev pid path h).
Proof.
  intros HX. unfold record_event, note. destruct (h_journal h) as [jn|]; [|tk_with leaf1].
  destruct ev as [ev|]; [|tk_with leaf1].
  tk_with leaf1. apply tok_write_all_app. apply (HX jn eq_refl).
Qed.

(* ----- the copy loop on a free first candidate ----- *)

Section CopyLoop.
Variables (fm : fs) (dst p : str) (i : nat) (b : str) (offp : str) (cfg0 : config).
Hypothesis HS0 : Step fm dst fm.
Hypothesis Hsrc : Src p i b fm.
Hypothesis Hfree : lookup fm dst = None.
Hypothesis Hoff : lookup fm offp = None.
Hypothesis Hod : offp <> dst.
Hypothesis Hop : ~ In offp (parents_of dst).

Lemma Step_off f : Step fm dst f -> lookup f offp = None.
Proof. intros H. rewrite (S_other _ _ _ H offp Hod Hop). exact Hoff. Qed.

Lemma tok_write_counter_noop (X : fs -> Prop) :
  (forall f, X f -> lookup f offp = None) -> tok X (write_counter offp 0%N).
Proof.
  intros HX. unfold write_counter, when_ok.
  apply tok_bind; [tk_with leaf1|intros b0]. destruct b0; [|apply tok_ret].
  change (0 =? 0)%N with true. cbv iota.
  eapply tok_bindv with (R1 := fun r => r <> None).
  { unfold k_unlink, sys_unit. apply tri_sys.
    - intros e. discriminate.
    - intros f Hf. unfold fs_unlink. rewrite (HX f Hf). cbn. split; [exact Hf | discriminate]. }
  intros r Hr. destruct r as [e|]; [|congruence]. destruct e; tk_with leaf1.
Qed.

(* the frame of the copy, and the prefix property of the destination *)
Definition Y (f : fs) : Prop := Step fm dst f /\ PX dst p i b f.

Lemma Hds : dst <> p.
Proof. intros E. destruct Hsrc as [H _]. rewrite <- E, Hfree in H. discriminate. Qed.

Lemma Y_init : Y fm.
Proof.
  split; [exact HS0|]. split; [exact (S_nodup _ _ _ HS0)|]. split; [exact Hsrc|].
  split; intros j Hj; rewrite Hfree in Hj; discriminate.
Qed.

Lemma Y_off f : Y f -> lookup f offp = None.
Proof. intros [H _]. apply Step_off. exact H. Qed.

Lemma tok_Y_sync : tok Y (sync_file dst p 0).
Proof. apply tok_conj; [apply tk_sync_file | apply tp_sync_file; exact Hds]. Qed.

Lemma ht_fsl fuel sp :
  current_path sp = dst ->
  ht honest (fun w => w_fs w = fm /\ t_frames (w_tr w) = [])
     (file_store_loop (S fuel) sp p offp 0 false cfg0)
     (fun _ w => Y (w_fs w) /\ (tr_ok (w_tr w) = true -> Copied b dst 0 (w_fs w)))
     (fun w => Y (w_fs w)).
Proof.
  intros Esp. cbn [file_store_loop]. rewrite Esp.
  eapply ht_bind with (R := fun _ w => w_fs w = fm /\ t_frames (w_tr w) = []).
  { unfold try_. apply ht_mod_tr. intros w [H1 H2]. split; [exact H1|].
    cbn [QueueProofs.upd_tr w_tr]. rewrite tr_try_frames. exact H2. }
  intros ?.
  eapply ht_bind with (R := fun _ w => Y (w_fs w) /\ sf_out p i b dst 0 fm w).
  { eapply ht_conseq3;
      [| | |apply ht_conj;
            [apply (tok_lift honest _ _ tok_Y_sync)
            |apply (ht_sync_file p i b dst 0 fm)]].
    - intros w [H1 H2]. unfold sf_pre. rewrite H1. split; [exact Y_init|]. split; [exact Hsrc|].
      split; [intros x _ Hx; exact Hx | exact H2].
    - intros ? w H. exact H.
    - intros w [H _]. exact H. }
  intros no.
  eapply ht_conseq3 with
    (P := fun w => (Y (w_fs w) /\ t_frames (w_tr w) = [] /\ Copied b dst 0 (w_fs w)) \/
                   ((Y (w_fs w) /\ False) \/
                    (Y (w_fs w) /\
                     exists fr rest, t_frames (w_tr w) = fr :: rest /\ other_frame fr)));
    [| intros r w H; exact H | intros w H; exact H |].
  { intros w [HG [HS [[H1 H2]|[[H1 [H2 H3]]|H1]]]]; [left; auto | right; left | right; right; auto].
    split; [exact HG|]. apply H3. exact Hfree. }
  apply ht_pre_or; [|apply ht_pre_or].
  - (* copied *)
    apply ht_catch_false; [intros w [_ [H _]]; apply catch_empty; exact H|]. cbv iota.
    apply ht_catch_false; [intros w [_ [H _]]; apply catch_empty; exact H|]. cbv iota.
    apply ht_catch_false; [intros w [_ [H _]]; apply catch_empty; exact H|]. cbv iota.
    apply ht_catch_false; [intros w [_ [H _]]; apply catch_empty; exact H|]. cbv iota.
    change (N.of_nat 0) with 0%N.
    set (X := fun f => Y f /\ Copied b dst 0 f).
    assert (HXo : forall f, X f -> lookup f offp = None) by (intros f [H _]; apply Y_off; exact H).
    eapply ht_bind with (R := fun _ w => X (w_fs w)).
    { eapply ht_conseq3; [| | |apply (tok_lift honest X _ (tok_write_counter_noop X HXo))].
      - intros w [H1 [_ H2]]. split; assumption.
      - intros ? w H. exact H.
      - intros w [H _]. exact H. }
    intros ?.
    eapply ht_bind with (R := fun _ w => X (w_fs w)); [apply ht_is_ok; auto|intros b0].
    eapply ht_bind with (R := fun _ w => X (w_fs w)).
    { unfold finally_. apply ht_mod_tr. intros w H. exact H. }
    intros ?. apply ht_ret. intros w [H1 H2]. split; [exact H1 | intros _; exact H2].
  - apply ht_pure_pre with (phi := False); [intros w [_ []] | intros []].
  - (* another error *)
    assert (Hc : forall m w,
               (Y (w_fs w) /\ exists fr rest, t_frames (w_tr w) = fr :: rest /\ other_frame fr) ->
               In m [M_src_missing; M_not_regular; M_src_denied; M_dst_exists] ->
               tr_catch_static m (w_tr w) = (false, w_tr w)).
    { intros m w [_ [fr [rest [Hf Ho]]]] Hin. apply (catch_other_frame m _ fr rest Hf).
      intros ->. cbn in Hin. destruct Hin as [<-|[<-|[<-|[<-|[]]]]]; exact Ho. }
    apply ht_catch_false; [intros w H; apply Hc; [exact H | cbn; tauto]|]. cbv iota.
    apply ht_catch_false; [intros w H; apply Hc; [exact H | cbn; tauto]|]. cbv iota.
    apply ht_catch_false; [intros w H; apply Hc; [exact H | cbn; tauto]|]. cbv iota.
    apply ht_catch_false; [intros w H; apply Hc; [exact H | cbn; tauto]|]. cbv iota.
    change (N.of_nat 0) with 0%N.
    eapply ht_bind with (R := fun _ w => Y (w_fs w) /\ tr_ok (w_tr w) = false).
    { eapply ht_conseq3;
        [| | |apply ht_conj;
              [apply (tok_lift honest _ _ (tok_write_counter_noop Y Y_off))
              |apply (ht_write_counter_skip honest (fun w => Y (w_fs w)) offp 0%N); auto]].
      - intros w [H1 [fr [rest [H2 _]]]]. split; [exact H1|]. split; [exact H1|].
        unfold tr_ok. rewrite H2. reflexivity.
      - intros ? w [H1 [_ H2]]. auto.
      - intros w [H _]. exact H. }
    intros ?.
    eapply ht_bind with (R := fun _ w => Y (w_fs w) /\ tr_ok (w_tr w) = false);
      [apply ht_is_ok; auto|intros b0].
    eapply ht_bind with (R := fun _ w => Y (w_fs w) /\ tr_ok (w_tr w) = false).
    { unfold finally_. apply ht_mod_tr. intros w [H1 H2]. split; [exact H1|].
      cbn [QueueProofs.upd_tr w_tr]. unfold tr_ok in *. rewrite tr_finally_frames. exact H2. }
    intros ?. apply ht_ret. intros w [H1 H2]. split; [exact H1|]. intros E. congruence.
Qed.

End CopyLoop.

(* ====================================================================== *)
(* F. the loop                                                             *)
(* ====================================================================== *)

Definition HIh (h : handler) : Prop := h_cfg h = cfg /\ h_cpl h = cpl /\ h_journal h = oj.

Lemma HIh_set_q q h : HIh h -> HIh (set_q q h).
Proof. intros H. exact H. Qed.

Lemma skipn_head_nth {A} (l : list A) : forall k x rest, skipn k l = x :: rest -> nth_error l k = Some x.
Proof.
  induction l as [|y l IH]; intros k x rest H.
  - destruct k; discriminate.
  - destruct k as [|k]; cbn [skipn nth_error] in *; [inversion H; reflexivity | eapply IH; exact H].
Qed.

Lemma head_entry k x rest :
  skipn k ents = x :: rest -> exists e, nth_error es k = Some e /\ x = qent_of e.
Proof.
  intros H. apply skipn_head_nth in H. rewrite nth_error_map in H.
  destruct (nth_error es k) as [e|]; [|discriminate]. exists e. cbn in H. inversion H. auto.
Qed.

Lemma QRel_fit q f ents' : QRel q f ents' ->
  forall x t, lookup f (head_name q) = Some (NLink x t) -> length x < S (q_len_guess q) * 2 ^ 63.
Proof.
  intros HR x t Hl. destruct ents' as [|[[p m] t'] rest].
  - pose proof (QR_free _ _ _ HR (q_head q)) as Hf. cbn [length] in Hf.
    unfold head_name in Hl. rewrite Hf in Hl by lia. discriminate.
  - pose proof (QRel_head _ _ _ _ _ _ HR) as Hh. unfold head_name in Hl. rewrite Hh in Hl.
    inversion Hl; subst x t'. pose proof (QR_wf _ _ _ HR) as Hw. apply Forall_inv in Hw.
    destruct Hw as [_ Hfit]. exact Hfit.
Qed.

(* a program that does not write, started on [f] *)
Lemma ht_ro f {A} (m : M A) :
  CL f -> (forall P, tok P m) -> ck m ->
  ht honest (fun w => w_fs w = f /\ w_clock w = now) m
     (fun _ w => w_fs w = f /\ w_clock w = now) (fun w => CL (w_fs w)).
Proof.
  intros HC Hm Hc.
  eapply ht_conseq3; [| | |apply (ht_ck now honest _ m _ _ Hc (tok_lift honest (fun x => x = f) m (Hm _)))].
  - intros w H. exact H.
  - intros a w H. exact H.
  - intros w H. cbv beta in H. rewrite H. exact HC.
Qed.

Lemma ht_ret_CL f {A} (r : A) :
  CL f -> ht honest (fun w => w_fs w = f /\ w_clock w = now) (ret_ r)
             (fun _ w => CL (w_fs w)) (fun w => CL (w_fs w)).
Proof. intros HC. apply ht_ret. intros w [H _]. rewrite H. exact HC. Qed.

Lemma JA_append jn x f : oj = Some jn -> JA f (fs_append (j_ino jn) x f).
Proof.
  intros Hj. split; [reflexivity|]. split; [reflexivity|].
  intros i Hi. apply get_file_append_other. apply Hi. exact Hj.
Qed.

Ltac wk := eapply ht_pre; [|].

Lemma loopL fuel : forall rev h k, HIh h -> k <= n ->
  ht honest (fun w => (L k (h_q h) (w_fs w) /\ start k (w_fs w)) /\ w_clock w = now)
     (handle_timeout_loop fuel rev h) (fun _ w => CL (w_fs w)) (fun w => CL (w_fs w)).
Proof.
  induction fuel as [|fuel IH]; intros rev h k Hh Hk; cbn [handle_timeout_loop].
  { apply ht_ret. intros w [[HL _] _]. exists k, (h_q h). auto. }
  apply ht_freeze. intros w0 [[HL Hst] Hclk].
  set (fm := w_fs w0) in *. set (q := h_q h) in *.
  destruct Hh as [Hcfg [Hcpl Hoj]].
  assert (HCL : CL fm) by (exists k, q; auto).
  apply ht_pre with (P := fun w => w_fs w = fm /\ w_clock w = now); [intros w ->; auto|].
  pose proof (fun A r => @ht_ret_CL fm A r HCL) as Hret.
  eapply ht_bind; [apply (ht_ro fm); [exact HCL | intros P; tk_with leaf1 | ckt]|intros b0].
  destruct (negb b0); [apply Hret|].
  eapply ht_bind; [apply (ht_ro fm); [exact HCL | intros P; tk_with leaf1 | ckt]|intros ?].
  (* the head *)
  assert (Hcnt : forall p m t rest, skipn k ents = (p, m, t) :: rest -> count_paths p (skipn k ents) = 1).
  { intros p m t rest E. destruct (head_entry k _ _ E) as [e [He Ex]]. inversion Ex; subst.
    apply count_paths_nodup. exact He. }
  eapply ht_bind.
  { eapply ht_conseq3;
      [| | |apply (ht_ck now honest _ _ _ _ (ck_q_get_head _ q)
                    (ht_get_head_plain honest fm q (skipn k ents) _ (L_q _ _ _ HL) Hcnt))].
    - intros w H. exact H.
    - intros r w H. exact H.
    - intros w H. cbv beta in H. rewrite H. exact HCL. }
  intros r. destruct r as [hd q1]. cbn [fst snd].
  apply ht_pure_pre with
    (phi := q1 = q /\ forall path meta, hd = Some (QReady path meta) ->
                        exists t rest, skipn k ents = (path, meta, t) :: rest).
  { intros w [[_ H] _]. exact H. }
  intros [-> Hhd].
  apply ht_pre with (P := fun w => w_fs w = fm /\ w_clock w = now); [intros w [[H _] H']; auto|].
  set (h1 := set_q q h) in *.
  eapply ht_bind; [apply (ht_ro fm); [exact HCL | intros P; tk_with leaf1 | ckt]|intros ?].
  eapply ht_bind; [apply (ht_ro fm); [exact HCL | intros P; tk_with leaf1 | ckt]|intros b1].
  destruct b1; [|apply Hret].
  destruct hd as [[z|path meta]|]; [apply Hret| |apply Hret].
  destruct (Hhd path meta eq_refl) as [t [rest Esk]].
  destruct (head_entry k _ _ Esk) as [e [He Ex]]. unfold qent_of in Ex. inversion Ex; subst path meta t. clear Ex.
  pose proof (nth_In_es _ _ He) as Hin.
  assert (Hkn : k < n) by (apply nth_error_Some; congruence).
  cbn [h1 set_q h_cfg h_cpl h_q h_journal]. rewrite Hcfg, Hcpl.
  (* the version *)
  eapply ht_bind.
  { eapply ht_conseq3;
      [intros ? HH; exact HH | intros ? ? HH; exact HH | intros ? HH; exact HH
      |apply (ht_get_timestamp honest fm now (c_version_pattern cfg) (fun w => CL (w_fs w)))]. }
  intros v.
  apply ht_pure_pre with (phi := forall ver, v = Some ver -> ver = version_of cfg now).
  { intros w [_ H]. exact H. }
  intros Hv.
  apply ht_pre with (P := fun w => w_fs w = fm /\ w_clock w = now); [intros w [H _]; exact H|].
  eapply ht_bind; [apply (ht_ro fm); [exact HCL | intros P; tk_with leaf1 | ckt]|intros bv].
  eapply ht_bind.
  { apply (ht_ro fm);
      [exact HCL
      | intros P; (destruct v as [ver|]; [destruct bv; [destruct (existsb is_slash ver)|]|]); tk_with leaf1
      | (destruct v as [ver|]; [destruct bv; [destruct (existsb is_slash ver)|]|]); ckt]. }
  intros ?.
  eapply ht_bind; [apply (ht_ro fm); [exact HCL | intros P; tk_with leaf1 | ckt]|intros b2].
  destruct v as [version|]; [|apply Hret].
  destruct b2; [|apply Hret].
  rewrite (Hv version eq_refl). clear Hv version.
  match goal with |- ht _ _ (if ?x then _ else _) _ _ => destruct x end.
  { eapply ht_bind; [apply (ht_ro fm); [exact HCL | intros P; tk_with leaf1 | ckt]|intros ?].
    eapply ht_bind; [apply (ht_ro fm); [exact HCL | intros P; tk_with leaf1 | ckt]|intros ?]. apply Hret. }
  change (N.odd 0) with false. change (N.testbit 0 1) with false. change (shift_right2 0) with 0.
  cbv iota.
  fold (rel_of cpl (e_path e)). fold (offset_name cfg cpl (e_path e)). fold (offE e).
  eapply ht_bind with (R := fun off w => (w_fs w = fm /\ w_clock w = now) /\ off = 0%N).
  { apply ht_ret. auto. }
  intros off. apply ht_pure_pre with (phi := off = 0%N); [intros w [_ E]; exact E|]. intros ->.
  eapply ht_bind with (R := fun b3 w => (w_fs w = fm /\ w_clock w = now) /\ b3 = tr_ok (w_tr w)).
  { apply ht_is_ok. intros w [H _]. auto. }
  intros b3. destruct b3; cbn [negb];
    [|eapply ht_pre; [|apply Hret]; intros w [H _]; exact H].
  eapply ht_bind with
    (R := fun f w => ((w_fs w = fm /\ t_frames (w_tr w) = []) /\ w_clock w = now) /\ f = fm).
  { intros o w _ [[H1 H1'] H2]. cbn. split; [split; [split; [exact H1|] | exact H1'] | exact H1].
    apply PassProofs.tr_ok_frames. auto. }
  intros f. apply ht_pure_pre with (phi := f = fm); [intros w [_ E]; exact E|]. intros ->.
  (* the copy loop *)
  change (N.to_nat 0) with 0.
  set (sp := create_store_path (c_store_root cfg) (rel_of cpl (e_path e)) (version_of cfg now)).
  assert (Esp : current_path sp = dstE e) by apply current_path_create.
  assert (HS0 : Step fm (dstE e) fm) by (eapply Step_refl; eauto).
  pose proof (L_src _ _ _ e HL Hin) as Hsrc.
  pose proof (NK_off NK e e Hin Hin) as [Hod Hop].
  eapply ht_bind.
  { eapply ht_conseq3;
      [| | |apply (ht_ck now honest _ _ _ _ (ck_file_store_loop _ sp (e_path e) (offE e) 0 false cfg)
                    (ht_fsl fm (dstE e) (e_path e) (e_ino e) (e_bytes e) (offE e) cfg HS0 Hsrc
                            (Hst e He) (L_off _ _ _ e HL Hin) Hod Hop _ sp Esp))].
    - intros w [H _]. exact H.
    - intros r w H. exact H.
    - intros w [H1 [_ [_ [_ H2]]]]. exists k, q. split; [exact Hk|]. eapply L_step; eauto. }
  intros r2. destruct r2 as [[ev is_stored] sp'].
  cbn [Nat.ltb Nat.leb andb].
  (* the tail *)
  apply ht_freeze. intros w1 [[[HS1 [_ [_ [_ HP1]]]] Hcp] Hclk1].
  set (f1 := w_fs w1) in *.
  assert (HL1 : L k q f1) by (eapply L_step; eauto).
  assert (HCL1 : CL f1) by (exists k, q; auto).
  pose proof (QRel_fit _ _ _ (L_q _ _ _ HL1)) as Hfit.
  assert (Hfail : forall (h2 : handler) (P : world -> Prop),
            (forall w, P w -> (w_fs w = f1 /\ w_clock w = now) /\ tr_ok (w_tr w) = false) ->
            ht honest P
               (do b4 <- is_ok;
                if negb b4 then throw_context (e_path e);; throw_static M_store_cannot_copy;; ret_ (TError, h2)
                else ret_ tt;; record_event ev 0 (rel_of cpl (e_path e)) h2;; handle_timeout_loop fuel rev h2)
               (fun _ w => CL (w_fs w)) (fun w => CL (w_fs w))).
  { intros h2 P HP.
    eapply ht_bind with (R := fun b4 w => (w_fs w = f1 /\ w_clock w = now) /\ b4 = false).
    { apply ht_is_ok. intros w Hw. destruct (HP w Hw) as [A B]. rewrite B. auto. }
    intros b4. apply ht_pure_pre with (phi := b4 = false); [intros w [_ E]; exact E|]. intros ->.
    cbn [negb]. apply ht_pre with (P := fun w => w_fs w = f1 /\ w_clock w = now); [intros w [H _]; exact H|].
    eapply ht_bind; [apply (ht_ro f1); [exact HCL1 | intros P0; tk_with leaf1 | ckt]|intros ?].
    eapply ht_bind; [apply (ht_ro f1); [exact HCL1 | intros P0; tk_with leaf1 | ckt]|intros ?].
    apply ht_ret_CL. exact HCL1. }
  destruct (tr_ok (w_tr w1)) eqn:Eok.
  - (* the copy is complete *)
    destruct (Hcp eq_refl) as [jd [Hjd Hbd]]. cbn [skipn] in Hbd.
    eapply ht_bind.
    { eapply ht_conseq3;
        [| | |apply (ht_ck now honest _ _ _ _ (ck_q_pop_head q) (ht_pop_strong honest f1 q Hfit))].
      - intros w ->. auto.
      - intros q2 w H. exact H.
      - intros w H. cbv beta in H. rewrite H. exact HCL1. }
    intros q2.
    eapply ht_conseq3 with
      (P := fun w => ((q2 = q /\ w_fs w = f1 /\ tr_ok (w_tr w) = false) /\ w_clock w = now) \/
                     ((exists x t, lookup f1 (head_name q) = Some (NLink x t) /\
                                   q2 = popped (strip x) q /\ w_fs w = del_dent (head_name q) f1) /\
                      w_clock w = now));
      [| intros r w H; exact H | intros w H; exact H |].
    { intros w [[H|H] H']; [left | right]; auto. }
    apply ht_pre_or.
    + apply Hfail. intros w [[_ [H1 H2]] H3]. auto.
    + apply ht_pure_pre with
        (phi := exists x t, lookup f1 (head_name q) = Some (NLink x t) /\ q2 = popped (strip x) q).
      { intros w [[x [t [H1 [H2 _]]]] _]. exists x, t. auto. }
      intros [x [t [Hl ->]]].
      set (q2 := popped (strip x) q). set (f2 := del_dent (head_name q) f1).
      destruct (L_pop k q f1 e x t HL1 He (ex_intro _ jd (conj Hjd Hbd)) Hl) as [HL2 Hst2].
      fold q2 f2 in HL2, Hst2.
      assert (HCL2 : CL f2) by (exists (S k), q2; split; [lia | exact HL2]).
      apply ht_pre with (P := fun w => w_fs w = f2 /\ w_clock w = now).
      { intros w [[x' [t' [_ [_ H]]]] H']. auto. }
      eapply ht_bind; [apply (ht_ro f2); [exact HCL2 | intros P0; tk_with leaf1 | ckt]|intros b4].
      destruct (negb b4).
      { eapply ht_bind; [apply (ht_ro f2); [exact HCL2 | intros P0; tk_with leaf1 | ckt]|intros ?].
        eapply ht_bind; [apply (ht_ro f2); [exact HCL2 | intros P0; tk_with leaf1 | ckt]|intros ?].
        apply ht_ret_CL. exact HCL2. }
      eapply ht_bind; [apply (ht_ro f2); [exact HCL2 | intros P0; tk_with leaf1 | ckt]|intros ?].
      set (X := fun f => L (S k) q2 f /\ start (S k) f).
      assert (HXa : forall jn, h_journal (set_q q2 h1) = Some jn ->
                      forall f y, X f -> X (fs_append (j_ino jn) y f)).
      { intros jn Hj f y [A B]. cbn [h1 set_q h_journal] in Hj. rewrite Hoj in Hj.
        destruct (L_ja (S k) q2 f _ A (JA_append jn y f Hj)) as [A' B']. split; [exact A' | apply B'; exact B]. }
      eapply ht_bind with (R := fun _ w => X (w_fs w) /\ w_clock w = now).
      { eapply ht_conseq3;
          [| | |apply (ht_ck now honest _ _ _ _ (ck_record_event ev 0%N (rel_of cpl (e_path e)) (set_q q2 h1))
                        (tok_lift honest X _ (tok_record_event_app X ev 0%N _ (set_q q2 h1) HXa)))].
        - intros w [H H']. rewrite H. split; [split; assumption | exact H'].
        - intros ? w H. exact H.
        - intros w [H _]. exists (S k), q2. split; [lia | exact H]. }
      intros ?.
      eapply ht_pre; [|apply (IH rev (set_q q2 h1) (S k))].
      * intros w [[A B] C]. cbn [set_q h_q]. auto.
      * repeat split; assumption.
      * lia.
  - (* the copy has failed: no pop *)
    apply ht_pre with (P := fun w => (w_fs w = f1 /\ w_clock w = now) /\ tr_ok (w_tr w) = false);
      [intros w ->; auto|].
    eapply ht_bind.
    { apply (ht_pop_skip honest (fun w => w_fs w = f1 /\ w_clock w = now) (fun w => CL (w_fs w)) q). }
    intros q2. apply ht_pure_pre with (phi := q2 = q); [intros w [E _]; exact E|]. intros ->.
    apply Hfail. intros w [_ H]. exact H.
Qed.

(* ----- the pass ----- *)

Theorem crash_frame_pass o rev h w :
  honest o -> HIh h -> h_q h = q0 -> w_fs w = f0 -> w_clock w = now ->
  CL (w_fs (snd (handle_timeout rev h o w))).
Proof.
  intros Ho Hh Hq Hf Hc.
  destruct L_init as [HL0 Hst0].
  assert (Hpre : (L 0 (h_q h) (w_fs w) /\ start 0 (w_fs w)) /\ w_clock w = now).
  { rewrite Hq, Hf. auto. }
  pose proof (loopL (S (S (N.to_nat (q_size (h_q h))))) rev h 0 Hh (Nat.le_0_l _) o w Ho Hpre) as HLp.
  unfold handle_timeout, bind.
  destruct (handle_timeout_loop (S (S (N.to_nat (q_size (h_q h))))) rev h o w) as [[r|] w1].
  - rewrite is_ok_eq. unfold ret_. cbn [snd]. exact HLp.
  - cbn [snd]. exact HLp.
Qed.

End Pass1.

Print Assumptions crash_frame_pass.
