(* Model of the mount-table reader of src/mountinfo.c (load_mountinfo): the text
   of /proc/self/mounts is cut into records at newlines, the first field of a
   record is skipped, the second one - the mount point - is decoded and added
   to the set of mount points.  The kernel side (how a mount point is written
   into that text: fs/proc_namespace.c, seq_path_root -> mangle_path with the
   escape set " \t\n\\") is modelled next to it, so that the two can be
   composed: what klunok reads back is what is mounted.  Definitions only. *)
From K Require Export Str.
From Coq Require Import NArith.
Local Open Scope N_scope.

Definition ch_space : ascii := ascii_of_N 32.
Definition ch_bsl : ascii := ascii_of_N 92.
Definition is_nul (c : ascii) : bool := N_of_ascii c =? 0.

(* ---- kernel side ---- *)
Definition kernel_escapes (c : ascii) : bool :=
  Ascii.eqb c ch_space || Ascii.eqb c ch_tab || Ascii.eqb c ch_nl || Ascii.eqb c ch_bsl.
Definition oct_digit (n : N) : ascii := ascii_of_N (48 + n).
Definition mangle_char (c : ascii) : str :=
  if kernel_escapes c
  then let n := N_of_ascii c in [ch_bsl; oct_digit (n / 64); oct_digit ((n / 8) mod 8); oct_digit (n mod 8)]
  else [c].
Definition mangle (s : str) : str := flat_map mangle_char s.

Record mount := mkMount { m_dev : str; m_dir : str; m_rest : str }.   (* m_rest: "ext4 rw,relatime 0 0" *)
Definition mount_line (m : mount) : str :=
  mangle (m_dev m) ++ [ch_space] ++ mangle (m_dir m) ++ [ch_space] ++ m_rest m ++ [ch_nl].
Definition render_mounts (ms : list mount) : str := flat_map mount_line ms.

(* ---- klunok side ---- *)
(* strsep(&cursor, "d"): the piece before the first delimiter and what follows
   it; None when there is no delimiter (the cursor becomes NULL) *)
Fixpoint strsep (d : ascii) (s : str) : str * option str :=
  match s with
  | [] => ([], None)
  | c :: r => if Ascii.eqb c d then ([], Some r)
              else let '(a, b) := strsep d r in (c :: a, b)
  end.

(* the records the loop `for (record = strsep(&cursor, "\n"); record; ...)` sees:
   one more than there are newlines *)
Fixpoint split_on (d : ascii) (s : str) : list str :=
  match s with
  | [] => [[]]
  | c :: r => match split_on d r with
              | [] => [[]]
              | p :: ps => if Ascii.eqb c d then [] :: p :: ps else (c :: p) :: ps
              end
  end.

(* `strsep(&record, " "); if (record) ... strsep(&record, " ")` *)
Definition second_field (record : str) : option str :=
  match snd (strsep ch_space record) with
  | None => None
  | Some rest => Some (fst (strsep ch_space rest))
  end.

Definition is_oct (hi : N) (c : ascii) : bool :=
  let n := N_of_ascii c in (48 <=? n) && (n <=? hi).
Definition oct_val (c : ascii) : N := N_of_ascii c - 48.

(* a backslash followed by three octal digits (the first at most 3) is one
   character; anything else stands for itself *)
Fixpoint unescape (s : str) : str :=
  match s with
  | [] => []
  | b :: tl =>
      match tl with
      | d1 :: d2 :: d3 :: r =>
          if Ascii.eqb b ch_bsl && is_oct 51 d1 && is_oct 55 d2 && is_oct 55 d3
          then ascii_of_N (oct_val d1 * 64 + oct_val d2 * 8 + oct_val d3) :: unescape r
          else b :: unescape tl
      | _ => b :: unescape tl
      end
  end.

(* a C string ends at its first NUL *)
Fixpoint cut_nul (s : str) : str :=
  match s with
  | [] => []
  | c :: r => if is_nul c then [] else c :: cut_nul r
  end.

Definition record_mounts (decode : bool) (record : str) : list str :=
  match second_field record with
  | Some f => [if decode then cut_nul (unescape f) else f]
  | None => []
  end.

(* the mount points load_mountinfo puts into its set, in order.  [decode] =
   false is the reader as it was before fix (kept to state what was wrong) *)
Definition parse_mounts_gen (decode : bool) (content : str) : list str :=
  flat_map (record_mounts decode) (split_on ch_nl content).
Definition parse_mounts : str -> list str := parse_mounts_gen true.
