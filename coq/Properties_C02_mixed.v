(* C02 / C08 / C11 in ONE pass (MixedPass.v): a timeout pass whose due prefix mixes
   entries of all four kinds, in any order -
     IPlain   an ordinary file            -> one version, a whole copy
     IHist    an append-only history file -> one version = the bytes from the
                                             remembered position on; position := length
     IMember  a file inside a project     -> one version + the unstable tree's link
     IProject a project                   -> one snapshot directory
   - for every benign oracle and both traversal orders.  item_ok = the side
   conditions of each kind ON THE INITIAL file system; items_indep = pairwise: no
   item's footprint (wr = names it may change, mk = directories it may make, xi =
   old inodes it may rewrite) touches what another item reads or has left behind.
   istory = item by item, in queue order: its side conditions still hold when its
   turn comes, its own postcondition holds across its iteration, and what it stored
   is still there at the end.  Then: nothing extra appears, nothing is lost, the
   queue is the rest, no error; versions are created in queue order ("nor reorder")
   and the journal gains exactly one line per item in that order. *)
From K Require Import Str Dec Trace Fs World Progs Sieve Handler Linq LinqSpec LinqProofs
     SyncProofs AbandonProofs QueueProofs JournalProofs PassProofs PassProofs2 MemberProofs MixedPass.

Theorem C02_mixed_pass : forall o rev its rest h w,
  benign o ->
  tr_ok (w_tr w) = true -> keys_nodup (w_fs w) -> parents_exist (w_fs w) ->
  let cfg := h_cfg h in let cpl := h_cpl h in let oj := h_journal h in
  let qdir := q_dir (h_q h) in let now := w_clock w in let f := w_fs w in
  QRel (h_q h) f (map qent_of_item its ++ rest) ->
  Forall (fun it => (q_deb (h_q h) <= now - itime it)%Z) its ->
  ilast its rest ->
  not_due now (q_deb (h_q h)) rest ->
  Forall (item_ok cfg cpl oj qdir now f) its ->
  items_indep cfg cpl now its ->
  exists w',
    handle_timeout rev h o w =
      (Some (TPause (pause_of now (q_deb (h_q h)) rest), set_q (ipops its (h_q h)) h), w') /\
    let f' := w_fs w' in
    istory cfg cpl oj qdir now its (h_q h) f f' f' /\
    (forall x, Str.under qdir x = false ->
               (forall it, In it its -> wr cfg cpl now it x = false /\ ~ In x (mk cfg cpl now it)) ->
               lookup f' x = lookup f x) /\
    (forall x, Str.under qdir x = false -> lookup f x <> None ->
               (forall it, In it its -> wr cfg cpl now it x = false) -> lookup f' x = lookup f x) /\
    (forall k, k < fs_next f -> (forall it, In it its -> ~ In k (xi it)) ->
               (forall jn, oj = Some jn -> k <> j_ino jn) -> get_file f' k = get_file f k) /\
    QRel (ipops its (h_q h)) f' rest /\ keys_nodup f' /\ parents_exist f' /\
    tr_ok (w_tr w') = true /\ (t_post (w_tr w) = 0 -> w_tr w' = w_tr w) /\
    w_clock w' = now.
Proof. exact handle_timeout_mixed_pass. Qed.
Print Assumptions C02_mixed_pass.

(* C11 inside a mixed pass: a member, anything independent in between, its project:
   the snapshot holds, at the member's path, the inode of the version just stored *)
Theorem C11_mixed_member_project : forall o rev l1 p k t i b l2 P t2 l3 rest h w X name r,
  benign o ->
  tr_ok (w_tr w) = true -> keys_nodup (w_fs w) -> parents_exist (w_fs w) ->
  let cfg := h_cfg h in let cpl := h_cpl h in let oj := h_journal h in
  let qdir := q_dir (h_q h) in let now := w_clock w in let f := w_fs w in
  let its := l1 ++ IMember p k t i b :: l2 ++ IProject P t2 :: l3 in
  QRel (h_q h) f (map qent_of_item its ++ rest) ->
  Forall (fun it => (q_deb (h_q h) <= now - itime it)%Z) its ->
  ilast its rest -> not_due now (q_deb (h_q h)) rest ->
  Forall (item_ok cfg cpl oj qdir now f) its -> items_indep cfg cpl now its ->
  member_split p k X name (ch_slash :: r) -> P = firstn k p ->
  Forall (fun c => wr cfg cpl now c (member_path cfg p k) = false /\ wr cfg cpl now c p = false) l2 ->
  exists w' n,
    handle_timeout rev h o w =
      (Some (TPause (pause_of now (q_deb (h_q h)) rest), set_q (ipops its (h_q h)) h), w') /\
    lookup (w_fs w') (store_name cfg cpl now p) = Some (NFile n) /\
    f_bytes (get_file (w_fs w') n) = b /\
    lookup (w_fs w') (pD cfg now P) = Some NDir /\
    lookup (w_fs w') (pD cfg now P ++ ch_slash :: r) = Some (NFile n) /\
    tr_ok (w_tr w') = true.
Proof. exact mixed_pass_member_project. Qed.
Print Assumptions C11_mixed_member_project.

(* the journal gains exactly one line per item, in queue order *)
Theorem C19_mixed_pass_journal : forall cfg cpl oj qdir now jn, oj = Some jn -> forall its q f f' ff,
  istory cfg cpl oj qdir now its q f f' ff ->
  f_bytes (get_file f' (j_ino jn)) = f_bytes (get_file f (j_ino jn)) ++ ijlines cfg cpl oj now its.
Proof. exact istory_journal. Qed.
Print Assumptions C19_mixed_pass_journal.

(* non-vacuity: history /h/l, plain /h/a, member /h/p/m.c, project /h/p, then /h/z not due *)
Example C02_mixed_instance := MixedPassExample.pass_by_theorem.
Example C11_mixed_instance := MixedPassExample.member_project_by_theorem.
