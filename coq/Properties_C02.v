(* C02 Every qualifying write is versioned exactly once per burst (queue part).
   The queue hands a path to the store exactly as the reference coalescing FIFO
   does (C14_refines_fifo): once per burst, in order of the last write, and
   nothing pending means an indefinite wait.  What the store then does with the
   path is C05_copy_exact; the handler-level composition is tied by the
   correspondence and the burst monitor of the check. *)
From K Require Import Str SetM SetProofs Linq LinqSpec LinqProofs DebounceProofs.
Local Open Scope Z_scope.

(* a burst of writes to one path is coalesced: draining a due queue yields each
   path once, in the order of its last write *)
Theorem C02_once_per_burst : forall (now deb : Z) (q : list qent) (fuel : nat),
  (forall e, In e q -> now - snd e >= deb) -> (length q <= fuel)%nat ->
  ref_drain fuel now deb q = map (fun e => (qpath e, snd (fst e))) (keep_last q) /\
  NoDup (map qpath (keep_last q)).
Proof.
  intros now deb q fuel H1 H2. split; [apply ref_drain_keep_last; assumption|].
  clear. induction q as [|e q IH]; simpl; [constructor|].
  destruct (occurs (qpath e) q) eqn:E; [assumption|].
  simpl. constructor; [|assumption].
  intros Hin. assert (Ho : occurs (qpath e) q = true); [|congruence].
  clear -Hin. induction q as [|x q IH]; simpl in *; [tauto|].
  destruct (occurs (qpath x) q) eqn:Ex.
  - rewrite IH by assumption. apply orb_true_r.
  - simpl in Hin. destruct Hin as [Hin|Hin].
    + rewrite Hin, str_eqb_refl. reflexivity.
    + rewrite IH by assumption. apply orb_true_r.
Qed.
Print Assumptions C02_once_per_burst.

(* the model queue behaves as that reference for every interleaving of writes to
   any number of files, clock advances, timeout passes and restarts *)
Theorem C02_queue_is_reference : forall (deb : Z) (g : nat) (now : Z) (ops : list lop),
  Forall wf_op ops ->
  snd (lrun (linit deb g now) ops) = snd (rrun (mkRS [] deb now) ops).
Proof. exact refines. Qed.
Print Assumptions C02_queue_is_reference.

(* with nothing pending the daemon requests an indefinite wait *)
Theorem C02_idle : forall (fuel : nat) (now : Z) (l : linq),
  l_size l = 0%N -> get_head fuel now l = (HPause (-1), l).
Proof. intros fuel now l H. destruct fuel; simpl; rewrite H; reflexivity. Qed.
Print Assumptions C02_idle.

Example C02_example :
  let a := [ch_slash; "a"%char] in let b := [ch_slash; "b"%char] in
  ref_drain 9 10 2 [(a, 0%N, 1); (b, 0%N, 2); (a, 0%N, 3); (a, 0%N, 4)] = [(b, 0%N); (a, 0%N)].
Proof. vm_compute. reflexivity. Qed.
