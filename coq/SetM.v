(* Model of src/buffer.c (hash cache) and src/set.c (string multiset).
   No proofs in this file: it must still run when a proof breaks. *)
From K Require Export Str.
Local Open Scope N_scope.

(* ---------- hash (buffer.c: get_hash) ---------- *)

Definition two64 : N := 18446744073709551616.

(* a C [char] on x86-64 is signed: bytes >= 128 are sign-extended to size_t *)
Definition schar (c : ascii) : N :=
  let b := N_of_ascii c in
  if b <? 128 then b else two64 - 256 + b.

(* hash = character + (hash << 6) + (hash << 16) - hash   (mod 2^64) *)
Definition mask64 : N := 18446744073709551615.
(* N.land with 2^64-1 is reduction mod 2^64 (N.land_ones); h < 2^64 always holds here *)
Definition hash_step (h : N) (c : ascii) : N :=
  N.land (schar c + h * 64 + h * 65536 + (two64 - h)) mask64.

Definition hash (s : str) : N := fold_left hash_step s 0.

(* ---------- buffer with lazily extended hash cache ---------- *)

Record buffer := mkBuf { b_str : str; b_hval : N; b_seen : nat }.

Definition buf_empty : buffer := mkBuf [] 0 0.
Definition buf_concat_char (c : ascii) (b : buffer) : buffer :=
  mkBuf (b_str b ++ [c]) (b_hval b) (b_seen b).
Definition buf_concat_string (s : str) (b : buffer) : buffer :=
  mkBuf (b_str b ++ s) (b_hval b) (b_seen b).
(* set_length asserts length < size, i.e. n <= current length *)
Definition buf_set_length (n : nat) (b : buffer) : buffer :=
  mkBuf (firstn n (b_str b)) 0 0.
(* get_hash: extend the cached value over the unseen suffix *)
Definition buf_get_hash (b : buffer) : N * buffer :=
  let h := fold_left hash_step (skipn (b_seen b) (b_str b)) (b_hval b) in
  (h, mkBuf (b_str b) h (Nat.max (b_seen b) (length (b_str b)))).

Inductive buf_op := BChar (c : ascii) | BStr (s : str) | BSetLen (n : nat) | BHash.

(* returns observations of BHash in order *)
Fixpoint buf_run (ops : list buf_op) (b : buffer) : list N * buffer :=
  match ops with
  | [] => ([], b)
  | BChar c :: r => buf_run r (buf_concat_char c b)
  | BStr s :: r => buf_run r (buf_concat_string s b)
  | BSetLen n :: r => buf_run r (buf_set_length (Nat.min n (length (b_str b))) b)
  | BHash :: r => let '(h, b') := buf_get_hash b in
                  let '(hs, b'') := buf_run r b' in (h :: hs, b'')
  end.

(* ---------- set.c ---------- *)

Notation chain := (list (str * nat)).

Record set := mkSet { s_heads : list chain; s_ehc : nat }.

Definition set_size (s : set) : nat := length (s_heads s).

Definition create_set (size_guess : nat) : set :=
  let size := (size_guess * 2 + 2)%nat in
  mkSet (repeat [] size) size.

Definition is_empty (s : set) : bool := Nat.eqb (s_ehc s) (set_size s).

Definition bucket_of (v : str) (s : set) : nat :=
  N.to_nat (hash v mod N.of_nat (set_size s)).

Fixpoint chain_count (v : str) (c : chain) : nat :=
  match c with
  | [] => 0%nat
  | (w, n) :: c' => if str_eqb v w then n else chain_count v c'
  end.

Fixpoint chain_mem (v : str) (c : chain) : bool :=
  match c with
  | [] => false
  | (w, _) :: c' => str_eqb v w || chain_mem v c'
  end.

(* ++count of the first matching entry *)
Fixpoint chain_incr (v : str) (c : chain) : chain :=
  match c with
  | [] => []
  | (w, n) :: c' => if str_eqb v w then (w, S n) :: c' else (w, n) :: chain_incr v c'
  end.

(* --count of the first matching entry; unlink it when it reaches zero *)
Fixpoint chain_decr (v : str) (c : chain) : chain :=
  match c with
  | [] => []
  | (w, n) :: c' =>
      if str_eqb v w then (if Nat.eqb (Nat.pred n) 0 then c' else (w, Nat.pred n) :: c')
      else (w, n) :: chain_decr v c'
  end.

Fixpoint update_nth {A} (i : nat) (x : A) (l : list A) : list A :=
  match l, i with
  | [], _ => []
  | _ :: l', O => x :: l'
  | y :: l', S i' => y :: update_nth i' x l'
  end.

Definition is_nil {A} (l : list A) : bool := match l with [] => true | _ => false end.

Definition get_count (v : str) (s : set) : nat :=
  if is_empty s then 0%nat
  else chain_count v (nth (bucket_of v s) (s_heads s) []).

Definition is_within (v : str) (s : set) : bool := negb (Nat.eqb (get_count v s) 0).

Definition set_add (v : str) (s : set) : set :=
  let i := bucket_of v s in
  let c := nth i (s_heads s) [] in
  if chain_mem v c then mkSet (update_nth i (chain_incr v c) (s_heads s)) (s_ehc s)
  else mkSet (update_nth i ((v, 1%nat) :: c) (s_heads s))
             (if is_nil c then Nat.pred (s_ehc s) else s_ehc s).

Definition set_pop (v : str) (s : set) : set :=
  let i := bucket_of v s in
  let c := nth i (s_heads s) [] in
  if chain_mem v c then
    let c' := chain_decr v c in
    mkSet (update_nth i c' (s_heads s))
          (if is_nil c' then S (s_ehc s) else s_ehc s)
  else s.

Inductive set_op := SAdd (v : str) | SPop (v : str).

Definition set_step (s : set) (o : set_op) : set :=
  match o with SAdd v => set_add v s | SPop v => set_pop v s end.

Definition set_run (g : nat) (ops : list set_op) : set :=
  fold_left set_step ops (create_set g).
